(* Correspondence for C28: one application of a (possibly tampered) change set by the real
   Block.ApplyBlockStateChange, with trie nodes abstracted to (hash id, child hash ids). *)
From ZC Require Import Base.Corr Model.StateChange Gen.StateChangeApply Proof.StateChangeSrc.
From Coq Require Import ZArith.
Open Scope Z_scope.

Definition scc_node : Type := (Z * list Z)%type.

Inductive scc_out := SoOk | SoNoChange | SoErr (e : sc_err) | SoOther.

Record scc_case := {
  scc_local : list scc_node;  (* nodes of the previous state the new nodes may refer to *)
  scc_block : sc_block Z Z;
  scc_change : sc_change scc_node Z Z;
  scc_computed : bool;        (* ComputeProperties was run on the change set (the decode path) *)
  scc_status : scc_out;
  scc_root : Z                (* root of the state the block got (0 when none) *)
}.

Definition scc_err_eqb (a b : sc_err) : bool :=
  match a, b with
  | EBlockHash, EBlockHash | EStateHash, EStateHash | EStateRoot, EStateRoot
  | EMalformed, EMalformed | EInvalid, EInvalid => true
  | _, _ => false
  end.

Definition scc_check (c : scc_case) : bool :=
  let res :=
    if scc_computed c
    then sc_sync_src scc_node Z Z Z.eqb Z.eqb fst snd (scc_local c) (scc_block c) (scc_change c)
    else sc_apply scc_node Z Z Z.eqb Z.eqb (scc_local c) (scc_block c) (scc_change c) false in
  match res, scc_status c with
  | ScOk _ r, SoOk => Z.eqb r (scc_root c)
  | ScNoChange, SoNoChange => true
  | ScErr e, SoErr e' => scc_err_eqb e e'
  | _, _ => false
  end.
