(* Executable instance of Model/DKG.v over Z modulo a prime p (the code: p = order r of the
   BN254 groups, scalars = Fr), with G1 = G2 = GT = the field itself, g2 = 1, H(m) = 1 and
   e = multiplication: a group element is represented by its discrete logarithm.  Used by the
   correspondence check (Corr/DKG.v); Proof/DKGLink.v proves that these functions are the
   images of the MathComp definitions in every field of characteristic p.
   Definitions only (stdlib style). *)
From Coq Require Import List ZArith Bool.
Import ListNotations.
Open Scope Z_scope.

(* order of the BN254 (CurveFp254BNb) groups used by bls.Init in dkg.go / bls0chain.go *)
Definition dz_r : Z :=
  16798108731015832284940804142231733909759579603404752749028378864165570215949.

Section DZ.
Variable p : Z.

(* Horner evaluation of c0 + c1 x + ... (SecretKey.Set(msk, id)) *)
Fixpoint dz_eval (cs : list Z) (x : Z) : Z :=
  match cs with
  | [] => 0
  | c :: tl => (c + x * dz_eval tl x) mod p
  end.

Definition dz_sum (l : list Z) : Z := fold_right (fun a acc => (a + acc) mod p) 0 l.

(* GenerateSplitKeys: the serialized secret (private key bytes) of every split key IS its scalar;
   the keys are the n-1 drawn ones followed by primary - their sum *)
Definition dz_split (sk : Z) (ks : list Z) : list Z := ks ++ [(sk - dz_sum ks) mod p].

Definition dz_share (cs : list Z) (i : Z) : Z := dz_eval cs i.

(* with g2 = 1 the public polynomial is the coefficient list itself *)
Definition dz_validate (mpk : list Z) (i s : Z) : bool := Z.eqb s (dz_eval mpk i).

Definition dz_sk (css : list (list Z)) (i : Z) : Z := dz_sum (map (fun cs => dz_eval cs i) css).
Definition dz_gsk (css : list (list Z)) : Z := dz_sum (map (fun cs => nth 0 cs 0) css).

Fixpoint dz_uniq (l : list Z) : bool :=
  match l with
  | [] => true
  | x :: tl => negb (existsb (Z.eqb x) tl) && dz_uniq tl
  end.

Definition dz_prod (l : list Z) : Z := fold_right (fun a acc => (a * acc) mod p) (1 mod p) l.

(* Sign.Recover, division free.  The Lagrange coefficient of id i at 0 is num_i / den_i with
     num_i = prod_{j <> i} j        den_i = prod_{j <> i} (j - i).
   The caller supplies candidate coefficients (hints, one per pair, computed by the engine with
   a modular inverse); a hint l_i is accepted when l_i * den_i = num_i, which determines it when
   the ids are distinct.  [dz_recover_ok prs hints oc] decides whether oc is the result of
   recovering from the (id, value) pairs prs: failure on the empty list, the only value when
   there is one, failure when an id is zero or repeated, otherwise sum_i l_i * value_i. *)
Definition dz_others (ids : list Z) (i : Z) : list Z := filter (fun j => negb (Z.eqb j i)) ids.
Definition dz_den (ids : list Z) (i : Z) : Z := dz_prod (map (fun j => (j - i) mod p) (dz_others ids i)).
Definition dz_num (ids : list Z) (i : Z) : Z := dz_prod (dz_others ids i).

Definition dz_canon (z : Z) : bool := (0 <=? z) && (z <? p).

Fixpoint dz_hints_ok (ids : list Z) (is : list Z) (hints : list Z) : bool :=
  match is, hints with
  | [], [] => true
  | i :: is', l :: hints' =>
      dz_canon l && Z.eqb ((l * dz_den ids i) mod p) (dz_num ids i) && dz_hints_ok ids is' hints'
  | _, _ => false
  end.

Fixpoint dz_comb (hints : list Z) (vals : list Z) : Z :=
  match hints, vals with
  | l :: hints', v :: vals' => ((l * v) mod p + dz_comb hints' vals') mod p
  | _, _ => 0
  end.

Definition dz_ids_ok (ids : list Z) : bool := dz_uniq ids && negb (existsb (Z.eqb 0) ids).

Definition dz_recover_ok (prs : list (Z * Z)) (hints : list Z) (oc : option Z) : bool :=
  match prs with
  | [] => match oc with None => true | Some _ => false end
  | [pr] => match oc with Some c => Z.eqb c (snd pr) | None => false end
  | _ => let ids := map fst prs in
         match oc with
         | Some c => dz_ids_ok ids && dz_hints_ok ids ids hints
                     && Z.eqb c (dz_comb hints (map snd prs))
         | None => negb (dz_ids_ok ids)
         end
  end.

(* verification of a signature with discrete logarithm s (relative to H(m)) under the public key
   with discrete logarithm k (relative to g2), same message: e(s H, g2) == e(H, k g2) *)
Definition dz_verify (k s : Z) : bool := Z.eqb s k.

End DZ.
