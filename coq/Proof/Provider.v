(* Lemmas about Model/Provider.v (C23). *)
From ZC Require Import Model.StakePool Model.Provider Proof.StakePool.
Open Scope Z_scope.

Lemma sp_slash_fraction_props : forall sp f sp', sp_slash_fraction sp f = Some sp' ->
  sp_killed sp' = sp_killed sp /\ sp_set sp' = sp_set sp /\ sp_reward sp' = sp_reward sp /\
  length (sp_pools sp') = length (sp_pools sp) /\
  map dp_id (sp_pools sp') = map dp_id (sp_pools sp) /\ map dp_reward (sp_pools sp') = map dp_reward (sp_pools sp).
Proof.
  unfold sp_slash_fraction. intros sp f sp' H.
  destruct (f64_eqb f f64_zero); [inversion H; subst; repeat split; reflexivity|].
  destruct (f64_ltb f f64_zero || f64_gtb f sp_f64_one); [discriminate|].
  match type of H with match sp_slash_pools ?r _ with _ => _ end = _ => set (red := r) in * end.
  destruct (sp_slash_pools red (sp_pools sp)) as [ps|] eqn:E; [|discriminate].
  inversion H; subst; clear H. simpl.
  assert (G : length ps = length (sp_pools sp) /\ map dp_id ps = map dp_id (sp_pools sp) /\
              map dp_reward ps = map dp_reward (sp_pools sp)).
  { revert ps E. induction (sp_pools sp) as [|p tl IH]; intros ps E; simpl in E.
    - inversion E; subst. repeat split; reflexivity.
    - destruct (f64_mult_coin (dp_bal p) red); [|discriminate].
      destruct (sp_slash_pools red tl) as [tl'|]; [|discriminate]. inversion E; subst.
      destruct (IH tl' eq_refl) as (A & B & C). simpl. repeat split; congruence. }
  destruct G as (A & B & C). repeat split; assumption.
Qed.

Lemma sp_kill_props : forall sp f sp', sp_kill sp f = Some sp' ->
  sp_killed sp' = true /\ sp_set sp' = sp_set sp /\ sp_reward sp' = sp_reward sp /\
  length (sp_pools sp') = length (sp_pools sp) /\
  map dp_id (sp_pools sp') = map dp_id (sp_pools sp) /\ map dp_reward (sp_pools sp') = map dp_reward (sp_pools sp).
Proof.
  unfold sp_kill. intros sp f sp' H. apply sp_slash_fraction_props in H. simpl in H. exact H.
Qed.

(* the balances after a kill are exactly MultFloat64(balance, clamp(1 - slash)) *)
Definition pv_reduction (f : f64) : f64 :=
  let red0 := f64_sub sp_f64_one f in
  let red1 := if f64_ltb red0 f64_zero then f64_zero else red0 in
  if f64_gtb red1 sp_f64_one then sp_f64_one else red1.

Lemma sp_kill_slashes_exactly : forall sp f sp', sp_kill sp f = Some sp' -> f64_eqb f f64_zero = false ->
  Forall2 (fun p p' => f64_mult_coin (dp_bal p) (pv_reduction f) = Some (dp_bal p')) (sp_pools sp) (sp_pools sp').
Proof.
  unfold sp_kill, sp_slash_fraction, pv_reduction. intros sp f sp' H Hz. rewrite Hz in H.
  destruct (f64_ltb f f64_zero || f64_gtb f sp_f64_one); [discriminate|]. simpl sp_pools in H.
  match type of H with match sp_slash_pools ?r _ with _ => _ end = _ => set (red := r) in * end.
  destruct (sp_slash_pools red (sp_pools sp)) as [ps|] eqn:E; [|discriminate].
  inversion H; subst; clear H. simpl.
  revert ps E. induction (sp_pools sp) as [|p tl IH]; intros ps E; simpl in E.
  - inversion E; subst. constructor.
  - destruct (f64_mult_coin (dp_bal p) red) eqn:M; [|discriminate].
    destruct (sp_slash_pools red tl) as [tl'|]; [|discriminate]. inversion E; subst.
    constructor; [simpl; exact M|apply IH; reflexivity].
Qed.

(* a dead stake pool is never credited *)
Lemma sp_dead_gets_no_reward : forall chargef sharef sp v n draws, sp_killed sp = true ->
  (sp_distribute chargef sharef sp v = SpOk sp \/ sp_distribute chargef sharef sp v = SpErr) /\
  (sp_distribute_randn chargef sharef sp v n draws = SpOk sp \/ sp_distribute_randn chargef sharef sp v n draws = SpErr).
Proof.
  intros chargef sharef sp v n draws Hk. unfold sp_distribute, sp_distribute_randn. rewrite Hk.
  destruct (sp_stake sp); [|split; right; reflexivity].
  rewrite orb_true_r. simpl. split; left; reflexivity.
Qed.

Lemma pv_kill_only_owner : forall owner slash t id caller st, caller <> owner ->
  pv_kill owner slash t id caller st = None /\ pv_kill_node owner t id caller st = None.
Proof.
  intros owner slash t id caller st Hne. unfold pv_kill, pv_kill_node.
  destruct (Z.eqb_spec caller owner); [contradiction|]. simpl. split; [|reflexivity].
  destruct (pv_provs st id); [|reflexivity]. destruct (negb _); [reflexivity|].
  destruct (pv_pools st t id); reflexivity.
Qed.

Lemma pv_set_pool_other : forall st t id v t' id', (t', id') <> (t, id) ->
  pv_pools (pv_set_pool st t id v) t' id' = pv_pools st t' id'.
Proof.
  intros st t id v t' id' H. simpl.
  destruct (Z.eqb_spec t' t); destruct (Z.eqb_spec id' id); simpl; try reflexivity. subst. contradiction.
Qed.

Lemma pv_set_pool_same : forall st t id v, pv_pools (pv_set_pool st t id v) t id = v.
Proof. intros. simpl. rewrite !Z.eqb_refl. reflexivity. Qed.

(* kill: only the owner; the provider's own pool becomes sp_kill of itself (dead, slashed once)
   or is deleted together with an empty provider; every other key is untouched *)
Lemma pv_kill_exact : forall owner slash t id caller st st',
  pv_kill owner slash t id caller st = Some st' ->
  exists p sp, pv_provs st id = Some p /\ pv_type p = t /\ pv_pools st t id = Some sp /\ caller = owner /\
    ((pv_killed p || pv_shut p = true /\ st' = st) \/
     (pv_killed p || pv_shut p = false /\ exists sp', sp_kill sp slash = Some sp' /\
        (forall t' id', (t', id') <> (t, id) -> pv_pools st' t' id' = pv_pools st t' id') /\
        (forall id', id' <> id -> pv_provs st' id' = pv_provs st id') /\
        ((pv_deletable t p sp' = false /\ pv_pools st' t id = Some sp' /\ pv_provs st' id = Some (pv_mark_killed p)) \/
         (pv_deletable t p sp' = true /\ pv_pools st' t id = None /\ pv_provs st' id = None)))).
Proof.
  unfold pv_kill. intros owner slash t id caller st st' H.
  destruct (pv_provs st id) as [p|] eqn:Hp; [|discriminate].
  destruct (Z.eqb_spec (pv_type p) t) as [Ht|]; [|discriminate]. simpl in H.
  destruct (pv_pools st t id) as [sp|] eqn:Hsp; [|discriminate].
  destruct (Z.eqb_spec caller owner) as [Hc|]; [|discriminate]. simpl in H.
  exists p, sp. repeat split; try assumption.
  destruct (pv_killed p || pv_shut p) eqn:Hd.
  - left. split; [reflexivity|]. destruct (t =? pv_blobber); inversion H; reflexivity.
  - right. split; [reflexivity|].
    destruct (sp_kill sp slash) as [sp'|] eqn:Hk; [|discriminate]. exists sp'. split; [reflexivity|].
    destruct (pv_deletable t p sp') eqn:Hdel; inversion H; subst; clear H.
    + split; [intros t' id' Hne; rewrite pv_set_pool_other by assumption; simpl;
              change (pv_pools (pv_set_pool st (pv_type p) id (Some sp')) t' id' = pv_pools st t' id');
              apply pv_set_pool_other; assumption|].
      split; [intros id' Hne; simpl; destruct (Z.eqb_spec id' id); [contradiction|reflexivity]|].
      right. split; [reflexivity|]. split; [apply pv_set_pool_same|simpl; rewrite Z.eqb_refl; reflexivity].
    + split; [intros t' id' Hne; simpl;
              change (pv_pools (pv_set_pool st (pv_type p) id (Some sp')) t' id' = pv_pools st t' id');
              apply pv_set_pool_other; assumption|].
      split; [intros id' Hne; simpl; destruct (Z.eqb_spec id' id); [contradiction|reflexivity]|].
      left. split; [reflexivity|]. split; [simpl; rewrite !Z.eqb_refl; reflexivity|simpl; rewrite Z.eqb_refl; reflexivity].
Qed.

(* kill of a miner / sharder: both flags set, nothing else touched, no slashing *)
Lemma pv_kill_node_exact : forall owner t id caller st st',
  pv_kill_node owner t id caller st = Some st' ->
  exists p sp, pv_provs st id = Some p /\ pv_type p = t /\ pv_pools st t id = Some sp /\ caller = owner /\
    pv_pools st' t id = Some (sp_set_killed sp) /\ pv_provs st' id = Some (pv_mark_killed p) /\
    (forall t' id', (t', id') <> (t, id) -> pv_pools st' t' id' = pv_pools st t' id') /\
    (forall id', id' <> id -> pv_provs st' id' = pv_provs st id').
Proof.
  unfold pv_kill_node. intros owner t id caller st st' H.
  destruct (Z.eqb_spec caller owner) as [Hc|]; [|discriminate]. simpl in H.
  destruct (pv_provs st id) as [p|] eqn:Hp; [|discriminate].
  destruct (pv_pools st t id) as [sp|] eqn:Hsp; [|discriminate].
  destruct (Z.eqb_spec (pv_type p) t) as [Ht|]; [|discriminate]. simpl in H.
  destruct (pv_killed p && sp_killed sp); [discriminate|]. inversion H; subst; clear H.
  exists p, sp. repeat split; try assumption; try reflexivity.
  - simpl. rewrite !Z.eqb_refl. reflexivity.
  - simpl. rewrite Z.eqb_refl. reflexivity.
  - intros t' id' Hne. simpl. destruct (Z.eqb_spec t' (pv_type p)); destruct (Z.eqb_spec id' id); simpl; try reflexivity.
    subst. contradiction.
  - intros id' Hne. simpl. destruct (Z.eqb_spec id' id); [contradiction|reflexivity].
Qed.

(* shutdown: only the owner or the delegate wallet; the provider's own pool becomes sp_kill of
   itself with half the slash (dead, slashed once) or is deleted together with an empty provider;
   every other key is untouched *)
Lemma pv_shutdown_exact : forall owner slash t id caller st st',
  pv_shutdown owner slash t id caller st = Some st' ->
  exists p sp, pv_provs st id = Some p /\ pv_type p = t /\ pv_pools st t id = Some sp /\
    ((pv_killed p || pv_shut p = true /\ st' = st) \/
     (pv_killed p || pv_shut p = false /\ (caller = owner \/ caller = ss_wallet (sp_set sp)) /\
      exists sp', sp_kill sp (f64_div slash (f64_of_Z 2)) = Some sp' /\
        (forall t' id', (t', id') <> (t, id) -> pv_pools st' t' id' = pv_pools st t' id') /\
        (forall id', id' <> id -> pv_provs st' id' = pv_provs st id') /\
        ((pv_deletable t p sp' = false /\ pv_pools st' t id = Some sp' /\ pv_provs st' id = Some (pv_mark_shut p)) \/
         (pv_deletable t p sp' = true /\ pv_pools st' t id = None /\ pv_provs st' id = None)))).
Proof.
  unfold pv_shutdown. intros owner slash t id caller st st' H.
  destruct (pv_provs st id) as [p|] eqn:Hp; [|discriminate].
  destruct (Z.eqb_spec (pv_type p) t) as [Ht|]; [|discriminate]. cbn [negb] in H.
  destruct (pv_pools st t id) as [sp|] eqn:Hsp; [|discriminate].
  exists p, sp. repeat split; try assumption.
  destruct (pv_killed p || pv_shut p) eqn:Hd.
  - left. split; [reflexivity|]. destruct (t =? pv_blobber); inversion H; reflexivity.
  - right. split; [reflexivity|].
    destruct ((caller =? owner) || (caller =? ss_wallet (sp_set sp))) eqn:Hauth; [|discriminate]. cbn [negb] in H.
    split.
    { apply orb_true_iff in Hauth. destruct Hauth as [A|A]; apply Z.eqb_eq in A; [left|right]; exact A. }
    destruct (sp_kill sp (f64_div slash (f64_of_Z 2))) as [sp'|] eqn:Hk; [|discriminate].
    exists sp'. split; [reflexivity|].
    destruct (pv_deletable t p sp') eqn:Hdel; inversion H; subst; clear H.
    + split; [intros t' id' Hne; rewrite pv_set_pool_other by assumption; simpl;
              change (pv_pools (pv_set_pool st (pv_type p) id (Some sp')) t' id' = pv_pools st t' id');
              apply pv_set_pool_other; assumption|].
      split; [intros id' Hne; simpl; destruct (Z.eqb_spec id' id); [contradiction|reflexivity]|].
      right. split; [reflexivity|]. split; [apply pv_set_pool_same|simpl; rewrite Z.eqb_refl; reflexivity].
    + split; [intros t' id' Hne; simpl;
              change (pv_pools (pv_set_pool st (pv_type p) id (Some sp')) t' id' = pv_pools st t' id');
              apply pv_set_pool_other; assumption|].
      split; [intros id' Hne; simpl; destruct (Z.eqb_spec id' id); [contradiction|reflexivity]|].
      left. split; [reflexivity|]. split; [simpl; rewrite !Z.eqb_refl; reflexivity|simpl; rewrite Z.eqb_refl; reflexivity].
Qed.

(* unauthorised callers change nothing: the transaction fails *)
Lemma pv_shutdown_only_owner_or_delegate : forall owner slash t id caller st p sp,
  pv_provs st id = Some p -> pv_pools st t id = Some sp -> pv_killed p || pv_shut p = false ->
  caller <> owner -> caller <> ss_wallet (sp_set sp) ->
  pv_shutdown owner slash t id caller st = None.
Proof.
  intros owner slash t id caller st p sp Hp Hsp Hd Ho Hw.
  destruct (pv_shutdown owner slash t id caller st) as [st'|] eqn:E; [|reflexivity].
  apply pv_shutdown_exact in E. destruct E as (p' & sp' & Hp' & _ & Hsp' & [[Hd' _]|[_ [[A|A] _]]]);
    rewrite Hp in Hp'; rewrite Hsp in Hsp'; inversion Hp'; inversion Hsp'; subst; congruence.
Qed.

(* slashed once: a provider that is already killed or shut down is never slashed again *)
Lemma pv_dead_not_slashed_again : forall owner slash t id caller st p,
  pv_provs st id = Some p -> pv_killed p || pv_shut p = true ->
  (pv_kill owner slash t id caller st = Some st \/ pv_kill owner slash t id caller st = None) /\
  (pv_shutdown owner slash t id caller st = Some st \/ pv_shutdown owner slash t id caller st = None).
Proof.
  intros owner slash t id caller st p Hp Hd. unfold pv_kill, pv_shutdown. rewrite Hp.
  destruct (negb (pv_type p =? t)); [split; right; reflexivity|].
  destruct (pv_pools st t id); [|split; right; reflexivity]. rewrite Hd.
  destruct (negb (caller =? owner)); destruct (t =? pv_blobber); split; auto.
Qed.

(* ---- the shutdown statement "exactly that provider's pool is dead, no other record" ---- *)

Lemma pv_shutdown_statement : forall owner slash t id caller st st' p sp,
    pv_provs st id = Some p -> pv_pools st t id = Some sp -> pv_killed p || pv_shut p = false ->
    pv_shutdown owner slash t id caller st = Some st' ->
    (match pv_pools st' t id with Some sp1 => sp_killed sp1 = true | None => True end) /\
    (forall t' id', (t', id') <> (t, id) -> pv_pools st' t' id' = pv_pools st t' id') /\
    (forall id', id' <> id -> pv_provs st' id' = pv_provs st id') /\
    (exists sp', sp_kill sp (f64_div slash (f64_of_Z 2)) = Some sp' /\
       (pv_pools st' t id = Some sp' \/ (pv_deletable t p sp' = true /\ pv_pools st' t id = None /\ pv_provs st' id = None))).
Proof.
  intros owner slash t id caller st st' p sp Hp Hsp Hd H.
  apply pv_shutdown_exact in H. destruct H as (p' & sp0 & Hp' & _ & Hsp' & [[Hd' _]|[_ [_ (sp' & Hk & Hoth & Hpr & Hcase)]]]);
    rewrite Hp in Hp'; rewrite Hsp in Hsp'; inversion Hp'; inversion Hsp'; subst; [congruence|].
  pose proof (sp_kill_props _ _ _ Hk) as (Hkd & _).
  destruct Hcase as [(Hdel & Hown & Hpv)|(Hdel & Hnone & Hpn)].
  - split; [rewrite Hown; exact Hkd|]. split; [assumption|]. split; [assumption|].
    exists sp'. split; [assumption|left; assumption].
  - split; [rewrite Hnone; exact I|]. split; [assumption|]. split; [assumption|].
    exists sp'. split; [assumption|right; repeat split; assumption].
Qed.

Definition pv_witness_state : pv_state :=
  {| pv_provs := fun i => if i =? 10 then Some {| pv_type := pv_blobber; pv_killed := false; pv_shut := false; pv_saved := 5 |} else None;
     pv_pools := fun t i => if (t =? pv_blobber) && (i =? 10)
                            then Some {| sp_pools := [sp_mk_dp 20 1000 0]; sp_reward := 0;
                                         sp_set := {| ss_wallet := 11; ss_maxdel := 10; ss_minstake := 0; ss_charge := f64_zero |};
                                         sp_killed := false |}
                            else None |}.
