(* Proofs about the hard-fork activator model (property C43). *)
From ZC Require Import Model.Activator.
Open Scope Z_scope.

Lemma ac_found_branch r br :
  ac_with_activation (AcFound r) br = if Z.ltb br r then AcBefore else AcAfter.
Proof. reflexivity. Qed.

Lemma ac_found_before_iff r br : ac_with_activation (AcFound r) br = AcBefore <-> br < r.
Proof. rewrite ac_found_branch. destruct (Z.ltb_spec br r); split; intros; try lia; try discriminate; reflexivity. Qed.

Lemma ac_found_after_iff r br : ac_with_activation (AcFound r) br = AcAfter <-> r <= br.
Proof. rewrite ac_found_branch. destruct (Z.ltb_spec br r); split; intros; try lia; try discriminate; reflexivity. Qed.

Lemma ac_absent_pre br : br < ac_maxint64 -> ac_with_activation AcAbsent br = AcBefore.
Proof. intros H. unfold ac_with_activation. cbn. destruct (Z.ltb_spec br ac_maxint64); [reflexivity|lia]. Qed.

Lemma ac_other_err_pre br : br < ac_maxint64 -> ac_with_activation AcOtherErr br = AcBefore.
Proof. intros H. unfold ac_with_activation. cbn. destruct (Z.ltb_spec br ac_maxint64); [reflexivity|lia]. Qed.

Lemma ac_node_not_found br be ae :
  ac_with_activation AcNodeNotFound br = AcNone /\
  ac_result (ac_with_activation AcNodeNotFound br) be ae = ac_node_not_found_token.
Proof. split; reflexivity. Qed.

Lemma ac_exactly_one_branch l br be ae :
  l <> AcNodeNotFound ->
  (ac_with_activation l br = AcBefore /\ ac_result (ac_with_activation l br) be ae = be) \/
  (ac_with_activation l br = AcAfter /\ ac_result (ac_with_activation l br) be ae = ae).
Proof.
  intros Hl. destruct l as [r| | |]; try congruence; unfold ac_with_activation; cbn;
    match goal with |- context [Z.ltb ?a ?b] => destruct (Z.ltb a b) end; cbn; auto.
Qed.

(* over a chain of blocks with non-decreasing rounds the behaviour switches once, at the fork round *)
Lemma ac_switch_once r br1 br2 :
  br1 <= br2 -> ac_with_activation (AcFound r) br1 = AcAfter -> ac_with_activation (AcFound r) br2 = AcAfter.
Proof. rewrite !ac_found_after_iff. lia. Qed.

Lemma ac_switch_at r :
  ac_with_activation (AcFound r) (r - 1) = AcBefore /\ ac_with_activation (AcFound r) r = AcAfter.
Proof. split; [apply ac_found_before_iff; lia | apply ac_found_after_iff; lia]. Qed.

(* ---- histories ---- *)

Lemma ac_find_remove fs n m : ac_find (ac_remove fs n) m = if String.eqb n m then None else ac_find fs m.
Proof.
  induction fs as [|[a e] t IH]; cbn [ac_remove filter ac_find fst].
  - destruct (String.eqb n m); reflexivity.
  - fold (ac_remove t n). destruct (String.eqb_spec a n) as [E|E]; cbn [negb].
    + subst a. rewrite IH. destruct (String.eqb_spec n m); reflexivity.
    + cbn [ac_find]. rewrite IH. destruct (String.eqb_spec a m) as [E2|E2]; [|reflexivity].
      subst a. destruct (String.eqb_spec n m); [congruence|reflexivity].
Qed.

Lemma ac_find_record_many req : forall fs n, NoDup (map fst req) ->
  ac_find (ac_record_many fs req) n =
    match ac_assoc req n with Some r => Some (AcRec r) | None => ac_find fs n end.
Proof.
  unfold ac_record_many. induction req as [|[a ra] t IH]; intros fs n Hn; cbn [fold_left ac_assoc fst snd]; [reflexivity|].
  cbn [map fst] in Hn. inversion Hn as [|? ? Hni Hn']; subst. rewrite IH by assumption.
  destruct (String.eqb_spec a n) as [E|E].
  - subst a. assert (Hnone : ac_assoc t n = None).
    { clear - Hni. induction t as [|[b rb] t IH]; [reflexivity|]. cbn [ac_assoc]. cbn [map fst In] in Hni.
      destruct (String.eqb_spec b n); [exfalso; apply Hni; left; assumption|]. apply IH. intros H. apply Hni. right. assumption. }
    rewrite Hnone. cbn [ac_find]. rewrite String.eqb_refl. reflexivity.
  - destruct (ac_assoc t n); [reflexivity|]. cbn [ac_find]. destruct (String.eqb_spec a n); [congruence|].
    rewrite ac_find_remove. destruct (String.eqb_spec a n); [congruence|reflexivity].
Qed.

Lemma ac_assoc_none req n : existsb (fun p => String.eqb (fst p) n) req = false -> ac_assoc req n = None.
Proof.
  induction req as [|[a ra] t IH]; cbn [existsb ac_assoc fst]; [reflexivity|]. intros H. apply orb_false_iff in H.
  destruct H as [H1 H2]. rewrite H1. apply IH. assumption.
Qed.

Lemma ac_assoc_in req n r : NoDup (map fst req) -> In (n, r) req -> ac_assoc req n = Some r.
Proof.
  induction req as [|[a ra] t IH]; intros Hn Hin; [destruct Hin|]. cbn [map fst] in Hn. inversion Hn as [|? ? Hni Hn']; subst.
  cbn [ac_assoc]. destruct Hin as [E|Hin].
  - inversion E; subst. rewrite String.eqb_refl. reflexivity.
  - destruct (String.eqb_spec a n) as [E|E]; [|apply IH; assumption].
    subst a. exfalso. apply Hni. apply in_map_iff. exists (n, r). split; [reflexivity|assumption].
Qed.

(* one add_hardfork transaction: every submitted name is recorded with its own submitted round *)
Lemma ac_record_many_lookup s req n r :
  ac_broken s = false -> NoDup (map fst req) -> In (n, r) req ->
  ac_lookup_of (fst (ac_step s (AcRecordMany req))) n = AcFound r.
Proof.
  intros Hb Hn Hin. cbn [ac_step fst]. unfold ac_lookup_of. cbn [ac_broken ac_forks]. rewrite Hb.
  rewrite ac_find_record_many by assumption. rewrite (ac_assoc_in req n r Hn Hin). reflexivity.
Qed.

Lemma ac_record_many_activation s req n r br :
  ac_broken s = false -> NoDup (map fst req) -> In (n, r) req ->
  ac_with_activation (ac_lookup_of (fst (ac_step s (AcRecordMany req))) n) br = if Z.ltb br r then AcBefore else AcAfter.
Proof. intros Hb Hn Hin. rewrite (ac_record_many_lookup s req n r Hb Hn Hin). apply ac_found_branch. Qed.

Lemma ac_run_fst s ops : fst (ac_run s ops) = fold_left (fun s o => fst (ac_step s o)) ops s.
Proof.
  revert s. induction ops as [|o tl IH]; intros s; cbn [ac_run fold_left]; [reflexivity|].
  destruct (ac_step s o) as [s1 out] eqn:E1. destruct (ac_run s1 tl) as [s2 outs] eqn:E2.
  cbn [fst]. rewrite <- IH, E2. reflexivity.
Qed.

Lemma ac_find_record_many_untouched req : forall fs n,
  existsb (fun p => String.eqb (fst p) n) req = false -> ac_find (ac_record_many fs req) n = ac_find fs n.
Proof.
  unfold ac_record_many. induction req as [|[a ra] t IH]; intros fs n H; cbn [fold_left fst snd]; [reflexivity|].
  cbn [existsb fst] in H. apply orb_false_iff in H. destruct H as [H1 H2]. rewrite IH by assumption.
  cbn [ac_find]. rewrite H1, ac_find_remove, H1. reflexivity.
Qed.

Lemma ac_step_untouched s o name :
  ac_touches name o = false -> ac_lookup_of (fst (ac_step s o)) name = ac_lookup_of s name.
Proof.
  intros Ht. destruct o as [n r|req|n|n| |n br be ae|n]; cbn [ac_step fst ac_touches] in *; try discriminate; try reflexivity.
  - unfold ac_lookup_of. cbn [ac_forks ac_broken ac_find]. rewrite Ht, ac_find_remove, Ht. reflexivity.
  - unfold ac_lookup_of. cbn [ac_forks ac_broken]. rewrite ac_find_record_many_untouched by assumption. reflexivity.
  - unfold ac_lookup_of. cbn [ac_forks ac_broken ac_find]. rewrite Ht, ac_find_remove, Ht. reflexivity.
  - unfold ac_lookup_of. cbn [ac_forks ac_broken]. rewrite ac_find_remove, Ht. reflexivity.
  - destruct (ac_round_by_name (ac_lookup_of s n)). reflexivity.
Qed.

Lemma ac_fold_untouched ops name : forall s,
  forallb (fun o => negb (ac_touches name o)) ops = true ->
  ac_lookup_of (fold_left (fun s o => fst (ac_step s o)) ops s) name = ac_lookup_of s name.
Proof.
  induction ops as [|o tl IH]; intros s H; cbn [fold_left]; [reflexivity|].
  cbn [forallb] in H. apply andb_prop in H. destruct H as [Ho Htl]. apply negb_true_iff in Ho.
  rewrite IH by assumption. apply ac_step_untouched. assumption.
Qed.

(* a fork that no history ever recorded: absent (when the trie is healthy) *)
Lemma ac_never_recorded ops name :
  forallb (fun o => negb (ac_touches name o)) ops = true ->
  ac_lookup_of (ac_exec ops) name = AcAbsent.
Proof.
  intros H. unfold ac_exec. rewrite ac_run_fst, ac_fold_untouched by assumption. reflexivity.
Qed.

(* the last record of the fork decides: ops1 ++ [Record name r] ++ ops2 with ops2 not touching it *)
Lemma ac_last_record ops1 ops2 name r :
  ac_broken (ac_exec ops1) = false ->
  forallb (fun o => negb (ac_touches name o)) ops2 = true ->
  ac_lookup_of (ac_exec (ops1 ++ AcRecord name r :: ops2)) name = AcFound r.
Proof.
  intros Hb H. unfold ac_exec in *. rewrite ac_run_fst in *. rewrite fold_left_app. cbn [fold_left].
  rewrite ac_fold_untouched by assumption. cbn [ac_step fst]. unfold ac_lookup_of. cbn [ac_broken ac_forks ac_find].
  rewrite Hb, String.eqb_refl. reflexivity.
Qed.

Lemma ac_behaviour_recorded ops1 ops2 name r br :
  ac_broken (ac_exec ops1) = false ->
  forallb (fun o => negb (ac_touches name o)) ops2 = true ->
  ac_with_activation (ac_lookup_of (ac_exec (ops1 ++ AcRecord name r :: ops2)) name) br
    = if Z.ltb br r then AcBefore else AcAfter.
Proof. intros Hb H. rewrite ac_last_record by assumption. apply ac_found_branch. Qed.

Lemma ac_behaviour_never_recorded ops name br :
  forallb (fun o => negb (ac_touches name o)) ops = true -> br < ac_maxint64 ->
  ac_with_activation (ac_lookup_of (ac_exec ops) name) br = AcBefore.
Proof. intros H Hbr. rewrite ac_never_recorded by assumption. apply ac_absent_pre. assumption. Qed.

Lemma ac_broken_stays ops : forall s, ac_broken s = true -> ac_broken (fold_left (fun s o => fst (ac_step s o)) ops s) = true.
Proof.
  induction ops as [|o tl IH]; intros s Hb; cbn [fold_left]; [assumption|]. apply IH.
  destruct o; cbn [ac_step fst ac_broken]; try assumption; try reflexivity. destruct (ac_round_by_name _). assumption.
Qed.

Lemma ac_behaviour_broken ops1 ops2 name br be ae :
  let l := ac_lookup_of (ac_exec (ops1 ++ AcBreak :: ops2)) name in
  ac_with_activation l br = AcNone /\ ac_result (ac_with_activation l br) be ae = ac_node_not_found_token.
Proof.
  intros l. assert (Hl : l = AcNodeNotFound).
  { unfold l, ac_exec. rewrite ac_run_fst, fold_left_app. cbn [fold_left]. unfold ac_lookup_of.
    rewrite ac_broken_stays; reflexivity. }
  rewrite Hl. apply ac_node_not_found.
Qed.

(* after any healthy history, one add_hardfork transaction with request map [req] (distinct names),
   then ops that do not touch name n: n activates exactly at its own submitted round *)
Lemma ac_behaviour_record_many ops1 ops2 req n r br :
  ac_broken (ac_exec ops1) = false -> NoDup (map fst req) -> In (n, r) req ->
  forallb (fun o => negb (ac_touches n o)) ops2 = true ->
  ac_round_by_name (ac_lookup_of (ac_exec (ops1 ++ AcRecordMany req :: ops2)) n) = (r, AcOk) /\
  ac_with_activation (ac_lookup_of (ac_exec (ops1 ++ AcRecordMany req :: ops2)) n) br
    = if Z.ltb br r then AcBefore else AcAfter.
Proof.
  intros Hb Hn Hin H.
  assert (Hl : ac_lookup_of (ac_exec (ops1 ++ AcRecordMany req :: ops2)) n = AcFound r).
  { unfold ac_exec in *. rewrite ac_run_fst in *. rewrite fold_left_app. cbn [fold_left].
    rewrite ac_fold_untouched by assumption. apply ac_record_many_lookup; assumption. }
  rewrite Hl. split; [reflexivity|apply ac_found_branch].
Qed.
