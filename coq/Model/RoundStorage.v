(* Model of chaincore/round/round_storage.go (roundStartingStorage) and of the magic-block
   lookups of chaincore/chain/entity.go (mbRoundOffset, GetMagicBlock, GetMagicBlockNoOffset,
   GetLatestMagicBlock, GetPrevMagicBlock) -- property C40.
   Definitions only; proofs are in Proof/RoundStorage.v.
   Rounds are Go int64; the code only compares them, except [rn - ViewChangeOffset] which is
   taken for rn >= 5 only, so no wrap can occur and plain Z is exact.
   Entities (interface{} holding *block.MagicBlock) are Z tokens. *)
From Coq Require Export List ZArith Bool Arith Lia.
Export ListNotations.
Open Scope Z_scope.

(* items map[int64]RoundStorageEntity as an association list without repeated keys *)
Definition rs_map : Type := list (Z * Z).

Fixpoint rs_lookup (m : rs_map) (k : Z) : option Z :=
  match m with
  | [] => None
  | (k', v) :: tl => if Z.eqb k' k then Some v else rs_lookup tl k
  end.

Definition rs_del (m : rs_map) (k : Z) : rs_map :=
  filter (fun p => negb (Z.eqb (fst p) k)) m.

Definition rs_set (m : rs_map) (k v : Z) : rs_map := (k, v) :: rs_del m k.

Definition rs_del_all (m : rs_map) (ks : list Z) : rs_map :=
  filter (fun p => negb (existsb (Z.eqb (fst p)) ks)) m.

Record rs_store := { rs_max : Z; rs_items : rs_map; rs_rounds : list Z }.

Definition rs_new : rs_store := {| rs_max := 0; rs_items := []; rs_rounds := [] |}.

(* the loop shared by calcNearestRound and FindRoundIndex:
     found := -1; for i := 0; i < len; i++ { if round >= rounds[i] { found = .. } else { break } } *)
Fixpoint rs_scan (rounds : list Z) (q : Z) (found : Z) : Z :=
  match rounds with
  | [] => found
  | r :: tl => if Z.geb q r then rs_scan tl q r else found
  end.

Fixpoint rs_scan_idx (rounds : list Z) (q : Z) (i : Z) (found : Z) : Z :=
  match rounds with
  | [] => found
  | r :: tl => if Z.geb q r then rs_scan_idx tl q (i + 1) i else found
  end.

Definition rs_shortcut (s : rs_store) (q : Z) : bool :=
  Z.gtb q (rs_max s) && Z.gtb (rs_max s) 0.

Definition rs_nearest (s : rs_store) (q : Z) : Z :=
  if rs_shortcut s q then rs_max s else rs_scan (rs_rounds s) q (-1).

Definition rs_get (s : rs_store) (q : Z) : option Z :=
  let f := rs_nearest s q in
  if Z.eqb f (-1) then None else rs_lookup (rs_items s) f.

Definition rs_find_index (s : rs_store) (q : Z) : Z :=
  if rs_shortcut s q then Z.of_nat (length (rs_rounds s)) - 1
  else rs_scan_idx (rs_rounds s) q 0 (-1).

Definition rs_get_latest (s : rs_store) : option Z :=
  match rs_items s with
  | [] => None
  | _ => rs_lookup (rs_items s) (rs_max s)
  end.

(* putToSlice: for i := len-1; i >= 0; i-- { if rounds[i] < round { index = i; break } } *)
Fixpoint rs_last_lt (l : list Z) (round : Z) (i : nat) : option nat :=
  match i with
  | O => None
  | S j => if Z.ltb (nth j l 0) round then Some j else rs_last_lt l round j
  end.

Definition rs_put_slice (round : Z) (l : list Z) : list Z :=
  match rs_last_lt l round (length l) with
  | None => round :: l
  | Some idx => firstn (S idx) l ++ round :: skipn (S idx) l
  end.

Definition rs_put (s : rs_store) (e r : Z) : rs_store :=
  {| rs_max := if Z.gtb r (rs_max s) then r else rs_max s;
     rs_items := rs_set (rs_items s) r e;
     rs_rounds := match rs_lookup (rs_items s) r with
                  | Some _ => rs_rounds s
                  | None => rs_put_slice r (rs_rounds s)
                  end |}.

(* Prune: index of the first entry equal to [round] *)
Fixpoint rs_index_of (l : list Z) (r : Z) : option nat :=
  match l with
  | [] => None
  | x :: tl => if Z.eqb r x then Some O else option_map S (rs_index_of tl r)
  end.

Definition rs_prune (s : rs_store) (r : Z) : rs_store * bool :=
  match rs_lookup (rs_items s) r with
  | None => (s, false)
  | Some _ =>
      match rs_index_of (rs_rounds s) r with
      | None => (s, false)
      | Some idx =>
          ({| rs_max := rs_max s;
              rs_items := rs_del_all (rs_items s) (firstn (S idx) (rs_rounds s));
              rs_rounds := skipn (S idx) (rs_rounds s) |}, true)
      end
  end.

(* chain.ViewChangeOffset = 4; mbRoundOffset *)
Definition rs_vc_offset : Z := 4.
Definition rs_mb_round_offset (rn : Z) : Z :=
  if Z.ltb rn (rs_vc_offset + 1) then rn else rn - rs_vc_offset.

(* GetMagicBlockNoOffset: Get, then GetLatest; None = the Go code panics *)
Definition rs_get_mb_no_offset (s : rs_store) (q : Z) : option Z :=
  match rs_get s q with
  | Some e => Some e
  | None => rs_get_latest s
  end.

Definition rs_get_mb (s : rs_store) (q : Z) : option Z :=
  rs_get_mb_no_offset s (rs_mb_round_offset q).

(* GetPrevMagicBlock: None = c.PreviousMagicBlock is returned *)
Definition rs_get_prev (s : rs_store) (q : Z) : option Z :=
  let idx := rs_find_index s (rs_mb_round_offset q) in
  if Z.leb idx 0 then None
  else rs_get s (nth (Z.to_nat (idx - 1)) (rs_rounds s) 0).

(* PruneRoundStorage(getTargetCount): target = 0 disables; prunes rounds[count-target-1] *)
Definition rs_prune_storage (s : rs_store) (target : nat) : rs_store :=
  match target with
  | O => s
  | _ => if Nat.ltb target (length (rs_rounds s))
         then fst (rs_prune s (nth (length (rs_rounds s) - target - 1) (rs_rounds s) 0))
         else s
  end.

(* ---- histories ---- *)
Inductive rs_op :=
| RsPut (e r : Z) | RsPrune (r : Z) | RsPruneStorage (target : nat)
| RsGet (q : Z) | RsLatest | RsFindIdx (q : Z)
| RsGetMB (q : Z) | RsGetMBNoOff (q : Z) | RsGetPrev (q : Z) | RsCount | RsRounds.

Inductive rs_out :=
| RsOk | RsErr | RsEnt (o : option Z) | RsInt (z : Z) | RsList (l : list Z).

Definition rs_step (s : rs_store) (o : rs_op) : rs_store * rs_out :=
  match o with
  | RsPut e r => (rs_put s e r, RsOk)
  | RsPrune r => let '(s', ok) := rs_prune s r in (s', if ok then RsOk else RsErr)
  | RsPruneStorage t => (rs_prune_storage s t, RsOk)
  | RsGet q => (s, RsEnt (rs_get s q))
  | RsLatest => (s, RsEnt (rs_get_latest s))
  | RsFindIdx q => (s, RsInt (rs_find_index s q))
  | RsGetMB q => (s, RsEnt (rs_get_mb s q))
  | RsGetMBNoOff q => (s, RsEnt (rs_get_mb_no_offset s q))
  | RsGetPrev q => (s, RsEnt (rs_get_prev s q))
  | RsCount => (s, RsInt (Z.of_nat (length (rs_items s))))
  | RsRounds => (s, RsList (rs_rounds s))
  end.

Fixpoint rs_run (s : rs_store) (ops : list rs_op) : rs_store * list rs_out :=
  match ops with
  | [] => (s, [])
  | o :: tl => let '(s1, out) := rs_step s o in
               let '(s2, outs) := rs_run s1 tl in (s2, out :: outs)
  end.

Definition rs_exec (ops : list rs_op) : rs_store := fst (rs_run rs_new ops).

(* ---- the specification side: the stored set as a plain function, no order, no cache ---- *)
Definition rs_abs : Type := Z -> option Z.
Definition rs_abs_empty : rs_abs := fun _ => None.

Definition rs_abs_step (m : rs_abs) (o : rs_op) : rs_abs :=
  match o with
  | RsPut e r => fun k => if Z.eqb k r then Some e else m k
  | RsPrune r => match m r with
                 | None => m
                 | Some _ => fun k => if Z.leb k r then None else m k
                 end
  | _ => m
  end.

Definition rs_abs_run (ops : list rs_op) : rs_abs := fold_left rs_abs_step ops rs_abs_empty.

(* histories without the PruneRoundStorage convenience call (it is a Prune of a round chosen
   from the current contents, see rs_prune_storage) *)
Definition rs_plain_op (o : rs_op) : bool :=
  match o with RsPruneStorage _ => false | _ => true end.

(* the domain of the property: starting rounds are not negative, and a Prune removes *older*
   entries, i.e. some stored starting round is greater than the pruned one *)
Definition rs_op_ok (s : rs_store) (o : rs_op) : bool :=
  match o with
  | RsPut _ r => Z.leb 0 r
  | RsPrune r => existsb (fun p => Z.ltb r (fst p)) (rs_items s)
  | _ => true
  end.

Fixpoint rs_hist_ok (s : rs_store) (ops : list rs_op) : bool :=
  match ops with
  | [] => true
  | o :: tl => rs_op_ok s o && rs_hist_ok (fst (rs_step s o)) tl
  end.
