package main

import (
	"encoding/json"
	"fmt"
	"strings"

	"0chain.net/chaincore/node"
	"0chain.net/core/encryption"
)

type nd struct {
	tok     int
	id, pub string
	sign    func(hash string) (string, error)
}

func mkNode(tok, keyIdx int) *nd {
	s := encryption.NewBLS0ChainScheme()
	must(s.ReadKeys(strings.NewReader(keyPool[keyIdx][0] + "\n" + keyPool[keyIdx][1] + "\n")))
	id, err := encryption.GetClientIDFromPublicKey(s.GetPublicKey())
	must(err)
	return &nd{tok: tok, id: id, pub: s.GetPublicKey(), sign: func(h string) (string, error) { return s.Sign(h) }}
}

func pool(t node.NodeType, ns []*nd) *node.Pool {
	p := node.NewPool(t)
	for i, x := range ns {
		n := node.Provider()
		n.ID = x.id
		n.PublicKey = x.pub
		n.Type = t
		n.Host = fmt.Sprintf("h%d", i)
		n.N2NHost = n.Host
		n.Port = 7000 + i
		must(p.AddNode(n))
	}
	return p
}

func nodeJSON(x *nd, kind string) []byte {
	m := map[string]interface{}{
		"simple_miner": map[string]interface{}{"id": x.id, "n2n_host": fmt.Sprintf("%s%d.n2n", kind, x.tok), "host": fmt.Sprintf("%s%d.host", kind, x.tok),
			"port": 7000 + x.tok, "path": fmt.Sprintf("%s%d", kind, x.tok), "public_key": x.pub, "short_name": fmt.Sprintf("%s%d", kind, x.tok), "build_tag": "t"},
		"stake_pool": map[string]interface{}{"settings": map[string]interface{}{"delegate_wallet": encryption.Hash("dw" + x.id), "num_delegates": 10, "service_charge": 0.1}},
	}
	b, _ := json.Marshal(m)
	return b
}

func must(err error) {
	if err != nil {
		panic(err)
	}
}
