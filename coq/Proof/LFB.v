(* Proofs for C41 over Model/LFB.v. *)
From ZC Require Import Model.LFB.
Open Scope Z_scope.

Lemma lf_pick_spec : forall {A} (rnd : A -> Z) l best,
  let p := lf_pick rnd best l in
  (p = best \/ In p l) /\ rnd best <= rnd p /\ (forall x, In x l -> rnd x <= rnd p).
Proof.
  intros A rnd. induction l as [|x tl IH]; intros best; cbn.
  - split; [now left|]. split; [lia|]. intros x [].
  - destruct (Z.ltb_spec (rnd best) (rnd x)).
    + destruct (IH x) as (H1 & H2 & H3). split; [|split].
      * destruct H1 as [->|H1]; right; [now left|now right].
      * lia.
      * intros y [<-|Hy]; [assumption|auto].
    + destruct (IH best) as (H1 & H2 & H3). split; [|split].
      * destruct H1 as [H1|H1]; [now left|right; now right].
      * assumption.
      * intros y [<-|Hy]; [lia|auto].
Qed.

(* one batch: the round does not go down; a change adopts an entry of the batch with a strictly greater round *)
Lemma lf_recv_spec : forall st batch,
  ll_round st <= ll_round (lf_recv st batch) /\
  (lf_recv st batch = st \/ (In (lf_recv st batch) batch /\ ll_round st < ll_round (lf_recv st batch))).
Proof.
  intros st [|x tl]; cbn; [split; [lia|now left]|].
  destruct (lf_pick_spec ll_round tl x) as (H1 & H2 & H3). cbn zeta in *.
  destruct (Z.leb_spec (ll_round (lf_pick ll_round x tl)) (ll_round st)).
  - split; [lia|now left].
  - split; [lia|]. right. split; [|lia]. destruct H1 as [->|H1]; [now left|now right].
Qed.

Lemma lf_step_round_ge : forall fixed nodes ss st e, ll_round st <= ll_round (lf_step fixed nodes ss st e).
Proof.
  intros fixed nodes ss st [batch|r|batch|]; cbn [lf_step]; try (apply (proj1 (lf_recv_spec _ _))); try lia.
  destruct ss; [apply (proj1 (lf_recv_spec _ _))|lia].
Qed.

Fixpoint lf_nondecreasing (prev : Z) (l : list Z) : Prop :=
  match l with
  | [] => True
  | x :: t => prev <= x /\ lf_nondecreasing x t
  end.

(* the reported round never decreases, whatever the events and their order *)
Lemma lf_latest_round_monotone : forall fixed nodes ss evs st,
  lf_nondecreasing (ll_round st) (map ll_round (lf_run fixed nodes ss st evs)).
Proof.
  intros fixed nodes ss. induction evs as [|e tl IH]; intros st; cbn; [exact I|].
  split; [apply lf_step_round_ge|apply IH].
Qed.

(* draining a batch in one go gives the same ticket as receiving its entries one by one *)
Definition lf_take (s x : lf_latest) : lf_latest := if Z.leb (ll_round x) (ll_round s) then s else x.

Lemma lf_pick_fold : forall st l best,
  lf_take st (lf_pick ll_round best l) = fold_left lf_take l (lf_take st best).
Proof.
  intros st. induction l as [|y tl IH]; intros best; cbn [lf_pick fold_left]; [reflexivity|].
  destruct (Z.ltb_spec (ll_round best) (ll_round y)) as [H|H]; rewrite IH; f_equal; unfold lf_take;
    destruct (Z.leb_spec (ll_round best) (ll_round st));
    repeat match goal with
           | |- context [Z.leb ?a ?b] => destruct (Z.leb_spec a b)
           end; try reflexivity; try lia.
Qed.

Lemma lf_recv_fold : forall st l, lf_recv st l = fold_left lf_take l st.
Proof.
  intros st [|x tl]; [reflexivity|]. cbn [lf_recv fold_left].
  change (if Z.leb (ll_round (lf_pick ll_round x tl)) (ll_round st) then st else lf_pick ll_round x tl)
    with (lf_take st (lf_pick ll_round x tl)).
  apply lf_pick_fold.
Qed.

Lemma lf_recv_app : forall st l1 l2, lf_recv st (l1 ++ l2) = lf_recv (lf_recv st l1) l2.
Proof. intros. rewrite !lf_recv_fold. apply fold_left_app. Qed.

(* so a remote batch can be split at any point into smaller batches: the state reached is the same *)
Lemma lf_remote_batch_split : forall fixed nodes ss st b1 b2,
  lf_step fixed nodes ss st (LfRemote (b1 ++ b2)) =
  lf_step fixed nodes ss (lf_step fixed nodes ss st (LfRemote b1)) (LfRemote b2).
Proof. intros. cbn. rewrite filter_app, map_app. apply lf_recv_app. Qed.

(* ------------------------------------------------------------------------------------------ *)
(* authenticity *)

(* a ticket held as "remote" was posted in some remote batch and passed the handler's check *)
Definition lf_posted (evs : list lf_event) (t : lf_ticket) : Prop :=
  exists batch, In (LfRemote batch) evs /\ In t batch.

Definition lf_backed (fixed : bool) (nodes : list lf_node) (evs : list lf_event) (st : lf_latest) : Prop :=
  forall s, ll_origin st = ORemote s ->
    exists t, lf_posted evs t /\ lf_verify fixed nodes t = true /\ lf_of_ticket t = st.

Lemma lf_step_backed : forall fixed nodes ss evs st e, In e evs ->
  lf_backed fixed nodes evs st -> lf_backed fixed nodes evs (lf_step fixed nodes ss st e).
Proof.
  intros fixed nodes ss evs st e Hin Hb.
  assert (forall batch, (forall x, In x batch -> lf_backed fixed nodes evs x) ->
            lf_backed fixed nodes evs (lf_recv st batch)) as G.
  { intros batch Hall. destruct (lf_recv_spec st batch) as [_ [->|[Hi _]]]; [assumption|auto]. }
  destruct e as [batch|r|batch|]; cbn [lf_step].
  - apply G. intros x Hx. rewrite in_map_iff in Hx. destruct Hx as (t & <- & Ht).
    apply filter_In in Ht. destruct Ht as [Ht Hv].
    intros s Hs. exists t. split; [exists batch; split; assumption|]. split; [assumption|reflexivity].
  - apply G. intros x [<-|[]]. intros s Hs. discriminate.
  - destruct ss; [|assumption]. apply G. intros x Hx. rewrite in_map_iff in Hx.
    destruct Hx as (rh & <- & _). intros s Hs. discriminate.
  - assumption.
Qed.

Lemma lf_run_backed : forall fixed nodes ss all evs st,
  (forall e, In e evs -> In e all) -> lf_backed fixed nodes all st ->
  Forall (lf_backed fixed nodes all) (lf_run fixed nodes ss st evs).
Proof.
  intros fixed nodes ss all. induction evs as [|e tl IH]; intros st Hsub Hb; cbn; [constructor|].
  assert (lf_backed fixed nodes all (lf_step fixed nodes ss st e)) as H1.
  { apply lf_step_backed; [apply Hsub; now left|assumption]. }
  constructor; [assumption|]. apply IH; [intros; apply Hsub; now right|assumption].
Qed.

(* every remote ticket ever reported was posted to the handler and verified by it: its signer
   is a registered node and its signature is valid for that node *)
Lemma lf_adopts_only_verified : forall fixed nodes ss round hash evs,
  Forall (lf_backed fixed nodes evs) (lf_run fixed nodes ss (lf_init round hash) evs).
Proof.
  intros. apply lf_run_backed; [auto|]. intros s Hs. discriminate.
Qed.

Lemma lf_verify_signer : forall fixed nodes t, lf_verify fixed nodes t = true ->
  exists n, lf_find nodes (lf_signer t) = Some n /\ lf_sig_ok t = true /\ (fixed = true -> lf_is_mb_sharder n = true).
Proof.
  intros fixed nodes t H. unfold lf_verify in H. destruct (lf_find nodes (lf_signer t)) as [n|]; [|discriminate].
  apply andb_true_iff in H. destruct H as [H1 H2]. exists n. split; [reflexivity|]. split; [assumption|].
  intros ->. assumption.
Qed.

(* "a reported remote ticket is signed by a sharder of the current magic block" *)
Definition lf_signer_is_current_sharder (fixed : bool) : Prop :=
  forall nodes ss round hash evs st s, In st (lf_run fixed nodes ss (lf_init round hash) evs) ->
    ll_origin st = ORemote s ->
    exists n, lf_find nodes s = Some n /\ lf_is_mb_sharder n = true.

Lemma lf_signer_is_current_sharder_refuted : ~ lf_signer_is_current_sharder false.
Proof.
  intros H.
  specialize (H [ {| lf_nid := 7; lf_nkind := LfMiner; lf_in_mb := true |} ] true 1 0
                [ LfRemote [ {| lf_round := 10; lf_signer := 7; lf_sig_ok := true; lf_hash := 3 |} ] ]
                {| ll_round := 10; ll_origin := ORemote 7; ll_hash := 3 |} 7).
  cbn in H. destruct (H (or_introl eq_refl) eq_refl) as (n & Hn & Hs).
  inversion Hn; subst. discriminate.
Qed.

Lemma lf_signer_general : forall fixed nodes ss round hash evs st s,
  In st (lf_run fixed nodes ss (lf_init round hash) evs) -> ll_origin st = ORemote s ->
  exists n t, lf_find nodes s = Some n /\ lf_posted evs t /\ lf_signer t = s /\ lf_round t = ll_round st /\
    lf_sig_ok t = true /\ (fixed = true -> lf_is_mb_sharder n = true).
Proof.
  intros fixed nodes ss round hash evs st s Hin Hs.
  pose proof (lf_adopts_only_verified fixed nodes ss round hash evs) as Hall.
  rewrite Forall_forall in Hall. destruct (Hall st Hin s Hs) as (t & Hp & Hv & E).
  destruct (lf_verify_signer _ _ _ Hv) as (n & Hn & Hok & Hfx).
  assert (lf_signer t = s) as Es by (rewrite <- E in Hs; cbn in Hs; congruence).
  exists n, t. rewrite <- Es. split; [assumption|]. split; [assumption|]. split; [reflexivity|].
  split; [rewrite <- E; reflexivity|]. split; assumption.
Qed.

(* outside the trigger - every registered node is a sharder of the current magic block - the
   statement holds for the code as written *)
Lemma lf_signer_is_current_sharder_partial : forall nodes ss round hash evs st s,
  (forall n, In n nodes -> lf_is_mb_sharder n = true) ->
  In st (lf_run false nodes ss (lf_init round hash) evs) -> ll_origin st = ORemote s ->
  exists n, lf_find nodes s = Some n /\ lf_is_mb_sharder n = true.
Proof.
  intros nodes ss round hash evs st s Hall Hin Hs.
  destruct (lf_signer_general false nodes ss round hash evs st s Hin Hs) as (n & t & Hn & _).
  exists n. split; [assumption|]. apply Hall.
  clear -Hn. induction nodes as [|m tl IH]; cbn in Hn; [discriminate|].
  destruct (Z.eqb (lf_nid m) s); [inversion Hn; now left|right; auto].
Qed.

(* with the signer looked up among the current sharders the statement holds *)
Lemma lf_signer_is_current_sharder_repaired : lf_signer_is_current_sharder true.
Proof.
  intros nodes ss round hash evs st s Hin Hs.
  destruct (lf_signer_general true nodes ss round hash evs st s Hin Hs) as (n & t & Hn & _ & _ & _ & _ & Hfx).
  exists n. split; [assumption|auto].
Qed.
