(* Model of the per-block event merge of the query DB (property C20):
     mergeEvents, eventsMergerImpl.filter/merge, withUniqueEventOverwrite, withEventMerge
       smartcontract/dbs/event/process.go, merger.go
     and of the handlers of the three bridge tags in EventDb.addStat (process.go), addBurnTicket (burn_ticket.go).
   The merger table (tag, middleware kind, in list order) is Gen/EventMergers.v.
   Definitions only. Event data is abstracted to a list of (key, amount) items: a burn ticket is
   (ticket hash, amount), an authorizer burn (burner, amount), a bridge mint (user, amount), a stake lock
   (client, amount) ...; every withEventMerge function of the package adds the amounts of the two events. *)
From Coq Require Export ZArith Bool Lia.
From ZC Require Export Model.EventMergeTypes Gen.EventMergers.
Open Scope Z_scope.

Inductive em_type := EtStats | EtChain | EtOther.   (* TypeStats, TypeChain, anything else *)

Definition em_item : Type := (Z * Z)%type.           (* key, amount *)

Record em_event := {
  ev_type : em_type;
  ev_tag : string;
  ev_index : Z;              (* Event.Index as a token *)
  ev_data : list em_item     (* one item for a single datum, several for a slice *)
}.

Definition em_unique_address : string := "TagUniqueAddress".

(* ---------- middlewares ---------- *)

(* withUniqueEventOverwrite: eMap[e.Index] = e for each event, then the map values (in map order; the
   model lists them by first occurrence of the index - consumers only see a set) *)
Fixpoint em_last (idx : Z) (es : list em_event) (dflt : em_event) : em_event :=
  match es with
  | [] => dflt
  | e :: tl => if Z.eqb (ev_index e) idx then em_last idx tl e else em_last idx tl dflt
  end.

Fixpoint em_indices (es : list em_event) (seen : list Z) : list Z :=
  match es with
  | [] => []
  | e :: tl => if existsb (Z.eqb (ev_index e)) seen then em_indices tl seen
               else ev_index e :: em_indices tl (ev_index e :: seen)
  end.

Definition em_overwrite (es : list em_event) : list em_event :=
  match es with
  | [] => []
  | d :: _ => map (fun i => em_last i es d) (em_indices es [])
  end.

(* withEventMerge f with f = "add the amounts": the first event of an index absorbs the later ones.
   Items are added position-wise (single-datum events have one item) *)
Fixpoint em_add_items (a b : list em_item) : list em_item :=
  match a, b with
  | (k, x) :: ta, (_, y) :: tb => (k, x + y) :: em_add_items ta tb
  | _, [] => a
  | [], _ => []
  end.

Fixpoint em_fold_index (idx : Z) (es : list em_event) (acc : option em_event) : option em_event :=
  match es with
  | [] => acc
  | e :: tl =>
      if Z.eqb (ev_index e) idx then
        match acc with
        | None => em_fold_index idx tl (Some e)
        | Some a => em_fold_index idx tl (Some {| ev_type := ev_type a; ev_tag := ev_tag a; ev_index := ev_index a;
                                                  ev_data := em_add_items (ev_data a) (ev_data e) |})
        end
      else em_fold_index idx tl acc
  end.

Definition em_merge (es : list em_event) : list em_event :=
  flat_map (fun i => match em_fold_index i es None with Some e => [e] | None => [] end) (em_indices es []).

Definition em_apply (k : em_kind) (es : list em_event) : list em_event :=
  match k with EmOverwrite => em_overwrite es | EmMerge => em_merge es | EmKeep => es end.

(* ---------- mergeEvents ---------- *)

Fixpoint em_has_merger (tbl : list (string * em_kind)) (tag : string) : bool :=
  match tbl with
  | [] => false
  | (t, _) :: tl => if String.eqb t tag then true else em_has_merger tl tag
  end.

(* events that go around the mergers: chain events, unique-address events, stats events without a merger;
   events of any other type are dropped *)
Definition em_is_other (tbl : list (string * em_kind)) (e : em_event) : bool :=
  match ev_type e with
  | EtChain => true
  | _ => if String.eqb (ev_tag e) em_unique_address then true
         else match ev_type e with
              | EtStats => negb (em_has_merger tbl (ev_tag e))
              | _ => false
              end
  end.

Definition em_taken (tag : string) (e : em_event) : bool :=
  match ev_type e with
  | EtStats => (String.eqb (ev_tag e) tag && negb (String.eqb (ev_tag e) em_unique_address))%bool
  | _ => false
  end.

(* one merged event per merger that saw events: tag, all data items of the surviving events *)
Definition em_merged_of (events : list em_event) (m : string * em_kind) : list (string * list em_item) :=
  match filter (em_taken (fst m)) events with
  | [] => []
  | es => [(fst m, flat_map ev_data (em_apply (snd m) es))]
  end.

Definition em_merge_events (tbl : list (string * em_kind)) (events : list em_event)
  : list (string * list em_item) * list em_event :=
  (flat_map (em_merged_of events) tbl, filter (em_is_other tbl) events).

(* ---------- handlers of the bridge tags ---------- *)

(* TagAddBurnTicket: the handler calls addBurnTicket for every ticket of the merged event - one row each *)
Definition em_burn_tickets_stored (merged : list em_item) : list em_item := merged.

(* TagAuthorizerBurn: total_burn of the burner += amount, for every item of the merged event *)
Fixpoint em_total (key : Z) (items : list em_item) : Z :=
  match items with
  | [] => 0
  | (k, x) :: tl => (if Z.eqb k key then x else 0) + em_total key tl
  end.

Definition em_sum (items : list em_item) : Z := fold_right (fun i s => snd i + s) 0 items.

(* tags whose effect is append-only (a row per event) or additive (a total): every event must count *)
Definition em_bridge_tags : list string := ["TagAddBurnTicket"; "TagAuthorizerBurn"; "TagAddBridgeMint"].
