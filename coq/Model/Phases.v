(* Model of the view-change phase machine of the miner contract (property C38):
     setPhaseNode, RestartDKG, GetPhaseNode               smartcontract/minersc/dkg.go
     contributeMpk, shareSignsOrShares (+ ShareOrSigns.Validate, chaincore/block/sos.go), wait
     the member selection of createMagicBlockForWait (DKGMinerNodes.reduceNodes, reduceShardersList,
     SimpleNodes.reduce in models.go)
   Phase tables (constants, move functions, phase functions, PhaseRounds keys): Gen/PhaseTable.v.
   Definitions only. The outcome of the move/phase functions (they read the miner, sharder, MPK and
   share lists and call float arithmetic) is an explicit oracle of each step, recorded from the real run. *)
From Coq Require Export List ZArith Bool String Lia.
From ZC Require Export Gen.PhaseTable.
Export ListNotations.
Open Scope Z_scope.

(* ---------- tables ---------- *)

Fixpoint ph_assoc {A} (l : list (Z * A)) (k : Z) : option A :=
  match l with
  | [] => None
  | (k', v) :: tl => if Z.eqb k' k then Some v else ph_assoc tl k
  end.

Definition ph_num_phases : Z := Z.of_nat (List.length gen_phase_rounds_key).          (* len(PhaseRounds) *)
Definition ph_has_move (p : Z) : bool := match ph_assoc gen_phase_move p with Some _ => true | None => false end.
Definition ph_has_func (p : Z) : bool := match ph_assoc gen_phase_func p with Some _ => true | None => false end.
Definition ph_const (name : string) : Z :=
  match find (fun x => String.eqb (fst x) name) gen_phase_consts with Some x => snd x | None => -2 end.
Definition ph_Start : Z := ph_const "Start".
Definition ph_Contribute : Z := ph_const "Contribute".
Definition ph_Share : Z := ph_const "Share".
Definition ph_Publish : Z := ph_const "Publish".
Definition ph_Wait : Z := ph_const "Wait".

(* ---------- phase node ---------- *)

Record ph_node := { pn_phase : Z; pn_start : Z; pn_current : Z; pn_restarts : Z }.

Inductive ph_fres := FOk | FErr | FNodeNotFound | FPanic.   (* FPanic: the function panics (e.g. a negative slice bound in SimpleNodes.reduce) *)
(* o_move = result of moveFunctions[phase]; o_func = result of phaseFuncs[phase] (read only when the move
   succeeded and the phase has a function); o_restart_ok = RestartDKG could write its nodes *)
Record ph_oracle := { o_move : ph_fres; o_func : ph_fres; o_restart_ok : bool }.
Inductive ph_out := PSaved | PError | PPanic.

Definition ph_restart (pn : ph_node) : ph_node :=
  {| pn_phase := ph_Start; pn_start := pn_current pn; pn_current := pn_current pn; pn_restarts := pn_restarts pn + 1 |}.

Definition ph_advance (pn : ph_node) : ph_node :=
  if Z.leb (ph_num_phases - 1) (pn_phase pn)
  then {| pn_phase := 0; pn_start := pn_current pn; pn_current := pn_current pn; pn_restarts := 0 |}
  else {| pn_phase := pn_phase pn + 1; pn_start := pn_current pn; pn_current := pn_current pn; pn_restarts := pn_restarts pn |}.

Definition ph_due (rounds : Z -> Z) (is_vc : bool) (pn : ph_node) : bool :=
  (is_vc && Z.leb (rounds (pn_phase pn)) (pn_current pn - pn_start pn))%bool.

(* what the step did, used to apply the side effects on the DKG lists *)
Inductive ph_kind := KNone | KAdvance | KRestart | KFail.

Definition ph_set_phase_node (rounds : Z -> Z) (is_vc : bool) (pn : ph_node) (o : ph_oracle)
  : ph_node * ph_out * ph_kind :=
  if ph_due rounds is_vc pn then
    if negb (ph_has_move (pn_phase pn)) then (pn, PPanic, KFail)      (* nil function value *)
    else
      match o_move o with
      | FNodeNotFound => (pn, PError, KFail)
      | FPanic => (pn, PPanic, KFail)
      | FErr => if o_restart_ok o then (ph_restart pn, PSaved, KRestart) else (pn, PError, KFail)
      | FOk =>
          if ph_has_func (pn_phase pn) then
            match o_func o with
            | FNodeNotFound => (pn, PError, KFail)
            | FPanic => (pn, PPanic, KFail)
            | FErr => if o_restart_ok o then (ph_restart pn, PSaved, KRestart) else (pn, PError, KFail)
            | FOk => (ph_advance pn, PSaved, KAdvance)
            end
          else (ph_advance pn, PSaved, KAdvance)
      end
  else (pn, PSaved, KNone).

(* GetPhaseNode: the stored node with CurrentRound := block round; a fresh Start node when absent *)
Definition ph_load (stored : option ph_node) (round : Z) : ph_node :=
  match stored with
  | Some pn => {| pn_phase := pn_phase pn; pn_start := pn_start pn; pn_current := round; pn_restarts := pn_restarts pn |}
  | None => {| pn_phase := ph_Start; pn_start := round; pn_current := round; pn_restarts := 0 |}
  end.

(* ---------- DKG transaction admission ---------- *)

Record dk_state := {
  dk_miners : list Z;       (* DKGMinerNodes.SimpleNodes keys *)
  dk_T : Z; dk_K : Z;
  dk_mpks_node : bool;      (* the MPKs node exists *)
  dk_mpks : list Z;         (* Mpks keys *)
  dk_gsos : list Z;         (* GroupSharesOrSigns.Shares keys *)
  dk_waited : list Z        (* Waited keys with value true *)
}.

Definition dk_mem (x : Z) (l : list Z) : bool := existsb (Z.eqb x) l.

Inductive dk_res := DAccept | DReject | DPanic.

(* contributeMpk. claimed = the "ID" the input carries, if any: it is overwritten with the sender after decoding
   (`mpk.ID = t.ClientID`), so the key is recorded under the sender whatever the input says *)
Definition dk_contribute (phase : Z) (d : dk_state) (sender claimed : Z) (decodes : bool) (mpk_len : Z) : dk_state * dk_res :=
  if negb (Z.eqb phase ph_Contribute) then (d, DReject)
  else if negb (dk_mem sender (dk_miners d)) then (d, DReject)
  else if negb decodes then (d, DReject)
  else if negb (Z.eqb mpk_len (dk_T d)) then (d, DReject)
  else if dk_mem sender (dk_mpks d) then (d, DReject)
  else ({| dk_miners := dk_miners d; dk_T := dk_T d; dk_K := dk_K d; dk_mpks_node := true;
           dk_mpks := sender :: dk_mpks d; dk_gsos := dk_gsos d; dk_waited := dk_waited d |}, DAccept).

(* one entry of ShareOrSigns.ShareOrSigns as ShareOrSigns.Validate sees it *)
Inductive so_entry :=
  | SoNil                                   (* null value: refused *)
  | SoSign (ok : bool)                      (* Sign != "": key has a public key in the DKG set and the signature verifies *)
  | SoShare (hex_ok : bool) (valid : bool). (* revealed share: parses; validates against the MPK of the sender *)

(* Validate in map iteration order (= list order); id_known = the MPKs node has an entry for the sender
   (sos.ID is set to the sender before the call). Every branch that fails returns false: no order dependence *)
Fixpoint so_validate (id_known : bool) (es : list so_entry) : dk_res :=
  match es with
  | [] => DAccept
  | SoNil :: tl => DReject
  | SoSign ok :: tl => if ok then so_validate id_known tl else DReject
  | SoShare hex_ok valid :: tl =>
      if negb hex_ok then DReject
      else if negb id_known then DReject
      else if valid then so_validate id_known tl else DReject
  end.

Definition dk_share (phase : Z) (d : dk_state) (sender : Z) (decodes : bool) (id_known : bool) (es : list so_entry)
  : dk_state * dk_res :=
  if negb (Z.eqb phase ph_Publish) then (d, DReject)
  else if dk_mem sender (dk_gsos d) then (d, DReject)
  else if negb (dk_mem sender (dk_miners d)) then (d, DReject)      (* miner not part of dkg set *)
  else if negb decodes then (d, DReject)
  else if Z.ltb (Z.of_nat (List.length es)) (dk_K d - 1) then (d, DReject)
  else if negb (dk_mpks_node d) then (d, DReject)
  else match so_validate id_known es with
       | DAccept => ({| dk_miners := dk_miners d; dk_T := dk_T d; dk_K := dk_K d; dk_mpks_node := dk_mpks_node d;
                        dk_mpks := dk_mpks d; dk_gsos := sender :: dk_gsos d; dk_waited := dk_waited d |}, DAccept)
       | DReject => (d, DReject)
       | DPanic => (d, DPanic)
       end.

Definition dk_wait (phase : Z) (d : dk_state) (sender : Z) : dk_state * dk_res :=
  if negb (Z.eqb phase ph_Wait) then (d, DReject)
  else if dk_mem sender (dk_waited d) then (d, DReject)
  else ({| dk_miners := dk_miners d; dk_T := dk_T d; dk_K := dk_K d; dk_mpks_node := dk_mpks_node d;
           dk_mpks := dk_mpks d; dk_gsos := dk_gsos d; dk_waited := sender :: dk_waited d |}, DAccept).

Inductive dk_txn :=
  | TxContribute (sender claimed : Z) (decodes : bool) (mpk_len : Z)
  | TxShare (sender : Z) (decodes id_known : bool) (es : list so_entry)
  | TxWait (sender : Z).

Definition dk_exec (phase : Z) (d : dk_state) (t : dk_txn) : dk_state * dk_res :=
  match t with
  | TxContribute s c dec n => dk_contribute phase d s c dec n
  | TxShare s dec idk es => dk_share phase d s dec idk es
  | TxWait s => dk_wait phase d s
  end.

(* ---------- side effects of a phase step on the DKG lists ---------- *)

(* values written by createDKGMinersForContribute (all registered miners; T, K from float arithmetic) *)
Record dk_fresh := { fr_miners : list Z; fr_T : Z; fr_K : Z }.

Definition dk_cleared : dk_state :=
  {| dk_miners := []; dk_T := 0; dk_K := 0; dk_mpks_node := true; dk_mpks := []; dk_gsos := []; dk_waited := [] |}.

(* phase = the phase the step started in *)
Definition dk_after_step (phase : Z) (kind : ph_kind) (fresh : dk_fresh) (d : dk_state) : dk_state :=
  match kind with
  | KRestart => dk_cleared
  | KAdvance =>
      if Z.eqb phase ph_Start then
        {| dk_miners := fr_miners fresh; dk_T := fr_T fresh; dk_K := fr_K fresh; dk_mpks_node := dk_mpks_node d;
           dk_mpks := dk_mpks d; dk_gsos := dk_gsos d; dk_waited := [] |}
      else if Z.eqb phase ph_Contribute then
        {| dk_miners := filter (fun m => dk_mem m (dk_mpks d)) (dk_miners d); dk_T := dk_T d; dk_K := dk_K d;
           dk_mpks_node := dk_mpks_node d; dk_mpks := dk_mpks d; dk_gsos := dk_gsos d; dk_waited := dk_waited d |}
      else if Z.eqb phase ph_Publish then
        {| dk_miners := dk_miners d; dk_T := dk_T d; dk_K := dk_K d; dk_mpks_node := true; dk_mpks := [];
           dk_gsos := []; dk_waited := dk_waited d |}
      else d
  | _ => d
  end.

(* adjustViewChange at round = gn.ViewChange resets the DKG miners node *)
Definition dk_adjust (at_vc : bool) (d : dk_state) : dk_state :=
  if at_vc then {| dk_miners := []; dk_T := 0; dk_K := 0; dk_mpks_node := dk_mpks_node d; dk_mpks := dk_mpks d;
                   dk_gsos := dk_gsos d; dk_waited := [] |}
  else d.

(* ---------- one block: DKG transactions, then the phase step of payFees ---------- *)

Record vc_state := { vs_pn : option ph_node; vs_dk : dk_state }.

Record vc_block := {
  b_round : Z;
  b_txns : list dk_txn;
  b_oracle : ph_oracle;
  b_fresh : dk_fresh;
  b_at_vc : bool
}.

Fixpoint dk_exec_all (phase : Z) (d : dk_state) (ts : list dk_txn) : dk_state * list dk_res :=
  match ts with
  | [] => (d, [])
  | t :: tl => let '(d1, r) := dk_exec phase d t in
               let '(d2, rs) := dk_exec_all phase d1 tl in (d2, r :: rs)
  end.

Definition vc_block_step (rounds : Z -> Z) (is_vc : bool) (s : vc_state) (b : vc_block)
  : vc_state * list dk_res * ph_out :=
  let pn0 := ph_load (vs_pn s) (b_round b) in
  let '(d1, rs) := dk_exec_all (pn_phase pn0) (vs_dk s) (b_txns b) in
  let '(pn1, out, kind) := ph_set_phase_node rounds is_vc pn0 (b_oracle b) in
  match out with
  | PSaved => ({| vs_pn := Some pn1; vs_dk := dk_adjust (b_at_vc b) (dk_after_step (pn_phase pn0) kind (b_fresh b) d1) |}, rs, out)
  | _ => ({| vs_pn := vs_pn s; vs_dk := d1 |}, rs, out)
  end.

(* ---------- member selection for the new magic block ---------- *)

(* SimpleNodes.reduce: prev = the candidates that are in the previous magic block, ranked by stake;
   x = min(len(prev), int(math.Ceil(xPercent*maxNodes))) of them are taken first; [others] is whatever the
   stake ranking and the seeded permutation pick from the rest. A negative x would panic (slice bounds);
   GlobalNode.validate keeps x_percent in (0; 1], so x >= 1 whenever there is a previous candidate. *)
Definition rd_select (ceilx : Z) (prev others : list Z) : option (list Z) :=
  let x := Z.min (Z.of_nat (List.length prev)) ceilx in
  if Z.ltb x 0 then None else Some ((firstn (Z.to_nat x) prev ++ others)%list).

Definition rd_has_prev (is_prev : Z -> bool) (l : list Z) : bool := existsb is_prev l.

(* ceil(p/q * n) for a validated x_percent = p/q in (0; 1] *)
Definition rd_ceil (p q n : Z) : Z := (p * n + q - 1) / q.

(* reduceShardersList after the reduce: `if !hasPrevSharderInList(pmb, nodes) { prev := rankedPrevSharders(pmb, tmpMinerNodes);
   if len(prev) == 0 { panic } nodes = append(nodes, prev[0]) }` - the fallback takes the best previous sharder of
   the candidates *)
Definition rd_sharders (is_prev : Z -> bool) (ceilx : Z) (prev others : list Z) : option (list Z) :=
  match rd_select ceilx prev others with
  | None => None
  | Some l => if rd_has_prev is_prev l then Some l
              else match prev with
                   | [] => None
                   | p :: _ => Some ((l ++ [p])%list)
                   end
  end.
