// Package sc builds real 0chain state contexts (in-memory MPT) for the engines.
package sc

import (
	"sync"

	"0chain.net/chaincore/block"
	cstate "0chain.net/chaincore/chain/state"
	"0chain.net/chaincore/state"
	"0chain.net/chaincore/transaction"
	"0chain.net/core/datastore"
	"0chain.net/core/encryption"
	"github.com/0chain/common/core/currency"
	"github.com/0chain/common/core/logging"
	"github.com/0chain/common/core/statecache"
	"github.com/0chain/common/core/util"
)

var once sync.Once

// Init must be called before touching state code (loggers are nil otherwise).
func Init() {
	once.Do(func() { logging.InitLogging("development", "") })
}

// NewMPT returns an empty in-memory trie with no state cache (every read goes to the trie).
func NewMPT() util.MerklePatriciaTrieI {
	Init()
	return util.NewMerklePatriciaTrie(util.NewMemoryNodeDB(), 1, nil, statecache.NewEmpty())
}

// NewCachedMPT returns an in-memory trie whose reads go through a real transaction cache
// layered on a block cache of the given StateCache for block hash `bh` (prev block `prev`).
func NewCachedMPT(scache *statecache.StateCache, prev, bh string) (util.MerklePatriciaTrieI, *statecache.BlockCache, *statecache.TransactionCache) {
	Init()
	bc := statecache.NewBlockCache(scache, statecache.Block{Round: 1, Hash: bh, PrevHash: prev})
	tc := statecache.NewTransactionCache(bc)
	return util.NewMerklePatriciaTrie(util.NewMemoryNodeDB(), 1, nil, tc), bc, tc
}

// Txn builds a transaction with the fields contracts read.
func Txn(hash, client, to string, value uint64, now int64) *transaction.Transaction {
	t := &transaction.Transaction{}
	t.Hash = hash
	t.ClientID = client
	t.ToClientID = to
	t.Value = currency.Coin(value)
	t.CreationDate = commonTimestamp(now)
	return t
}

// NewCtx creates a StateContext for one transaction at the given round over `mpt`.
func NewCtx(mpt util.MerklePatriciaTrieI, round int64, txn *transaction.Transaction) *cstate.StateContext {
	Init()
	bk := &block.Block{}
	bk.Round = round
	mb := &block.MagicBlock{}
	sig := &encryption.BLS0ChainScheme{}
	if txn == nil {
		txn = &transaction.Transaction{HashIDField: datastore.HashIDField{Hash: encryption.Hash("verif txn")}}
	}
	return cstate.NewStateContext(bk, mpt, txn,
		func(int64) *block.MagicBlock { return mb },
		func() *block.Block { return bk },
		func() *block.MagicBlock { return mb },
		func() encryption.SignatureScheme { return sig },
		func() *block.Block { return bk },
		nil)
}

// SetBalance writes a client state leaf directly.
func SetBalance(ctx *cstate.StateContext, id string, bal uint64) {
	s := state.State{}
	_ = s.SetTxnHash("0000000000000000000000000000000000000000000000000000000000000000")
	s.Balance = currency.Coin(bal)
	if _, err := ctx.SetClientState(id, &s); err != nil {
		panic(err)
	}
}

// Balance reads a client balance (0 when the leaf is absent).
func Balance(ctx *cstate.StateContext, id string) uint64 {
	b, err := ctx.GetClientBalance(id)
	if err != nil {
		return 0
	}
	return uint64(b)
}
