(* C21: Multisig proposals execute once, after enough distinct votes.
   Only statements; each is closed by [exact] of a lemma in Proof/Multisig.v.
   Whether a vote's signature verifies under the sender's registered key and whether the threshold
   signature could be reconstructed are inputs recorded from the real BLS library; that the
   reconstructed signature is a valid signature of the wallet is the algebra of C34 and is checked on
   the real results by the engine (SignedTransfer.VerifySignature), not proved here. *)
From ZC Require Import Model.Multisig Proof.Multisig.
Open Scope Z_scope.

(* Executes only after T distinct registered signers cast compatible, validly signed votes before
   expiry: whenever a request releases the transfer, in any history, the proposal holds exactly
   num_required (>= 2) pairwise distinct threshold ids, it is marked executed, the transfer is the
   proposal's, and every one of those ids was put there by a request of the history (this one
   included) that was well formed, carried a signature verifying under the key of a signer
   registered on that wallet, named the same recipient and amount, and arrived before the expiry. *)
Theorem C21_executes_only_after_T_distinct_valid_votes :
  forall ops signer now wallet pid to amount wf sig_ok rec,
    let st := fst (ms_run ms_init ops) in
    let tr := combine ops (snd (ms_run ms_init ops)) in
    let o := MsVote signer now wallet pid to amount wf sig_ok rec in
    forall st' f t a, ms_step st o = (st', MsExecuted f t a) ->
    exists w p', ms_wallet_get wallet (ms_wallets st') = Some w /\ ms_prop_get (wallet, pid) (ms_props st') = Some p' /\
      f = wallet /\ t = mp_to p' /\ a = mp_amount p' /\ mp_executed p' = true /\
      NoDup (mp_votes p') /\ Z.of_nat (length (mp_votes p')) = mw_required w /\ 2 <= mw_required w /\
      forall tid, In tid (mp_votes p') ->
        exists e, In e (tr ++ [(o, MsExecuted f t a)]) /\ ms_cast w wallet pid p' tid e.
Proof. exact ms_execution_justified. Qed.
Print Assumptions C21_executes_only_after_T_distinct_valid_votes.

(* Executes once: while an executed proposal is stored, a vote on it releases nothing *)
Theorem C21_executes_once :
  forall st signer now wallet pid to amount wf sig_ok rec p,
    ms_prop_get (wallet, pid) (ms_props (ms_prune_head st now)) = Some p -> mp_executed p = true ->
    let out := snd (ms_step st (MsVote signer now wallet pid to amount wf sig_ok rec)) in
    out = MsAlreadyExecuted \/ out = MsFail.
Proof. exact ms_executed_no_more. Qed.
Print Assumptions C21_executes_once.

(* ... and in every reachable state a proposal is marked executed exactly when it holds
   num_required distinct votes of registered signers, never more *)
Theorem C21_reachable_invariant :
  forall ops, ms_inv (fst (ms_run ms_init ops)).
Proof. exact (fun ops => ms_run_inv ops ms_init ms_inv_init). Qed.
Print Assumptions C21_reachable_invariant.

(* Repeated votes by the same signer do not count: the answer is "already voted" with the unchanged
   number of missing votes (or the request is refused), and no proposal changes *)
Theorem C21_repeat_votes_dont_count :
  forall st signer now wallet pid to amount wf sig_ok rec p w tid,
    ms_prop_get (wallet, pid) (ms_props (ms_prune_head st now)) = Some p ->
    ms_wallet_get wallet (ms_wallets st) = Some w -> ms_tid_of signer (mw_signers w) = Some tid ->
    In tid (mp_votes p) ->
    let r := ms_step st (MsVote signer now wallet pid to amount wf sig_ok rec) in
    (snd r = MsFail /\ fst r = st) \/
    ((snd r = MsAlreadyExecuted \/ snd r = MsAlreadyVoted (mw_required w - Z.of_nat (length (mp_votes p)))) /\
     fst r = ms_prune_head st now).
Proof. exact ms_repeat_vote. Qed.
Print Assumptions C21_repeat_votes_dont_count.

(* A vote counts only in the two outcomes "need n more" and "executed", and then it is well formed,
   validly signed by a registered signer who has not voted yet, compatible and in time *)
Theorem C21_only_valid_votes_count :
  forall st signer now wallet pid to amount wf sig_ok rec st' out,
    ms_inv st ->
    ms_step st (MsVote signer now wallet pid to amount wf sig_ok rec) = (st', out) ->
    (exists n, out = MsNeed n) \/ (exists f t a, out = MsExecuted f t a) ->
    let st1 := ms_prune_head st now in
    let p := ms_target st1 now wallet pid to amount in
    wf = true /\ sig_ok = true /\ now < mp_expire p /\ mp_to p = to /\ mp_amount p = amount /\
    mp_executed p = false /\
    exists w tid p', ms_wallet_get wallet (ms_wallets st) = Some w /\ ms_tid_of signer (mw_signers w) = Some tid /\
      ~ In tid (mp_votes p) /\
      ms_prop_get (wallet, pid) (ms_props st') = Some p' /\ mp_votes p' = mp_votes p ++ [tid] /\
      mp_expire p' = mp_expire p /\ mp_to p' = to /\ mp_amount p' = amount /\
      (forall r, r <> (wallet, pid) -> ms_prop_get r (ms_props st') = ms_prop_get r (ms_props st1)) /\
      ms_wallets st' = ms_wallets st /\
      ((exists n, out = MsNeed n /\ n = mw_required w - Z.of_nat (length (mp_votes p')) /\ 0 < n /\ mp_executed p' = false) \/
       (out = MsExecuted wallet to amount /\ Z.of_nat (length (mp_votes p')) = mw_required w /\ mp_executed p' = true /\ rec = true)).
Proof. exact ms_vote_counted. Qed.
Print Assumptions C21_only_valid_votes_count.

(* A vote on a stored proposal whose week is over is refused and changes nothing *)
Theorem C21_expired_not_executed :
  forall st signer now wallet pid to amount wf sig_ok rec p,
    ms_prop_get (wallet, pid) (ms_props (ms_prune_head st now)) = Some p -> mp_expire p <= now ->
    ms_step st (MsVote signer now wallet pid to amount wf sig_ok rec) = (st, MsFail).
Proof. exact ms_expired_refused. Qed.
Print Assumptions C21_expired_not_executed.

(* Non-vacuity: a 2-of-3 wallet; a repeat, an outsider, a bad signature, the execution, a vote after
   it, an incompatible vote, a vote exactly at expiry, and the proposal id used again after pruning *)
Example C21_example :
  let v s now pid amt ok := MsVote s now 1 pid 5 amt true ok true in
  snd (ms_run ms_init
    [MsRegister 1 1 [(11, 1); (12, 2); (13, 3)] 2 true; MsRegister 1 1 [(11, 1); (12, 2); (13, 3)] 2 true;
     v 11 1000 0 7 true; v 11 1001 0 7 true; v 99 1002 0 7 true; v 12 1003 0 7 false; v 12 1004 0 8 true;
     v 12 1005 0 7 true; v 13 1006 0 7 true;
     v 11 2000 1 7 true; v 12 (2000 + ms_week) 1 7 true; v 12 (1999 + ms_week) 1 7 true;
     v 13 (1000 + ms_week + 5) 0 7 true])
  = [MsRegistered; MsFail; MsNeed 1; MsAlreadyVoted 1; MsFail; MsFail; MsFail; MsExecuted 1 5 7; MsAlreadyExecuted;
     MsNeed 1; MsFail; MsExecuted 1 5 7; MsNeed 1].
Proof. vm_compute. reflexivity. Qed.

(* ---- the executed transfer carries a valid threshold signature of the wallet ----
   Idealised BLS as in C34 (Model/DKG.v): scalars in a field F, signatures in G1, public keys in G2,
   a bilinear map e, sign sk m = sk * H m, verify pk m sig = (e sig g2 == e (H m) pk).
   Link assumption, stated in the hypotheses: the wallet key is sk, the wallet requires
   T = size (sk :: cs) votes, and the signer with threshold id i in 1..n holds the value at i of the
   polynomial sk :: cs (what BLS0GenerateThresholdKeyShares hands out; the engine runs on such keys
   and checks every executed transfer with the real VerifySignature under the wallet key).
   Then whenever a request releases the transfer, in any history, the proposal's votes are T
   distinct share ids, the signature recovered from their share signatures on the proposal's
   transfer (Lagrange interpolation, dkg_recover) is the wallet key's signature on exactly that
   transfer, and it verifies under the wallet's public key. *)
From mathcomp Require Import all_ssreflect ssralg poly.
From ZC Require Import Model.DKG Proof.ThresholdSig Proof.MultisigSig.
Import GRing.Theory.
Local Open Scope ring_scope.

Theorem C21_executed_transfer_signature_valid :
  forall (F : fieldType) (G1 G2 GT : lmodType F) (g2 : G2) (M : Type) (Hm : M -> G1) (e : G1 -> G2 -> GT),
    (forall a x y, e (a *: x) y = a *: e x y) -> (forall a x y, e x (a *: y) = a *: e x y) ->
  forall (msg : Z -> Z -> Z -> M) (n : nat), (forall k, (0 < k <= n)%N -> k%:R != 0 :> F) ->
  forall (sk : F) (cs : seq F),
  forall ops signer now wallet pid to amount wf sig_ok rec st' f t a,
    ms_step (fst (ms_run ms_init ops)) (MsVote signer now wallet pid to amount wf sig_ok rec) = (st', MsExecuted f t a) ->
    forall w p', ms_wallet_get wallet (ms_wallets st') = Some w ->
                 ms_prop_get (wallet, pid) (ms_props st') = Some p' ->
    (forall s tid, In (s, tid) (mw_signers w) -> (0 < tid <= Z.of_nat n)%Z) ->
    mw_required w = Z.of_nat (size (sk :: cs)) ->
    let S := map Z.to_nat (mp_votes p') in
    let m := msg f t a in
    f = wallet /\ t = mp_to p' /\ a = mp_amount p' /\
    dkg_recover (thr_share_sigs Hm (sk :: cs) S m) = Some (dkg_sign Hm sk m) /\
    dkg_verify g2 Hm e (dkg_pub g2 sk) m (dkg_sign Hm sk m).
Proof. exact ms_executed_signature_valid. Qed.
Print Assumptions C21_executed_transfer_signature_valid.
