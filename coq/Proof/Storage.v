(* E-storage proofs. Part 1 (C12): for every open allocation the challenge pool balance equals
   the sum of the per-blobber outstanding values; the equality is preserved by every modelled
   operation except when one of the two accounting defects of the code fires ([ss_fired]). *)
From Coq Require Import ZArith List Bool Lia.
From ZC Require Import Model.F64 Model.Storage Proof.StorageUtil.
Import ListNotations.
Open Scope Z_scope.

(* ---------- the invariant ---------- *)

Definition al_cpivs (a : ss_alloc) : list Z := map ba_cpiv (al_bas a).
Definition al_money (a : ss_alloc) : option Z * list Z * Z := (al_cp a, al_cpivs a, al_wpool a).

(* pool = sum of values; values non-negative; the sum fits uint64; write pool non-negative *)
Definition c12_money (m : option Z * list Z * Z) : Prop :=
  fst (fst m) = Some (ss_sum (snd (fst m))) /\ Forall (fun v => 0 <= v) (snd (fst m)) /\
  ss_sum (snd (fst m)) < 2 ^ 64 /\ 0 <= snd m.

Definition al_c12 (a : ss_alloc) : Prop := c12_money (al_money a).
Definition st_c12 (s : ss_state) : Prop := Forall al_c12 (st_allocs s).

Lemma al_c12_money_eq : forall a a', al_money a' = al_money a -> al_c12 a -> al_c12 a'.
Proof. unfold al_c12; intros a a' E H; rewrite E; exact H. Qed.

Lemma al_c12_cp : forall a, al_c12 a -> al_cp a = Some (ss_sum_cpiv (al_bas a)).
Proof. intros a [H _]. exact H. Qed.

Lemma cpivs_nonneg_Forall : forall l, Forall (fun v => 0 <= v) (map ba_cpiv l) <-> Forall (fun d => 0 <= ba_cpiv d) l.
Proof. intros l. rewrite Forall_map. reflexivity. Qed.

Lemma al_c12_ba_range : forall a b d, al_c12 a -> ss_find_ba b (al_bas a) = Some d -> 0 <= ba_cpiv d <= ss_sum_cpiv (al_bas a).
Proof.
  intros a b d [_ [Hn _]] Hf. cbn in Hn. apply cpivs_nonneg_Forall in Hn.
  split; [eapply Forall_find_ba in Hf; eauto; exact Hf|].
  apply ss_cpiv_le_sum; auto. apply ss_find_ba_in in Hf. tauto.
Qed.

(* changing the value of one blobber allocation together with the pool *)
Lemma c12_set_ba : forall a d d' cp' w,
  al_c12 a -> ss_find_ba (ba_blobber d') (al_bas a) = Some d ->
  cp' = ss_sum_cpiv (al_bas a) - ba_cpiv d + ba_cpiv d' -> 0 <= ba_cpiv d' -> cp' < 2 ^ 64 -> 0 <= w ->
  c12_money (Some cp', map ba_cpiv (ss_set_ba d' (al_bas a)), w).
Proof.
  intros a d d' cp' w [Hcp [Hn [Hlt Hw0]]] Hf -> Hd Hb Hw. cbn in *.
  assert (S : ss_sum (map ba_cpiv (ss_set_ba d' (al_bas a))) = ss_sum_cpiv (al_bas a) - ba_cpiv d + ba_cpiv d').
  { apply (ss_sum_cpiv_set_ba _ _ _ Hf). }
  split; [|split; [|split]]; cbn.
  - rewrite S. reflexivity.
  - apply cpivs_nonneg_Forall. apply Forall_set_ba; [apply cpivs_nonneg_Forall; exact Hn | exact Hd].
  - rewrite S. exact Hb.
  - exact Hw.
Qed.

(* ---------- stat-only helpers keep the money projection ---------- *)

Lemma map_cpiv_set_ba_same : forall l d d', ss_find_ba (ba_blobber d') l = Some d -> ba_cpiv d' = ba_cpiv d ->
  map ba_cpiv (ss_set_ba d' l) = map ba_cpiv l.
Proof.
  induction l as [|x tl IH]; cbn; intros d d' H E; [reflexivity|].
  destruct (Z.eqb_spec (ba_blobber x) (ba_blobber d')).
  - inversion H; subst. cbn. rewrite E. reflexivity.
  - cbn. rewrite (IH _ _ H E). reflexivity.
Qed.

Lemma ss_find_ba_self : forall b l d, ss_find_ba b l = Some d -> ss_find_ba (ba_blobber d) l = Some d.
Proof. intros b l d H. destruct (ss_find_ba_in _ _ _ H) as [_ E]. rewrite E. exact H. Qed.

(* an allocation whose blobber list was updated by a same-value entry keeps its money projection *)
Lemma money_set_ba_same : forall a b d d' bas', ss_find_ba b (al_bas a) = Some d -> ba_blobber d' = ba_blobber d ->
  ba_cpiv d' = ba_cpiv d -> bas' = ss_set_ba d' (al_bas a) -> (al_cp a, map ba_cpiv bas', al_wpool a) = al_money a.
Proof.
  intros a b d d' bas' Hf Hb Hc ->. unfold al_money, al_cpivs. f_equal. f_equal.
  apply (map_cpiv_set_ba_same _ d); [rewrite Hb; eapply ss_find_ba_self; eauto | exact Hc].
Qed.

Lemma ss_drop_ocs_money : forall sel ocs a a' keep gone,
  ss_drop_ocs sel ocs a = (a', keep, gone) -> al_money a' = al_money a.
Proof.
  induction ocs as [|oc tl IH]; cbn [ss_drop_ocs]; intros a a' keep gone H.
  - inversion H; reflexivity.
  - destruct (sel oc).
    + destruct (ss_find_ba (oc_blobber oc) (al_bas a)) as [d|] eqn:Ef.
      * remember (ss_drop_ocs sel tl _) as r eqn:Er. destruct r as [[a2 k2] g2]. symmetry in Er.
        inversion H; subst. rewrite (IH _ _ _ _ Er).
        unfold al_money at 1, al_cpivs at 1. cbn [al_cp al_bas al_wpool al_with_stats al_with_bas al_with_pools].
        refine (money_set_ba_same a _ d _ _ Ef _ _ eq_refl); reflexivity.
      * remember (ss_drop_ocs sel tl a) as r eqn:Er. destruct r as [[a2 k2] g2]. symmetry in Er.
        inversion H; subst. eauto.
    + remember (ss_drop_ocs sel tl a) as r eqn:Er. destruct r as [[a2 k2] g2]. symmetry in Er.
      inversion H; subst. eauto.
Qed.

Lemma ss_settle_ocs_money : forall c round sel ocs a a' keep gone,
  ss_settle_ocs c round sel ocs a = (a', keep, gone) -> al_money a' = al_money a.
Proof.
  induction ocs as [|oc tl IH]; cbn [ss_settle_ocs]; intros a a' keep gone H.
  - inversion H; reflexivity.
  - destruct (if sel oc then ss_find_ba (oc_blobber oc) (al_bas a) else None) as [d|] eqn:Ef.
    + assert (Ef' : ss_find_ba (oc_blobber oc) (al_bas a) = Some d) by (destruct (sel oc); [exact Ef | discriminate]).
      remember (ss_settle_ocs c round sel tl _) as r eqn:Er. destruct r as [[a2 k2] g2]. symmetry in Er.
      inversion H; subst. rewrite (IH _ _ _ _ Er).
      unfold al_money at 1, al_cpivs at 1. cbn [al_cp al_bas al_wpool al_with_stats al_with_bas al_with_pools].
      refine (money_set_ba_same a _ d _ _ Ef' _ _ eq_refl); reflexivity.
    + remember (ss_settle_ocs c round sel tl a) as r eqn:Er. destruct r as [[a2 k2] g2]. symmetry in Er.
      inversion H; subst. eauto.
Qed.

Lemma ss_flush_open_cpiv : forall d, ba_cpiv (ss_flush_open d) = ba_cpiv d.
Proof. intros d. unfold ss_flush_open. destruct (0 <? ba_open d); reflexivity. Qed.

Lemma ss_settle_all_money : forall c round a a' rates gone,
  ss_settle_all c round a = (a', rates, gone) -> al_money a' = al_money a.
Proof.
  unfold ss_settle_all; intros c round a a' rates gone H.
  destruct (negb (al_chnode a)); [inversion H; reflexivity|].
  remember (ss_settle_ocs c round (fun _ => true) (al_ocs a) a) as r eqn:Er. destruct r as [[a1 k1] g1]. symmetry in Er.
  inversion H; subst. rewrite <- (ss_settle_ocs_money _ _ _ _ _ _ _ _ Er).
  unfold al_money, al_cpivs. cbn [al_cp al_bas al_wpool al_with_stats al_with_bas al_with_pools]. f_equal. f_equal.
  rewrite map_map. apply map_ext. intros d. apply ss_flush_open_cpiv.
Qed.

Lemma ss_flush_open_blobber : forall d, ba_blobber (ss_flush_open d) = ba_blobber d.
Proof. intros d. unfold ss_flush_open. destruct (0 <? ba_open d); reflexivity. Qed.

Lemma ss_remove_rates_money : forall c round a b a' rate gone,
  ss_remove_rates c round a b = Some (a', rate, gone) -> al_money a' = al_money a.
Proof.
  unfold ss_remove_rates; intros c round a b a' rate gone H.
  destruct (negb (al_chnode a)); [inversion H; reflexivity|].
  remember (ss_settle_ocs c round _ (al_ocs a) a) as r eqn:Er. destruct r as [[a1 k1] g1]. symmetry in Er.
  bind_inv H. inversion H; subst. rewrite <- (ss_settle_ocs_money _ _ _ _ _ _ _ _ Er).
  unfold al_money at 1, al_cpivs at 1. cbn [al_cp al_bas al_wpool al_with_stats al_with_bas al_with_pools].
  refine (money_set_ba_same a1 _ x _ _ E _ _ eq_refl); [apply ss_flush_open_blobber | apply ss_flush_open_cpiv].
Qed.

(* ---------- arithmetic steps ---------- *)

Lemma ss_challenge_some : forall d dtu rdtu d' move, ss_challenge d dtu rdtu = Some (d', move) ->
  d' = ba_with_cpiv d (ba_cpiv d - move) /\ 0 <= move <= ba_cpiv d.
Proof.
  unfold ss_challenge; intros d dtu rdtu d' move H. bind_inv H. apply ss_minus_coin_some in E. destruct E as [-> Hle].
  inversion H; subst. pose proof (f64_to_u64_range (f64_mul (f64_div dtu rdtu) (f64_of_Z (ba_cpiv d)))). intuition lia.
Qed.

(* validators are paid out of the pool: it shrinks by the reward unless there is nobody to pay *)
Lemma ss_to_validators_some : forall vs ids cp reward vs' cp', ss_to_validators vs ids cp reward = Some (vs', cp') ->
  (cp' = cp - reward /\ reward <= cp) \/ (cp' = cp /\ (ids = [] \/ reward = 0)).
Proof.
  unfold ss_to_validators; intros vs ids cp reward vs' cp' H. bind_inv H.
  destruct ((Z.of_nat (length ids) =? 0) || (reward =? 0)) eqn:Ez.
  - inversion H; subst. right. split; [reflexivity|]. apply orb_true_iff in Ez. destruct Ez as [Ez|Ez].
    + left. apply Z.eqb_eq in Ez. destruct ids; [reflexivity | cbn in Ez; lia].
    + right. apply Z.eqb_eq in Ez. exact Ez.
  - destruct (Z.ltb_spec cp reward); [discriminate|]. bind_inv H. bind_inv H. inversion H; subst. left. split; [reflexivity | lia].
Qed.

Lemma al_with_pools_money : forall a w mtc mb mtv cp bas, al_money (al_with_pools a w mtc mb mtv cp bas) = (cp, map ba_cpiv bas, w).
Proof. reflexivity. Qed.

Lemma al_with_stats_money : forall a u t o s f ocs ch, al_money (al_with_stats a u t o s f ocs ch) = al_money a.
Proof. reflexivity. Qed.

Lemma al_with_head_money : forall a o e s p t, al_money (al_with_head a o e s p t) = al_money a.
Proof. reflexivity. Qed.

Lemma st_c12_set : forall s a, st_c12 s -> al_c12 a -> st_c12 (st_with_allocs s (ss_set_alloc a (st_allocs s))).
Proof. unfold st_c12; intros s a Hs Ha. cbn. apply Forall_set_alloc; auto. Qed.

Lemma al_c12_sum_lt : forall a, al_c12 a -> ss_sum_cpiv (al_bas a) < 2 ^ 64.
Proof. intros a [_ [_ [H _]]]. exact H. Qed.
Lemma al_c12_wpool : forall a, al_c12 a -> 0 <= al_wpool a.
Proof. intros a [_ [_ [_ H]]]. exact H. Qed.

Lemma c12_delta : forall a d d' delta cp0 w,
  al_c12 a -> ss_find_ba (ba_blobber d') (al_bas a) = Some d -> ba_cpiv d' = ba_cpiv d + delta -> 0 <= ba_cpiv d' ->
  al_cp a = Some cp0 -> (0 < delta -> cp0 + delta < 2 ^ 64) -> 0 <= w ->
  c12_money (Some (cp0 + delta), map ba_cpiv (ss_set_ba d' (al_bas a)), w).
Proof.
  intros a d d' delta cp0 w Ha Hf Hc Hn Hcp Hb Hw. pose proof (al_c12_cp _ Ha) as Hcp'. rewrite Hcp in Hcp'. inversion Hcp'; subst cp0.
  pose proof (al_c12_sum_lt _ Ha) as Hlt.
  apply (c12_set_ba a d d'); auto; [lia|].
  destruct (Z.lt_ge_cases 0 delta); [auto | lia].
Qed.

Lemma c12_same : forall a d d' cp w,
  al_c12 a -> ss_find_ba (ba_blobber d') (al_bas a) = Some d -> ba_cpiv d' = ba_cpiv d -> cp = al_cp a -> 0 <= w ->
  c12_money (cp, map ba_cpiv (ss_set_ba d' (al_bas a)), w).
Proof.
  intros a d d' cp w Ha Hf Hc -> Hw. rewrite (map_cpiv_set_ba_same _ _ _ Hf Hc).
  destruct Ha as [H1 [H2 [H3 _]]]. repeat split; auto.
Qed.

(* commitMoveTokens: the pool and the blobber's value move by the same amount *)
Lemma ss_commit_move_some : forall c a d size ts w mtc mb cp d',
  ss_commit_move c a d size ts = Some (w, mtc, mb, cp, d') -> 0 <= ba_cpiv d -> 0 <= al_wpool a ->
  ba_blobber d' = ba_blobber d /\ 0 <= ba_cpiv d' /\ 0 <= w /\ ((ba_cpiv d' = ba_cpiv d /\ cp = al_cp a) \/
   exists cp0 delta, al_cp a = Some cp0 /\ cp = Some (cp0 + delta) /\ ba_cpiv d' = ba_cpiv d + delta /\ (0 < delta -> cp0 + delta < 2 ^ 64)).
Proof.
  unfold ss_commit_move; intros c a d size ts w mtc mb cp d' H Hn Hw.
  destruct (size =? 0).
  { inversion H; subst. split; [reflexivity|]. split; [exact Hn|]. split; [exact Hw|]. left; split; reflexivity. }
  bind_inv H. bind_inv H. rename x into cp0.
  destruct (0 <? size).
  - bind_inv H. apply ss_add_coin_some in E1. destruct E1 as [-> Hlt].
    bind_inv H. destruct x as [w1 cp1]. apply ss_move_to_cp_some in E1. destruct E1 as [-> [-> [Hlt2 Hle]]].
    bind_inv H. inversion H; subst. cbn.
    set (move := Z.min _ (al_wpool a)) in *.
    assert (0 <= move).
    { subst move. apply Z.min_glb; [apply f64_to_u64_range | lia]. }
    split; [reflexivity|]. split; [lia|]. split; [lia|]. right. exists cp0, move. repeat split; auto.
  - bind_inv H. apply ss_minus_coin_some in E1. destruct E1 as [-> Hle].
    bind_inv H. destruct x as [w1 cp1]. apply ss_move_from_cp_some in E1. destruct E1 as [-> [-> Hle2]].
    bind_inv H. bind_inv H. inversion H; subst. cbn.
    set (move := Z.min _ (ba_cpiv d)) in *.
    assert (0 <= move).
    { subst move. apply Z.min_glb; [apply f64_to_u64_range | lia]. }
    split; [reflexivity|]. split; [lia|]. split; [lia|]. right. exists cp0, (- move). repeat split; auto; lia.
Qed.

(* ---------- operations that do not touch allocations ---------- *)

Lemma ss_transfer_allocs : forall s f t v s', ss_transfer s f t v = Some s' -> st_allocs s' = st_allocs s.
Proof.
  unfold ss_transfer; intros s f t v s' H. destruct (v =? 0); [inversion H; reflexivity|].
  destruct (ss_bal s f <? v); [discriminate|]. inversion H; reflexivity.
Qed.

Lemma ss_lock_from_allocs : forall c s cl v s', ss_lock_from c s cl v = Some s' -> st_allocs s' = st_allocs s.
Proof.
  unfold ss_lock_from; intros c s cl v s' H. destruct (ss_bal s cl <? v); [discriminate|]. eapply ss_transfer_allocs; eauto.
Qed.

Lemma st_c12_allocs_eq : forall s s', st_allocs s' = st_allocs s -> st_c12 s -> st_c12 s'.
Proof. unfold st_c12; intros s s' E H; rewrite E; exact H. Qed.

(* ---------- write pool lock ---------- *)

Lemma ss_wp_lock_c12 : forall c s sender alloc value s',
  st_c12 s -> 0 <= value -> ss_wp_lock c s sender alloc value = Some s' -> st_c12 s'.
Proof.
  unfold ss_wp_lock; intros c s sender alloc value s' Hs Hv H.
  guard_inv H. guard_inv H. bind_inv H. rename x into s1. bind_inv H. rename x into a. bind_inv H. guard_inv H.
  inversion H; subst. pose proof (ss_lock_from_allocs _ _ _ _ _ E) as Ea.
  assert (Hs1 : st_c12 s1) by (eapply st_c12_allocs_eq; eauto).
  apply st_c12_set; auto. pose proof (Forall_find_alloc _ _ _ _ Hs1 E0) as Ha.
  apply ss_add_coin_some in E1. destruct E1 as [-> _].
  destruct Ha as [H1 [H2 [H3 H4]]]. unfold al_c12. rewrite al_with_pools_money. repeat split; auto. cbn in *. lia.
Qed.

(* ---------- commit connection ---------- *)

Lemma ss_commit_c12 : forall c s sender alloc client root prev size ts sig_ok s',
  st_c12 s -> ss_commit c s sender alloc client root prev size ts sig_ok = Some s' -> st_c12 s'.
Proof.
  unfold ss_commit; intros c s sender alloc client root prev size ts sig_ok s' Hs H.
  guard_inv H. bind_inv H. rename x into a. guard_inv H. guard_inv H. bind_inv H. rename x into d. guard_inv H.
  match type of H with (if ?b then _ else _) = _ => destruct b end; [inversion H; subst; exact Hs|].
  bind_inv H. rename x into change. bind_inv H. rename x into b. guard_inv H.
  set (d0 := if ba_used d =? 0 then _ else d) in *.
  guard_inv H. guard_inv H. bind_inv H. destruct x as [[[[w mtc] mb] cp] d2]. guard_inv H. inversion H; subst. clear H.
  pose proof (Forall_find_alloc _ _ _ _ Hs E) as Ha.
  pose proof (al_c12_ba_range _ _ _ Ha E0) as Hr. pose proof (al_c12_wpool _ Ha) as Hw.
  assert (Hd0 : ba_cpiv d0 = ba_cpiv d /\ ba_blobber d0 = ba_blobber d) by (subst d0; destruct (ba_used d =? 0); split; reflexivity).
  destruct Hd0 as [Hc0 Hb0].
  apply ss_commit_move_some in E3; [|cbn; lia|exact Hw]. cbn [ba_blobber ba_cpiv ba_with_data] in E3.
  destruct E3 as [Hb2 [Hn2 [Hw2 Hcase]]].
  assert (Hf : ss_find_ba (ba_blobber d2) (al_bas a) = Some d).
  { rewrite Hb2, Hb0. eapply ss_find_ba_self; eauto. }
  unfold st_c12. cbn [st_allocs st_with_allocs st_with_blobbers]. apply Forall_set_alloc; [exact Hs|].
  unfold al_c12. rewrite al_with_stats_money, al_with_pools_money.
  destruct Hcase as [[Hc Hcp]|[cp0 [delta [Hcp0 [Hcp [Hc Hb]]]]]].
  - eapply c12_same; eauto. lia.
  - subst cp. eapply c12_delta; eauto. lia.
Qed.

(* ---------- new allocation ---------- *)

Lemma ss_assign_zero : forall c chosen all bsz now bas all', ss_assign c chosen all bsz now = Some (bas, all') ->
  Forall (fun d => ba_cpiv d = 0) bas.
Proof.
  induction chosen as [|b tl IH]; cbn [ss_assign]; intros all bsz now bas all' H.
  - inversion H; constructor.
  - bind_inv H. bind_inv H. destruct x0 as [ds al2]. inversion H; subst. constructor; [reflexivity | eauto].
Qed.

Lemma sum_zero : forall l, Forall (fun d => ba_cpiv d = 0) l -> map ba_cpiv l = map (fun _ => 0) l.
Proof. induction 1; cbn; congruence. Qed.

Lemma c12_fresh : forall bas w, Forall (fun d => ba_cpiv d = 0) bas -> 0 <= w -> c12_money (Some 0, map ba_cpiv bas, w).
Proof.
  intros bas w Hz Hw. rewrite (sum_zero _ Hz).
  assert (S : ss_sum (map (fun _ : ss_balloc => 0) bas) = 0) by (clear; induction bas; cbn; [reflexivity | exact IHbas]).
  unfold c12_money; cbn [fst snd]. rewrite S. split; [reflexivity|]. split; [|split; [lia | exact Hw]].
  clear. induction bas; cbn; constructor; auto; lia.
Qed.

Lemma ss_new_alloc_c12 : forall c s now id owner payer value tv data parity size bl rr wr tpe s',
  st_c12 s -> 0 <= value -> ss_new_alloc c s now id owner payer value tv data parity size bl rr wr tpe = Some s' -> st_c12 s'.
Proof.
  unfold ss_new_alloc; intros c s now id owner payer value tv data parity size bl rr wr tpe s' Hs Hv H.
  guard_inv H. bind_inv H. guard_inv H. bind_inv H. destruct x0 as [bas all]. bind_inv H. rename x0 into s1.
  bind_inv H. guard_inv H. guard_inv H. inversion H; subst. clear H.
  assert (Ea : st_allocs s1 = st_allocs s).
  { destruct (value =? 0); [inversion E1; reflexivity|]. guard_inv E1. eapply ss_lock_from_allocs; eauto. }
  unfold st_c12. cbn [st_allocs st_with_allocs st_with_blobbers]. rewrite Ea. apply Forall_app. split; [exact Hs|].
  constructor; [|constructor]. unfold al_c12, al_money, al_cpivs. cbn [al_cp al_bas al_wpool].
  apply c12_fresh; [eapply ss_assign_zero; eauto | exact Hv].
Qed.

(* ---------- challenges ---------- *)

Lemma al_c12_stats_bas : forall a d d' u t o sc f ocs ch,
  al_c12 a -> ss_find_ba (ba_blobber d') (al_bas a) = Some d -> ba_cpiv d' = ba_cpiv d ->
  al_c12 (al_with_stats (al_with_bas a (ss_set_ba d' (al_bas a))) u t o sc f ocs ch).
Proof.
  intros. unfold al_c12. rewrite al_with_stats_money. unfold al_with_bas. rewrite al_with_pools_money.
  eapply c12_same; eauto. apply al_c12_wpool; auto.
Qed.

Lemma ss_gen_chal_c12 : forall c s now round alloc blobber ch s',
  st_c12 s -> ss_gen_chal c s now round alloc blobber ch = Some s' -> st_c12 s'.
Proof.
  unfold ss_gen_chal; intros c s now round alloc blobber ch s' Hs H.
  bind_inv H. rename x into a. bind_inv H.
  remember (ss_drop_ocs _ (al_ocs a) a) as r eqn:Er. destruct r as [[a1 keep] gone]. symmetry in Er.
  guard_inv H. bind_inv H. clear x E0. rename x0 into d. inversion H; subst. clear H.
  pose proof (Forall_find_alloc _ _ _ _ Hs E) as Ha.
  assert (Ha1 : al_c12 a1) by (eapply al_c12_money_eq; [eapply ss_drop_ocs_money; eauto | exact Ha]).
  unfold st_c12. cbn [st_allocs st_with_allocs st_with_chals]. apply Forall_set_alloc; [exact Hs|].
  apply (al_c12_stats_bas a1 d); auto. cbn. eapply ss_find_ba_self; eauto.
Qed.

Lemma ss_penalty_c12 : forall c s a blobber ls lf vals s' a',
  al_c12 a -> vals <> [] -> ss_penalty c s a blobber ls lf vals = Some (s', a') ->
  al_c12 a' /\ st_allocs s' = st_allocs s.
Proof.
  unfold ss_penalty; intros c s a blobber ls lf vals s' a' Ha Hv H.
  destruct (lf <=? ls); [inversion H; subst; auto|].
  bind_inv H. rename x into d. bind_inv H. rename x into cp. bind_inv H. bind_inv H. bind_inv H. destruct x1 as [d1 move0].
  bind_inv H. rename x1 into vr. bind_inv H. rename x1 into move. bind_inv H. destruct x1 as [vs cp1].
  bind_inv H. bind_inv H. destruct x2 as [w cp2]. bind_inv H. bind_inv H. bind_inv H. bind_inv H. destruct x5 as [s2 pen].
  inversion H; subst. clear H.
  apply ss_challenge_some in E3. destruct E3 as [-> [Hm0 Hm1]].
  apply f64_mult_coin_range in E4. apply ss_minus_coin_some in E5. destruct E5 as [-> Hle].
  apply ss_to_validators_some in E6. apply ss_move_from_cp_some in E8. destruct E8 as [-> [-> Hle2]].
  assert (Hcp1 : cp1 = cp - vr).
  { destruct E6 as [[-> _]|[-> [Hn|Hz]]]; [reflexivity | contradiction | lia]. }
  split.
  - unfold al_c12. rewrite al_with_pools_money.
    pose proof (al_c12_wpool _ Ha).
    replace (cp1 - (move0 - vr)) with (cp + - move0) by lia.
    eapply (c12_delta a d); eauto; cbn; try lia.
    eapply ss_find_ba_self; eauto.
  - destruct (f64_ltb f64_zero (cf_slash c) && (0 <? move0 - vr) && (0 <? x4)).
    + bind_inv E12. bind_inv E12. destruct x6 as [b' dp]. bind_inv E12. inversion E12; subst. reflexivity.
    + inversion E12; subst. reflexivity.
Qed.

Lemma ss_reward_c12 : forall c s a blobber lf vals s' a',
  al_c12 a -> vals <> [] -> ss_reward c s a blobber lf vals = Some (s', a') ->
  al_c12 a' /\ st_allocs s' = st_allocs s.
Proof.
  unfold ss_reward; intros c s a blobber lf vals s' a' Ha Hv H.
  bind_inv H. rename x into d. guard_inv H. bind_inv H. rename x into cp. bind_inv H. bind_inv H. bind_inv H. destruct x1 as [d1 move].
  bind_inv H. rename x1 into vr. bind_inv H. rename x1 into br. bind_inv H. rename x1 into b. bind_inv H. destruct x1 as [b' cp1].
  bind_inv H. bind_inv H. destruct x2 as [vs cp2]. bind_inv H. inversion H; subst. clear H.
  apply ss_challenge_some in E3. destruct E3 as [-> [Hm0 Hm1]].
  apply f64_mult_coin_range in E4. apply ss_minus_coin_some in E5. destruct E5 as [-> Hle].
  apply ss_to_validators_some in E9.
  assert (Hcp1 : cp1 = cp - (move - vr)).
  { destruct (move - vr =? 0) eqn:Ez; [apply Z.eqb_eq in Ez; inversion E7; lia|].
    destruct (cp <? move - vr); [discriminate|]. bind_inv E7. inversion E7; reflexivity. }
  split; [|reflexivity].
  assert (Hcp2 : cp2 = cp + - move).
  { destruct E9 as [[-> _]|[-> [Hn|Hz]]]; [lia | contradiction | lia]. }
  unfold al_c12. rewrite al_with_pools_money. rewrite Hcp2.
  eapply (c12_delta a d); eauto; cbn; try lia.
  - eapply ss_find_ba_self; eauto.
  - apply al_c12_wpool; auto.
Qed.

Lemma ss_chal_resp_c12 : forall c s now round sender ch tok pass vals s',
  st_c12 s -> (pass = true -> vals <> []) -> ss_chal_resp c s now round sender ch tok pass vals = Some s' -> st_c12 s'.
Proof.
  unfold ss_chal_resp; intros c s now round sender ch tok pass vals s' Hs Hv H.
  bind_inv H. rename x into cn. guard_inv H. guard_inv H. guard_inv H. bind_inv H. rename x into a.
  guard_inv H. guard_inv H. bind_inv H. rename x into d. guard_inv H. guard_inv H.
  pose proof (Forall_find_alloc _ _ _ _ Hs E0) as Ha.
  destruct pass; cbn [negb] in H.
  - remember (ss_drop_ocs _ (al_ocs a) a) as r eqn:Er. destruct r as [[a1 keep] gone]. symmetry in Er.
    bind_inv H. rename x into d1. guard_inv H. bind_inv H. destruct x as [s3 a3]. bind_inv H. destruct x as [s4 a4].
    inversion H; subst. clear H.
    assert (Ha1 : al_c12 a1) by (eapply al_c12_money_eq; [eapply ss_drop_ocs_money; eauto | exact Ha]).
    match type of E3 with context [ss_penalty c s ?A] => assert (Ha2 : al_c12 A) end.
    { apply (al_c12_stats_bas a1 d1); auto. cbn. eapply ss_find_ba_self; eauto. }
    assert (H3 : al_c12 a3 /\ st_allocs s3 = st_allocs s).
    { destruct (ba_ls d <? ba_lf d1); [eapply ss_penalty_c12; eauto | inversion E3; subst; auto]. }
    destruct H3 as [Ha3 Es3].
    destruct (ss_reward_c12 _ _ _ _ _ _ _ _ Ha3 (Hv eq_refl) E4) as [Ha4 Es4].
    unfold st_c12. cbn [st_allocs st_with_allocs st_with_chals]. rewrite Es4, Es3. apply Forall_set_alloc; auto.
  - inversion H; subst. clear H. unfold st_c12. cbn [st_allocs st_with_allocs]. apply Forall_set_alloc; [exact Hs|].
    apply (al_c12_stats_bas a d); auto. cbn. eapply ss_find_ba_self; eauto.
Qed.

(* ---------- read marker ---------- *)

Lemma ss_read_c12 : forall c s client blobber alloc ts ctr id_ok sig_ok s',
  st_c12 s -> ss_read c s client blobber alloc ts ctr id_ok sig_ok = Some s' -> st_c12 s'.
Proof.
  unfold ss_read; intros c s client blobber alloc ts ctr id_ok sig_ok s' Hs H.
  guard_inv H. guard_inv H. guard_inv H. guard_inv H. bind_inv H. rename x into a. guard_inv H.
  bind_inv H. rename x into d. bind_inv H. guard_inv H. guard_inv H. bind_inv H. bind_inv H. inversion H; subst. clear H.
  pose proof (Forall_find_alloc _ _ _ _ Hs E) as Ha.
  unfold st_c12. cbn [st_allocs st_with_allocs st_with_reads st_with_blobbers st_with_rpools]. apply Forall_set_alloc; [exact Hs|].
  unfold al_c12, al_with_bas. rewrite al_with_pools_money.
  apply (c12_same a d); [exact Ha | cbn; eapply ss_find_ba_self; eauto | reflexivity | reflexivity | apply al_c12_wpool; auto].
Qed.

(* ---------- closing removes the allocation (and with it its pool) ---------- *)

Lemma ss_close_c12 : forall c s now round a s', st_c12 s -> ss_close c s now round a = Some s' -> st_c12 s'.
Proof.
  unfold ss_close; intros c s now round a s' Hs H.
  remember (ss_settle_all c round a) as r eqn:Er. destruct r as [[a1 rates] gone].
  bind_inv H. bind_inv H. destruct x0 as [[bas bls1] paid]. bind_inv H. bind_inv H. bind_inv H. guard_inv H. bind_inv H.
  bind_inv H. destruct x4 as [bls2 w2]. bind_inv H. bind_inv H. inversion H; subst. clear H.
  apply ss_transfer_allocs in E7. unfold st_c12. cbn [st_allocs st_with_allocs]. rewrite E7. cbn.
  apply Forall_del_alloc. exact Hs.
Qed.

Lemma ss_finalize_c12 : forall c s now round sender alloc s', st_c12 s -> ss_finalize c s now round sender alloc = Some s' -> st_c12 s'.
Proof.
  unfold ss_finalize; intros c s now round sender alloc s' Hs H. bind_inv H. guard_inv H. guard_inv H. guard_inv H.
  eapply ss_close_c12; eauto.
Qed.

Lemma ss_cancel_c12 : forall c s now round sender alloc s', st_c12 s -> ss_cancel c s now round sender alloc = Some s' -> st_c12 s'.
Proof.
  unfold ss_cancel; intros c s now round sender alloc s' Hs H. bind_inv H. guard_inv H. guard_inv H. guard_inv H.
  eapply ss_close_c12; eauto.
Qed.

(* ---------- removing one blobber: pass payments split its value ---------- *)

Lemma ss_fin_pay_some : forall c a cpbal b d rate now b' d' reward pen,
  ss_fin_pay c a cpbal b d rate now = Some (b', d', reward, pen) -> 0 <= ba_cpiv d ->
  ba_blobber d' = ba_blobber d /\ ba_cpiv d' + reward + pen = ba_cpiv d /\ 0 <= reward /\ 0 <= pen /\ 0 <= ba_cpiv d'.
Proof.
  unfold ss_fin_pay; intros c a cpbal b d rate now b' d' reward pen H Hn.
  destruct (ba_lf d =? 0); [inversion H; subst; repeat split; auto; lia|].
  bind_inv H. destruct x as [[b1 d1] pmove].
  assert (H1 : ba_blobber d1 = ba_blobber d /\ ba_cpiv d1 + pmove = ba_cpiv d /\ 0 <= pmove /\ 0 <= ba_cpiv d1 /\ ba_lf d1 = ba_lf d).
  { destruct (ba_lf d <=? ba_ls d); [inversion E; subst; repeat split; auto; lia|].
    bind_inv E. bind_inv E. bind_inv E. destruct x1 as [dd move]. apply ss_challenge_some in E2. destruct E2 as [-> [Hm0 Hm1]].
    bind_inv E. bind_inv E.
    destruct (f64_ltb f64_zero (cf_slash c) && (0 <? move) && (0 <? x2)).
    - bind_inv E. destruct x3 as [bb dp]. bind_inv E. inversion E; subst. cbn. repeat split; auto; lia.
    - inversion E; subst. cbn. repeat split; auto; lia. }
  destruct H1 as [Hb1 [Hc1 [Hp0 [Hn1 Hlf]]]].
  destruct (now <=? ba_lf d1); [inversion H; subst; repeat split; auto; lia|].
  bind_inv H. bind_inv H.
  destruct ((0 <? al_used a) && (0 <? cpbal) && f64_ltb f64_zero rate).
  - bind_inv H. bind_inv H. bind_inv H. inversion H; subst. apply f64_mult_coin_range in E2.
    apply ss_minus_coin_some in E3. destruct E3 as [-> Hle]. cbn. repeat split; auto; lia.
  - inversion H; subst. repeat split; auto; lia.
Qed.

(* replaceBlobber keeps the equality in both branches *)
Lemma ss_replace_c12 : forall c s now round a removed nb s' a' fired,
  al_c12 a -> ba_cpiv nb = 0 -> ss_replace c s now round a removed nb = Some (s', a', fired) -> fired = false ->
  al_c12 a' /\ st_allocs s' = st_allocs s.
Proof.
  unfold ss_replace; intros c s now round a removed nb s' a' fired Ha Hnb H Hf.
  bind_inv H. rename x into d. bind_inv H. rename x into b.
  destruct (bl_killed b || bl_shut b).
  - bind_as H cp Ecp. bind_as H [w cp'] Emv. bind_as H mb Emb. inversion H; subst. clear H.
    apply ss_move_from_cp_some in Emv. destruct Emv as [-> [-> Hle]].
    split; [|reflexivity]. unfold al_c12. rewrite al_with_pools_money.
    pose proof (al_c12_ba_range _ _ _ Ha E) as Hr. pose proof (al_c12_cp _ Ha) as Hcp. rewrite Ecp in Hcp. inversion Hcp; subst cp.
    destruct Ha as [H1 [H2 [H3' H4]]]. cbn in *.
    pose proof (ss_sum_cpiv_replace_ba _ _ _ nb E) as S. unfold ss_sum_cpiv, al_cpivs in *.
    unfold c12_money; cbn [fst snd]. rewrite S. repeat split; auto; try lia.
    + f_equal. lia.
    + apply cpivs_nonneg_Forall. apply Forall_replace_ba; [apply cpivs_nonneg_Forall; exact H2 | lia].
  - bind_inv H. destruct x as [[a1 rate] gone]. bind_inv H. rename x into d1. bind_inv H. rename x into b0.
    bind_inv H. rename x into cp. bind_inv H. destruct x as [[[b1 d2] reward] pen]. bind_inv H. rename x into cp1.
    bind_inv H. bind_inv H. destruct x0 as [w cp2]. guard_inv H. bind_inv H. bind_inv H. destruct x1 as [b2 w2].
    inversion H; subst. clear H.
    assert (Ha1 : al_c12 a1) by (eapply al_c12_money_eq; [eapply ss_remove_rates_money; eauto | exact Ha]).
    pose proof (al_c12_ba_range _ _ _ Ha1 E2) as Hr. pose proof (al_c12_cp _ Ha1) as Hcp. rewrite E4 in Hcp. inversion Hcp; subst cp.
    pose proof (al_c12_sum_lt _ Ha1) as Hlt. pose proof (al_c12_wpool _ Ha1) as Hw.
    apply ss_fin_pay_some in E5; [|lia]. destruct E5 as [Hb2 [Hsum [Hr0 [Hp0 Hn2]]]].
    apply ss_minus_coin_some in E6. destruct E6 as [-> Hle].
    assert (Hback : ss_wrap (ba_cpiv d2 + pen) = ba_cpiv d2 + pen) by (unfold ss_wrap; apply Z.mod_small; lia).
    rewrite Hback in *. apply ss_move_from_cp_some in E8. destruct E8 as [-> [-> Hle2]].
    split; [|reflexivity]. unfold al_c12. rewrite al_with_stats_money, al_with_pools_money.
    (* write pool after the cancellation charge stays non-negative *)
    assert (Hw2 : 0 <= w2).
    { destruct x0 as [cc|].
      - bind_inv E10. bind_inv E10. bind_inv E10. guard_inv E10. inversion E10; subst.
        apply ss_minus_coin_some in E8. destruct E8 as [-> ?]. unfold ss_cancel_share in *. 
        match goal with |- 0 <= ?w - ?sh => assert (0 <= sh) end.
        { destruct (f64_float_to_coin _) eqn:Ec; [apply f64_float_to_coin_range in Ec; lia | lia]. }
        lia.
      - inversion E10; subst. lia. }
    assert (Ef2 : ss_find_ba removed (ss_set_ba d2 (al_bas a1)) = Some d2).
    { clear - E2 Hb2. apply ss_find_ba_in in E2 as Hin. destruct Hin as [_ Hb]. revert E2. generalize (al_bas a1).
      induction l as [|x tl IH]; cbn; intros H; [discriminate|].
      destruct (Z.eqb_spec (ba_blobber x) removed).
      - replace (ba_blobber x =? ba_blobber d2) with true by (symmetry; apply Z.eqb_eq; congruence).
        cbn. replace (ba_blobber d2 =? removed) with true by (symmetry; apply Z.eqb_eq; congruence). reflexivity.
      - replace (ba_blobber x =? ba_blobber d2) with false by (symmetry; apply Z.eqb_neq; congruence).
        cbn. destruct (Z.eqb_spec (ba_blobber x) removed); [contradiction|]. auto. }
    assert (S1 : ss_sum_cpiv (ss_set_ba d2 (al_bas a1)) = ss_sum_cpiv (al_bas a1) - ba_cpiv d1 + ba_cpiv d2).
    { apply ss_sum_cpiv_set_ba. rewrite Hb2. eapply ss_find_ba_self; eauto. }
    pose proof (ss_sum_cpiv_replace_ba _ _ _ nb Ef2) as S2. unfold ss_sum_cpiv in S1, S2.
    destruct Ha1 as [_ [Hnn _]]. cbn in Hnn. unfold ss_sum_cpiv in *.
    unfold c12_money; cbn [fst snd]. rewrite S2, S1. repeat split; auto; try lia.
    + f_equal. lia.
    + apply cpivs_nonneg_Forall. apply Forall_replace_ba; [|lia]. apply Forall_set_ba; [apply cpivs_nonneg_Forall; exact Hnn | exact Hn2].
Qed.

Lemma ss_change_blobbers_c12 : forall c s now round a add remove s' a' fired,
  al_c12 a -> ss_change_blobbers c s now round a add remove = Some (s', a', fired) -> fired = false ->
  al_c12 a' /\ st_allocs s' = st_allocs s.
Proof.
  unfold ss_change_blobbers; intros c s now round a add remove s' a' fired Ha H Hf.
  guard_inv H. bind_inv H. guard_inv H. bind_inv H. destruct x0 as [[s1 a1] f]. bind_inv H. inversion H; subst. clear H.
  destruct remove as [r|].
  - match type of E0 with ss_replace _ _ _ _ _ _ ?nb = _ =>
      destruct (ss_replace_c12 c s now round a r nb s1 a' false Ha eq_refl E0 eq_refl) as [H1 H2] end.
    split; [exact H1 | cbn; exact H2].
  - inversion E0; subst. clear E0. split; [|reflexivity].
    unfold al_c12, al_with_bas. rewrite al_with_pools_money. cbn [al_cp al_wpool al_with_head al_bas].
    destruct Ha as [H1 [H2 [H3 H4]]]. cbn in *. unfold c12_money; cbn [fst snd].
    rewrite map_app. cbn [map ba_cpiv ss_new_ba].
    assert (S : ss_sum (map ba_cpiv (al_bas a) ++ [0]) = ss_sum (map ba_cpiv (al_bas a))).
    { generalize (map ba_cpiv (al_bas a)). induction l; cbn; lia. }
    rewrite S. repeat split; auto. apply Forall_app. split; [exact H2 | constructor; [lia | constructor]].
Qed.

(* extendAllocation step 1 changes sizes, terms and offers only *)
Lemma ss_extend_terms_cpivs : forall c req diff bas bls bas' bls',
  ss_extend_terms c req diff bas bls = Some (bas', bls') -> map ba_cpiv bas' = map ba_cpiv bas.
Proof.
  induction bas as [|d tl IH]; cbn [ss_extend_terms]; intros bls bas' bls' H.
  - inversion H; reflexivity.
  - bind_inv H. guard_inv H. bind_inv H. bind_inv H. bind_inv H. destruct x2 as [ds bl2]. inversion H; subst.
    cbn. f_equal. eauto.
Qed.

(* adjustChallengePool moves pool and values together; the unchecked addition cannot wrap when the
   values of the remaining blobbers are covered by the pool *)
Lemma ss_adjust_loop_ok : forall odrtu ndrtu bas owps w cp mtc mb bas' w' cp' mtc' mb' f,
  ss_adjust_loop odrtu ndrtu bas owps w cp mtc mb = Some (bas', w', cp', mtc', mb', f) ->
  Forall (fun d => 0 <= ba_cpiv d) bas -> 0 <= w -> 0 <= cp < 2 ^ 64 -> ss_sum_cpiv bas <= cp ->
  f = false /\ Forall (fun d => 0 <= ba_cpiv d) bas' /\ 0 <= w' /\ 0 <= cp' < 2 ^ 64 /\
  ss_sum_cpiv bas' - ss_sum_cpiv bas = cp' - cp.
Proof.
  unfold ss_sum_cpiv.
  induction bas as [|d tl IH]; cbn [ss_adjust_loop]; intros owps w cp mtc mb bas' w' cp' mtc' mb' f H Hb Hw Hcp Hs.
  - inversion H; subst. cbn. repeat split; auto; lia.
  - destruct owps as [|owp otl]; [discriminate|]. inversion Hb as [|? ? Hd Htl]; subst. cbn [map ss_sum] in Hs.
    assert (Hstl : 0 <= ss_sum (map ba_cpiv tl)) by (apply (ss_sum_cpiv_nonneg tl Htl)).
    destruct (ba_used d =? 0).
    { bind_as H [[[[[ds w1] cp1] mtc1] mb1] f1] E. inversion H; subst.
      destruct (IH _ _ _ _ _ _ _ _ _ _ _ E Htl Hw Hcp) as [F [A [B [C D]]]]; try lia. cbn. repeat split; auto; try lia; try (constructor; [lia | exact A]). }
    guard_inv H.
    match type of H with (if ?v =? 0 then _ else _) = _ => set (V := v) in * end.
    assert (HV : 0 <= V < 2 ^ 64) by (subst V; apply f64_to_u64_range).
    destruct (V =? 0).
    { bind_as H [[[[[ds w1] cp1] mtc1] mb1] f1] E. inversion H; subst.
      destruct (IH _ _ _ _ _ _ _ _ _ _ _ E Htl Hw Hcp) as [F [A [B [C D]]]]; try lia. cbn. repeat split; auto; try lia; try (constructor; [lia | exact A]). }
    destruct (f64_ltb _ f64_zero).
    + bind_as H [w1 cp1] E. apply ss_move_from_cp_some in E. destruct E as [-> [-> Hle]].
      bind_as H v' Ev. apply ss_minus_coin_some in Ev. destruct Ev as [-> Hle2].
      bind_as H [[[[[ds w2] cp2] mtc2] mb2] f1] E. inversion H; subst. clear H.
      destruct (IH _ _ _ _ _ _ _ _ _ _ _ E Htl) as [F [A [B [C D]]]]; try lia.
      cbn. repeat split; auto; try lia; try (constructor; [cbn; lia | exact A]).
    + bind_as H [w1 cp1] E. apply ss_move_to_cp_some in E. destruct E as [-> [-> [Hlt Hle]]].
      bind_as H [[[[[ds w2] cp2] mtc2] mb2] f1] E. inversion H; subst. clear H.
      destruct (IH _ _ _ _ _ _ _ _ _ _ _ E Htl) as [F [A [B [C D]]]]; try lia.
      assert (Hwr : ss_wrap (ba_cpiv d + V) = ba_cpiv d + V) by (unfold ss_wrap; apply Z.mod_small; lia).
      subst f1. cbn. rewrite Hwr. repeat split; auto; try lia;
        try (apply Z.leb_gt; lia); try (constructor; [cbn; lia | exact A]).
Qed.

Lemma ss_extend_c12 : forall c s now a size s' a' fired,
  al_c12 a -> ss_extend c s now a size = Some (s', a', fired) ->
  fired = false /\ al_c12 a' /\ st_allocs s' = st_allocs s.
Proof.
  unfold ss_extend; intros c s now a size s' a' fired Ha H.
  bind_as H [bas bls] E0. apply ss_extend_terms_cpivs in E0.
  assert (Ha1 : al_c12 (al_with_bas (al_with_head a (al_owner a) (now + ss_tu_sec c) (al_size a + size) (al_parity a) (al_tpe a)) bas)).
  { unfold al_c12, al_with_bas. rewrite al_with_pools_money. cbn [al_cp al_wpool al_with_head]. rewrite E0. exact Ha. }
  cbn [al_used al_with_bas al_with_pools al_with_head] in H.
  destruct (al_used a =? 0); [inversion H; subst; split; [reflexivity | split; [exact Ha1 | reflexivity]]|].
  bind_as H odrtu E1. bind_as H ndrtu E2. bind_as H cp E3. bind_as H [[[[[bas' w] cp'] mtc] mb] f] E4.
  inversion H; subst. clear H.
  cbn [al_cp al_wpool al_mtc al_mb al_with_bas al_with_pools al_with_head] in *.
  pose proof (al_c12_cp _ Ha) as Hcp. rewrite E3 in Hcp. inversion Hcp; subst cp. clear Hcp.
  pose proof (al_c12_sum_lt _ Ha) as Hlt. pose proof (al_c12_wpool _ Ha) as Hw.
  assert (Hnn : Forall (fun d => 0 <= ba_cpiv d) (al_bas a)) by (destruct Ha as [_ [Hn _]]; apply cpivs_nonneg_Forall; exact Hn).
  assert (Hsum : ss_sum_cpiv bas = ss_sum_cpiv (al_bas a)) by (unfold ss_sum_cpiv; rewrite E0; reflexivity).
  assert (Hnn' : Forall (fun d => 0 <= ba_cpiv d) bas) by (apply cpivs_nonneg_Forall; rewrite E0; apply cpivs_nonneg_Forall; exact Hnn).
  apply ss_adjust_loop_ok in E4; auto; [|pose proof (ss_sum_cpiv_nonneg _ Hnn); lia | lia].
  destruct E4 as [F [A [B [C D]]]]. split; [exact F|]. split; [|reflexivity].
  unfold al_c12. rewrite al_with_pools_money. unfold c12_money; cbn [fst snd]. fold (ss_sum_cpiv bas').
  repeat split; auto; try lia.
  - f_equal. lia.
  - apply cpivs_nonneg_Forall. exact A.
Qed.

Lemma ss_replace_flag : forall c s now round a r nb s' a' f, ss_replace c s now round a r nb = Some (s', a', f) -> f = false.
Proof.
  unfold ss_replace; intros c s now round a r nb s' a' f H. bind_as H d Ed. bind_as H b Eb. destruct (bl_killed b || bl_shut b).
  - bind_as H cp E1. bind_as H [w cp'] E2. bind_as H mb E3. inversion H; reflexivity.
  - bind_as H [[a1 rate] gone] E1. bind_as H d1 E2. bind_as H b0 E3. bind_as H cp E4. bind_as H [[[b1 d2] rew] pen] E5.
    bind_as H cp1 E6. bind_as H mb E7. bind_as H [w cp2] E8. guard_inv H. bind_as H due E9. bind_as H [b2 w2] E10. inversion H; reflexivity.
Qed.

Lemma ss_change_blobbers_flag : forall c s now round a add rem s' a' f,
  ss_change_blobbers c s now round a add rem = Some (s', a', f) -> f = false.
Proof.
  unfold ss_change_blobbers; intros c s now round a add rem s' a' f H.
  guard_inv H. bind_as H ab E1. guard_inv H. bind_as H [[s1 a1] f1] E2. bind_as H ab2 E3. inversion H; subst.
  destruct rem; [eapply ss_replace_flag; eauto | inversion E2; reflexivity].
Qed.

Lemma ss_update_f_c12 : forall c s now round sender alloc value size ext tpe add rem own s' f,
  st_c12 s -> 0 <= value -> ss_update_f c s now round sender alloc value size ext tpe add rem own = Some (s', f) ->
  f = false /\ st_c12 s'.
Proof.
  unfold ss_update_f; intros c s now round sender alloc value size ext tpe add rem own s' f Hs Hv H.
  bind_as H a Ea. guard_inv H. guard_inv H. guard_inv H. guard_inv H. guard_inv H. guard_inv H. guard_inv H.
  bind_as H [s1 a1] E1. bind_as H bl Ebl. bind_as H [[s2 a2] fired] E2. bind_as H cp Ecp. bind_as H need En. guard_inv H.
  inversion H; subst. clear H.
  pose proof (Forall_find_alloc _ _ _ _ Hs Ea) as Ha.
  assert (H1 : al_c12 a1 /\ st_allocs s1 = st_allocs s).
  { destruct (ss_active (cf_demeter c) round && (0 <? value)).
    - bind_as E1 sx Elk. bind_as E1 wx Ew. guard_inv E1. inversion E1; subst.
      apply ss_lock_from_allocs in Elk. split; [|exact Elk].
      apply ss_add_coin_some in Ew. destruct Ew as [-> _].
      destruct Ha as [P1 [P2 [P3 P4]]].
      unfold al_c12. rewrite al_with_pools_money. repeat split; auto. cbn in *. lia.
    - inversion E1; subst. auto. }
  destruct H1 as [Ha1 Es1].
  assert (H2 : f = false /\ al_c12 a2 /\ st_allocs s2 = st_allocs s1).
  { destruct (negb (sender =? al_owner a1)).
    - eapply ss_extend_c12; eauto.
    - bind_as E2 [[sa aa] f1] Ech. bind_as E2 [[sb ab] f2] Eex.
      assert (Ha' : f1 = false /\ al_c12 aa /\ st_allocs sa = st_allocs s1).
      { destruct add as [x0|].
        - pose proof (ss_change_blobbers_flag _ _ _ _ _ _ _ _ _ _ Ech) as Hf1. subst f1.
          split; [reflexivity|]. eapply ss_change_blobbers_c12; eauto.
        - inversion Ech; subst; auto. }
      destruct Ha' as [-> [Haa Esa]].
      assert (Hb' : f2 = false /\ al_c12 ab /\ st_allocs sb = st_allocs sa).
      { destruct (ext || (0 <? size)); [eapply ss_extend_c12; eauto | inversion Eex; subst; auto]. }
      destruct Hb' as [-> [Hab Esb]].
      destruct own as [[o wp]|].
      + destruct (o =? _).
        * inversion E2; subst. split; [reflexivity|]. split; [|congruence]. unfold al_c12. rewrite al_with_head_money. exact Hab.
        * guard_inv E2. inversion E2; subst. split; [reflexivity|]. split; [|congruence]. unfold al_c12. repeat rewrite al_with_head_money. exact Hab.
      + inversion E2; subst. split; [reflexivity|]. split; [|congruence]. unfold al_c12. rewrite al_with_head_money. exact Hab. }
  destruct H2 as [Hf [Ha2 Es2]]. split; [exact Hf|].
  unfold st_c12. cbn [st_allocs st_with_allocs]. rewrite Es2, Es1. apply Forall_set_alloc; auto.
Qed.

(* ---------- every operation ---------- *)

Definition ss_op_wf (o : ss_op) : Prop :=
  match o with
  | OpNewAlloc _ _ _ value _ _ _ _ _ _ _ _ _ => 0 <= value
  | OpWPLock _ _ value => 0 <= value
  | OpUpdate _ _ value _ _ _ _ _ _ => 0 <= value
  | OpChalResp _ _ _ pass vals => pass = true -> vals <> []
  | _ => True
  end.

Lemma ss_rp_lock_allocs : forall c s a b v s', ss_rp_lock c s a b v = Some s' -> st_allocs s' = st_allocs s.
Proof.
  unfold ss_rp_lock; intros c s a b v s' H. guard_inv H. bind_as H s1 E. bind_as H x Ex. inversion H; subst. cbn.
  eapply ss_lock_from_allocs; eauto.
Qed.

Lemma ss_rp_unlock_allocs : forall c s a s', ss_rp_unlock c s a = Some s' -> st_allocs s' = st_allocs s.
Proof.
  unfold ss_rp_unlock; intros c s a s' H. bind_as H v E. bind_as H s1 E1. inversion H; subst. cbn. eapply ss_transfer_allocs; eauto.
Qed.

Lemma ss_kill_allocs : forall c s a b s', ss_kill c s a b = Some s' -> st_allocs s' = st_allocs s.
Proof.
  unfold ss_kill; intros c s a b s' H. bind_as H x E. guard_inv H. destruct (bl_killed x || bl_shut x).
  - inversion H; reflexivity.
  - bind_as H y Ey. inversion H; reflexivity.
Qed.

Lemma ss_shutdown_allocs : forall c s a b s', ss_shutdown c s a b = Some s' -> st_allocs s' = st_allocs s.
Proof.
  unfold ss_shutdown; intros c s a b s' H. bind_as H x E. destruct (bl_killed x || bl_shut x).
  - inversion H; reflexivity.
  - guard_inv H. bind_as H y Ey. inversion H; reflexivity.
Qed.

Lemma ss_upd_blobber_allocs : forall c s a b cap wp rp na s', ss_upd_blobber c s a b cap wp rp na = Some s' -> st_allocs s' = st_allocs s.
Proof.
  unfold ss_upd_blobber; intros c s a b cap wp rp na s' H. bind_as H x E. guard_inv H. bind_as H r Er. bind_as H w Ew. bind_as H cp Ec.
  guard_inv H. inversion H; reflexivity.
Qed.

Lemma ss_add_assigner_allocs : forall c s a n k i t s', ss_add_assigner c s a n k i t = Some s' -> st_allocs s' = st_allocs s.
Proof.
  unfold ss_add_assigner; intros c s a n k i t s' H. guard_inv H. bind_as H x E. guard_inv H. bind_as H y Ey. guard_inv H.
  inversion H; reflexivity.
Qed.

Lemma ss_free_alloc_c12 : forall c s now id sender ass rec coin nonce sig bl s',
  st_c12 s -> ss_free_alloc c s now id sender ass rec coin nonce sig bl = Some s' -> st_c12 s'.
Proof.
  unfold ss_free_alloc; intros c s now id sender ass rec coin nonce sig bl s' Hs H.
  guard_inv H. bind_as H a Ea. bind_as H free Ef. guard_inv H. bind_as H nt Ent. guard_inv H. bind_as H rtok Er. bind_as H wtok Ew.
  bind_as H s1 E1. bind_as H v Ev. inversion H; subst. clear H.
  apply ss_minus_coin_some in Ew. destruct Ew as [-> Hle].
  apply ss_new_alloc_c12 in E1; [|exact Hs|lia]. exact E1.
Qed.

Theorem ss_apply_c12 : forall c s now round o s',
  st_c12 s -> ss_op_wf o -> ss_apply c s now round o = Some s' -> st_c12 s'.
Proof.
  intros c s now round o s' Hs Hwf H. destruct o; cbn [ss_apply ss_op_wf] in *.
  - discriminate.
  - eapply ss_new_alloc_c12; eauto.
  - eapply ss_wp_lock_c12; eauto.
  - eapply ss_commit_c12; eauto.
  - destruct sel as [[[al bl] ch]|]; [eapply ss_gen_chal_c12; eauto | inversion H; subst; exact Hs].
  - eapply ss_chal_resp_c12; eauto.
  - unfold ss_update in H. destruct (ss_update_f c s now round sender alloc value size extend set_tpe add remove new_owner) as [[s2 f]|] eqn:E; [|discriminate].
    cbn in H. inversion H; subst. eapply ss_update_f_c12; eauto.
  - eapply ss_finalize_c12; eauto.
  - eapply ss_cancel_c12; eauto.
  - eapply st_c12_allocs_eq; [eapply ss_rp_lock_allocs; eauto | exact Hs].
  - eapply st_c12_allocs_eq; [eapply ss_rp_unlock_allocs; eauto | exact Hs].
  - eapply ss_read_c12; eauto.
  - eapply st_c12_allocs_eq; [eapply ss_kill_allocs; eauto | exact Hs].
  - eapply st_c12_allocs_eq; [eapply ss_shutdown_allocs; eauto | exact Hs].
  - eapply st_c12_allocs_eq; [eapply ss_upd_blobber_allocs; eauto | exact Hs].
  - eapply st_c12_allocs_eq; [eapply ss_add_assigner_allocs; eauto | exact Hs].
  - eapply ss_free_alloc_c12; eauto.
Qed.

(* the unchecked addition of adjustChallengePool never wraps on states satisfying the invariant *)
Theorem ss_never_fired : forall c s now round o, st_c12 s -> ss_op_wf o -> ss_fired c s now round o = false.
Proof.
  intros c s now round o Hs Hwf. destruct o; cbn [ss_fired]; try reflexivity.
  destruct (ss_update_f c s now round sender alloc value size extend set_tpe add remove new_owner) as [[s2 f]|] eqn:E; [|reflexivity].
  eapply ss_update_f_c12 in E; eauto. destruct E; auto.
Qed.

(* histories: the invariant holds after every prefix *)
Theorem ss_run_c12 : forall c ts s,
  st_c12 s -> Forall (fun t => ss_op_wf (snd t)) ts -> st_c12 (fst (ss_run c s ts)).
Proof.
  induction ts as [|[[now round] o] tl IH]; cbn [ss_run]; intros s Hs Hwf; [exact Hs|].
  inversion Hwf; subst.
  unfold ss_step in *. destruct (ss_apply c s now round o) as [s1|] eqn:E.
  - specialize (IH s1). destruct (ss_run c s1 tl) as [s2 oks] eqn:Er. cbn.
    assert (Hs1 : st_c12 s1) by (eapply ss_apply_c12; eauto). exact (IH Hs1 H2).
  - specialize (IH s Hs H2). destruct (ss_run c s tl) as [s2 oks]. exact IH.
Qed.

(* the empty state satisfies the invariant *)
Lemma st_c12_no_allocs : forall s, st_allocs s = [] -> st_c12 s.
Proof. unfold st_c12; intros s ->; constructor. Qed.

(* a closed allocation is gone (its pool lives inside the allocation record of the model) *)
Lemma ss_find_del_alloc : forall id l, NoDup (map al_id l) -> ss_find_alloc id (ss_del_alloc id l) = None.
Proof.
  induction l as [|x tl IH]; cbn; intros Hnd; [reflexivity|]. inversion Hnd; subst.
  destruct (Z.eqb_spec (al_id x) id).
  - subst. clear - H1. induction tl as [|y tl IH]; cbn; [reflexivity|]. destruct (Z.eqb_spec (al_id y) (al_id x)).
    + exfalso. apply H1. cbn. left; auto.
    + apply IH. intros Hin. apply H1. cbn. right; exact Hin.
  - cbn. destruct (Z.eqb_spec (al_id x) id); [contradiction|]. auto.
Qed.

Theorem ss_close_removes : forall c s now round a s',
  NoDup (map al_id (st_allocs s)) -> ss_close c s now round a = Some s' -> ss_find_alloc (al_id a) (st_allocs s') = None.
Proof.
  unfold ss_close; intros c s now round a s' Hnd H.
  remember (ss_settle_all c round a) as r eqn:Er. destruct r as [[a1 rates] gone].
  bind_as H cp E0. bind_as H [[bas bls1] paid] E1. bind_as H cp1 E2. bind_as H mb E3. bind_as H w E4. guard_inv H. bind_as H due E5.
  bind_as H [bls2 w2] E6. bind_as H bls3 E7. bind_as H s2 E8. inversion H; subst. clear H.
  apply ss_transfer_allocs in E8. cbn. rewrite E8. cbn. apply ss_find_del_alloc. exact Hnd.
Qed.

(* ---------- executable form of the invariant (used for witnesses and examples) ---------- *)

Definition al_c12b (a : ss_alloc) : bool :=
  match al_cp a with
  | Some cp => (cp =? ss_sum_cpiv (al_bas a)) && forallb (fun d => 0 <=? ba_cpiv d) (al_bas a) &&
               (ss_sum_cpiv (al_bas a) <? 2 ^ 64) && (0 <=? al_wpool a)
  | None => false
  end.
Definition st_c12b (s : ss_state) : bool := forallb al_c12b (st_allocs s).

Lemma al_c12b_spec : forall a, al_c12b a = true <-> al_c12 a.
Proof.
  intros a. unfold al_c12b, al_c12, c12_money, al_money, al_cpivs; cbn [fst snd]. fold (ss_sum_cpiv (al_bas a)).
  destruct (al_cp a) as [cp|].
  - rewrite !andb_true_iff, Z.eqb_eq, Z.ltb_lt, Z.leb_le, forallb_forall, Forall_map, Forall_forall.
    split.
    + intros [[[-> H2] H3] H4]. repeat split; auto. intros x Hx. apply Z.leb_le. auto.
    + intros [H1 [H2 [H3 H4]]]. inversion H1; subst. repeat split; auto. intros x Hx. apply Z.leb_le. auto.
  - split; [discriminate | intros [H _]; discriminate].
Qed.

Lemma st_c12b_spec : forall s, st_c12b s = true <-> st_c12 s.
Proof.
  intros s. unfold st_c12b, st_c12. rewrite forallb_forall, Forall_forall.
  split; intros H x Hx; apply al_c12b_spec; auto.
Qed.

Lemma st_c12b_false : forall s, st_c12b s = false -> ~ st_c12 s.
Proof. intros s H Hc. apply st_c12b_spec in Hc. congruence. Qed.
