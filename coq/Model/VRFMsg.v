(* The message the miners sign for the round seed (miner/protocol_bls.go GetBlsMessageForRound):
     fmt.Sprintf("%v%v%v", round, normalized timeout count, strconv.FormatInt(prev seed, 16))
   i.e. decimal, decimal, hexadecimal (with a minus sign for a negative seed), no separators.
   Definitions only (stdlib style). *)
From Coq Require Import ZArith String DecimalString HexadecimalString.
Open Scope Z_scope.

Definition vrfm_dec (z : Z) : string := DecimalString.NilZero.string_of_int (Z.to_int z).
Definition vrfm_hex (z : Z) : string := HexadecimalString.NilZero.string_of_int (Z.to_hex_int z).

Definition vrfm_msg (round timeout prev_seed : Z) : string :=
  (vrfm_dec round ++ vrfm_dec timeout ++ vrfm_hex prev_seed)%string.
