(* Model of block generation and block verification (property C45).
     miner/protocol_block.go: generateBlock, txnIterHandlerFunc, txnProcessorHandlerFunc,
       validateTransaction, TxnIterInfo.checkForCurrent, processTxn, VerifyBlock, ValidateTransactions
     chaincore/block/entity.go: Block.Validate (duplicate check), Block.ComputeState
   Definitions only; proofs are in Proof/BlockGen.v.

   The per-transaction state update (chain.UpdateState), the nonce lookup (chain.GetStateById),
   the state root and the change count are Section variables: ANY functions.  Everything the
   generator decides (iteration order, past/future classification, future lists, re-inclusion of
   future transactions, duplicate exclusion, cost limit, byte limit, built-in transactions) is
   modelled as the code has it (tree with the fixes fe583b6 cost-limit comparison against the
   remaining budget and 1f71793 skip of pool transactions named like a built-in), including Go int64
   wrap-around of the unchecked additions and subtractions.

   Outside the model (oracles assumed not to fire; see checks/C45.json): context cancellation and
   timers, round mismatch / round timeout flags, missing-node state errors and their network sync,
   the MinBlockSize test (waitOver = true), signatures (a boolean
   per transaction), the block's own hash/signature and magic-block reference. *)
From Coq Require Export List ZArith Bool Arith Lia.
Export ListNotations.
Open Scope Z_scope.

(* Go int / int64 two's complement wrap-around *)
Definition bg_wrap (z : Z) : Z := (z + 2 ^ 63) mod 2 ^ 64 - 2 ^ 63.

Record bg_txn := {
  bt_hash : Z;            (* Transaction.Hash (GetKey) as a token *)
  bt_client : Z;          (* sender *)
  bt_nonce : Z;
  bt_fee : Z;
  bt_cdate : Z;           (* CreationDate *)
  bt_valbig : bool;       (* Value > config.MaxTokenSupply *)
  bt_cost : option Z;     (* EstimateTransactionCost against the LFB; None = error (verifier, promoted loop, built-ins) *)
  bt_gcost : option Z;    (* cost returned by EstimateTransactionCostFee: the budget source of the pool iteration *)
  bt_gfee : Z;            (* fee returned by EstimateTransactionCostFee (0 for exempt functions) *)
  bt_exempt : bool;       (* TransactionData <> "" and FunctionName is on ChainConfig.TxnExempt *)
  bt_size : Z;            (* len(TransactionData) *)
  bt_fname : Z;           (* 0: FunctionName is not a built-in name (or not a contract call); k>0: built-in name k *)
  bt_valid : bool;        (* passes the non-time checks of ValidateWrtTimeForBlock (hash, signature, ids) *)
  bt_kind : Z;            (* opaque payload read only by the state update *)
  bt_value : Z;
  bt_to : Z
}.

Definition bg_set_nonce (t : bg_txn) (n : Z) : bg_txn :=
  {| bt_hash := bt_hash t; bt_client := bt_client t; bt_nonce := n; bt_fee := bt_fee t;
     bt_cdate := bt_cdate t; bt_valbig := bt_valbig t; bt_cost := bt_cost t; bt_gcost := bt_gcost t;
     bt_gfee := bt_gfee t; bt_exempt := bt_exempt t; bt_size := bt_size t;
     bt_fname := bt_fname t; bt_valid := bt_valid t; bt_kind := bt_kind t; bt_value := bt_value t;
     bt_to := bt_to t |}.

Record bg_cfg := {
  bc_maxcost : Z;         (* ChainConfig.MaxBlockCost *)
  bc_maxbytes : Z;        (* MaxByteSize *)
  bc_tol : Z;             (* transaction.TXN_TIME_TOLERANCE *)
  bc_bdate : Z;           (* b.CreationDate (the clock, recorded) *)
  bc_miner : Z;           (* client id of the generator (built-in transactions) *)
  bc_fee : bool;          (* ChainConfig.IsFeeEnabled *)
  bc_minfee : Z           (* ChainConfig.MinTxnFee *)
}.

(* common.WithinTime(o, ts, seconds) *)
Definition bg_within (o ts s : Z) : bool := (o - s <=? ts) && (ts <=? o + s).

(* output of one state update: (output hash token, len(TransactionOutput)) *)
Definition bg_out : Type := (Z * Z)%type.

Record bg_tii := {
  ti_map : list Z;                                 (* txnMap: keys of included transactions *)
  ti_future : list (Z * (Z * list bg_txn));        (* futureTxns: client -> (nonce, txns) *)
  ti_current : list bg_txn;                        (* currentTxns *)
  ti_past : list bg_txn;
  ti_invalid : list bg_txn;
  ti_cost : Z;
  ti_bytes : Z;
  ti_idx : Z;
  ti_failed : Z
}.

Definition bg_tii0 (cost : Z) : bg_tii :=
  {| ti_map := []; ti_future := []; ti_current := []; ti_past := []; ti_invalid := [];
     ti_cost := cost; ti_bytes := 0; ti_idx := 0; ti_failed := 0 |}.

Fixpoint bg_flookup (c : Z) (l : list (Z * (Z * list bg_txn))) : option (Z * list bg_txn) :=
  match l with
  | [] => None
  | (k, v) :: r => if Z.eqb k c then Some v else bg_flookup c r
  end.

Fixpoint bg_fset (c : Z) (v : Z * list bg_txn) (l : list (Z * (Z * list bg_txn))) : list (Z * (Z * list bg_txn)) :=
  match l with
  | [] => [(c, v)]
  | (k, w) :: r => if Z.eqb k c then (k, v) :: r else (k, w) :: bg_fset c v r
  end.

(* less function of the future list: nonce ascending, same nonce by fee descending *)
Definition bg_fless (a b : bg_txn) : bool :=
  (bt_nonce a <? bt_nonce b) || ((bt_nonce a =? bt_nonce b) && (bt_fee b <? bt_fee a)).

(* append(list, t) followed by sort.SliceStable on a list that was sorted before *)
Fixpoint bg_finsert (t : bg_txn) (l : list bg_txn) : list bg_txn :=
  match l with
  | [] => [t]
  | e :: r => if bg_fless t e then t :: e :: r else e :: bg_finsert t r
  end.

(* sort.SliceStable(currentTxns, by nonce): a stable insertion sort *)
Fixpoint bg_ninsert (t : bg_txn) (l : list bg_txn) : list bg_txn :=
  match l with
  | [] => [t]
  | e :: r => if bt_nonce t <=? bt_nonce e then t :: e :: r else e :: bg_ninsert t r
  end.
Fixpoint bg_nsort (l : list bg_txn) : list bg_txn :=
  match l with
  | [] => []
  | t :: r => bg_ninsert t (bg_nsort r)
  end.

(* the loop of checkForCurrent: returns (remaining futures, currentNonce, new current, new past) *)
Fixpoint bg_cfc_loop (futs : list bg_txn) (cur : Z) (acur apast : list bg_txn)
  : list bg_txn * Z * list bg_txn * list bg_txn :=
  match futs with
  | [] => ([], cur, acur, apast)
  | f :: r =>
      let d := bg_wrap (bt_nonce f - cur) in
      if 1 <? d then (futs, cur, acur, apast)
      else if d <? 1 then bg_cfc_loop r cur acur (apast ++ [f])
      else bg_cfc_loop r (bt_nonce f) (acur ++ [f]) apast
  end.

Definition bg_check_for_current (tii : bg_tii) (t : bg_txn) : bg_tii :=
  match bg_flookup (bt_client t) (ti_future tii) with
  | None => tii
  | Some (_, []) => tii
  | Some (_, futs) =>
      let '(rest, cur, ncur, npast) := bg_cfc_loop futs (bt_nonce t) [] [] in
      {| ti_map := ti_map tii;
         ti_future := bg_fset (bt_client t) (cur, rest) (ti_future tii);
         ti_current := bg_nsort (ti_current tii ++ ncur);
         ti_past := ti_past tii ++ npast;
         ti_invalid := ti_invalid tii;
         ti_cost := ti_cost tii; ti_bytes := ti_bytes tii; ti_idx := ti_idx tii;
         ti_failed := ti_failed tii |}
  end.

Inductive bg_vres := BvPast (n : Z) | BvFuture (n : Z) | BvNotTol | BvOk (n : Z).

Inductive bg_iter (A : Type) := ItCont (g : A) | ItStop (g : A) | ItAbort.
Arguments ItCont {A}. Arguments ItStop {A}. Arguments ItAbort {A}.

Section BlockGen.
  Variable state : Type.
  (* chain.UpdateState: None = error (transaction not included / block rejected) *)
  Variable apply : state -> bg_txn -> option (state * bg_out).
  (* chain.GetStateById(bState, client).Nonce: None = util.ErrValueNotPresent *)
  Variable snonce : state -> Z -> option Z.
  Variable root : state -> Z.     (* ClientState.GetRoot() as a token *)
  Variable chg : state -> Z.      (* ClientState.GetChangeCount() *)

  Record bg_gs := { gs_st : state; gs_tii : bg_tii; gs_blk : list (bg_txn * bg_out) }.

  (* validateTransaction *)
  Definition bg_validate (cfg : bg_cfg) (st : state) (t : bg_txn) : bg_vres :=
    if negb (bg_within (bc_bdate cfg) (bt_cdate t) (bc_tol cfg)) then BvNotTol else
    match snonce st (bt_client t) with
    | None => if 1 <? bt_nonce t then BvFuture 0 else if bt_nonce t <? 1 then BvPast 0 else BvOk 0
    | Some n =>
        let d := bg_wrap (bt_nonce t - n) in
        if 1 <? d then BvFuture n else if d <? 1 then BvPast n else BvOk n
    end.

  Definition bg_with_tii (g : bg_gs) (tii : bg_tii) : bg_gs :=
    {| gs_st := gs_st g; gs_tii := tii; gs_blk := gs_blk g |}.

  Definition bg_add_cost (g : bg_gs) (c : Z) : bg_gs :=
    let tii := gs_tii g in
    bg_with_tii g
      {| ti_map := ti_map tii; ti_future := ti_future tii; ti_current := ti_current tii;
         ti_past := ti_past tii; ti_invalid := ti_invalid tii;
         ti_cost := bg_wrap (ti_cost tii + c); ti_bytes := ti_bytes tii; ti_idx := ti_idx tii;
         ti_failed := ti_failed tii |}.

  Definition bg_mark_invalid (g : bg_gs) (t : bg_txn) : bg_gs :=
    let tii := gs_tii g in
    bg_with_tii g
      {| ti_map := ti_map tii; ti_future := ti_future tii; ti_current := ti_current tii;
         ti_past := ti_past tii; ti_invalid := ti_invalid tii ++ [t];
         ti_cost := ti_cost tii; ti_bytes := ti_bytes tii; ti_idx := ti_idx tii;
         ti_failed := ti_failed tii |}.

  (* txnProcessorHandlerFunc: (new generator state, processed successfully) *)
  Definition bg_process (cfg : bg_cfg) (g : bg_gs) (t : bg_txn) : bg_gs * bool :=
    let tii := gs_tii g in
    if existsb (Z.eqb (bt_hash t)) (ti_map tii) then (g, false) else
    match bg_validate cfg (gs_st g) t with
    | BvPast _ =>
        (bg_with_tii g
           {| ti_map := ti_map tii; ti_future := ti_future tii; ti_current := ti_current tii;
              ti_past := ti_past tii ++ [t]; ti_invalid := ti_invalid tii;
              ti_cost := ti_cost tii; ti_bytes := ti_bytes tii; ti_idx := ti_idx tii;
              ti_failed := ti_failed tii |}, false)
    | BvFuture n =>
        let '(ln, l) := match bg_flookup (bt_client t) (ti_future tii) with
                        | Some x => x | None => (0, []) end in
        let ln' := if ln <? n then n else ln in
        (bg_with_tii g
           {| ti_map := ti_map tii;
              ti_future := bg_fset (bt_client t) (ln', bg_finsert t l) (ti_future tii);
              ti_current := ti_current tii;
              ti_past := ti_past tii; ti_invalid := ti_invalid tii;
              ti_cost := ti_cost tii; ti_bytes := ti_bytes tii; ti_idx := ti_idx tii;
              ti_failed := ti_failed tii |}, false)
    | BvNotTol =>
        (bg_with_tii g
           {| ti_map := ti_map tii; ti_future := ti_future tii; ti_current := ti_current tii;
              ti_past := ti_past tii; ti_invalid := ti_invalid tii ++ [t];
              ti_cost := ti_cost tii; ti_bytes := ti_bytes tii; ti_idx := ti_idx tii;
              ti_failed := ti_failed tii |}, false)
    | BvOk _ =>
        match apply (gs_st g) t with
        | None =>
            (bg_with_tii g
               {| ti_map := ti_map tii; ti_future := ti_future tii; ti_current := ti_current tii;
                  ti_past := ti_past tii; ti_invalid := ti_invalid tii;
                  ti_cost := ti_cost tii; ti_bytes := ti_bytes tii; ti_idx := ti_idx tii;
                  ti_failed := ti_failed tii + 1 |}, false)
        | Some (st', o) =>
            let tii1 :=
              {| ti_map := bt_hash t :: ti_map tii; ti_future := ti_future tii;
                 ti_current := ti_current tii; ti_past := ti_past tii; ti_invalid := ti_invalid tii;
                 ti_cost := ti_cost tii;
                 ti_bytes := bg_wrap (ti_bytes tii + bg_wrap (bt_size t + snd o));
                 ti_idx := ti_idx tii + 1; ti_failed := ti_failed tii |} in
            ({| gs_st := st'; gs_tii := bg_check_for_current tii1 t; gs_blk := gs_blk g ++ [(t, o)] |}, true)
        end
    end.

  (* txnIterHandlerFunc, one pool entry *)
  Definition bg_iter_step (cfg : bg_cfg) (g : bg_gs) (t : bg_txn) : bg_iter bg_gs :=
    if bt_valbig t then ItAbort else
    match bt_gcost t with
    | None => ItCont g
    | Some c =>
        (* fees enabled: txn.ValidateFee(TxnExempt, max(MinTxnFee, estimated fee)) *)
        if bc_fee cfg && negb (bt_exempt t) && (bt_fee t <? Z.max (bc_minfee cfg) (bt_gfee t))
        then ItCont (bg_mark_invalid g t) else
        (* a pool transaction carrying a built-in function name is marked invalid and skipped *)
        if negb (bt_fname t =? 0) then ItCont (bg_mark_invalid g t) else
        (* cost >= MaxBlockCost - tii.cost *)
        if bg_wrap (bc_maxcost cfg - ti_cost (gs_tii g)) <=? c then ItCont g else
        let '(g1, ok) := bg_process cfg g t in
        if negb ok then ItCont g1 else
        let g2 := bg_add_cost g1 c in
        if bc_maxbytes cfg <=? ti_bytes (gs_tii g2) then ItStop g2 else ItCont g2
    end.

  (* IterateCollection over the pool in the order the store hands it out; None = generation aborted *)
  Fixpoint bg_iterate (cfg : bg_cfg) (g : bg_gs) (pool : list bg_txn) : option bg_gs :=
    match pool with
    | [] => Some g
    | t :: r =>
        match bg_iter_step cfg g t with
        | ItCont g1 => bg_iterate cfg g1 r
        | ItStop g1 => Some g1
        | ItAbort => None
        end
    end.

  (* the loop over iterInfo.currentTxns by index; the list can grow and be re-sorted while it runs *)
  Fixpoint bg_cur_loop (fuel : nat) (cfg : bg_cfg) (g : bg_gs) (i : nat) : option bg_gs :=
    match fuel with
    | O => None
    | S f =>
        let tii := gs_tii g in
        match nth_error (ti_current tii) i with
        | None => Some g
        | Some t =>
            if negb ((ti_cost tii <? bc_maxcost cfg) && (ti_bytes tii <? bc_maxbytes cfg)) then Some g else
            match bt_cost t with
            | None => Some g
            | Some c =>
                if bg_wrap (bc_maxcost cfg - ti_cost tii) <=? c then Some g else
                let '(g1, ok) := bg_process cfg g t in
                if ok then
                  let g2 := bg_add_cost g1 c in
                  if bc_maxbytes cfg <=? ti_bytes (gs_tii g2) then Some g2
                  else bg_cur_loop f cfg g2 (S i)
                else bg_cur_loop f cfg g1 (S i)
            end
        end
    end.

  (* getCurrentSelfNonce *)
  Definition bg_self_nonce (cfg : bg_cfg) (st : state) : Z :=
    match snonce st (bc_miner cfg) with None => 1 | Some n => bg_wrap (n + 1) end.

  (* the loop over buildInTxns: processTxn; a failing built-in is logged and skipped *)
  Fixpoint bg_builtins (cfg : bg_cfg) (g : bg_gs) (bis : list bg_txn) : bg_gs :=
    match bis with
    | [] => g
    | b :: r =>
        let b' := bg_set_nonce b (bg_self_nonce cfg (gs_st g)) in
        match apply (gs_st g) b' with
        | None => bg_builtins cfg g r
        | Some (st', o) =>
            bg_builtins cfg {| gs_st := st'; gs_tii := gs_tii g; gs_blk := gs_blk g ++ [(b', o)] |} r
        end
    end.

  Fixpoint bg_sum_costs (l : list bg_txn) (acc : Z) : option Z :=
    match l with
    | [] => Some acc
    | t :: r => match bt_cost t with None => None | Some c => bg_sum_costs r (bg_wrap (acc + c)) end
    end.

  (* VerifyBlock's cost loop: estimate error or c > MaxBlockCost - cost => rejected (None) *)
  Fixpoint bg_ver_costs (max : Z) (l : list bg_txn) (acc : Z) : option Z :=
    match l with
    | [] => Some acc
    | t :: r =>
        match bt_cost t with
        | None => None
        | Some c => if bg_wrap (max - acc) <? c then None else bg_ver_costs max r (bg_wrap (acc + c))
        end
    end.

  Record bg_block := { bk_txns : list (bg_txn * bg_out); bk_root : Z; bk_chg : Z }.

  Inductive bg_result := GenOk (b : bg_block) | GenFail | GenOutOfFuel.

  (* b.Txns = b.Txns[:blockSize] when byteSize < MaxByteSize *)
  Definition bg_trim (cfg : bg_cfg) (g : bg_gs) : bg_gs :=
    if ti_bytes (gs_tii g) <? bc_maxbytes cfg
    then {| gs_st := gs_st g; gs_tii := gs_tii g; gs_blk := firstn (Z.to_nat (ti_idx (gs_tii g))) (gs_blk g) |}
    else g.

  Definition bg_generate (cfg : bg_cfg) (st0 : state) (pool bis : list bg_txn) : bg_result :=
    match bg_sum_costs bis 0 with
    | None => GenFail
    | Some bicost =>
        let g0 := {| gs_st := st0; gs_tii := bg_tii0 bicost; gs_blk := [] |} in
        match bg_iterate cfg g0 pool with
        | None => GenFail
        | Some g1 =>
            match bg_cur_loop (length pool + 2) cfg g1 0 with
            | None => GenOutOfFuel
            | Some g2 =>
                let g3 := bg_builtins cfg (bg_trim cfg g2) bis in
                GenOk {| bk_txns := gs_blk g3; bk_root := root (gs_st g3); bk_chg := chg (gs_st g3) |}
            end
        end
    end.

  (* ---------- verification ---------- *)

  (* Block.ComputeState: replay every transaction in block order *)
  Fixpoint bg_replay (st : state) (l : list bg_txn) : option (state * list bg_out) :=
    match l with
    | [] => Some (st, [])
    | t :: r =>
        match apply st t with
        | None => None
        | Some (st', o) =>
            match bg_replay st' r with
            | None => None
            | Some (st'', os) => Some (st'', o :: os)
            end
        end
    end.

  Fixpoint bg_nodupb (l : list Z) : bool :=
    match l with
    | [] => true
    | x :: r => negb (existsb (Z.eqb x) r) && bg_nodupb r
    end.

  (* hasDuplicateBuildInTxns over the whole block *)
  Definition bg_builtin_names (l : list bg_txn) : list Z :=
    filter (fun k => negb (k =? 0)) (map bt_fname l).

  Inductive bg_vresult :=
  | VerOk (rt : Z) (outs : list bg_out) (changes : Z)
  | VerFail (why : Z).   (* 1 duplicate txn, 2 txn validation (incl. duplicate built-in), 3 cost, 4 state, 5 output *)

  Definition bg_verify (cfg : bg_cfg) (st0 : state) (b : bg_block) : bg_vresult :=
    let txns := map fst (bk_txns b) in
    if negb (bg_nodupb (map bt_hash txns)) then VerFail 1 else
    if negb (forallb (fun t => bg_within (bc_bdate cfg) (bt_cdate t) (bc_tol cfg) && bt_valid t) txns)
    then VerFail 2 else
    if negb (bg_nodupb (bg_builtin_names txns)) then VerFail 2 else
    match bg_ver_costs (bc_maxcost cfg) txns 0 with
    | None => VerFail 3
    | Some c =>
        if bc_maxcost cfg <? c then VerFail 3 else
        match bg_replay st0 txns with
        | None => VerFail 4
        | Some (st', outs) =>
            if negb (root st' =? bk_root b) then VerFail 4 else
            if negb (forallb (fun p => fst (fst p) =? fst (snd p)) (combine outs (map snd (bk_txns b))))
            then VerFail 5
            else VerOk (root st') outs (chg st')
        end
    end.
End BlockGen.

Arguments gs_st {state}. Arguments gs_tii {state}. Arguments gs_blk {state}.
