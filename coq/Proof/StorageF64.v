(* Float facts for the storage ledger (C09: kill / shut-down slash the delegate pools by a fraction),
   proved with Flocq (IEEE754.BinarySingleNaN relates the Coq.Floats.SpecFloat operations of
   Model/F64.v to rounding of real numbers).  The bridge lemmas up to [mult_coin_core] are the ones
   of Proof/VestingF64.v, repeated here so that the storage closure does not depend on the vesting
   engine.  Depends on the axioms of the standard library's real numbers. *)
From Coq Require Import ZArith Reals Lia Lra Bool List Floats.SpecFloat.
From Flocq Require Import Core.Core IEEE754.BinarySingleNaN.
From Flocq Require IEEE754.PrimFloat.
From ZC Require Import Model.F64 Model.Storage Proof.StorageUtil.
Import ListNotations.
Open Scope Z_scope.

Notation Hp := Flocq.IEEE754.PrimFloat.Hprec.
Notation Hm := Flocq.IEEE754.PrimFloat.Hmax.
Notation B := (binary_float 53 1024).
Notation RN := (round radix2 (fexp 53 1024) (round_mode mode_NE)).
Notation fmt := (generic_format radix2 (fexp 53 1024)).

#[local] Existing Instance Flocq.IEEE754.PrimFloat.Hprec.
#[local] Existing Instance Flocq.IEEE754.PrimFloat.Hmax.

Definition bofZ (z : Z) : B := binary_normalize 53 1024 Hp Hm mode_NE z 0 false.

Lemma f64_of_Z_B : forall z, f64_of_Z z = B2SF (bofZ z).
Proof. intros z. exact (Flocq.IEEE754.PrimFloat.binary_normalize_equiv z 0 false). Qed.

Lemma vexp : Valid_exp (fexp 53 1024).
Proof. apply (fexp_correct 53 1024). exact Hp. Qed.
Lemma vrnd : Valid_rnd (round_mode mode_NE).
Proof. apply valid_rnd_round_mode. Qed.
#[local] Existing Instance vexp.
#[local] Existing Instance vrnd.

Lemma fmt_bpow : forall e, (-1000 <= e < 1024)%Z -> fmt (bpow radix2 e).
Proof.
  intros e He. apply generic_format_bpow. unfold fexp, FLT_exp, emin. lia.
Qed.

Lemma SFmul_B : forall x y : B, SFmul 53 1024 (B2SF x) (B2SF y) = B2SF (Bmult mode_NE x y).
Proof.
  intros [sx|sx| |sx mx ex Bx] [sy|sy| |sy my ey By]; try reflexivity.
  simpl. rewrite B2SF_SF2B. apply Flocq.IEEE754.PrimFloat.binary_round_aux_equiv.
Qed.

Lemma SFdiv_B : forall x y : B, SFdiv 53 1024 (B2SF x) (B2SF y) = B2SF (Bdiv mode_NE x y).
Proof.
  intros [sx|sx| |sx mx ex Bx] [sy|sy| |sy my ey By]; try reflexivity.
  simpl. rewrite B2SF_SF2B.
  set (melz := SFdiv_core_binary _ _ _ _ _ _). destruct melz as [[mz ez] lz].
  apply Flocq.IEEE754.PrimFloat.binary_round_aux_equiv.
Qed.

Lemma F2R_int : forall z, F2R (Float radix2 z 0) = IZR z.
Proof. intros z. unfold F2R. simpl. ring. Qed.

Lemma bpow_IZR : forall e, 0 <= e -> bpow radix2 e = IZR (2 ^ e).
Proof. intros e He. rewrite <- (IZR_Zpower radix2) by exact He. reflexivity. Qed.

Lemma bofZ_R : forall z, Z.abs z <= 2 ^ 64 ->
  B2R (bofZ z) = RN (IZR z) /\ is_finite (bofZ z) = true /\
  (IZR z < 0 -> Bsign (bofZ z) = true)%R.
Proof.
  intros z Hz. unfold bofZ.
  pose proof (binary_normalize_correct 53 1024 Hp Hm mode_NE z 0 false) as H.
  cbv zeta in H. rewrite F2R_int in H.
  rewrite Rlt_bool_true in H.
  - destruct H as (H1 & H2 & H3). repeat split; auto.
    intros Hneg. rewrite H3. rewrite Rcompare_Lt by exact Hneg. reflexivity.
  - apply Rle_lt_trans with (bpow radix2 64).
    + apply abs_round_le_generic; [exact vexp|exact vrnd|apply fmt_bpow; lia|].
      rewrite <- abs_IZR. rewrite bpow_IZR by lia. apply IZR_le. exact Hz.
    + apply bpow_lt. lia.
Qed.

Lemma fmt_small_int : forall z, Z.abs z < 2 ^ 53 -> fmt (IZR z).
Proof.
  intros z Hz. rewrite <- F2R_int. apply generic_format_F2R. intros Hz0.
  rewrite F2R_int. unfold cexp, fexp, FLT_exp, emin.
  assert (mag radix2 (IZR z) <= 53)%Z.
  { apply mag_le_bpow.
    - intros H0. apply eq_IZR in H0. contradiction.
    - rewrite <- abs_IZR. rewrite bpow_IZR by lia. apply IZR_lt. exact Hz. }
  lia.
Qed.

Lemma RN_small : forall z, Z.abs z < 2 ^ 53 -> RN (IZR z) = IZR z.
Proof. intros z Hz. apply round_generic; [exact vrnd|apply fmt_small_int; exact Hz]. Qed.

Lemma RN_mono : forall x y, (x <= y)%R -> (RN x <= RN y)%R.
Proof. intros x y H. apply round_le; [exact vexp|exact vrnd|exact H]. Qed.

Lemma ltb_zero : forall x : B, is_finite x = true ->
  f64_ltb (B2SF x) f64_zero = Rlt_bool (B2R x) 0.
Proof.
  intros x Hx. unfold f64_ltb, SFltb, f64_zero.
  change (S754_zero false) with (B2SF (B754_zero false : B)).
  change (SFcompare (B2SF x) (B2SF (B754_zero false : B))) with (Bcompare x (B754_zero false)).
  rewrite Bcompare_correct by (exact Hx || reflexivity).
  simpl B2R. unfold Rlt_bool. destruct (Rcompare (B2R x) 0); reflexivity.
Qed.

Lemma trunc_nonneg : forall x : B, is_finite x = true -> (0 <= B2R x)%R ->
  f64_trunc (B2SF x) = Some (Zfloor (B2R x)).
Proof.
  intros [s|s| |s m e Hb] Hf H0; try discriminate.
  - simpl. rewrite Zfloor_IZR. reflexivity.
  - simpl B2SF. simpl B2R in *. unfold f64_trunc.
    destruct s.
    + exfalso. assert (F2R (Float radix2 (cond_Zopp true (Zpos m)) e) < 0)%R by (apply F2R_lt_0; simpl; lia). lra.
    + simpl cond_Zopp in *. f_equal. unfold F2R. simpl Fnum. simpl Fexp.
      destruct (0 <=? e) eqn:E.
      * apply Z.leb_le in E. rewrite Z.shiftl_mul_pow2 by exact E.
        rewrite bpow_IZR by exact E. rewrite <- mult_IZR. rewrite Zfloor_IZR. reflexivity.
      * apply Z.leb_gt in E. rewrite Z.shiftr_div_pow2 by lia.
        replace e with (- - e) at 2 by lia. rewrite bpow_opp. rewrite bpow_IZR by lia.
        fold (Rdiv (IZR (Zpos m)) (IZR (2 ^ - e))). rewrite Zfloor_div; [reflexivity|].
        apply Z.pow_nonzero; lia.
Qed.

Lemma mult_coin_core : forall lft (r : B), 0 <= lft < 2 ^ 53 -> is_finite r = true ->
  (0 <= B2R r <= 1)%R ->
  exists z, f64_mult_coin lft (B2SF r) = Some z /\ 0 <= z <= lft /\ (B2R r = 1%R -> z = lft).
Proof.
  intros lft r Hl Hr [Hr0 Hr1].
  destruct (bofZ_R lft) as (HL & HLf & _); [lia|].
  rewrite RN_small in HL by lia.
  assert (HL0 : (0 <= IZR lft)%R) by (apply IZR_le; lia).
  set (q := (IZR lft * B2R r)%R).
  assert (Hq : (0 <= q <= IZR lft)%R).
  { unfold q. split; [apply Rmult_le_pos; assumption|].
    rewrite <- (Rmult_1_r (IZR lft)) at 2. apply Rmult_le_compat_l; assumption. }
  assert (HRq : (0 <= RN q <= IZR lft)%R).
  { split.
    - apply round_ge_generic; [exact vexp|exact vrnd|apply generic_format_0|apply Hq].
    - apply round_le_generic; [exact vexp|exact vrnd|apply fmt_small_int; lia|apply Hq]. }
  pose proof (Bmult_correct 53 1024 Hp Hm mode_NE (bofZ lft) r) as HM.
  rewrite HL in HM. fold q in HM.
  rewrite Rlt_bool_true in HM.
  2:{ apply Rle_lt_trans with (IZR lft).
      - rewrite Rabs_pos_eq by apply HRq. apply HRq.
      - apply Rlt_trans with (bpow radix2 53); [rewrite bpow_IZR by lia; apply IZR_lt; lia|apply bpow_lt; lia]. }
  destruct HM as (HM1 & HM2 & _). rewrite HLf, Hr in HM2. simpl in HM2.
  set (y := Bmult mode_NE (bofZ lft) r) in *.
  exists (Zfloor (RN q)).
  assert (Hz : 0 <= Zfloor (RN q) <= lft).
  { split.
    - rewrite <- (Zfloor_IZR 0). apply Zfloor_le. apply HRq.
    - rewrite <- (Zfloor_IZR lft). apply Zfloor_le. apply HRq. }
  split; [|split; [exact Hz|]].
  - unfold f64_mult_coin.
    rewrite ltb_zero by exact Hr. rewrite Rlt_bool_false by exact Hr0.
    unfold f64_mul, f64_prec, f64_emax. rewrite f64_of_Z_B, SFmul_B. fold y.
    rewrite ltb_zero by exact HM2. rewrite HM1. rewrite Rlt_bool_false by apply HRq.
    unfold f64_float_to_coin. rewrite ltb_zero by exact HM2. rewrite HM1. rewrite Rlt_bool_false by apply HRq.
    unfold f64_to_u64. rewrite trunc_nonneg by (exact HM2 || (rewrite HM1; apply HRq)).
    rewrite HM1.
    assert (E1 : (Zfloor (RN q) <? 2 ^ 64) = true) by (apply Z.ltb_lt; lia).
    assert (E2 : (- 2 ^ 63 <? Zfloor (RN q)) = true) by (apply Z.ltb_lt; lia).
    rewrite E1, E2. simpl andb. rewrite Z.mod_small by lia. reflexivity.
  - intros H1. unfold q. rewrite H1, Rmult_1_r. rewrite RN_small by lia. apply Zfloor_IZR.
Qed.


(* ---------- comparison, subtraction ---------- *)

Lemma ltb_B : forall x y : B, is_finite x = true -> is_finite y = true ->
  f64_ltb (B2SF x) (B2SF y) = Rlt_bool (B2R x) (B2R y).
Proof.
  intros x y Hx Hy. unfold f64_ltb, SFltb.
  change (SFcompare (B2SF x) (B2SF y)) with (Bcompare x y).
  rewrite Bcompare_correct by assumption.
  unfold Rlt_bool. destruct (Rcompare (B2R x) (B2R y)); reflexivity.
Qed.

Lemma eqb_zero_B : forall x : B, is_finite x = true ->
  f64_eqb (B2SF x) f64_zero = false -> (B2R x <> 0)%R.
Proof.
  intros x Hx H. unfold f64_eqb, SFeqb, f64_zero in H.
  change (S754_zero false) with (B2SF (B754_zero false : B)) in H.
  change (SFcompare (B2SF x) (B2SF (B754_zero false : B))) with (Bcompare x (B754_zero false)) in H.
  rewrite Bcompare_correct in H by (exact Hx || reflexivity). simpl B2R in H.
  intros E. rewrite E in H. rewrite Rcompare_Eq in H by reflexivity. discriminate.
Qed.

Lemma SFsub_B : forall x y : B, SFsub 53 1024 (B2SF x) (B2SF y) = B2SF (Bminus mode_NE x y).
Proof.
  intros [sx|sx| |sx mx ex Bx] [sy|sy| |sy my ey By]; try reflexivity;
    try (destruct sx, sy; reflexivity).
  unfold Bminus, Bplus, Bopp. simpl B2SF. unfold SFsub.
  rewrite Flocq.IEEE754.PrimFloat.binary_normalize_equiv. f_equal.
  destruct sy; reflexivity.
Qed.

Lemma one_R : B2R (bofZ 1) = 1%R /\ is_finite (bofZ 1) = true.
Proof. destruct (bofZ_R 1) as (H & Hf & _); [cbn; lia|]. rewrite RN_small in H by (cbn; lia). auto. Qed.

(* 1 - ks for a slash fraction 0 <= ks <= 1 is a fraction again *)
Lemma one_minus_fraction : forall k : B, is_finite k = true -> (0 <= B2R k <= 1)%R ->
  exists r : B, f64_sub (f64_of_Z 1) (B2SF k) = B2SF r /\ is_finite r = true /\ (0 <= B2R r <= 1)%R.
Proof.
  intros k Hk [Hk0 Hk1]. destruct one_R as [H1 H1f].
  exists (Bminus mode_NE (bofZ 1) k). unfold f64_sub, f64_prec, f64_emax. rewrite f64_of_Z_B, SFsub_B.
  split; [reflexivity|].
  pose proof (Bminus_correct 53 1024 Hp Hm mode_NE (bofZ 1) k H1f Hk) as HM. rewrite H1 in HM.
  assert (HR : (0 <= RN (1 - B2R k) <= 1)%R).
  { split.
    - apply round_ge_generic; [exact vexp|exact vrnd|apply generic_format_0|lra].
    - apply round_le_generic; [exact vexp|exact vrnd|change 1%R with (IZR 1); apply fmt_small_int; cbn; lia|lra]. }
  rewrite Rlt_bool_true in HM.
  - destruct HM as (HM1 & HM2 & _). rewrite HM1. auto.
  - apply Rle_lt_trans with 1%R; [rewrite Rabs_pos_eq by apply HR; apply HR|].
    change 1%R with (bpow radix2 0). apply bpow_lt. lia.
Qed.

(* ---------- StakePool.Kill / SlashFraction never raises a delegate pool below 2^53 ---------- *)

Definition pools_le (ps ps' : list Z) : Prop := Forall2 (fun p p' => 0 <= p' <= p) ps ps'.

Lemma ss_slash_fraction_le : forall (r : B) pools pools', is_finite r = true -> (0 <= B2R r <= 1)%R ->
  Forall (fun p => 0 <= p < 2 ^ 53) pools ->
  ss_slash_fraction pools (B2SF r) = Some pools' -> pools_le pools pools'.
Proof.
  intros r pools pools' Hr Hr01. revert pools'.
  induction pools as [|p tl IH]; cbn [ss_slash_fraction]; intros pools' Hp H.
  - inversion H; constructor.
  - inversion Hp as [|? ? Hp0 Htl]; subst.
    bind_as H p' Ep. bind_as H tl' Et. inversion H; subst.
    destruct (mult_coin_core p r Hp0 Hr Hr01) as [z [Hz [Hzr _]]]. rewrite Hz in Ep. inversion Ep; subst.
    constructor; [exact Hzr | apply IH; auto].
Qed.

(* a slash fraction that passes the checks of StakePool.Kill and is not NaN *)
Lemma kill_fraction_range : forall k : B, is_nan k = false ->
  f64_ltb (B2SF k) f64_zero || f64_ltb (f64_of_Z 1) (B2SF k) = false ->
  is_finite k = true /\ (0 <= B2R k <= 1)%R.
Proof.
  intros k Hn H. apply orb_false_iff in H. destruct H as [H0 H1]. destruct one_R as [HR1 H1f].
  assert (Hf : is_finite k = true).
  { destruct k as [s|s| |s m e Hb]; try reflexivity; try discriminate.
    destruct s; [cbn in H0; discriminate|].
    rewrite f64_of_Z_B in H1. unfold f64_ltb, SFltb in H1.
    change (SFcompare (B2SF (bofZ 1)) (B2SF (B754_infinity false : B))) with (Bcompare (bofZ 1) (B754_infinity false : B)) in H1.
    destruct (bofZ 1) as [s1|s1| |s1 m1 e1 Hb1] eqn:E1; try discriminate; cbn in H1; try discriminate; destruct s1; discriminate. }
  split; [exact Hf|].
  rewrite ltb_zero in H0 by exact Hf. rewrite f64_of_Z_B, ltb_B in H1 by assumption. rewrite HR1 in H1.
  split.
  - destruct (Rlt_bool_spec (B2R k) 0); [discriminate | assumption].
  - destruct (Rlt_bool_spec 1 (B2R k)); [discriminate | assumption].
Qed.

Theorem ss_sp_kill_le : forall b (k : B) b', is_nan k = false ->
  Forall (fun p => 0 <= p < 2 ^ 53) (bl_pools b) ->
  ss_sp_kill b (B2SF k) = Some b' ->
  pools_le (bl_pools b) (bl_pools b') /\ bl_rewards b' = bl_rewards b /\ bl_id b' = bl_id b.
Proof.
  unfold ss_sp_kill; intros b k b' Hn Hp H.
  destruct (f64_eqb (B2SF k) f64_zero).
  - inversion H; subst. cbn. repeat split; auto. clear -Hp. induction Hp; constructor; auto; lia.
  - destruct (f64_ltb (B2SF k) f64_zero || f64_ltb (f64_of_Z 1) (B2SF k)) eqn:G; [discriminate|].
    destruct (kill_fraction_range k Hn G) as [Hf Hr]. cbv zeta in H.
    destruct (one_minus_fraction k Hf Hr) as [r [Er [Hrf Hr01]]]. rewrite Er in H.
    bind_as H pools Es. inversion H; subst. cbn. repeat split; auto.
    eapply ss_slash_fraction_le; eauto.
Qed.

(* the configured kill slash as a binary64 value: not a NaN *)
Definition f64_wf (x : f64) : Prop := valid_binary 53 1024 x = true /\ f64_is_nan x = false.

Lemma f64_wf_B : forall x, f64_wf x -> exists k : B, x = B2SF k /\ is_nan k = false.
Proof.
  intros x [Hv Hn]. exists (SF2B x Hv). rewrite B2SF_SF2B. split; [reflexivity|].
  rewrite is_nan_SF2B. destruct x; auto.
Qed.

(* half of it (shutdown) is not a NaN either *)
Lemma half_B : forall k : B, is_nan k = false ->
  exists h : B, f64_div (B2SF k) (f64_of_Z 2) = B2SF h /\ is_nan h = false.
Proof.
  intros k Hn. exists (Bdiv mode_NE k (bofZ 2)). unfold f64_div, f64_prec, f64_emax. rewrite f64_of_Z_B, SFdiv_B.
  split; [reflexivity|].
  destruct (bofZ_R 2) as (H2 & H2f & _); [cbn; lia|]. rewrite RN_small in H2 by (cbn; lia).
  destruct k as [sk|sk| |sk mk ek Hbk]; try discriminate.
  - destruct (bofZ 2) as [s2|s2| |s2 m2 e2 Hb2] eqn:E2; try discriminate; reflexivity.
  - destruct (bofZ 2) as [s2|s2| |s2 m2 e2 Hb2] eqn:E2; try discriminate; reflexivity.
  - pose proof (Bdiv_correct 53 1024 Hp Hm mode_NE (B754_finite sk mk ek Hbk) (bofZ 2)) as HD.
    rewrite H2 in HD. assert (H20 : (IZR 2 <> 0)%R) by (apply not_0_IZR; lia). specialize (HD H20).
    destruct (Rlt_bool _ _) in HD.
    + destruct HD as (_ & HDf & _). destruct (Bdiv mode_NE _ _); try discriminate; reflexivity.
    + destruct (Bdiv mode_NE _ _); try reflexivity. exfalso. simpl B2SF in HD. unfold binary_overflow in HD.
      destruct (overflow_to_inf _ _) in HD; discriminate.
Qed.
