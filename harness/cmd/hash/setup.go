package main

import (
	"bytes"
	"context"
	"encoding/hex"
	"fmt"
	"strings"
	"sync"

	"0chain.net/chaincore/client"
	"0chain.net/chaincore/node"
	"0chain.net/chaincore/transaction"
	"0chain.net/core/common"
	"0chain.net/core/config"
	"0chain.net/core/encryption"
	"0chain.net/core/memorystore"
	"github.com/0chain/common/core/logging"
	"github.com/herumi/bls-go-binary/bls"
	"golang.org/x/crypto/ed25519"
	"verifharness/vh"
)

var setupOnce sync.Once

// initEnv prepares the few globals the entity code reads (loggers, chain id, client metadata).
func initEnv() {
	setupOnce.Do(func() {
		logging.InitLogging("development", "")
		config.SetServerChainID("")
		common.SetupRootContext(context.Background())
		client.SetupEntity(memorystore.GetStorageProvider())
		transaction.TXN_TIME_TOLERANCE = 600
	})
}

// item is the replayable identity of one generated input: everything about it is a function of
// (seed, stream, index) plus the named tampering.
type item struct {
	Prop   string `json:"prop"`
	Stream string `json:"stream"`
	Seed   uint64 `json:"seed"`
	Index  int    `json:"index"`
	Tamper string `json:"tamper,omitempty"`
	Note   string `json:"note,omitempty"`
}

func streamID(s string) uint64 {
	var h uint64 = 1469598103934665603
	for i := 0; i < len(s); i++ {
		h ^= uint64(s[i])
		h *= 1099511628211
	}
	return h
}

func (it item) rand() *vh.Rand {
	return vh.NewRand(it.Seed*1000003 + streamID(it.Stream)*7919 + uint64(it.Index)*104729)
}

func randBytes(r *vh.Rand, n int) []byte {
	b := make([]byte, n)
	for i := range b {
		b[i] = byte(r.U64())
	}
	return b
}

func randHash(r *vh.Rand) string { return hex.EncodeToString(randBytes(r, 32)) }

// blsKey derives a BLS0Chain key pair from the PRNG (no CSPRNG involved).
func blsKey(r *vh.Rand) *encryption.BLS0ChainScheme {
	for {
		var sk bls.SecretKey
		if err := sk.SetLittleEndian(randBytes(r, 31)); err != nil || sk.IsZero() {
			continue
		}
		pub := sk.GetPublicKey().SerializeToHexStr()
		priv := hex.EncodeToString(sk.GetLittleEndian())
		ss := encryption.NewBLS0ChainScheme()
		if err := ss.ReadKeys(strings.NewReader(pub + "\n" + priv + "\n")); err != nil {
			panic(err)
		}
		return ss
	}
}

func edKey(r *vh.Rand) *encryption.ED25519Scheme {
	priv := ed25519.NewKeyFromSeed(randBytes(r, 32))
	pub := priv.Public().(ed25519.PublicKey)
	ss := encryption.NewED25519Scheme()
	if err := ss.ReadKeys(bytes.NewReader([]byte(hex.EncodeToString(pub) + "\n" + hex.EncodeToString(priv) + "\n"))); err != nil {
		panic(err)
	}
	return ss
}

func schemeKey(r *vh.Rand, scheme string) encryption.SignatureScheme {
	if scheme == encryption.SignatureSchemeEd25519 {
		return edKey(r)
	}
	return blsKey(r)
}

// verifierFor returns a fresh scheme object holding only the public key.
func verifierFor(scheme, pub string) (encryption.SignatureScheme, error) {
	ss := encryption.GetSignatureScheme(scheme)
	if err := ss.SetPublicKey(pub); err != nil {
		return nil, err
	}
	return ss, nil
}

// miners: a small registry of generator nodes with BLS keys (node.GetNode looks them up).
type minerNode struct {
	nd  *node.Node
	key *encryption.BLS0ChainScheme
}

var (
	minersMu sync.Mutex
	miners   []*minerNode
)

func getMiners() []*minerNode {
	minersMu.Lock()
	defer minersMu.Unlock()
	if miners != nil {
		return miners
	}
	r := vh.NewRand(424242)
	for i := 0; i < 3; i++ {
		k := blsKey(r)
		nd := node.Provider()
		nd.Type = node.NodeTypeMiner
		if err := nd.SetSignatureScheme(k); err != nil {
			panic(err)
		}
		node.RegisterNode(nd)
		miners = append(miners, &minerNode{nd, k})
	}
	return miners
}

// flipHexBit flips bit `bit` (0 = lowest bit of the first byte) of a hex string.
func flipHexBit(s string, bit int) string {
	b, err := hex.DecodeString(s)
	if err != nil || len(b) == 0 {
		return s + "0"
	}
	bit %= len(b) * 8
	b[bit/8] ^= 1 << uint(bit%8)
	return hex.EncodeToString(b)
}

func errCode(err error) string {
	if err == nil {
		return ""
	}
	if ce, ok := err.(*common.Error); ok {
		return ce.Code
	}
	return "other:" + fmt.Sprintf("%.40s", err.Error())
}

// safely runs f and converts a panic into an error string.
func safely(f func()) (panicked string) {
	defer func() {
		if r := recover(); r != nil {
			panicked = fmt.Sprint(r)
		}
	}()
	f()
	return ""
}

// flipOneLetterCase changes the case of one hex letter (a-f / A-F) of s, if it has one.
func flipOneLetterCase(s string, r *vh.Rand) string {
	var idx []int
	for i := 0; i < len(s); i++ {
		c := s[i]
		if (c >= 'a' && c <= 'f') || (c >= 'A' && c <= 'F') {
			idx = append(idx, i)
		}
	}
	if len(idx) == 0 {
		return s
	}
	i := idx[r.Intn(len(idx))]
	b := []byte(s)
	b[i] ^= 0x20
	return string(b)
}
