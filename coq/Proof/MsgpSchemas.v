(* C08: the schemas regenerated from the source tree against the domain of the codec theorem
   (checked by computation on every run). *)
From ZC Require Import Model.Msgp Proof.Msgp Gen.MsgpSchema.
Open Scope Z_scope.
Open Scope list_scope.

(* the schemas outside the theorem are exactly those the translator reports as containing a
   type whose UnmarshalMsg copies nothing back (no schema is outside for another reason) *)
Lemma msgp_lossy_exact :
  map fst (filter (fun nt => negb (mp_wf_tyb (snd nt))) msgp_schemas) = msgp_lossy.
Proof. vm_compute. reflexivity. Qed.

Lemma msgp_not_lossy_wf name t : In (name, t) msgp_schemas -> ~ In name msgp_lossy -> mp_wf_ty t.
Proof.
  intros Hin Hn. apply mp_wf_tyb_sound. destruct (mp_wf_tyb t) eqn:E; [reflexivity|].
  exfalso. apply Hn. rewrite <- msgp_lossy_exact. apply in_map_iff. exists (name, t). split; [reflexivity|].
  apply filter_In. split; [exact Hin|]. cbn [snd]. rewrite E. reflexivity.
Qed.

Lemma msgp_schema_dec_enc name t : In (name, t) msgp_schemas -> ~ In name msgp_lossy ->
  forall v rest, mp_wf t v -> mp_dec t (mp_enc t v ++ rest) = Some (v, rest).
Proof. intros Hin Hn v rest Hv. apply mp_dec_enc; [eapply msgp_not_lossy_wf; eauto|exact Hv]. Qed.

Lemma msgp_schema_canonical name t : In (name, t) msgp_schemas -> ~ In name msgp_lossy ->
  forall v, mp_wf t v -> exists v', mp_dec t (mp_enc t v) = Some (v', []) /\ mp_enc t v' = mp_enc t v.
Proof. intros Hin Hn v Hv. apply mp_enc_dec_enc; [eapply msgp_not_lossy_wf; eauto|exact Hv]. Qed.

Lemma msgp_schema_inj name t : In (name, t) msgp_schemas -> ~ In name msgp_lossy ->
  forall v1 v2, mp_wf t v1 -> mp_wf t v2 -> mp_enc t v1 = mp_enc t v2 -> v1 = v2.
Proof. intros Hin Hn v1 v2 H1 H2. apply mp_enc_inj; auto. eapply msgp_not_lossy_wf; eauto. Qed.

(* the full statement: every schema of the tree round trips *)
Definition msgp_full_statement : Prop :=
  forall name t, In (name, t) msgp_schemas ->
  forall v rest, mp_wf t v -> mp_dec t (mp_enc t v ++ rest) = Some (v, rest).

Lemma msgp_full_if_no_lossy : msgp_lossy = [] -> msgp_full_statement.
Proof.
  intros E name t Hin v rest Hv. apply (msgp_schema_dec_enc name t Hin); [|exact Hv]. rewrite E. intros [].
Qed.

(* a schema that drops what it decodes refutes it, as soon as it has a non-zero value *)
Lemma msgp_full_refuted_by_drop name e v :
  In (name, TDrop e) msgp_schemas -> mp_wf_ty e -> mp_wf e v -> v <> mp_zero e -> ~ msgp_full_statement.
Proof.
  intros Hin Ht Hv Hne Hfull. apply (mp_drop_loses e v [] Ht Hv Hne). apply (Hfull name (TDrop e) Hin). exact Hv.
Qed.

(* the translator reports no lossy schema in the current tree: the full statement holds (this
   lemma stops checking, and the check reports it, if a lossy UnmarshalMsg reappears) *)
Lemma msgp_full_holds : msgp_full_statement.
Proof. apply msgp_full_if_no_lossy. reflexivity. Qed.
