(* Shared lemmas for the E-storage proofs: option-monad inversion, list updates, ranges. *)
From Coq Require Import ZArith List Bool Lia.
From ZC Require Import Model.F64 Model.Storage.
Import ListNotations.
Open Scope Z_scope.

Lemma ss_bind_some : forall A B (o : option A) (f : A -> option B) r,
  ss_bind o f = Some r -> exists x, o = Some x /\ f x = Some r.
Proof. intros A B [x|] f r H; cbn in H; [eauto | discriminate]. Qed.

Lemma ss_guard_some : forall b u, ss_guard b = Some u -> b = true.
Proof. intros [|] u H; [reflexivity | discriminate]. Qed.

(* invert [x <- e ;; k = Some r] hypotheses, one layer at a time *)
Ltac bind_inv H :=
  let x := fresh "x" in let E := fresh "E" in
  apply ss_bind_some in H; destruct H as [x [E H]].

Ltac guard_inv H :=
  let E := fresh "G" in let u := fresh "u" in
  apply ss_bind_some in H; destruct H as [u [E H]]; apply ss_guard_some in E.

Lemma ss_add_coin_some : forall a b r, ss_add_coin a b = Some r -> r = a + b /\ a + b < 2 ^ 64.
Proof. unfold ss_add_coin; intros a b r H. destruct (Z.ltb_spec (a + b) (2 ^ 64)); inversion H; subst; auto. Qed.

Lemma ss_minus_coin_some : forall a b r, ss_minus_coin a b = Some r -> r = a - b /\ b <= a.
Proof. unfold ss_minus_coin; intros a b r H. destruct (Z.ltb_spec a b); inversion H; subst; split; lia. Qed.

Lemma f64_to_u64_range : forall x, 0 <= f64_to_u64 x < 2 ^ 64.
Proof.
  intros x. unfold f64_to_u64.
  assert (H63 : 0 <= 2 ^ 63 < 2 ^ 64) by (split; [apply Z.pow_nonneg; lia | apply Z.pow_lt_mono_r; lia]).
  destruct (f64_trunc x) as [z|]; [|exact H63].
  destruct ((z <? 2 ^ 64) && (- 2 ^ 63 <? z)); [|exact H63].
  apply Z.mod_pos_bound. apply Z.pow_pos_nonneg; lia.
Qed.

Lemma f64_float_to_coin_range : forall x r, f64_float_to_coin x = Some r -> 0 <= r < 2 ^ 64.
Proof. unfold f64_float_to_coin; intros x r H. destruct (f64_ltb x f64_zero); inversion H; apply f64_to_u64_range. Qed.

Lemma f64_mult_coin_range : forall c a r, f64_mult_coin c a = Some r -> 0 <= r < 2 ^ 64.
Proof.
  unfold f64_mult_coin; intros c a r H. destruct (f64_ltb a f64_zero); [discriminate|].
  destruct (f64_ltb (f64_mul (f64_of_Z c) a) f64_zero); [discriminate|].
  eapply f64_float_to_coin_range; eauto.
Qed.

Lemma ss_move_to_cp_some : forall w cp v w' cp', ss_move_to_cp w cp v = Some (w', cp') ->
  w' = w - v /\ cp' = cp + v /\ cp + v < 2 ^ 64 /\ v <= w.
Proof.
  unfold ss_move_to_cp; intros w cp v w' cp' H. destruct (Z.ltb_spec w v); [discriminate|].
  bind_inv H. apply ss_add_coin_some in E. bind_inv H. apply ss_minus_coin_some in E0.
  inversion H; subst. intuition lia.
Qed.

Lemma ss_move_from_cp_some : forall w cp v w' cp', ss_move_from_cp w cp v = Some (w', cp') ->
  w' = w + v /\ cp' = cp - v /\ v <= cp.
Proof.
  unfold ss_move_from_cp; intros w cp v w' cp' H. destruct (Z.ltb_spec cp v); [discriminate|].
  bind_inv H. apply ss_minus_coin_some in E. bind_inv H. apply ss_add_coin_some in E0.
  inversion H; subst. intuition lia.
Qed.

(* ---------- allocation list updates ---------- *)

Lemma ss_find_alloc_in : forall id l a, ss_find_alloc id l = Some a -> In a l /\ al_id a = id.
Proof.
  induction l as [|x tl IH]; cbn; intros a H; [discriminate|].
  destruct (Z.eqb_spec (al_id x) id).
  - inversion H; subst; auto.
  - destruct (IH _ H); auto.
Qed.

Lemma Forall_set_alloc : forall (P : ss_alloc -> Prop) a l, Forall P l -> P a -> Forall P (ss_set_alloc a l).
Proof.
  induction l as [|x tl IH]; cbn; intros Hl Ha; [constructor|].
  inversion Hl; subst. destruct (al_id x =? al_id a); constructor; auto.
Qed.

Lemma Forall_del_alloc : forall (P : ss_alloc -> Prop) id l, Forall P l -> Forall P (ss_del_alloc id l).
Proof.
  induction l as [|x tl IH]; cbn; intros Hl; [constructor|].
  inversion Hl; subst. destruct (al_id x =? id); auto.
Qed.

Lemma Forall_find_alloc : forall (P : ss_alloc -> Prop) id l a, Forall P l -> ss_find_alloc id l = Some a -> P a.
Proof. intros P id l a Hl Hf. apply ss_find_alloc_in in Hf. rewrite Forall_forall in Hl. apply Hl, Hf. Qed.

(* ---------- blobber-allocation list updates ---------- *)

Lemma ss_find_ba_in : forall b l d, ss_find_ba b l = Some d -> In d l /\ ba_blobber d = b.
Proof.
  induction l as [|x tl IH]; cbn; intros d H; [discriminate|].
  destruct (Z.eqb_spec (ba_blobber x) b).
  - inversion H; subst; auto.
  - destruct (IH _ H); auto.
Qed.

(* replacing the entry found for a blobber changes the sum by the difference of the values *)
Lemma ss_sum_cpiv_set_ba : forall l d d', ss_find_ba (ba_blobber d') l = Some d ->
  ss_sum_cpiv (ss_set_ba d' l) = ss_sum_cpiv l - ba_cpiv d + ba_cpiv d'.
Proof.
  unfold ss_sum_cpiv. induction l as [|x tl IH]; cbn; intros d d' H; [discriminate|].
  destruct (Z.eqb_spec (ba_blobber x) (ba_blobber d')).
  - inversion H; subst. cbn. lia.
  - cbn. rewrite (IH _ _ H). lia.
Qed.

Lemma ss_sum_cpiv_replace_ba : forall l old d nw, ss_find_ba old l = Some d ->
  ss_sum_cpiv (ss_replace_ba old nw l) = ss_sum_cpiv l - ba_cpiv d + ba_cpiv nw.
Proof.
  unfold ss_sum_cpiv. induction l as [|x tl IH]; cbn; intros old d nw H; [discriminate|].
  destruct (Z.eqb_spec (ba_blobber x) old).
  - inversion H; subst. cbn. lia.
  - cbn. rewrite (IH _ _ _ H). lia.
Qed.

Lemma ss_sum_cpiv_app : forall l1 l2, ss_sum_cpiv (l1 ++ l2) = ss_sum_cpiv l1 + ss_sum_cpiv l2.
Proof. unfold ss_sum_cpiv. induction l1; cbn; intros; [lia | rewrite IHl1; lia]. Qed.

Lemma Forall_set_ba : forall (P : ss_balloc -> Prop) d' l, Forall P l -> P d' -> Forall P (ss_set_ba d' l).
Proof.
  induction l as [|x tl IH]; cbn; intros Hl Hd; [constructor|].
  inversion Hl; subst. destruct (ba_blobber x =? ba_blobber d'); constructor; auto.
Qed.

Lemma Forall_replace_ba : forall (P : ss_balloc -> Prop) old nw l, Forall P l -> P nw -> Forall P (ss_replace_ba old nw l).
Proof.
  induction l as [|x tl IH]; cbn; intros Hl Hd; [constructor|].
  inversion Hl; subst. destruct (ba_blobber x =? old); constructor; auto.
Qed.

Lemma Forall_find_ba : forall (P : ss_balloc -> Prop) b l d, Forall P l -> ss_find_ba b l = Some d -> P d.
Proof. intros P b l d Hl Hf. apply ss_find_ba_in in Hf. rewrite Forall_forall in Hl. apply Hl, Hf. Qed.

(* a member's value is at most the sum when all values are non-negative *)
Lemma ss_cpiv_le_sum : forall l d, Forall (fun x => 0 <= ba_cpiv x) l -> In d l -> ba_cpiv d <= ss_sum_cpiv l.
Proof.
  unfold ss_sum_cpiv. induction l as [|x tl IH]; cbn; intros d Hl Hin; [contradiction|].
  inversion Hl; subst. assert (0 <= ss_sum (map ba_cpiv tl)).
  { clear - H2. induction tl; cbn; [lia|]. inversion H2; subst. specialize (IHtl H3). lia. }
  destruct Hin as [->|Hin]; [lia|]. specialize (IH _ H2 Hin). lia.
Qed.

Lemma ss_sum_cpiv_nonneg : forall l, Forall (fun x => 0 <= ba_cpiv x) l -> 0 <= ss_sum_cpiv l.
Proof. unfold ss_sum_cpiv. induction l; cbn; intros H; [lia|]. inversion H; subst. specialize (IHl H3). lia. Qed.

Lemma ss_assoc_set_get : forall k v l k', ss_assoc k' (ss_assoc_set k v l) = if k' =? k then Some v else ss_assoc k' l.
Proof.
  induction l as [|[k0 v0] tl IH]; intros k'; cbn.
  - destruct (k' =? k); reflexivity.
  - destruct (Z.eqb_spec k k0); cbn.
    + subst. destruct (k' =? k0); reflexivity.
    + rewrite IH. destruct (Z.eqb_spec k' k0); [|reflexivity]. subst. destruct (Z.eqb_spec k0 k); [congruence | reflexivity].
Qed.

Lemma ss_assoc0_set : forall k v l k', ss_assoc0 k' (ss_assoc_set k v l) = if k' =? k then v else ss_assoc0 k' l.
Proof. unfold ss_assoc0; intros. rewrite ss_assoc_set_get. destruct (k' =? k); reflexivity. Qed.


Tactic Notation "bind_as" hyp(H) simple_intropattern(p) ident(E) :=
  apply ss_bind_some in H; destruct H as [p [E H]].
