(* C46: The ordered block buffer yields blocks lowest round first.
   Only statements; each is closed by [exact] of a lemma in Proof/OrderBuffer.v. *)
From ZC Require Import Model.OrderBuffer Proof.OrderBuffer Gen.OrderBufferLocks Model.OrderBufferLocks Proof.LockAtomic Proof.OrderBufferConc.
From Coq Require Import Sorting.Permutation.
Open Scope Z_scope.

(* Every reachable buffer is sorted by round and within capacity; the binary search never
   runs out of fuel on a reachable buffer (so the Go loop terminates). *)
Theorem C46_reachable_sorted_and_bounded :
  forall max ops, let b := fst (ob_run (ob_new max) ops) in
    ob_sorted (ob_items b) /\ (length (ob_items b) <= max)%nat /\
    ~ In OutFuel (snd (ob_run (ob_new max) ops)).
Proof. exact ob_reachable_sorted_and_bounded. Qed.
Print Assumptions C46_reachable_sorted_and_bounded.

(* First and Pop hand out a lowest-round entry of the current buffer, after any history. *)
Theorem C46_lowest_round_first :
  forall max ops o x, let b := fst (ob_run (ob_new max) ops) in
    (o = OpFirst \/ o = OpPop) -> snd (ob_step b o) = OutItem (Some x) ->
    In x (ob_items b) /\ forall y, In y (ob_items b) -> ob_round x <= ob_round y.
Proof. exact ob_history_hands_out_min. Qed.
Print Assumptions C46_lowest_round_first.

(* An Add that changes the buffer keeps the first [max] entries of the sorted list of old
   entries plus the new one; at most one entry is dropped and it has the highest round. *)
Theorem C46_drops_only_highest :
  forall b r d b', ob_inv b -> ob_add b r d = ObOk b' -> b' <> b ->
  exists full, Permutation ((r, d) :: ob_items b) full /\ ob_sorted full /\
    ob_items b' = firstn (ob_max b) full /\
    (forall x y, In x (ob_items b') -> In y (skipn (ob_max b) full) -> ob_round x <= ob_round y) /\
    (length (skipn (ob_max b) full) <= 1)%nat.
Proof. exact ob_add_drops_largest. Qed.
Print Assumptions C46_drops_only_highest.

(* Adding again the entry already held at the insertion position changes nothing. *)
Theorem C46_exact_repeat_ignored :
  forall b r d i, ob_inv b -> (i < length (ob_items b))%nat -> nth i (ob_items b) ob_dflt = (r, d) ->
  (forall j, (i < j)%nat -> (j < length (ob_items b))%nat -> r < ob_round (nth j (ob_items b) ob_dflt)) ->
  ob_add b r d = ObOk b.
Proof. exact ob_add_repeat_ignored. Qed.
Print Assumptions C46_exact_repeat_ignored.

(* Concurrent use.  (1) Tie to the source: in the method table regenerated from orderbuffer.go on
   every run, every method touching the buffer holds the mutex for its whole body (or is an
   unexported helper called only under the mutex).  (2) Under that discipline every method body is a
   critical section, so a concurrent execution is an interleaving of whole operations; every
   interleaving of the threads' operation lists is an operation history, for which the theorems
   above hold. *)
Theorem C46_lock_discipline : ob_disciplined ob_methods = true /\ ob_has_api ob_methods = true.
Proof. exact ob_table_disciplined. Qed.
Print Assumptions C46_lock_discipline.

Theorem C46_concurrent_use :
  forall max threads ops, interleave threads ops ->
    let b := fst (ob_run (ob_new max) ops) in
    ob_sorted (ob_items b) /\ (length (ob_items b) <= max)%nat /\
    ~ In OutFuel (snd (ob_run (ob_new max) ops)) /\
    (forall t, In t threads -> forall o, In o t -> In o ops).
Proof. exact ob_concurrent_use. Qed.
Print Assumptions C46_concurrent_use.

(* Micro-step version: goroutines take the mutex and read, later write and release; for EVERY
   schedule the shared buffer equals the sequential run of the logged operations and satisfies the
   invariants. *)
Theorem C46_locked_schedules :
  forall max (progs : list (list ob_op)) (sched : list nat),
  let w := run_sched _ _ _ ob_step (init_world _ _ (ob_new max) progs) sched in
  w_shared _ _ w = fst (ob_run (ob_new max) (w_log _ _ w)) /\
  ob_sorted (ob_items (w_shared _ _ w)) /\ (length (ob_items (w_shared _ _ w)) <= max)%nat.
Proof. exact ob_locked_schedule_inv. Qed.
Print Assumptions C46_locked_schedules.

(* Non-vacuity: a concrete reachable buffer exercising insertion, truncation and a repeat. *)
Example C46_example :
  ob_run (ob_new 3) [OpAdd 5 1; OpAdd 3 2; OpAdd 9 3; OpAdd 4 4; OpAdd 4 4; OpPop; OpFirst]
  = ({| ob_max := 3; ob_items := [(4, 4); (5, 1)] |},
     [OutAdd; OutAdd; OutAdd; OutAdd; OutAdd; OutItem (Some (3, 2)); OutItem (Some (4, 4))]).
Proof. vm_compute. reflexivity. Qed.
