package main

// Symbolic descriptions of scalars and G1 points (shared with coq/Model/SigAlg.v: sx_scalar,
// sx_point) and their realisation with real herumi objects.

import (
	"encoding/hex"
	"fmt"
	"strings"

	"0chain.net/core/encryption"
	"github.com/herumi/bls-go-binary/bls"
	"verifharness/vh"
)

type sterm struct {
	C int64 `json:"c"`
	K int   `json:"k"` // index of a base secret key, -1 for the constant 1
}
type sscalar []sterm
type pterm struct {
	S sscalar `json:"s"`
	P int     `json:"p"` // index of a hash point H(msg P)
}
type spoint []pterm

func key(j int) sscalar { return sscalar{{1, j}} }

func (s sscalar) coq() string {
	out := make([]string, len(s))
	for i, t := range s {
		k := "None"
		if t.K >= 0 {
			k = vh.Some(vh.Nat(t.K))
		}
		out[i] = vh.Pair(vh.Z(t.C), k)
	}
	return vh.List(out)
}

func (p spoint) coq() string {
	out := make([]string, len(p))
	for i, t := range p {
		out[i] = vh.Pair(t.S.coq(), vh.Nat(t.P))
	}
	return vh.List(out)
}

func (p spoint) maxIdx() int {
	m := 0
	for _, t := range p {
		if t.P > m {
			m = t.P
		}
	}
	return m
}

// world: base secret keys (from the PRNG) and the message table.
type world struct {
	sk   []bls.Fr
	salt string
	msgs map[int]string // overrides: message index -> hex hash (real transaction hashes)
	// long-lived objects reused across several verifications of one history (nil = fresh per call)
	schemes map[string]*encryption.BLS0ChainScheme
}

// verifierShared returns the one long-lived scheme object of a key (as node.Node / the client cache
// keep one per signer); falls back to a fresh object when the world keeps none.
func (w *world) verifierShared(s sscalar) (*encryption.BLS0ChainScheme, error) {
	if w.schemes == nil {
		return w.verifier(s)
	}
	k := s.coq()
	if ss, ok := w.schemes[k]; ok {
		return ss, nil
	}
	ss, err := w.verifier(s)
	if err == nil {
		w.schemes[k] = ss
	}
	return ss, err
}

func newWorld(r *vh.Rand, nkeys int) *world {
	w := &world{salt: randHash(r)[:16]}
	for i := 0; i < nkeys; i++ {
		var f bls.Fr
		for {
			if err := f.SetLittleEndian(randBytes(r, 31)); err == nil && !f.IsZero() {
				break
			}
		}
		w.sk = append(w.sk, f)
	}
	return w
}

// msg returns the hex hash that stands for message index i (what Sign/Verify receive).
func (w *world) msg(i int) string {
	if h, ok := w.msgs[i]; ok {
		return h
	}
	return encryption.Hash(fmt.Sprintf("%s/msg/%d", w.salt, i))
}

func (w *world) fr(s sscalar) bls.Fr {
	var acc bls.Fr
	acc.Clear()
	for _, t := range s {
		var c, term bls.Fr
		c.SetInt64(t.C)
		if t.K >= 0 {
			bls.FrMul(&term, &c, &w.sk[t.K])
		} else {
			term = c
		}
		bls.FrAdd(&acc, &acc, &term)
	}
	return acc
}

func (w *world) hashPoint(i int) bls.G1 {
	raw, err := hex.DecodeString(w.msg(i))
	if err != nil {
		panic(err)
	}
	var g bls.G1
	if err := g.HashAndMapTo(raw); err != nil {
		panic(err)
	}
	return g
}

func (w *world) point(p spoint) bls.G1 {
	var acc bls.G1
	acc.Clear()
	for _, t := range p {
		f := w.fr(t.S)
		h := w.hashPoint(t.P)
		var term bls.G1
		bls.G1Mul(&term, &h, &f)
		bls.G1Add(&acc, &acc, &term)
	}
	return acc
}

func (w *world) sigHex(p spoint) string {
	g := w.point(p)
	return bls.CastToSign(&g).SerializeToHexStr()
}

// pubHex: the public key whose discrete logarithm is the scalar.
func (w *world) pubHex(s sscalar) string {
	f := w.fr(s)
	return bls.CastToSecretKey(&f).GetPublicKey().SerializeToHexStr()
}

func (w *world) verifier(s sscalar) (*encryption.BLS0ChainScheme, error) {
	ss := encryption.NewBLS0ChainScheme()
	if err := ss.SetPublicKey(w.pubHex(s)); err != nil {
		return nil, err
	}
	return ss, nil
}

// signer: a scheme holding base secret key j (Sign goes through the real code).
func (w *world) signer(j int) *encryption.BLS0ChainScheme {
	sk := bls.CastToSecretKey(&w.sk[j])
	pub := sk.GetPublicKey().SerializeToHexStr()
	priv := hex.EncodeToString(sk.GetLittleEndian())
	ss := encryption.NewBLS0ChainScheme()
	if err := ss.ReadKeys(strings.NewReader(pub + "\n" + priv + "\n")); err != nil {
		panic(err)
	}
	return ss
}

// genuine signature of base key j on message m, as a symbolic point
func genuine(j, m int) spoint { return spoint{{key(j), m}} }

// miraclPK writes a herumi public key (hex of the compressed G2 point) in the long MIRACL wallet
// spelling "04" + x.b + x.a + y.b + y.a (4 x 64 hex digits) that MiraclToHerumiPK accepts.
func miraclPK(pkHex string) string {
	var pk bls.PublicKey
	if err := pk.DeserializeHexStr(pkHex); err != nil {
		panic(err)
	}
	parts := strings.Fields(pk.GetHexString()) // "1 x.a x.b y.a y.b"
	if len(parts) != 5 {
		panic("unexpected G2 string: " + pk.GetHexString())
	}
	pad := func(s string) string { return strings.Repeat("0", 64-len(s)) + s }
	xa, xb, ya, yb := pad(parts[1]), pad(parts[2]), pad(parts[3]), pad(parts[4])
	return "04" + xb + xa + yb + ya
}
