(* Model for C06 (deterministic block execution): every runtime choice is an explicit argument.
   - a `range` over a Go map visits the entries in an arbitrary order: the loop is a fold over a list
     whose order is the oracle (any permutation of the entries);
   - time.Now() is a clock argument; goroutine fan-in is the arrival order of the results.
   Definitions only. The site list Gen/NdSites.v is produced by harness/translators/ndsites. *)
From Coq Require Export List ZArith Bool String Sorting.Permutation Lia.
From ZC Require Export Model.NdTypes Gen.NdSites.
Export ListNotations.
Open Scope Z_scope.

Section Loops.
  Variables S E : Type.

  (* the loop `for k, v := range m { body }` run in iteration order [es] *)
  Definition nd_loop (body : S -> E -> S) (s : S) (es : list E) : S := fold_left body es s.

  (* OrderFree: bodies of different entries commute *)
  Definition nd_commutes (body : S -> E -> S) : Prop := forall s a b, body (body s a) b = body (body s b) a.

  (* ExistsCheck: `for ... { if p(e) { return true } }; return false` *)
  Definition nd_exists (p : E -> bool) (es : list E) : bool := existsb p es.

  (* the governance update loops: `for k, v := range fields { if err := set(k, v); err != nil { return err } }`
     - the value returned is the error of the first failing entry in iteration order *)
  Fixpoint nd_first_error (err : E -> option Z) (es : list E) : option Z :=
    match es with
    | [] => None
    | e :: tl => match err e with Some x => Some x | None => nd_first_error err tl end
    end.

  (* updateState: `for _, e := range ue { emit(e) }` appends to the block's event list in iteration order *)
  Definition nd_emit_all (events : list E) (es : list E) : list E := events ++ es.
End Loops.

(* CollectSort: `for k := range m { keys = append(keys, k) }; sort(keys)`; keys are compared as integers here
   (ids and names are compared bytewise in Go: any total order works the same way) *)
Fixpoint nd_insert (x : Z) (l : list Z) : list Z :=
  match l with
  | [] => [x]
  | y :: tl => if Z.leb x y then x :: l else y :: nd_insert x tl
  end.
Fixpoint nd_sort (l : list Z) : list Z :=
  match l with [] => [] | x :: tl => nd_insert x (nd_sort tl) end.
Definition nd_collect_sort {E} (key : E -> Z) (es : list E) : list Z := nd_sort (map key es).

(* StakePoolUnlock: `!stakedAt.Add(minLockPeriod).Before(common.ToTime(t.CreationDate))` refuses: the rule reads the
   creation date of the transaction (part of the block), not the clock of the executing node *)
Definition nd_unlock_allowed (staked_at period txn_time : Z) : bool := Z.ltb (staked_at + period) txn_time.

(* the repaired loops visit the keys in sorted order: `for _, key := range config.SortedKeys(fields)`, and
   updateState emits the user events in sorted user-id order *)
Definition nd_first_error_sorted (err : Z -> option Z) (keys : list Z) : option Z := nd_first_error Z err (nd_sort keys).
Definition nd_emit_sorted (events : list Z) (keys : list Z) : list Z := nd_emit_all Z events (nd_sort keys).

(* reads go through the state cache: a key is served from the cache when it is warm there, from the trie
   otherwise; [warm] is the cache-warmth oracle (which keys a node happens to hold: a node that executed the
   earlier blocks itself holds many, a node that starts from the committed trie none) *)
Definition nd_read (warm : Z -> bool) (cache trie : Z -> option Z) (k : Z) : option Z :=
  if warm k then cache k else trie k.

(* the cache holds, for the keys it holds, the committed value (C07; the chargeable-error path of updateState
   therefore starts a fresh transaction cache, so that writes of a failed call are never committed) *)
Definition nd_cache_coherent (warm : Z -> bool) (cache trie : Z -> option Z) : Prop :=
  forall k, warm k = true -> cache k = trie k.

(* a block as a sequence of steps; each step receives the iteration order chosen by the runtime for it *)
Definition nd_step (S : Type) : Type := S -> list Z -> S.
Fixpoint nd_run {S} (steps : list (nd_step S * list Z)) (orders : list (list Z)) (s : S) : S :=
  match steps, orders with
  | (st, dflt) :: tl, o :: os => nd_run tl os (st s o)
  | (st, dflt) :: tl, [] => nd_run tl [] (st s dflt)
  | [], _ => s
  end.

(* a step does not depend on the order it is given *)
Definition nd_order_free {S} (st : nd_step S) : Prop := forall s l l', Permutation l l' -> st s l = st s l'.

(* ---------- the site table ---------- *)

Definition nd_site_key (x : nd_site) : string := fst (fst x).
Definition nd_site_class (x : nd_site) : nd_class := snd x.

Definition nd_class_independent (c : nd_class) : bool :=
  match c with ClOrderFree | ClCollectSort | ClExistsCheck | ClFanInOrdered | ClFanInConst => true | _ => false end.

Definition nd_allowed (k : string) : bool := existsb (fun a => String.eqb (fst (fst a)) k) gen_nd_allow.

Fixpoint nd_cond_of (l : list (string * string)) (k : string) : string :=
  match l with
  | [] => ""
  | (k', c) :: tl => if String.eqb k' k then c else nd_cond_of tl k
  end.

Definition nd_fan_in_no_item_id : string := "fan-in-no-item-id".

(* what an allow-list entry must say for the class of its site: an entry for a fan-in call whose error text depends
   on loaded data relies on the side condition "the text does not mention the item" (checked by the translator:
   when it fails the class becomes ClFanInItem); for ClFanInItem only a confirmed finding can be listed *)
Definition nd_entry_fits (x : nd_site) : bool :=
  match nd_site_class x with
  | ClFanInValue => String.eqb (nd_cond_of gen_nd_allow_cond (nd_site_key x)) nd_fan_in_no_item_id
  | ClFanInItem => existsb (fun a => (String.eqb (fst (fst a)) (nd_site_key x) &&
                                      match snd (fst a) with AlFinding => true | _ => false end)%bool) gen_nd_allow
  | _ => true
  end.

(* every site is in a class with an independence lemma, or is listed (justified harmless, or a known finding) with
   an entry that fits its class *)
Definition nd_site_ok (x : nd_site) : bool :=
  (nd_class_independent (nd_site_class x) || (nd_allowed (nd_site_key x) && nd_entry_fits x))%bool.

Definition nd_findings : list string :=
  map (fun a => fst (fst a)) (filter (fun a => match snd (fst a) with AlFinding => true | _ => false end) gen_nd_allow).

(* ---------- fan-in: one goroutine per item, the first error to arrive is returned ---------- *)

(* GetItemsByIDs: errors other than "value not present" go through a plain error channel; the caller receives the
   one that was sent first. [arrival] is the order in which the goroutines finish (a permutation of the items,
   chosen by the scheduler); err gives the error of an item as a token of its text *)
Definition nd_fanin_first (E : Type) (err : E -> option Z) (arrival : list E) : option Z := nd_first_error E err arrival.
