package main

import (
	"fmt"
	"math"
	"strings"

	"0chain.net/smartcontract/storagesc"
	"verifharness/stg"
	"verifharness/vh"
)

func zopt(present bool, v int64) string {
	if !present {
		return "None"
	}
	return vh.Some(vh.Z(v))
}

func refsZ(xs []int) string {
	out := make([]string, len(xs))
	for i, x := range xs {
		out[i] = vh.Z(int64(x))
	}
	return vh.List(out)
}

func fbits(f float64) string { return vh.ZU(math.Float64bits(f)) }

// keyOfPK: the key pair of the pool a public key belongs to.
func keyOfPK(pk string) *stg.Key {
	for _, k := range keyCache {
		if k.PK == pk {
			return k
		}
	}
	return &stg.Key{}
}

var dbgErrs map[string]int

var badFuncs = []string{"new_allocation_request", "update_allocation_request", "finalize_allocation", "cancel_allocation",
	"write_pool_lock", "commit_connection", "read_redeem", "challenge_response", "free_allocation_request", "read_pool_lock", "no_such_function"}

// Step executes one op on the real contract and returns what happened together with the
// Gallina op term (inputs + oracle values recorded from this execution).
func (r *Run) Step(op Op) StepObs {
	r.Now += op.Dt
	r.W.Round += op.Dr
	now := r.Now
	w := r.W
	pre := r.Pre
	sender := refKey(op.S)
	var res stg.Result
	model := "OpBad"
	kind := op.K
	S := vh.Z(int64(op.S))
	A := vh.Z(int64(op.A))

	switch op.K {
	case "bad":
		fn := badFuncs[int(op.N)%len(badFuncs)]
		res = w.Exec(sender, fn, []byte(`{"x":`), op.V, now)
		kind = "bad"

	case "newalloc":
		ownerRef := op.C
		if ownerRef == 0 {
			ownerRef = op.S
		}
		ok := refKey(ownerRef)
		in := stg.NewAllocInput(op.D, op.P, op.N, ok.ID, ok.PK, blobIDs(op.Bl), stg.PriceRange{Min: 0, Max: uint64(op.R)}, stg.PriceRange{Min: 0, Max: uint64(op.W)}, op.X&xTPE != 0)
		if r.H.Ent {
			var tickets []string
			for _, b := range op.Bl {
				tickets = append(tickets, refKey(b).Sign(ok.ID))
			}
			in = stg.NewEnterpriseAllocInput(op.D, op.P, op.N, ok.ID, ok.PK, blobIDs(op.Bl), tickets, stg.PriceRange{Min: 0, Max: uint64(op.R)}, stg.PriceRange{Min: 0, Max: uint64(op.W)}, op.X&xTPE != 0)
			kind = "newalloc-enterprise"
		}
		res = w.Exec(sender, "new_allocation_request", in, op.V, now)
		if res.OK {
			r.Allocs[op.A] = res.TxnHash
			r.AllocRR[op.A] = [4]uint64{0, uint64(op.R), 0, uint64(op.W)}
		}
		model = vh.App("OpNewAlloc", A, S, vh.Z(int64(ownerRef)), vh.ZU(op.V), vh.Z(int64(op.D)), vh.Z(int64(op.P)), vh.Z(op.N),
			refsZ(op.Bl), "0", vh.Z(op.R), "0", vh.Z(op.W), vh.Bool(op.X&xTPE != 0))

	case "wplock":
		id := r.allocID(op.A)
		a := A
		if op.X&xEmptyAlloc != 0 {
			id = ""
			a = "(-1)"
		}
		res = w.Exec(sender, "write_pool_lock", stg.LockInput(id), op.V, now)
		model = vh.App("OpWPLock", S, a, vh.ZU(op.V))

	case "commit":
		kk := [2]int{op.A, op.B}
		cur := r.Roots[kk]
		root, prev := 0, cur
		size := op.N
		ts := now + op.M
		var lwmTs int64
		if pa := pre.Allocs[op.A]; pa != nil {
			for _, d := range pa.BAs {
				if d.Blobber == op.B {
					lwmTs = d.LWMTs
				}
			}
		}
		switch {
		case op.X&xRepeatRoot != 0:
			root, prev = cur, r.LWMPrev[kk]
		case op.X&xBadRoot != 0:
			r.NRoot++
			root, prev = r.NRoot, cur+100000
		case op.X&xRollback != 0:
			root, prev = r.LWMPrev[kk], r.LWMPrev[kk]
			size = 0
			ts = lwmTs
		default:
			r.NRoot++
			root = r.NRoot
		}
		client := refKey(op.C)
		signer := client
		if op.X&xBadSig != 0 {
			signer = key("intruder")
		}
		in := stg.WriteMarkerInput(signer, r.allocID(op.A), refKey(op.B).ID, client.ID, rootStr(root), rootStr(prev), size, ts)
		if op.X&xMalformed != 0 {
			in = []byte(`{"allocation_root":"x"}`)
		}
		snd := sender
		res = w.Exec(snd, "commit_connection", in, 0, now)
		if res.OK {
			r.Roots[kk] = root
			r.LWMPrev[kk] = prev
		}
		if op.X&xMalformed != 0 || op.S != op.B {
			// marker names blobber B; a different sender or a marker without write_marker is rejected before any modelled check
			model = "OpBad"
		} else {
			model = vh.App("OpCommit", S, A, vh.Z(int64(op.C)), vh.Z(int64(root)), vh.Z(int64(prev)), vh.Z(size), vh.Z(ts), vh.Bool(op.X&xBadSig == 0))
		}

	case "genchal":
		res = w.Exec(sender, "generate_challenge", stg.GenChallengeInput(w.Round+1), 0, now)
		model = "(OpGenChal None)" // completed after the snapshot (selection is read from the state)

	case "chalresp":
		chid, chn := fakeID(fmt.Sprint("chal", op.N)), 0
		blob := op.B
		if pa := pre.Allocs[op.A]; pa != nil && len(pa.OpenCh) > 0 {
			oc := pa.OpenCh[int(op.N)%len(pa.OpenCh)]
			chid, chn, blob = r.ChID[oc.Ch], oc.Ch, oc.Blobber
		} else if op.X&xRepeatRoot != 0 && len(r.ChID) > 0 { // any challenge ever generated (closed ones too)
			chn = int(op.N)%len(r.ChID) + 1
			chid = r.ChID[chn]
		}
		snd := refKey(blob)
		sref := blob
		if op.X&xWrongSender != 0 {
			snd, sref = sender, op.S
		}
		vals, _, chBlob, present, err := storagesc.VerifChallengeNode(chid, w.View())
		if err != nil {
			panic(err)
		}
		var tickets []stg.Ticket
		ticketsOK, pass := true, false
		var tvals []string
		if present {
			threshold := len(vals) / 2
			n := len(vals)
			if op.X&xFewTickets != 0 {
				n = threshold - 1
				if n < 0 {
					n = 0
				}
			}
			succ := 0
			for i := 0; i < n; i++ {
				vr := r.ref(vals[i])
				t := stg.Ticket{Validator: refKey(vr), Result: op.X&xFailTickets == 0}
				if op.X&xBadSig != 0 && i == 0 {
					t.BadSig = true
					ticketsOK = false
				}
				if t.Result {
					succ++
				}
				tickets = append(tickets, t)
				tvals = append(tvals, vals[i])
			}
			if n < threshold || n == 0 {
				ticketsOK = false
			}
			pass = succ > threshold
		}
		if chBlob == "" {
			chBlob = refKey(blob).ID
		}
		res = w.Exec(snd, "challenge_response", stg.ChallengeResponseInput(chid, chBlob, now, tickets), 0, now)
		conf := r.H.Conf
		rewarded := storagesc.VerifRandomSubSlice(tvals, conf.NumValRewarded, w.SeedAt(w.Round))
		var rw []int
		for _, id := range rewarded {
			rw = append(rw, r.ref(id))
		}
		model = vh.App("OpChalResp", vh.Z(int64(sref)), vh.Z(int64(chn)), vh.Bool(ticketsOK), vh.Bool(pass), refsZ(rw))
		if pass {
			kind = "chalresp-pass"
		} else {
			kind = "chalresp-fail"
		}

	case "update":
		u := stg.UpdateReq{ID: r.allocID(op.A), Size: op.N, Extend: op.X&xExtend != 0, SetTPE: op.X&xTPE != 0}
		add, rem, own := "None", "None", "None"
		if op.Ad > 0 {
			u.AddID = refKey(op.Ad - 1).ID
			add = vh.Some(vh.Z(int64(op.Ad - 1)))
		}
		if op.Rm > 0 {
			u.RemoveID = refKey(op.Rm - 1).ID
			rem = vh.Some(vh.Z(int64(op.Rm - 1)))
		}
		var in []byte
		if op.X&xOwnerChange != 0 {
			u.OwnerID = refKey(op.C).ID
			withPK := op.X&xBadID == 0
			m := stg.M{"id": u.ID, "size": u.Size, "extend": u.Extend, "add_blobber_id": u.AddID, "remove_blobber_id": u.RemoveID,
				"set_third_party_extendable": u.SetTPE, "owner_id": u.OwnerID}
			if withPK {
				m["owner_public_key"] = refKey(op.C).PK
			}
			in = stg.J(m)
			own = vh.Some(vh.Pair(vh.Z(int64(op.C)), vh.Bool(withPK)))
		} else {
			in = stg.UpdateAllocInput(u)
		}
		res = w.Exec(sender, "update_allocation_request", in, op.V, now)
		model = vh.App("OpUpdate", S, A, vh.ZU(op.V), vh.Z(op.N), vh.Bool(u.Extend), vh.Bool(u.SetTPE), add, rem, own)
		// the kind names the path that decides the accounting: replacing a killed/shut-down blobber,
		// else extending (challenge pool adjustment), else plain replace / add / other
		killedRep := false
		if op.Rm > 0 && op.Rm-1 < len(pre.Blob) {
			b := pre.Blob[op.Rm-1]
			killedRep = b.Killed || b.Shut
		}
		switch {
		case killedRep:
			kind = "update-replace-killed"
		case u.Extend || op.N > 0:
			kind = "update-extend"
		case op.Rm > 0:
			kind = "update-replace"
		case op.Ad > 0:
			kind = "update-add"
		}

	case "finalize":
		res = w.Exec(sender, "finalize_allocation", stg.LockInput(r.allocID(op.A)), 0, now)
		model = vh.App("OpFinalize", S, A)
	case "cancel":
		res = w.Exec(sender, "cancel_allocation", stg.LockInput(r.allocID(op.A)), 0, now)
		model = vh.App("OpCancel", S, A)

	case "rplock":
		in := stg.J(stg.M{})
		target := op.S
		if op.C != 0 {
			in = stg.J(stg.M{"target_id": refKey(op.C).ID})
			target = op.C
		}
		res = w.Exec(sender, "read_pool_lock", in, op.V, now)
		model = vh.App("OpRPLock", S, vh.Z(int64(target)), vh.ZU(op.V))
	case "rpunlock":
		res = w.Exec(sender, "read_pool_unlock", stg.J(stg.M{}), 0, now)
		model = vh.App("OpRPUnlock", S)

	case "read":
		client := refKey(op.C)
		signer, pk, cid := client, client.PK, client.ID
		if op.X&xBadSig != 0 {
			signer = key("intruder")
		}
		if op.X&xBadID != 0 {
			cid = key("intruder").ID
		}
		if op.X&xForgeKey != 0 {
			signer, pk = key("intruder"), key("intruder").PK
		}
		// what the contract must find out: does the id belong to the carried key, was the carried key used to sign
		idOK := cid == keyOfPK(pk).ID
		sigOK := signer.PK == pk
		ts := now + op.M
		ownerID := ""
		if pa := pre.Allocs[op.A]; pa != nil && pa.Owner >= 0 {
			ownerID = refKey(pa.Owner).ID
		}
		in := stg.ReadMarkerInput(signer, cid, pk, refKey(op.B).ID, r.allocID(op.A), ownerID, ts, op.N)
		if rk := [3]int{op.B, op.C, op.A}; !r.readSeen[rk] && op.B < len(r.H.Blobbers) {
			r.readSeen[rk] = true
			r.ReadKeys = append(r.ReadKeys, rk)
		}
		res = w.Exec(sender, "read_redeem", in, 0, now)
		model = vh.App("OpRead", vh.Z(int64(op.C)), vh.Z(int64(op.B)), A, vh.Z(ts), vh.Z(op.N), vh.Bool(idOK), vh.Bool(sigOK))
		if !idOK || !sigOK {
			kind = "read-forged"
		}

	case "kill":
		res = w.Exec(sender, "kill_blobber", stg.ProviderInput(refKey(op.B).ID), 0, now)
		model = vh.App("OpKill", S, vh.Z(int64(op.B)))
	case "shutdown":
		res = w.Exec(sender, "shutdown_blobber", stg.ProviderInput(refKey(op.B).ID), 0, now)
		model = vh.App("OpShutdown", S, vh.Z(int64(op.B)))

	case "updblobber":
		m := stg.M{"id": refKey(op.B).ID}
		terms := stg.M{}
		if op.W > 0 {
			terms["write_price"] = uint64(op.W - 1)
		}
		if op.R > 0 {
			terms["read_price"] = uint64(op.R - 1)
		}
		if len(terms) > 0 {
			m["terms"] = terms
		}
		if op.Cp != 0 {
			m["capacity"] = op.Cp
		}
		na := "None"
		if op.X&xNotAvail != 0 {
			m["not_available"] = true
			na = "(Some true)"
		} else if op.X&xAvail != 0 {
			m["not_available"] = false
			na = "(Some false)"
		}
		res = w.Exec(sender, "update_blobber_settings", stg.J(m), 0, now)
		model = vh.App("OpUpdBlobber", S, vh.Z(int64(op.B)), zopt(op.Cp != 0, op.Cp), zopt(op.W > 0, op.W-1), zopt(op.R > 0, op.R-1), na)

	case "settings":
		// update_settings of storagesc.time_unit (owner only); saved at once after demeter, else pending
		res = w.Exec(sender, "update_settings", stg.J(stg.M{"fields": stg.M{"time_unit": fmt.Sprintf("%ds", op.N)}}), 0, now)
		model = "(OpGenChal None)" // the settings transaction itself is not modelled; its effect is an event
		if !res.OK {
			model = "OpBad"
		}
	case "commitsettings":
		res = w.Exec(sender, "commit_settings_changes", stg.J(stg.M{}), 0, now)
		model = "(OpGenChal None)"
		if !res.OK {
			model = "OpBad"
		}
	case "addassigner":
		ak := refKey(op.C)
		// op.P: which of the assigner's key pairs is registered (re-registration = key rotation)
		res = w.Exec(sender, "add_free_storage_assigner", stg.AddAssignerInput(ak.ID, assKey(op.C, op.P).PK, op.F, op.G), 0, now)
		model = vh.App("OpAddAssigner", S, vh.Z(int64(op.C)), vh.Z(int64(op.P)), fbits(op.F), fbits(op.G))

	case "freealloc":
		rec := op.C
		if rec == 0 {
			rec = op.S
		}
		ass := refAssigner + op.B
		// op.P: the key pair of the assigner the marker is signed with (current, retired or never registered)
		signer := assKey(ass, op.P)
		if op.X&xBadSig != 0 {
			signer = key("intruder")
		}
		rk := refKey(rec)
		in := stg.FreeMarkerInput(signer, refKey(ass).ID, rk.ID, rk.PK, op.F, op.N, blobIDs(op.Bl))
		res = w.Exec(sender, "free_allocation_request", in, 0, now)
		if res.OK {
			r.Allocs[op.A] = res.TxnHash
			c := r.H.Conf
			r.AllocRR[op.A] = [4]uint64{0, c.FreeMaxRP, 0, c.FreeMaxWP}
		}
		coin, okc := parseZCN(op.F)
		model = vh.App("OpFreeAlloc", A, S, vh.Z(int64(ass)), vh.Z(int64(rec)), zopt(okc, int64(coin)), vh.Z(op.N), vh.Z(int64(signerNum(op))), refsZ(op.Bl))

	default:
		panic("unknown op kind " + op.K)
	}

	post := r.Snapshot()
	if op.K == "genchal" && !res.OK {
		model = "OpBad" // rejected by the generator's own guards (validator supply ...), which are not modelled
	}
	if op.K == "genchal" && res.OK {
		// which challenge was generated: the open challenge that did not exist before
		for l, pa := range post.Allocs {
			if pa == nil {
				continue
			}
			old := map[int]bool{}
			if q := pre.Allocs[l]; q != nil {
				for _, oc := range q.OpenCh {
					old[oc.Ch] = true
				}
			}
			for _, oc := range pa.OpenCh {
				if !old[oc.Ch] {
					model = fmt.Sprintf("(OpGenChal (Some (%d, %d, %d)))", l, oc.Blobber, oc.Ch)
					kind = "genchal-hit"
				}
			}
		}
	}
	if strings.HasPrefix(res.Err, "PANIC") {
		kind += "-panic"
	}
	if dbgErrs != nil && !res.OK {
		e := res.Err
		if len(e) > 400 {
			e = e[:400]
		}
		dbgErrs[kind+" | "+e]++
	}
	if op.K == "update" && op.X&xOwnerChange != 0 && op.C != op.S && op.V > 0 {
		// C04 coverage: tokens attached to an update whose owner_id names another client
		who, dem, okk := "owner", "demeter-off", "rejected"
		if pa := pre.Allocs[op.A]; pa != nil && pa.Owner != op.S {
			who = "third-party"
		}
		if d := r.H.Conf.Demeter; d >= 0 && res.Round >= d {
			dem = "demeter-on"
		}
		if res.OK {
			okk = "ok"
		}
		r.Kinds["update-value-other-owner-id:"+who+":"+dem+":"+okk]++
	}
	if res.OK {
		r.Kinds[kind+":ok"]++
	} else {
		r.Kinds[kind+":rejected"]++
	}
	st := StepObs{Kind: kind, Op: op, Now: now, Round: res.Round, OK: res.OK, Err: res.Err, Transfers: res.Transfers,
		Sender: res.Sender, Func: res.Func, Value: res.Value, Model: model, Post: post}
	st.Op.K = op.K
	r.Steps = append(r.Steps, st)
	r.Pre = post
	return st
}


// signerNum: the key number a free-storage marker is signed with
func signerNum(op Op) int {
	if op.X&xBadSig != 0 {
		return intruderKeyNum
	}
	if op.P < 0 {
		return 0
	}
	return op.P
}
