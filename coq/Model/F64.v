(* IEEE-754 binary64 arithmetic as Go/amd64 performs it, on Coq.Floats.SpecFloat (axiom free,
   computes with vm_compute). Definitions only; every name is prefixed f64_.
   Shared by the engines that model float code of /repo (storagesc, stakepool, vesting ...). *)
From Coq Require Import ZArith Bool Floats.SpecFloat.
Open Scope Z_scope.

Definition f64 := spec_float.
Definition f64_prec : Z := 53.
Definition f64_emax : Z := 1024.

Definition f64_zero : f64 := S754_zero false.
Definition f64_nan : f64 := S754_nan.

(* float64(z) for an integer z (Go int64/uint64 -> float64 conversion): round to nearest even *)
Definition f64_of_Z (z : Z) : f64 := binary_normalize f64_prec f64_emax z 0 false.

Definition f64_add : f64 -> f64 -> f64 := SFadd f64_prec f64_emax.
Definition f64_sub : f64 -> f64 -> f64 := SFsub f64_prec f64_emax.
Definition f64_mul : f64 -> f64 -> f64 := SFmul f64_prec f64_emax.
Definition f64_div : f64 -> f64 -> f64 := SFdiv f64_prec f64_emax.
Definition f64_opp : f64 -> f64 := SFopp.
Definition f64_ltb : f64 -> f64 -> bool := SFltb.
Definition f64_leb : f64 -> f64 -> bool := SFleb.
Definition f64_eqb : f64 -> f64 -> bool := SFeqb.
Definition f64_gtb (a b : f64) : bool := SFltb b a.
Definition f64_geb (a b : f64) : bool := SFleb b a.

Definition f64_is_nan (x : f64) : bool := match x with S754_nan => true | _ => false end.

(* decode the 64 bit pattern math.Float64bits(x), 0 <= b < 2^64 *)
Definition f64_of_bits (b : Z) : f64 :=
  let s := Z.testbit b 63 in
  let e := Z.land (Z.shiftr b 52) 2047 in
  let m := Z.land b (2 ^ 52 - 1) in
  if e =? 2047 then (if m =? 0 then S754_infinity s else S754_nan)
  else if e =? 0 then
    match m with
    | Zpos p => S754_finite s p (-1074)
    | _ => S754_zero s
    end
  else
    match m + 2 ^ 52 with
    | Zpos p => S754_finite s p (e - 1075)
    | _ => S754_nan
    end.

(* integer part, truncated toward zero; None for nan / infinities *)
Definition f64_trunc (x : f64) : option Z :=
  match x with
  | S754_zero _ => Some 0
  | S754_finite s m e =>
      let a := if 0 <=? e then Z.shiftl (Zpos m) e else Z.shiftr (Zpos m) (- e) in
      Some (if s then - a else a)
  | _ => None
  end.

(* Go on amd64: uint64(f) / currency.Coin(f).  Observed on this toolchain (go1.23.5):
   0 <= f < 2^64 truncates; -2^63 < f < 0 truncates toward zero then wraps mod 2^64;
   everything else (NaN, infinities, f >= 2^64, f <= -2^63) gives 2^63. *)
Definition f64_to_u64 (x : f64) : Z :=
  match f64_trunc x with
  | Some z => if (z <? 2 ^ 64) && (- 2 ^ 63 <? z) then z mod 2 ^ 64 else 2 ^ 63
  | None => 2 ^ 63
  end.

(* Go on amd64: int64(f): truncation when -2^63 <= trunc(f) < 2^63, else -2^63 *)
Definition f64_to_i64 (x : f64) : Z :=
  match f64_trunc x with
  | Some z => if (z <? 2 ^ 63) && (- 2 ^ 63 <=? z) then z else - 2 ^ 63
  | None => - 2 ^ 63
  end.

(* math.Ceil as an integer (None for nan / infinities) *)
Definition f64_ceil (x : f64) : option Z :=
  match x with
  | S754_zero _ => Some 0
  | S754_finite s m e =>
      if 0 <=? e then Some (if s then - Z.shiftl (Zpos m) e else Z.shiftl (Zpos m) e)
      else
        let q := Z.shiftr (Zpos m) (- e) in
        let r := Zpos m - Z.shiftl q (- e) in
        Some (if s then - q else if r =? 0 then q else q + 1)
  | _ => None
  end.

(* currency.Float64ToCoin: error when a < 0 (NaN compares false and passes), else Coin(a) *)
Definition f64_float_to_coin (a : f64) : option Z :=
  if f64_ltb a f64_zero then None else Some (f64_to_u64 a).

(* currency.MultFloat64 c a *)
Definition f64_mult_coin (c : Z) (a : f64) : option Z :=
  if f64_ltb a f64_zero then None
  else let b := f64_mul (f64_of_Z c) a in
       if f64_ltb b f64_zero then None else f64_float_to_coin b.
