// Translator "ndsites" (property C06): lists every source of run-to-run nondeterminism in the packages
// that smart-contract execution reaches and classifies each syntactically.
//
// Scope (checks/C06_scope.json): the import closure of smartcontract/setupsc and chaincore/smartcontract
// inside 0chain.net minus the listed packages/files that do not run during block execution (REST
// handlers, benchmarks, the query-DB side), plus the listed files of chaincore/chain (updateState).
//
// Sites, found with full type information (go list -export + go/types, working tree = VERIF_REPO or /repo):
//
//	range over a map; calls of time.Now / time.Since / time.Until; package-level math/rand functions
//	(the unseeded global source); `go` statements and `select`; calls of fan-in functions (fanin.go).
//
// Classes of a map range (decided on the loop body only, fail-closed):
//
//	OrderFree    the body only deletes, writes m2[key] = ..., accumulates integers with commutative
//	             operators, sets flags to constants, under side-effect-free conditions;
//	CollectSort  the body only appends to slices, each of which is sorted before use on every path: the first statement
//	             after the loop that mentions the slice (outside len/cap) is an unconditional sort call on it;
//	ExistsCheck  the body is `if cond { return consts }` / `{ flag = const; break }`: an existence test;
//	OrderDep     anything else (early return of data, append without sort, calls, float accumulation ...).
//
// Output: coq/Gen/NdSites.v (list of sites with class) and coq/Gen/NdSites.json (same, for the engine).
// The allow list checks/C06_allow.json (site key -> named justification or known finding) is copied into
// the Coq file, so that the theorem is over sites + list. Fails closed when an allow entry names no site.
package main

import (
	"bytes"
	"crypto/sha1"
	"encoding/hex"
	"encoding/json"
	"fmt"
	"go/ast"
	"go/importer"
	"go/parser"
	"go/token"
	"go/types"
	"io"
	"os"
	"os/exec"
	"path/filepath"
	"sort"
	"strings"
)

var fset = token.NewFileSet()

func die(f string, a ...interface{}) {
	fmt.Fprintf(os.Stderr, "ndsites translator: "+f+"\n", a...)
	os.Exit(1)
}

func repo() string {
	if r := os.Getenv("VERIF_REPO"); r != "" {
		return filepath.Clean(r)
	}
	return "/repo"
}

type listPkg struct {
	ImportPath string
	Export     string
	Dir        string
	GoFiles    []string
	CgoFiles   []string
}

func goList(pkgs ...string) map[string]*listPkg {
	args := []string{"list", "-export", "-deps", "-tags", "verif", "-json=ImportPath,Export,Dir,GoFiles,CgoFiles"}
	if r := os.Getenv("VERIF_REPO"); r != "" && filepath.Clean(r) != "/repo" {
		h := sha1.Sum([]byte(r))
		mf := filepath.Join("/verif/build/altmod", hex.EncodeToString(h[:])[:12], "go.mod")
		if _, err := os.Stat(mf); err != nil {
			die("VERIF_REPO=%s but %s is missing (bin/check creates it)", r, mf)
		}
		args = append(args, "-modfile="+mf)
	}
	args = append(args, pkgs...)
	cmd := exec.Command("go", args...)
	cmd.Dir = "/verif/harness"
	cmd.Env = append(os.Environ(), "GOWORK=off", "GOFLAGS=-mod=mod", "GOPROXY=off", "GOSUMDB=off", "GOTOOLCHAIN=local")
	var stderr bytes.Buffer
	cmd.Stderr = &stderr
	out, err := cmd.Output()
	if err != nil {
		die("go list failed: %v\n%s", err, stderr.String())
	}
	res := map[string]*listPkg{}
	dec := json.NewDecoder(bytes.NewReader(out))
	for {
		var p listPkg
		if err := dec.Decode(&p); err == io.EOF {
			break
		} else if err != nil {
			die("go list output: %v", err)
		}
		pp := p
		res[p.ImportPath] = &pp
	}
	return res
}

type scope struct {
	Roots           []string `json:"roots"`
	ExcludePackages []string `json:"exclude_packages"`   // prefix match
	ExcludeFiles    []string `json:"exclude_files"`      // glob on the base name
	ExtraFiles      []string `json:"extra_files"`        // import path + "/" + file
	ExcludePaths    []string `json:"exclude_file_paths"` // import path + "/" + file
}

type allowEntry struct {
	Site   string `json:"site"`           // key of the site
	Kind   string `json:"kind"`           // "lemma" (harmless, justified) | "limit" (documented dependence, not driven) | "finding" (confirmed divergence)
	Reason string `json:"reason"`         // justification or finding id
	Cond   string `json:"cond,omitempty"` // side condition the entry relies on: "fan-in-no-item-id" (the site must be of class FanInValue)
}

type site struct {
	Key   string `json:"key"` // pkg/file:function:kind#n
	Pkg   string `json:"pkg"`
	File  string `json:"file"`
	Line  int    `json:"line"`
	Func  string `json:"func"`
	Kind  string `json:"kind"`  // MapRange TimeNow GlobalRand Goroutine Select FanIn
	Class string `json:"class"` // OrderFree CollectSort ExistsCheck OrderDep | Clock Rand Sched | FanInOrdered FanInConst FanInValue FanInItem (fanin.go)
	Why   string `json:"why"`   // for OrderDep: first construct that made it so
}

// ---------- classification of a map-range body ----------

type classifier struct {
	info    *types.Info
	fn      *ast.BlockStmt // enclosing function body (for the later sort)
	loop    *ast.RangeStmt
	keyName string
	valName string
	appends map[string]bool // slices appended to
	why     string
}

func (c *classifier) fail(n ast.Node, what string) bool {
	if c.why == "" {
		c.why = fmt.Sprintf("%s (line %d)", what, fset.Position(n.Pos()).Line)
	}
	return false
}

var pureFuncs = map[string]bool{"len": true, "cap": true, "min": true, "max": true, "string": true, "int": true, "int64": true,
	"uint64": true, "float64": true, "int32": true, "uint32": true, "bool": true}

// pure: the expression has no side effects we can see (no calls except conversions / len / cap / pure helpers).
func (c *classifier) pure(e ast.Expr) bool {
	ok := true
	ast.Inspect(e, func(n ast.Node) bool {
		switch x := n.(type) {
		case *ast.CallExpr:
			if tv, found := c.info.Types[x.Fun]; found && tv.IsType() {
				return true // conversion
			}
			switch f := x.Fun.(type) {
			case *ast.Ident:
				if pureFuncs[f.Name] {
					return true
				}
			case *ast.SelectorExpr:
				// methods / functions that only read: a small list of name prefixes
				n := f.Sel.Name
				for _, p := range []string{"Has", "Is", "Get", "Len", "Contains", "Equal", "String", "Int", "Compare", "Size", "Msgsize", "Clone", "Sprintf"} {
					if strings.HasPrefix(n, p) {
						return true
					}
				}
			}
			ok = false
			c.fail(x, "call in an expression")
			return false
		case *ast.FuncLit:
			ok = false
			c.fail(x, "function literal")
			return false
		case *ast.UnaryExpr:
			if x.Op == token.ARROW {
				ok = false
				c.fail(x, "channel receive")
				return false
			}
		}
		return true
	})
	return ok
}

func isConst(e ast.Expr) bool {
	switch x := e.(type) {
	case *ast.BasicLit:
		return true
	case *ast.Ident:
		return x.Name == "true" || x.Name == "false" || x.Name == "nil"
	}
	return false
}

func (c *classifier) isInteger(e ast.Expr) bool {
	tv, ok := c.info.Types[e]
	if !ok {
		return false
	}
	b, ok := tv.Type.Underlying().(*types.Basic)
	return ok && b.Info()&types.IsInteger != 0
}

// orderFree: every statement commutes with itself under a different key.
func (c *classifier) orderFree(stmts []ast.Stmt) bool {
	for _, s := range stmts {
		switch x := s.(type) {
		case *ast.EmptyStmt:
		case *ast.BranchStmt:
			if x.Tok != token.CONTINUE {
				return c.fail(x, "break/goto")
			}
		case *ast.IncDecStmt:
			if !c.isInteger(x.X) {
				return c.fail(x, "++/-- on a non-integer")
			}
		case *ast.ExprStmt:
			call, ok := x.X.(*ast.CallExpr)
			if !ok {
				return c.fail(x, "expression statement")
			}
			id, ok := call.Fun.(*ast.Ident)
			if !ok || id.Name != "delete" {
				return c.fail(x, "call statement")
			}
			for _, a := range call.Args {
				if !c.pure(a) {
					return false
				}
			}
		case *ast.AssignStmt:
			for _, r := range x.Rhs {
				if !c.pure(r) {
					return false
				}
			}
			switch x.Tok {
			case token.ADD_ASSIGN, token.OR_ASSIGN, token.AND_ASSIGN, token.XOR_ASSIGN, token.MUL_ASSIGN:
				if !c.isInteger(x.Lhs[0]) {
					return c.fail(x, "accumulation on a non-integer (float addition is not associative; string concatenation is ordered)")
				}
			case token.ASSIGN, token.DEFINE:
				for i, l := range x.Lhs {
					switch lx := l.(type) {
					case *ast.Ident:
						if lx.Name == "_" {
							continue
						}
						if x.Tok == token.DEFINE {
							continue // loop-local variable
						}
						if obj := c.info.Uses[lx]; obj != nil && c.loop.Body.Pos() <= obj.Pos() && obj.Pos() <= c.loop.Body.End() {
							continue // declared inside the loop body
						}
						if i < len(x.Rhs) && isConst(x.Rhs[i]) {
							continue // flag := constant
						}
						return c.fail(x, "assignment to an outer variable")
					case *ast.IndexExpr:
						// m2[key] = ...: distinct keys write distinct entries
						if id, ok := lx.Index.(*ast.Ident); ok && (id.Name == c.keyName) && c.keyName != "" && c.pure(lx.X) {
							continue
						}
						return c.fail(x, "indexed assignment not keyed by the loop key")
					default:
						return c.fail(x, "assignment to a field or dereference")
					}
				}
			default:
				return c.fail(x, "non-commutative compound assignment")
			}
		case *ast.IfStmt:
			if x.Init != nil {
				if as, ok := x.Init.(*ast.AssignStmt); !ok || as.Tok != token.DEFINE {
					return c.fail(x, "if with a non-declaring init")
				} else {
					for _, r := range as.Rhs {
						if !c.pure(r) {
							return false
						}
					}
				}
			}
			if !c.pure(x.Cond) || !c.orderFree(x.Body.List) {
				return false
			}
			switch e := x.Else.(type) {
			case nil:
			case *ast.BlockStmt:
				if !c.orderFree(e.List) {
					return false
				}
			case *ast.IfStmt:
				if !c.orderFree([]ast.Stmt{e}) {
					return false
				}
			}
		case *ast.BlockStmt:
			if !c.orderFree(x.List) {
				return false
			}
		case *ast.DeclStmt:
		case *ast.RangeStmt:
			// a nested loop whose body is order-free as well (generated Msgsize over nested containers)
			if !c.pure(x.X) || !c.orderFree(x.Body.List) {
				return false
			}
		default:
			return c.fail(s, fmt.Sprintf("%T", s))
		}
	}
	return true
}

// collectOnly: the body only appends loop data to slices (possibly under a pure condition).
func (c *classifier) collectOnly(stmts []ast.Stmt) bool {
	for _, s := range stmts {
		switch x := s.(type) {
		case *ast.AssignStmt:
			if x.Tok != token.ASSIGN || len(x.Lhs) != 1 || len(x.Rhs) != 1 {
				return false
			}
			call, ok := x.Rhs[0].(*ast.CallExpr)
			if !ok {
				return false
			}
			id, ok := call.Fun.(*ast.Ident)
			if !ok || id.Name != "append" {
				return false
			}
			dst := types.ExprString(x.Lhs[0])
			if types.ExprString(call.Args[0]) != dst {
				return false
			}
			for _, a := range call.Args[1:] {
				if !c.pure(a) {
					return false
				}
			}
			c.appends[dst] = true
		case *ast.IfStmt:
			if x.Init != nil || x.Else != nil || !c.pure(x.Cond) || !c.collectOnly(x.Body.List) {
				return false
			}
		case *ast.BranchStmt:
			if x.Tok != token.CONTINUE {
				return false
			}
		default:
			return false
		}
	}
	return len(stmts) > 0
}

// sortedLater: on every path from the loop onwards each collected slice is sorted before it is used: walking the
// statements that follow the loop (then those that follow the enclosing statement, and so on outwards), the first
// statement that mentions the slice - other than inside len()/cap() - must be an unconditional sort call on it.
// A `return slice` or any other use between the loop and the sort makes the site order dependent.
func (c *classifier) sortedLater() bool {
	path := stmtPath(c.fn.List, c.loop)
	if path == nil {
		c.why = "loop not found in the function body"
		return false
	}
	for dst := range c.appends {
		if why := sortedOnEveryPath(path, dst); why != "" {
			c.why = why
			return false
		}
	}
	return true
}

type listPos struct {
	list []ast.Stmt
	idx  int
}

// the chain of (statement list, index) from the outermost list down to the one that holds target
func stmtPath(list []ast.Stmt, target ast.Stmt) []listPos {
	for i, s := range list {
		if s == target {
			return []listPos{{list, i}}
		}
		if s.Pos() <= target.Pos() && target.End() <= s.End() {
			var sub []listPos
			ast.Inspect(s, func(n ast.Node) bool {
				if sub != nil || n == nil {
					return false
				}
				var inner []ast.Stmt
				switch x := n.(type) {
				case *ast.BlockStmt:
					inner = x.List
				case *ast.CaseClause:
					inner = x.Body
				case *ast.CommClause:
					inner = x.Body
				default:
					return true
				}
				if n == ast.Node(s) {
					return true
				}
				if p := stmtPath(inner, target); p != nil {
					sub = p
				}
				return sub == nil
			})
			if sub != nil {
				return append([]listPos{{list, i}}, sub...)
			}
			return nil
		}
	}
	return nil
}

func isSortCallOn(s ast.Stmt, dst string) bool {
	es, ok := s.(*ast.ExprStmt)
	if !ok {
		return false
	}
	call, ok := es.X.(*ast.CallExpr)
	if !ok || len(call.Args) == 0 {
		return false
	}
	name := types.ExprString(call.Fun)
	if !(strings.Contains(name, "sort.") || strings.Contains(name, "Sort") || strings.Contains(name, "slices.Sort")) {
		return false
	}
	a := call.Args[0]
	if types.ExprString(a) == dst {
		return true
	}
	// sort.Sort(byX(dst)) / sort.Sort(sort.StringSlice(dst))
	if conv, ok := a.(*ast.CallExpr); ok && len(conv.Args) == 1 && types.ExprString(conv.Args[0]) == dst {
		return true
	}
	return false
}

// does the statement mention dst outside len(dst) / cap(dst)?
func mentions(s ast.Node, dst string) bool {
	found := false
	ast.Inspect(s, func(n ast.Node) bool {
		if found {
			return false
		}
		if call, ok := n.(*ast.CallExpr); ok {
			if id, ok := call.Fun.(*ast.Ident); ok && (id.Name == "len" || id.Name == "cap") && len(call.Args) == 1 && types.ExprString(call.Args[0]) == dst {
				return false
			}
		}
		if e, ok := n.(ast.Expr); ok && types.ExprString(e) == dst {
			found = true
			return false
		}
		return true
	})
	return found
}

func sortedOnEveryPath(path []listPos, dst string) string {
	for lvl := len(path) - 1; lvl >= 0; lvl-- {
		lp := path[lvl]
		for _, s := range lp.list[lp.idx+1:] {
			if isSortCallOn(s, dst) {
				return ""
			}
			// dst = append(dst, more...) before the sort only collects more
			if as, ok := s.(*ast.AssignStmt); ok && as.Tok == token.ASSIGN && len(as.Lhs) == 1 && len(as.Rhs) == 1 && types.ExprString(as.Lhs[0]) == dst {
				if call, ok := as.Rhs[0].(*ast.CallExpr); ok && types.ExprString(call.Fun) == "append" && len(call.Args) > 0 && types.ExprString(call.Args[0]) == dst {
					more := false
					for _, a := range call.Args[1:] {
						more = more || mentions(a, dst)
					}
					if !more {
						continue
					}
				}
			}
			if mentions(s, dst) {
				return fmt.Sprintf("%s is used at line %d before it is sorted (a path from the loop reaches a use without the sort)", dst, fset.Position(s.Pos()).Line)
			}
		}
		if lvl > 0 {
			// leaving a loop body would run the collecting loop again: keep it simple and fail closed
			switch path[lvl-1].list[path[lvl-1].idx].(type) {
			case *ast.ForStmt, *ast.RangeStmt:
				return "the collecting loop sits inside another loop and " + dst + " is not sorted inside it"
			}
		}
	}
	return "appends to " + dst + " which is not sorted afterwards"
}

// existsCheck: `if cond { return consts }` or `if cond { flag = const; break }` (and nothing else).
func (c *classifier) existsCheck(stmts []ast.Stmt) bool {
	if len(stmts) != 1 {
		return false
	}
	ifs, ok := stmts[0].(*ast.IfStmt)
	if !ok || ifs.Else != nil {
		return false
	}
	if ifs.Init != nil {
		as, ok := ifs.Init.(*ast.AssignStmt)
		if !ok || as.Tok != token.DEFINE {
			return false
		}
		for _, r := range as.Rhs {
			if !c.pure(r) {
				return false
			}
		}
	}
	if !c.pure(ifs.Cond) {
		return false
	}
	for i, s := range ifs.Body.List {
		switch x := s.(type) {
		case *ast.ReturnStmt:
			for _, r := range x.Results {
				if !isConst(r) {
					return false
				}
			}
			return i == len(ifs.Body.List)-1
		case *ast.AssignStmt:
			if len(x.Rhs) != 1 || !isConst(x.Rhs[0]) {
				return false
			}
		case *ast.BranchStmt:
			return x.Tok == token.BREAK && i == len(ifs.Body.List)-1
		default:
			return false
		}
	}
	return false
}

func classify(info *types.Info, fn *ast.BlockStmt, loop *ast.RangeStmt) (string, string) {
	c := &classifier{info: info, fn: fn, loop: loop, appends: map[string]bool{}}
	if id, ok := loop.Key.(*ast.Ident); ok {
		c.keyName = id.Name
	}
	if id, ok := loop.Value.(*ast.Ident); ok {
		c.valName = id.Name
	}
	if c.existsCheck(loop.Body.List) {
		return "ExistsCheck", ""
	}
	c.why = ""
	if c.collectOnly(loop.Body.List) {
		if c.sortedLater() {
			return "CollectSort", ""
		}
		return "OrderDep", c.why
	}
	c.why = ""
	if c.orderFree(loop.Body.List) {
		return "OrderFree", ""
	}
	return "OrderDep", c.why
}

// ---------- walking ----------

func match(pats []string, name string) bool {
	for _, p := range pats {
		if ok, _ := filepath.Match(p, name); ok {
			return true
		}
	}
	return false
}

func main() {
	var sc scope
	b, err := os.ReadFile("/verif/checks/C06_scope.json")
	if err != nil {
		die("%v", err)
	}
	if err := json.Unmarshal(b, &sc); err != nil {
		die("scope: %v", err)
	}
	var allow []allowEntry
	if b, err := os.ReadFile("/verif/checks/C06_allow.json"); err == nil {
		if err := json.Unmarshal(b, &allow); err != nil {
			die("allow list: %v", err)
		}
	}
	extraPk := map[string]map[string]bool{}
	roots := append([]string{}, sc.Roots...)
	for _, ef := range sc.ExtraFiles {
		i := strings.LastIndex(ef, "/")
		p, f := ef[:i], ef[i+1:]
		if extraPk[p] == nil {
			extraPk[p] = map[string]bool{}
			roots = append(roots, p)
		}
		extraPk[p][f] = true
	}
	all := goList(roots...)
	inScope := map[string]*listPkg{}
	closure := goList(sc.Roots...)
	for p, lp := range closure {
		if !strings.HasPrefix(p, "0chain.net/") {
			continue
		}
		skip := false
		for _, ex := range sc.ExcludePackages {
			if strings.HasPrefix(p, ex) {
				skip = true
			}
		}
		if !skip {
			inScope[p] = lp
		}
	}
	for p := range extraPk {
		inScope[p] = all[p]
	}
	imp := importer.ForCompiler(fset, "gc", func(p string) (io.ReadCloser, error) {
		e := all[p]
		if e == nil || e.Export == "" {
			return nil, fmt.Errorf("no export data for %s", p)
		}
		return os.Open(e.Export)
	})
	var sites []site
	var pkgs []string
	for p := range inScope {
		pkgs = append(pkgs, p)
	}
	sort.Strings(pkgs)
	want := filepath.Join(repo(), "code/go/0chain.net")
	counter := map[string]int{}
	addSite := func(p, rel, fn string, n ast.Node, kind, class, why string) {
		k := fmt.Sprintf("%s:%s:%s", rel, fn, kind)
		counter[k]++
		sites = append(sites, site{Key: fmt.Sprintf("%s#%d", k, counter[k]), Pkg: p, File: rel, Line: fset.Position(n.Pos()).Line,
			Func: fn, Kind: kind, Class: class, Why: why})
	}
	for _, p := range pkgs {
		lp := inScope[p]
		if !strings.HasPrefix(lp.Dir, want) {
			die("package %s resolved to %s, expected below %s", p, lp.Dir, want)
		}
		var files []*ast.File
		names := append(append([]string{}, lp.GoFiles...), lp.CgoFiles...)
		for _, f := range names {
			af, err := parser.ParseFile(fset, filepath.Join(lp.Dir, f), nil, 0)
			if err != nil {
				die("parse %s: %v", f, err)
			}
			files = append(files, af)
		}
		info := &types.Info{Types: map[ast.Expr]types.TypeAndValue{}, Uses: map[*ast.Ident]types.Object{}, Defs: map[*ast.Ident]types.Object{}}
		conf := types.Config{Importer: imp, FakeImportC: true, Error: func(err error) {}}
		if pkg, _ := conf.Check(p, fset, files, info); pkg == nil {
			die("type check of %s failed", p)
		}
		pinfo := &pkgInfo{path: p, files: files, names: names, inScope: make([]bool, len(files)), info: info}
		pkgInfos = append(pkgInfos, pinfo)
		for i, af := range files {
			base := names[i]
			if only := extraPk[p]; only != nil {
				if !only[base] {
					continue
				}
			} else if match(sc.ExcludeFiles, base) || strings.HasPrefix(base, "verif_hooks_") {
				continue
			}
			excluded := false
			for _, ep := range sc.ExcludePaths {
				excluded = excluded || ep == p+"/"+base
			}
			if excluded {
				continue
			}
			rel := strings.TrimPrefix(p, "0chain.net/") + "/" + base
			pinfo.inScope[i] = true
			add := func(fn string, n ast.Node, kind, class, why string) { addSite(p, rel, fn, n, kind, class, why) }
			for _, d := range af.Decls {
				fd, ok := d.(*ast.FuncDecl)
				if !ok || fd.Body == nil {
					continue
				}
				fn := fd.Name.Name
				if fd.Recv != nil && len(fd.Recv.List) == 1 {
					t := fd.Recv.List[0].Type
					if s, ok := t.(*ast.StarExpr); ok {
						t = s.X
					}
					fn = types.ExprString(t) + "." + fn
				}
				ast.Inspect(fd.Body, func(n ast.Node) bool {
					switch x := n.(type) {
					case *ast.RangeStmt:
						tv, ok := info.Types[x.X]
						if !ok || tv.Type == nil {
							add(fn, x, "MapRange", "OrderDep", "type of the ranged expression unknown")
							return true
						}
						if _, isMap := tv.Type.Underlying().(*types.Map); isMap {
							cl, why := classify(info, fd.Body, x)
							add(fn, x, "MapRange", cl, why)
						}
					case *ast.CallExpr:
						if se, ok := x.Fun.(*ast.SelectorExpr); ok {
							if id, ok := se.X.(*ast.Ident); ok {
								if pn, ok := info.Uses[id].(*types.PkgName); ok {
									switch pn.Imported().Path() {
									case "time":
										if se.Sel.Name == "Now" || se.Sel.Name == "Since" || se.Sel.Name == "Until" {
											add(fn, x, "TimeNow", "Clock", "time."+se.Sel.Name)
										}
									case "math/rand":
										if se.Sel.Name != "New" && se.Sel.Name != "NewSource" {
											add(fn, x, "GlobalRand", "Rand", "rand."+se.Sel.Name)
										}
									}
								}
							}
						}
					case *ast.GoStmt:
						add(fn, x, "Goroutine", "Sched", "go statement")
					case *ast.SelectStmt:
						add(fn, x, "Select", "Sched", "select")
					}
					return true
				})
			}
		}
	}
	fanInSites(func(rel, fn string, n ast.Node, kind, class, why string) {
		addSite("0chain.net/"+rel[:strings.LastIndex(rel, "/")], rel, fn, n, kind, class, why)
	})
	sort.Slice(sites, func(i, j int) bool { return sites[i].Key < sites[j].Key })
	byKey := map[string]bool{}
	for _, s := range sites {
		byKey[s.Key] = true
	}
	for _, a := range allow {
		if !byKey[a.Site] {
			die("allow list entry %q names no site (the code moved: re-justify it)", a.Site)
		}
		if a.Kind != "lemma" && a.Kind != "finding" && a.Kind != "limit" {
			die("allow list entry %q: kind must be lemma, limit or finding", a.Site)
		}
		if a.Cond != "" && a.Cond != "fan-in-no-item-id" {
			die("allow list entry %q: unknown side condition %q", a.Site, a.Cond)
		}
	}
	// ---- output ----
	q := func(s string) string { return "\"" + strings.ReplaceAll(s, "\"", "\"\"") + "\"" }
	var o strings.Builder
	o.WriteString("(* GENERATED by harness/translators/ndsites from the Go sources (scope: checks/C06_scope.json) and\n" +
		"   checks/C06_allow.json; do not edit. *)\nFrom ZC Require Import Model.NdTypes.\nOpen Scope string_scope.\n\n")
	o.WriteString("Definition gen_nd_sites : list nd_site := [\n")
	for i, s := range sites {
		sep := ";"
		if i == len(sites)-1 {
			sep = ""
		}
		fmt.Fprintf(&o, "  (%s, Nd%s, Cl%s)%s\n", q(s.Key), s.Kind, s.Class, sep)
	}
	o.WriteString("].\n\nDefinition gen_nd_allow : list nd_allow := [\n")
	for i, a := range allow {
		sep := ";"
		if i == len(allow)-1 {
			sep = ""
		}
		k := "AlLemma"
		if a.Kind == "finding" {
			k = "AlFinding"
		} else if a.Kind == "limit" {
			k = "AlLimit"
		}
		fmt.Fprintf(&o, "  (%s, %s, %s)%s\n", q(a.Site), k, q(a.Reason), sep)
	}
	o.WriteString("].\n\n(* side conditions of allow-list entries: site key, condition *)\nDefinition gen_nd_allow_cond : list (string * string) := [\n")
	var conds []string
	for _, a := range allow {
		if a.Cond != "" {
			conds = append(conds, fmt.Sprintf("  (%s, %s)", q(a.Site), q(a.Cond)))
		}
	}
	o.WriteString(strings.Join(conds, ";\n"))
	o.WriteString("\n].\n")
	js, _ := json.MarshalIndent(sites, "", " ")
	write := func(path string, data []byte) {
		old, _ := os.ReadFile(path)
		if string(old) == string(data) {
			return
		}
		if err := os.WriteFile(path, data, 0o644); err != nil {
			die("%v", err)
		}
		fmt.Println("rewritten:", path)
	}
	write("/verif/coq/Gen/NdSites.v", []byte(o.String()))
	write("/verif/coq/Gen/NdSites.json", js)
	cnt := map[string]int{}
	for _, s := range sites {
		cnt[s.Kind+"/"+s.Class]++
	}
	fmt.Println("ndsites:", len(sites), "sites", cnt)
}
