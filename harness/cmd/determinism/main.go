package main

import (
	"encoding/json"
	"fmt"
	"os"
)

func main() {
	if len(os.Args) >= 4 && os.Args[1] == "-worker" {
		workerMain(os.Args[2], os.Args[3])
		return
	}
	// temporary: run one scenario inline
	scn := scenario{Name: "probe", Miners: 3, Sharders: 1, Blocks: []sblock{{Txns: []stxn{
		{From: "a1", SC: "faucet", Fn: "pour", Value: 0},
		{From: "owner", SC: "miner", Fn: "update_globals", Input: `{"fields":{"server_chain.block.max_block_size":"x","nope":"5","server_chain.owner":"aa"}}`},
		{From: "owner", SC: "faucet", Fn: "update-settings", Input: `{"fields":{"cost.pour":"5","pour_amount":"2"}}`},
		{From: "a2", SC: "miner", Fn: "addToDelegatePool", Value: 20000000000, Input: fmt.Sprintf(`{"provider_type":1,"provider_id":%q}`, mkNode(1, 0).id)},
	}}}}
	b, _ := json.MarshalIndent(runWorker(scn), "", " ")
	fmt.Println(string(b))
}
