(* Model of block notarization by verification tickets (property C31):
     chaincore/chain/protocol_block.go   VerifyNotarization, reachedNotarization, VerifyTickets,
                                         UpdateBlockNotarization, MergeVerificationTickets
     chaincore/block/entity.go           Block.MergeVerificationTickets
     miner/protocol_receive.go           processVerifyBlock, handleVerificationTicketMessage
     miner/round.go                      Round.AddVerificationTickets / GetVerificationTickets
   A ticket is (verifier, error term): verifiers 0 .. n-1 are the miners of the round's magic
   block, any other number is a node outside it (or a made-up id).  The error term is the
   discrete logarithm of (signature - verifier's signature on the block hash) in the idealised
   group of order p: Some 0 = the verifier's valid signature, Some d = off by d (such errors
   cancel in the aggregate check of VerifyTickets), None = not decodable / unrelated to the hash.
   threshold_by_stake is 0 (not modelled); the count threshold is the value the chain computes
   (GetNotarizationThresholdCount), an input here.  Definitions only (stdlib style). *)
From Coq Require Import List ZArith Bool Arith.
Import ListNotations.
Open Scope Z_scope.

Record nt_ticket := { nt_vid : nat; nt_err : option Z }.

Record nt_cfg := {
  nt_n : nat;          (* miners in the magic block of the round *)
  nt_by_count : bool;  (* threshold_by_count > 0 *)
  nt_thr : nat;        (* GetNotarizationThresholdCount(n) *)
  nt_p : Z             (* group order *)
}.

Definition nt_member (c : nt_cfg) (t : nt_ticket) : bool := Nat.ltb (nt_vid t) (nt_n c).
Definition nt_valid (c : nt_cfg) (t : nt_ticket) : bool :=
  nt_member c t && match nt_err t with Some 0 => true | _ => false end.

Definition nt_vids (ts : list nt_ticket) : list nat := map nt_vid ts.

Fixpoint nt_has_dup (l : list nat) : bool :=
  match l with
  | [] => false
  | x :: tl => existsb (Nat.eqb x) tl || nt_has_dup tl
  end.

(* reachedNotarization: counts the tickets it is given *)
Definition nt_reached (c : nt_cfg) (ts : list nt_ticket) : bool :=
  if nt_by_count c then Nat.leb (nt_thr c) (length ts) else true.

(* VerifyTickets: every verifier is a miner of the round's magic block, every signature decodes,
   and the aggregate e(sum sigs, g2) = prod e(H, pk_i) holds, i.e. the error terms sum to 0 *)
Definition nt_err_sum (c : nt_cfg) (ts : list nt_ticket) : option Z :=
  fold_right (fun t acc => match nt_err t, acc with
                           | Some d, Some s => Some ((d + s) mod nt_p c)
                           | _, _ => None
                           end) (Some 0) ts.

Definition nt_verify_tickets (c : nt_cfg) (ts : list nt_ticket) : bool :=
  match ts with
  | [] => false
  | _ => forallb (nt_member c) ts &&
         match nt_err_sum c ts with Some 0 => true | _ => false end
  end.

(* VerifyNotarization: no tickets / duplicate verifier / not enough / VerifyTickets *)
Definition nt_verify_notarization (c : nt_cfg) (ts : list nt_ticket) : bool :=
  match ts with
  | [] => false
  | _ => negb (nt_has_dup (nt_vids ts)) && nt_reached c ts && nt_verify_tickets c ts
  end.

(* handleVerificationTicketMessage: a ticket message is verified on its own and then kept in
   the round's store (a map keyed by signature) *)
Definition nt_same (a b : nt_ticket) : bool :=
  Nat.eqb (nt_vid a) (nt_vid b) &&
  match nt_err a, nt_err b with Some x, Some y => Z.eqb x y | None, None => true | _, _ => false end.

Definition nt_store_add (c : nt_cfg) (store : list nt_ticket) (t : nt_ticket) : list nt_ticket :=
  if nt_verify_tickets c [t] then (if existsb (nt_same t) store then store else store ++ [t])
  else store.

(* Block.MergeVerificationTickets: union by verifier id, the block's own tickets first *)
Fixpoint nt_union (have : list nat) (acc received : list nt_ticket) : list nt_ticket :=
  match received with
  | [] => acc
  | t :: tl => if existsb (Nat.eqb (nt_vid t)) have then nt_union have acc tl
               else nt_union (nt_vid t :: have) (acc ++ [t]) tl
  end.

Definition nt_merge (own received : list nt_ticket) : list nt_ticket :=
  match own, received with
  | [], _ => received
  | _, [] => own
  | _, _ => nt_union (nt_vids own) own received
  end.

(* processVerifyBlock: merge the round's stored tickets into the received block's own tickets and
   treat the block as notarized when reachedNotarization holds for the merged list *)
Definition nt_process_verify_block (c : nt_cfg) (own store : list nt_ticket) : bool :=
  nt_reached c (nt_merge own store).

(* Notarization message (notarizationProcess for a block held locally and not yet notarized):
   Block.UnknownTickets keeps the incoming tickets of verifiers the block has no ticket of, each
   verifier once (it records every ticket it keeps); if none is new the block's own tickets must
   pass VerifyNotarization; otherwise the new tickets are verified together (VerifyTickets), merged
   into the block (MergeNotarization) and reachedNotarization decides on the merged list. *)
Definition nt_unknown (own incoming : list nt_ticket) : list nt_ticket :=
  nt_union (nt_vids own) [] incoming.

Definition nt_notarization_merged (c : nt_cfg) (own incoming : list nt_ticket) : list nt_ticket :=
  match nt_unknown own incoming with
  | [] => own
  | vts => if nt_verify_tickets c vts then nt_merge own vts else own
  end.

Definition nt_notarization_process (c : nt_cfg) (own incoming : list nt_ticket) : bool :=
  match nt_unknown own incoming with
  | [] => nt_verify_notarization c own
  | vts => nt_verify_tickets c vts && nt_reached c (nt_merge own vts)
  end.

(* the property's measure: distinct miners of the round's magic block with a valid ticket *)
Fixpoint nt_dedup (l : list nat) : list nat :=
  match l with
  | [] => []
  | x :: tl => if existsb (Nat.eqb x) tl then nt_dedup tl else x :: nt_dedup tl
  end.

Definition nt_valid_miners (c : nt_cfg) (ts : list nt_ticket) : nat :=
  length (nt_dedup (nt_vids (filter (nt_valid c) ts))).

Definition nt_canon (c : nt_cfg) (ts : list nt_ticket) : Prop :=
  forall t d, In t ts -> nt_err t = Some d -> 0 <= d < nt_p c.
