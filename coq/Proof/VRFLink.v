(* Link between the executable VRF share verification over Z (Model/VRFZ.v, used by Corr/VRF.v)
   and the algebraic vrf_verify of Model/VRF.v: in every field F of characteristic p, with
   G1 = G2 = GT = F, g2 = 1, H(m) = 1, e = multiplication and phi the image of a natural number,
   vz_verify / vz_same are the images of vrf_verify / vrf_same, and the admission run over Z is
   the image of the algebraic run.  Mixed stdlib Z / MathComp file, like Proof/DKGLink.v. *)
From Coq Require Import ZArith List Lia.
From mathcomp Require Import all_ssreflect ssralg poly.
From ZC Require Import Model.DKG Model.DKGZ Model.VRFAdmit Model.VRF Model.VRFZ.
From ZC Require Import Proof.DKG Proof.DKGLink Proof.VRF.
Set Implicit Arguments.
Unset Strict Implicit.
Unset Printing Implicit Defensive.
Import GRing.Theory.
Local Open Scope ring_scope.

(* the admission control flow commutes with any map of shares that preserves its three tests *)
Section RunMap.
Variables (A B : Type) (f : A -> B).
Variables (tcA : A -> bool) (sameA : A -> A -> bool) (verA : A -> bool).
Variables (tcB : B -> bool) (sameB : B -> B -> bool) (verB : B -> bool).
Variable gd : A -> bool.
Hypothesis tcE : forall a, gd a -> tcB (f a) = tcA a.
Hypothesis sameE : forall a b, gd a -> gd b -> sameB (f a) (f b) = sameA a b.
Hypothesis verE : forall a, gd a -> verB (f a) = verA a.

Lemma vzl_add_map t st a :
  all gd st -> gd a ->
  va_add tcB sameB verB t (map f st) (f a) =
  (map f (va_add tcA sameA verA t st a).1, (va_add tcA sameA verA t st a).2) /\
  all gd (va_add tcA sameA verA t st a).1.
Proof.
move=> gst ga; rewrite /va_add tcE // verE //.
have -> : List.existsb (sameB (f a)) (map f st) = List.existsb (sameA a) st.
  elim: st gst => [|b st IH] //= /andP[gb gst]; rewrite sameE // IH //.
have -> : length (map f st) = length st by rewrite !vrf_lengthE size_map.
case: (tcA a) => //=; case: (List.existsb _ _) => //=; case: (Nat.leb _ _) => //=.
case: (verA a) => //=; split; first by rewrite !vrf_appE map_cat.
by rewrite vrf_appE all_cat gst /= ga.
Qed.

Lemma vzl_run_map t st evs :
  all gd st -> all gd evs ->
  va_run tcB sameB verB t (map f st) (map f evs) =
  (map f (va_run tcA sameA verA t st evs).1, (va_run tcA sameA verA t st evs).2).
Proof.
elim: evs st => [|a evs IH] st gst //= /andP[ga gevs].
have [-> gst1] := vzl_add_map t gst ga.
case: (va_add tcA sameA verA t st a) gst1 => st1 ok /= gst1.
by rewrite IH //; case: (va_run tcA sameA verA t st1 evs).
Qed.
End RunMap.

Section VRFLink.
Variable F : fieldType.
Variable p : Z.
Hypothesis p_gt1 : (1 < p)%Z.
Hypothesis charF : Z.to_nat p \in [char F].
Local Notation phi := (dzl_phi F).
Let V := [lmodType F of F^o].
Variable M : Type.
Variable m : M.
Let H := fun _ : M => (1 : V).
Let e := fun x y : V => (x * y : V).
Variable css : seq (seq F).                    (* the dealers' polynomials, in F *)
Let mpks := [seq dkg_mpk (1 : V) cs | cs <- css].

(* image of an event whose signature has a discrete logarithm *)
Definition vzl_ev (ev : vzc_ev) : vrf_ev V :=
  (vze_tc ev, (phi (vze_id ev), phi (match vze_dlog ev with Some d => d | None => 0%Z end) : V)).

(* events in the scope of the link: canonical id, a canonical discrete logarithm *)
Definition vzl_good (ev : vzc_ev) : bool :=
  dz_canon p (vze_id ev) && match vze_dlog ev with Some d => dz_canon p d | None => false end.

Lemma vzl_verify_regular (a b : F) :
  dkg_verify (1 : V) H e (dkg_pub (1 : V) a) m (b : V) = (b == a).
Proof. by rewrite /dkg_verify /dkg_pub /e /H /GRing.scale /= !mulr1 mul1r. Qed.

(* members: (party id, aggregated secret key); the keys are the images of the algebraic keys *)
Lemma vzl_verify_correct (members : list (Z * Z)) (ev : vzc_ev) :
  (forall q, List.In q members -> dzl_can p q.1 /\ dzl_can p q.2) ->
  (forall q, List.In q members -> phi q.2 = dkg_sk css (phi q.1)) ->
  vzl_good ev ->
  vz_verify members ev =
  vrf_verify (1 : V) H e mpks [seq phi q.1 | q <- members] m (vzl_ev ev).
Proof.
move=> hcan hsk /andP[/dzl_canon_can hid]; rewrite /vz_verify /vzl_ev /vrf_verify /=.
case: (vze_dlog ev) => [d|] // /dzl_canon_can hd.
rewrite /mpks dkg_gpk_at_mpks vzl_verify_regular /vz_sk.
elim: members hcan hsk => [|q members IH] hcan hsk //=.
have [cq1 cq2] := hcan q (or_introl erefl).
rewrite in_cons (dzl_phi_eqb p_gt1 charF cq1 hid) eq_sym.
case: eqP => [eqid|_] /=.
  by rewrite /dz_verify (dzl_phi_eqb p_gt1 charF hd cq2) (hsk q (or_introl erefl)) -eqid.
by apply: IH => q' hq'; [apply: hcan; right | apply: hsk; right].
Qed.

Lemma vzl_same_correct (a b : vzc_ev) :
  vzl_good a -> vzl_good b -> vrf_same (vzl_ev a) (vzl_ev b) = vz_same a b.
Proof.
move=> /andP[/dzl_canon_can ha _] /andP[/dzl_canon_can hb _].
by rewrite /vrf_same /vz_same /= (dzl_phi_eqb p_gt1 charF ha hb).
Qed.

(* the admission run of the correspondence check is the image of the algebraic run *)
Lemma vzl_run_correct (members : list (Z * Z)) (t : nat) (evs : list vzc_ev) :
  (forall q, List.In q members -> dzl_can p q.1 /\ dzl_can p q.2) ->
  (forall q, List.In q members -> phi q.2 = dkg_sk css (phi q.1)) ->
  all vzl_good evs ->
  let zr := va_run vze_tc vz_same (vz_verify members) t nil evs in
  vrf_run (1 : V) H e t mpks [seq phi q.1 | q <- members] m [::] (map vzl_ev evs) =
  (map vzl_ev zr.1, zr.2).
Proof.
move=> hcan hsk gevs /=; rewrite /vrf_run.
rewrite -[[::]]/(map vzl_ev [::]).
apply: (@vzl_run_map _ _ vzl_ev vze_tc vz_same (vz_verify members) _ _ _ vzl_good) => //.
- by move=> a b ga gb; rewrite vzl_same_correct.
- by move=> a ga; rewrite -vzl_verify_correct.
Qed.

End VRFLink.
