package main

// The specification view of the settings (what the property calls "known", "mutable", "parsable"),
// independent of the update code: names/types/mutability come from the declared Go tables, the
// meaning of "parsable at a type" from the Go standard library parsers.

import (
	"encoding/hex"
	"fmt"
	"math"
	"math/big"
	"strconv"
	"strings"
	"time"

	"0chain.net/core/config"
	"0chain.net/smartcontract/minersc"
	"0chain.net/smartcontract/storagesc"
	"github.com/0chain/common/core/currency"
	"github.com/0chain/common/core/statecache"
	"verifharness/vh"
)

func newStateCache() *statecache.StateCache { return statecache.NewStateCache() }

type sspec struct {
	kind    string // int int64 int32 duration float bool string strings coinI coin key cost coinU64 coinCast coinMult
	mutable bool
}

var kindOf = map[config.ConfigType]string{
	config.Int: "int", config.Int64: "int64", config.Int32: "int32", config.Duration: "duration", config.Float64: "float",
	config.Boolean: "bool", config.String: "string", config.CurrencyCoin: "coin", config.Key: "key", config.Cost: "cost",
	config.Strings: "strings",
}

var specs [nContracts]map[string]sspec

func buildSpecs() {
	g := map[string]sspec{}
	for name, info := range config.GlobalSettingInfo {
		kd := kindOf[info.SettingType]
		if kd == "coin" {
			kd = "coinI"
		}
		g[name] = sspec{kd, info.Mutable}
	}
	specs[kGlobals] = g
	m := map[string]sspec{}
	for name, s := range minersc.Settings {
		m[name] = sspec{kindOf[s.ConfigType], true}
	}
	specs[kMiner] = m
	st := map[string]sspec{}
	for _, name := range storagesc.SettingName {
		t, ok := storagesc.VerifGovSettingType(name)
		if !ok {
			panic("storagesc: SettingName " + name + " not in Settings")
		}
		st[name] = sspec{kindOf[t], true}
	}
	specs[kStorage] = st
	specs[kFaucet] = map[string]sspec{
		"pour_amount": {"coin", true}, "max_pour_amount": {"coin", true}, "periodic_limit": {"coin", true},
		"global_limit": {"coin", true}, "individual_reset": {"duration", true}, "global_rest": {"duration", true},
		"owner_id":             {"key", true},
		"cost.update-settings": {"cost+", true}, "cost.pour": {"cost+", true}, "cost.refill": {"cost+", true},
	}
	specs[kVesting] = map[string]sspec{
		"min_lock": {"coin", true}, "min_duration": {"duration", true}, "max_duration": {"duration", true},
		"max_destinations": {"int", true}, "max_description_length": {"int", true}, "owner_id": {"key", true},
		"cost.add": {"cost+", true}, "cost.delete": {"cost+", true}, "cost.stop": {"cost+", true},
		"cost.trigger": {"cost+", true}, "cost.unlock": {"cost+", true}, "cost.vestingsc-update-settings": {"cost+", true},
	}
	specs[kZcn] = map[string]sspec{
		"min_mint": {"coin", true}, "min_burn": {"coin", true}, "min_stake": {"coin", true},
		"min_stake_per_delegate": {"coin", true}, "max_stake": {"coin", true}, "percent_authorizers": {"float", true},
		"min_authorizers": {"int64", true}, "max_fee": {"coinCast", true}, "owner_id": {"string", true},
		"min_lock": {"coinU64", true}, "max_delegates": {"int", true}, "health_check_period": {"duration", true},
	}
}

// entry status under the specification
const (
	stValid     = "valid"
	stUnknown   = "unknown"
	stUnkCost   = "unknown-cost" // unlisted key with the cost. prefix
	stImmutable = "immutable"
	stUnparse   = "unparsable"
	stNonFinite = "nonfinite-coin" // NaN/Inf given to a coin setting
	stBadCast   = "bad-float-cast" // float outside the uint64 range given to a float->coin cast setting
)

type entry struct {
	K string `json:"k"`
	V string `json:"v"`
}

type evald struct {
	setting string // the setting the entry names (normalised key)
	status  string
	want    string // Coq st_val term expected to be stored when valid
}

func isASCIISpace(b byte) bool {
	return b == ' ' || b == '\t' || b == '\n' || b == '\v' || b == '\f' || b == '\r'
}

// specEval: what the entry means under the specification.
func specEval(k int, e entry) evald {
	key, val := e.K, e.V
	if k == kStorage {
		key, val = strings.TrimSpace(key), strings.TrimSpace(val)
	}
	if (k == kFaucet || k == kVesting) && strings.HasPrefix(key, "cost.") {
		key = "cost." + strings.ToLower(key[5:])
	}
	sp, ok := specs[k][key]
	if !ok {
		if (k == kMiner || k == kStorage) && strings.HasPrefix(key, "cost.") && len(key) > 5 {
			return evald{key, stUnkCost, ""}
		}
		return evald{key, stUnknown, ""}
	}
	if !sp.mutable {
		return evald{key, stImmutable, ""}
	}
	raw := svS(val)
	glob := k == kGlobals
	pick := func(typed string) string {
		if glob {
			return raw
		}
		return typed
	}
	bad := evald{key, stUnparse, ""}
	switch sp.kind {
	case "int", "int64":
		v, err := strconv.ParseInt(val, 10, 64)
		if err != nil {
			return bad
		}
		return evald{key, stValid, pick(svI(v))}
	case "int32":
		v, err := strconv.ParseInt(val, 10, 32)
		if err != nil {
			return bad
		}
		return evald{key, stValid, pick(svI(v))}
	case "cost", "cost+":
		v, err := strconv.Atoi(val)
		if err != nil || (sp.kind == "cost+" && v < 0) {
			return bad
		}
		return evald{key, stValid, svI(int64(v))}
	case "duration":
		d, err := time.ParseDuration(val)
		if err != nil {
			return bad
		}
		return evald{key, stValid, pick(svI(int64(d)))}
	case "float":
		f, err := strconv.ParseFloat(val, 64)
		if err != nil {
			return bad
		}
		if glob && (math.IsNaN(f) || math.IsInf(f, 0)) {
			return bad // a chain global must be a finite number (config.StringToInterface)
		}
		return evald{key, stValid, pick(svF(f))}
	case "bool":
		b, err := strconv.ParseBool(val)
		if err != nil {
			return bad
		}
		return evald{key, stValid, pick(svB(b))}
	case "string", "strings":
		return evald{key, stValid, raw}
	case "key":
		if _, err := hex.DecodeString(val); err != nil {
			return bad
		}
		return evald{key, stValid, raw}
	case "coinI":
		v, err := strconv.ParseInt(val, 10, 64)
		if err != nil || v < 0 {
			return bad
		}
		return evald{key, stValid, raw}
	case "coinU64":
		v, err := strconv.ParseUint(val, 10, 64)
		if err != nil {
			return bad
		}
		return evald{key, stValid, svU(v)}
	case "coin":
		f, err := strconv.ParseFloat(val, 64)
		if err != nil {
			return bad
		}
		if math.IsNaN(f) || math.IsInf(f, 0) {
			return evald{key, stNonFinite, ""}
		}
		c, err := currency.ParseZCN(f)
		if err != nil {
			return bad
		}
		return evald{key, stValid, svU(uint64(c))}
	case "coinCast", "coinMult":
		f, err := strconv.ParseFloat(val, 64)
		if err != nil {
			return bad
		}
		g := f
		if sp.kind == "coinMult" {
			g = float64(1e10) * f
		}
		if math.IsNaN(g) || g < 0 || g >= 18446744073709551616.0 {
			if sp.kind == "coinMult" && f < 0 {
				return bad // MultFloat64 rejects negatives
			}
			return evald{key, stBadCast, ""}
		}
		return evald{key, stValid, svU(uint64(g))}
	}
	panic("unknown kind " + sp.kind)
}

// ---- parse oracle for the Coq model: results of the library parsers on the (trimmed, for storagesc) value ----

func optZ(ok bool, z *big.Int) string {
	if !ok {
		return "None"
	}
	if z.Sign() < 0 {
		return "(Some (" + z.String() + "))"
	}
	return "(Some " + z.String() + ")"
}

func castU64(f float64) (u uint64) {
	defer func() { _ = recover() }()
	return uint64(f)
}

func coqPO(val string) string {
	i, ei := strconv.ParseInt(val, 10, 64)
	i32, e32 := strconv.ParseInt(val, 10, 32)
	d, ed := time.ParseDuration(val)
	f, ef := strconv.ParseFloat(val, 64)
	b, eb := strconv.ParseBool(val)
	_, eh := hex.DecodeString(val)
	u, eu := strconv.ParseUint(val, 10, 64)
	zcn, cast, mult := "ZcnErr", "0", "None"
	if ef == nil {
		func() {
			defer func() {
				if r := recover(); r != nil {
					zcn = "ZcnPanic"
				}
			}()
			c, err := currency.ParseZCN(f)
			if err == nil {
				zcn = fmt.Sprintf("(ZcnOk %d)", uint64(c))
			}
		}()
		cast = fmt.Sprintf("%d", castU64(f))
		if m, err := currency.MultFloat64(1e10, f); err == nil {
			mult = fmt.Sprintf("(Some %d)", uint64(m))
		}
	}
	ob := "None"
	if eb == nil {
		ob = "(Some " + vh.Bool(b) + ")"
	}
	return fmt.Sprintf("(Build_st_po %s %s %s %s %s %s %s %s %s %s)",
		optZ(ei == nil, big.NewInt(i)), optZ(e32 == nil, big.NewInt(i32)), optZ(ed == nil, big.NewInt(int64(d))),
		optZ(ef == nil, new(big.Int).SetUint64(math.Float64bits(f))), ob, vh.Bool(eh == nil),
		optZ(eu == nil, new(big.Int).SetUint64(u)), zcn, cast, mult)
}

func coqEntry(k int, e entry) string {
	v := e.V
	if k == kStorage {
		v = strings.TrimSpace(v)
	}
	// e_val is the raw value (what the pending-changes node keeps); e_po is the parsers' view of the value handed to set()
	return fmt.Sprintf("(Build_st_entry %s %s %s)", vh.Str(e.K), vh.Str(e.V), coqPO(v))
}
