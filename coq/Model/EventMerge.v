(* Model of the per-block event merge of the query DB (property C20):
     mergeEvents, eventsMergerImpl.filter/merge, withUniqueEventOverwrite, withEventMerge
       smartcontract/dbs/event/process.go, merger.go
     and of the handlers of the three bridge tags in EventDb.addStat (process.go), addBurnTicket (burn_ticket.go).
   The merger table (tag, middleware kind, in list order) is Gen/EventMergers.v.
   Definitions only. Event data is abstracted to a list of (key, amount) items: a burn ticket is
   (ticket hash, amount), an authorizer burn (burner, amount), a bridge mint (user, amount), a stake lock
   (client, amount) ...; every withEventMerge function of the package adds the amounts of the two events. *)
From Coq Require Export ZArith Bool Lia.
From ZC Require Export Model.EventMergeTypes Gen.EventMergers.
Open Scope Z_scope.

Inductive em_type := EtStats | EtChain | EtOther.   (* TypeStats, TypeChain, anything else *)

Definition em_item : Type := (Z * Z)%type.           (* key, amount *)

Record em_event := {
  ev_type : em_type;
  ev_tag : string;
  ev_index : Z;              (* Event.Index as a token *)
  ev_data : list em_item     (* one item for a single datum, several for a slice *)
}.

Definition em_unique_address : string := "TagUniqueAddress".

(* ---------- middlewares ---------- *)

(* withUniqueEventOverwrite: eMap[e.Index] = e for each event, then the map values (in map order; the
   model lists them by first occurrence of the index - consumers only see a set) *)
Fixpoint em_last (idx : Z) (es : list em_event) (dflt : em_event) : em_event :=
  match es with
  | [] => dflt
  | e :: tl => if Z.eqb (ev_index e) idx then em_last idx tl e else em_last idx tl dflt
  end.

Fixpoint em_indices (es : list em_event) (seen : list Z) : list Z :=
  match es with
  | [] => []
  | e :: tl => if existsb (Z.eqb (ev_index e)) seen then em_indices tl seen
               else ev_index e :: em_indices tl (ev_index e :: seen)
  end.

Definition em_overwrite (es : list em_event) : list em_event :=
  match es with
  | [] => []
  | d :: _ => map (fun i => em_last i es d) (em_indices es [])
  end.

(* withEventMerge f with f = "add the amounts": the first event of an index absorbs the later ones.
   Items are added position-wise (single-datum events have one item) *)
Fixpoint em_add_items (a b : list em_item) : list em_item :=
  match a, b with
  | (k, x) :: ta, (_, y) :: tb => (k, x + y) :: em_add_items ta tb
  | _, [] => a
  | [], _ => []
  end.

Fixpoint em_fold_index (idx : Z) (es : list em_event) (acc : option em_event) : option em_event :=
  match es with
  | [] => acc
  | e :: tl =>
      if Z.eqb (ev_index e) idx then
        match acc with
        | None => em_fold_index idx tl (Some e)
        | Some a => em_fold_index idx tl (Some {| ev_type := ev_type a; ev_tag := ev_tag a; ev_index := ev_index a;
                                                  ev_data := em_add_items (ev_data a) (ev_data e) |})
        end
      else em_fold_index idx tl acc
  end.

Definition em_merge (es : list em_event) : list em_event :=
  flat_map (fun i => match em_fold_index i es None with Some e => [e] | None => [] end) (em_indices es []).

Definition em_apply (k : em_kind) (es : list em_event) : list em_event :=
  match k with EmOverwrite => em_overwrite es | EmMerge => em_merge es | EmKeep => es end.

(* ---------- mergeEvents ---------- *)

Fixpoint em_has_merger (tbl : list (string * em_kind)) (tag : string) : bool :=
  match tbl with
  | [] => false
  | (t, _) :: tl => if String.eqb t tag then true else em_has_merger tl tag
  end.

(* events that go around the mergers: chain events, unique-address events, stats events without a merger;
   events of any other type are dropped *)
Definition em_is_other (tbl : list (string * em_kind)) (e : em_event) : bool :=
  match ev_type e with
  | EtChain => true
  | _ => if String.eqb (ev_tag e) em_unique_address then true
         else match ev_type e with
              | EtStats => negb (em_has_merger tbl (ev_tag e))
              | _ => false
              end
  end.

Definition em_taken (tag : string) (e : em_event) : bool :=
  match ev_type e with
  | EtStats => (String.eqb (ev_tag e) tag && negb (String.eqb (ev_tag e) em_unique_address))%bool
  | _ => false
  end.

(* one merged event per merger that saw events: tag, all data items of the surviving events *)
Definition em_merged_of (events : list em_event) (m : string * em_kind) : list (string * list em_item) :=
  match filter (em_taken (fst m)) events with
  | [] => []
  | es => [(fst m, flat_map ev_data (em_apply (snd m) es))]
  end.

Definition em_merge_events (tbl : list (string * em_kind)) (events : list em_event)
  : list (string * list em_item) * list em_event :=
  (flat_map (em_merged_of events) tbl, filter (em_is_other tbl) events).

(* ---------- handlers of the bridge tags ---------- *)

(* TagAddBurnTicket: the handler calls addBurnTicket for every ticket of the merged event - one row each *)
Definition em_burn_tickets_stored (merged : list em_item) : list em_item := merged.

(* TagAuthorizerBurn: total_burn of the burner += amount, for every item of the merged event *)
Fixpoint em_total (key : Z) (items : list em_item) : Z :=
  match items with
  | [] => 0
  | (k, x) :: tl => (if Z.eqb k key then x else 0) + em_total key tl
  end.

Definition em_sum (items : list em_item) : Z := fold_right (fun i s => snd i + s) 0 items.

(* tags whose effect is append-only (a row per event) or additive (a total): every event must count *)
Definition em_bridge_tags : list string := ["TagAddBurnTicket"; "TagAuthorizerBurn"; "TagAddBridgeMint"].

(* ---------- field-wise model of the withEventMerge functions that add (MfAdd in Gen/EventMergers.v) ---------- *)

(* The payload of an event of such a tag is a list of fields in the order of the generated table; a field is a map
   subkey -> amount in insertion order. A scalar field (Reward, Amount, SavedData ...) is the one-entry map [(0, x)];
   a map field (DelegateRewards, DelegatePenalties: pool id -> coin) has one entry per key. *)
Definition emf_map : Type := list (Z * Z).
Definition emf_payload : Type := list emf_map.
Record emf_event := { fe_index : Z; fe_fields : emf_payload }.

(* a.F[k] += v, or a.F[k] = v when k is new *)
Fixpoint emf_map_add1 (a : emf_map) (k v : Z) : emf_map :=
  match a with
  | [] => [(k, v)]
  | (k', x) :: tl => if Z.eqb k' k then (k', x + v) :: tl else (k', x) :: emf_map_add1 tl k v
  end.

(* for k, v := range b.F { ... } *)
Definition emf_map_add (a b : emf_map) : emf_map := fold_left (fun acc kv => emf_map_add1 acc (fst kv) (snd kv)) b a.

(* the merge function: every field of b is added to the same field of a *)
Fixpoint emf_add (a b : emf_payload) : emf_payload :=
  match a, b with
  | fa :: ta, fb :: tb => emf_map_add fa fb :: emf_add ta tb
  | _, _ => a
  end.

(* withEventMerge: the first event of an index absorbs the later ones *)
Fixpoint emf_fold (idx : Z) (es : list emf_event) (acc : option emf_event) : option emf_event :=
  match es with
  | [] => acc
  | e :: tl =>
      if Z.eqb (fe_index e) idx then
        match acc with
        | None => emf_fold idx tl (Some e)
        | Some a => emf_fold idx tl (Some {| fe_index := fe_index a; fe_fields := emf_add (fe_fields a) (fe_fields e) |})
        end
      else emf_fold idx tl acc
  end.

Fixpoint emf_indices (es : list emf_event) (seen : list Z) : list Z :=
  match es with
  | [] => []
  | e :: tl => if existsb (Z.eqb (fe_index e)) seen then emf_indices tl seen
               else fe_index e :: emf_indices tl (fe_index e :: seen)
  end.

Definition emf_merge (es : list emf_event) : list emf_event :=
  flat_map (fun i => match emf_fold i es None with Some e => [e] | None => [] end) (emf_indices es []).

(* what the handlers consume: the total of subkey k in field f over the events with index idx *)
Fixpoint emf_total (k : Z) (m : emf_map) : Z :=
  match m with
  | [] => 0
  | (k', x) :: tl => (if Z.eqb k' k then x else 0) + emf_total k tl
  end.

Definition emf_field (f : nat) (p : emf_payload) : emf_map := nth f p [].

Fixpoint emf_idx_total (f : nat) (k idx : Z) (es : list emf_event) : Z :=
  match es with
  | [] => 0
  | e :: tl => (if Z.eqb (fe_index e) idx then emf_total k (emf_field f (fe_fields e)) else 0) + emf_idx_total f k idx tl
  end.

(* ---------- the merge functions of the generated table ---------- *)

Fixpoint em_fn_of (tbl : list (string * em_fn)) (tag : string) : option em_fn :=
  match tbl with
  | [] => None
  | (t, f) :: tl => if String.eqb t tag then Some f else em_fn_of tl tag
  end.

(* The tags whose handler adds what the event carries to a stored total (blobber stats, challenge counters,
   stake pool rewards per provider and per delegate pool, user aggregates): the merge function must add every
   field the handler consumes. *)
Definition em_additive_spec : list (string * list (string * em_field_kind)) := [
  ("TagAddChallengeToAllocation", [("OpenChallenges", FScalar); ("TotalChallenges", FScalar)]);
  ("TagUpdateBlobberChallenge", [("CompletedDelta", FScalar); ("PassedDelta", FScalar); ("OpenDelta", FScalar)]);
  ("TagStakePoolReward", [("Reward", FScalar); ("DelegateRewards", FMap); ("DelegatePenalties", FMap)]);
  ("TagUpdateBlobberStat", [("SavedData", FScalar); ("ReadData", FScalar)]);
  ("TagUpdateUserCollectedRewards", [("CollectedReward", FScalar)]);
  ("TagLockStakePool", [("Amount", FScalar)]);
  ("TagUnlockStakePool", [("Amount", FScalar)]);
  ("TagLockReadPool", [("Amount", FScalar)]);
  ("TagUnlockReadPool", [("Amount", FScalar)]);
  ("TagLockWritePool", [("Amount", FScalar)]);
  ("TagUnlockWritePool", [("Amount", FScalar)]);
  ("TagUpdateUserPayedFees", [("PayedFees", FScalar)])
].

(* TagStakePoolPenalty: the handler adds the delegate penalties to the pools, but the merger of the checked tree may
   still use the overwrite middleware (engine signature C20:stake-pool-penalty-overwritten-in-merge). When it is
   merged by withEventMerge, the function must be the field-wise addition of the stake pool reward. *)
Definition em_additive_optional : list (string * list (string * em_field_kind)) := [
  ("TagStakePoolPenalty", [("Reward", FScalar); ("DelegateRewards", FMap); ("DelegatePenalties", FMap)])
].

(* withEventMerge mergers that replace by key instead of adding (allocation blobber terms: the later term of a blobber wins) *)
Definition em_keyed_replace_tags : list string :=
  ["TagUpdateAllocationBlobberTerm"; "TagAddOrOverwriteAllocationBlobberTerm"; "TagDeleteAllocationBlobberTerm"].

Definition em_field_kind_eqb (a b : em_field_kind) : bool :=
  match a, b with FScalar, FScalar => true | FMap, FMap => true | _, _ => false end.

Fixpoint em_fields_eqb (a b : list (string * em_field_kind)) : bool :=
  match a, b with
  | [], [] => true
  | (n, k) :: ta, (n', k') :: tb => (String.eqb n n' && em_field_kind_eqb k k' && em_fields_eqb ta tb)%bool
  | _, _ => false
  end.

(* every tag of the spec is merged by withEventMerge with exactly the listed additions *)
Definition em_spec_holds (kinds : list (string * em_kind)) (fns : list (string * em_fn)) : bool :=
  forallb (fun s => (existsb (fun m => (String.eqb (fst m) (fst s) && match snd m with EmMerge => true | _ => false end)%bool) kinds &&
                     match em_fn_of fns (fst s) with
                     | Some (MfAdd fs) => em_fields_eqb fs (snd s)
                     | _ => false
                     end)%bool) em_additive_spec &&
  forallb (fun s => match em_fn_of fns (fst s) with
                    | Some (MfAdd fs) => em_fields_eqb fs (snd s)
                    | Some MfOther => false
                    | None => true
                    end) em_additive_optional.

(* every withEventMerge merger of the table is in the spec or is one of the keyed-replace tags *)
Definition em_merge_tags_covered (kinds : list (string * em_kind)) : bool :=
  forallb (fun m => match snd m with
                    | EmMerge => (existsb (fun s => String.eqb (fst s) (fst m)) em_additive_spec ||
                                  existsb (fun s => String.eqb (fst s) (fst m)) em_additive_optional ||
                                  existsb (String.eqb (fst m)) em_keyed_replace_tags)%bool
                    | _ => true
                    end) kinds.
