// C19 part of the zcn engine: burn histories on the real zcnsc contract.
package main

import (
	"encoding/json"
	"fmt"
	"time"

	cstate "0chain.net/chaincore/chain/state"
	"0chain.net/core/encryption"
	"0chain.net/smartcontract/zcnsc"
	"github.com/0chain/common/core/currency"
	"github.com/0chain/common/core/util"
	"verifharness/ct"
	"verifharness/sc"
	"verifharness/vh"
)

type seedNonce struct {
	A int   `json:"a"`
	N int64 `json:"n"`
}

type burnOp struct {
	K     string `json:"k"` // burn|setmin
	C     int    `json:"c"`
	V     uint64 `json:"v"`
	P     string `json:"p,omitempty"` // addr|empty|missing|malformed|wrongtype|nil
	A     int    `json:"a,omitempty"`
	Owner bool   `json:"owner,omitempty"`
	Bad   bool   `json:"bad,omitempty"`
}

type burnHist struct {
	Min         uint64      `json:"min"`
	Seed        []seedNonce `json:"seed,omitempty"`
	Unreachable bool        `json:"unreachable,omitempty"` // seeded nonce 2^63-1: compared with the model, not judged
	Ops         []burnOp    `json:"ops"`
}

var zcnOwner = encryption.Hash("verif zcn owner")

// ethAddr: raw target strings in spelling families. The contract keys the burn nonce by the exact string, so
// every spelling is an address of its own: 0 plain; 1/2 the same digits in mixed / lower case; 3-6 the plain
// address with a leading space, trailing space, leading tab, trailing newline; 7 another address
func ethAddr(i int) string {
	const plain = "0xAbCdEf0000000000000000000000000000000001"
	switch i {
	case 0:
		return plain
	case 1:
		return "0xABCDEF0000000000000000000000000000000001"
	case 2:
		return "0xabcdef0000000000000000000000000000000001"
	case 3:
		return " " + plain
	case 4:
		return plain + " "
	case 5:
		return "\t" + plain
	case 6:
		return plain + "\n"
	}
	return fmt.Sprintf("0x%040x", 0x5000+i)
}

func newGlobal(minBurn uint64) *zcnsc.GlobalNode {
	return &zcnsc.GlobalNode{ID: zcnsc.ADDRESS, ZCNSConfig: &zcnsc.ZCNSConfig{
		MinMintAmount: 1, MinBurnAmount: currency.Coin(minBurn), MinStakeAmount: 1, MinStakePerDelegate: 1, MaxStakeAmount: 1000,
		MinLockAmount: 1, MinAuthorizers: 1, PercentAuthorizers: 0.7, MaxFee: 100, OwnerId: zcnOwner, Cost: map[string]int{},
		MaxDelegates: 10, HealthCheckPeriod: time.Hour}}
}

func userNonce(ctx *cstate.StateContext, addr string) int64 {
	un, err := zcnsc.GetUserNode(addr, ctx)
	if err != nil {
		panic(err)
	}
	return un.BurnNonce
}

type burnRes struct {
	outs  []string
	final []string
	fail  string
	kinds map[string]int
}

func runBurn(h burnHist) burnRes {
	res := burnRes{kinds: map[string]int{}}
	base := sc.NewMPT()
	setup := sc.NewCtx(base, 1, sc.Txn(encryption.Hash("setup"), zcnOwner, zcnsc.ADDRESS, 0, 0))
	if err := newGlobal(h.Min).Save(setup); err != nil {
		panic(err)
	}
	addrs := map[int]bool{}
	for _, s := range h.Seed {
		un := zcnsc.NewUserNode(ethAddr(s.A))
		un.BurnNonce = s.N
		if err := un.Save(setup); err != nil {
			panic(err)
		}
		addrs[s.A] = true
	}
	for _, o := range h.Ops {
		if o.K == "burn" && o.P == "addr" {
			addrs[o.A] = true
		}
	}
	setFail := func(k string) {
		if res.fail == "" && !h.Unreachable {
			res.fail = k
		}
	}
	for i, o := range h.Ops {
		sender := ct.ID("zcn client", o.C)
		if o.K == "setmin" && o.Owner {
			sender = zcnOwner
		}
		txn := sc.Txn(encryption.Hash(fmt.Sprintf("burn txn %d", i)), sender, zcnsc.ADDRESS, o.V, int64(1000+i))
		tm := ct.Begin(base)
		ctx := sc.NewCtx(tm, int64(i+2), txn)
		before := map[int]int64{}
		pre := sc.NewCtx(base, int64(i+2), txn)
		for a := range addrs {
			before[a] = userNonce(pre, ethAddr(a))
		}
		gn, err := zcnsc.GetGlobalNode(pre)
		if err != nil {
			panic(err)
		}
		if o.K == "setmin" {
			val := fmt.Sprintf("%d.%010d", o.V/10000000000, o.V%10000000000)
			if o.Bad {
				val = "1e"
			}
			input, _ := json.Marshal(map[string]interface{}{"fields": map[string]string{"min_burn": val}})
			_, err := contract.Execute(txn, zcnsc.UpdateGlobalConfigFunc, input, ctx)
			if err != nil {
				res.outs = append(res.outs, "ZbFail")
				res.kinds["setmin-refused"]++
				continue
			}
			ct.Commit(base, tm)
			res.outs = append(res.outs, "ZbUpdated")
			res.kinds["setmin-ok"]++
			continue
		}
		var input []byte
		hasAddr := false
		switch o.P {
		case "addr":
			input, _ = json.Marshal(map[string]string{"ethereum_address": ethAddr(o.A)})
			hasAddr = true
		case "empty":
			input = []byte(`{"ethereum_address":""}`)
		case "missing":
			input = []byte(`{"nonce":5}`)
		case "malformed":
			input = []byte(`{"ethereum_address":"0x1`)
		case "wrongtype":
			input = []byte(`{"ethereum_address":17}`)
		case "nil":
			input = nil
		}
		resp, err := contract.Execute(txn, zcnsc.BurnFunc, input, ctx)
		transfers := ctx.GetTransfers()
		legit := o.V >= uint64(gn.MinBurnAmount) && hasAddr
		if err != nil {
			res.outs = append(res.outs, "ZbFail")
			res.kinds["burn-refused-"+map[bool]string{true: "below-min", false: "payload"}[o.V < uint64(gn.MinBurnAmount)]]++
			if legit {
				setFail("valid-burn-refused")
			}
			// refused: the chain drops the transaction trie and its transfers; nothing to commit
			post := sc.NewCtx(base, int64(i+2), txn)
			for a := range addrs {
				if userNonce(post, ethAddr(a)) != before[a] {
					setFail("refused-burn-changed-nonce")
				}
			}
			continue
		}
		ct.Commit(base, tm)
		res.kinds["burn-ok"]++
		if !legit {
			if o.V < uint64(gn.MinBurnAmount) {
				setFail("burn-below-minimum-accepted")
			} else {
				setFail("burn-without-address-accepted")
			}
		}
		var r zcnsc.BurnPayloadResponse
		if e := r.Decode([]byte(resp)); e != nil {
			setFail("response-not-decodable")
		}
		tr := make([]string, len(transfers))
		for j, t := range transfers {
			tr[j] = fmt.Sprintf("(%s, %s, %d)", who(t.ClientID), who(t.ToClientID), uint64(t.Amount))
		}
		if len(transfers) != 1 || transfers[0].ClientID != sender || transfers[0].ToClientID != zcnsc.ADDRESS || uint64(transfers[0].Amount) != o.V {
			setFail("burn-does-not-move-exactly-the-value-to-the-contract-wallet")
		}
		post := sc.NewCtx(base, int64(i+2), txn)
		target := -1
		if hasAddr {
			target = o.A
		}
		for a := range addrs {
			n := userNonce(post, ethAddr(a))
			if a == target {
				if before[a] == 1<<63-1 || n != before[a]+1 {
					setFail("burn-nonce-not-plus-one")
				}
				if r.Nonce != n {
					setFail("reported-nonce-differs-from-stored")
				}
			} else if n != before[a] {
				setFail("burn-changed-other-address-nonce")
			}
		}
		if before[target] > 0 {
			res.kinds["burn-ok-repeated-address"]++
		}
		res.outs = append(res.outs, fmt.Sprintf("(ZbBurned %s %d %s)", vh.List(tr), target, vh.Z(r.Nonce)))
	}
	post := sc.NewCtx(base, 1, sc.Txn(encryption.Hash("final"), zcnOwner, zcnsc.ADDRESS, 0, 0))
	for a := 0; a < 8; a++ {
		if addrs[a] {
			res.final = append(res.final, vh.Pair(fmt.Sprint(a), vh.Z(userNonce(post, ethAddr(a)))))
		}
	}
	return res
}

// who maps a wallet id to the model's token: client index, -1 for the contract wallet, -2 otherwise
func who(id string) string {
	if id == zcnsc.ADDRESS {
		return "zb_wallet"
	}
	for i := 0; i < 8; i++ {
		if id == ct.ID("zcn client", i) {
			return fmt.Sprint(i)
		}
	}
	return "(-2)"
}

func burnCase(h burnHist, r burnRes) string {
	ops := make([]string, len(h.Ops))
	for i, o := range h.Ops {
		if o.K == "setmin" {
			ops[i] = fmt.Sprintf("ZbSetMin %s %s %d", vh.Bool(o.Owner), vh.Bool(!o.Bad), o.V)
			continue
		}
		p := "ZbMalformed"
		switch o.P {
		case "addr":
			p = fmt.Sprintf("(ZbAddress %d)", o.A)
		case "empty", "missing":
			p = "ZbEmptyAddress"
		}
		ops[i] = fmt.Sprintf("ZbBurn %d %d %s", o.C, o.V, p)
	}
	seed := make([]string, len(h.Seed))
	for i, s := range h.Seed {
		seed[i] = vh.Pair(fmt.Sprint(s.A), vh.Z(s.N))
	}
	return fmt.Sprintf("{| zbc_min := %d; zbc_seed := %s; zbc_ops := %s; zbc_outs := %s; zbc_final := %s |}",
		h.Min, vh.List(seed), vh.List(ops), vh.List(r.outs), vh.List(r.final))
}

func genBurn(r *vh.Rand) burnHist {
	h := burnHist{Min: uint64(r.Range(0, 20))}
	if r.Chance(1, 6) {
		h.Min = r.PickU64([]uint64{0, 1, 1 << 53, 1<<63 - 1, 1 << 63, 1<<64 - 1, 4000000000000000000})
	}
	if r.Chance(1, 5) {
		h.Seed = append(h.Seed, seedNonce{r.Intn(8), r.Pick64([]int64{1, 41, 1<<31 - 1, 1 << 32, 1<<53 + 1, 1<<63 - 40})})
	}
	cur := h.Min
	n := r.Range(1, 25)
	for i := 0; i < n; i++ {
		if r.Chance(1, 8) {
			o := burnOp{K: "setmin", C: r.Intn(3), V: uint64(r.Range(0, 30)), Owner: !r.Chance(1, 5), Bad: r.Chance(1, 8)}
			h.Ops = append(h.Ops, o)
			if o.Owner && !o.Bad && o.V >= 1 {
				cur = o.V
			}
			continue
		}
		o := burnOp{K: "burn", C: r.Intn(4), A: r.Intn(8)}
		if r.Chance(1, 2) {
			o.A = []int{0, 0, 3, 4, 5, 6, 1}[r.Intn(7)] // stay inside one spelling family
		}
		o.V = r.PickU64([]uint64{0, 1, cur - 1, cur, cur, cur + 1, cur + 1, cur + 100, 1 << 53, 1<<53 + 1, 1 << 63, 1<<64 - 1, 4000000000000000000})
		switch x := r.Intn(20); {
		case x < 14:
			o.P = "addr"
		default:
			o.P = []string{"empty", "missing", "malformed", "wrongtype", "nil", "empty"}[x-14]
		}
		h.Ops = append(h.Ops, o)
	}
	return h
}

func subBurn(h burnHist, keep []int) burnHist {
	h2 := burnHist{Min: h.Min, Seed: h.Seed, Unreachable: h.Unreachable}
	for _, i := range keep {
		h2.Ops = append(h2.Ops, h.Ops[i])
	}
	return h2
}

func mainBurn(o vh.Opts) {
	rep := vh.NewReport("zcn", "C19", o)
	rep.Rule = "random histories of 1-25 requests on the real zcnsc Execute (burn by 4 clients to 8 target strings in spelling families (plain, upper/lower case, leading/trailing space, tab, newline, another address), interleaved; " +
		"30% without a usable address: empty, missing field, malformed JSON, wrong type, nil input; values 0, 1, min-1, min, min+1, 2^53+1, 2^63, 2^64-1, MaxTokenSupply; " +
		"1 in 8 update-global-config of min_burn by owner/stranger/unparsable; 1 in 5 histories start from a seeded nonce up to 2^63-40), each request in a " +
		"transaction trie merged only on success like chain.updateState; non-trivial = a burn succeeded on an address burned to before and a burn was refused; distinct by full history"
	cf := &vh.CasesFile{Imports: []string{"Base.Corr", "Model.ZcnBurn", "Corr.ZcnBurn"}, CaseType: "zb_case", CheckFn: "zb_check"}
	handle := func(h burnHist) {
		res := runBurn(h)
		for k, n := range res.kinds {
			rep.CountN(k, n)
		}
		b, _ := json.Marshal(h)
		rep.Case(string(b), res.kinds["burn-ok-repeated-address"] > 0 && res.kinds["burn-refused-below-min"]+res.kinds["burn-refused-payload"] > 0, h)
		cf.Add(burnCase(h, res))
		rep.CaseInputs = append(rep.CaseInputs, h)
		if res.fail != "" {
			keep := vh.ShrinkIdx(len(h.Ops), func(keep []int) bool { return runBurn(subBurn(h, keep)).fail == res.fail })
			rep.Violate("C19:"+res.fail, "bridge burn: "+res.fail, subBurn(h, keep))
		}
	}
	finish := func() {
		files, err := cf.Write(o.Out, "C19")
		if err != nil {
			panic(err)
		}
		rep.CaseFiles = files
		rep.ShardSize = 400
		rep.Write(o.Out)
	}
	var rh burnHist
	if o.LoadReplay(&rh) {
		rep.Note("replay of one history")
		handle(rh)
		finish()
		return
	}
	// directed: int64 wrap of the nonce (state not reachable by burns; model comparison only), letter case of addresses
	handle(burnHist{Min: 1, Seed: []seedNonce{{0, 1<<63 - 1}}, Unreachable: true, Ops: []burnOp{{K: "burn", C: 0, V: 5, P: "addr", A: 0}, {K: "burn", C: 0, V: 5, P: "addr", A: 0}}})
	handle(burnHist{Min: 1, Seed: []seedNonce{{0, 1<<63 - 2}}, Ops: []burnOp{{K: "burn", C: 0, V: 5, P: "addr", A: 0}}})
	handle(burnHist{Min: 1, Ops: []burnOp{{K: "burn", C: 0, V: 5, P: "addr", A: 0}, {K: "burn", C: 0, V: 5, P: "addr", A: 0}, {K: "burn", C: 1, V: 5, P: "addr", A: 0},
		{K: "burn", C: 1, V: 5, P: "addr", A: 3}, {K: "burn", C: 1, V: 5, P: "addr", A: 6}, {K: "burn", C: 2, V: 5, P: "addr", A: 0}, {K: "burn", C: 2, V: 5, P: "addr", A: 4}, {K: "burn", C: 2, V: 5, P: "addr", A: 3}}})
	handle(burnHist{Min: 3, Ops: []burnOp{{K: "burn", C: 0, V: 3, P: "addr", A: 1}, {K: "burn", C: 1, V: 3, P: "addr", A: 2}, {K: "burn", C: 1, V: 2, P: "addr", A: 2}, {K: "burn", C: 0, V: 4, P: "addr", A: 1}}})
	rnd := vh.NewRand(o.Seed).Fork() // Fork: NewRand(k) is NewRand(1) shifted by k-1 draws
	for i := 0; i < o.N(500, 6000); i++ {
		handle(genBurn(rnd))
	}
	rep.Note("directed: nonce at 2^63-2 and (model comparison only) at 2^63-1 where ++ wraps; addresses differing only in letter case have separate nonces (the contract keys by the raw string)")
	finish()
}

var _ = util.ToHex
