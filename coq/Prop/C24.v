(* C24: free-storage grants stay within assigner limits and redeem once.
   Statements only; proofs in Proof/StorageFree.v.  [ss_free_alloc] models freeAllocationRequest
   (freeStorageAssigner.validate, the recipient check, newAllocationRequestInternal funded by
   conf.OwnerId, RedeemedNonces/CurrentRedeemed, the read-pool credit); [sig_ok] is the outcome of
   verifyFreeAllocationRequestNew under the registered assigner key and [coin] the result of
   currency.ParseZCN(marker.FreeTokens), both recorded from the run. *)
From Coq Require Import ZArith List Bool.
From ZC Require Import Model.F64 Model.Storage Proof.StorageUtil Proof.StorageFrame Proof.StorageFree Proof.StorageWitness.
Import ListNotations.
Open Scope Z_scope.

(* A redemption succeeds only for the marker's recipient, with a valid signature of a registered
   assigner, a nonce not redeemed before, a grant within the individual limit and with the total
   redeemed staying within the total limit; it records the nonce and the grant; other assigners are
   untouched. *)
Theorem C24_redeem_conditions :
  forall c s now id sender assigner recipient coin nonce sig_ok bl s',
  ss_free_alloc c s now id sender assigner recipient coin nonce sig_ok bl = Some s' ->
  sender = recipient /\ sig_ok = true /\
  exists a free,
    ss_find_assigner assigner (st_assigners s) = Some a /\ coin = Some free /\
    ~ In nonce (as_nonces a) /\ free <= as_indiv a /\ as_redeemed a + free <= as_total a /\
    (exists a', ss_find_assigner assigner (st_assigners s') = Some a' /\
                as_redeemed a' = as_redeemed a + free /\ as_nonces a' = as_nonces a ++ [nonce] /\
                as_indiv a' = as_indiv a /\ as_total a' = as_total a) /\
    (forall k, k <> as_id a -> ss_find_assigner k (st_assigners s') = ss_find_assigner k (st_assigners s)).
Proof. exact ss_free_alloc_spec. Qed.
Print Assumptions C24_redeem_conditions.

(* Forged, foreign, replayed and over-limit markers are rejected (state unchanged). *)
Theorem C24_bad_markers_rejected :
  forall c s now id sender assigner recipient coin nonce sig_ok bl,
  sender <> recipient \/ sig_ok = false \/ ss_find_assigner assigner (st_assigners s) = None \/ coin = None \/
  (exists a, ss_find_assigner assigner (st_assigners s) = Some a /\
             (In nonce (as_nonces a) \/ exists free, coin = Some free /\ (as_indiv a < free \/ as_total a < as_redeemed a + free))) ->
  ss_free_alloc c s now id sender assigner recipient coin nonce sig_ok bl = None.
Proof. exact ss_free_alloc_rejects. Qed.
Print Assumptions C24_bad_markers_rejected.

(* Over histories of all modelled transactions: every assigner's redeemed amount stays within its
   total limit, as long as the contract owner does not re-register an assigner with a total limit
   below what it already redeemed ([ss_lowers_limit]; add_free_storage_assigner allows that). *)
Theorem C24_redeemed_le_total_step :
  forall c s now round o s',
  st_c24 s -> ss_apply c s now round o = Some s' -> ss_lowers_limit s o = false -> st_c24 s'.
Proof. exact ss_apply_c24. Qed.
Print Assumptions C24_redeemed_le_total_step.

Theorem C24_redeemed_le_total_history :
  forall c ts s, st_c24 s -> ss_run_lowers c s ts = false -> st_c24 (fst (ss_run c s ts)).
Proof. exact ss_run_c24. Qed.
Print Assumptions C24_redeemed_le_total_history.

(* Non-vacuity: the owner registers assigner 700 (individual 5 ZCN, total 7.5 ZCN); client 100 redeems
   2 ZCN (nonce 1): accepted; the same nonce again, a forged signature, a marker for somebody else,
   6 ZCN (> individual) and 5 ZCN more (2 + 5 > 7.5 total... 7 <= 7.5 accepted), then 1 ZCN (8 > 7.5) rejected. *)
(* The signature is checked against the key registered for the assigner at redemption time: an
   accepted free_allocation_request carries a marker signed with exactly that key ([signer] = the
   key number the marker was signed with), and add_free_storage_assigner for an existing assigner
   replaces the key (keeping what was redeemed) - a marker signed with a retired key is refused. *)
Theorem C24_marker_signed_with_current_key :
  forall c s now round id sender assigner recipient coin nonce signer bl s',
  ss_apply c s now round (OpFreeAlloc id sender assigner recipient coin nonce signer bl) = Some s' ->
  exists a, ss_find_assigner assigner (st_assigners s) = Some a /\ signer = as_key a.
Proof. exact ss_free_needs_current_key. Qed.
Print Assumptions C24_marker_signed_with_current_key.

Theorem C24_registration_replaces_key :
  forall c s now round sender name key indiv total s',
  ss_apply c s now round (OpAddAssigner sender name key indiv total) = Some s' ->
  exists a, ss_find_assigner name (st_assigners s') = Some a /\ as_key a = key /\
            as_redeemed a = match ss_find_assigner name (st_assigners s) with Some o => as_redeemed o | None => 0 end.
Proof. exact ss_add_assigner_key. Qed.
Print Assumptions C24_registration_replaces_key.

Example C24_example :
  let five := 4617315517961601024 in let seven5 := 4620130267728707584 in
  let txs := [(1040, 1010, OpAddAssigner 300 700 0 five seven5);
              (1041, 1011, OpFreeAlloc 2 100 700 100 (Some 20000000000) 1 0 [1; 2]);
              (1042, 1012, OpFreeAlloc 3 100 700 100 (Some 20000000000) 1 0 [1; 2]);
              (1043, 1013, OpFreeAlloc 3 100 700 100 (Some 20000000000) 2 9 [1; 2]);
              (1044, 1014, OpFreeAlloc 3 101 700 100 (Some 20000000000) 2 0 [1; 2]);
              (1045, 1015, OpFreeAlloc 3 100 700 100 (Some 60000000000) 2 0 [1; 2]);
              (1046, 1016, OpFreeAlloc 3 100 700 100 (Some 50000000000) 2 0 [1; 2]);
              (1047, 1017, OpFreeAlloc 4 100 700 100 (Some 10000000000) 3 0 [1; 2])] in
  let s0 := st_with_bals sw_killed_state [(100, 100000000000000); (300, 100000000000000); (1000, 100000097384982)] in
  snd (ss_run sw_conf s0 txs) = [true; true; false; false; false; false; true; false] /\
  map (fun a => (as_redeemed a, as_nonces a)) (st_assigners (fst (ss_run sw_conf s0 txs))) = [(70000000000, [1; 2])] /\
  ss_run_lowers sw_conf s0 txs = false.
Proof. vm_compute. repeat split; reflexivity. Qed.
