(* C25: every mutating / reading call of the model keeps the invariant and acts on the
   abstract set (pt_abs) as the corresponding set operation. *)
From ZC Require Import Model.Partitions Model.PartitionsSpec Proof.PartitionsUtil Proof.PartitionsInv
     Proof.PartitionsSem Proof.PartitionsPrim.
From Coq Require Import Sorting.Permutation.
Open Scope Z_scope.

Lemma pt_inv_core size ws : pt_inv size ws -> pt_core_ws None size ws.
Proof. intros [H _]. exact H. Qed.

Lemma pt_inv_nodup size ws : pt_inv size ws -> NoDup (pt_ids (pt_abs ws)).
Proof. intros [H _]. rewrite pt_abs_flat. apply (io_nodup _ _ _ _ _ _ _ _ _ H). Qed.

(* membership of an id: in Last, or located in a packed partition *)
Lemma pt_member size ws id :
  pt_core_ws None size ws ->
  (In id (pt_ids (pt_abs ws)) <-> (In id (pt_ids (pt_L ws)) \/ exists l, pt_T ws id = Some l)).
Proof. intros Hc. rewrite pt_abs_flat. eapply io_member. exact Hc. Qed.

Lemma pt_in_abs_last ws x : In x (pt_L ws) -> In x (pt_abs ws).
Proof. intros H. rewrite pt_abs_flat. apply in_flat. right. exact H. Qed.

Lemma pt_in_abs_part ws i x : (i < pt_loc ws)%nat -> In x (pt_eff ws i) -> In x (pt_abs ws).
Proof. intros Hi H. rewrite pt_abs_flat. apply in_flat. left. eauto. Qed.

(* ---------- pack ---------- *)
Lemma pt_pack_ok size ws :
  pt_core_ws None size ws -> length (pt_L ws) = size ->
  let ws' := pt_pack ws in
  pt_core_ws None size ws' /\ pt_abs ws' = pt_abs ws /\ pt_L ws' = [] /\
  (forall k, pt_T ws' k = if pt_has k (pt_L ws) then Some (pt_loc ws) else pt_T ws k).
Proof.
  intros Hc Hlen. cbv zeta. unfold pt_pack.
  set (ws1 := pt_set_tparts ws _).
  destruct (pt_save_locs_obs ws1 (pp_items (pt_last ws)) (pt_loc ws)) as (Hm & Hh & Hp & HT & HC).
  set (ws2 := pt_save_locs ws1 _ _) in *. clearbody ws2.
  destruct ws as [[h ps ls] [n lp c lc]]. destruct ws2 as [[h2 ps2 ls2] [n2 lp2 c2 lc2]].
  subst ws1. pt_red. cbn in Hm, Hh, Hp. injection Hm as -> -> ->. subst h2 ps2.
  destruct (core_pack size n (pp_items lp) _ _ _ _ _
              (pt_eff_of (pt_al_set Nat.eqb n lp c) (pt_al_set Nat.eqb n (pp_items lp) ps))
              (fun k => pt_al_get Z.eqb k ls2) (fun k => pt_al_get Z.eqb k lc2)
              (fun i => pt_al_get Nat.eqb i (pt_al_set Nat.eqb n (pp_items lp) ps))
              (fun i => pt_al_get Nat.eqb i (pt_al_set Nat.eqb n lp c)) lp Hc Hlen eq_refl)
    as (Hc' & Hflat').
  - intros j Hj. rewrite eff_cache_set_ne, eff_parts_set_ne by lia. reflexivity.
  - apply eff_cache_set_eq.
  - exact HT.
  - exact HC.
  - intros j Hj. apply nat_get_set_ne. exact Hj.
  - apply nat_get_set_eq.
  - intros j Hj. apply nat_get_set_ne. exact Hj.
  - apply nat_get_set_eq.
  - split; [exact Hc'|]. split; [|split; [reflexivity|exact HT]].
    rewrite !pt_abs_flat. pt_red. exact Hflat'.
Qed.

(* ---------- Add ---------- *)
Lemma pt_add_exists size ws id d :
  pt_inv size ws -> In id (pt_ids (pt_abs ws)) -> pt_add size ws id d = (ws, PErrExists).
Proof.
  intros Hinv Hin. pose proof (pt_inv_core _ _ Hinv) as Hc.
  unfold pt_add. rewrite (pt_get_loc_T _ _ _ id Hc).
  apply (pt_member size ws id Hc) in Hin. destruct Hin as [Hin|(l & Hl)].
  - rewrite (io_last_no_loc Hc id Hin). apply pt_has_true in Hin. fold (pt_L ws). rewrite Hin. reflexivity.
  - rewrite Hl. reflexivity.
Qed.

Lemma pt_add_ok size ws id d :
  pt_inv size ws -> ~ In id (pt_ids (pt_abs ws)) ->
  exists ws', pt_add size ws id d = (ws', POk) /\ pt_inv size ws' /\ pt_abs ws' = pt_abs ws ++ [(id, d)].
Proof.
  intros Hinv Hni. pose proof (pt_inv_core _ _ Hinv) as Hc.
  assert (HniL : ~ In id (pt_ids (pt_L ws))) by (intros H; apply Hni; apply (pt_member size ws id Hc); auto).
  assert (HT : pt_T ws id = None).
  { destruct (pt_T ws id) as [l|] eqn:E; [|reflexivity]. exfalso. apply Hni.
    apply (pt_member size ws id Hc). right. eauto. }
  unfold pt_add. rewrite (pt_get_loc_T _ _ _ id Hc), HT.
  fold (pt_L ws). rewrite (proj2 (pt_has_false id (pt_L ws)) HniL).
  unfold pt_add_raw. fold (pt_L ws).
  destruct (Nat.eqb_spec (length (pt_L ws)) size) as [Hfull|Hnfull].
  - (* Last is full: pack first *)
    destruct (pt_pack_ok size ws Hc Hfull) as (Hc1 & Habs1 & HL1 & HT1).
    set (ws1 := pt_pack ws) in *. clearbody ws1.
    fold (pt_L ws1). rewrite HL1. cbn [pt_has pt_find]. unfold pt_result.
    eexists. split; [reflexivity|].
    assert (HT1id : pt_T ws1 id = None).
    { rewrite HT1. rewrite (proj2 (pt_has_false id (pt_L ws)) HniL). exact HT. }
    destruct ws1 as [[h ps ls] [n lp c lc]]. pt_red. cbn [app]. rewrite HL1 in Hc1.
    destruct (core_add_last size n [] _ _ _ _ _ id d Hc1 HT1id) as (Hc2 & Hflat2).
    { intros []. } { cbn. pose proof (io_size _ _ _ _ _ _ _ _ _ Hc). lia. }
    split; [split; [exact Hc2|intros _; discriminate]|].
    rewrite <- Habs1. rewrite !pt_abs_flat. pt_red. rewrite HL1. exact Hflat2.
  - pose proof (io_last_len _ _ _ _ _ _ _ _ _ Hc) as Hlen.
    fold (pt_L ws). rewrite (proj2 (pt_has_false id (pt_L ws)) HniL). unfold pt_result.
    eexists. split; [reflexivity|].
    destruct ws as [[h ps ls] [n lp c lc]]. pt_red.
    destruct (core_add_last size n (pp_items lp) _ _ _ _ _ id d Hc HT HniL) as (Hc2 & Hflat2); [lia|].
    split; [split; [exact Hc2|]|].
    + intros _ Hnil. apply app_eq_nil in Hnil. destruct Hnil as [_ Hnil]. discriminate.
    + rewrite !pt_abs_flat. pt_red. exact Hflat2.
Qed.

(* ---------- locating a member ---------- *)
(* a member is either in Last or in exactly the packed partition its location names *)
Lemma pt_locate size ws id d :
  pt_core_ws None size ws -> In (id, d) (pt_abs ws) ->
  (exists idx, pt_find id (pt_L ws) = Some (idx, d)) \/
  (pt_find id (pt_L ws) = None /\ exists l idx, pt_T ws id = Some l /\ (l < pt_loc ws)%nat /\
                                               pt_find id (pt_eff ws l) = Some (idx, d)).
Proof.
  intros Hc Hin. rewrite pt_abs_flat in Hin. apply in_flat in Hin.
  pose proof (io_nodup _ _ _ _ _ _ _ _ _ Hc) as Hnd.
  destruct Hin as [(i & Hi & Hin)|Hin].
  - right. assert (Hid : In id (pt_ids (pt_eff ws i))) by (apply (in_map fst) in Hin; exact Hin).
    split.
    + apply pt_find_none. intros HL. eapply flat_part_last_disjoint; eassumption.
    + assert (HT : pt_T ws id = Some i) by (apply (io_locs _ _ _ _ _ _ _ _ _ Hc); auto).
      destruct (pt_find_unique id d (pt_eff ws i)) as (idx & Hf); [eapply flat_part_nodup; eassumption|exact Hin|].
      eauto 6.
  - left. apply pt_find_unique; [eapply flat_last_nodup; exact Hnd|exact Hin].
Qed.

Lemma pt_not_member size ws id :
  pt_core_ws None size ws -> ~ In id (pt_ids (pt_abs ws)) ->
  pt_find id (pt_L ws) = None /\ pt_get_loc ws id = None.
Proof.
  intros Hc Hni. split.
  - apply pt_find_none. intros H. apply Hni. apply (pt_member size ws id Hc). auto.
  - rewrite (pt_get_loc_T _ _ _ id Hc). destruct (pt_T ws id) as [l|] eqn:E; [|reflexivity].
    exfalso. apply Hni. apply (pt_member size ws id Hc). right. eauto.
Qed.

(* ---------- Get ---------- *)
Lemma pt_get_notfound size ws id :
  pt_inv size ws -> ~ In id (pt_ids (pt_abs ws)) -> pt_get ws id = (ws, PErrNotFound).
Proof.
  intros Hinv Hni. destruct (pt_not_member size ws id (pt_inv_core _ _ Hinv) Hni) as [Hf Hl].
  unfold pt_get. fold (pt_L ws). rewrite Hf, Hl. reflexivity.
Qed.

Lemma pt_get_ok size ws id d :
  pt_inv size ws -> In (id, d) (pt_abs ws) ->
  exists ws', pt_get ws id = (ws', PGot d) /\ pt_inv size ws' /\ pt_abs ws' = pt_abs ws.
Proof.
  intros Hinv Hin. pose proof (pt_inv_core _ _ Hinv) as Hc. destruct Hinv as [_ Hne].
  unfold pt_get. fold (pt_L ws).
  destruct (pt_locate size ws id d Hc Hin) as [(idx & Hf)|(Hf & l & idx & HT & Hl & Hfl)].
  - rewrite Hf. exists ws. split; [reflexivity|]. split; [split; assumption|reflexivity].
  - rewrite Hf, (pt_get_loc_T _ _ _ id Hc), HT.
    destruct (pt_getpart_lt None size ws l Hc Hl) as (ws1 & p & Hg & _ & HCh1 & Hitems & Hsame & Hc1).
    rewrite Hg, Hitems, Hfl.
    destruct (pt_load_locations_ok None size ws1 l Hc1) as (Hc2 & Ht2 & Hn2 & Hl2 & Hcache2).
    eexists. split; [reflexivity|].
    assert (Habs : pt_abs (pt_load_locations ws1 l) = pt_abs ws).
    { rewrite <- (pt_same_but_cache_abs ws ws1 Hsame). apply pt_abs_ext; auto.
      - unfold pt_L. rewrite Hl2. reflexivity.
      - intros i _. unfold pt_eff. rewrite Hcache2, Ht2. reflexivity. }
    split; [split; [exact Hc2|]|exact Habs].
    destruct Hsame as (_ & Hn1 & Hl1 & _). unfold pt_L. rewrite Hn2, Hl2, Hn1, Hl1. exact Hne.
Qed.

(* ---------- Update / UpdateItem ---------- *)
Lemma pt_update_notfound size ws id newd mark :
  pt_inv size ws -> ~ In id (pt_ids (pt_abs ws)) -> pt_update_gen ws id newd mark = (ws, PErrNotFound).
Proof.
  intros Hinv Hni. destruct (pt_not_member size ws id (pt_inv_core _ _ Hinv) Hni) as [Hf Hl].
  unfold pt_update_gen. fold (pt_L ws). rewrite Hf, Hl. reflexivity.
Qed.

Lemma pt_update_fn size ws id old newd mark :
  pt_inv size ws -> In (id, old) (pt_abs ws) -> newd old = None ->
  exists ws', pt_update_gen ws id newd mark = (ws', PErrFn) /\ pt_inv size ws' /\ pt_abs ws' = pt_abs ws.
Proof.
  intros Hinv Hin Hnew. pose proof (pt_inv_core _ _ Hinv) as Hc. destruct Hinv as [_ Hne].
  unfold pt_update_gen. fold (pt_L ws).
  destruct (pt_locate size ws id old Hc Hin) as [(idx & Hf)|(Hf & l & idx & HT & Hl & Hfl)].
  - rewrite Hf, Hnew. exists ws. split; [reflexivity|]. split; [split; assumption|reflexivity].
  - rewrite Hf, (pt_get_loc_T _ _ _ id Hc), HT.
    destruct (pt_getpart_lt None size ws l Hc Hl) as (ws1 & p & Hg & _ & HCh1 & Hitems & Hsame & Hc1).
    rewrite Hg, Hitems, Hfl, Hnew. exists ws1. split; [reflexivity|].
    split; [split; [exact Hc1|]|apply pt_same_but_cache_abs; exact Hsame].
    destruct Hsame as (_ & Hn1 & Hl1 & _). unfold pt_L. rewrite Hn1, Hl1. exact Hne.
Qed.

Lemma pt_ids_set_data X1 k d0 X2 d : pt_ids (X1 ++ (k, d) :: X2) = pt_ids (X1 ++ (k, d0) :: X2).
Proof. rewrite !pt_ids_app. reflexivity. Qed.

Lemma pt_update_ok size ws id old d newd mark :
  pt_inv size ws -> In (id, old) (pt_abs ws) -> newd old = Some d ->
  exists ws' A B, pt_update_gen ws id newd mark = (ws', POk) /\ pt_inv size ws' /\
    pt_abs ws = A ++ (id, old) :: B /\ pt_abs ws' = A ++ (id, d) :: B.
Proof.
  intros Hinv Hin Hnew. pose proof (pt_inv_core _ _ Hinv) as Hc. destruct Hinv as [_ Hne].
  unfold pt_update_gen. fold (pt_L ws).
  destruct (pt_locate size ws id old Hc Hin) as [(idx & Hf)|(Hf & l & idx & HT & Hl & Hfl)].
  - (* in Last *)
    rewrite Hf, Hnew. destruct (pt_find_some _ _ _ _ Hf) as (X1 & X2 & HL & Hlen & _).
    rewrite HL, <- Hlen, pt_set_data_split.
    eexists. exists (flat_map (pt_eff ws) (seq 0 (pt_loc ws)) ++ X1), X2. split; [reflexivity|].
    destruct ws as [[h ps ls] [n lp c lc]]. pt_red.
    split; [split|split].
    + eapply core_same_ids; [exact Hc| | |].
      * intros i _. reflexivity.
      * rewrite HL. apply pt_ids_set_data.
      * apply (io_cache _ _ _ _ _ _ _ _ _ Hc).
    + intros _ Hnil. apply app_eq_nil in Hnil. destruct Hnil as [_ Hnil]. discriminate.
    + rewrite pt_abs_flat. pt_red. unfold pt_flat. rewrite HL, app_assoc. reflexivity.
    + rewrite pt_abs_flat. pt_red. unfold pt_flat. rewrite app_assoc. reflexivity.
  - (* in the packed partition l *)
    rewrite Hf, (pt_get_loc_T _ _ _ id Hc), HT.
    destruct (pt_getpart_lt None size ws l Hc Hl) as (ws1 & p & Hg & _ & HCh1 & Hitems & Hsame & Hc1).
    rewrite Hg, Hitems, Hfl, Hnew.
    destruct (pt_find_some _ _ _ _ Hfl) as (X1 & X2 & HEl & Hlen & _).
    rewrite HEl, <- Hlen, pt_set_data_split.
    set (part1 := {| pp_items := X1 ++ (id, d) :: X2; pp_changed := true |}).
    pose proof (pt_same_but_cache_abs ws ws1 Hsame) as Habs1.
    destruct Hsame as (_ & Hn1 & Hl1 & _ & HE1).
    assert (Hl1' : (l < pt_loc ws1)%nat) by lia.
    assert (Hc2 : pt_core_ws None size (pt_putpart ws1 l part1) /\
                  pt_loc (pt_putpart ws1 l part1) = pt_loc ws1 /\ pt_L (pt_putpart ws1 l part1) = pt_L ws1 /\
                  pt_eff (pt_putpart ws1 l part1) l = X1 ++ (id, d) :: X2 /\
                  (forall j, j <> l -> pt_eff (pt_putpart ws1 l part1) j = pt_eff ws1 j)).
    { unfold pt_putpart. destruct (Nat.eqb_spec l (pt_loc ws1)) as [Hx|_]; [lia|].
      destruct ws1 as [[h1 ps1 ls1] [n1 lp1 c1 lc1]]. pt_red.
      split; [|split; [reflexivity|split; [reflexivity|split]]].
      - eapply core_same_ids; [exact Hc1| |reflexivity|].
        + intros i _. destruct (Nat.eq_dec i l) as [->|Hil].
          * rewrite eff_cache_set_eq. cbn [pp_items part1]. rewrite HE1, HEl. apply pt_ids_set_data.
          * rewrite eff_cache_set_ne by exact Hil. reflexivity.
        + intros i q. destruct (Nat.eq_dec i l) as [->|Hil].
          * rewrite nat_get_set_eq. intros Hq; injection Hq as <-. split; [exact Hl1'|]. discriminate.
          * rewrite nat_get_set_ne by exact Hil. apply (io_cache _ _ _ _ _ _ _ _ _ Hc1).
      - apply eff_cache_set_eq.
      - intros j Hj. apply eff_cache_set_ne. exact Hj. }
    destruct Hc2 as (Hc2 & Hn2 & HL2 & HEl2 & HE2).
    set (ws2 := pt_putpart ws1 l part1) in *. clearbody ws2.
    destruct (pt_load_locations_ok None size ws2 l Hc2) as (Hc3 & Ht3 & Hn3 & Hl3 & Hcache3).
    eexists. exists (flat_map (pt_eff ws) (seq 0 l) ++ X1),
      (X2 ++ flat_map (pt_eff ws) (seq (S l) (pt_loc ws - S l)) ++ pt_L ws).
    split; [reflexivity|]. split; [split; [exact Hc3|]|split].
    + unfold pt_L. rewrite Hn3, Hl3. fold (pt_L ws2). rewrite Hn2, HL2, Hn1. unfold pt_L. rewrite Hl1. exact Hne.
    + rewrite pt_abs_flat, (flat_split _ _ _ l Hl), HEl, <- !app_assoc. reflexivity.
    + assert (Habs3 : pt_abs (pt_load_locations ws2 l) = pt_abs ws2).
      { apply pt_abs_ext; auto.
        - unfold pt_L. rewrite Hl3. reflexivity.
        - intros i _. unfold pt_eff. rewrite Hcache3, Ht3. reflexivity. }
      rewrite Habs3, pt_abs_flat, Hn2, HL2, Hn1.
      assert (Hl2 : (l < pt_loc ws)%nat) by exact Hl.
      destruct (flat_replace (pt_eff ws) (pt_eff ws2) (pt_loc ws) (pt_L ws) (pt_L ws1) l Hl2) as [_ HF'].
      { intros j Hj. rewrite HE2 by exact Hj. apply HE1. }
      rewrite HF', HEl2, <- !app_assoc. unfold pt_L. rewrite Hl1. reflexivity.
Qed.
