(* E-storage proofs, C24: free-storage markers. *)
From Coq Require Import ZArith List Bool Lia.
From ZC Require Import Model.F64 Model.Storage Proof.StorageUtil Proof.StorageFrame.
Import ListNotations.
Open Scope Z_scope.

Lemma ss_mem_In : forall x l, ss_mem x l = true <-> In x l.
Proof.
  induction l as [|y tl IH]; cbn; [split; [discriminate | contradiction]|].
  rewrite orb_true_iff, Z.eqb_eq, IH. split; intros [H|H]; auto.
Qed.

Lemma ss_find_set_assigner : forall a l k,
  ss_find_assigner k (ss_set_assigner a l) = if k =? as_id a then Some a else ss_find_assigner k l.
Proof.
  induction l as [|x tl IH]; intros k; cbn.
  - rewrite (Z.eqb_sym (as_id a) k). destruct (k =? as_id a); reflexivity.
  - destruct (Z.eqb_spec (as_id x) (as_id a)); cbn.
    + rewrite (Z.eqb_sym (as_id a) k). destruct (Z.eqb_spec k (as_id a)); [reflexivity|].
      destruct (Z.eqb_spec (as_id x) k); [congruence | reflexivity].
    + rewrite IH. destruct (Z.eqb_spec (as_id x) k); [|reflexivity].
      destruct (Z.eqb_spec k (as_id a)); [congruence | reflexivity].
Qed.

(* everything a successful redemption establishes *)
Theorem ss_free_alloc_spec : forall c s now id sender assigner recipient coin nonce sig_ok bl s',
  ss_free_alloc c s now id sender assigner recipient coin nonce sig_ok bl = Some s' ->
  sender = recipient /\ sig_ok = true /\
  exists a free,
    ss_find_assigner assigner (st_assigners s) = Some a /\ coin = Some free /\
    ~ In nonce (as_nonces a) /\ free <= as_indiv a /\ as_redeemed a + free <= as_total a /\
    (exists a', ss_find_assigner assigner (st_assigners s') = Some a' /\
                as_redeemed a' = as_redeemed a + free /\ as_nonces a' = as_nonces a ++ [nonce] /\
                as_indiv a' = as_indiv a /\ as_total a' = as_total a) /\
    (forall k, k <> as_id a -> ss_find_assigner k (st_assigners s') = ss_find_assigner k (st_assigners s)).
Proof.
  unfold ss_free_alloc; intros c s now id sender assigner recipient coin nonce sig_ok bl s' H.
  guard_inv H. bind_as H a Ea. bind_as H free Ef. guard_inv H. bind_as H nt Ent. guard_inv H. bind_as H rtok Er. bind_as H wtok Ew.
  bind_as H s1 E1. bind_as H v Ev. inversion H; subst. clear H.
  apply Z.eqb_eq in G. apply ss_add_coin_some in Ent. destruct Ent as [-> _].
  apply andb_true_iff in G1. destruct G1 as [G1 Gn]. apply andb_true_iff in G1. destruct G1 as [Gt Gi].
  apply Z.leb_le in Gt, Gi. apply negb_true_iff in Gn.
  apply ss_new_alloc_misc in E1. unfold st_misc in E1.
  assert (Has : st_assigners s1 = st_assigners s) by congruence. clear E1.
  assert (Hid : as_id a = assigner).
  { clear - Ea. revert Ea. generalize (st_assigners s). induction l as [|x tl IH]; cbn; [discriminate|].
    destruct (Z.eqb_spec (as_id x) assigner); [intros H; inversion H; subst; auto | auto]. }
  split; [exact G|]. split; [first [reflexivity | assumption]|]. exists a, free.
  split; [exact Ea|]. split; [reflexivity|]. split; [intros Hin; apply ss_mem_In in Hin; congruence|].
  split; [exact Gi|]. split; [exact Gt|]. split.
  - cbn. rewrite ss_find_set_assigner. cbn. rewrite Hid, Z.eqb_refl. eexists. split; [reflexivity|]. cbn. auto.
  - intros k Hk. cbn. rewrite ss_find_set_assigner. cbn. destruct (Z.eqb_spec k (as_id a)); [contradiction|]. rewrite Has. reflexivity.
Qed.

Lemma ss_free_alloc_rejects : forall c s now id sender assigner recipient coin nonce sig_ok bl,
  sender <> recipient \/ sig_ok = false \/ ss_find_assigner assigner (st_assigners s) = None \/ coin = None \/
  (exists a, ss_find_assigner assigner (st_assigners s) = Some a /\
             (In nonce (as_nonces a) \/ exists free, coin = Some free /\ (as_indiv a < free \/ as_total a < as_redeemed a + free))) ->
  ss_free_alloc c s now id sender assigner recipient coin nonce sig_ok bl = None.
Proof.
  intros. destruct (ss_free_alloc c s now id sender assigner recipient coin nonce sig_ok bl) eqn:E; [|reflexivity].
  apply ss_free_alloc_spec in E. destruct E as [E1 [E2 [a [free [Ea [Ec [En [Ei [Et _]]]]]]]]].
  destruct H as [H|[H|[H|[H|[a' [Ha' H]]]]]]; try congruence.
  rewrite Ea in Ha'. inversion Ha'; subst a'. destruct H as [H|[f [Hc H]]]; [contradiction|].
  rewrite Ec in Hc. inversion Hc; subst. lia.
Qed.

(* ---------- redeemed <= total limit, over histories ---------- *)

Definition st_c24 (s : ss_state) : Prop :=
  forall k a, ss_find_assigner k (st_assigners s) = Some a -> as_redeemed a <= as_total a.

(* re-registering an assigner with a total limit below what it already redeemed is the only way to break it *)
Definition ss_lowers_limit (s : ss_state) (o : ss_op) : bool :=
  match o with
  | OpAddAssigner _ name _ _ total =>
      match ss_find_assigner name (st_assigners s), f64_float_to_coin (f64_mul (f64_of_bits total) ss_ten10) with
      | Some a, Some t => t <? as_redeemed a
      | _, _ => false
      end
  | _ => false
  end.

Lemma misc_assigners : forall s s', st_misc s' = st_misc s -> st_assigners s' = st_assigners s.
Proof. unfold st_misc; intros; congruence. Qed.

Lemma ss_rp_lock_assigners : forall c s a b v s', ss_rp_lock c s a b v = Some s' -> st_assigners s' = st_assigners s.
Proof. unfold ss_rp_lock; intros. crush H; misc_base. unfold st_misc in *. cbn in *. congruence. Qed.
Lemma ss_rp_unlock_assigners : forall c s a s', ss_rp_unlock c s a = Some s' -> st_assigners s' = st_assigners s.
Proof. unfold ss_rp_unlock; intros. crush H; misc_base. unfold st_misc in *. cbn in *. congruence. Qed.
Lemma ss_read_assigners : forall c s cl b al ts ctr i sg s', ss_read c s cl b al ts ctr i sg = Some s' -> st_assigners s' = st_assigners s.
Proof. unfold ss_read; intros. crush H; misc_base. reflexivity. Qed.

Theorem ss_apply_c24 : forall c s now round o s',
  st_c24 s -> ss_apply c s now round o = Some s' -> ss_lowers_limit s o = false -> st_c24 s'.
Proof.
  intros c s now round o s' Hs H Hl.
  assert (Same : st_assigners s' = st_assigners s -> st_c24 s') by (unfold st_c24; intros ->; exact Hs).
  destruct o; cbn [ss_apply] in H; try discriminate.
  - apply Same, misc_assigners. eapply ss_new_alloc_misc; eauto.
  - apply Same, misc_assigners. eapply ss_wp_lock_misc; eauto.
  - apply Same, misc_assigners. eapply ss_commit_misc; eauto.
  - destruct sel as [[[x y] z]|]; [apply Same, misc_assigners; eapply ss_gen_chal_misc; eauto | inversion H; subst; apply Same; reflexivity].
  - apply Same, misc_assigners. eapply ss_chal_resp_misc; eauto.
  - unfold ss_update in H. destruct (ss_update_f c s now round sender alloc value size extend set_tpe add remove new_owner) as [[s2 f]|] eqn:E; [|discriminate].
    cbn in H. inversion H; subst. apply Same, misc_assigners. eapply ss_update_f_misc; eauto.
  - apply Same, misc_assigners. eapply ss_finalize_misc; eauto.
  - apply Same, misc_assigners. eapply ss_cancel_misc; eauto.
  - apply Same. eapply ss_rp_lock_assigners; eauto.
  - apply Same. eapply ss_rp_unlock_assigners; eauto.
  - apply Same. eapply ss_read_assigners; eauto.
  - apply Same, misc_assigners. eapply ss_kill_misc; eauto.
  - apply Same, misc_assigners. eapply ss_shutdown_misc; eauto.
  - apply Same, misc_assigners. eapply ss_upd_blobber_misc; eauto.
  - (* add assigner *)
    unfold ss_add_assigner in H. cbn [ss_lowers_limit] in Hl.
    guard_inv H. bind_as H t Et. guard_inv H. bind_as H i Ei. guard_inv H. inversion H; subst. clear H.
    intros k a Hk. cbn in Hk. rewrite ss_find_set_assigner in Hk. cbn in Hk.
    destruct (Z.eqb_spec k name).
    + inversion Hk; subst. cbn. rewrite Et in Hl.
      destruct (ss_find_assigner name (st_assigners s)) as [old|] eqn:Eo; [apply Z.ltb_ge in Hl; lia|].
      apply f64_float_to_coin_range in Et. lia.
    + eapply Hs; eauto.
  - apply ss_free_alloc_spec in H. destruct H as [_ [_ [a [free [Ea [_ [_ [_ [Ht [[a' [Ea' [Hr [_ [_ Htt]]]]] Hoth]]]]]]]]]].
    intros k x Hk. assert (Hid : as_id a = assigner).
    { clear - Ea. revert Ea. generalize (st_assigners s). induction l as [|y tl IH]; cbn; [discriminate|].
      destruct (Z.eqb_spec (as_id y) assigner); [intros H; inversion H; subst; auto | auto]. }
    destruct (Z.eq_dec k (as_id a)).
    + subst k. rewrite Hid in Hk. rewrite Ea' in Hk. inversion Hk; subst. lia.
    + rewrite (Hoth _ n) in Hk. eapply Hs; eauto.
Qed.

Fixpoint ss_run_lowers (c : ss_conf) (s : ss_state) (ts : list (Z * Z * ss_op)) : bool :=
  match ts with
  | [] => false
  | (now, round, o) :: tl => ss_lowers_limit s o || ss_run_lowers c (fst (ss_step c s (now, round, o))) tl
  end.

Theorem ss_run_c24 : forall c ts s, st_c24 s -> ss_run_lowers c s ts = false -> st_c24 (fst (ss_run c s ts)).
Proof.
  induction ts as [|[[now round] o] tl IH]; cbn [ss_run ss_run_lowers]; intros s Hs Hf; [exact Hs|].
  apply orb_false_iff in Hf. destruct Hf as [Hf1 Hf2].
  unfold ss_step in *. destruct (ss_apply c s now round o) as [s1|] eqn:E.
  - cbn in Hf2. specialize (IH s1). destruct (ss_run c s1 tl) as [s2 oks] eqn:Er. cbn.
    assert (Hs1 : st_c24 s1) by (eapply ss_apply_c24; eauto). exact (IH Hs1 Hf2).
  - cbn in Hf2. specialize (IH s Hs Hf2). destruct (ss_run c s tl) as [s2 oks]. exact IH.
Qed.

(* ---------- key rotation ---------- *)

Lemma ss_free_needs_current_key : forall c s now round id sender assigner recipient coin nonce signer bl s',
  ss_apply c s now round (OpFreeAlloc id sender assigner recipient coin nonce signer bl) = Some s' ->
  exists a, ss_find_assigner assigner (st_assigners s) = Some a /\ signer = as_key a.
Proof.
  intros c s now round id sender assigner recipient coin nonce signer bl s' H. cbn [ss_apply] in H.
  apply ss_free_alloc_spec in H. destruct H as [_ [Hsig _]]. unfold ss_marker_sig_ok in Hsig.
  destruct (ss_find_assigner assigner (st_assigners s)) as [a|]; [|discriminate]. exists a. split; [reflexivity|]. apply Z.eqb_eq. exact Hsig.
Qed.

Lemma ss_add_assigner_key : forall c s now round sender name key indiv total s',
  ss_apply c s now round (OpAddAssigner sender name key indiv total) = Some s' ->
  exists a, ss_find_assigner name (st_assigners s') = Some a /\ as_key a = key /\
            as_redeemed a = match ss_find_assigner name (st_assigners s) with Some o => as_redeemed o | None => 0 end.
Proof.
  intros c s now round sender name key indiv total s' H. cbn [ss_apply] in H. unfold ss_add_assigner in H.
  guard_inv H. bind_as H t Et. guard_inv H. bind_as H i Ei. guard_inv H. inversion H; subst. clear H.
  eexists. split; [cbn; rewrite ss_find_set_assigner; cbn; rewrite Z.eqb_refl; reflexivity|]. split; reflexivity.
Qed.
