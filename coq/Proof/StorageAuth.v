(* E-storage proofs, C04 (storage contract part): which accounts the modelled storagesc operations
   take tokens from.  The model applies a transfer the moment the contract queues it (ss_transfer =
   StateContext.AddTransfer + chain.transferAmount), so "the transfers an operation queued" are the
   balance moves that lead from st_bals s to st_bals s'. *)
From Coq Require Import ZArith List Bool Lia.
From ZC Require Import Model.F64 Model.Storage Proof.StorageUtil Proof.StorageFrame Proof.Storage Proof.StorageFree Proof.StorageLedger.
Import ListNotations.
Open Scope Z_scope.

(* ---------- a queue of transfers and its effect on the balances ---------- *)

Definition ss_move : Type := (Z * Z * Z)%type.          (* from, to, amount *)

Definition ss_move_bals (bals : list (Z * Z)) (m : ss_move) : list (Z * Z) :=
  let '(f, t, v) := m in
  let l1 := ss_assoc_set f (ss_assoc0 f bals - v) bals in
  ss_assoc_set t (ss_assoc0 t l1 + v) l1.

Fixpoint ss_moves_bals (bals : list (Z * Z)) (ms : list ss_move) : list (Z * Z) :=
  match ms with [] => bals | m :: tl => ss_moves_bals (ss_move_bals bals m) tl end.

(* a transfer of nothing is not queued *)
Definition ss_queue (f t v : Z) : list ss_move := if v =? 0 then [] else [(f, t, v)].

Lemma ss_transfer_moves : forall s f t v s', ss_transfer s f t v = Some s' ->
  st_bals s' = ss_moves_bals (st_bals s) (ss_queue f t v).
Proof.
  unfold ss_transfer, ss_queue; intros s f t v s' H. destruct (v =? 0); [inversion H; reflexivity|].
  destruct (ss_bal s f <? v); [discriminate|]. inversion H; subst. reflexivity.
Qed.

Lemma ss_lock_from_moves : forall c s cl v s', ss_lock_from c s cl v = Some s' ->
  st_bals s' = ss_moves_bals (st_bals s) (ss_queue cl (cf_sc c) v).
Proof. unfold ss_lock_from; intros c s cl v s' H. destruct (ss_bal s cl <? v); [discriminate|]. apply ss_transfer_moves; exact H. Qed.

(* ---------- operations that queue nothing ---------- *)

Ltac bals_base :=
  repeat match goal with
  | Hx : Some _ = Some _ |- _ => inversion Hx; subst; clear Hx
  end.
Ltac bals_done := cbn in *; congruence.

Lemma ss_commit_bals : forall c s sender alloc client root prev size ts sig s',
  ss_commit c s sender alloc client root prev size ts sig = Some s' -> st_bals s' = st_bals s.
Proof. unfold ss_commit; intros. crush H; bals_base; bals_done. Qed.

Lemma ss_gen_chal_bals : forall c s now round al bl ch s', ss_gen_chal c s now round al bl ch = Some s' -> st_bals s' = st_bals s.
Proof. unfold ss_gen_chal; intros. crush H; bals_base; bals_done. Qed.

Lemma ss_penalty_bals : forall c s a b ls lf vals s' a', ss_penalty c s a b ls lf vals = Some (s', a') -> st_bals s' = st_bals s.
Proof. unfold ss_penalty; intros. crush H; bals_base; bals_done. Qed.

Lemma ss_reward_bals : forall c s a b lf vals s' a', ss_reward c s a b lf vals = Some (s', a') -> st_bals s' = st_bals s.
Proof. unfold ss_reward; intros. crush H; bals_base; bals_done. Qed.

Lemma ss_chal_resp_bals : forall c s now round sender ch tok pass vals s',
  ss_chal_resp c s now round sender ch tok pass vals = Some s' -> st_bals s' = st_bals s.
Proof.
  unfold ss_chal_resp; intros. crush H; bals_base;
    repeat match goal with
    | Hx : ss_penalty _ _ _ _ _ _ _ = Some _ |- _ => apply ss_penalty_bals in Hx
    | Hx : ss_reward _ _ _ _ _ _ = Some _ |- _ => apply ss_reward_bals in Hx
    end; bals_done.
Qed.

Lemma ss_replace_bals : forall c s now round a r nb s' a' f, ss_replace c s now round a r nb = Some (s', a', f) -> st_bals s' = st_bals s.
Proof. unfold ss_replace; intros. crush H; bals_base; bals_done. Qed.

Lemma ss_change_blobbers_bals : forall c s now round a add rem s' a' f,
  ss_change_blobbers c s now round a add rem = Some (s', a', f) -> st_bals s' = st_bals s.
Proof.
  unfold ss_change_blobbers; intros. crush H; bals_base;
    repeat match goal with Hx : ss_replace _ _ _ _ _ _ _ = Some _ |- _ => apply ss_replace_bals in Hx end; bals_done.
Qed.

Lemma ss_extend_bals : forall c s now a size s' a' f, ss_extend c s now a size = Some (s', a', f) -> st_bals s' = st_bals s.
Proof. unfold ss_extend; intros. crush H; bals_base; bals_done. Qed.

Lemma ss_read_bals : forall c s client blobber alloc ts ctr i sg s', ss_read c s client blobber alloc ts ctr i sg = Some s' -> st_bals s' = st_bals s.
Proof. unfold ss_read; intros. crush H; bals_base; bals_done. Qed.

Lemma ss_kill_bals : forall c s a b s', ss_kill c s a b = Some s' -> st_bals s' = st_bals s.
Proof. unfold ss_kill; intros. crush H; bals_base; bals_done. Qed.
Lemma ss_shutdown_bals : forall c s a b s', ss_shutdown c s a b = Some s' -> st_bals s' = st_bals s.
Proof. unfold ss_shutdown; intros. crush H; bals_base; bals_done. Qed.
Lemma ss_upd_blobber_bals : forall c s a b cap wp rp na s', ss_upd_blobber c s a b cap wp rp na = Some s' -> st_bals s' = st_bals s.
Proof. unfold ss_upd_blobber; intros. crush H; bals_base; bals_done. Qed.
Lemma ss_add_assigner_bals : forall c s a n k i t s', ss_add_assigner c s a n k i t = Some s' -> st_bals s' = st_bals s.
Proof. unfold ss_add_assigner; intros. crush H; bals_base; bals_done. Qed.

(* ---------- operations that queue a transfer: which one ---------- *)

Lemma ss_new_alloc_moves : forall c s now id owner payer value tv data parity size bl rr wr tpe s',
  ss_new_alloc c s now id owner payer value tv data parity size bl rr wr tpe = Some s' ->
  st_bals s' = ss_moves_bals (st_bals s) (ss_queue payer (cf_sc c) value).
Proof.
  unfold ss_new_alloc; intros c s now id owner payer value tv data parity size bl rr wr tpe s' H.
  guard_inv H. bind_as H bls Ebl. cbv zeta in H. guard_inv H. bind_as H [bas all] Eas. bind_as H s1 E1. bind_as H cost Ec. guard_inv H. guard_inv H.
  inversion H; subst. clear H. cbn [st_bals st_with_allocs st_with_blobbers].
  destruct (value =? 0) eqn:Ev.
  - inversion E1; subst. unfold ss_queue. rewrite Ev. reflexivity.
  - guard_inv E1. apply ss_lock_from_moves in E1. exact E1.
Qed.

Lemma ss_wp_lock_moves : forall c s sender alloc value s', ss_wp_lock c s sender alloc value = Some s' ->
  st_bals s' = ss_moves_bals (st_bals s) (ss_queue sender (cf_sc c) value).
Proof.
  unfold ss_wp_lock; intros c s sender alloc value s' H. guard_inv H. guard_inv H. bind_as H s1 E1. bind_as H a Ea. bind_as H w Ew. guard_inv H.
  inversion H; subst. cbn [st_bals st_with_allocs]. apply ss_lock_from_moves in E1. exact E1.
Qed.

Lemma ss_rp_lock_moves : forall c s sender target value s', ss_rp_lock c s sender target value = Some s' ->
  st_bals s' = ss_moves_bals (st_bals s) (ss_queue sender (cf_sc c) value) /\ 0 < value.
Proof.
  unfold ss_rp_lock; intros c s sender target value s' H. guard_inv H. bind_as H s1 E1. bind_as H v Ev. inversion H; subst.
  cbn [st_bals st_with_rpools]. apply ss_lock_from_moves in E1. apply andb_true_iff in G. destruct G as [_ G]. apply Z.ltb_lt in G. auto.
Qed.

Lemma ss_rp_unlock_moves : forall c s sender s', ss_rp_unlock c s sender = Some s' ->
  exists v, st_bals s' = ss_moves_bals (st_bals s) (ss_queue (cf_sc c) sender v) /\ (rp_nonneg s -> 0 <= v).
Proof.
  unfold ss_rp_unlock; intros c s sender s' H. bind_as H v Ev. bind_as H s1 E1. inversion H; subst. exists v.
  cbn [st_bals st_with_rpools]. apply ss_transfer_moves in E1. split; [exact E1|].
  intros Hr. pose proof (assoc0_nonneg sender _ Hr) as Hn. unfold ss_assoc0 in Hn. rewrite Ev in Hn. exact Hn.
Qed.

Lemma ss_close_moves : forall c s now round a s', ss_close c s now round a = Some s' ->
  exists v, st_bals s' = ss_moves_bals (st_bals s) (ss_queue (cf_sc c) (al_owner a) v) /\ (al_c12 a -> 0 <= v).
Proof.
  unfold ss_close; intros c s now round a s' H.
  remember (ss_settle_all c round a) as r eqn:Er. destruct r as [[a1 rates] gone]. symmetry in Er.
  bind_as H cp Ecp. bind_as H [[bas bls1] paid] E1. bind_as H cp1 E2. bind_as H mb E3. bind_as H w E4. guard_inv H. bind_as H due E5.
  bind_as H [bls2 w2] E6. bind_as H bls3 E7. bind_as H s2 E8. inversion H; subst. clear H.
  exists w2. cbn [st_bals st_with_allocs]. apply ss_transfer_moves in E8. split; [exact E8|].
  intros Ha. assert (Ha1 : al_c12 a1) by (eapply al_c12_money_eq; [eapply ss_settle_all_money; eauto | exact Ha]).
  pose proof (al_c12_wpool _ Ha1) as Hw1.
  apply ss_minus_coin_some in E2. destruct E2 as [-> Hle]. apply ss_add_coin_some in E4. destruct E4 as [-> _].
  destruct due as [cc|].
  - bind_as E6 total Et. bind_as E6 [bls' charged] El. bind_as E6 w' Ew. guard_inv E6. inversion E6; subst.
    apply ss_minus_coin_some in Ew. destruct Ew as [-> Hlew]. lia.
  - inversion E6; subst. lia.
Qed.

Lemma ss_update_f_moves : forall c s now round sender alloc value size ext tpe add rem own s' f,
  ss_update_f c s now round sender alloc value size ext tpe add rem own = Some (s', f) ->
  st_bals s' = ss_moves_bals (st_bals s) (if ss_active (cf_demeter c) round && (0 <? value) then ss_queue sender (cf_sc c) value else []).
Proof.
  unfold ss_update_f; intros c s now round sender alloc value size ext tpe add rem own s' f H.
  cbv zeta in H. bind_as H a Ea. guard_inv H. guard_inv H. guard_inv H. guard_inv H. guard_inv H. guard_inv H. guard_inv H.
  bind_as H [s1 a1] E1. bind_as H fb Efb. bind_as H [[s2 a2] fired] E2. bind_as H cp Ecp. bind_as H need En. guard_inv H.
  inversion H; subst. clear H. cbn [st_bals st_with_allocs].
  assert (H2 : st_bals s2 = st_bals s1).
  { destruct (negb (sender =? al_owner a1)); [eapply ss_extend_bals; eauto|].
    bind_as E2 [[sa aa] f1] Ec. bind_as E2 [[sb ab] f2] Ee.
    assert (Hc : st_bals sa = st_bals s1) by (destruct add; [eapply ss_change_blobbers_bals; eauto | inversion Ec; reflexivity]).
    assert (He : st_bals sb = st_bals sa) by (destruct (ext || (0 <? size)); [eapply ss_extend_bals; eauto | inversion Ee; reflexivity]).
    crush E2; bals_base; congruence. }
  rewrite H2. destruct (ss_active (cf_demeter c) round && (0 <? value)).
  - bind_as E1 sx Ex. bind_as E1 w Ew. guard_inv E1. inversion E1; subst. apply ss_lock_from_moves in Ex. exact Ex.
  - inversion E1; subst. reflexivity.
Qed.

Lemma ss_free_alloc_moves : forall c s now id sender assigner recipient coin nonce sg bl s',
  ss_free_alloc c s now id sender assigner recipient coin nonce sg bl = Some s' ->
  exists free wtok, coin = Some free /\ 0 <= wtok <= free /\
    st_bals s' = ss_moves_bals (st_bals s) (ss_queue (cf_owner c) (cf_sc c) wtok).
Proof.
  unfold ss_free_alloc; intros c s now id sender assigner recipient coin nonce sg bl s' H.
  guard_inv H. bind_as H a Ea. bind_as H free Ef. guard_inv H. bind_as H nt Ent. guard_inv H. bind_as H rtok Er. bind_as H wtok Ew.
  bind_as H s1 E1. cbv zeta in H. bind_as H v Ev. inversion H; subst. clear H.
  apply f64_float_to_coin_range in Er. apply ss_minus_coin_some in Ew. destruct Ew as [-> Hle].
  exists free, (free - rtok). split; [reflexivity|]. split; [lia|].
  cbn [st_bals st_with_rpools st_with_assigners]. eapply ss_new_alloc_moves; eauto.
Qed.

(* ---------- the authorisation rule ---------- *)

Definition ss_op_sender (o : ss_op) : Z :=
  match o with
  | OpBad => -1
  | OpNewAlloc _ sender _ _ _ _ _ _ _ _ _ _ _ => sender
  | OpWPLock sender _ _ => sender
  | OpCommit sender _ _ _ _ _ _ _ => sender
  | OpGenChal _ => -1
  | OpChalResp sender _ _ _ _ => sender
  | OpUpdate sender _ _ _ _ _ _ _ _ => sender
  | OpFinalize sender _ => sender
  | OpCancel sender _ => sender
  | OpRPLock sender _ _ => sender
  | OpRPUnlock sender => sender
  | OpRead _ blobber _ _ _ _ _ => blobber
  | OpKill sender _ => sender
  | OpShutdown sender _ => sender
  | OpUpdBlobber sender _ _ _ _ _ => sender
  | OpAddAssigner sender _ _ _ _ => sender
  | OpFreeAlloc _ sender _ _ _ _ _ _ => sender
  end.

Definition ss_op_value (o : ss_op) : Z :=
  match o with
  | OpNewAlloc _ _ _ value _ _ _ _ _ _ _ _ _ => value
  | OpWPLock _ _ value => value
  | OpUpdate _ _ value _ _ _ _ _ _ => value
  | OpRPLock _ _ value => value
  | _ => 0
  end.

(* a free-storage marker the assigner really issued for this sender and that may still be redeemed *)
Definition ss_free_grant (s : ss_state) (o : ss_op) (grant : Z) : Prop :=
  match o with
  | OpFreeAlloc _ sender assigner recipient coin nonce signer _ =>
      sender = recipient /\ ss_marker_sig_ok s assigner signer = true /\ coin = Some grant /\
      exists a, ss_find_assigner assigner (st_assigners s) = Some a /\ ~ In nonce (as_nonces a) /\
                grant <= as_indiv a /\ as_redeemed a + grant <= as_total a
  | _ => False
  end.

Definition ss_move_auth (c : ss_conf) (s : ss_state) (o : ss_op) (m : ss_move) : Prop :=
  let '(f, _, v) := m in
  f = cf_sc c \/
  (f = ss_op_sender o /\ 0 < v <= ss_op_value o) \/
  (f = cf_owner c /\ exists grant, ss_free_grant s o grant /\ 0 < v <= grant).

Definition ss_moves_auth (c : ss_conf) (s : ss_state) (o : ss_op) (ms : list ss_move) : Prop :=
  Forall (ss_move_auth c s o) ms /\ (length ms <= 1)%nat.

Lemma auth_nil : forall c s o, ss_moves_auth c s o [].
Proof. intros; split; [constructor | cbn; lia]. Qed.

Lemma auth_sc : forall c s o t v, ss_moves_auth c s o (ss_queue (cf_sc c) t v).
Proof. intros; unfold ss_queue. destruct (v =? 0); [apply auth_nil|]. split; [repeat constructor | cbn; lia]. Qed.

Lemma auth_sender : forall c s o t v, 0 <= v <= ss_op_value o -> ss_moves_auth c s o (ss_queue (ss_op_sender o) t v).
Proof.
  intros c s o t v Hv; unfold ss_queue. destruct (Z.eqb_spec v 0); [apply auth_nil|].
  split; [|cbn; lia]. constructor; [|constructor]. right; left. split; [reflexivity | lia].
Qed.

Definition ss_moves_nonneg (ms : list ss_move) : Prop := Forall (fun m : ss_move => 0 <= snd m) ms.

Lemma nonneg_nil : ss_moves_nonneg [].
Proof. constructor. Qed.
Lemma nonneg_queue : forall f t v, 0 <= v -> ss_moves_nonneg (ss_queue f t v).
Proof. intros; unfold ss_queue. destruct (v =? 0); repeat constructor; auto. Qed.

(* Every modelled operation: the balances after it are the balances before it with a queue of at
   most one transfer applied, and that transfer comes out of the contract's own wallet, or out of
   the sender (at most the transaction value), or - free_allocation_request under a valid marker
   only - out of the configured owner wallet (at most the grant).  Under the ledger invariants
   (C12 invariant, read pools non-negative) no queued amount is negative. *)
Theorem st_transfers_authorised : forall c s now round o s',
  ss_op_wf o -> ss_apply c s now round o = Some s' ->
  exists ms, st_bals s' = ss_moves_bals (st_bals s) ms /\ ss_moves_auth c s o ms /\
             (st_c12 s -> rp_nonneg s -> ss_moves_nonneg ms).
Proof.
  intros c s now round o s' Hwf H. destruct o; cbn [ss_apply ss_op_wf] in *.
  - discriminate.
  - eexists; split; [eapply ss_new_alloc_moves; eauto|]. split; [|intros; apply nonneg_queue; lia].
    apply (auth_sender c s (OpNewAlloc id sender owner value data parity size blobbers rrmin rrmax wrmin wrmax tpe)). cbn; lia.
  - eexists; split; [eapply ss_wp_lock_moves; eauto|]. split; [|intros; apply nonneg_queue; lia].
    apply (auth_sender c s (OpWPLock sender alloc value)). cbn; lia.
  - exists []. split; [cbn; eapply ss_commit_bals; eauto | split; [apply auth_nil | intros; apply nonneg_nil]].
  - exists []. split; [|split; [apply auth_nil | intros; apply nonneg_nil]].
    destruct sel as [[[al bl] ch]|]; [cbn; eapply ss_gen_chal_bals; eauto | inversion H; reflexivity].
  - exists []. split; [cbn; eapply ss_chal_resp_bals; eauto | split; [apply auth_nil | intros; apply nonneg_nil]].
  - unfold ss_update in H. destruct (ss_update_f c s now round sender alloc value size extend set_tpe add remove new_owner) as [[sx f]|] eqn:E; [|discriminate].
    inversion H; subst. eexists; split; [eapply ss_update_f_moves; eauto|].
    destruct (ss_active (cf_demeter c) round && (0 <? value)); [|split; [apply auth_nil | intros; apply nonneg_nil]].
    split; [|intros; apply nonneg_queue; lia].
    apply (auth_sender c s (OpUpdate sender alloc value size extend set_tpe add remove new_owner)). cbn; lia.
  - unfold ss_finalize in H. bind_as H a Ea. guard_inv H. guard_inv H. guard_inv H.
    destruct (ss_close_moves _ _ _ _ _ _ H) as [v [Hv Hn]]. eexists; split; [exact Hv | split; [apply auth_sc|]].
    intros H12 _. apply nonneg_queue. apply Hn. eapply st_c12_find; eauto.
  - unfold ss_cancel in H. bind_as H a Ea. guard_inv H. guard_inv H. guard_inv H.
    destruct (ss_close_moves _ _ _ _ _ _ H) as [v [Hv Hn]]. eexists; split; [exact Hv | split; [apply auth_sc|]].
    intros H12 _. apply nonneg_queue. apply Hn. eapply st_c12_find; eauto.
  - destruct (ss_rp_lock_moves _ _ _ _ _ _ H) as [Hm Hv]. eexists; split; [exact Hm|]. split; [|intros; apply nonneg_queue; lia].
    apply (auth_sender c s (OpRPLock sender target value)). cbn; lia.
  - destruct (ss_rp_unlock_moves _ _ _ _ H) as [v [Hv Hn]]. eexists; split; [exact Hv | split; [apply auth_sc|]].
    intros _ Hr. apply nonneg_queue. auto.
  - exists []. split; [cbn; eapply ss_read_bals; eauto | split; [apply auth_nil | intros; apply nonneg_nil]].
  - exists []. split; [cbn; eapply ss_kill_bals; eauto | split; [apply auth_nil | intros; apply nonneg_nil]].
  - exists []. split; [cbn; eapply ss_shutdown_bals; eauto | split; [apply auth_nil | intros; apply nonneg_nil]].
  - exists []. split; [cbn; eapply ss_upd_blobber_bals; eauto | split; [apply auth_nil | intros; apply nonneg_nil]].
  - exists []. split; [cbn; eapply ss_add_assigner_bals; eauto | split; [apply auth_nil | intros; apply nonneg_nil]].
  - destruct (ss_free_alloc_moves _ _ _ _ _ _ _ _ _ _ _ _ H) as [free [wtok [Hc [Hw Hm]]]].
    destruct (ss_free_alloc_spec _ _ _ _ _ _ _ _ _ _ _ _ H) as [Hs [Hsig [a [free' [Ha [Hc' [Hn [Hi [Ht _]]]]]]]]].
    rewrite Hc in Hc'. inversion Hc'; subst free'.
    eexists; split; [exact Hm|]. split; [|intros; apply nonneg_queue; lia].
    unfold ss_queue. destruct (Z.eqb_spec wtok 0); [apply auth_nil|].
    split; [|cbn; lia]. constructor; [|constructor]. right; right. split; [reflexivity|].
    exists free. split; [|lia]. cbn. repeat split; auto. exists a. auto.
Qed.

(* ---------- in terms of balances ---------- *)

Lemma ss_move_bals_other : forall bals f t v id, id <> f -> id <> t -> ss_assoc0 id (ss_move_bals bals (f, t, v)) = ss_assoc0 id bals.
Proof.
  intros bals f t v id Hf Ht. unfold ss_move_bals. rewrite !ss_assoc0_set.
  destruct (Z.eqb_spec id t); [contradiction|]. destruct (Z.eqb_spec id f); [contradiction | reflexivity].
Qed.

Lemma ss_move_bals_debit : forall bals f t v id, 0 <= v ->
  ss_assoc0 id (ss_move_bals bals (f, t, v)) < ss_assoc0 id bals ->
  id = f /\ ss_assoc0 id bals - ss_assoc0 id (ss_move_bals bals (f, t, v)) <= v.
Proof.
  intros bals f t v id Hv H. unfold ss_move_bals in *. rewrite !ss_assoc0_set in *.
  destruct (Z.eqb_spec id t); destruct (Z.eqb_spec id f); subst; try rewrite ?Z.eqb_refl in *;
    repeat match goal with
    | Hx : context [?a =? ?b] |- _ => destruct (Z.eqb_spec a b); try contradiction; try congruence
    | |- context [?a =? ?b] => destruct (Z.eqb_spec a b); try contradiction; try congruence
    end; split; try reflexivity; try lia.
Qed.

(* An account whose balance fell is the contract's own wallet, or the sender (by at most the
   value), or the owner wallet under a valid free-storage marker (by at most the grant). *)
Theorem ss_debits_authorised : forall c s now round o s' id,
  st_c12 s -> rp_nonneg s -> ss_op_wf o -> ss_apply c s now round o = Some s' ->
  ss_bal s' id < ss_bal s id ->
  id = cf_sc c \/
  (id = ss_op_sender o /\ ss_bal s id - ss_bal s' id <= ss_op_value o) \/
  (id = cf_owner c /\ exists grant, ss_free_grant s o grant /\ ss_bal s id - ss_bal s' id <= grant).
Proof.
  intros c s now round o s' id H12 Hrp Hwf H Hd.
  destruct (st_transfers_authorised _ _ _ _ _ _ Hwf H) as [ms [Hb [[Hf Hl] Hnn]]].
  specialize (Hnn H12 Hrp).
  unfold ss_bal in *. rewrite Hb in *. clear Hb.
  destruct ms as [|[[f t] v] tl]; [cbn in Hd; lia|]. destruct tl; [|cbn in Hl; lia].
  cbn [ss_moves_bals] in *. inversion Hf as [|? ? Ha _]; subst. cbn in Ha.
  inversion Hnn as [|? ? Hv0 _]; subst. cbn in Hv0.
  apply ss_move_bals_debit in Hd; [|exact Hv0]. destruct Hd as [-> Hd].
  destruct Ha as [Ha|[[Ha Hv]|[Ha [g [Hg Hv]]]]].
  - left; exact Ha.
  - right; left. split; [exact Ha | lia].
  - right; right. split; [exact Ha|]. exists g. split; [exact Hg | lia].
Qed.
