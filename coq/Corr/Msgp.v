(* Correspondence for C08: cases observed on the real generated MarshalMsg/UnmarshalMsg code,
   the entitywrapper versions and chaincore/state.State; [mpc_check] re-runs the model. *)
From ZC Require Import Base.Corr Model.Msgp Model.StateBin Proof.Msgp Gen.MsgpSchema.
Open Scope Z_scope.

Inductive mpc_case :=
(* a value of the named schema, the bytes MarshalMsg produced for it, and the bytes of
   marshalling again what UnmarshalMsg made of them (None: UnmarshalMsg failed) *)
| McEnc (name : string) (v : mp_val) (bytes : list Z) (again : option (list Z))
(* arbitrary input bytes given to UnmarshalMsg of a fresh object: error, or the bytes of
   marshalling the decoded object again together with the bytes UnmarshalMsg left over *)
| McDec (name : string) (input : list Z) (out : option (list Z * list Z))
(* wrapper [name]: entity of version old_tag, and what new_tag's MigrateFrom made of it *)
| McMig (name : string) (old_tag new_tag : list Z) (old new : mp_val)
(* State: Encode (None = panic), and Decode of those bytes *)
| McState (s : sb_state) (enc : option (list Z)) (dec : option sb_state)
| McStateDec (input : list Z) (dec : option sb_state).

Fixpoint mpc_schema (name : string) (l : list (string * mp_ty)) : option mp_ty :=
  match l with
  | [] => None
  | (n, t) :: tl => if String.eqb n name then Some t else mpc_schema name tl
  end.

Definition mpc_bytes_eqb := list_eqb Z.eqb.

Fixpoint mpc_alt (tag : list Z) (alts : list (list Z * mp_ty)) : option (list (list Z * mp_ty)) :=
  match alts with
  | [] => None
  | (k, TStruct fs) :: tl => if mp_key_eqb k tag then Some fs else mpc_alt tag tl
  | _ :: tl => mpc_alt tag tl
  end.

Definition mpc_state_eqb (a b : sb_state) : bool :=
  option_eqb mpc_bytes_eqb (sb_hash a) (sb_hash b) && Z.eqb (sb_round a) (sb_round b) &&
  Z.eqb (sb_balance a) (sb_balance b) && Z.eqb (sb_nonce a) (sb_nonce b).

Definition mpc_check (c : mpc_case) : bool :=
  match c with
  | McEnc name v bytes again =>
      match mpc_schema name msgp_schemas with
      | None => false
      | Some t =>
          mpc_bytes_eqb (mp_enc t v) bytes &&
          match mp_dec t bytes, again with
          | Some (v', []), Some a =>
              mpc_bytes_eqb (mp_enc t v') a &&
              (if mp_wf_tyb t then mp_val_eqb v' v else true)   (* lossless schemas give the value back *)
          | None, None => true
          | _, _ => false
          end
      end
  | McDec name input out =>
      match mpc_schema name msgp_schemas with
      | None => false
      | Some t =>
          match mp_dec t input, out with
          | None, None => true
          | Some (v', rest), Some (again, lft) => mpc_bytes_eqb (mp_enc t v') again && mpc_bytes_eqb rest lft
          | _, _ => false
          end
      end
  | McMig name old_tag new_tag old new =>
      match mpc_schema name msgp_schemas with
      | Some (TVer alts) =>
          match mpc_alt old_tag alts, mpc_alt new_tag alts, old with
          | Some fo, Some fn, VStruct vo => mp_val_eqb (VStruct (mp_migrate new_tag fo vo fn)) new
          | _, _, _ => false
          end
      | _ => false
      end
  | McState s enc dec =>
      match sb_encode s, enc with
      | SbPanic, None => true
      | SbBytes b, Some b' =>
          mpc_bytes_eqb b b' && option_eqb mpc_state_eqb (sb_decode b) dec
      | _, _ => false
      end
  | McStateDec input dec => option_eqb mpc_state_eqb (sb_decode input) dec
  end.
