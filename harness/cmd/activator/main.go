// Engine for C43: histories of hard-fork records on a real StateContext over an in-memory MPT,
// real state.WithActivation / state.GetRoundByName; the oracle checks the property statement
// against a plain reference map; every history is also emitted as a case for the Coq model.
package main

import (
	"errors"
	"encoding/json"
	"fmt"
	"math"
	"sort"
	"strings"

	"0chain.net/smartcontract/minersc"

	cstate "0chain.net/chaincore/chain/state"
	"github.com/0chain/common/core/statecache"
	"github.com/0chain/common/core/util"
	"github.com/tinylib/msgp/msgp"
	"verifharness/sc"
	"verifharness/vh"
)

type fork struct {
	Name string `json:"n"`
	R    int64  `json:"r"`
}

const owner = "1746b06bb09f55ee01b33b5e2e055d6cc7a900cb57c0a3a5eaabb8a0e7745802"

type op struct {
	K     string `json:"k"` // record|addforks|corrupt|delete|break|query|getround
	Forks []fork `json:"forks,omitempty"` // addforks: one minersc add_hardfork transaction with this request map
	Name string `json:"n,omitempty"`
	R    int64  `json:"r,omitempty"`  // fork round (record) or block round (query)
	BE   int64  `json:"be,omitempty"` // error token returned by the before callback (0 = nil)
	AE   int64  `json:"ae,omitempty"`
}

type hist struct {
	Ops []op `json:"ops"`
}

// a value that is not a HardFork (msgpack string instead of a map)
type garbage struct{}

func (g *garbage) MarshalMsg(b []byte) ([]byte, error) { return msgp.AppendString(b, "not a fork"), nil }
func (g *garbage) UnmarshalMsg(b []byte) ([]byte, error) {
	_, o, err := msgp.ReadStringBytes(b)
	return o, err
}
func (g *garbage) Msgsize() int { return 16 }

type tokErr struct{ tok int64 }

func (e *tokErr) Error() string { return fmt.Sprintf("callback error %d", e.tok) }

func mkErr(tok int64) error {
	if tok == 0 {
		return nil
	}
	return &tokErr{tok}
}

type refEntry struct {
	round   int64
	garbage bool
}

type result struct {
	outs  []string
	fails []string
	kinds map[string]int
}

func errKind(err error) string {
	switch {
	case err == nil:
		return "AcOk"
	case errors.Is(err, util.ErrValueNotPresent):
		return "AcErrValueNotPresent"
	case errors.Is(err, util.ErrNodeNotFound):
		return "AcErrNodeNotFound"
	default:
		return "AcErrOther"
	}
}

func run(h hist) result {
	res := result{kinds: map[string]int{}}
	fail := func(f string) {
		for _, x := range res.fails {
			if x == f {
				return
			}
		}
		res.fails = append(res.fails, f)
	}
	var mpt util.MerklePatriciaTrieI = sc.NewMPT()
	ref := map[string]refEntry{}
	broken := false
	ownerSet := false
	for _, o := range h.Ops {
		switch o.K {
		case "record", "corrupt", "delete":
			res.outs = append(res.outs, "AcDone")
			if broken {
				panic("generator: no writes after break")
			}
			ctx := sc.NewCtx(mpt, 1, nil)
			key := cstate.NewHardFork(o.Name, 0).GetKey()
			var err error
			switch o.K {
			case "record":
				_, err = ctx.InsertTrieNode(key, cstate.NewHardFork(o.Name, o.R))
				ref[o.Name] = refEntry{round: o.R}
			case "corrupt":
				_, err = ctx.InsertTrieNode(key, &garbage{})
				ref[o.Name] = refEntry{garbage: true}
			default:
				_, err = ctx.DeleteTrieNode(key)
				if _, had := ref[o.Name]; !had && errors.Is(err, util.ErrValueNotPresent) {
					err = nil
				}
				delete(ref, o.Name)
			}
			if err != nil {
				panic(fmt.Sprintf("%s %q: %v", o.K, o.Name, err))
			}
			res.kinds[o.K]++
		case "addforks":
			res.outs = append(res.outs, "AcDone")
			if broken {
				panic("generator: no writes after break")
			}
			txn := sc.Txn("verif add_hardfork", owner, minersc.ADDRESS, 0, 1)
			ctx := sc.NewCtx(mpt, 1, txn)
			if !ownerSet {
				gn := &minersc.GlobalNode{OwnerId: owner}
				if _, err := ctx.InsertTrieNode(minersc.GlobalNodeKey, gn); err != nil {
					panic(err)
				}
				ownerSet = true
			}
			fields := map[string]string{}
			for _, f := range o.Forks {
				fields[f.Name] = fmt.Sprint(f.R)
			}
			input, _ := json.Marshal(map[string]interface{}{"fields": fields})
			if _, err := minersc.NewMinerSmartContract().Execute(txn, "add_hardfork", input, ctx); err != nil {
				panic(fmt.Sprintf("add_hardfork: %v", err))
			}
			res.kinds["addforks"]++
			res.kinds[fmt.Sprintf("addforks-%d-names", len(o.Forks))]++
			for _, f := range o.Forks {
				ref[f.Name] = refEntry{round: f.R}
			}
			// every submitted name must report its own submitted round
			for _, f := range o.Forks {
				r, err := cstate.GetRoundByName(sc.NewCtx(mpt, 2, nil), f.Name)
				if err != nil || r != f.R {
					fail("add-hardfork-recorded-round-differs-from-submitted-round")
				}
			}
		case "break":
			res.outs = append(res.outs, "AcDone")
			// make sure the root is a real node first, then point the trie at a node the DB does not have
			if _, err := sc.NewCtx(mpt, 1, nil).InsertTrieNode("verif:dummy", &garbage{}); err != nil {
				panic(err)
			}
			// a trie with the same root over a node DB that does not hold the nodes (e.g. state not synced yet)
			mpt = util.NewMerklePatriciaTrie(util.NewMemoryNodeDB(), 1, mpt.GetRoot(), statecache.NewEmpty())
			broken = true
			res.kinds["break"]++
		case "getround":
			ctx := sc.NewCtx(mpt, 1, nil)
			r, err := cstate.GetRoundByName(ctx, o.Name)
			res.outs = append(res.outs, fmt.Sprintf("(AcRound %s %s)", vh.Z(r), errKind(err)))
			e, has := ref[o.Name]
			switch {
			case broken:
				if !errors.Is(err, util.ErrNodeNotFound) {
					fail("node-not-found-not-reported")
				}
			case has && !e.garbage:
				if err != nil || r != e.round {
					fail("getroundbyname-not-the-recorded-round")
				}
			default:
				if err == nil || r != math.MaxInt64 {
					fail("unrecorded-fork-has-a-round")
				}
			}
		case "query":
			ctx := sc.NewCtx(mpt, o.R, nil)
			ranB, ranA := 0, 0
			ret := cstate.WithActivation(ctx, o.Name,
				func() error { ranB++; return mkErr(o.BE) },
				func() error { ranA++; return mkErr(o.AE) })
			branch := "AcNone"
			switch {
			case ranB == 1 && ranA == 0:
				branch = "AcBefore"
			case ranA == 1 && ranB == 0:
				branch = "AcAfter"
			case ranA+ranB > 0:
				fail("more-than-one-callback-ran")
			}
			tok := int64(-2)
			var te *tokErr
			switch {
			case ret == nil:
				tok = 0
			case errors.As(ret, &te):
				tok = te.tok
			case errors.Is(ret, util.ErrNodeNotFound):
				tok = -1
			}
			res.outs = append(res.outs, fmt.Sprintf("(AcRan %s %s)", branch, vh.Z(tok)))
			// ---- oracle: the property statement ----
			e, has := ref[o.Name]
			switch {
			case broken:
				res.kinds["query-broken-trie"]++
				if branch != "AcNone" || tok != -1 {
					fail("node-not-found-not-propagated")
				}
			case has && !e.garbage:
				if o.R < e.round {
					res.kinds["query-before-fork"]++
					if branch != "AcBefore" {
						fail("post-fork-rules-before-the-fork-round")
					}
				} else {
					res.kinds["query-at-or-after-fork"]++
					if branch != "AcAfter" {
						fail("pre-fork-rules-at-or-after-the-fork-round")
					}
				}
			default:
				if o.R == math.MaxInt64 {
					res.kinds["edge-unrecorded-fork-at-maxint64"]++ // documented, outside the domain
				} else {
					res.kinds["query-unrecorded-fork"]++
					if branch != "AcBefore" {
						fail("unrecorded-fork-does-not-keep-pre-fork-rules")
					}
				}
			}
			if branch == "AcBefore" && tok != o.BE || branch == "AcAfter" && tok != o.AE {
				fail("callback-error-not-returned")
			}
		default:
			panic("unknown op " + o.K)
		}
	}
	return res
}

func coqCase(h hist, res result) string {
	ops := make([]string, len(h.Ops))
	for i, o := range h.Ops {
		switch o.K {
		case "record":
			ops[i] = fmt.Sprintf("AcRecord %s %s", vh.Str(o.Name), vh.Z(o.R))
		case "addforks":
			fs := append([]fork{}, o.Forks...)
			sort.Slice(fs, func(a, b int) bool { return fs[a].Name < fs[b].Name })
			var ps []string
			for _, f := range fs {
				ps = append(ps, vh.Pair(vh.Str(f.Name), vh.Z(f.R)))
			}
			ops[i] = "AcRecordMany " + vh.List(ps)
		case "corrupt":
			ops[i] = "AcCorrupt " + vh.Str(o.Name)
		case "delete":
			ops[i] = "AcDelete " + vh.Str(o.Name)
		case "break":
			ops[i] = "AcBreak"
		case "getround":
			ops[i] = "AcGetRound " + vh.Str(o.Name)
		default:
			ops[i] = fmt.Sprintf("AcQuery %s %s %s %s", vh.Str(o.Name), vh.Z(o.R), vh.Z(o.BE), vh.Z(o.AE))
		}
	}
	return fmt.Sprintf("{| acc_ops := %s; acc_outs := %s |}", vh.List(ops), vh.List(res.outs))
}

var names = []string{"electra", "demeter", "apollo", "ares", "", "electra2", "elect", "hardfork:electra", "a:b", "x"}

var edgeRounds = []int64{0, 1, 2, 5, 100, 101, 1 << 53, 1<<53 + 1, 1<<62 + 1, math.MaxInt64 - 1, math.MaxInt64, -1, -100, math.MinInt64}

func pickRound(r *vh.Rand) int64 {
	if r.Chance(1, 3) {
		return r.Pick64(edgeRounds)
	}
	return int64(r.Intn(300))
}

func near(r *vh.Rand, x int64) int64 {
	d := int64(r.Intn(5)) - 2
	if (d > 0 && x > math.MaxInt64-d) || (d < 0 && x < math.MinInt64-d) {
		return x
	}
	return x + d
}

func gen(r *vh.Rand, malformed bool) hist {
	var h hist
	recorded := map[string]int64{}
	n := r.Range(3, 25)
	for i := 0; i < n; i++ {
		name := names[r.Intn(len(names))]
		switch x := r.Intn(20); {
		case x < 5:
			rr := pickRound(r)
			h.Ops = append(h.Ops, op{K: "record", Name: name, R: rr})
			recorded[name] = rr
			if r.Chance(1, 2) { // walk a chain of blocks across the fork round
				for d := int64(-2); d <= 2; d++ {
					if (d > 0 && rr > math.MaxInt64-d) || (d < 0 && rr < math.MinInt64-d) {
						continue
					}
					h.Ops = append(h.Ops, op{K: "query", Name: name, R: rr + d, BE: int64(r.Intn(3)), AE: int64(r.Intn(3)) * 10})
				}
			}
		case x < 7 && !malformed && r.Chance(1, 2):
			// one add_hardfork transaction with 1..8 forks, distinct names, distinct rounds; then each fork is
			// asked for its round and walked across r-1, r, r+1
			k := r.Range(1, 8)
			var fs []fork
			used := map[int64]bool{}
			for _, ni := range r.Perm(len(names))[:k] {
				rr := pickRound(r)
				for used[rr] {
					rr = int64(r.Intn(100000))
				}
				used[rr] = true
				fs = append(fs, fork{names[ni], rr})
				recorded[names[ni]] = rr
			}
			h.Ops = append(h.Ops, op{K: "addforks", Forks: fs})
			for _, f := range fs {
				h.Ops = append(h.Ops, op{K: "getround", Name: f.Name})
				for d := int64(-1); d <= 1; d++ {
					if (d > 0 && f.R > math.MaxInt64-d) || (d < 0 && f.R < math.MinInt64-d) {
						continue
					}
					h.Ops = append(h.Ops, op{K: "query", Name: f.Name, R: f.R + d, BE: 1, AE: 20})
				}
			}
		case x < 6 && malformed:
			h.Ops = append(h.Ops, op{K: "corrupt", Name: name})
			delete(recorded, name)
		case x < 7:
			h.Ops = append(h.Ops, op{K: "delete", Name: name})
			delete(recorded, name)
		case x < 9:
			h.Ops = append(h.Ops, op{K: "getround", Name: name})
		default:
			br := pickRound(r)
			if fr, ok := recorded[name]; ok && r.Chance(2, 3) {
				br = near(r, fr)
			}
			h.Ops = append(h.Ops, op{K: "query", Name: name, R: br, BE: int64(r.Intn(3)), AE: int64(r.Intn(3)) * 10})
		}
	}
	if malformed && r.Chance(1, 2) {
		h.Ops = append(h.Ops, op{K: "break"})
		for i := 0; i < r.Range(1, 5); i++ {
			name := names[r.Intn(len(names))]
			if r.Bool() {
				h.Ops = append(h.Ops, op{K: "query", Name: name, R: pickRound(r), BE: 1, AE: 20})
			} else {
				h.Ops = append(h.Ops, op{K: "getround", Name: name})
			}
		}
	}
	return h
}

func key(h hist) string {
	var b strings.Builder
	for _, o := range h.Ops {
		fmt.Fprintf(&b, "|%s,%s,%d,%d,%d,%v", o.K, o.Name, o.R, o.BE, o.AE, o.Forks)
	}
	return b.String()
}

func main() {
	o := vh.ParseFlags()
	sc.Init()
	rep := vh.NewReport("activator", "C43", o)
	rep.Rule = "histories over 10 fork names; forks are recorded by direct InsertTrieNode and by real minersc add_hardfork transactions (MinerSmartContract.Execute as owner) carrying 1..8 forks with distinct names and rounds, each then asked for GetRoundByName and walked over r-1, r, r+1; (incl. empty, prefix-related and ':'-containing names): records with rounds 0..300 and edge values (0, +-1, 2^53+-1, 2^62, MaxInt64-1, MaxInt64, negative, MinInt64), " +
		"re-records, deletes, block-round walks r-2..r+2 across each fork round, queries near the recorded round and at edge rounds, GetRoundByName; malformed stream adds non-HardFork values under the fork key and a trie with an unresolvable root; " +
		"exhaustive: fork round x block round over a 9-value grid, recorded/absent; non-trivial = a recorded fork was queried both before and at/after its round and an unrecorded fork was queried; distinct by op list"
	cf := &vh.CasesFile{Imports: []string{"Base.Corr", "Model.Activator", "Corr.Activator"}, CaseType: "ac_case", CheckFn: "ac_check", Shard: 100}

	handle := func(h hist, toCoq bool) {
		res := run(h)
		for k, n := range res.kinds {
			rep.CountN(k, n)
		}
		kk := res.kinds
		rep.Case(key(h), kk["query-before-fork"] > 0 && kk["query-at-or-after-fork"] > 0 && kk["query-unrecorded-fork"] > 0, h)
		if toCoq {
			cf.Add(coqCase(h, res))
			rep.CaseInputs = append(rep.CaseInputs, h)
		}
		for _, f := range res.fails {
			has := func(h2 hist) bool {
				for _, x := range run(h2).fails {
					if x == f {
						return true
					}
				}
				return false
			}
			keep := vh.ShrinkIdx(len(h.Ops), func(keep []int) bool {
				var h2 hist
				brk := false
				for _, i := range keep {
					if brk && (h.Ops[i].K == "record" || h.Ops[i].K == "addforks" || h.Ops[i].K == "corrupt" || h.Ops[i].K == "delete") {
						return false
					}
					if h.Ops[i].K == "break" {
						brk = true
					}
					h2.Ops = append(h2.Ops, h.Ops[i])
				}
				return has(h2)
			})
			var h2 hist
			for _, i := range keep {
				h2.Ops = append(h2.Ops, h.Ops[i])
			}
			rep.Violate("C43:"+f, "hard-fork activation: "+f, h2)
		}
	}
	finish := func() {
		files, err := cf.Write(o.Out, "C43")
		if err != nil {
			panic(err)
		}
		rep.CaseFiles = files
		rep.ShardSize = 100
		rep.Write(o.Out)
	}
	var rh hist
	if o.LoadReplay(&rh) {
		rep.Note("replay of one history")
		handle(rh, true)
		finish()
		return
	}
	rnd := vh.NewRand(o.Seed)
	for i := 0; i < o.N(250, 3000); i++ {
		handle(gen(rnd, false), true)
	}
	for i := 0; i < o.N(100, 1000); i++ {
		handle(gen(rnd, true), true)
	}
	// fixed: the eight-fork request of a typical network upgrade, recorded with one transaction
	{
		var h hist
		fs := []fork{{"apollo", 100}, {"ares", 250}, {"artemis", 400}, {"athena", 1000}, {"demeter", 5000}, {"electra", 20000}, {"hercules", 75000}, {"hermes", 300000}}
		h.Ops = append(h.Ops, op{K: "addforks", Forks: fs})
		for _, f := range fs {
			h.Ops = append(h.Ops, op{K: "getround", Name: f.Name}, op{K: "query", Name: f.Name, R: f.R - 1, BE: 1, AE: 20}, op{K: "query", Name: f.Name, R: f.R, BE: 1, AE: 20})
		}
		handle(h, true)
	}
	grid := []int64{math.MinInt64, -1, 0, 1, 100, 101, math.MaxInt64 - 1, math.MaxInt64, 1 << 53}
	nExh := 0
	for _, fr := range grid {
		var h, h0 hist
		h.Ops = append(h.Ops, op{K: "record", Name: "electra", R: fr})
		for _, br := range grid {
			h.Ops = append(h.Ops, op{K: "query", Name: "electra", R: br, BE: 1, AE: 20})
			h.Ops = append(h.Ops, op{K: "query", Name: "demeter", R: br, BE: 1, AE: 20})
			h0.Ops = append(h0.Ops, op{K: "query", Name: "electra", R: br, BE: 0, AE: 0})
			nExh += 3
		}
		handle(h, true)
		handle(h0, fr == 0)
	}
	rep.Note("exhaustive: %d queries = fork round x block round over %v, fork recorded / another name / nothing recorded", nExh, grid)
	finish()
}
