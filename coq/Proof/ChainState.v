(* Lemmas about Model/ChainState.v shared by C01-C05: finite maps, the single transfer,
   the transfer loops, incrementNonce, and the decomposition of an applied updateState. *)
From ZC Require Import Model.ChainState.
Open Scope Z_scope.

(* ---------- finite maps ---------- *)
Section MapLemmas.
  Context {A : Type}.
  Implicit Types (l : list (Z * A)).

  Lemma cs_get_put_same : forall l k (v : A), cs_get k (cs_put k v l) = Some v.
  Proof.
    induction l as [|[k' v'] tl IH]; intros k v; cbn [cs_put cs_get].
    - rewrite Z.eqb_refl. reflexivity.
    - destruct (Z.eqb_spec k k') as [E|NE].
      + cbn [cs_get]. rewrite Z.eqb_refl. reflexivity.
      + destruct (Z.ltb_spec k k') as [L|G]; cbn [cs_get].
        * rewrite Z.eqb_refl. reflexivity.
        * destruct (Z.eqb_spec k k'); [contradiction|].
          destruct (Z.ltb_spec k k'); [lia|]. apply IH.
  Qed.

  Lemma cs_get_put_other : forall l k k' (v : A), k <> k' -> cs_get k' (cs_put k v l) = cs_get k' l.
  Proof.
    induction l as [|[k0 v0] tl IH]; intros k k' v NE; cbn [cs_put cs_get].
    - destruct (Z.eqb_spec k' k); [congruence|].
      destruct (Z.ltb_spec k' k); reflexivity.
    - destruct (Z.eqb_spec k k0) as [E|NE0].
      + subst k0. cbn [cs_get]. destruct (Z.eqb_spec k' k); [congruence|]. reflexivity.
      + destruct (Z.ltb_spec k k0) as [L|G]; cbn [cs_get].
        * destruct (Z.eqb_spec k' k); [congruence|].
          destruct (Z.ltb_spec k' k) as [L2|G2].
          -- destruct (Z.eqb_spec k' k0); [lia|].
             destruct (Z.ltb_spec k' k0); [reflexivity|lia].
          -- reflexivity.
        * destruct (Z.eqb_spec k' k0); [reflexivity|].
          destruct (Z.ltb_spec k' k0); [reflexivity|]. apply IH. exact NE.
  Qed.

  Lemma cs_put_Forall : forall (P : Z * A -> Prop) l k v,
      Forall P l -> P (k, v) -> Forall P (cs_put k v l).
  Proof.
    induction l as [|[k0 v0] tl IH]; intros k v HF HP; cbn [cs_put].
    - constructor; [exact HP|constructor].
    - inversion HF; subst.
      destruct (k =? k0); [constructor; assumption|].
      destruct (k <? k0); [constructor; [exact HP|assumption]|].
      constructor; [assumption|]. apply IH; assumption.
  Qed.

  Lemma cs_get_In : forall l k (v : A), cs_get k l = Some v -> In (k, v) l.
  Proof.
    induction l as [|[k0 v0] tl IH]; intros k v H; cbn [cs_get] in H; [discriminate|].
    destruct (Z.eqb_spec k k0).
    - inversion H; subst. left; reflexivity.
    - destruct (k <? k0); [discriminate|]. right. apply IH. exact H.
  Qed.
End MapLemmas.

(* ---------- accounts ---------- *)
Lemma cs_acct_of_bal : forall sp m id, ac_bal (cs_acct_of sp m id) = cs_bal m id.
Proof. intros. unfold cs_acct_of, cs_bal. destruct (cs_get id m); reflexivity. Qed.

Lemma cs_acct_of_nonce : forall sp m id, ac_nonce (cs_acct_of sp m id) = cs_nonce m id.
Proof. intros. unfold cs_acct_of, cs_nonce. destruct (cs_get id m); reflexivity. Qed.

Lemma cs_bal_put_same : forall m k a, cs_bal (cs_put k a m) k = ac_bal a.
Proof. intros. unfold cs_bal. rewrite cs_get_put_same. reflexivity. Qed.

Lemma cs_bal_put_other : forall m k k' a, k <> k' -> cs_bal (cs_put k a m) k' = cs_bal m k'.
Proof. intros. unfold cs_bal. rewrite cs_get_put_other by assumption. reflexivity. Qed.

Lemma cs_nonce_put_same : forall m k a, cs_nonce (cs_put k a m) k = ac_nonce a.
Proof. intros. unfold cs_nonce. rewrite cs_get_put_same. reflexivity. Qed.

Lemma cs_nonce_put_other : forall m k k' a, k <> k' -> cs_nonce (cs_put k a m) k' = cs_nonce m k'.
Proof. intros. unfold cs_nonce. rewrite cs_get_put_other by assumption. reflexivity. Qed.

Lemma cs_total_put : forall m k a, cs_total (cs_put k a m) = cs_total m - cs_bal m k + ac_bal a.
Proof.
  induction m as [|[k0 a0] tl IH]; intros k a; cbn [cs_put cs_total fold_right cs_bal cs_get snd].
  - lia.
  - unfold cs_bal. cbn [cs_get].
    destruct (Z.eqb_spec k k0).
    + cbn [cs_total fold_right snd]. lia.
    + destruct (Z.ltb_spec k k0).
      * cbn [cs_total fold_right snd]. lia.
      * cbn [cs_total fold_right snd]. fold (cs_total tl). fold (cs_total (cs_put k a tl)).
        rewrite IH. unfold cs_bal. lia.
  Qed.

(* every stored balance is a uint64 *)
Definition cs_wf (m : list (Z * cs_acct)) : Prop :=
  Forall (fun p => 0 <= ac_bal (snd p) < cs_two64) m.

Lemma cs_wf_bal : forall m id, cs_wf m -> 0 <= cs_bal m id < cs_two64.
Proof.
  intros m id H. unfold cs_bal. destruct (cs_get id m) eqn:E.
  - apply cs_get_In in E. unfold cs_wf in H. rewrite Forall_forall in H. apply (H _ E).
  - unfold cs_two64. lia.
Qed.

Lemma cs_wf_put : forall m k a, cs_wf m -> 0 <= ac_bal a < cs_two64 -> cs_wf (cs_put k a m).
Proof. intros. apply cs_put_Forall; assumption. Qed.

(* ---------- one transfer ---------- *)
Definition cs_moved (sp : cs_stamp) (m : list (Z * cs_acct)) (t : cs_transfer) : list (Z * cs_acct) :=
  cs_put (tr_to t)
    {| ac_bal := cs_bal m (tr_to t) + tr_amt t; ac_nonce := cs_nonce m (tr_to t);
       ac_txn := fst sp; ac_round := snd sp |}
    (cs_put (tr_from t)
       {| ac_bal := cs_bal m (tr_from t) - tr_amt t; ac_nonce := cs_nonce m (tr_from t);
          ac_txn := fst sp; ac_round := snd sp |} m).

Lemma cs_transfer_amount_ok : forall sp m t m',
    cs_transfer_amount sp m t = ROk m' ->
    (tr_amt t = 0 /\ m' = m) \/
    (tr_amt t <> 0 /\ tr_from t <> tr_to t /\ tr_amt t <= cs_bal m (tr_from t) /\
     cs_bal m (tr_to t) + tr_amt t < cs_two64 /\ m' = cs_moved sp m t).
Proof.
  intros sp m t m' H. unfold cs_transfer_amount in H.
  destruct (Z.eqb_spec (tr_amt t) 0) as [E0|N0].
  - left. inversion H. auto.
  - right. destruct (Z.eqb_spec (tr_from t) (tr_to t)); [discriminate|].
    rewrite !cs_acct_of_bal, !cs_acct_of_nonce in H.
    destruct (Z.ltb_spec (cs_bal m (tr_from t)) (tr_amt t)); [discriminate|].
    unfold cs_minus_coin, cs_add_coin in H.
    destruct (Z.leb_spec (tr_amt t) (cs_bal m (tr_from t))); [|discriminate].
    destruct (Z.ltb_spec (cs_bal m (tr_to t) + tr_amt t) cs_two64); [|discriminate].
    inversion H. unfold cs_moved. repeat split; auto.
Qed.

Lemma cs_moved_bal : forall sp m t id, tr_from t <> tr_to t ->
    cs_bal (cs_moved sp m t) id =
    cs_bal m id + (if tr_to t =? id then tr_amt t else 0) - (if tr_from t =? id then tr_amt t else 0).
Proof.
  intros sp m t id NE. unfold cs_moved.
  destruct (Z.eqb_spec (tr_to t) id) as [E1|N1].
  - subst id. rewrite cs_bal_put_same. cbn [ac_bal].
    destruct (Z.eqb_spec (tr_from t) (tr_to t)); [contradiction|]. lia.
  - rewrite cs_bal_put_other by assumption.
    destruct (Z.eqb_spec (tr_from t) id) as [E2|N2].
    + subst id. rewrite cs_bal_put_same. cbn [ac_bal]. lia.
    + rewrite cs_bal_put_other by assumption. lia.
Qed.

Lemma cs_moved_nonce : forall sp m t id, cs_nonce (cs_moved sp m t) id = cs_nonce m id.
Proof.
  intros sp m t id. unfold cs_moved.
  destruct (Z.eq_dec (tr_to t) id) as [E1|N1].
  - subst id. rewrite cs_nonce_put_same. reflexivity.
  - rewrite cs_nonce_put_other by assumption.
    destruct (Z.eq_dec (tr_from t) id) as [E2|N2].
    + subst id. rewrite cs_nonce_put_same. reflexivity.
    + rewrite cs_nonce_put_other by assumption. reflexivity.
Qed.

Lemma cs_moved_total : forall sp m t, tr_from t <> tr_to t -> cs_total (cs_moved sp m t) = cs_total m.
Proof.
  intros sp m t NE. unfold cs_moved. rewrite !cs_total_put. cbn [ac_bal].
  rewrite cs_bal_put_other by assumption. lia.
Qed.

Lemma cs_moved_get_other : forall sp m t id, id <> tr_from t -> id <> tr_to t ->
    cs_get id (cs_moved sp m t) = cs_get id m.
Proof.
  intros. unfold cs_moved. rewrite !cs_get_put_other by congruence. reflexivity.
Qed.

(* pointwise effect of a transfer on the balance function *)
Definition cs_move (f : Z -> Z) (t : cs_transfer) : Z -> Z :=
  fun id => f id + (if tr_to t =? id then tr_amt t else 0) - (if tr_from t =? id then tr_amt t else 0).

Lemma cs_transfer_amount_bal : forall sp m t m' id,
    cs_transfer_amount sp m t = ROk m' -> cs_bal m' id = cs_move (cs_bal m) t id.
Proof.
  intros sp m t m' id H. apply cs_transfer_amount_ok in H. unfold cs_move.
  destruct H as [[E ->]|(N & NE & _ & _ & ->)].
  - rewrite E. destruct (tr_to t =? id), (tr_from t =? id); lia.
  - apply cs_moved_bal. exact NE.
Qed.

Lemma cs_transfer_amount_nonce : forall sp m t m' id,
    cs_transfer_amount sp m t = ROk m' -> cs_nonce m' id = cs_nonce m id.
Proof.
  intros sp m t m' id H. apply cs_transfer_amount_ok in H.
  destruct H as [[E ->]|(N & NE & _ & _ & ->)]; [reflexivity|apply cs_moved_nonce].
Qed.

Lemma cs_transfer_amount_total : forall sp m t m',
    cs_transfer_amount sp m t = ROk m' -> cs_total m' = cs_total m.
Proof.
  intros sp m t m' H. apply cs_transfer_amount_ok in H.
  destruct H as [[E ->]|(N & NE & _ & _ & ->)]; [reflexivity|apply cs_moved_total; exact NE].
Qed.

Lemma cs_transfer_amount_wf : forall sp m t m', cs_wf m -> 0 <= tr_amt t ->
    cs_transfer_amount sp m t = ROk m' -> cs_wf m'.
Proof.
  intros sp m t m' W P H. apply cs_transfer_amount_ok in H.
  destruct H as [[E ->]|(N & NE & Le & Lt & ->)]; [exact W|].
  pose proof (cs_wf_bal m (tr_from t) W). pose proof (cs_wf_bal m (tr_to t) W).
  unfold cs_moved. apply cs_wf_put; [apply cs_wf_put; [exact W|]|]; cbn [ac_bal]; lia.
Qed.

Lemma cs_transfer_amount_get_other : forall sp m t m' id,
    cs_transfer_amount sp m t = ROk m' ->
    (tr_amt t <> 0 -> id <> tr_from t /\ id <> tr_to t) -> cs_get id m' = cs_get id m.
Proof.
  intros sp m t m' id H Hid. apply cs_transfer_amount_ok in H.
  destruct H as [[E ->]|(N & NE & _ & _ & ->)]; [reflexivity|].
  destruct (Hid N). apply cs_moved_get_other; assumption.
Qed.

(* the from+to assertion of transferAmountWithAssert can never fire *)
Lemma cs_transfer_assert_ok : forall sp m t m',
    cs_transfer_assert sp m t = ROk m' -> cs_transfer_amount sp m t = ROk m'.
Proof.
  intros sp m t m' H. unfold cs_transfer_assert in H.
  destruct (cs_sum_from_to m t); [|discriminate].
  destruct (cs_transfer_amount sp m t) as [m1| |]; try discriminate.
  destruct (cs_sum_from_to m1 t); [|discriminate].
  destruct (z =? z0); [|discriminate]. inversion H. reflexivity.
Qed.

Lemma cs_sum_preserved : forall sp m t m',
    cs_transfer_amount sp m t = ROk m' -> cs_sum_from_to m' t = cs_sum_from_to m t.
Proof.
  intros sp m t m' H. unfold cs_sum_from_to.
  rewrite (cs_transfer_amount_bal _ _ _ _ (tr_from t) H), (cs_transfer_amount_bal _ _ _ _ (tr_to t) H).
  apply cs_transfer_amount_ok in H. unfold cs_move.
  destruct H as [[E _]|(N & NE & _ & _ & _)].
  - rewrite E. replace (cs_bal m (tr_from t) + (if tr_to t =? tr_from t then 0 else 0) - (if tr_from t =? tr_from t then 0 else 0)) with (cs_bal m (tr_from t)) by (destruct (tr_to t =? tr_from t), (tr_from t =? tr_from t); lia).
    replace (cs_bal m (tr_to t) + (if tr_to t =? tr_to t then 0 else 0) - (if tr_from t =? tr_to t then 0 else 0)) with (cs_bal m (tr_to t)) by (destruct (tr_to t =? tr_to t), (tr_from t =? tr_to t); lia).
    reflexivity.
  - rewrite !Z.eqb_refl.
    destruct (Z.eqb_spec (tr_to t) (tr_from t)); [congruence|].
    destruct (Z.eqb_spec (tr_from t) (tr_to t)); [congruence|].
    unfold cs_add_coin.
    replace (cs_bal m (tr_from t) + 0 - tr_amt t + (cs_bal m (tr_to t) + tr_amt t - 0))
      with (cs_bal m (tr_from t) + cs_bal m (tr_to t)) by lia.
    reflexivity.
Qed.

Lemma cs_transfer_assert_no_panic : forall sp m t, cs_transfer_assert sp m t <> RPanic.
Proof.
  intros sp m t H. unfold cs_transfer_assert in H.
  destruct (cs_sum_from_to m t) eqn:S0; [|discriminate].
  destruct (cs_transfer_amount sp m t) as [m1|e|] eqn:T; try discriminate.
  - rewrite (cs_sum_preserved _ _ _ _ T), S0, Z.eqb_refl in H. discriminate.
  - unfold cs_transfer_amount in T.
    destruct (tr_amt t =? 0); [discriminate|].
    destruct (tr_from t =? tr_to t); [discriminate|].
    destruct (ac_bal (cs_acct_of sp m (tr_from t)) <? tr_amt t); [discriminate|].
    destruct (cs_minus_coin _ _); [|discriminate].
    destruct (cs_add_coin _ _); discriminate.
Qed.

(* ---------- the transfer loops ---------- *)
Fixpoint cs_inflow (l : list cs_transfer) (id : Z) : Z :=
  match l with [] => 0 | t :: tl => (if tr_to t =? id then tr_amt t else 0) + cs_inflow tl id end.
Fixpoint cs_outflow (l : list cs_transfer) (id : Z) : Z :=
  match l with [] => 0 | t :: tl => (if tr_from t =? id then tr_amt t else 0) + cs_outflow tl id end.

Lemma cs_inflow_app : forall l1 l2 id, cs_inflow (l1 ++ l2) id = cs_inflow l1 id + cs_inflow l2 id.
Proof. induction l1; intros; cbn [app cs_inflow]; [lia|rewrite IHl1; lia]. Qed.
Lemma cs_outflow_app : forall l1 l2 id, cs_outflow (l1 ++ l2) id = cs_outflow l1 id + cs_outflow l2 id.
Proof. induction l1; intros; cbn [app cs_outflow]; [lia|rewrite IHl1; lia]. Qed.

Lemma cs_apply_transfers_app : forall sp l1 l2 m ue,
    cs_apply_transfers sp (l1 ++ l2) m ue =
    match cs_apply_transfers sp l1 m ue with
    | ROk (m1, ue1) => cs_apply_transfers sp l2 m1 ue1
    | RErr e => RErr e
    | RPanic => RPanic
    end.
Proof.
  induction l1 as [|t tl IH]; intros l2 m ue; cbn [app cs_apply_transfers]; [reflexivity|].
  destruct (cs_transfer_assert sp m t); try reflexivity. apply IH.
Qed.

Lemma cs_apply_transfers_no_panic : forall sp l m ue, cs_apply_transfers sp l m ue <> RPanic.
Proof.
  induction l as [|t tl IH]; intros m ue; cbn [cs_apply_transfers]; [discriminate|].
  destruct (cs_transfer_assert sp m t) eqn:E; try discriminate.
  - apply IH.
  - exfalso. exact (cs_transfer_assert_no_panic _ _ _ E).
Qed.

Lemma cs_apply_transfers_ok : forall sp l m ue m' ue',
    cs_apply_transfers sp l m ue = ROk (m', ue') ->
    cs_total m' = cs_total m /\
    (forall id, cs_nonce m' id = cs_nonce m id) /\
    (forall id, cs_bal m' id = cs_bal m id + cs_inflow l id - cs_outflow l id) /\
    (forall id, (forall t, In t l -> tr_amt t <> 0 -> id <> tr_from t /\ id <> tr_to t) ->
                cs_get id m' = cs_get id m) /\
    (cs_wf m -> Forall (fun t => 0 <= tr_amt t) l -> cs_wf m').
Proof.
  induction l as [|t tl IH]; intros m ue m' ue' H; cbn [cs_apply_transfers] in H.
  - inversion H; subst. cbn [cs_inflow cs_outflow]. repeat split; auto. intros; lia.
  - destruct (cs_transfer_assert sp m t) as [m1| |] eqn:E; try discriminate.
    apply cs_transfer_assert_ok in E.
    destruct (IH _ _ _ _ H) as (T & N & B & G & W).
    split; [|split; [|split; [|split]]].
    + rewrite T. eapply cs_transfer_amount_total; eauto.
    + intros id. rewrite N. eapply cs_transfer_amount_nonce; eauto.
    + intros id. rewrite B, (cs_transfer_amount_bal _ _ _ _ id E). unfold cs_move.
      cbn [cs_inflow cs_outflow]. lia.
    + intros id Hid. rewrite G.
      * eapply cs_transfer_amount_get_other; eauto. intros NZ. apply Hid; [left; reflexivity|exact NZ].
      * intros t' In' NZ. apply Hid; [right; exact In'|exact NZ].
    + intros Wm Hpos. inversion Hpos; subst. apply W; [|assumption].
      eapply cs_transfer_amount_wf; eauto.
Qed.

Lemma cs_apply_signed_ok : forall cfg sp l m ue x,
    cs_apply_signed cfg sp l m ue = ROk x ->
    cs_apply_transfers sp l m ue = ROk x /\ Forall (fun t => cs_is_hash cfg (tr_to t) = true) l.
Proof.
  induction l as [|t tl IH]; intros m ue x H; cbn [cs_apply_signed cs_apply_transfers] in *.
  - split; [exact H|constructor].
  - destruct (cs_is_hash cfg (tr_to t)) eqn:EH; [|discriminate]. cbn [negb] in H.
    destruct (cs_transfer_assert sp m t); try discriminate.
    destruct (IH _ _ _ H) as (A & F). split; [exact A|constructor; assumption].
Qed.

Lemma cs_apply_signed_no_panic : forall cfg sp l m ue, cs_apply_signed cfg sp l m ue <> RPanic.
Proof.
  induction l as [|t tl IH]; intros m ue; cbn [cs_apply_signed]; [discriminate|].
  destruct (negb (cs_is_hash cfg (tr_to t))); [discriminate|].
  destruct (cs_transfer_assert sp m t) eqn:E; try discriminate.
  - apply IH.
  - exfalso. exact (cs_transfer_assert_no_panic _ _ _ E).
Qed.

(* ---------- incrementNonce ---------- *)
Lemma cs_increment_nonce_spec : forall sp m id m' first u,
    cs_increment_nonce sp m id = (m', first, u) ->
    cs_total m' = cs_total m /\
    (forall k, cs_bal m' k = cs_bal m k) /\
    cs_nonce m' id = cs_wrap_i64 (cs_nonce m id + 1) /\
    (forall k, k <> id -> cs_nonce m' k = cs_nonce m k) /\
    (forall k, k <> id -> cs_get k m' = cs_get k m) /\
    (cs_wf m -> cs_wf m') /\
    first = (cs_nonce m id =? 0) /\
    u = (cs_bal m' id, cs_nonce m' id).
Proof.
  intros sp m id m' first u H. unfold cs_increment_nonce in H.
  rewrite cs_acct_of_bal, cs_acct_of_nonce in H. inversion H; subst; clear H.
  split; [|split; [|split; [|split; [|split; [|split; [|split]]]]]].
  - rewrite cs_total_put. cbn [ac_bal]. lia.
  - intros k. destruct (Z.eq_dec id k).
    + subst. rewrite cs_bal_put_same. reflexivity.
    + rewrite cs_bal_put_other by assumption. reflexivity.
  - rewrite cs_nonce_put_same. reflexivity.
  - intros k NE. rewrite cs_nonce_put_other by congruence. reflexivity.
  - intros k NE. rewrite cs_get_put_other by congruence. reflexivity.
  - intros W. apply cs_wf_put; [exact W|]. cbn [ac_bal]. apply cs_wf_bal. exact W.
  - reflexivity.
  - rewrite cs_bal_put_same, cs_nonce_put_same. reflexivity.
Qed.

(* ---------- decomposition of an applied updateState ---------- *)
Definition cs_fee_transfers (cfg : cs_cfg) (tx : cs_txn) : list cs_transfer :=
  if cfg_fee cfg
  then [{| tr_from := tx_from tx; tr_to := cfg_miner cfg; tr_amt := tx_fee tx |}]
  else [].

(* every transfer updateState applies for this transaction, in order: what the contract (or the
   send) queued, the fee, then the signed transfers *)
Definition cs_queued (cfg : cs_cfg) (tx : cs_txn) (r : cs_sc_result) : list cs_transfer :=
  match tx_type tx with
  | TSC => match r with
           | SCOk _ trs signed _ _ => trs ++ cs_fee_transfers cfg tx ++ signed
           | _ => cs_fee_transfers cfg tx
           end
  | TData => cs_fee_transfers cfg tx
  | TSend => {| tr_from := tx_from tx; tr_to := tx_to tx; tr_amt := tx_value tx |}
               :: cs_fee_transfers cfg tx
  | TOther => []
  end.

(* the fee actually charged *)
Definition cs_fee_of (cfg : cs_cfg) (tx : cs_txn) : Z := if cfg_fee cfg then tx_fee tx else 0.

(* the contract nodes after an applied transaction *)
Definition cs_nodes_after (st : cs_state) (tx : cs_txn) (r : cs_sc_result) : list (Z * Z) :=
  match tx_type tx, r with
  | TSC, SCOk ws _ _ _ _ => cs_apply_writes ws (st_nodes st)
  | _, _ => st_nodes st
  end.

Lemma cs_finish_applied : forall cfg sp tx m nodes trs signed evs status out st' status' out' evs',
    cs_finish cfg sp tx m nodes trs signed evs status out = Applied st' status' out' evs' ->
    exists m2 ue2,
      cs_apply_transfers sp (trs ++ cs_fee_transfers cfg tx ++ signed) m [] = ROk (m2, ue2) /\
      st_accts st' = fst (fst (cs_increment_nonce sp m2 (tx_from tx))) /\
      st_nodes st' = nodes /\ status' = status /\ out' = out /\
      evs' = (if cfg_events cfg
              then evs ++ (if snd (fst (cs_increment_nonce sp m2 (tx_from tx))) then [EvUnique] else [])
                       ++ map (fun p => EvUser (fst p) (fst (snd p)) (snd (snd p)))
                            (cs_put (tx_from tx) (snd (cs_increment_nonce sp m2 (tx_from tx))) ue2)
              else evs).
Proof.
  intros cfg sp tx m nodes trs signed evs status out st' status' out' evs' H.
  unfold cs_finish in H.
  destruct (cfg_fee cfg && negb (cs_is_hash cfg (cfg_miner cfg))); [discriminate|].
  fold (cs_fee_transfers cfg tx) in H.
  destruct (cs_apply_transfers sp (trs ++ cs_fee_transfers cfg tx) m []) as [[m1 ue1]| |] eqn:E1; try discriminate.
  destruct (cs_apply_signed cfg sp signed m1 ue1) as [[m2 ue2]| |] eqn:E2; try discriminate.
  exists m2, ue2. apply cs_apply_signed_ok in E2. destruct E2 as (E2 & _).
  rewrite app_assoc, cs_apply_transfers_app, E1, E2.
  destruct (cs_increment_nonce sp m2 (tx_from tx)) as [[m3 first] u] eqn:EI.
  inversion H; subst. cbn [fst snd st_accts st_nodes]. repeat split; reflexivity.
Qed.

Lemma cs_update_ideal_applied : forall cfg st round tx r st' status out evs,
    cs_update_ideal cfg st round tx r = Applied st' status out evs ->
    exists m2 ue2,
      cs_apply_transfers (tx_hash tx, round) (cs_queued cfg tx r) (st_accts st) [] = ROk (m2, ue2) /\
      st_accts st' = fst (fst (cs_increment_nonce (tx_hash tx, round) m2 (tx_from tx))) /\
      st_nodes st' = cs_nodes_after st tx r /\
      cs_nonce_ok (st_accts st) tx = true /\
      tx_value tx <= cs_max_supply /\
      cs_validate_ok cfg tx = true.
Proof.
  intros cfg st round tx r st' status out evs H. unfold cs_update_ideal in H.
  assert (H' :
    (if cs_max_supply <? tx_value tx then Rejected ErrSupply
      else if negb (cs_nonce_ok (st_accts st) tx) then Rejected ErrNonce
      else if negb (cs_validate_ok cfg tx) then Rejected ErrValidate
      else match tx_type tx with
        | TSC => match r with
            | SCInternal => Rejected ErrInternal
            | SCChargeable msg => cs_finish cfg (tx_hash tx, round) tx (st_accts st) (st_nodes st) [] [] [EvError msg] 2 (Some msg)
            | SCOk ws trs signed evs out =>
                cs_finish cfg (tx_hash tx, round) tx (st_accts st) (cs_apply_writes ws (st_nodes st)) trs signed (map EvScript evs) 1 (Some out)
            end
        | TData => cs_finish cfg (tx_hash tx, round) tx (st_accts st) (st_nodes st) [] [] [] 1 None
        | TSend => match cs_get (tx_from tx) (st_accts st) with
            | None => Rejected ErrNoSender
            | Some a => if ac_bal a <? cs_wrap_u64 (tx_fee tx + tx_value tx) then Rejected ErrSendFunds
                else if negb (cs_is_hash cfg (tx_to tx)) then Rejected ErrBadTo
                else cs_finish cfg (tx_hash tx, round) tx (st_accts st) (st_nodes st)
                       [{| tr_from := tx_from tx; tr_to := tx_to tx; tr_amt := tx_value tx |}] [] [] 1 None
            end
        | TOther => Rejected ErrType
        end) = Applied st' status out evs).
  { destruct (st_accts st); [destruct (st_nodes st); [discriminate|]|]; exact H. }
  clear H.
  destruct (Z.ltb_spec cs_max_supply (tx_value tx)); [discriminate|].
  destruct (cs_nonce_ok (st_accts st) tx) eqn:EN; [|discriminate].
  destruct (cs_validate_ok cfg tx) eqn:EV; [|discriminate].
  cbn [negb] in H'. unfold cs_queued, cs_nodes_after.
  destruct (tx_type tx).
  - destruct (cs_get (tx_from tx) (st_accts st)); [|discriminate].
    destruct (ac_bal c <? cs_wrap_u64 (tx_fee tx + tx_value tx)); [discriminate|].
    destruct (negb (cs_is_hash cfg (tx_to tx))); [discriminate|].
    apply cs_finish_applied in H'. destruct H' as (m2 & ue2 & A & B & C & _).
    rewrite app_nil_r in A. exists m2, ue2. cbn [app] in A. repeat split; auto.
  - apply cs_finish_applied in H'. destruct H' as (m2 & ue2 & A & B & C & _).
    rewrite app_nil_r in A. exists m2, ue2. cbn [app] in A. repeat split; auto.
  - destruct r as [ws trs signed sevs sout|msg|]; [| |discriminate].
    + apply cs_finish_applied in H'. destruct H' as (m2 & ue2 & A & B & C & _).
      exists m2, ue2. repeat split; auto.
    + apply cs_finish_applied in H'. destruct H' as (m2 & ue2 & A & B & C & _).
      rewrite app_nil_r in A. exists m2, ue2. cbn [app] in A. repeat split; auto.
  - discriminate.
Qed.

(* nothing in the model reaches the Panic of transferAmountWithAssert *)
Lemma cs_finish_no_panic : forall cfg sp tx m nodes trs signed evs status out,
    cs_finish cfg sp tx m nodes trs signed evs status out <> Panicked.
Proof.
  intros. unfold cs_finish.
  destruct (cfg_fee cfg && negb (cs_is_hash cfg (cfg_miner cfg))); [discriminate|].
  destruct (cs_apply_transfers sp _ m []) as [[m1 ue1]| |] eqn:E1; try discriminate.
  - destruct (cs_apply_signed cfg sp signed m1 ue1) as [[m2 ue2]| |] eqn:E2; try discriminate.
    exfalso. exact (cs_apply_signed_no_panic _ _ _ _ _ E2).
  - exfalso. exact (cs_apply_transfers_no_panic _ _ _ _ E1).
Qed.

Lemma cs_update_ideal_no_panic : forall cfg st round tx r, cs_update_ideal cfg st round tx r <> Panicked.
Proof.
  intros. unfold cs_update_ideal.
  destruct (st_accts st) eqn:EA; [destruct (st_nodes st) eqn:ENo; [discriminate|]|];
  (destruct (cs_max_supply <? tx_value tx); [discriminate|];
   destruct (negb (cs_nonce_ok _ tx)); [discriminate|];
   destruct (negb (cs_validate_ok cfg tx)); [discriminate|];
   destruct (tx_type tx);
   [ destruct (cs_get (tx_from tx) _); [|discriminate];
     destruct (ac_bal c <? cs_wrap_u64 (tx_fee tx + tx_value tx)); [discriminate|];
     destruct (negb (cs_is_hash cfg (tx_to tx))); [discriminate|]; apply cs_finish_no_panic
   | apply cs_finish_no_panic
   | destruct r; [apply cs_finish_no_panic|apply cs_finish_no_panic|discriminate]
   | discriminate ]).
Qed.

(* every accepted transaction: what it does to totals, balances, nonces and leaves *)
Lemma cs_update_ideal_effect : forall cfg st round tx r st' status out evs,
    cs_update_ideal cfg st round tx r = Applied st' status out evs ->
    let l := cs_queued cfg tx r in
    cs_total (st_accts st') = cs_total (st_accts st) /\
    (forall id, cs_bal (st_accts st') id = cs_bal (st_accts st) id + cs_inflow l id - cs_outflow l id) /\
    cs_nonce (st_accts st') (tx_from tx) = cs_wrap_i64 (cs_nonce (st_accts st) (tx_from tx) + 1) /\
    (forall id, id <> tx_from tx -> cs_nonce (st_accts st') id = cs_nonce (st_accts st) id) /\
    (forall id, id <> tx_from tx ->
                (forall t, In t l -> tr_amt t <> 0 -> id <> tr_from t /\ id <> tr_to t) ->
                cs_get id (st_accts st') = cs_get id (st_accts st)) /\
    (cs_wf (st_accts st) -> Forall (fun t => 0 <= tr_amt t) l -> cs_wf (st_accts st')) /\
    tx_nonce tx = cs_wrap_i64 (cs_nonce (st_accts st) (tx_from tx) + 1).
Proof.
  intros cfg st round tx r st' status out evs H l.
  apply cs_update_ideal_applied in H. destruct H as (m2 & ue2 & A & B & _ & NOK & _ & _).
  fold l in A. apply cs_apply_transfers_ok in A. destruct A as (T & N & Bal & G & W).
  destruct (cs_increment_nonce (tx_hash tx, round) m2 (tx_from tx)) as [[m3 first] u] eqn:EI.
  cbn [fst] in B. apply cs_increment_nonce_spec in EI.
  destruct EI as (T3 & B3 & N3 & N3o & G3 & W3 & _ & _).
  rewrite B. repeat split.
  - lia.
  - intros id. rewrite B3. apply Bal.
  - rewrite N3, N. reflexivity.
  - intros id NE. rewrite N3o by assumption. apply N.
  - intros id NE Hid. rewrite G3 by assumption. apply G. exact Hid.
  - intros Wm Hp. apply W3. apply W; assumption.
  - unfold cs_nonce_ok in NOK. apply Z.eqb_eq in NOK. symmetry. exact NOK.
Qed.

(* ---------- keys, canonical ids and the trie commit ---------- *)
Definition cs_keys {A} (m : list (Z * A)) : list Z := map fst m.

Lemma cs_keys_put : forall {A} (m : list (Z * A)) k v x,
    In x (cs_keys (cs_put k v m)) -> x = k \/ In x (cs_keys m).
Proof.
  intros A. induction m as [|[k0 v0] tl IH]; intros k v x H; cbn [cs_put] in H.
  - cbn in H. destruct H as [H|[]]. left; auto.
  - destruct (k =? k0) eqn:E.
    + apply Z.eqb_eq in E. subst. cbn in H |- *. destruct H; auto.
    + destruct (k <? k0); cbn in H |- *.
      * destruct H as [H|[H|H]]; auto.
      * destruct H as [H|H]; auto. apply IH in H. destruct H; auto.
Qed.

Lemma cs_get_keys : forall {A} (m : list (Z * A)) k v, cs_get k m = Some v -> In k (cs_keys m).
Proof.
  intros A m k v H. apply cs_get_In in H. unfold cs_keys. apply in_map_iff. exists (k, v). auto.
Qed.

Definition cs_ids_of (l : list cs_transfer) : list Z :=
  flat_map (fun t => [tr_from t; tr_to t]) l.

Lemma cs_transfer_amount_keys : forall sp m t m' k,
    cs_transfer_amount sp m t = ROk m' -> In k (cs_keys m') ->
    In k (cs_keys m) \/ k = tr_from t \/ k = tr_to t.
Proof.
  intros sp m t m' k H Hk. apply cs_transfer_amount_ok in H.
  destruct H as [[_ ->]|(_ & _ & _ & _ & ->)]; [left; exact Hk|].
  unfold cs_moved in Hk. apply cs_keys_put in Hk. destruct Hk as [->|Hk]; [auto|].
  apply cs_keys_put in Hk. destruct Hk as [->|Hk]; auto.
Qed.

Lemma cs_apply_transfers_keys : forall sp l m ue m' ue' k,
    cs_apply_transfers sp l m ue = ROk (m', ue') -> In k (cs_keys m') ->
    In k (cs_keys m) \/ In k (cs_ids_of l).
Proof.
  induction l as [|t tl IH]; intros m ue m' ue' k H Hk; cbn [cs_apply_transfers] in H.
  - inversion H; subst. left. exact Hk.
  - destruct (cs_transfer_assert sp m t) as [m1| |] eqn:E; try discriminate.
    apply cs_transfer_assert_ok in E.
    destruct (IH _ _ _ _ _ H Hk) as [Hk1|Hk1].
    + destruct (cs_transfer_amount_keys _ _ _ _ _ E Hk1) as [Hm|[Hf|Ht]].
      * left. exact Hm.
      * right. cbn [cs_ids_of flat_map app]. left. symmetry. exact Hf.
      * right. cbn [cs_ids_of flat_map app]. right. left. symmetry. exact Ht.
    + right. cbn [cs_ids_of flat_map app]. right. right. exact Hk1.
Qed.

Lemma cs_update_ideal_keys : forall cfg st round tx r st' status out evs k,
    cs_update_ideal cfg st round tx r = Applied st' status out evs ->
    In k (cs_keys (st_accts st')) ->
    In k (cs_keys (st_accts st)) \/ k = tx_from tx \/ In k (cs_ids_of (cs_queued cfg tx r)).
Proof.
  intros cfg st round tx r st' status out evs k H Hk.
  apply cs_update_ideal_applied in H. destruct H as (m2 & ue2 & A & B & _).
  rewrite B in Hk. unfold cs_increment_nonce in Hk. cbn [fst] in Hk.
  apply cs_keys_put in Hk. destruct Hk as [->|Hk]; [auto|].
  destruct (cs_apply_transfers_keys _ _ _ _ _ _ _ A Hk); auto.
Qed.

(* ids as the system derives them: lower-case hex *)
Definition cs_canon_id (id : Z) : Prop := 0 <= id < cs_upper_base.
Definition cs_canon_accts (m : list (Z * cs_acct)) : Prop := Forall cs_canon_id (cs_keys m).
Definition cs_canon_txn (cfg : cs_cfg) (tx : cs_txn) (r : cs_sc_result) : Prop :=
  cs_canon_id (tx_from tx) /\ Forall cs_canon_id (cs_ids_of (cs_queued cfg tx r)).
Definition cs_canon_item (cfg : cs_cfg) (it : cs_item) : Prop :=
  cs_canon_txn cfg (snd (fst it)) (snd it).

Lemma cs_commit_canon : forall pre post,
    cs_canon_accts pre -> cs_canon_accts post -> cs_commit pre post = post.
Proof.
  intros pre post Hpre Hpost. unfold cs_commit.
  induction post as [|[k a] tl IH]; cbn [filter]; [reflexivity|].
  unfold cs_canon_accts in Hpost. cbn [cs_keys map fst] in Hpost. inversion Hpost; subst.
  assert (L : cs_lost pre k = false).
  { unfold cs_lost. destruct (cs_get k pre); [reflexivity|].
    destruct (cs_get (cs_twin k) pre) eqn:E; [|reflexivity].
    apply cs_get_keys in E. unfold cs_canon_accts in Hpre. rewrite Forall_forall in Hpre.
    apply Hpre in E. unfold cs_canon_id, cs_twin, cs_upper_base in *.
    destruct (Z.leb_spec 100 k); lia. }
  cbn [fst]. rewrite L. cbn [negb]. f_equal. apply IH. assumption.
Qed.

Lemma cs_update_ideal_canon : forall cfg st round tx r st' status out evs,
    cs_canon_accts (st_accts st) -> cs_canon_txn cfg tx r ->
    cs_update_ideal cfg st round tx r = Applied st' status out evs ->
    cs_canon_accts (st_accts st').
Proof.
  intros cfg st round tx r st' status out evs Hs [Hf Hq] H.
  unfold cs_canon_accts. apply Forall_forall. intros k Hk.
  destruct (cs_update_ideal_keys _ _ _ _ _ _ _ _ _ _ H Hk) as [Hk1|[->|Hk1]].
  - unfold cs_canon_accts in Hs. rewrite Forall_forall in Hs. apply Hs. exact Hk1.
  - exact Hf.
  - rewrite Forall_forall in Hq. apply Hq. exact Hk1.
Qed.

(* with canonical ids nothing is lost between the transaction's context and the block trie *)
Lemma cs_update_state_canon : forall cfg st round tx r,
    cs_canon_accts (st_accts st) -> cs_canon_txn cfg tx r ->
    cs_update_state cfg st round tx r =
    match cs_update_ideal cfg st round tx r with
    | Applied st' status out evs =>
        Applied {| st_accts := st_accts st'; st_nodes := st_nodes st' |} status out evs
    | o => o
    end.
Proof.
  intros cfg st round tx r Hs Ht. unfold cs_update_state.
  destruct (cs_update_ideal cfg st round tx r) as [st' status out evs| |] eqn:E; try reflexivity.
  rewrite cs_commit_canon; [reflexivity|exact Hs|].
  eapply cs_update_ideal_canon; eauto.
Qed.

Lemma cs_state_eta : forall st, {| st_accts := st_accts st; st_nodes := st_nodes st |} = st.
Proof. destruct st; reflexivity. Qed.

Lemma cs_update_state_canon_eq : forall cfg st round tx r,
    cs_canon_accts (st_accts st) -> cs_canon_txn cfg tx r ->
    cs_update_state cfg st round tx r = cs_update_ideal cfg st round tx r.
Proof.
  intros. rewrite cs_update_state_canon by assumption.
  destruct (cs_update_ideal cfg st round tx r); try reflexivity. rewrite cs_state_eta. reflexivity.
Qed.

Lemma cs_step_canon : forall cfg st it,
    cs_canon_accts (st_accts st) -> cs_canon_item cfg it -> cs_canon_accts (st_accts (cs_step cfg st it)).
Proof.
  intros cfg st [[round tx] r] Hs Hi. unfold cs_step, cs_canon_item in *. cbn [fst snd] in Hi.
  rewrite cs_update_state_canon_eq by assumption.
  destruct (cs_update_ideal cfg st round tx r) eqn:E; cbn [cs_post]; try exact Hs.
  eapply cs_update_ideal_canon; eauto.
Qed.

(* ---------- reachable transactions under the strict IsHash ---------- *)
(* amounts are uint64 values *)
Definition cs_typed_txn (cfg : cs_cfg) (tx : cs_txn) (r : cs_sc_result) : Prop :=
  Forall (fun t => 0 <= tr_amt t) (cs_queued cfg tx r).
Definition cs_typed_item (cfg : cs_cfg) (it : cs_item) : Prop :=
  cs_typed_txn cfg (snd (fst it)) (snd it).

(* the destinations of the transfers the contract queued were ids IsHash accepts: enforced by
   StateContext.AddTransfer, which refuses the others (the call then sees an error).  Signed
   transfers need no such premise: updateState checks their destinations itself. *)
Definition cs_accepted (cfg : cs_cfg) (tx : cs_txn) (r : cs_sc_result) : Prop :=
  match tx_type tx, r with
  | TSC, SCOk _ trs _ _ _ => Forall (fun t => cs_is_hash cfg (tr_to t) = true) trs
  | _, _ => True
  end.

(* a transaction as it can reach updateState: the sender id is derived from a public key
   (canonical), amounts are uint64, contract destinations were accepted *)
Definition cs_reachable_txn (cfg : cs_cfg) (tx : cs_txn) (r : cs_sc_result) : Prop :=
  cs_canon_id (tx_from tx) /\ cs_typed_txn cfg tx r /\ cs_accepted cfg tx r.
Definition cs_reachable_item (cfg : cs_cfg) (it : cs_item) : Prop :=
  cs_reachable_txn cfg (snd (fst it)) (snd it).

Lemma cs_is_hash_strict : forall cfg id,
    cfg_strict_ids cfg = true -> cs_is_hash cfg id = true -> cs_canon_id id.
Proof.
  intros cfg id S H. unfold cs_is_hash in H. rewrite S in H. cbn [negb orb] in H.
  apply andb_prop in H. destruct H as [H1 H2].
  apply Z.leb_le in H1. apply Z.ltb_lt in H2. unfold cs_canon_id, cs_upper_base. lia.
Qed.

Lemma cs_finish_applied_signed : forall cfg sp tx m nodes trs signed evs status out st' status' out' evs',
    cs_finish cfg sp tx m nodes trs signed evs status out = Applied st' status' out' evs' ->
    Forall (fun t => cs_is_hash cfg (tr_to t) = true) signed.
Proof.
  intros until evs'. intros H. unfold cs_finish in H.
  destruct (cfg_fee cfg && negb (cs_is_hash cfg (cfg_miner cfg))); [discriminate|].
  destruct (cs_apply_transfers sp _ m []) as [[m1 ue1]| |]; try discriminate.
  destruct (cs_apply_signed cfg sp signed m1 ue1) as [[m2 ue2]| |] eqn:E2; try discriminate.
  apply cs_apply_signed_ok in E2. tauto.
Qed.

Lemma cs_finish_applied_hash : forall cfg sp tx m nodes trs signed evs status out st' status' out' evs',
    cs_finish cfg sp tx m nodes trs signed evs status out = Applied st' status' out' evs' ->
    cfg_fee cfg = true -> cs_is_hash cfg (cfg_miner cfg) = true.
Proof.
  intros until evs'. intros H F. unfold cs_finish in H. rewrite F in H.
  destruct (cs_is_hash cfg (cfg_miner cfg)); [reflexivity|discriminate].
Qed.

Lemma cs_update_ideal_applied_hash : forall cfg st round tx r st' status out evs,
    cs_update_ideal cfg st round tx r = Applied st' status out evs ->
    (cfg_fee cfg = true -> cs_is_hash cfg (cfg_miner cfg) = true) /\
    (tx_type tx = TSend -> cs_is_hash cfg (tx_to tx) = true) /\
    (forall ws trs signed sevs sout, tx_type tx = TSC -> r = SCOk ws trs signed sevs sout ->
                                     Forall (fun t => cs_is_hash cfg (tr_to t) = true) signed).
Proof.
  intros cfg st round tx r st' status out evs H. unfold cs_update_ideal in H.
  assert (H' :
    (if cs_max_supply <? tx_value tx then Rejected ErrSupply
      else if negb (cs_nonce_ok (st_accts st) tx) then Rejected ErrNonce
      else if negb (cs_validate_ok cfg tx) then Rejected ErrValidate
      else match tx_type tx with
        | TSC => match r with
            | SCInternal => Rejected ErrInternal
            | SCChargeable msg => cs_finish cfg (tx_hash tx, round) tx (st_accts st) (st_nodes st) [] [] [EvError msg] 2 (Some msg)
            | SCOk ws trs signed evs out =>
                cs_finish cfg (tx_hash tx, round) tx (st_accts st) (cs_apply_writes ws (st_nodes st)) trs signed (map EvScript evs) 1 (Some out)
            end
        | TData => cs_finish cfg (tx_hash tx, round) tx (st_accts st) (st_nodes st) [] [] [] 1 None
        | TSend => match cs_get (tx_from tx) (st_accts st) with
            | None => Rejected ErrNoSender
            | Some a => if ac_bal a <? cs_wrap_u64 (tx_fee tx + tx_value tx) then Rejected ErrSendFunds
                else if negb (cs_is_hash cfg (tx_to tx)) then Rejected ErrBadTo
                else cs_finish cfg (tx_hash tx, round) tx (st_accts st) (st_nodes st)
                       [{| tr_from := tx_from tx; tr_to := tx_to tx; tr_amt := tx_value tx |}] [] [] 1 None
            end
        | TOther => Rejected ErrType
        end) = Applied st' status out evs).
  { destruct (st_accts st); [destruct (st_nodes st); [discriminate|]|]; exact H. }
  clear H.
  destruct (cs_max_supply <? tx_value tx); [discriminate|].
  destruct (negb (cs_nonce_ok (st_accts st) tx)); [discriminate|].
  destruct (negb (cs_validate_ok cfg tx)); [discriminate|].
  destruct (tx_type tx) eqn:TY.
  - destruct (cs_get (tx_from tx) (st_accts st)); [|discriminate].
    destruct (ac_bal c <? cs_wrap_u64 (tx_fee tx + tx_value tx)); [discriminate|].
    destruct (cs_is_hash cfg (tx_to tx)) eqn:EH; [|discriminate]. cbn [negb] in H'.
    split; [eapply cs_finish_applied_hash; eauto|split; [reflexivity|discriminate]].
  - split; [eapply cs_finish_applied_hash; eauto|split; discriminate].
  - destruct r; [| |discriminate].
    + split; [eapply cs_finish_applied_hash; eauto|split; [discriminate|]].
      intros ws trs sg sevs sout _ Eq. inversion Eq; subst. eapply cs_finish_applied_signed; eauto.
    + split; [eapply cs_finish_applied_hash; eauto|split; discriminate].
  - discriminate.
Qed.

Lemma cs_transfer_amount_canon : forall sp m t m',
    cs_canon_accts m -> 0 <= tr_amt t -> (tr_amt t <> 0 -> cs_canon_id (tr_to t)) ->
    cs_transfer_amount sp m t = ROk m' -> cs_canon_accts m'.
Proof.
  intros sp m t m' Cm P Ct H. unfold cs_canon_accts in *. rewrite Forall_forall in *.
  intros k Hk. destruct (cs_transfer_amount_keys _ _ _ _ _ H Hk) as [Hm|[Hf|Ht]]; [apply Cm; exact Hm| |].
  - (* the source of a non-zero transfer holds at least the amount: it has a leaf *)
    apply cs_transfer_amount_ok in H. destruct H as [[Z0 ->]|(NZ & _ & Le & _ & _)]; [apply Cm; exact Hk|].
    subst k. apply Cm. unfold cs_bal in Le. destruct (cs_get (tr_from t) m) eqn:G; [|lia].
    eapply cs_get_keys; eauto.
  - apply cs_transfer_amount_ok in H. destruct H as [[Z0 ->]|(NZ & _)]; [apply Cm; exact Hk|].
    subst k. apply Ct. exact NZ.
Qed.

Lemma cs_apply_transfers_canon : forall sp l m ue m' ue',
    cs_canon_accts m -> Forall (fun t => 0 <= tr_amt t) l ->
    Forall (fun t => tr_amt t <> 0 -> cs_canon_id (tr_to t)) l ->
    cs_apply_transfers sp l m ue = ROk (m', ue') -> cs_canon_accts m'.
Proof.
  induction l as [|t tl IH]; intros m ue m' ue' Cm P D H; cbn [cs_apply_transfers] in H.
  - inversion H; subst. exact Cm.
  - destruct (cs_transfer_assert sp m t) as [m1| |] eqn:E; try discriminate.
    apply cs_transfer_assert_ok in E. inversion P; subst. inversion D; subst.
    eapply IH; [|eassumption|eassumption|exact H].
    eapply cs_transfer_amount_canon; eauto.
Qed.

Lemma cs_update_ideal_canon_strict : forall cfg st round tx r st' status out evs,
    cfg_strict_ids cfg = true -> cs_canon_accts (st_accts st) -> cs_reachable_txn cfg tx r ->
    cs_update_ideal cfg st round tx r = Applied st' status out evs ->
    cs_canon_accts (st_accts st').
Proof.
  intros cfg st round tx r st' status out evs S Cs (Cf & Ty & Ac) H.
  pose proof (cs_update_ideal_applied_hash _ _ _ _ _ _ _ _ _ H) as (HM & HT & HS).
  apply cs_update_ideal_applied in H. destruct H as (m2 & ue2 & A & B & _).
  assert (Dst : Forall (fun t => tr_amt t <> 0 -> cs_canon_id (tr_to t)) (cs_queued cfg tx r)).
  { assert (Fee : Forall (fun t => tr_amt t <> 0 -> cs_canon_id (tr_to t)) (cs_fee_transfers cfg tx)).
    { unfold cs_fee_transfers. destruct (cfg_fee cfg) eqn:F; [|constructor].
      constructor; [|constructor]. intros _. cbn [tr_to]. apply (cs_is_hash_strict cfg); auto. }
    assert (Acc : forall l, Forall (fun t => cs_is_hash cfg (tr_to t) = true) l ->
                            Forall (fun t => tr_amt t <> 0 -> cs_canon_id (tr_to t)) l).
    { intros l Hl. eapply Forall_impl; [|exact Hl]. intros t Ht _. apply (cs_is_hash_strict cfg); auto. }
    unfold cs_queued, cs_accepted in *. destruct (tx_type tx) eqn:TY.
    - constructor; [|exact Fee]. intros _. cbn [tr_to]. apply (cs_is_hash_strict cfg); auto.
    - exact Fee.
    - destruct r; try exact Fee.
      apply Forall_app. split; [apply Acc; exact Ac|]. apply Forall_app. split; [exact Fee|].
      apply Acc. eapply HS; reflexivity.
    - constructor. }
  pose proof (cs_apply_transfers_canon _ _ _ _ _ _ Cs Ty Dst A) as C2.
  rewrite B. unfold cs_increment_nonce. cbn [fst].
  unfold cs_canon_accts in *. rewrite Forall_forall in *. intros k Hk.
  apply cs_keys_put in Hk. destruct Hk as [->|Hk]; [exact Cf|apply C2; exact Hk].
Qed.

Lemma cs_update_state_reachable_eq : forall cfg st round tx r,
    cfg_strict_ids cfg = true -> cs_canon_accts (st_accts st) -> cs_reachable_txn cfg tx r ->
    cs_update_state cfg st round tx r = cs_update_ideal cfg st round tx r.
Proof.
  intros cfg st round tx r S Cs R. unfold cs_update_state.
  destruct (cs_update_ideal cfg st round tx r) as [st' status out evs| |] eqn:E; try reflexivity.
  rewrite cs_commit_canon; [rewrite cs_state_eta; reflexivity|exact Cs|].
  eapply cs_update_ideal_canon_strict; eauto.
Qed.

Lemma cs_step_reachable_canon : forall cfg st it,
    cfg_strict_ids cfg = true -> cs_canon_accts (st_accts st) -> cs_reachable_item cfg it ->
    cs_canon_accts (st_accts (cs_step cfg st it)).
Proof.
  intros cfg st [[round tx] r] S Cs R. unfold cs_step, cs_reachable_item in *. cbn [fst snd] in R.
  rewrite cs_update_state_reachable_eq by assumption.
  destruct (cs_update_ideal cfg st round tx r) eqn:E; cbn [cs_post]; try exact Cs.
  eapply cs_update_ideal_canon_strict; eauto.
Qed.
