(* C31: A block counts as notarized only with enough verified tickets.
   Only statements; each is closed by [exact] of a lemma in Proof/Notarize.v.
   Tickets carry a verifier (0 .. n-1 = miners of the round's magic block) and an error term
   (Some 0 = that miner's valid signature on the block hash); see Model/Notarize.v. *)
From Coq Require Import List ZArith Bool Arith Lia.
From ZC Require Import Model.Notarize Proof.Notarize.
Import ListNotations.
Open Scope Z_scope.

(* VerifyNotarization (notarization messages, notarized blocks): acceptance implies at least
   threshold tickets of pairwise distinct miners of that round's magic block, all decodable, whose
   aggregate verifies (the aggregate check of VerifyTickets: error terms sum to 0) ... *)
Theorem C31_verify_notarization_sound :
  forall c ts, nt_by_count c = true -> nt_verify_notarization c ts = true ->
    NoDup (nt_vids ts) /\ forallb (nt_member c) ts = true /\
    (nt_thr c <= length ts)%nat /\ nt_err_sum c ts = Some 0.
Proof. exact nt_verify_notarization_sound. Qed.
Print Assumptions C31_verify_notarization_sound.

(* ... so a single bad signature among otherwise valid tickets is rejected, and when every
   ticket is individually valid the accepted list has at least threshold distinct valid miners.
   (Two or more bad signatures whose errors cancel pass the aggregate check: that is C32's
   caveat on plain-sum aggregation, not repeated here.) *)
Theorem C31_single_forgery_rejected :
  forall c l1 t l2, 0 < nt_p c -> nt_canon c (l1 ++ t :: l2) ->
    Forall (fun t => nt_err t = Some 0) (l1 ++ l2) ->
    nt_verify_notarization c (l1 ++ t :: l2) = true -> nt_err t = Some 0.
Proof. exact nt_single_forgery_rejected. Qed.
Print Assumptions C31_single_forgery_rejected.

Theorem C31_verify_notarization_counts :
  forall c ts, nt_by_count c = true -> nt_verify_notarization c ts = true ->
    Forall (fun t => nt_err t = Some 0) ts -> (nt_thr c <= nt_valid_miners c ts)%nat.
Proof. exact nt_verify_notarization_counts. Qed.
Print Assumptions C31_verify_notarization_counts.

(* and enough valid tickets of distinct miners are accepted (the check is not vacuous) *)
Theorem C31_verify_notarization_complete :
  forall c ts, ts <> [] -> NoDup (nt_vids ts) -> forallb (nt_valid c) ts = true ->
    (nt_thr c <= length ts)%nat -> nt_verify_notarization c ts = true.
Proof. exact nt_verify_notarization_complete. Qed.
Print Assumptions C31_verify_notarization_complete.

(* Ticket messages: whatever arrives, the round's ticket store holds only valid tickets of
   distinct miners (each message is verified on its own before it is stored). *)
Theorem C31_ticket_store_sound :
  forall c arrivals, 0 < nt_p c -> nt_canon c arrivals ->
    let store := fold_left (nt_store_add c) arrivals [] in
    forallb (nt_valid c) store = true /\ NoDup (nt_vids store).
Proof. exact nt_store_run_inv. Qed.
Print Assumptions C31_ticket_store_sound.

(* Notarization messages (notarizationProcess -> UnknownTickets -> VerifyTickets ->
   MergeVerificationTickets): the tickets let through by UnknownTickets have pairwise distinct
   verifiers none of which the block already has, so the block's ticket list never repeats a
   verifier; the block is treated as notarized only with at least threshold tickets of pairwise
   distinct miners of the magic block in the merged list, and with that many distinct VALID
   miners when every incoming ticket is individually valid (a repeated valid ticket counts once). *)
Theorem C31_unknown_tickets_deduplicated :
  forall own incoming,
    NoDup (nt_vids (nt_unknown own incoming)) /\
    (forall t, In t (nt_unknown own incoming) -> In t incoming /\ ~ In (nt_vid t) (nt_vids own)).
Proof. exact nt_unknown_nodup. Qed.
Print Assumptions C31_unknown_tickets_deduplicated.

Theorem C31_block_tickets_never_repeat_a_verifier :
  forall c own incoming,
    NoDup (nt_vids own) -> NoDup (nt_vids (nt_notarization_merged c own incoming)).
Proof. exact nt_notarization_merged_nodup. Qed.
Print Assumptions C31_block_tickets_never_repeat_a_verifier.

Theorem C31_notarization_message_sound :
  forall c own incoming, nt_by_count c = true -> nt_store_inv c own ->
    nt_notarization_process c own incoming = true ->
    let merged := nt_notarization_merged c own incoming in
    NoDup (nt_vids merged) /\ forallb (nt_member c) merged = true /\ (nt_thr c <= length merged)%nat.
Proof. exact nt_notarization_process_sound. Qed.
Print Assumptions C31_notarization_message_sound.

Theorem C31_notarization_message_counts :
  forall c own incoming, nt_by_count c = true -> nt_store_inv c own ->
    Forall (fun t => nt_err t = Some 0) incoming ->
    nt_notarization_process c own incoming = true ->
    (nt_thr c <= nt_valid_miners c (nt_notarization_merged c own incoming))%nat.
Proof. exact nt_notarization_process_counts. Qed.
Print Assumptions C31_notarization_message_counts.

(* processVerifyBlock (a received block proposal): the full statement -- treated as notarized
   only with at least threshold distinct valid miners among the merged tickets -- is FALSE of the
   code: the tickets attached to the received block are merged and counted without verification. *)
Definition C31_full_statement : Prop := nt_process_verify_block_sound_statement.

Theorem C31_process_verify_block_sound_refuted : ~ C31_full_statement.
Proof. exact nt_process_verify_block_refuted. Qed.
Print Assumptions C31_process_verify_block_sound_refuted.

(* the refuting input: 4 miners, threshold 3, a block carrying 3 tickets of unknown verifiers with
   undecodable signatures and no ticket in the round's store: treated as notarized, zero valid
   miners, and VerifyNotarization rejects the same tickets; likewise one valid ticket repeated *)
Theorem C31_forged_tickets_accepted :
  nt_process_verify_block nt_forged_cfg nt_forged_own [] = true /\
  nt_valid_miners nt_forged_cfg (nt_merge nt_forged_own []) = 0%nat /\
  nt_verify_notarization nt_forged_cfg nt_forged_own = false.
Proof. exact nt_forged_accepted. Qed.
Print Assumptions C31_forged_tickets_accepted.

(* outside exactly that trigger -- the received block's own tickets are valid tickets of
   distinct miners, in particular when it carries none -- processVerifyBlock is sound *)
Theorem C31_process_verify_block_sound_partial :
  forall c own store, nt_by_count c = true -> nt_store_inv c own -> nt_store_inv c store ->
    nt_process_verify_block c own store = true ->
    (nt_thr c <= nt_valid_miners c (nt_merge own store))%nat.
Proof. exact nt_process_verify_block_partial. Qed.
Print Assumptions C31_process_verify_block_sound_partial.

(* Non-vacuity: 4 miners, threshold 3; three valid tickets are accepted, replacing one by a
   forged signature, a duplicate or a stranger's ticket is rejected. *)
Example C31_example :
  let c := {| nt_n := 4; nt_by_count := true; nt_thr := 3; nt_p := 101 |} in
  let v i := {| nt_vid := i; nt_err := Some 0 |} in
  nt_verify_notarization c [v 0%nat; v 2%nat; v 3%nat] = true /\
  nt_verify_notarization c [v 0%nat; v 2%nat; {| nt_vid := 3; nt_err := Some 5 |}] = false /\
  nt_verify_notarization c [v 0%nat; v 2%nat; v 2%nat] = false /\
  nt_verify_notarization c [v 0%nat; v 2%nat; v 7%nat] = false /\
  nt_verify_notarization c [v 0%nat; v 2%nat] = false /\
  nt_process_verify_block c [] (fold_left (nt_store_add c) [v 0%nat; v 7%nat; v 2%nat; v 2%nat; v 1%nat] []) = true /\
  nt_notarization_process c [] [v 1%nat; v 1%nat; v 1%nat] = false /\
  nt_notarization_process c [] [v 1%nat; v 1%nat; v 3%nat; v 0%nat] = true /\
  nt_vids (nt_notarization_merged c [] [v 1%nat; v 1%nat; v 3%nat; v 0%nat]) = [1; 3; 0]%nat.
Proof. vm_compute. repeat split; reflexivity. Qed.
