(* Correspondence for C20: a case is the event list of one block handed to the real mergeEvents
   (engine harness/cmd/eventmerge), with what came back: per merged event its tag and its items (key, amount),
   and the number of events that went around the mergers; plus the burn-ticket rows the real handler stored.
   [em_check] re-runs the model on the generated merger table; item lists are compared as multisets (the
   middlewares return map values in Go map order). *)
From ZC Require Import Base.Corr Model.EventMerge.
Open Scope Z_scope.

Record em_case := {
  ec_events : list em_event;
  ec_merged : list (string * list em_item);
  ec_others : nat;
  ec_tickets : list em_item          (* rows added to burn_tickets by the handler for this block *)
}.

Definition item_eqb (a b : em_item) : bool := (Z.eqb (fst a) (fst b) && Z.eqb (snd a) (snd b))%bool.

Fixpoint remove_item (x : em_item) (l : list em_item) : option (list em_item) :=
  match l with
  | [] => None
  | y :: tl => if item_eqb x y then Some tl
               else match remove_item x tl with Some r => Some (y :: r) | None => None end
  end.

Fixpoint multiset_eqb (a b : list em_item) : bool :=
  match a with
  | [] => match b with [] => true | _ => false end
  | x :: tl => match remove_item x b with Some r => multiset_eqb tl r | None => false end
  end.

Definition merged_eqb (a b : string * list em_item) : bool := (String.eqb (fst a) (fst b) && multiset_eqb (snd a) (snd b))%bool.

Definition em_check (c : em_case) : bool :=
  let '(merged, others) := em_merge_events gen_event_mergers (ec_events c) in
  let tickets := match filter (fun m => String.eqb (fst m) "TagAddBurnTicket") merged with
                 | m :: _ => snd m | [] => [] end in
  (list_eqb merged_eqb merged (ec_merged c) && Nat.eqb (List.length others) (ec_others c) &&
   (* one row per ticket of the merged event *)
   multiset_eqb (ec_tickets c) (em_burn_tickets_stored tickets))%bool.

(* A field case: the events of ONE additive tag in a block, with their payload fields in the order of the generated
   table (scalar x as [(0, x)], a map as its entries), and the data of the merged event the real mergeEvents returned
   (index = identity of the datum). [emf_check]: the tag is MfAdd in the generated table with as many fields as every
   payload has; the model merge has the same indices; per index and field the entries are the same multiset. *)
Record emf_case := { fc_tag : string; fc_events : list emf_event; fc_merged : list emf_event }.

Fixpoint emf_find (idx : Z) (es : list emf_event) : option emf_event :=
  match es with
  | [] => None
  | e :: tl => if Z.eqb (fe_index e) idx then Some e else emf_find idx tl
  end.

Fixpoint fields_eqb (a b : emf_payload) : bool :=
  match a, b with
  | [], [] => true
  | x :: ta, y :: tb => (multiset_eqb x y && fields_eqb ta tb)%bool
  | _, _ => false
  end.

Definition emf_check (c : emf_case) : bool :=
  match em_fn_of gen_merge_fns (fc_tag c) with
  | Some (MfAdd fs) =>
      let model := emf_merge (fc_events c) in
      (forallb (fun e => Nat.eqb (List.length (fe_fields e)) (List.length fs)) (fc_events c) &&
       Nat.eqb (List.length model) (List.length (fc_merged c)) &&
       forallb (fun m => match emf_find (fe_index m) (fc_merged c) with
                         | Some r => fields_eqb (fe_fields m) (fe_fields r)
                         | None => false
                         end) model)%bool
  | _ => false
  end.

Inductive em_anycase := EcBlock (c : em_case) | EcFields (c : emf_case).
Definition em_check_any (c : em_anycase) : bool :=
  match c with EcBlock b => em_check b | EcFields f => emf_check f end.

Definition fev (idx : Z) (fields : emf_payload) : emf_event := {| fe_index := idx; fe_fields := fields |}.

(* tag names used by the engine's cases (short identifiers keep the case files small) *)
Definition tgBurn : string := "TagAddBurnTicket".
Definition tgABurn : string := "TagAuthorizerBurn".
Definition tgMint : string := "TagAddBridgeMint".
Definition tgLock : string := "TagLockStakePool".
Definition tgUnlock : string := "TagUnlockStakePool".
Definition tgRpLock : string := "TagLockReadPool".
Definition tgReward : string := "TagUpdateUserCollectedRewards".
Definition tgUser : string := "TagAddOrOverwriteUser".
Definition tgChain : string := "TagFinalizeBlock".
Definition tgUnique : string := "TagUniqueAddress".
Definition tgNoMerger : string := "TagToChallengePool".
Definition tgError : string := "TagAddBlock".
