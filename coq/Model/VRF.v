(* Round seed from VRF shares (property C33), on top of the DKG model:
     miner/protocol_bls.go   verifyVRFShare, AddVRFShare, ThresholdNumBLSSigReceived,
                             getVRFShareInfo, computeRoundRandomSeed
     chaincore/round/entity.go   Round.AddVRFShare
   A share event is (timeout count matches, (sender id, signature)).  Definitions only
   (MathComp style); the admission control flow is the generic Model/VRFAdmit.v. *)
From mathcomp Require Import all_ssreflect ssralg poly.
From ZC Require Import Model.DKG Model.VRFAdmit.
Set Implicit Arguments.
Unset Strict Implicit.
Unset Printing Implicit Defensive.
Import GRing.Theory.
Local Open Scope ring_scope.

Section VRFModel.
Variable F : fieldType.
Variables G1 G2 GT : lmodType F.
Variable g2 : G2.
Variable M : Type.
Variable H : M -> G1.
Variable e : G1 -> G2 -> GT.
Variable Seed : Type.
(* computeRoundRandomSeed: first 64 bits of the hash of the serialized group signature *)
Variable seed_of : G1 -> Seed.

Definition vrf_ev : Type := (bool * (F * G1))%type.

(* verifyVRFShare: dkg.VerifySignature(share, msg, ComputeIDdkg(party)); only the ids of the magic
   block's miners have a public key in gmpk, the library rejects the zero key of any other id *)
Definition vrf_verify (mpks : seq (seq G2)) (members : seq F) (m : M) (ev : vrf_ev) : bool :=
  ((ev.2).1 \in members) && dkg_verify g2 H e (dkg_gpk_at mpks (ev.2).1) m (ev.2).2.

Definition vrf_same (a b : vrf_ev) : bool := (a.2).1 == (b.2).1.

Definition vrf_add (t : nat) mpks members m (st : seq vrf_ev) (ev : vrf_ev) :=
  va_add (fun ev : vrf_ev => ev.1) vrf_same (vrf_verify mpks members m) t st ev.

Definition vrf_run (t : nat) mpks members m (st : seq vrf_ev) (evs : seq vrf_ev) :=
  va_run (fun ev : vrf_ev => ev.1) vrf_same (vrf_verify mpks members m) t st evs.

(* Histories with round restarts (restartRound: Round.Restart + IncrementTimeoutCount): a restart
   empties the set of admitted shares (Round.initialize recreates the shares map) and the round
   continues under a new message (the timeout count is part of it). *)
Inductive vrf_hev : Type := VShare (ev : vrf_ev) | VRestart (m' : M).

Definition vrf_hstep (t : nat) mpks members (s : M * seq vrf_ev) (h : vrf_hev) : M * seq vrf_ev :=
  match h with
  | VShare ev => (s.1, (vrf_add t mpks members s.1 s.2 ev).1)
  | VRestart m' => (m', [::])
  end.

Definition vrf_hrun (t : nat) mpks members (s : M * seq vrf_ev) (hs : seq vrf_hev) :=
  foldl (vrf_hstep t mpks members) s hs.

(* ThresholdNumBLSSigReceived + computeRoundRandomSeed: with fewer than t admitted shares there
   is no seed; otherwise the group signature is recovered from all admitted shares (a failing
   recovery leaves the zero signature, the code only logs the error) and hashed *)
Definition vrf_seed (t : nat) (st : seq vrf_ev) : option Seed :=
  if va_has_seed t st then Some (seed_of (odflt 0 (dkg_recover [seq ev.2 | ev <- st])))
  else None.

End VRFModel.
