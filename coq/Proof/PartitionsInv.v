(* C25: the representation invariant of the partitions structure, stated over the observations
   (Last.Loc, Last.Items, effective partition contents, persisted locations, location cache,
   persisted partition nodes, cached partition objects), and its basic consequences. *)
From ZC Require Import Model.Partitions Model.PartitionsSpec Proof.PartitionsUtil.
From Coq Require Import Sorting.Permutation.
Open Scope Z_scope.

(* observations of a working state *)
Definition pt_L (ws : pt_ws) : list pt_item := pp_items (pt_last ws).
Definition pt_T (ws : pt_ws) (id : Z) : option nat := pt_locs_get id (tt_locs (ws_trie ws)).
Definition pt_C (ws : pt_ws) (id : Z) : option nat := pt_locs_get id (pm_lcache (ws_mem ws)).
Definition pt_Pt (ws : pt_ws) (i : nat) : option (list pt_item) := pt_parts_get i (tt_parts (ws_trie ws)).
Definition pt_Ch (ws : pt_ws) (i : nat) : option pt_part := pt_cache_get i (pm_cache (ws_mem ws)).

Definition pt_flat (E : nat -> list pt_item) (n : nat) (L : list pt_item) : list pt_item :=
  flat_map E (seq 0 n) ++ L.

(* [stale]: during Remove one id (already taken out of its partition) still has its location
   entry until removeItemLoc runs; None everywhere else *)
Record pt_core (stale : option (Z * nat)) (size n : nat) (L : list pt_item) (E : nat -> list pt_item)
       (T C : Z -> option nat) (Pt : nat -> option (list pt_item)) (Ch : nat -> option pt_part) : Prop := {
  io_size : (1 <= size)%nat;
  io_last_len : (length L <= size)%nat;                       (* Last never exceeds the size *)
  io_full : forall i, (i < n)%nat -> length (E i) = size;     (* all partitions but the last are full *)
  io_nodup : NoDup (pt_ids (pt_flat E n L));                  (* ids unique across all partitions *)
  io_locs : forall id l, T id = Some l <->
              (((l < n)%nat /\ In id (pt_ids (E l))) \/ stale = Some (id, l));   (* locations exact *)
  io_stale : forall id l, stale = Some (id, l) -> ~ In id (pt_ids (pt_flat E n L));
  io_lcache : forall id l, C id = Some l -> T id = Some l;    (* the location cache only holds true entries *)
  io_cache : forall i p, Ch i = Some p ->
               (i < n)%nat /\ (pp_changed p = false -> Pt i = Some (pp_items p));
  io_trie : forall i, (i < n)%nat -> Pt i <> None }.          (* every packed partition has its node *)

(* the invariant between calls: nothing stale, and Last is empty only for the empty set *)
Definition pt_inv_obs (size n : nat) (L : list pt_item) (E : nat -> list pt_item)
       (T C : Z -> option nat) (Pt : nat -> option (list pt_item)) (Ch : nat -> option pt_part) : Prop :=
  pt_core None size n L E T C Pt Ch /\ ((0 < n)%nat -> L <> []).

Definition pt_core_ws (stale : option (Z * nat)) (size : nat) (ws : pt_ws) : Prop :=
  pt_core stale size (pt_loc ws) (pt_L ws) (pt_eff ws) (pt_T ws) (pt_C ws) (pt_Pt ws) (pt_Ch ws).

Definition pt_inv (size : nat) (ws : pt_ws) : Prop :=
  pt_core_ws None size ws /\ ((0 < pt_loc ws)%nat -> pt_L ws <> []).

Lemma pt_abs_flat ws : pt_abs ws = pt_flat (pt_eff ws) (pt_loc ws) (pt_L ws).
Proof. reflexivity. Qed.

Lemma pt_flat_ext E E' n L :
  (forall i, (i < n)%nat -> E i = E' i) -> pt_flat E n L = pt_flat E' n L.
Proof. intros H. unfold pt_flat. f_equal. apply flat_map_seq_ext. intros i Hi. apply H. lia. Qed.

Lemma pt_core_ext stale size n L E E' T T' C C' Pt Pt' Ch Ch' :
  (forall i, (i < n)%nat -> E i = E' i) -> (forall id, T id = T' id) -> (forall id, C id = C' id) ->
  (forall i, Pt i = Pt' i) -> (forall i, Ch i = Ch' i) ->
  pt_core stale size n L E T C Pt Ch -> pt_core stale size n L E' T' C' Pt' Ch'.
Proof.
  intros HE HT HC HP HCh [H1 H2 H4 H5 H6 Hs H7 H8 H9]. constructor; auto.
  - intros i Hi. rewrite <- HE by exact Hi. auto.
  - rewrite <- (pt_flat_ext E E') by exact HE. exact H5.
  - intros id l. rewrite <- HT. rewrite H6. split; (intros [[Ha Hb]|Hb]; [left; split; [exact Ha|]|right; exact Hb]).
    + rewrite <- HE by exact Ha. exact Hb.
    + rewrite HE by exact Ha. exact Hb.
  - intros id l Hst. rewrite <- (pt_flat_ext E E') by exact HE. eauto.
  - intros id l. rewrite <- HC, <- HT. auto.
  - intros i p. rewrite <- HCh, <- HP. auto.
  - intros i Hi. rewrite <- HP. auto.
Qed.

(* ---------- consequences of unique ids ---------- *)
Lemma nodup_flat_map_disjoint (f : nat -> list pt_item) l i j id :
  NoDup (pt_ids (flat_map f l)) -> In i l -> In j l -> i <> j ->
  In id (pt_ids (f i)) -> In id (pt_ids (f j)) -> False.
Proof.
  induction l as [|a tl IH]; cbn [flat_map]; intros Hnd Hi Hj Hne Hx Hy; [contradiction|].
  assert (Hin : forall k, In k tl -> In id (pt_ids (f k)) -> In id (pt_ids (flat_map f tl))).
  { intros k Hk Hid. unfold pt_ids in *. apply in_map_iff in Hid. destruct Hid as (x & Hfx & Hxin).
    apply in_map_iff. exists x. split; [exact Hfx|]. apply in_flat_map. exists k. auto. }
  destruct Hi as [->|Hi], Hj as [->|Hj].
  - contradiction.
  - eapply nodup_ids_disjoint; [exact Hnd|exact Hx|]. eapply Hin; eassumption.
  - eapply nodup_ids_disjoint; [exact Hnd|exact Hy|]. eapply Hin; eassumption.
  - apply IH; auto. eapply nodup_ids_app_r. exact Hnd.
Qed.

Lemma in_flat x E n L :
  In x (pt_flat E n L) <-> (exists i, (i < n)%nat /\ In x (E i)) \/ In x L.
Proof. unfold pt_flat. rewrite in_app_iff, in_flat_map_seq. tauto. Qed.

Lemma in_flat_ids id E n L :
  In id (pt_ids (pt_flat E n L)) <-> (exists i, (i < n)%nat /\ In id (pt_ids (E i))) \/ In id (pt_ids L).
Proof.
  unfold pt_ids. rewrite in_map_iff. split.
  - intros (x & Hfx & Hin). apply in_flat in Hin. destruct Hin as [(i & Hi & Hin)|Hin].
    + left. exists i. split; [exact Hi|]. apply in_map_iff. eauto.
    + right. apply in_map_iff. eauto.
  - intros [(i & Hi & Hin)|Hin]; apply in_map_iff in Hin; destruct Hin as (x & Hfx & Hin);
      exists x; (split; [exact Hfx|]); apply in_flat; eauto.
Qed.

Lemma flat_parts_disjoint E n L i j id :
  NoDup (pt_ids (pt_flat E n L)) ->
  (i < n)%nat -> (j < n)%nat -> i <> j -> In id (pt_ids (E i)) -> In id (pt_ids (E j)) -> False.
Proof.
  intros H Hi Hj. apply nodup_flat_map_disjoint with (l := seq 0 n).
  - unfold pt_flat in H. eapply nodup_ids_app_l. exact H.
  - apply in_seq. lia.
  - apply in_seq. lia.
Qed.

Lemma flat_part_last_disjoint E n L i id :
  NoDup (pt_ids (pt_flat E n L)) ->
  (i < n)%nat -> In id (pt_ids (E i)) -> In id (pt_ids L) -> False.
Proof.
  intros H Hi Hx Hy. unfold pt_flat in H.
  eapply nodup_ids_disjoint; [exact H| |exact Hy].
  unfold pt_ids in *. apply in_map_iff in Hx. destruct Hx as (x & Hfx & Hxin).
  apply in_map_iff. exists x. split; [exact Hfx|]. apply in_flat_map_seq. exists i. auto.
Qed.

Lemma flat_part_nodup E n L i : NoDup (pt_ids (pt_flat E n L)) -> (i < n)%nat -> NoDup (pt_ids (E i)).
Proof.
  intros H Hi. unfold pt_flat in H.
  apply nodup_ids_app_l in H. rewrite (flat_map_seq_split E n i Hi) in H.
  apply nodup_ids_app_r in H. apply nodup_ids_app_l in H. exact H.
Qed.

Lemma flat_last_nodup E n L : NoDup (pt_ids (pt_flat E n L)) -> NoDup (pt_ids L).
Proof. intros H. unfold pt_flat in H. eapply nodup_ids_app_r. exact H. Qed.

Lemma flat_split E n L l :
  (l < n)%nat ->
  pt_flat E n L = flat_map E (seq 0 l) ++ E l ++ flat_map E (seq (S l) (n - S l)) ++ L.
Proof. intros H. unfold pt_flat. rewrite (flat_map_seq_split E n l H). rewrite <- !app_assoc. reflexivity. Qed.

Section CoreFacts.
  Context {stale : option (Z * nat)} {size n : nat} {L : list pt_item} {E : nat -> list pt_item}
          {T C : Z -> option nat} {Pt : nat -> option (list pt_item)} {Ch : nat -> option pt_part}
          (Hc : pt_core stale size n L E T C Pt Ch).

  (* an id held by Last has no location entry *)
  Lemma io_last_no_loc id : In id (pt_ids L) -> T id = None.
  Proof.
    intros Hin. destruct (T id) as [l|] eqn:E1; [|reflexivity]. exfalso.
    apply (io_locs _ _ _ _ _ _ _ _ _ Hc) in E1. destruct E1 as [[Hl Hx]|Hs].
    - eapply flat_part_last_disjoint; [apply (io_nodup _ _ _ _ _ _ _ _ _ Hc)| | |]; eassumption.
    - apply (io_stale _ _ _ _ _ _ _ _ _ Hc) in Hs. apply Hs. apply in_flat_ids. right. exact Hin.
  Qed.

  Lemma io_no_loc_not_in_parts id i : T id = None -> (i < n)%nat -> ~ In id (pt_ids (E i)).
  Proof.
    intros HT Hi Hin. assert (H : T id = Some i) by (apply (io_locs _ _ _ _ _ _ _ _ _ Hc); auto).
    congruence.
  Qed.

  Lemma io_total_len : length (pt_flat E n L) = (n * size + length L)%nat.
  Proof.
    unfold pt_flat. rewrite app_length. f_equal.
    assert (H : forall k, (k <= n)%nat -> length (flat_map E (seq 0 k)) = (k * size)%nat).
    { induction k as [|k IH]; intros Hk; [reflexivity|].
      rewrite flat_map_seq_S, app_length, IH by lia.
      rewrite (io_full _ _ _ _ _ _ _ _ _ Hc k) by lia. lia. }
    apply H. lia.
  Qed.
End CoreFacts.

(* the id is a member iff it is in Last or has a location (nothing stale) *)
Lemma io_member size n L E T C Pt Ch id :
  pt_core None size n L E T C Pt Ch ->
  (In id (pt_ids (pt_flat E n L)) <-> (In id (pt_ids L) \/ exists l, T id = Some l)).
Proof.
  intros Hc. rewrite in_flat_ids. split.
  - intros [(i & Hi & Hin)|Hin]; [right|left; exact Hin]. exists i.
    apply (io_locs _ _ _ _ _ _ _ _ _ Hc). auto.
  - intros [Hin|(l & Hl)]; [right; exact Hin|left]. apply (io_locs _ _ _ _ _ _ _ _ _ Hc) in Hl.
    destruct Hl as [Hl|Hl]; [|discriminate]. exists l. exact Hl.
Qed.

(* get_loc agrees with the persisted location under the invariant *)
Lemma pt_get_loc_T stale size ws id : pt_core_ws stale size ws -> pt_get_loc ws id = pt_T ws id.
Proof.
  intros Hc. unfold pt_get_loc. fold (pt_C ws id). fold (pt_T ws id).
  destruct (pt_C ws id) as [l|] eqn:E; [|reflexivity].
  symmetry. apply (io_lcache _ _ _ _ _ _ _ _ _ Hc). exact E.
Qed.
