(* E-storage proofs. Part 1 (C12): for every open allocation the challenge pool balance equals
   the sum of the per-blobber outstanding values; the equality is preserved by every modelled
   operation except when one of the two accounting defects of the code fires ([ss_fired]). *)
From Coq Require Import ZArith List Bool Lia.
From ZC Require Import Model.F64 Model.Storage Proof.StorageUtil.
Import ListNotations.
Open Scope Z_scope.

(* ---------- the invariant ---------- *)

Definition al_cpivs (a : ss_alloc) : list Z := map ba_cpiv (al_bas a).
Definition al_money (a : ss_alloc) : option Z * list Z * Z := (al_cp a, al_cpivs a, al_wpool a).

(* pool = sum of values; values non-negative; the sum fits uint64; write pool non-negative *)
Definition c12_money (m : option Z * list Z * Z) : Prop :=
  fst (fst m) = Some (ss_sum (snd (fst m))) /\ Forall (fun v => 0 <= v) (snd (fst m)) /\
  ss_sum (snd (fst m)) < 2 ^ 64 /\ 0 <= snd m.

Definition al_c12 (a : ss_alloc) : Prop := c12_money (al_money a).
Definition st_c12 (s : ss_state) : Prop := Forall al_c12 (st_allocs s).

Lemma al_c12_money_eq : forall a a', al_money a' = al_money a -> al_c12 a -> al_c12 a'.
Proof. unfold al_c12; intros a a' E H; rewrite E; exact H. Qed.

Lemma al_c12_cp : forall a, al_c12 a -> al_cp a = Some (ss_sum_cpiv (al_bas a)).
Proof. intros a [H _]. exact H. Qed.

Lemma cpivs_nonneg_Forall : forall l, Forall (fun v => 0 <= v) (map ba_cpiv l) <-> Forall (fun d => 0 <= ba_cpiv d) l.
Proof. intros l. rewrite Forall_map. reflexivity. Qed.

Lemma al_c12_ba_range : forall a b d, al_c12 a -> ss_find_ba b (al_bas a) = Some d -> 0 <= ba_cpiv d <= ss_sum_cpiv (al_bas a).
Proof.
  intros a b d [_ [Hn _]] Hf. cbn in Hn. apply cpivs_nonneg_Forall in Hn.
  split; [eapply Forall_find_ba in Hf; eauto; exact Hf|].
  apply ss_cpiv_le_sum; auto. apply ss_find_ba_in in Hf. tauto.
Qed.

(* changing the value of one blobber allocation together with the pool *)
Lemma c12_set_ba : forall a d d' cp' w,
  al_c12 a -> ss_find_ba (ba_blobber d') (al_bas a) = Some d ->
  cp' = ss_sum_cpiv (al_bas a) - ba_cpiv d + ba_cpiv d' -> 0 <= ba_cpiv d' -> cp' < 2 ^ 64 -> 0 <= w ->
  c12_money (Some cp', map ba_cpiv (ss_set_ba d' (al_bas a)), w).
Proof.
  intros a d d' cp' w [Hcp [Hn [Hlt Hw0]]] Hf -> Hd Hb Hw. cbn in *.
  assert (S : ss_sum (map ba_cpiv (ss_set_ba d' (al_bas a))) = ss_sum_cpiv (al_bas a) - ba_cpiv d + ba_cpiv d').
  { apply (ss_sum_cpiv_set_ba _ _ _ Hf). }
  split; [|split; [|split]]; cbn.
  - rewrite S. reflexivity.
  - apply cpivs_nonneg_Forall. apply Forall_set_ba; [apply cpivs_nonneg_Forall; exact Hn | exact Hd].
  - rewrite S. exact Hb.
  - exact Hw.
Qed.

(* ---------- stat-only helpers keep the money projection ---------- *)

Lemma map_cpiv_set_ba_same : forall l d d', ss_find_ba (ba_blobber d') l = Some d -> ba_cpiv d' = ba_cpiv d ->
  map ba_cpiv (ss_set_ba d' l) = map ba_cpiv l.
Proof.
  induction l as [|x tl IH]; cbn; intros d d' H E; [reflexivity|].
  destruct (Z.eqb_spec (ba_blobber x) (ba_blobber d')).
  - inversion H; subst. cbn. rewrite E. reflexivity.
  - cbn. rewrite (IH _ _ H E). reflexivity.
Qed.

Lemma ss_find_ba_self : forall b l d, ss_find_ba b l = Some d -> ss_find_ba (ba_blobber d) l = Some d.
Proof. intros b l d H. destruct (ss_find_ba_in _ _ _ H) as [_ E]. rewrite E. exact H. Qed.

(* an allocation whose blobber list was updated by a same-value entry keeps its money projection *)
Lemma money_set_ba_same : forall a b d d' bas', ss_find_ba b (al_bas a) = Some d -> ba_blobber d' = ba_blobber d ->
  ba_cpiv d' = ba_cpiv d -> bas' = ss_set_ba d' (al_bas a) -> (al_cp a, map ba_cpiv bas', al_wpool a) = al_money a.
Proof.
  intros a b d d' bas' Hf Hb Hc ->. unfold al_money, al_cpivs. f_equal. f_equal.
  apply (map_cpiv_set_ba_same _ d); [rewrite Hb; eapply ss_find_ba_self; eauto | exact Hc].
Qed.

Lemma ss_drop_ocs_money : forall sel ocs a a' keep gone,
  ss_drop_ocs sel ocs a = (a', keep, gone) -> al_money a' = al_money a.
Proof.
  induction ocs as [|oc tl IH]; cbn [ss_drop_ocs]; intros a a' keep gone H.
  - inversion H; reflexivity.
  - destruct (sel oc).
    + destruct (ss_find_ba (oc_blobber oc) (al_bas a)) as [d|] eqn:Ef.
      * remember (ss_drop_ocs sel tl _) as r eqn:Er. destruct r as [[a2 k2] g2]. symmetry in Er.
        inversion H; subst. rewrite (IH _ _ _ _ Er).
        unfold al_money at 1, al_cpivs at 1. cbn [al_cp al_bas al_wpool al_with_stats al_with_bas al_with_pools].
        refine (money_set_ba_same a _ d _ _ Ef _ _ eq_refl); reflexivity.
      * remember (ss_drop_ocs sel tl a) as r eqn:Er. destruct r as [[a2 k2] g2]. symmetry in Er.
        inversion H; subst. eauto.
    + remember (ss_drop_ocs sel tl a) as r eqn:Er. destruct r as [[a2 k2] g2]. symmetry in Er.
      inversion H; subst. eauto.
Qed.

Lemma ss_settle_ocs_money : forall c round sel ocs a a' keep gone,
  ss_settle_ocs c round sel ocs a = (a', keep, gone) -> al_money a' = al_money a.
Proof.
  induction ocs as [|oc tl IH]; cbn [ss_settle_ocs]; intros a a' keep gone H.
  - inversion H; reflexivity.
  - destruct (if sel oc then ss_find_ba (oc_blobber oc) (al_bas a) else None) as [d|] eqn:Ef.
    + assert (Ef' : ss_find_ba (oc_blobber oc) (al_bas a) = Some d) by (destruct (sel oc); [exact Ef | discriminate]).
      remember (ss_settle_ocs c round sel tl _) as r eqn:Er. destruct r as [[a2 k2] g2]. symmetry in Er.
      inversion H; subst. rewrite (IH _ _ _ _ Er).
      unfold al_money at 1, al_cpivs at 1. cbn [al_cp al_bas al_wpool al_with_stats al_with_bas al_with_pools].
      refine (money_set_ba_same a _ d _ _ Ef' _ _ eq_refl); reflexivity.
    + remember (ss_settle_ocs c round sel tl a) as r eqn:Er. destruct r as [[a2 k2] g2]. symmetry in Er.
      inversion H; subst. eauto.
Qed.

Lemma ss_flush_open_cpiv : forall d, ba_cpiv (ss_flush_open d) = ba_cpiv d.
Proof. intros d. unfold ss_flush_open. destruct (0 <? ba_open d); reflexivity. Qed.

Lemma ss_settle_all_money : forall c round a a' rates gone,
  ss_settle_all c round a = (a', rates, gone) -> al_money a' = al_money a.
Proof.
  unfold ss_settle_all; intros c round a a' rates gone H.
  destruct (negb (al_chnode a)); [inversion H; reflexivity|].
  remember (ss_settle_ocs c round (fun _ => true) (al_ocs a) a) as r eqn:Er. destruct r as [[a1 k1] g1]. symmetry in Er.
  inversion H; subst. rewrite <- (ss_settle_ocs_money _ _ _ _ _ _ _ _ Er).
  unfold al_money, al_cpivs. cbn [al_cp al_bas al_wpool al_with_stats al_with_bas al_with_pools]. f_equal. f_equal.
  rewrite map_map. apply map_ext. intros d. apply ss_flush_open_cpiv.
Qed.

Lemma ss_flush_open_blobber : forall d, ba_blobber (ss_flush_open d) = ba_blobber d.
Proof. intros d. unfold ss_flush_open. destruct (0 <? ba_open d); reflexivity. Qed.

Lemma ss_remove_rates_money : forall c round a b a' rate gone,
  ss_remove_rates c round a b = Some (a', rate, gone) -> al_money a' = al_money a.
Proof.
  unfold ss_remove_rates; intros c round a b a' rate gone H.
  destruct (negb (al_chnode a)); [inversion H; reflexivity|].
  remember (ss_settle_ocs c round _ (al_ocs a) a) as r eqn:Er. destruct r as [[a1 k1] g1]. symmetry in Er.
  bind_inv H. inversion H; subst. rewrite <- (ss_settle_ocs_money _ _ _ _ _ _ _ _ Er).
  unfold al_money at 1, al_cpivs at 1. cbn [al_cp al_bas al_wpool al_with_stats al_with_bas al_with_pools].
  refine (money_set_ba_same a1 _ x _ _ E _ _ eq_refl); [apply ss_flush_open_blobber | apply ss_flush_open_cpiv].
Qed.

(* ---------- arithmetic steps ---------- *)

Lemma ss_challenge_some : forall d dtu rdtu d' move, ss_challenge d dtu rdtu = Some (d', move) ->
  d' = ba_with_cpiv d (ba_cpiv d - move) /\ 0 <= move <= ba_cpiv d.
Proof.
  unfold ss_challenge; intros d dtu rdtu d' move H. bind_inv H. apply ss_minus_coin_some in E. destruct E as [-> Hle].
  inversion H; subst. pose proof (f64_to_u64_range (f64_mul (f64_div dtu rdtu) (f64_of_Z (ba_cpiv d)))). intuition lia.
Qed.

(* validators are paid out of the pool: it shrinks by the reward unless there is nobody to pay *)
Lemma ss_to_validators_some : forall vs ids cp reward vs' cp', ss_to_validators vs ids cp reward = Some (vs', cp') ->
  (cp' = cp - reward /\ reward <= cp) \/ (cp' = cp /\ (ids = [] \/ reward = 0)).
Proof.
  unfold ss_to_validators; intros vs ids cp reward vs' cp' H. bind_inv H.
  destruct ((Z.of_nat (length ids) =? 0) || (reward =? 0)) eqn:Ez.
  - inversion H; subst. right. split; [reflexivity|]. apply orb_true_iff in Ez. destruct Ez as [Ez|Ez].
    + left. apply Z.eqb_eq in Ez. destruct ids; [reflexivity | cbn in Ez; lia].
    + right. apply Z.eqb_eq in Ez. exact Ez.
  - destruct (Z.ltb_spec cp reward); [discriminate|]. bind_inv H. bind_inv H. inversion H; subst. left. split; [reflexivity | lia].
Qed.

Lemma al_with_pools_money : forall a w mtc mb mtv cp bas, al_money (al_with_pools a w mtc mb mtv cp bas) = (cp, map ba_cpiv bas, w).
Proof. reflexivity. Qed.

Lemma al_with_stats_money : forall a u t o s f ocs ch, al_money (al_with_stats a u t o s f ocs ch) = al_money a.
Proof. reflexivity. Qed.

Lemma al_with_head_money : forall a o e s p t, al_money (al_with_head a o e s p t) = al_money a.
Proof. reflexivity. Qed.

Lemma st_c12_set : forall s a, st_c12 s -> al_c12 a -> st_c12 (st_with_allocs s (ss_set_alloc a (st_allocs s))).
Proof. unfold st_c12; intros s a Hs Ha. cbn. apply Forall_set_alloc; auto. Qed.

Lemma al_c12_sum_lt : forall a, al_c12 a -> ss_sum_cpiv (al_bas a) < 2 ^ 64.
Proof. intros a [_ [_ [H _]]]. exact H. Qed.
Lemma al_c12_wpool : forall a, al_c12 a -> 0 <= al_wpool a.
Proof. intros a [_ [_ [_ H]]]. exact H. Qed.

Lemma c12_delta : forall a d d' delta cp0 w,
  al_c12 a -> ss_find_ba (ba_blobber d') (al_bas a) = Some d -> ba_cpiv d' = ba_cpiv d + delta -> 0 <= ba_cpiv d' ->
  al_cp a = Some cp0 -> (0 < delta -> cp0 + delta < 2 ^ 64) -> 0 <= w ->
  c12_money (Some (cp0 + delta), map ba_cpiv (ss_set_ba d' (al_bas a)), w).
Proof.
  intros a d d' delta cp0 w Ha Hf Hc Hn Hcp Hb Hw. pose proof (al_c12_cp _ Ha) as Hcp'. rewrite Hcp in Hcp'. inversion Hcp'; subst cp0.
  pose proof (al_c12_sum_lt _ Ha) as Hlt.
  apply (c12_set_ba a d d'); auto; [lia|].
  destruct (Z.lt_ge_cases 0 delta); [auto | lia].
Qed.

Lemma c12_same : forall a d d' cp w,
  al_c12 a -> ss_find_ba (ba_blobber d') (al_bas a) = Some d -> ba_cpiv d' = ba_cpiv d -> cp = al_cp a -> 0 <= w ->
  c12_money (cp, map ba_cpiv (ss_set_ba d' (al_bas a)), w).
Proof.
  intros a d d' cp w Ha Hf Hc -> Hw. rewrite (map_cpiv_set_ba_same _ _ _ Hf Hc).
  destruct Ha as [H1 [H2 [H3 _]]]. repeat split; auto.
Qed.

(* commitMoveTokens: the pool and the blobber's value move by the same amount *)
Lemma ss_commit_move_some : forall c a d size ts w mtc mb cp d',
  ss_commit_move c a d size ts = Some (w, mtc, mb, cp, d') -> 0 <= ba_cpiv d -> 0 <= al_wpool a ->
  ba_blobber d' = ba_blobber d /\ 0 <= ba_cpiv d' /\ 0 <= w /\ ((ba_cpiv d' = ba_cpiv d /\ cp = al_cp a) \/
   exists cp0 delta, al_cp a = Some cp0 /\ cp = Some (cp0 + delta) /\ ba_cpiv d' = ba_cpiv d + delta /\ (0 < delta -> cp0 + delta < 2 ^ 64)).
Proof.
  unfold ss_commit_move; intros c a d size ts w mtc mb cp d' H Hn Hw.
  destruct (size =? 0).
  { inversion H; subst. split; [reflexivity|]. split; [exact Hn|]. split; [exact Hw|]. left; split; reflexivity. }
  bind_inv H. bind_inv H. rename x into cp0.
  destruct (0 <? size).
  - bind_inv H. apply ss_add_coin_some in E1. destruct E1 as [-> Hlt].
    bind_inv H. destruct x as [w1 cp1]. apply ss_move_to_cp_some in E1. destruct E1 as [-> [-> [Hlt2 Hle]]].
    bind_inv H. inversion H; subst. cbn.
    set (move := Z.min _ (al_wpool a)) in *.
    assert (0 <= move).
    { subst move. apply Z.min_glb; [apply f64_to_u64_range | lia]. }
    split; [reflexivity|]. split; [lia|]. split; [lia|]. right. exists cp0, move. repeat split; auto.
  - bind_inv H. apply ss_minus_coin_some in E1. destruct E1 as [-> Hle].
    bind_inv H. destruct x as [w1 cp1]. apply ss_move_from_cp_some in E1. destruct E1 as [-> [-> Hle2]].
    bind_inv H. bind_inv H. inversion H; subst. cbn.
    set (move := Z.min _ (ba_cpiv d)) in *.
    assert (0 <= move).
    { subst move. apply Z.min_glb; [apply f64_to_u64_range | lia]. }
    split; [reflexivity|]. split; [lia|]. split; [lia|]. right. exists cp0, (- move). repeat split; auto; lia.
Qed.
