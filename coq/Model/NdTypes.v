(* Types of the generated list of nondeterminism sites (Gen/NdSites.v, translator harness/translators/ndsites; property C06). *)
From Coq Require Export List String Bool.
Export ListNotations.

Inductive nd_kind := NdMapRange | NdTimeNow | NdGlobalRand | NdGoroutine | NdSelect | NdFanIn.

Inductive nd_class :=
  | ClOrderFree     (* map range: body only deletes / writes m2[key] / accumulates integers commutatively / sets constant flags *)
  | ClCollectSort   (* map range: body only appends to slices that are sorted afterwards *)
  | ClExistsCheck   (* map range: `if cond { return consts }` - an existence test *)
  | ClOrderDep      (* map range: anything else *)
  | ClClock         (* time.Now / Since / Until *)
  | ClRand          (* package-level math/rand (global source) *)
  | ClSched         (* go statement / select *)
  (* call of a fan-in function (one goroutine per item, one error returned), by what its callback can return: *)
  | ClFanInOrdered  (* the fan-in function sends no error through a plain error channel: all errors carry the index and are sorted *)
  | ClFanInConst    (* the first error to arrive surfaces, but every error is the same whatever item produced it *)
  | ClFanInValue    (* ... some error text is formatted from non-string data loaded for the item (an enum, a number) *)
  | ClFanInItem.    (* ... some error text mentions the item (its id, a string of the loaded value), or the analysis cannot tell *)

Definition nd_site : Type := (string * nd_kind * nd_class)%type.

(* AlLemma: justified harmless; AlLimit: a real dependence on clock / scheduling / map order that is documented: the
   engine does not drive it, or drives it and reports the divergence under the signature named in the entry (fan-in
   calls whose error text depends on the stored provider type); AlFinding: divergence confirmed by the engine *)
Inductive nd_allow_kind := AlLemma | AlLimit | AlFinding.
(* site key, kind, justification (name of the argument, or the finding id) *)
Definition nd_allow : Type := (string * nd_allow_kind * string)%type.
