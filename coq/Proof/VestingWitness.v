(* History: inputs on which the float64 share used by vestingsc before /repo 2bd0df4 overpaid, by
   computation (no axioms). *)
From ZC Require Import Model.Vesting Proof.Vesting.
Open Scope Z_scope.

Definition vw_conf : vs_conf := {| vc_min_lock := 1; vc_min_dur := 2 * vs_second; vc_max_dur := 100000 * vs_second; vc_max_dests := 3 |}.
Definition vw_amount : Z := 2 ^ 53 + 3.

(* owner 0 locks amount + 10 for destination 1 over 100 s; the destination unlocks at expiry *)
Definition vw_ops_excess : list vs_op :=
  [VsAdd 0 1000 (vw_amount + 10) (Some (vw_amount + 10)) 1000 (100 * vs_second) [(1, vw_amount)];
   VsUnlock 1 1100; VsUnlock 0 1101; VsDelete 0 1102].

Lemma vw_excess_run :
  vs_run vs_share_f64 vw_conf None vw_ops_excess =
  (Some {| vp_balance := 9; vp_start := 1000; vp_expire := 1100;
           vp_dests := [{| vd_id := 1; vd_amount := vw_amount; vd_vested := vw_amount + 1; vd_last := 1100; vd_move := 1100 |}];
           vp_owner := 0 |},
   [VsOk [(0, vs_contract, vw_amount + 10)]; VsOk [(vs_contract, 1, vw_amount + 1)]; VsFail; VsFail]).
Proof. vm_compute. reflexivity. Qed.

(* the same pool without excess: after expiry nothing can be paid and the pool cannot be deleted *)
Definition vw_ops_exact : list vs_op :=
  [VsAdd 0 1000 vw_amount (Some vw_amount) 1000 (100 * vs_second) [(1, vw_amount)];
   VsUnlock 1 1100; VsTrigger 0 1101; VsDelete 0 1102; VsUnlock 1 5000].

Lemma vw_exact_run :
  vs_run vs_share_f64 vw_conf None vw_ops_exact =
  (Some {| vp_balance := vw_amount; vp_start := 1000; vp_expire := 1100;
           vp_dests := [{| vd_id := 1; vd_amount := vw_amount; vd_vested := 0; vd_last := 1000; vd_move := 1000 |}];
           vp_owner := 0 |},
   [VsOk [(0, vs_contract, vw_amount)]; VsFail; VsFail; VsFail; VsFail]).
Proof. vm_compute. reflexivity. Qed.

(* an ordinary amount (about 61 ZCN) two years into a vesting of a little under three: the
   float64 product is one token unit above the exact share *)
Definition vw_conf_long : vs_conf := {| vc_min_lock := 1; vc_min_dur := 2 * vs_second; vc_max_dur := 10000000 * vs_second; vc_max_dests := 3 |}.
Definition vw_ops_sched : list vs_op :=
  [VsAdd 0 1000 607985353607 (Some 607985353607) 1000 (5747560 * vs_second) [(1, 607985353607)]; VsUnlock 1 4822061].

Lemma vw_sched_run :
  fst (vs_run vs_share_f64 vw_conf_long None vw_ops_sched) =
  Some {| vp_balance := 98006427446; vp_start := 1000; vp_expire := 5748560;
          vp_dests := [{| vd_id := 1; vd_amount := 607985353607; vd_vested := 509978926161; vd_last := 4822061; vd_move := 4822061 |}];
          vp_owner := 0 |}.
Proof. vm_compute. reflexivity. Qed.

Lemma vw_wf : Forall (vs_op_wf vs_two64) vw_ops_excess /\ Forall (vs_op_wf vs_two64) vw_ops_exact /\
              Forall (vs_op_wf vs_two64) vw_ops_sched.
Proof.
  unfold vw_ops_excess, vw_ops_exact, vw_ops_sched.
  repeat split; repeat (constructor; try exact I);
    cbn [vs_op_wf]; unfold vs_two63, vs_two64, vw_amount, vs_second;
    repeat split; try lia; repeat constructor; cbn [snd]; lia.
Qed.

Lemma vw_f64_exceeds_amount : ~ (forall conf ops, Forall (vs_op_wf vs_two64) ops ->
                               vs_st_inv vs_two64 (fst (vs_run vs_share_f64 conf None ops))).
Proof.
  intros H. specialize (H vw_conf vw_ops_excess (proj1 vw_wf)). rewrite vw_excess_run in H.
  cbn [fst vs_st_inv] in H. destruct H as (_ & _ & _ & Hds & _). cbn [vp_dests] in Hds.
  inversion Hds as [|? ? Hd _]; subst. destruct Hd as ((_ & Hle) & _). cbn [vd_vested vd_amount] in Hle. unfold vw_amount in Hle. lia.
Qed.

Lemma vw_f64_ahead_of_schedule : ~ (forall conf ops, Forall (vs_op_wf vs_two64) ops ->
                                 vs_st_sched (fst (vs_run vs_share_f64 conf None ops))).
Proof.
  intros H. specialize (H vw_conf_long vw_ops_sched (proj2 (proj2 vw_wf))). rewrite vw_sched_run in H.
  cbn [vs_st_sched vp_dests vp_start vp_expire] in H. inversion H as [|? ? Hd _]; subst.
  unfold vs_on_schedule in Hd. cbn [vd_vested vd_amount vd_move] in Hd. vm_compute in Hd. apply Hd. reflexivity.
Qed.

Lemma vw_f64_full_statement_false : ~ vs_full_statement vs_share_f64.
Proof. intros H. apply vw_f64_exceeds_amount. intros conf ops Hwf. apply (H conf ops Hwf). Qed.

(* the owner can neither withdraw the excess (the 9 tokens left in the pool) nor delete, and in
   the pool without excess neither the destination nor the owner can ever move the tokens *)
Lemma vw_owner_locked_out :
  snd (vs_run vs_share_f64 vw_conf None vw_ops_excess) =
    [VsOk [(0, vs_contract, vw_amount + 10)]; VsOk [(vs_contract, 1, vw_amount + 1)]; VsFail; VsFail] /\
  snd (vs_run vs_share_f64 vw_conf None vw_ops_exact) =
    [VsOk [(0, vs_contract, vw_amount)]; VsFail; VsFail; VsFail; VsFail].
Proof. rewrite vw_excess_run, vw_exact_run. split; reflexivity. Qed.
