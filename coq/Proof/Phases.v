(* Lemmas about the view-change phase machine model (property C38). *)
From ZC Require Import Model.Phases.
Open Scope Z_scope.

(* ---------- the generated tables ---------- *)

Lemma ph_consts : ph_Start = 0 /\ ph_Contribute = 1 /\ ph_Share = 2 /\ ph_Publish = 3 /\ ph_Wait = 4 /\ ph_num_phases = 5.
Proof. vm_compute. repeat split. Qed.

(* every phase of the cycle has a move function; Start, Contribute, Publish have a phase function *)
Lemma ph_tables :
  forallb ph_has_move [0; 1; 2; 3; 4] = true /\
  map ph_has_func [0; 1; 2; 3; 4] = [true; true; false; true; false].
Proof. vm_compute. split; reflexivity. Qed.

Definition ph_next (p : Z) : Z :=
  pn_phase (ph_advance {| pn_phase := p; pn_start := 0; pn_current := 0; pn_restarts := 0 |}).

Lemma ph_cycle : map ph_next [ph_Start; ph_Contribute; ph_Share; ph_Publish; ph_Wait]
                 = [ph_Contribute; ph_Share; ph_Publish; ph_Wait; ph_Start].
Proof. vm_compute. reflexivity. Qed.

Lemma ph_advance_phase : forall pn, pn_phase (ph_advance pn) = ph_next (pn_phase pn).
Proof. intro pn. unfold ph_next, ph_advance. cbn [pn_phase]. destruct (Z.leb _ _); reflexivity. Qed.

Lemma ph_advance_start : forall pn, pn_start (ph_advance pn) = pn_current pn /\ pn_current (ph_advance pn) = pn_current pn.
Proof. intro pn. unfold ph_advance. destruct (Z.leb _ _); split; reflexivity. Qed.

(* ---------- setPhaseNode ---------- *)

Lemma ph_not_due_unchanged : forall rounds is_vc pn o,
  ph_due rounds is_vc pn = false -> ph_set_phase_node rounds is_vc pn o = (pn, PSaved, KNone).
Proof. intros. unfold ph_set_phase_node. rewrite H. reflexivity. Qed.

Lemma ph_step_cases : forall rounds is_vc pn o pn' out kind,
  ph_set_phase_node rounds is_vc pn o = (pn', out, kind) ->
  (kind = KNone /\ pn' = pn /\ out = PSaved /\ ph_due rounds is_vc pn = false) \/
  (kind = KFail /\ pn' = pn /\ out <> PSaved /\ ph_due rounds is_vc pn = true) \/
  (kind = KAdvance /\ pn' = ph_advance pn /\ out = PSaved /\ ph_due rounds is_vc pn = true /\
     o_move o = FOk /\ (ph_has_func (pn_phase pn) = true -> o_func o = FOk)) \/
  (kind = KRestart /\ pn' = ph_restart pn /\ out = PSaved /\ ph_due rounds is_vc pn = true /\ o_restart_ok o = true /\
     (o_move o = FErr \/ (o_move o = FOk /\ ph_has_func (pn_phase pn) = true /\ o_func o = FErr))).
Proof.
  intros rounds is_vc pn o pn' out kind H. unfold ph_set_phase_node in H.
  destruct (ph_due rounds is_vc pn) eqn:D.
  2: { inversion H; subst. left. auto. }
  destruct (negb (ph_has_move (pn_phase pn))).
  { inversion H; subst. right; left. repeat split; auto. discriminate. }
  destruct (o_move o) eqn:M.
  - destruct (ph_has_func (pn_phase pn)) eqn:F.
    + destruct (o_func o) eqn:G.
      * inversion H; subst. right; right; left. repeat split; auto.
      * destruct (o_restart_ok o) eqn:R; inversion H; subst.
        -- right; right; right. repeat split; auto.
        -- right; left. repeat split; auto. discriminate.
      * inversion H; subst. right; left. repeat split; auto. discriminate.
      * inversion H; subst. right; left. repeat split; auto. discriminate.
    + inversion H; subst. right; right; left. repeat split; auto. discriminate.
  - destruct (o_restart_ok o) eqn:R; inversion H; subst.
    + right; right; right. repeat split; auto.
    + right; left. repeat split; auto. discriminate.
  - inversion H; subst. right; left. repeat split; auto. discriminate.
  - inversion H; subst. right; left. repeat split; auto. discriminate.
Qed.

Lemma ph_restart_phase : forall pn, pn_phase (ph_restart pn) = ph_Start /\ pn_start (ph_restart pn) = pn_current pn /\
                                    pn_restarts (ph_restart pn) = pn_restarts pn + 1.
Proof. intro pn. repeat split. Qed.

(* the phase changes only when the current phase has run for its configured rounds with view change enabled;
   it then becomes the next phase of the cycle (move and phase function succeeded) or Start (restart) *)
Lemma ph_advances_only_on_schedule : forall rounds is_vc pn o pn' out kind,
  ph_set_phase_node rounds is_vc pn o = (pn', out, kind) ->
  pn_phase pn' <> pn_phase pn ->
  is_vc = true /\ rounds (pn_phase pn) <= pn_current pn - pn_start pn /\ pn_start pn' = pn_current pn /\
  ((pn_phase pn' = ph_next (pn_phase pn) /\ o_move o = FOk /\ (ph_has_func (pn_phase pn) = true -> o_func o = FOk)) \/
   (pn_phase pn' = ph_Start /\ pn_restarts pn' = pn_restarts pn + 1 /\
      (o_move o = FErr \/ (o_move o = FOk /\ o_func o = FErr)))).
Proof.
  intros rounds is_vc pn o pn' out kind H N.
  destruct (ph_step_cases _ _ _ _ _ _ _ H) as [[_ [E _]]|[[_ [E _]]|[[_ [E [_ [D [M F]]]]]|[_ [E [_ [D [_ C]]]]]]]];
    try (subst pn'; contradiction).
  - unfold ph_due in D. apply andb_prop in D as [V L]. apply Z.leb_le in L. subst pn'.
    split; [exact V|]. split; [exact L|]. split; [apply ph_advance_start|].
    left. split; [apply ph_advance_phase|]. split; assumption.
  - unfold ph_due in D. apply andb_prop in D as [V L]. apply Z.leb_le in L. subst pn'.
    split; [exact V|]. split; [exact L|]. split; [reflexivity|].
    right. split; [reflexivity|]. split; [reflexivity|].
    destruct C as [C|[C1 [_ C2]]]; [left; exact C | right; split; assumption].
Qed.

Lemma ph_failed_move_restarts : forall rounds is_vc pn o,
  ph_due rounds is_vc pn = true -> ph_has_move (pn_phase pn) = true -> o_restart_ok o = true ->
  (o_move o = FErr \/ (o_move o = FOk /\ ph_has_func (pn_phase pn) = true /\ o_func o = FErr)) ->
  ph_set_phase_node rounds is_vc pn o = (ph_restart pn, PSaved, KRestart).
Proof.
  intros rounds is_vc pn o D M R C. unfold ph_set_phase_node. rewrite D, M. cbn [negb].
  destruct C as [C|[C1 [C2 C3]]].
  - rewrite C, R. reflexivity.
  - rewrite C1, C2, C3, R. reflexivity.
Qed.

Lemma ph_success_advances : forall rounds is_vc pn o,
  ph_due rounds is_vc pn = true -> ph_has_move (pn_phase pn) = true -> o_move o = FOk ->
  (ph_has_func (pn_phase pn) = true -> o_func o = FOk) ->
  ph_set_phase_node rounds is_vc pn o = (ph_advance pn, PSaved, KAdvance).
Proof.
  intros rounds is_vc pn o D M O F. unfold ph_set_phase_node. rewrite D, M, O. cbn [negb].
  destruct (ph_has_func (pn_phase pn)); [rewrite (F eq_refl)|]; reflexivity.
Qed.

(* ---------- one block ---------- *)

Lemma vc_block_phase_change : forall rounds is_vc s b s' rs out pn pn',
  vc_block_step rounds is_vc s b = (s', rs, out) ->
  vs_pn s = Some pn -> vs_pn s' = Some pn' -> pn_phase pn' <> pn_phase pn ->
  is_vc = true /\ rounds (pn_phase pn) <= b_round b - pn_start pn /\ pn_start pn' = b_round b /\
  (pn_phase pn' = ph_next (pn_phase pn) \/ (pn_phase pn' = ph_Start /\ pn_restarts pn' = pn_restarts pn + 1)).
Proof.
  intros rounds is_vc s b s' rs out pn pn' H S S' N. unfold vc_block_step in H. rewrite S in H.
  destruct (dk_exec_all _ _ _) as [d1 rs1].
  destruct (ph_set_phase_node _ _ _ _) as [[pn1 o1] k1] eqn:P.
  destruct o1; inversion H; subst; cbn [vs_pn] in S'.
  - inversion S'; subst pn1.
    destruct (ph_advances_only_on_schedule _ _ _ _ _ _ _ P N) as [V [L [St C]]].
    cbn [ph_load pn_phase pn_start pn_current] in *.
    split; [exact V|]. split; [exact L|]. split; [exact St|].
    destruct C as [[C _]|[C1 [C2 _]]]; [left; exact C | right; split; assumption].
  - inversion S'; subst. contradiction.
  - inversion S'; subst. contradiction.
Qed.

(* ---------- DKG transactions ---------- *)

Lemma dk_exec_not_accepted_unchanged : forall phase d t d' r,
  dk_exec phase d t = (d', r) -> r <> DAccept -> d' = d.
Proof.
  intros phase d t d' r H N. destruct t; cbn [dk_exec] in H.
  - unfold dk_contribute in H.
    repeat match type of H with (if ?c then _ else _) = _ => destruct c end; inversion H; subst; try reflexivity; contradiction.
  - unfold dk_share in H.
    repeat match type of H with (if ?c then _ else _) = _ => destruct c end; try (inversion H; subst; reflexivity).
    destruct (so_validate id_known es); inversion H; subst; try reflexivity; contradiction.
  - unfold dk_wait in H.
    repeat match type of H with (if ?c then _ else _) = _ => destruct c end; inversion H; subst; try reflexivity; contradiction.
Qed.

Lemma dk_contribute_accept : forall phase d s c dec n d',
  dk_contribute phase d s c dec n = (d', DAccept) ->
  phase = ph_Contribute /\ dk_mem s (dk_miners d) = true /\ dec = true /\ n = dk_T d /\
  dk_mem s (dk_mpks d) = false /\ dk_mpks d' = s :: dk_mpks d /\ dk_miners d' = dk_miners d /\ dk_T d' = dk_T d.
Proof.
  intros phase d s c dec n d' H. unfold dk_contribute in H.
  destruct (Z.eqb_spec phase ph_Contribute) as [E|]; [|discriminate]. cbn [negb] in H.
  destruct (dk_mem s (dk_miners d)); [|discriminate]. cbn [negb] in H.
  destruct dec; [|discriminate]. cbn [negb] in H.
  destruct (Z.eqb_spec n (dk_T d)) as [E2|]; [|discriminate]. cbn [negb] in H.
  destruct (dk_mem s (dk_mpks d)) eqn:M; [discriminate|].
  inversion H; subst. cbn. repeat split; reflexivity.
Qed.

Lemma dk_mem_cons : forall x l, dk_mem x (x :: l) = true.
Proof. intros. unfold dk_mem. cbn. rewrite Z.eqb_refl. reflexivity. Qed.

(* a miner that has an MPK cannot get a second one while the list is kept, whatever id the input names *)
Lemma dk_contribute_once : forall phase d s c dec n,
  dk_mem s (dk_mpks d) = true -> snd (dk_contribute phase d s c dec n) = DReject.
Proof.
  intros. unfold dk_contribute.
  repeat match goal with |- context [if ?c then _ else _] => destruct c end; try reflexivity; discriminate.
Qed.

(* the id named by the input has no influence at all *)
Lemma dk_contribute_ignores_claim : forall phase d s c c' dec n,
  dk_contribute phase d s c dec n = dk_contribute phase d s c' dec n.
Proof. reflexivity. Qed.

Definition so_entry_ok (e : so_entry) : Prop :=
  match e with SoNil => False | SoSign ok => ok = true | SoShare h v => h = true /\ v = true end.

Lemma so_validate_accept : forall idk es, so_validate idk es = DAccept -> Forall so_entry_ok es.
Proof.
  induction es as [|e tl IH]; intro H; [constructor|].
  destruct e as [|ok|h v]; cbn [so_validate] in H.
  - discriminate.
  - destruct ok; [|discriminate]. constructor; [reflexivity | auto].
  - destruct h; cbn [negb] in H; [|discriminate]. destruct idk; cbn [negb] in H; [|discriminate].
    destruct v; [|discriminate]. constructor; [split; reflexivity | auto].
Qed.

Lemma so_validate_no_panic : forall idk es, so_validate idk es <> DPanic.
Proof.
  induction es as [|e tl IH]; [discriminate|].
  destruct e as [|ok|h v]; cbn [so_validate]; try discriminate.
  - destruct ok; [auto|discriminate].
  - destruct h; cbn [negb]; [|discriminate]. destruct idk; cbn [negb]; [|discriminate]. destruct v; [auto|discriminate].
Qed.

Lemma dk_share_accept : forall phase d s dec idk es d',
  dk_share phase d s dec idk es = (d', DAccept) ->
  phase = ph_Publish /\ dk_mem s (dk_gsos d) = false /\ dk_mem s (dk_miners d) = true /\ dec = true /\
  dk_K d - 1 <= Z.of_nat (List.length es) /\ Forall so_entry_ok es /\ ~ In SoNil es /\ dk_gsos d' = s :: dk_gsos d.
Proof.
  intros phase d s dec idk es d' H. unfold dk_share in H.
  destruct (Z.eqb_spec phase ph_Publish) as [E|]; [|discriminate]. cbn [negb] in H.
  destruct (dk_mem s (dk_gsos d)) eqn:M; [discriminate|].
  destruct (dk_mem s (dk_miners d)) eqn:Mm; [|discriminate]. cbn [negb] in H.
  destruct dec; [|discriminate]. cbn [negb] in H.
  destruct (Z.ltb_spec (Z.of_nat (List.length es)) (dk_K d - 1)) as [|L]; [discriminate|].
  destruct (dk_mpks_node d); [|discriminate]. cbn [negb] in H.
  destruct (so_validate idk es) eqn:V; inversion H; subst.
  pose proof (so_validate_accept _ _ V) as F.
  repeat split; auto.
  intro I. rewrite Forall_forall in F. exact (F SoNil I).
Qed.

Lemma dk_share_once : forall phase d s dec idk es,
  dk_mem s (dk_gsos d) = true -> snd (dk_share phase d s dec idk es) = DReject.
Proof.
  intros. unfold dk_share. destruct (negb (Z.eqb phase ph_Publish)); [reflexivity|]. rewrite H. reflexivity.
Qed.

Lemma dk_exec_never_panics : forall phase d t, snd (dk_exec phase d t) <> DPanic.
Proof.
  intros phase d t. destruct t; cbn [dk_exec].
  - unfold dk_contribute. repeat match goal with |- context [if ?c then _ else _] => destruct c end; cbn; discriminate.
  - unfold dk_share. repeat match goal with |- context [if ?c then _ else _] => destruct c end; try (cbn; discriminate).
    pose proof (so_validate_no_panic id_known es). destruct (so_validate id_known es); cbn; try discriminate. congruence.
  - unfold dk_wait. repeat match goal with |- context [if ?c then _ else _] => destruct c end; cbn; discriminate.
Qed.

Lemma dk_wait_accept : forall phase d s d',
  dk_wait phase d s = (d', DAccept) -> phase = ph_Wait /\ dk_mem s (dk_waited d) = false /\ dk_waited d' = s :: dk_waited d.
Proof.
  intros phase d s d' H. unfold dk_wait in H.
  destruct (Z.eqb_spec phase ph_Wait) as [E|]; [|discriminate]. cbn [negb] in H.
  destruct (dk_mem s (dk_waited d)) eqn:M; [discriminate|]. inversion H; subst. repeat split; reflexivity.
Qed.

Lemma dk_wait_once : forall phase d s, dk_mem s (dk_waited d) = true -> snd (dk_wait phase d s) = DReject.
Proof. intros. unfold dk_wait. destruct (negb _); [reflexivity|]. rewrite H. reflexivity. Qed.

(* a restart empties every DKG list *)
Lemma dk_restart_clears : forall phase fresh d, dk_after_step phase KRestart fresh d = dk_cleared.
Proof. reflexivity. Qed.

(* ---------- member selection ---------- *)

Lemma rd_select_keeps_prev : forall is_prev ceilx prev others,
  1 <= ceilx -> prev <> [] -> (forall p, In p prev -> is_prev p = true) ->
  exists l, rd_select ceilx prev others = Some l /\ rd_has_prev is_prev l = true.
Proof.
  intros is_prev ceilx prev others C N P. unfold rd_select.
  destruct prev as [|p tl]; [contradiction|].
  set (x := Z.min (Z.of_nat (List.length (p :: tl))) ceilx).
  assert (X : 1 <= x). { unfold x. cbn [List.length]. lia. }
  destruct (Z.ltb_spec x 0); [lia|].
  eexists. split; [reflexivity|].
  unfold rd_has_prev. apply existsb_exists. exists p. split.
  - apply in_or_app. left. destruct (Z.to_nat x) eqn:E; [lia|]. cbn. left. reflexivity.
  - apply P. left. reflexivity.
Qed.

Lemma rd_filter_nil : forall (f : Z -> bool) l, existsb f l = false -> filter f l = [].
Proof.
  induction l as [|a tl IH]; intro H; [reflexivity|]. cbn in *. apply orb_false_elim in H as [H1 H2].
  rewrite H1. auto.
Qed.

(* a validated x_percent = p/q in (0; 1] asks for at least one previous member *)
Lemma rd_ceil_pos : forall p q n, 0 < p <= q -> 1 <= n -> 1 <= rd_ceil p q n.
Proof.
  intros p q n [Hp Hq] Hn. unfold rd_ceil.
  assert (Q : 0 < q) by lia.
  apply Z.div_le_lower_bound; [exact Q|]. nia.
Qed.

Lemma rd_magic_block_keeps_prev : forall is_prev p q n prev others,
  0 < p <= q -> 1 <= n -> prev <> [] -> (forall x, In x prev -> is_prev x = true) ->
  exists l, rd_select (rd_ceil p q n) prev others = Some l /\ rd_has_prev is_prev l = true.
Proof.
  intros is_prev p q n prev others X N P A. apply rd_select_keeps_prev; [apply rd_ceil_pos; assumption|assumption|assumption].
Qed.

(* reduceShardersList: with a previous sharder among the candidates the result always has one and never panics,
   whatever non-negative number the reduce asks for *)
Lemma rd_sharders_ok : forall is_prev ceilx prev others,
  0 <= ceilx -> prev <> [] -> (forall p, In p prev -> is_prev p = true) ->
  exists l, rd_sharders is_prev ceilx prev others = Some l /\ rd_has_prev is_prev l = true.
Proof.
  intros is_prev ceilx prev others C N P. unfold rd_sharders, rd_select.
  set (x := Z.min (Z.of_nat (List.length prev)) ceilx).
  destruct (Z.ltb_spec x 0) as [L|_]; [unfold x in L; lia|].
  destruct (rd_has_prev is_prev (firstn (Z.to_nat x) prev ++ others)) eqn:H.
  - eexists. split; [reflexivity|exact H].
  - destruct prev as [|p tl]; [contradiction|]. eexists. split; [reflexivity|].
    unfold rd_has_prev. apply existsb_exists. exists p. split; [apply in_or_app; right; left; reflexivity|].
    apply P. left. reflexivity.
Qed.

Lemma rd_sharders_has_prev : forall is_prev ceilx prev others l,
  (forall p, In p prev -> is_prev p = true) ->
  rd_sharders is_prev ceilx prev others = Some l -> rd_has_prev is_prev l = true.
Proof.
  intros is_prev ceilx prev others l P H. unfold rd_sharders in H.
  destruct (rd_select ceilx prev others) as [l0|]; [|discriminate].
  destruct (rd_has_prev is_prev l0) eqn:E.
  - inversion H; subst. exact E.
  - destruct prev as [|p tl]; [discriminate|]. inversion H; subst.
    unfold rd_has_prev. apply existsb_exists. exists p. split; [apply in_or_app; right; left; reflexivity|].
    apply P. left. reflexivity.
Qed.

(* ---------- examples ---------- *)

Definition pw_dk : dk_state :=
  {| dk_miners := [1; 2; 3; 4]; dk_T := 3; dk_K := 3; dk_mpks_node := true; dk_mpks := [1; 2; 3; 4]; dk_gsos := []; dk_waited := [] |}.

(* a client outside the DKG set (id 99) is refused; so are null entries and shares of a sender without MPK *)
Lemma pw_stranger_share_refused :
  snd (dk_share ph_Publish pw_dk 99 true false [SoSign true; SoSign true]) = DReject /\
  snd (dk_share ph_Publish pw_dk 1 true true [SoNil; SoNil]) = DReject /\
  snd (dk_share ph_Publish pw_dk 1 true false [SoShare true true; SoSign true]) = DReject /\
  snd (dk_share ph_Publish pw_dk 1 true true [SoShare true true; SoSign true]) = DAccept.
Proof. vm_compute. repeat split. Qed.

(* DKG member 1 names member 2 in its input: the key is recorded for member 1, member 2 can still contribute *)
Definition pw_dk0 : dk_state :=
  {| dk_miners := [1; 2; 3; 4]; dk_T := 3; dk_K := 3; dk_mpks_node := false; dk_mpks := []; dk_gsos := []; dk_waited := [] |}.
Lemma pw_contribute_for_other :
  dk_mpks (fst (dk_contribute ph_Contribute pw_dk0 1 2 true 3)) = [1] /\
  snd (dk_contribute ph_Contribute (fst (dk_contribute ph_Contribute pw_dk0 1 2 true 3)) 2 2 true 3) = DAccept /\
  snd (dk_contribute ph_Contribute (fst (dk_contribute ph_Contribute pw_dk0 1 2 true 3)) 1 3 true 3) = DReject.
Proof. vm_compute. repeat split. Qed.

Definition pw_is_prev (x : Z) : bool := Z.eqb x 1.

(* x_percent = 7/10 over 2 slots asks for 2 previous members; one candidate is previous: it is kept *)
Lemma pw_selection_example :
  rd_ceil 7 10 2 = 2 /\ rd_select (rd_ceil 7 10 2) [1] [2; 3] = Some [1; 2; 3] /\
  rd_sharders pw_is_prev 0 [1] [2; 3] = Some [2; 3; 1].
Proof. vm_compute. repeat split. Qed.

(* a full cycle and a restart, over the generated tables, with 2 rounds per phase *)
Definition pw_rounds (p : Z) : Z := 2.
Definition pw_ok : ph_oracle := {| o_move := FOk; o_func := FOk; o_restart_ok := true |}.
Definition pw_bad : ph_oracle := {| o_move := FErr; o_func := FOk; o_restart_ok := true |}.
Definition pw_fresh : dk_fresh := {| fr_miners := [1; 2; 3]; fr_T := 2; fr_K := 3 |}.
Definition pw_blk (r : Z) (ts : list dk_txn) (o : ph_oracle) : vc_block :=
  {| b_round := r; b_txns := ts; b_oracle := o; b_fresh := pw_fresh; b_at_vc := false |}.

Fixpoint pw_run (s : vc_state) (bs : list vc_block) : vc_state * list (list dk_res * ph_out) :=
  match bs with
  | [] => (s, [])
  | b :: tl => let '(s1, rs, out) := vc_block_step pw_rounds true s b in
               let '(s2, l) := pw_run s1 tl in (s2, (rs, out) :: l)
  end.

Definition pw_history : list vc_block :=
  [ pw_blk 1 [] pw_ok; pw_blk 2 [TxContribute 1 1 true 2] pw_ok; pw_blk 3 [] pw_ok;            (* Start -> Contribute at 3 *)
    pw_blk 4 [TxContribute 1 1 true 2; TxContribute 1 1 true 2; TxContribute 9 9 true 2; TxContribute 2 2 true 5; TxWait 1] pw_ok;
    pw_blk 5 [TxContribute 2 2 true 2] pw_ok;                                                    (* -> Share at 5 *)
    pw_blk 6 [] pw_ok; pw_blk 7 [] pw_ok;                                                         (* -> Publish at 7 *)
    pw_blk 8 [TxShare 1 true true [SoSign true; SoShare true true]; TxShare 1 true true [SoSign true; SoSign true]; TxShare 2 true true [SoSign false; SoSign true]; TxShare 9 true false [SoSign true; SoSign true]] pw_ok;
    pw_blk 9 [] pw_bad ].                                                                         (* moveToWait fails: restart *)

Lemma pw_history_result :
  let '(s, l) := pw_run {| vs_pn := None; vs_dk := dk_cleared |} pw_history in
  map snd l = [PSaved; PSaved; PSaved; PSaved; PSaved; PSaved; PSaved; PSaved; PSaved] /\
  map fst l = [[]; [DReject]; []; [DAccept; DReject; DReject; DReject; DReject]; [DAccept]; []; []; [DAccept; DReject; DReject; DReject]; []] /\
  vs_pn s = Some {| pn_phase := 0; pn_start := 9; pn_current := 9; pn_restarts := 1 |} /\ vs_dk s = dk_cleared.
Proof. vm_compute. repeat split. Qed.
