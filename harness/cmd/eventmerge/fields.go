// Field-wise exercise of every additive merger (withEventMerge with an adding function) of the generated table
// coq/Gen/EventMergers.json: blocks with several events per index whose fields are zero / empty in all
// combinations go through the real mergeEvents; per index, per field and per key of a map field the merged data
// must carry the sum of the events. The payloads are built by reflection from the field list.
package main

import (
	"encoding/json"
	"fmt"
	"os"
	"path/filepath"
	"reflect"
	"sort"
	"strings"

	"0chain.net/smartcontract/dbs"
	"0chain.net/smartcontract/dbs/event"
	"0chain.net/smartcontract/stakepool/spenum"
	"verifharness/vh"
)

type genField struct {
	Name string `json:"name"`
	Kind string `json:"kind"` // scalar | map
}

type genMerger struct {
	Tag      string     `json:"tag"`
	Kind     string     `json:"kind"`
	Type     string     `json:"type"`
	Additive bool       `json:"additive"`
	Fields   []genField `json:"fields"`
	Why      string     `json:"why"`
}

// what the engine knows about a payload: the tag value, the Go type, the identity field, and the fields the
// handler of the tag adds to stored totals (mirror of em_additive_spec in Model/EventMerge.v)
type payload struct {
	tag     event.EventTag
	typ     reflect.Type
	idField string
	spec    []genField
	pointer bool                             // the contracts emit a pointer
	index   func(id string) string           // event index for a datum with this identity
	init    func(v reflect.Value, id string) // other identity-like fields
}

func sc1(names ...string) []genField {
	var out []genField
	for _, n := range names {
		out = append(out, genField{n, "scalar"})
	}
	return out
}

var rewardSpec = []genField{{"Reward", "scalar"}, {"DelegateRewards", "map"}, {"DelegatePenalties", "map"}}

var payloads = map[string]payload{
	"TagAddChallengeToAllocation": {tag: event.TagAddChallengeToAllocation, typ: reflect.TypeOf(event.Allocation{}), idField: "AllocationID", spec: sc1("OpenChallenges", "TotalChallenges")},
	"TagUpdateBlobberChallenge":   {tag: event.TagUpdateBlobberChallenge, typ: reflect.TypeOf(event.ChallengeStatsDeltas{}), idField: "Id", spec: sc1("CompletedDelta", "PassedDelta", "OpenDelta")},
	"TagStakePoolReward": {tag: event.TagStakePoolReward, typ: reflect.TypeOf(dbs.StakePoolReward{}), idField: "ID", spec: rewardSpec, pointer: true,
		index: func(id string) string { return spenum.BlockRewardBlobber.String() + id },
		init: func(v reflect.Value, id string) {
			v.FieldByName("Type").Set(reflect.ValueOf(spenum.Blobber))
			v.FieldByName("RewardType").Set(reflect.ValueOf(spenum.BlockRewardBlobber))
			v.FieldByName("DelegateWallet").SetString("dw-" + id)
		}},
	"TagUpdateBlobberStat":          {tag: event.TagUpdateBlobberStat, typ: reflect.TypeOf(event.Blobber{}), idField: "ID", spec: sc1("SavedData", "ReadData")},
	"TagUpdateUserCollectedRewards": {tag: event.TagUpdateUserCollectedRewards, typ: reflect.TypeOf(event.UserAggregate{}), idField: "UserID", spec: sc1("CollectedReward")},
	"TagLockStakePool":              {tag: event.TagLockStakePool, typ: reflect.TypeOf(event.DelegatePoolLock{}), idField: "Client", spec: sc1("Amount")},
	"TagUnlockStakePool":            {tag: event.TagUnlockStakePool, typ: reflect.TypeOf(event.DelegatePoolLock{}), idField: "Client", spec: sc1("Amount")},
	"TagLockReadPool":               {tag: event.TagLockReadPool, typ: reflect.TypeOf(event.ReadPoolLock{}), idField: "Client", spec: sc1("Amount")},
	"TagUnlockReadPool":             {tag: event.TagUnlockReadPool, typ: reflect.TypeOf(event.ReadPoolLock{}), idField: "Client", spec: sc1("Amount")},
	"TagLockWritePool":              {tag: event.TagLockWritePool, typ: reflect.TypeOf(event.WritePoolLock{}), idField: "Client", spec: sc1("Amount")},
	"TagUnlockWritePool":            {tag: event.TagUnlockWritePool, typ: reflect.TypeOf(event.WritePoolLock{}), idField: "Client", spec: sc1("Amount")},
	"TagUpdateUserPayedFees":        {tag: event.TagUpdateUserPayedFees, typ: reflect.TypeOf(event.UserAggregate{}), idField: "UserID", spec: sc1("PayedFees")},
	// not merged by addition in the table (overwrite middleware), but the handler adds the penalties to the
	// delegate pools: exercised with the same oracle
	"TagStakePoolPenalty": {tag: event.TagStakePoolPenalty, typ: reflect.TypeOf(dbs.StakePoolReward{}), idField: "ID", spec: rewardSpec, pointer: true,
		index: func(id string) string { return spenum.ChallengeSlashPenalty.String() + id },
		init: func(v reflect.Value, id string) {
			v.FieldByName("Type").Set(reflect.ValueOf(spenum.Blobber))
			v.FieldByName("RewardType").Set(reflect.ValueOf(spenum.ChallengeSlashPenalty))
		}},
}

// withEventMerge mergers that replace by key (mirror of em_keyed_replace_tags)
var keyedReplace = map[string]bool{"TagUpdateAllocationBlobberTerm": true, "TagAddOrOverwriteAllocationBlobberTerm": true, "TagDeleteAllocationBlobberTerm": true}

func loadMergers() []genMerger {
	root := os.Getenv("VERIF_ROOT")
	if root == "" {
		root = "/verif"
	}
	b, err := os.ReadFile(filepath.Join(root, "coq", "Gen", "EventMergers.json"))
	must(err)
	var ms []genMerger
	must(json.Unmarshal(b, &ms))
	return ms
}

// one event of a field block: identity token, and per field the entries (scalar: one entry with key 0)
type fev struct {
	Index  int       `json:"index"`
	Fields [][]entry `json:"fields"`
}

type entry struct {
	Key int   `json:"k"`
	Val int64 `json:"v"`
}

type fblock struct {
	Tag    string     `json:"tag"`
	Fields []genField `json:"fields"`
	Round  int64      `json:"round"`
	Events []fev      `json:"events"`
}

func setNum(f reflect.Value, x int64) {
	switch f.Kind() {
	case reflect.Int, reflect.Int64, reflect.Int32:
		f.SetInt(x)
	case reflect.Uint64, reflect.Uint32, reflect.Uint:
		f.SetUint(uint64(x))
	default:
		panic("field kind " + f.Kind().String())
	}
}

func getNum(f reflect.Value) int64 {
	switch f.Kind() {
	case reflect.Int, reflect.Int64, reflect.Int32:
		return f.Int()
	case reflect.Uint64, reflect.Uint32, reflect.Uint:
		return int64(f.Uint())
	}
	panic("field kind " + f.Kind().String())
}

func realFieldEvents(b fblock) []event.Event {
	p := payloads[b.Tag]
	var out []event.Event
	for _, e := range b.Events {
		v := reflect.New(p.typ).Elem()
		v.FieldByName(p.idField).SetString(id(e.Index))
		if p.init != nil {
			p.init(v, id(e.Index))
		}
		// the contracts build stake pool rewards with both maps made (stakepool.NewStakePoolReward)
		for i := 0; i < v.NumField(); i++ {
			if v.Field(i).Kind() == reflect.Map && v.Field(i).IsNil() {
				v.Field(i).Set(reflect.MakeMap(v.Field(i).Type()))
			}
		}
		for fi, f := range b.Fields {
			fv := v.FieldByName(f.Name)
			if f.Kind == "scalar" {
				for _, en := range e.Fields[fi] {
					setNum(fv, en.Val)
				}
				continue
			}
			for _, en := range e.Fields[fi] {
				x := reflect.New(fv.Type().Elem()).Elem()
				setNum(x, en.Val)
				fv.SetMapIndex(reflect.ValueOf(id(en.Key)), x)
			}
		}
		idx := id(e.Index)
		if p.index != nil {
			idx = p.index(id(e.Index))
		}
		ev := event.Event{Type: event.TypeStats, Tag: p.tag, Index: idx, BlockNumber: b.Round}
		if p.pointer {
			pv := reflect.New(p.typ)
			pv.Elem().Set(v)
			ev.Data = pv.Interface()
		} else {
			ev.Data = v.Interface()
		}
		out = append(out, ev)
	}
	return out
}

type fout struct {
	err    string
	merged []fev // one per datum of the merged event, sorted by identity; map entries sorted by key
}

func runFields(b fblock) (o fout) {
	defer func() {
		if r := recover(); r != nil {
			o.err = fmt.Sprint("panic: ", r)
		}
	}()
	p := payloads[b.Tag]
	blk := fmt.Sprintf("block-%d", b.Round)
	out, err := event.VerifGovMergeEvents(b.Round, blk, realFieldEvents(b))
	if err != nil {
		o.err = err.Error()
		return
	}
	n := 0
	for _, e := range out {
		if e.Tag != p.tag || e.Index != blk {
			o.err = fmt.Sprintf("unexpected event tag %d index %s after the merge", e.Tag, e.Index)
			return
		}
		n++
		ds := reflect.ValueOf(e.Data)
		if ds.Kind() != reflect.Slice {
			o.err = fmt.Sprintf("merged data is %T", e.Data)
			return
		}
		for i := 0; i < ds.Len(); i++ {
			d := ds.Index(i)
			for d.Kind() == reflect.Ptr {
				d = d.Elem()
			}
			m := fev{Index: tokOf(d.FieldByName(p.idField).String())}
			for _, f := range b.Fields {
				fv := d.FieldByName(f.Name)
				var es []entry
				if f.Kind == "scalar" {
					es = []entry{{0, getNum(fv)}}
				} else {
					for _, k := range fv.MapKeys() {
						es = append(es, entry{tokOf(k.String()), getNum(fv.MapIndex(k))})
					}
					sort.Slice(es, func(i, j int) bool { return es[i].Key < es[j].Key })
				}
				m.Fields = append(m.Fields, es)
			}
			o.merged = append(o.merged, m)
		}
	}
	if n != 1 {
		o.err = fmt.Sprintf("%d merged events for one tag", n)
	}
	sort.SliceStable(o.merged, func(i, j int) bool { return o.merged[i].Index < o.merged[j].Index })
	return
}

func sums(es []fev, nf int) map[string]int64 {
	s := map[string]int64{}
	for _, e := range es {
		for fi := 0; fi < nf && fi < len(e.Fields); fi++ {
			for _, en := range e.Fields[fi] {
				s[fmt.Sprintf("%d/%d/%d", e.Index, fi, en.Key)] += en.Val
			}
		}
	}
	return s
}

func judgeFields(b fblock, o fout) []viol {
	var vs []viol
	add := func(sig, f string, a ...interface{}) {
		vs = append(vs, viol{"C20:" + sig, fmt.Sprintf("%s round %d: ", b.Tag, b.Round) + fmt.Sprintf(f, a...)})
	}
	if o.err != "" {
		add("merge-error", "%s", o.err)
		return vs
	}
	want, got := sums(b.Events, len(b.Fields)), sums(o.merged, len(b.Fields))
	keys := map[string]bool{}
	for k := range want {
		keys[k] = true
	}
	for k := range got {
		keys[k] = true
	}
	var ks []string
	for k := range keys {
		ks = append(ks, k)
	}
	sort.Strings(ks)
	for _, k := range ks {
		if want[k] == got[k] {
			continue
		}
		var idx, fi, key int
		fmt.Sscanf(k, "%d/%d/%d", &idx, &fi, &key)
		what := b.Fields[fi].Name
		if b.Fields[fi].Kind == "map" {
			what += fmt.Sprintf("[%s]", id(key))
		}
		if b.Tag == "TagStakePoolPenalty" {
			add("stake-pool-penalty-overwritten-in-merge", "%s: the events of the block give %s = %d in total, the merged event says %d: penalties of one provider in one block overwrite each other (withUniqueEventOverwrite), the handler adds what is left to the delegate pools",
				id(idx), what, want[k], got[k])
		} else {
			add("additive-field-sum-changed:"+b.Tag+"."+b.Fields[fi].Name, "%s: the events of the block give %s = %d in total, the merged event says %d", id(idx), what, want[k], got[k])
		}
		break
	}
	ids := map[int]bool{}
	for _, e := range b.Events {
		ids[e.Index] = true
	}
	if len(vs) == 0 && len(o.merged) != len(ids) {
		add("additive-merge-wrong-count", "%d identities in the block, %d data in the merged event", len(ids), len(o.merged))
	}
	return vs
}

// ---------- generation ----------

func genEntries(r *vh.Rand, f genField, zero bool) []entry {
	amt := func() int64 {
		if r.Chance(1, 12) {
			return []int64{0, 1, 1 << 40}[r.Intn(3)]
		}
		return int64(r.Range(1, 1000))
	}
	if f.Kind == "scalar" {
		if zero {
			return []entry{{0, 0}}
		}
		return []entry{{0, amt()}}
	}
	if zero {
		return nil
	}
	var es []entry
	for _, k := range r.Perm(4)[:r.Range(1, 3)] {
		es = append(es, entry{21 + k, amt()})
	}
	sort.Slice(es, func(i, j int) bool { return es[i].Key < es[j].Key })
	return es
}

// directed: two (or three) events of one identity; the mask says which fields of the odd event are zero / empty
func directedFields(r *vh.Rand, tag string, fs []genField, mask int, oddFirst bool, round int64) fblock {
	b := fblock{Tag: tag, Fields: fs, Round: round}
	full := fev{Index: 1}
	odd := fev{Index: 1}
	for i, f := range fs {
		full.Fields = append(full.Fields, genEntries(r, f, false))
		odd.Fields = append(odd.Fields, genEntries(r, f, mask&(1<<i) != 0))
	}
	other := fev{Index: 2}
	for _, f := range fs {
		other.Fields = append(other.Fields, genEntries(r, f, false))
	}
	if oddFirst {
		b.Events = []fev{odd, other, full}
	} else {
		b.Events = []fev{full, other, odd}
	}
	return b
}

func genFields(r *vh.Rand, tag string, fs []genField, round int64) fblock {
	b := fblock{Tag: tag, Fields: fs, Round: round}
	n := r.Range(2, 7)
	spread := r.Range(1, 3)
	for i := 0; i < n; i++ {
		e := fev{Index: 1 + r.Intn(spread)}
		for _, f := range fs {
			e.Fields = append(e.Fields, genEntries(r, f, r.Bool()))
		}
		b.Events = append(b.Events, e)
	}
	return b
}

// busy block: d distinct identities (65-300) of one tag, each event small; identities first seen around the growth
// boundaries of a result slice (1st, 63rd-66th, 127th-130th distinct identity) appear again right after the 64th,
// 65th, 128th, 129th distinct identity and at the end of the block
func busyFields(r *vh.Rand, tag string, fs []genField, d int, round int64) fblock {
	b := fblock{Tag: tag, Fields: fs, Round: round}
	mk := func(idx int) fev {
		e := fev{Index: idx}
		for _, f := range fs {
			e.Fields = append(e.Fields, genEntries(r, f, f.Kind == "map" && r.Chance(2, 3)))
		}
		return e
	}
	early := []int{1, 2, 63, 64, 65, 66, 127, 128, 129, 130}
	for i := 1; i <= d; i++ {
		b.Events = append(b.Events, mk(i))
		switch i {
		case 64, 65, 66, 128, 129, 130, 256, 257:
			for _, e := range early {
				if e <= i && r.Chance(2, 3) {
					b.Events = append(b.Events, mk(e))
				}
			}
		}
		if r.Chance(1, 25) {
			b.Events = append(b.Events, mk(1+r.Intn(i)))
		}
	}
	for _, e := range early {
		if e <= d {
			b.Events = append(b.Events, mk(e))
		}
	}
	return b
}

// ---------- Coq case ----------

func coqFev(e fev) string {
	var fs []string
	for _, f := range e.Fields {
		var es []string
		for _, en := range f {
			es = append(es, vh.Pair(fmt.Sprint(en.Key), vh.Z(en.Val)))
		}
		fs = append(fs, vh.List(es))
	}
	return fmt.Sprintf("(fev %d %s)", e.Index, vh.List(fs))
}

func coqFieldCase(b fblock, o fout) string {
	var es, ms []string
	for _, e := range b.Events {
		es = append(es, coqFev(e))
	}
	for _, e := range o.merged {
		ms = append(ms, coqFev(e))
	}
	return fmt.Sprintf("(EcFields (Build_emf_case %s %s %s))", vh.Str(b.Tag), vh.List(es), vh.List(ms))
}

func sameFields(a, b []genField) bool {
	if len(a) != len(b) {
		return false
	}
	for i := range a {
		if a[i] != b[i] {
			return false
		}
	}
	return true
}

func fieldNames(fs []genField) string {
	var s []string
	for _, f := range fs {
		s = append(s, f.Name)
	}
	return strings.Join(s, ",")
}
