(* C33: All miners derive the same round random seed.
   Only statements; each is closed by [exact] of a lemma in Proof/VRF.v or Proof/VRFMsg.v.
   Setting as in C34 (field F, F-modules G1 G2 GT, generator g2, hash H, bilinear e); in addition
   e is non-degenerate in its first argument, css are the dealers' polynomials (at most t
   coefficients each), members the party ids of the magic block's miners (non-zero), m the
   round's message, seed_of the hash of the serialized group signature.  A share event is
   (timeout count matches, (sender id, signature)); [vrf_run] is the admission code
   (AddVRFShare), [vrf_seed] the seed computation (ThresholdNumBLSSigReceived). *)
From Coq Require Import ZArith String.
From mathcomp Require Import all_ssreflect ssralg poly zmodp.
From ZC Require Import Model.DKG Model.DKGZ Model.VRFAdmit Model.VRF Model.VRFMsg Model.VRFZ.
From ZC Require Import Proof.DKG Proof.DKGLink Proof.VRF Proof.VRFMsg Proof.VRFLink.
Set Implicit Arguments.
Unset Strict Implicit.
Unset Printing Implicit Defensive.
Import GRing.Theory.
Local Open Scope ring_scope.

(* Two miners that both obtain a seed, from any two streams of valid and invalid shares in any
   order, obtain the same seed: the hash of the group signature on the round's message. *)
Theorem C33_seed_agreement :
  forall (F : fieldType) (G1 G2 GT : lmodType F) (g2 : G2) (M : Type) (H : M -> G1)
         (e : G1 -> G2 -> GT) (Seed : Type) (seed_of : G1 -> Seed),
    (forall a x y, e (a *: x) y = a *: e x y) -> (forall a x y, e x (a *: y) = a *: e x y) ->
    (forall x y, e x g2 = e y g2 -> x = y) ->
  forall (css : seq (seq F)) (members : seq F) (m : M) (t : nat),
    (0 < t)%N -> 0 \notin members -> all (fun cs => size cs <= t)%N css ->
  forall (evs1 evs2 : seq (vrf_ev G1)) (s1 s2 : Seed),
    let mpks := [seq dkg_mpk g2 cs | cs <- css] in
    vrf_seed seed_of t (vrf_run g2 H e t mpks members m [::] evs1).1 = Some s1 ->
    vrf_seed seed_of t (vrf_run g2 H e t mpks members m [::] evs2).1 = Some s2 ->
    s1 = s2 /\ s1 = seed_of (dkg_sign H (dkg_gsk css) m).
Proof. exact vrf_seed_agreement. Qed.
Print Assumptions C33_seed_agreement.

(* The same over histories with round restarts (timeout: Round.Restart + IncrementTimeoutCount, the
   message changes with the timeout count): a restart empties the admitted set; after any history
   the admitted shares verify against the CURRENT message; two miners that end under the same
   message and both have a seed have the same seed, the hash of the group signature on it. *)
Theorem C33_seed_agreement_with_restarts :
  forall (F : fieldType) (G1 G2 GT : lmodType F) (g2 : G2) (M : Type) (H : M -> G1)
         (e : G1 -> G2 -> GT) (Seed : Type) (seed_of : G1 -> Seed),
    (forall a x y, e (a *: x) y = a *: e x y) -> (forall a x y, e x (a *: y) = a *: e x y) ->
    (forall x y, e x g2 = e y g2 -> x = y) ->
  forall (css : seq (seq F)) (members : seq F) (t : nat),
    (0 < t)%N -> 0 \notin members -> all (fun cs => size cs <= t)%N css ->
  forall (m1 m2 : M) (hs1 hs2 : seq (vrf_hev G1 M)) (sd1 sd2 : Seed),
    let mpks := [seq dkg_mpk g2 cs | cs <- css] in
    let s1 := vrf_hrun g2 H e t mpks members (m1, [::]) hs1 in
    let s2 := vrf_hrun g2 H e t mpks members (m2, [::]) hs2 in
    s1.1 = s2.1 ->
    vrf_seed seed_of t s1.2 = Some sd1 -> vrf_seed seed_of t s2.2 = Some sd2 ->
    sd1 = sd2 /\ sd1 = seed_of (dkg_sign H (dkg_gsk css) s1.1).
Proof. exact vrf_hist_seed_agreement. Qed.
Print Assumptions C33_seed_agreement_with_restarts.

Theorem C33_counted_shares_verify_current_message :
  forall (F : fieldType) (G1 G2 GT : lmodType F) (g2 : G2) (M : Type) (H : M -> G1)
         (e : G1 -> G2 -> GT) (css : seq (seq F)) (members : seq F) (t : nat)
         (s : M * seq (vrf_ev G1)) (hs : seq (vrf_hev G1 M)),
    let mpks := [seq dkg_mpk g2 cs | cs <- css] in
    vrf_inv g2 H e css members s.1 t s.2 ->
    let s' := vrf_hrun g2 H e t mpks members s hs in
    vrf_inv g2 H e css members s'.1 t s'.2.
Proof. exact vrf_hrun_inv. Qed.
Print Assumptions C33_counted_shares_verify_current_message.

Theorem C33_restart_empties :
  forall (F : fieldType) (G1 G2 GT : lmodType F) (g2 : G2) (M : Type) (H : M -> G1)
         (e : G1 -> G2 -> GT) (css : seq (seq F)) (members : seq F) (t : nat)
         (s : M * seq (vrf_ev G1)) (m' : M),
    vrf_hstep g2 H e t [seq dkg_mpk g2 cs | cs <- css] members s (VRestart G1 m') = (m', [::]).
Proof. exact vrf_restart_empties. Qed.
Print Assumptions C33_restart_empties.

(* The degree premise, explicitly: seed uniqueness needs every dealer polynomial of the DKG to
   have at most t coefficients (degree < t); with one polynomial of t+1 coefficients two t-subsets
   of verified shares interpolate different values.  The chain guarantees it at one place:
   minersc contributeMpk records a public polynomial only if it has exactly t coefficients
   ([va_mpk_accept], tied to the real contract by the correspondence check), so for the polynomials
   the contract accepted the premise of the theorems above holds and the seeds agree. *)
Theorem C33_accepted_mpk_has_t_coefficients :
  forall (A : Type) (t : nat) (member already : bool) (cs : seq A),
    va_mpk_accept t member already (size cs) -> size cs = t.
Proof. exact vrf_mpk_accept_size. Qed.
Print Assumptions C33_accepted_mpk_has_t_coefficients.

Theorem C33_seed_agreement_for_accepted_mpks :
  forall (F : fieldType) (G1 G2 GT : lmodType F) (g2 : G2) (M : Type) (H : M -> G1)
         (e : G1 -> G2 -> GT) (Seed : Type) (seed_of : G1 -> Seed),
    (forall a x y, e (a *: x) y = a *: e x y) -> (forall a x y, e x (a *: y) = a *: e x y) ->
    (forall x y, e x g2 = e y g2 -> x = y) ->
  forall (css : seq (seq F)) (members : seq F) (m : M) (t : nat),
    (0 < t)%N -> 0 \notin members ->
    all (fun cs => va_mpk_accept t true false (size cs)) css ->
  forall (evs1 evs2 : seq (vrf_ev G1)) (s1 s2 : Seed),
    let mpks := [seq dkg_mpk g2 cs | cs <- css] in
    vrf_seed seed_of t (vrf_run g2 H e t mpks members m [::] evs1).1 = Some s1 ->
    vrf_seed seed_of t (vrf_run g2 H e t mpks members m [::] evs2).1 = Some s2 ->
    s1 = s2 /\ s1 = seed_of (dkg_sign H (dkg_gsk css) m).
Proof. exact vrf_seed_agreement_accepted. Qed.
Print Assumptions C33_seed_agreement_for_accepted_mpks.

(* The keys shares are verified against are a function of the FINAL set of public polynomials
   only: AggregatePublicKeyShares rebuilds the map, so a DKG object aggregated again after the
   set changed (view change retried) holds, for every id of the final set, the same key share as
   an object built freshly from the final set, namely the public key of dkg_sk css id. *)
Theorem C33_public_aggregation_depends_on_final_set_only :
  forall (F : fieldType) (G2 : lmodType F) (g2 : G2) (old1 old2 : seq (F * G2))
         (css : seq (seq F)) (ids : seq F) (i : F),
    let mpks := [seq dkg_mpk g2 cs | cs <- css] in
    dkg_agg_pub old1 mpks ids = dkg_agg_pub old2 mpks ids /\
    (i \in ids -> (i, dkg_pub g2 (dkg_sk css i)) \in dkg_agg_pub old1 mpks ids).
Proof. exact (fun F G2 g2 old1 old2 css ids i => conj (dkg_agg_pub_forgets old1 old2 _ ids) (@dkg_agg_pub_keys F G2 g2 old1 css ids i)). Qed.
Print Assumptions C33_public_aggregation_depends_on_final_set_only.

(* The same for any two sets of at least t verified shares of distinct miners. *)
Theorem C33_seed_of_any_verified_set :
  forall (F : fieldType) (G1 G2 GT : lmodType F) (g2 : G2) (M : Type) (H : M -> G1)
         (e : G1 -> G2 -> GT) (Seed : Type) (seed_of : G1 -> Seed),
    (forall a x y, e (a *: x) y = a *: e x y) -> (forall a x y, e x (a *: y) = a *: e x y) ->
    (forall x y, e x g2 = e y g2 -> x = y) ->
  forall (css : seq (seq F)) (members : seq F) (m : M) (t : nat),
    (0 < t)%N -> 0 \notin members -> all (fun cs => size cs <= t)%N css ->
  forall st : seq (vrf_ev G1),
    all (vrf_verify g2 H e [seq dkg_mpk g2 cs | cs <- css] members m) st ->
    uniq [seq (ev.2).1 | ev <- st] -> (t <= size st)%N ->
    vrf_seed seed_of t st = Some (seed_of (dkg_sign H (dkg_gsk css) m)).
Proof. exact vrf_seed_of_verified. Qed.
Print Assumptions C33_seed_of_any_verified_set.

(* Whatever arrives, the shares counted are verified ones, at most one per miner, at most t. *)
Theorem C33_invalid_never_counted :
  forall (F : fieldType) (G1 G2 GT : lmodType F) (g2 : G2) (M : Type) (H : M -> G1)
         (e : G1 -> G2 -> GT) (css : seq (seq F)) (members : seq F) (m : M) (t : nat)
         (evs : seq (vrf_ev G1)),
    let mpks := [seq dkg_mpk g2 cs | cs <- css] in
    let st := (vrf_run g2 H e t mpks members m [::] evs).1 in
    [/\ all (vrf_verify g2 H e mpks members m) st, uniq [seq (ev.2).1 | ev <- st] &
        (size st <= t)%N].
Proof. exact vrf_invalid_never_counted. Qed.
Print Assumptions C33_invalid_never_counted.

(* A stream with fewer than t verifying shares never produces a seed. *)
Theorem C33_below_t_no_seed :
  forall (F : fieldType) (G1 G2 GT : lmodType F) (g2 : G2) (M : Type) (H : M -> G1)
         (e : G1 -> G2 -> GT) (Seed : Type) (seed_of : G1 -> Seed)
         (css : seq (seq F)) (members : seq F) (m : M) (t : nat) (evs : seq (vrf_ev G1)),
    let mpks := [seq dkg_mpk g2 cs | cs <- css] in
    (count (fun ev => ev.1 && vrf_verify g2 H e mpks members m ev) evs < t)%N ->
    vrf_seed seed_of t (vrf_run g2 H e t mpks members m [::] evs).1 = None.
Proof. exact vrf_below_t_no_seed. Qed.
Print Assumptions C33_below_t_no_seed.

(* The executable instance compared with the Go code (Model/VRFZ.v + Model/VRFAdmit.v in
   Corr/VRF.v: party ids and discrete logarithms in Z mod p) is the image of the algebraic model
   in every field F of characteristic p (p = dz_r for the code; its primality is this premise),
   with G1 = G2 = GT = F, g2 = 1, H(m) = 1, e = multiplication: share verification, and the whole
   admission run (states and AddVRFShare results), for events that carry a discrete logarithm.
   So an agreement of the correspondence check is an agreement with vrf_verify / vrf_run, the
   objects of the theorems above.  members = (party id, aggregated key) of the miners, whose
   keys are the images of the algebraic keys dkg_sk css id (that is C34's correspondence). *)
Theorem C33_instance_verify_sound :
  forall (F : fieldType) (p : Z), (1 < p)%Z -> Z.to_nat p \in [char F] ->
  forall (M : Type) (m : M) (css : seq (seq F)) (members : seq (Z * Z)) (ev : vzc_ev),
    (forall q : Z * Z, List.In q members -> dzl_can p q.1 /\ dzl_can p q.2) ->
    (forall q : Z * Z, List.In q members -> dzl_phi F q.2 = dkg_sk css (dzl_phi F q.1)) ->
    vzl_good p ev ->
    let V := [lmodType F of F^o] in
    vz_verify members ev =
    vrf_verify (1 : V) (fun _ : M => (1 : V)) (fun x y : V => (x * y : V))
               [seq dkg_mpk (1 : V) cs | cs <- css] [seq dzl_phi F q.1 | q <- members] m
               (vzl_ev F ev).
Proof. exact vzl_verify_correct. Qed.
Print Assumptions C33_instance_verify_sound.

Theorem C33_instance_admission_sound :
  forall (F : fieldType) (p : Z), (1 < p)%Z -> Z.to_nat p \in [char F] ->
  forall (M : Type) (m : M) (css : seq (seq F)) (members : seq (Z * Z)) (t : nat)
         (evs : seq vzc_ev),
    (forall q : Z * Z, List.In q members -> dzl_can p q.1 /\ dzl_can p q.2) ->
    (forall q : Z * Z, List.In q members -> dzl_phi F q.2 = dkg_sk css (dzl_phi F q.1)) ->
    all (vzl_good p) evs ->
    let V := [lmodType F of F^o] in
    let zr := va_run vze_tc vz_same (vz_verify members) t [::] evs in
    vrf_run (1 : V) (fun _ : M => (1 : V)) (fun x y : V => (x * y : V)) t
            [seq dkg_mpk (1 : V) cs | cs <- css] [seq dzl_phi F q.1 | q <- members] m [::]
            [seq vzl_ev F i | i <- evs] =
    ([seq vzl_ev F i | i <- zr.1], zr.2).
Proof. exact vzl_run_correct. Qed.
Print Assumptions C33_instance_admission_sound.

(* Observation on the message format Sprintf("%v%v%v", round, timeout, hex(prev seed)): it is not
   an injective encoding of the triple (seed agreement above does not depend on it). *)
Definition C33_vrf_msg_injective_full_statement : Prop := vrfm_injective.

Theorem C33_vrf_msg_injective_refuted : ~ C33_vrf_msg_injective_full_statement.
Proof. exact vrfm_not_injective. Qed.
Print Assumptions C33_vrf_msg_injective_refuted.

Theorem C33_vrf_msg_injective_partial :
  forall r tc s s', vrfm_msg r tc s = vrfm_msg r tc s' -> s = s'.
Proof. exact vrfm_injective_in_seed. Qed.
Print Assumptions C33_vrf_msg_injective_partial.

(* Non-vacuity: the (2,3) instance of C34's example over the field of 7 elements; the premises
   hold and the two honest shares of miners 1 and 3 yield the seed of the group signature. *)
Example C33_example :
  let F := [fieldType of 'F_7] in
  let V := [lmodType F of F^o] in
  let H := (fun _ : unit => 1 : V) in
  let e := (fun x y : V => x * y : V) in
  let css : seq (seq F) := [:: [:: 3; 1]; [:: 2; 5]] in
  let members : seq F := [:: 1; 2; 3] in
  let st : seq (vrf_ev V) :=
    [:: (true, (1, dkg_sign H (dkg_sk css 1) tt)); (true, (3, dkg_sign H (dkg_sk css 3) tt))] in
  vrf_seed id 2 st = Some (dkg_sign H (dkg_gsk css) tt).
Proof.
move=> F V H e css members st.
have el : forall (a : F) (x y : V), e (a *: x) y = a *: e x y by move=> a x y; rewrite /e -mulrA.
have er : forall (a : F) (x y : V), e x (a *: y) = a *: e x y.
  by move=> a x y; rewrite /e /GRing.scale /= mulrCA.
have ei : forall x y : V, e x (1 : V) = e y (1 : V) -> x = y by move=> x y; rewrite /e !mulr1.
apply: (@C33_seed_of_any_verified_set F V V V (1 : V) unit H e V id el er ei css members tt 2) => //.
  have v i : i \in members ->
      vrf_verify (1 : V) H e [seq dkg_mpk (1 : V) cs | cs <- css] members tt
                 (true, (i, dkg_sign H (dkg_sk css i) tt)).
    by move=> mem; rewrite /vrf_verify mem; apply: dkg_agg_key_signs_and_verifies.
  by rewrite /st /all !v //; vm_compute.
Qed.
