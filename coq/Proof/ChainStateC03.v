(* C03: strict nonce order. *)
From ZC Require Import Model.ChainState Proof.ChainState.
Open Scope Z_scope.

Lemma cs_wrap_i64_small : forall z, - cs_two63 <= z < cs_two63 -> cs_wrap_i64 z = z.
Proof.
  intros z H. unfold cs_wrap_i64, cs_two63, cs_two64 in *.
  rewrite Z.mod_small by lia. lia.
Qed.

Lemma cs_update_state_applied_inv : forall cfg st round tx r st' s o e,
    cs_update_state cfg st round tx r = Applied st' s o e ->
    exists st0, cs_update_ideal cfg st round tx r = Applied st0 s o e /\
                st_accts st' = cs_commit (st_accts st) (st_accts st0) /\ st_nodes st' = st_nodes st0.
Proof.
  intros cfg st round tx r st' s o e H. unfold cs_update_state in H.
  destruct (cs_update_ideal cfg st round tx r) as [st0 s0 o0 e0| |]; try discriminate.
  inversion H; subst. exists st0. cbn. repeat split; reflexivity.
Qed.

(* applied only with the next nonce: every state, transaction, oracle result and id *)
Lemma cs_c03_applied_next_nonce : forall cfg st round tx r st' s o e,
    cs_update_state cfg st round tx r = Applied st' s o e ->
    tx_nonce tx = cs_wrap_i64 (cs_nonce (st_accts st) (tx_from tx) + 1).
Proof.
  intros cfg st round tx r st' s o e H. apply cs_update_state_applied_inv in H.
  destruct H as (st0 & H & _). apply cs_update_ideal_effect in H. cbv zeta in H. tauto.
Qed.

Lemma cs_c03_applied_next_nonce_exact : forall cfg st round tx r st' s o e,
    0 <= cs_nonce (st_accts st) (tx_from tx) < cs_two63 - 1 ->
    cs_update_state cfg st round tx r = Applied st' s o e ->
    tx_nonce tx = cs_nonce (st_accts st) (tx_from tx) + 1.
Proof.
  intros cfg st round tx r st' s o e R H. apply cs_c03_applied_next_nonce in H.
  rewrite H. apply cs_wrap_i64_small. unfold cs_two63 in *. lia.
Qed.

Lemma cs_c03_applied_bumps : forall cfg st round tx r st' s o e,
    cs_canon_accts (st_accts st) -> cs_canon_txn cfg tx r ->
    cs_update_state cfg st round tx r = Applied st' s o e ->
    cs_nonce (st_accts st') (tx_from tx) = cs_wrap_i64 (cs_nonce (st_accts st) (tx_from tx) + 1) /\
    (forall id, id <> tx_from tx -> cs_nonce (st_accts st') id = cs_nonce (st_accts st) id).
Proof.
  intros cfg st round tx r st' s o e Cs Ct H.
  rewrite cs_update_state_canon_eq in H by assumption.
  apply cs_update_ideal_effect in H. cbv zeta in H. tauto.
Qed.

Lemma cs_c03_rejected_keeps : forall cfg st round tx r,
    cs_is_applied (cs_update_state cfg st round tx r) = false ->
    cs_post st (cs_update_state cfg st round tx r) = st.
Proof. intros. destruct (cs_update_state cfg st round tx r); cbn in *; [discriminate|reflexivity|reflexivity]. Qed.

Lemma cs_c03_wrong_nonce_rejected : forall cfg st round tx r,
    tx_nonce tx <> cs_wrap_i64 (cs_nonce (st_accts st) (tx_from tx) + 1) ->
    cs_is_applied (cs_update_state cfg st round tx r) = false /\
    cs_post st (cs_update_state cfg st round tx r) = st.
Proof.
  intros cfg st round tx r NE.
  destruct (cs_update_state cfg st round tx r) as [st' s o e| |] eqn:E; cbn; auto.
  exfalso. apply NE. eapply cs_c03_applied_next_nonce; eauto.
Qed.

(* ---------- histories ---------- *)
Fixpoint cs_consecutive (n : Z) (l : list Z) : Prop :=
  match l with [] => True | x :: tl => x = n + 1 /\ cs_consecutive (n + 1) tl end.

Lemma cs_consecutive_gt : forall l n x, cs_consecutive n l -> In x l -> n < x.
Proof.
  induction l as [|y tl IH]; intros n x C I; [destruct I|].
  cbn in C. destruct C as [-> C]. destruct I as [<-|I]; [lia|]. specialize (IH _ _ C I). lia.
Qed.

Lemma cs_consecutive_nodup : forall l n, cs_consecutive n l -> NoDup l.
Proof.
  induction l as [|y tl IH]; intros n C; [constructor|].
  cbn in C. destruct C as [-> C]. constructor; [|eapply IH; eauto].
  intros I. pose proof (cs_consecutive_gt _ _ _ C I). lia.
Qed.

Lemma cs_consecutive_nth : forall l n i, cs_consecutive n l -> (i < length l)%nat ->
    nth i l 0 = n + 1 + Z.of_nat i.
Proof.
  induction l as [|y tl IH]; intros n i C L; [cbn in L; lia|].
  cbn in C. destruct C as [-> C]. destruct i as [|i]; cbn [nth]; [lia|].
  cbn [length] in L. rewrite (IH (n + 1) i C) by lia. lia.
Qed.

Lemma cs_c03_history : forall cfg h st s,
    cs_canon_accts (st_accts st) -> Forall (cs_canon_item cfg) h ->
    0 <= cs_nonce (st_accts st) s -> cs_nonce (st_accts st) s + Z.of_nat (length h) < cs_two63 ->
    cs_consecutive (cs_nonce (st_accts st) s) (cs_applied_nonces cfg st h s) /\
    cs_nonce (st_accts (cs_run cfg st h)) s =
      cs_nonce (st_accts st) s + Z.of_nat (length (cs_applied_nonces cfg st h s)).
Proof.
  intros cfg h. induction h as [|[[round tx] r] tl IH]; intros st s Cs Ch N0 NL.
  - cbn. split; [exact I|lia].
  - inversion Ch as [|? ? Ci Ct]; subst. unfold cs_canon_item in Ci. cbn [fst snd] in Ci.
    cbn [cs_applied_nonces]. unfold cs_run. cbn [fold_left]. fold (cs_run cfg (cs_step cfg st (round, tx, r)) tl).
    assert (Cs1 : cs_canon_accts (st_accts (cs_step cfg st (round, tx, r)))) by (apply cs_step_canon; assumption).
    unfold cs_step in *. cbn [length] in NL. rewrite Nat2Z.inj_succ in NL.
    destruct (cs_update_state cfg st round tx r) as [st' sx ox ex| |] eqn:E; cbn [cs_post cs_is_applied andb] in *.
    + destruct (cs_c03_applied_bumps _ _ _ _ _ _ _ _ _ Cs Ci E) as (Bs & Bo).
      destruct (Z.eqb_spec (tx_from tx) s) as [Eq|Ne].
      * subst s. pose proof (cs_c03_applied_next_nonce _ _ _ _ _ _ _ _ _ E) as NX.
        rewrite cs_wrap_i64_small in Bs, NX by (unfold cs_two63 in *; lia).
        destruct (IH st' (tx_from tx) Cs1 Ct) as (C1 & F1); [lia|lia|].
        rewrite Bs in C1, F1. cbn [cs_consecutive length]. rewrite Nat2Z.inj_succ.
        split; [split; [exact NX|exact C1]|lia].
      * rewrite <- (Bo s) by congruence. apply IH; try assumption.
        -- rewrite (Bo s) by congruence. exact N0.
        -- rewrite (Bo s) by congruence. lia.
    + apply IH; try assumption. lia.
    + apply IH; try assumption. lia.
Qed.

Lemma cs_c03_no_double_apply : forall cfg h st s,
    cs_canon_accts (st_accts st) -> Forall (cs_canon_item cfg) h ->
    0 <= cs_nonce (st_accts st) s -> cs_nonce (st_accts st) s + Z.of_nat (length h) < cs_two63 ->
    NoDup (cs_applied_nonces cfg st h s) /\
    (forall i, (i < length (cs_applied_nonces cfg st h s))%nat ->
               nth i (cs_applied_nonces cfg st h s) 0 = cs_nonce (st_accts st) s + 1 + Z.of_nat i).
Proof.
  intros cfg h st s Cs Ch N0 NL. destruct (cs_c03_history cfg h st s Cs Ch N0 NL) as (C & _).
  split; [eapply cs_consecutive_nodup; eauto|intros i Hi; apply cs_consecutive_nth; assumption].
Qed.

(* ---------- miner.validateTransaction agrees with validateNonce ---------- *)
Definition cs_i64 (z : Z) : Prop := - cs_two63 <= z < cs_two63.

Lemma cs_c03_classify_sound : forall n t, cs_i64 n -> cs_i64 t ->
    (cs_classify (Some n) t = ClsCurrent <-> cs_wrap_i64 (n + 1) = t).
Proof.
  intros n t Hn Ht. unfold cs_classify, cs_wrap_i64, cs_i64, cs_two63, cs_two64 in *.
  pose proof (Z.mod_pos_bound (t - n + 9223372036854775808) 18446744073709551616 ltac:(lia)) as B1.
  pose proof (Z.mod_pos_bound (n + 1 + 9223372036854775808) 18446744073709551616 ltac:(lia)) as B2.
  pose proof (Z.div_mod (t - n + 9223372036854775808) 18446744073709551616 ltac:(lia)) as D1.
  pose proof (Z.div_mod (n + 1 + 9223372036854775808) 18446744073709551616 ltac:(lia)) as D2.
  destruct (Z.ltb_spec 1 ((t - n + 9223372036854775808) mod 18446744073709551616 - 9223372036854775808)) as [L1|G1].
  - split; [discriminate|]. intros H. exfalso. nia.
  - destruct (Z.ltb_spec ((t - n + 9223372036854775808) mod 18446744073709551616 - 9223372036854775808) 1) as [L2|G2].
    + split; [discriminate|]. intros H. exfalso. nia.
    + split; [intros _|reflexivity]. nia.
Qed.

Lemma cs_c03_classify_absent : forall t, cs_classify None t = ClsCurrent <-> t = 1.
Proof.
  intros t. unfold cs_classify.
  destruct (Z.ltb_spec 1 t); [split; [discriminate|lia]|].
  destruct (Z.ltb_spec t 1); [split; [discriminate|lia]|]. split; [lia|reflexivity].
Qed.
