(* Proofs for C45 over Model/BlockGen.v: an honest generator's block passes honest verification. *)
From ZC Require Import Model.BlockGen Proof.BlockGenUtil.
Open Scope Z_scope.

(* ---------- the future / current lists only ever hold pool transactions ---------- *)
Section Lists.
  Variable Q : bg_txn -> Prop.

  Definition bg_fut_wf (l : list (Z * (Z * list bg_txn))) : Prop :=
    Forall (fun e => Forall Q (snd (snd e))) l.

  Lemma bg_flookup_wf c l v : bg_fut_wf l -> bg_flookup c l = Some v -> Forall Q (snd v).
  Proof.
    induction l as [|[k w] r IH]; simpl; intros Hw Hl; try discriminate.
    inversion Hw; subst. destruct (Z.eqb k c).
    - inversion Hl; subst. auto.
    - auto.
  Qed.

  Lemma bg_fset_wf c v l : bg_fut_wf l -> Forall Q (snd v) -> bg_fut_wf (bg_fset c v l).
  Proof.
    induction l as [|[k w] r IH]; simpl; intros Hw Hv.
    - repeat constructor; simpl; auto.
    - inversion Hw; subst. destruct (Z.eqb k c); constructor; simpl; auto. apply IH; auto.
  Qed.

  Lemma bg_finsert_wf t l : Q t -> Forall Q l -> Forall Q (bg_finsert t l).
  Proof.
    induction l as [|e r IH]; simpl; intros Ht Hl.
    - constructor; auto.
    - inversion Hl; subst. destruct (bg_fless t e); repeat constructor; auto.
  Qed.

  Lemma bg_ninsert_wf t l : Q t -> Forall Q l -> Forall Q (bg_ninsert t l).
  Proof.
    induction l as [|e r IH]; simpl; intros Ht Hl.
    - constructor; auto.
    - inversion Hl; subst. destruct (bt_nonce t <=? bt_nonce e); repeat constructor; auto.
  Qed.

  Lemma bg_nsort_wf l : Forall Q l -> Forall Q (bg_nsort l).
  Proof.
    induction l as [|e r IH]; simpl; intros Hl; auto.
    inversion Hl; subst. apply bg_ninsert_wf; auto.
  Qed.

  Lemma bg_cfc_loop_wf futs cur acur apast rest cur' ncur npast :
    bg_cfc_loop futs cur acur apast = (rest, cur', ncur, npast) ->
    Forall Q futs -> Forall Q acur -> Forall Q rest /\ Forall Q ncur.
  Proof.
    revert cur acur apast. induction futs as [|f r IH]; simpl; intros cur acur apast He Hf Ha.
    - inversion He; subst. auto.
    - inversion Hf; subst.
      destruct (1 <? bg_wrap (bt_nonce f - cur)).
      + inversion He; subst. auto.
      + destruct (bg_wrap (bt_nonce f - cur) <? 1).
        * eapply IH; eauto.
        * eapply IH; eauto. apply Forall_app. split; auto.
  Qed.

  Definition bg_tii_wf (tii : bg_tii) : Prop := bg_fut_wf (ti_future tii) /\ Forall Q (ti_current tii).

  Lemma bg_check_for_current_wf tii t : bg_tii_wf tii -> bg_tii_wf (bg_check_for_current tii t).
  Proof.
    intros [Hf Hc]. unfold bg_check_for_current.
    destruct (bg_flookup (bt_client t) (ti_future tii)) as [[n futs]|] eqn:El; [|split; auto].
    destruct futs as [|f0 fr]; [split; auto|].
    destruct (bg_cfc_loop (f0 :: fr) (bt_nonce t) [] []) as [[[rest cur] ncur] npast] eqn:Ec.
    pose proof (bg_flookup_wf _ _ _ Hf El) as Hq. simpl in Hq.
    destruct (bg_cfc_loop_wf _ _ _ _ _ _ _ _ Ec Hq (Forall_nil _)) as [Hr Hn].
    split; simpl.
    - apply bg_fset_wf; auto.
    - apply bg_nsort_wf. apply Forall_app. split; auto.
  Qed.
End Lists.

Section BlockGenProofs.
  Variable state : Type.
  Variable apply : state -> bg_txn -> option (state * bg_out).
  Variable snonce : state -> Z -> option Z.
  Variable root : state -> Z.
  Variable chg : state -> Z.

  Notation gs := (bg_gs state).
  Notation process := (bg_process state apply snonce).
  Notation validate := (bg_validate state snonce).
  Notation replay := (bg_replay state apply).

  Definition bg_txns (g : gs) : list bg_txn := map fst (gs_blk g).

  (* ---------- replay ---------- *)
  Lemma bg_replay_snoc st l st1 outs t st2 o :
    replay st l = Some (st1, outs) -> apply st1 t = Some (st2, o) ->
    replay st (l ++ [t]) = Some (st2, outs ++ [o]).
  Proof.
    revert st outs. induction l as [|a r IH]; simpl; intros st outs Hr Ha.
    - inversion Hr; subst. rewrite Ha. reflexivity.
    - destruct (apply st a) as [[st' o']|]; try discriminate.
      destruct (replay st' r) as [[st'' os]|] eqn:E; try discriminate.
      inversion Hr; subst. rewrite (IH _ _ E Ha). reflexivity.
  Qed.

  (* ---------- validateTransaction ---------- *)
  Lemma bg_validate_ok_within cfg st t n :
    validate cfg st t = BvOk n -> bg_within (bc_bdate cfg) (bt_cdate t) (bc_tol cfg) = true.
  Proof.
    unfold bg_validate. destruct (bg_within _ _ _); simpl; auto. discriminate.
  Qed.

  Definition bg_nz (st : state) (c : Z) : Z := match snonce st c with Some n => n | None => 0 end.

  Lemma bg_validate_ok_nonce cfg st t n :
    validate cfg st t = BvOk n -> bg_wrap (bt_nonce t - bg_nz st (bt_client t)) = 1.
  Proof.
    unfold bg_validate, bg_nz. destruct (negb _); try discriminate.
    destruct (snonce st (bt_client t)) as [m|].
    - destruct (Z.ltb_spec 1 (bg_wrap (bt_nonce t - m))); try discriminate.
      destruct (Z.ltb_spec (bg_wrap (bt_nonce t - m)) 1); try discriminate. intros _. lia.
    - destruct (Z.ltb_spec 1 (bt_nonce t)); try discriminate.
      destruct (Z.ltb_spec (bt_nonce t) 1); try discriminate. intros _.
      replace (bt_nonce t - 0) with 1 by lia. reflexivity.
  Qed.

  (* ---------- txnProcessorHandlerFunc: what one call can do ---------- *)
  Lemma bg_process_spec cfg (g g1 : gs) t ok :
    process cfg g t = (g1, ok) ->
    ti_cost (gs_tii g1) = ti_cost (gs_tii g) /\
    (ok = false ->
       gs_st g1 = gs_st g /\ gs_blk g1 = gs_blk g /\ ti_map (gs_tii g1) = ti_map (gs_tii g) /\
       ti_idx (gs_tii g1) = ti_idx (gs_tii g) /\ ti_bytes (gs_tii g1) = ti_bytes (gs_tii g)) /\
    (ok = true ->
       ~ In (bt_hash t) (ti_map (gs_tii g)) /\
       (exists n, validate cfg (gs_st g) t = BvOk n) /\
       exists st' o, apply (gs_st g) t = Some (st', o) /\ gs_st g1 = st' /\
                     gs_blk g1 = gs_blk g ++ [(t, o)] /\
                     ti_map (gs_tii g1) = bt_hash t :: ti_map (gs_tii g) /\
                     ti_idx (gs_tii g1) = ti_idx (gs_tii g) + 1).
  Proof.
    unfold bg_process. intros H.
    destruct (existsb (Z.eqb (bt_hash t)) (ti_map (gs_tii g))) eqn:Em.
    { inversion H; subst. repeat split; auto; discriminate. }
    assert (Hnm : ~ In (bt_hash t) (ti_map (gs_tii g))).
    { intro Hi. apply bg_existsb_eqb_in in Hi. congruence. }
    destruct (validate cfg (gs_st g) t) as [n|n| |n] eqn:Ev.
    - inversion H; subst; simpl. repeat split; auto; discriminate.
    - destruct (match bg_flookup (bt_client t) (ti_future (gs_tii g)) with Some x => x | None => (0, []) end) as [ln l].
      inversion H; subst; simpl. repeat split; auto; discriminate.
    - inversion H; subst; simpl. repeat split; auto; discriminate.
    - destruct (apply (gs_st g) t) as [[st' o]|] eqn:Ea.
      + inversion H; subst; simpl.
        assert (Hc : forall tii, ti_cost (bg_check_for_current tii t) = ti_cost tii /\
                                 ti_map (bg_check_for_current tii t) = ti_map tii /\
                                 ti_idx (bg_check_for_current tii t) = ti_idx tii).
        { intros tii. unfold bg_check_for_current.
          destruct (bg_flookup (bt_client t) (ti_future tii)) as [[m futs]|]; auto.
          destruct futs; auto.
          destruct (bg_cfc_loop (b :: futs) (bt_nonce t) [] []) as [[[a1 a2] a3] a4]. simpl. auto. }
        match goal with |- context [bg_check_for_current ?x t] => destruct (Hc x) as [H1 [H2 H3]] end.
        rewrite H1, H2, H3. simpl.
        split; auto. split; [discriminate|]. intros _. split; auto. split; [eauto|].
        exists st', o. repeat split; auto.
      + inversion H; subst; simpl. repeat split; auto; discriminate.
  Qed.

  Lemma bg_process_lists (Q : bg_txn -> Prop) cfg (g g1 : gs) t ok :
    process cfg g t = (g1, ok) -> Q t -> bg_tii_wf Q (gs_tii g) -> bg_tii_wf Q (gs_tii g1).
  Proof.
    unfold bg_process. intros H Ht [Hf Hc].
    destruct (existsb (Z.eqb (bt_hash t)) (ti_map (gs_tii g))).
    { inversion H; subst. split; auto. }
    destruct (validate cfg (gs_st g) t) as [n|n| |n].
    - inversion H; subst; simpl. split; auto.
    - destruct (bg_flookup (bt_client t) (ti_future (gs_tii g))) as [[ln l]|] eqn:El.
      + inversion H; subst; simpl. split; simpl; auto.
        apply bg_fset_wf; auto. simpl. apply bg_finsert_wf; auto.
        apply (bg_flookup_wf Q _ _ _ Hf El).
      + inversion H; subst; simpl. split; simpl; auto.
        apply bg_fset_wf; auto. simpl. repeat constructor; auto.
    - inversion H; subst; simpl. split; auto.
    - destruct (apply (gs_st g) t) as [[st' o]|].
      + inversion H; subst; simpl. apply bg_check_for_current_wf. split; auto.
      + inversion H; subst; simpl. split; auto.
  Qed.

  (* ---------- the invariant of the pool part of generation ---------- *)
  Section Inv.
    Variable cfg : bg_cfg.
    Variable st0 : state.
    Variable Q : bg_txn -> Prop.       (* "comes from the pool" *)
    Variable bic : Z.                  (* exact total cost of the built-in transactions *)

    Record bg_inv (g : gs) : Prop := {
      iv_replay : replay st0 (bg_txns g) = Some (gs_st g, map snd (gs_blk g));
      iv_map : forall h, In h (ti_map (gs_tii g)) <-> In h (map bt_hash (bg_txns g));
      iv_nodup : NoDup (map bt_hash (bg_txns g));
      iv_pool : Forall Q (bg_txns g);
      iv_within : Forall (fun t => bg_within (bc_bdate cfg) (bt_cdate t) (bc_tol cfg) = true) (bg_txns g);
      iv_lists : bg_tii_wf Q (gs_tii g);
      iv_idx : ti_idx (gs_tii g) = Z.of_nat (length (gs_blk g))
    }.

    Lemma bg_txns_snoc (g : gs) blk t o : gs_blk g = blk ++ [(t, o)] -> bg_txns g = map fst blk ++ [t].
    Proof. unfold bg_txns. intros ->. rewrite map_app. reflexivity. Qed.

    Lemma bg_inv_process g g1 t ok :
      bg_inv g -> Q t -> process cfg g t = (g1, ok) -> bg_inv g1.
    Proof.
      intros Hi Ht Hp.
      pose proof (bg_process_lists Q _ _ _ _ _ Hp Ht (iv_lists _ Hi)) as Hl.
      destruct (bg_process_spec _ _ _ _ _ Hp) as [_ [Hf Hs]].
      destruct ok.
      - destruct (Hs eq_refl) as [Hnm [[n Hv] [st' [o [Ha [Hst [Hb [Hm Hx]]]]]]]].
        assert (Etx : bg_txns g1 = bg_txns g ++ [t]) by (apply (bg_txns_snoc g1 (gs_blk g) t o); auto).
        constructor; auto.
        + rewrite Etx, Hb, map_app. simpl. rewrite Hst.
          apply bg_replay_snoc with (st1 := gs_st g); auto. apply (iv_replay _ Hi).
        + intros h. rewrite Hm, Etx, map_app, in_app_iff. simpl. rewrite (iv_map _ Hi h). tauto.
        + rewrite Etx, map_app. simpl. apply bg_nodup_app.
          * apply (iv_nodup _ Hi).
          * repeat constructor. intros [].
          * intros x Hx' [He|[]]. subst x. apply Hnm. apply (iv_map _ Hi). auto.
        + rewrite Etx. apply Forall_app. split; [apply (iv_pool _ Hi)|repeat constructor; auto].
        + rewrite Etx. apply Forall_app. split; [apply (iv_within _ Hi)|].
          repeat constructor. eapply bg_validate_ok_within; eauto.
        + rewrite Hx, Hb, app_length, (iv_idx _ Hi). simpl. lia.
      - destruct (Hf eq_refl) as [Hst [Hb [Hm [Hx Hy]]]].
        assert (Etx : bg_txns g1 = bg_txns g) by (unfold bg_txns; rewrite Hb; auto).
        constructor; auto; try (rewrite Etx).
        + rewrite Hst, Hb. apply (iv_replay _ Hi).
        + intros h. rewrite Hm. apply (iv_map _ Hi).
        + apply (iv_nodup _ Hi).
        + apply (iv_pool _ Hi).
        + apply (iv_within _ Hi).
        + rewrite Hx, Hb. apply (iv_idx _ Hi).
    Qed.

    Lemma bg_inv_add_cost g c : bg_inv g -> bg_inv (bg_add_cost state g c).
    Proof. intros [H1 H2 H3 H4 H5 H6 H7]. constructor; auto. Qed.

    (* cost bookkeeping: exact arithmetic while costs are small *)
    Definition bg_cinv (g : gs) : Prop :=
      Forall bg_cost_ok (bg_txns g) /\
      exists s, bg_sum_exact (bg_txns g) = Some s /\ ti_cost (gs_tii g) = bic + s /\
                ti_cost (gs_tii g) <= bc_maxcost cfg.

    Hypothesis Hmax : bc_maxcost cfg < 2 ^ 63.
    Hypothesis Hbic : 0 <= bic.

    (* one guarded attempt: cost test, processor, cost update (shared by both loops) *)
    Lemma bg_cinv_attempt g t c g1 :
      bg_cinv g -> bt_cost t = Some c -> 0 <= c < 2 ^ 63 ->
      (bg_wrap (bc_maxcost cfg - ti_cost (gs_tii g)) <=? c) = false ->
      process cfg g t = (g1, true) -> bg_cinv (bg_add_cost state g1 c).
    Proof.
      intros [Hok [s [Hs [Hc Hle]]]] Hct Hr Hlim Hp.
      destruct (bg_process_spec _ _ _ _ _ Hp) as [Hcost [_ Hsx]].
      destruct (Hsx eq_refl) as [_ [_ [st' [o [_ [_ [Hb _]]]]]]].
      assert (Etx : bg_txns g1 = bg_txns g ++ [t]) by (apply (bg_txns_snoc g1 (gs_blk g) t o); auto).
      pose proof (bg_sum_exact_nonneg _ _ Hok Hs) as Hs0.
      rewrite bg_wrap_small in Hlim by lia.
      apply Z.leb_gt in Hlim.
      split.
      - unfold bg_txns in *. simpl. rewrite Etx. apply Forall_app. split; auto.
        repeat constructor. exists c. auto.
      - exists (s + c). unfold bg_txns in *. simpl. rewrite Etx. split.
        + erewrite bg_sum_exact_app; eauto. simpl. rewrite Hct. f_equal. lia.
        + rewrite Hcost. rewrite bg_wrap_small by lia. lia.
    Qed.

    Lemma bg_inv_mark_invalid g t : bg_inv g -> bg_inv (bg_mark_invalid state g t).
    Proof. intros [H1 H2 H3 H4 H5 H6 H7]. constructor; auto. Qed.

    Lemma bg_cinv_mark_invalid g t : bg_cinv g -> bg_cinv (bg_mark_invalid state g t).
    Proof. intros H. exact H. Qed.

    Lemma bg_cinv_fail g t g1 : bg_cinv g -> process cfg g t = (g1, false) -> bg_cinv g1.
    Proof.
      intros [Hok [s [Hs [Hc Hle]]]] Hp.
      destruct (bg_process_spec _ _ _ _ _ Hp) as [Hcost [Hf _]].
      destruct (Hf eq_refl) as [_ [Hb _]].
      assert (Etx : bg_txns g1 = bg_txns g) by (unfold bg_txns; rewrite Hb; auto).
      split; rewrite Etx; auto. exists s. rewrite Hcost. auto.
    Qed.

    Definition bg_pool_costs_ok (l : list bg_txn) : Prop :=
      forall t c, In t l -> bt_cost t = Some c -> 0 <= c < 2 ^ 63.

    (* the pool iteration budgets with the cost the verifier will sum *)
    Definition bg_pool_gcost_ok (l : list bg_txn) : Prop := forall t, In t l -> bt_gcost t = bt_cost t.

    (* ---------- the iteration over the pool ---------- *)
    Lemma bg_iterate_inv pool g g1 :
      (forall t, In t pool -> bt_fname t = 0 -> Q t) -> bg_inv g ->
      bg_iterate state apply snonce cfg g pool = Some g1 -> bg_inv g1.
    Proof.
      revert g. induction pool as [|t r IH]; simpl; intros g Hq Hi He.
      - inversion He; subst; auto.
      - unfold bg_iter_step in He.
        destruct (bt_valbig t); try discriminate.
        destruct (bt_gcost t) as [c|]; [|apply (IH g); auto].
        destruct (bc_fee cfg && negb (bt_exempt t) && (bt_fee t <? Z.max (bc_minfee cfg) (bt_gfee t)));
          [apply (IH _ (fun x Hx => Hq x (or_intror Hx)) (bg_inv_mark_invalid g t Hi) He)|].
        destruct (Z.eqb_spec (bt_fname t) 0) as [Efn|Efn]; simpl in He;
          [|apply (IH _ (fun x Hx => Hq x (or_intror Hx)) (bg_inv_mark_invalid g t Hi) He)].
        destruct (bg_wrap (bc_maxcost cfg - ti_cost (gs_tii g)) <=? c); [apply (IH g); auto|].
        destruct (process cfg g t) as [g2 ok] eqn:Ep.
        pose proof (bg_inv_process _ _ _ _ Hi (Hq t (or_introl eq_refl) Efn) Ep) as Hi2.
        destruct ok; simpl in He.
        + pose proof (bg_inv_add_cost g2 c Hi2) as Hi3.
          destruct (bc_maxbytes cfg <=? ti_bytes (gs_tii g2)).
          * inversion He; subst; auto.
          * apply (IH _ (fun x Hx => Hq x (or_intror Hx)) Hi3 He).
        + apply (IH _ (fun x Hx => Hq x (or_intror Hx)) Hi2 He).
    Qed.

    Lemma bg_iterate_cinv pool g g1 :
      bg_pool_gcost_ok pool -> bg_pool_costs_ok pool -> bg_cinv g ->
      bg_iterate state apply snonce cfg g pool = Some g1 -> bg_cinv g1.
    Proof.
      revert g. induction pool as [|t r IH]; simpl; intros g Hg Hq Hi He.
      - inversion He; subst; auto.
      - assert (Hq' : bg_pool_costs_ok r) by (intros x c Hx; apply Hq; right; auto).
        assert (Hg' : bg_pool_gcost_ok r) by (intros x Hx; apply Hg; right; auto).
        specialize (IH) as IH0. assert (IH' : forall g, bg_cinv g -> bg_iterate state apply snonce cfg g r = Some g1 -> bg_cinv g1)
          by (intros g' H1 H2; exact (IH0 g' Hg' Hq' H1 H2)). clear IH IH0.
        unfold bg_iter_step in He.
        destruct (bt_valbig t); try discriminate.
        destruct (bt_gcost t) as [c|] eqn:Egc; [|apply (IH' g); auto].
        assert (Ec : bt_cost t = Some c) by (rewrite <- (Hg t (or_introl eq_refl)); exact Egc).
        destruct (bc_fee cfg && negb (bt_exempt t) && (bt_fee t <? Z.max (bc_minfee cfg) (bt_gfee t)));
          [apply (IH' _ (bg_cinv_mark_invalid g t Hi) He)|].
        destruct (Z.eqb_spec (bt_fname t) 0) as [Efn|Efn]; simpl in He;
          [|apply (IH' _ (bg_cinv_mark_invalid g t Hi) He)].
        destruct (bg_wrap (bc_maxcost cfg - ti_cost (gs_tii g)) <=? c) eqn:El; [apply (IH' g); auto|].
        destruct (process cfg g t) as [g2 ok] eqn:Ep.
        destruct ok; simpl in He.
        + pose proof (bg_cinv_attempt _ _ _ _ Hi Ec (Hq t c (or_introl eq_refl) Ec) El Ep) as Hi3.
          destruct (bc_maxbytes cfg <=? ti_bytes (gs_tii g2)).
          * inversion He; subst; auto.
          * apply (IH' _ Hi3 He).
        + apply (IH' _ (bg_cinv_fail _ _ _ Hi Ep) He).
    Qed.

    (* ---------- the loop over currentTxns ---------- *)
    Lemma bg_cur_loop_inv fuel g i g1 :
      bg_inv g -> bg_cur_loop state apply snonce fuel cfg g i = Some g1 -> bg_inv g1.
    Proof.
      revert g i. induction fuel as [|f IH]; simpl; intros g i Hi He; try discriminate.
      destruct (nth_error (ti_current (gs_tii g)) i) as [t|] eqn:En; [|inversion He; subst; auto].
      destruct (negb _); [inversion He; subst; auto|].
      destruct (bt_cost t) as [c|]; [|inversion He; subst; auto].
      destruct (bg_wrap (bc_maxcost cfg - ti_cost (gs_tii g)) <=? c); [inversion He; subst; auto|].
      destruct (process cfg g t) as [g2 ok] eqn:Ep.
      assert (Hq : Q t).
      { destruct (iv_lists _ Hi) as [_ Hc]. rewrite Forall_forall in Hc. apply Hc.
        eapply nth_error_In; eauto. }
      pose proof (bg_inv_process _ _ _ _ Hi Hq Ep) as Hi2.
      destruct ok.
      - pose proof (bg_inv_add_cost g2 c Hi2) as Hi3.
        destruct (bc_maxbytes cfg <=? ti_bytes (gs_tii g2)).
        + inversion He; subst; auto.
        + apply (IH _ _ Hi3 He).
      - apply (IH _ _ Hi2 He).
    Qed.

    Lemma bg_cur_loop_cinv fuel g i g1 :
      (forall t c, Q t -> bt_cost t = Some c -> 0 <= c < 2 ^ 63) ->
      bg_inv g -> bg_cinv g -> bg_cur_loop state apply snonce fuel cfg g i = Some g1 -> bg_cinv g1.
    Proof.
      intros Hqc. revert g i. induction fuel as [|f IH]; simpl; intros g i Hv Hi He; try discriminate.
      destruct (nth_error (ti_current (gs_tii g)) i) as [t|] eqn:En; [|inversion He; subst; auto].
      destruct (negb _); [inversion He; subst; auto|].
      destruct (bt_cost t) as [c|] eqn:Ec; [|inversion He; subst; auto].
      destruct (bg_wrap (bc_maxcost cfg - ti_cost (gs_tii g)) <=? c) eqn:El; [inversion He; subst; auto|].
      destruct (process cfg g t) as [g2 ok] eqn:Ep.
      assert (Hq : Q t).
      { destruct (iv_lists _ Hv) as [_ Hc]. rewrite Forall_forall in Hc. apply Hc.
        eapply nth_error_In; eauto. }
      pose proof (bg_inv_process _ _ _ _ Hv Hq Ep) as Hv2.
      destruct ok.
      - pose proof (bg_cinv_attempt _ _ _ _ Hi Ec (Hqc t c Hq Ec) El Ep) as Hi3.
        pose proof (bg_inv_add_cost g2 c Hv2) as Hv3.
        destruct (bc_maxbytes cfg <=? ti_bytes (gs_tii g2)).
        + inversion He; subst; auto.
        + apply (IH _ _ Hv3 Hi3 He).
      - apply (IH _ _ Hv2 (bg_cinv_fail _ _ _ Hi Ep) He).
    Qed.

    (* the trim after the loops is the identity on reachable states *)
    Lemma bg_trim_id g : bg_inv g -> bg_trim state cfg g = g.
    Proof.
      intros Hi. unfold bg_trim. destruct (ti_bytes (gs_tii g) <? bc_maxbytes cfg); auto.
      rewrite (iv_idx _ Hi), Nat2Z.id, firstn_all. destruct g; reflexivity.
    Qed.
  End Inv.

  (* ---------- the built-in transactions ---------- *)
  (* [bg_bipart l bis]: l is obtained from bis by dropping some entries and setting nonces *)
  Inductive bg_bipart : list bg_txn -> list bg_txn -> Prop :=
  | bp_nil : bg_bipart [] []
  | bp_skip : forall b r l, bg_bipart l r -> bg_bipart l (b :: r)
  | bp_take : forall b n r l, bg_bipart l r -> bg_bipart (bg_set_nonce b n :: l) (b :: r).

  Lemma bg_bipart_sub {A} (f : bg_txn -> A) l bis :
    (forall b n, f (bg_set_nonce b n) = f b) -> bg_bipart l bis -> bg_sub (map f l) (map f bis).
  Proof.
    intros Hf. induction 1; simpl.
    - constructor.
    - apply bg_sub_skip; auto.
    - rewrite Hf. apply bg_sub_take; auto.
  Qed.

  Lemma bg_bipart_forall (P : bg_txn -> Prop) l bis :
    (forall b n, P b -> P (bg_set_nonce b n)) -> bg_bipart l bis -> Forall P bis -> Forall P l.
  Proof.
    intros HP. induction 1; intros Hf; auto.
    - inversion Hf; auto.
    - inversion Hf; subst. constructor; auto.
  Qed.

  Lemma bg_bipart_sum l bis s :
    bg_bipart l bis -> Forall bg_cost_ok bis -> bg_sum_exact bis = Some s ->
    exists s1, bg_sum_exact l = Some s1 /\ 0 <= s1 <= s.
  Proof.
    intros Hb. revert s. induction Hb; intros s Hf Hs; simpl in *.
    - inversion Hs; subst. exists 0. split; auto. lia.
    - inversion Hf; subst. destruct H1 as [c [Hc Hr]]. rewrite Hc in Hs.
      destruct (bg_sum_exact r) eqn:E; try discriminate. inversion Hs; subst.
      destruct (IHHb z H2 eq_refl) as [s1 [H1 Hle]]. exists s1. split; auto. lia.
    - inversion Hf; subst. destruct H1 as [c [Hc Hr]]. rewrite Hc in *.
      destruct (bg_sum_exact r) eqn:E; try discriminate. inversion Hs; subst.
      destruct (IHHb z H2 eq_refl) as [s1 [H1 Hle]]. rewrite H1. exists (c + s1). split; auto. lia.
  Qed.

  Lemma bg_builtins_spec cfg st0 bis : forall g : gs,
    replay st0 (bg_txns g) = Some (gs_st g, map snd (gs_blk g)) ->
    let g' := bg_builtins state apply snonce cfg g bis in
    replay st0 (bg_txns g') = Some (gs_st g', map snd (gs_blk g')) /\
    gs_tii g' = gs_tii g /\
    exists bp, gs_blk g' = gs_blk g ++ bp /\ bg_bipart (map fst bp) bis.
  Proof.
    induction bis as [|b r IH]; simpl; intros g Hr.
    - split; auto. split; auto. exists []. rewrite app_nil_r. split; auto. constructor.
    - destruct (apply (gs_st g) (bg_set_nonce b (bg_self_nonce state snonce cfg (gs_st g)))) as [[st' o]|] eqn:Ea.
      + set (b' := bg_set_nonce b (bg_self_nonce state snonce cfg (gs_st g))) in *.
        set (g1 := {| gs_st := st'; gs_tii := gs_tii g; gs_blk := gs_blk g ++ [(b', o)] |}).
        assert (Hr1 : replay st0 (bg_txns g1) = Some (gs_st g1, map snd (gs_blk g1))).
        { unfold bg_txns, g1; simpl. rewrite !map_app. simpl.
          apply bg_replay_snoc with (st1 := gs_st g); auto. }
        destruct (IH g1 Hr1) as [H1 [H2 [bp [H3 H4]]]].
        split; auto. split; auto.
        exists ((b', o) :: bp). split.
        * rewrite H3. unfold g1; simpl. rewrite <- app_assoc. reflexivity.
        * simpl. apply bp_take. auto.
      + destruct (IH g Hr) as [H1 [H2 [bp [H3 H4]]]].
        split; auto. split; auto. exists bp. split; auto. apply bp_skip. auto.
  Qed.

  (* ---------- small facts used by the final theorem ---------- *)
  Lemma bg_builtin_names_app l1 l2 :
    bg_builtin_names (l1 ++ l2) = bg_builtin_names l1 ++ bg_builtin_names l2.
  Proof. unfold bg_builtin_names. rewrite map_app, filter_app. reflexivity. Qed.

  Lemma bg_builtin_names_none l : Forall (fun t => bt_fname t = 0) l -> bg_builtin_names l = [].
  Proof.
    unfold bg_builtin_names. induction 1; simpl; auto. rewrite H. simpl. auto.
  Qed.

  Lemma bg_outs_self (l : list bg_out) :
    forallb (fun p : bg_out * bg_out => fst (fst p) =? fst (snd p)) (combine l l) = true.
  Proof. induction l; simpl; auto. rewrite Z.eqb_refl. auto. Qed.

  Definition bg_tol_ok (cfg : bg_cfg) (t : bg_txn) : Prop :=
    bg_within (bc_bdate cfg) (bt_cdate t) (bc_tol cfg) = true.

  (* hypotheses about the configuration and the built-in templates (see Prop/C45.v) *)
  Record bg_bis_ok (cfg : bg_cfg) (pool bis : list bg_txn) (bic : Z) : Prop := {
    bo_max : bc_maxcost cfg < 2 ^ 63;
    bo_cost : Forall bg_cost_ok bis;
    bo_sum : bg_sum_exact bis = Some bic;
    bo_le : bic <= bc_maxcost cfg;
    bo_tol : Forall (bg_tol_ok cfg) bis;
    bo_valid : Forall (fun b => bt_valid b = true) bis;
    bo_hash : NoDup (map bt_hash bis);
    bo_fresh : forall t b, In t pool -> In b bis -> bt_hash t <> bt_hash b;
    bo_names : NoDup (bg_builtin_names bis)
  }.

  Record bg_pool_ok (pool : list bg_txn) : Prop := {
    po_valid : forall t, In t pool -> bt_valid t = true;
    po_gcost : bg_pool_gcost_ok pool;
    po_costs : bg_pool_costs_ok pool
  }.

  (* everything the generator guarantees about a block it returns *)
  Record bg_gen_facts (cfg : bg_cfg) (st0 : state) (pool bis : list bg_txn) (b : bg_block) : Prop := {
    gf_split : exists pp bp, bk_txns b = pp ++ bp /\ Forall (fun t => In t pool /\ bt_fname t = 0) (map fst pp) /\
                             bg_bipart (map fst bp) bis /\
                             NoDup (map bt_hash (map fst pp)) /\
                             Forall (bg_tol_ok cfg) (map fst pp);
    gf_replay : exists st', replay st0 (map fst (bk_txns b)) = Some (st', map snd (bk_txns b)) /\
                            bk_root b = root st' /\ bk_chg b = chg st'
  }.

  Lemma bg_generate_facts cfg st0 pool bis b :
    bg_generate state apply snonce root chg cfg st0 pool bis = GenOk b ->
    bg_gen_facts cfg st0 pool bis b.
  Proof.
    unfold bg_generate. intros H.
    destruct (bg_sum_costs bis 0) as [bicost|]; try discriminate.
    set (g0 := {| gs_st := st0; gs_tii := bg_tii0 bicost; gs_blk := [] |}) in *.
    destruct (bg_iterate state apply snonce cfg g0 pool) as [g1|] eqn:E1; try discriminate.
    destruct (bg_cur_loop state apply snonce (length pool + 2) cfg g1 0) as [g2|] eqn:E2; try discriminate.
    inversion H; subst; clear H.
    assert (Hi0 : bg_inv cfg st0 (fun t => In t pool /\ bt_fname t = 0) g0).
    { constructor; simpl; auto; try constructor; try tauto.
      - constructor.
      - constructor. }
    pose proof (bg_iterate_inv cfg st0 _ pool g0 g1 (fun t Ht Hf => conj Ht Hf) Hi0 E1) as Hi1.
    pose proof (bg_cur_loop_inv cfg st0 _ _ _ _ _ Hi1 E2) as Hi2.
    rewrite (bg_trim_id cfg st0 _ g2 Hi2).
    destruct (bg_builtins_spec cfg st0 bis g2 (iv_replay _ _ _ _ Hi2)) as [Hr [_ [bp [Hb Hp]]]].
    constructor; simpl.
    - exists (gs_blk g2), bp. split; auto. split; [apply (iv_pool _ _ _ _ Hi2)|].
      split; auto. split; [apply (iv_nodup _ _ _ _ Hi2)|apply (iv_within _ _ _ _ Hi2)].
    - eexists. split; [apply Hr|]. split; reflexivity.
  Qed.

  Lemma bg_generate_cost cfg st0 pool bis bic b :
    bg_bis_ok cfg pool bis bic -> bg_pool_gcost_ok pool -> bg_pool_costs_ok pool ->
    bg_generate state apply snonce root chg cfg st0 pool bis = GenOk b ->
    Forall bg_cost_ok (map fst (bk_txns b)) /\
    exists s, bg_sum_exact (map fst (bk_txns b)) = Some s /\ 0 <= s <= bc_maxcost cfg.
  Proof.
    intros Hb Hgc Hpc. unfold bg_generate. intros H.
    assert (Hbic0 : 0 <= bic) by (apply (bg_sum_exact_nonneg _ _ (bo_cost _ _ _ _ Hb) (bo_sum _ _ _ _ Hb))).
    pose proof (bo_max _ _ _ _ Hb) as Hmax. pose proof (bo_le _ _ _ _ Hb) as Hle.
    rewrite (bg_sum_costs_exact bis 0 bic (bo_cost _ _ _ _ Hb) (bo_sum _ _ _ _ Hb)) in H by lia.
    simpl in H.
    set (g0 := {| gs_st := st0; gs_tii := bg_tii0 bic; gs_blk := [] |}) in *.
    destruct (bg_iterate state apply snonce cfg g0 pool) as [g1|] eqn:E1; try discriminate.
    destruct (bg_cur_loop state apply snonce (length pool + 2) cfg g1 0) as [g2|] eqn:E2; try discriminate.
    inversion H; subst; clear H.
    assert (Hi0 : bg_inv cfg st0 (fun t => In t pool /\ bt_fname t = 0) g0).
    { constructor; simpl; auto; try constructor; try tauto.
      - constructor.
      - constructor. }
    assert (Hc0 : bg_cinv cfg bic g0).
    { split; [constructor|]. exists 0. simpl. repeat split; auto; lia. }
    pose proof (bg_iterate_inv cfg st0 _ pool g0 g1 (fun t Ht Hf => conj Ht Hf) Hi0 E1) as Hi1.
    pose proof (bg_iterate_cinv cfg bic Hmax Hbic0 pool g0 g1 Hgc Hpc Hc0 E1) as Hc1.
    pose proof (bg_cur_loop_inv cfg st0 _ _ _ _ _ Hi1 E2) as Hi2.
    pose proof (bg_cur_loop_cinv cfg st0 _ bic Hmax Hbic0 _ _ _ _ (fun t c Ht => Hpc t c (proj1 Ht)) Hi1 Hc1 E2) as Hc2.
    rewrite (bg_trim_id cfg st0 _ g2 Hi2).
    destruct (bg_builtins_spec cfg st0 bis g2 (iv_replay _ _ _ _ Hi2)) as [_ [_ [bp [Hbk Hp]]]].
    simpl. rewrite Hbk, map_app.
    destruct Hc2 as [Hok [s [Hs [Hc Hlim]]]].
    destruct (bg_bipart_sum _ _ _ Hp (bo_cost _ _ _ _ Hb) (bo_sum _ _ _ _ Hb)) as [s1 [Hs1 Hr1]].
    pose proof (bg_sum_exact_nonneg _ _ Hok Hs) as Hs0.
    split.
    - apply Forall_app. split; auto.
      apply (bg_bipart_forall bg_cost_ok _ _ (fun b n Hx => Hx) Hp (bo_cost _ _ _ _ Hb)).
    - exists (s + s1). split; [apply bg_sum_exact_app; auto|]. lia.
  Qed.

  (* ---------- C45: the generated block verifies ---------- *)
  Theorem bg_generated_block_verifies cfg st0 pool bis bic b :
    bg_pool_ok pool -> bg_bis_ok cfg pool bis bic ->
    bg_generate state apply snonce root chg cfg st0 pool bis = GenOk b ->
    bg_verify state apply root chg cfg st0 b = VerOk (bk_root b) (map snd (bk_txns b)) (bk_chg b).
  Proof.
    intros Hp Hb Hg.
    destruct (bg_generate_facts _ _ _ _ _ Hg) as [[pp [bp [Hsplit [Hpool [Hbp [Hnd Htol]]]]]] [st' [Hrep [Hroot Hchg]]]].
    destruct (bg_generate_cost _ _ _ _ _ _ Hb (po_gcost _ Hp) (po_costs _ Hp) Hg) as [Hcok [s [Hs Hsle]]].
    pose proof (bo_max _ _ _ _ Hb) as Hmax.
    unfold bg_verify.
    assert (Etx : map fst (bk_txns b) = map fst pp ++ map fst bp) by (rewrite Hsplit, map_app; auto).
    (* 1. no duplicate transactions *)
    assert (H1 : bg_nodupb (map bt_hash (map fst (bk_txns b))) = true).
    { apply bg_nodupb_spec. rewrite Etx, map_app. apply bg_nodup_app; auto.
      - eapply bg_sub_nodup; [|apply (bo_hash _ _ _ _ Hb)].
        apply bg_bipart_sub; auto.
      - intros x Hx Hy. apply in_map_iff in Hx. destruct Hx as [t [Ht Hin]].
        pose proof (bg_sub_in _ _ (bg_bipart_sub bt_hash _ _ (fun _ _ => eq_refl) Hbp) _ Hy) as Hz.
        apply in_map_iff in Hz. destruct Hz as [b0 [Hb0 Hin0]].
        rewrite Forall_forall in Hpool.
        apply (bo_fresh _ _ _ _ Hb t b0 (proj1 (Hpool _ Hin)) Hin0). congruence. }
    rewrite H1. simpl.
    (* 2. every transaction is within the tolerance and valid *)
    assert (H2 : forallb (fun t => bg_within (bc_bdate cfg) (bt_cdate t) (bc_tol cfg) && bt_valid t)
                   (map fst (bk_txns b)) = true).
    { apply forallb_forall. intros t Ht. rewrite Etx in Ht. apply in_app_or in Ht.
      apply andb_true_iff. destruct Ht as [Ht|Ht].
      - rewrite Forall_forall in Htol, Hpool. split; [apply Htol; auto|].
        apply (po_valid _ Hp). apply (proj1 (Hpool _ Ht)).
      - pose proof (bg_bipart_forall (bg_tol_ok cfg) _ _ (fun b n Hx => Hx) Hbp (bo_tol _ _ _ _ Hb)) as Ha.
        pose proof (bg_bipart_forall (fun b => bt_valid b = true) _ _ (fun b n Hx => Hx) Hbp (bo_valid _ _ _ _ Hb)) as Hv.
        rewrite Forall_forall in Ha, Hv. split; [apply Ha|apply Hv]; auto. }
    rewrite H2. simpl.
    (* 3. built-in names are unique *)
    assert (H3 : bg_nodupb (bg_builtin_names (map fst (bk_txns b))) = true).
    { apply bg_nodupb_spec. rewrite Etx, bg_builtin_names_app.
      rewrite (bg_builtin_names_none (map fst pp)).
      - simpl. eapply bg_sub_nodup; [|apply (bo_names _ _ _ _ Hb)].
        unfold bg_builtin_names. apply bg_sub_filter. apply bg_bipart_sub; auto.
      - rewrite Forall_forall in *. intros t Ht. apply (proj2 (Hpool _ Ht)). }
    rewrite H3. simpl.
    (* 4. cost *)
    rewrite (bg_ver_costs_exact _ _ 0 s Hcok Hs) by lia. simpl.
    destruct (Z.ltb_spec (bc_maxcost cfg) s); [lia|].
    (* 5. state replay, root, outputs *)
    rewrite Hrep. rewrite Hroot, Z.eqb_refl. simpl.
    rewrite bg_outs_self. simpl. rewrite Hchg. reflexivity.
  Qed.

  (* ---------- the companion statements ---------- *)
  Theorem bg_no_dup_txn cfg st0 pool bis bic b :
    bg_bis_ok cfg pool bis bic ->
    bg_generate state apply snonce root chg cfg st0 pool bis = GenOk b ->
    NoDup (map bt_hash (map fst (bk_txns b))).
  Proof.
    intros Hb Hg.
    destruct (bg_generate_facts _ _ _ _ _ Hg) as [[pp [bp [Hsplit [Hpool [Hbp [Hnd Htol]]]]]] _].
    rewrite Hsplit, !map_app. apply bg_nodup_app; auto.
    - eapply bg_sub_nodup; [|apply (bo_hash _ _ _ _ Hb)]. apply bg_bipart_sub; auto.
    - intros x Hx Hy. apply in_map_iff in Hx. destruct Hx as [t [Ht Hin]].
      pose proof (bg_sub_in _ _ (bg_bipart_sub bt_hash _ _ (fun _ _ => eq_refl) Hbp) _ Hy) as Hz.
      apply in_map_iff in Hz. destruct Hz as [b0 [Hb0 Hin0]].
      rewrite Forall_forall in Hpool.
      apply (bo_fresh _ _ _ _ Hb t b0 (proj1 (Hpool _ Hin)) Hin0). congruence.
  Qed.

  (* the pool part alone never holds a transaction twice, whatever the built-ins are *)
  Theorem bg_no_dup_pool_part cfg st0 pool bis b :
    bg_generate state apply snonce root chg cfg st0 pool bis = GenOk b ->
    exists pp bp, bk_txns b = pp ++ bp /\ NoDup (map bt_hash (map fst pp)) /\
                  Forall (fun t => In t pool /\ bt_fname t = 0) (map fst pp) /\ bg_bipart (map fst bp) bis.
  Proof.
    intros Hg.
    destruct (bg_generate_facts _ _ _ _ _ Hg) as [[pp [bp [Hsplit [Hpool [Hbp [Hnd Htol]]]]]] _].
    exists pp, bp. auto.
  Qed.

  Theorem bg_cost_le_limit cfg st0 pool bis bic b :
    bg_bis_ok cfg pool bis bic -> bg_pool_gcost_ok pool -> bg_pool_costs_ok pool ->
    bg_generate state apply snonce root chg cfg st0 pool bis = GenOk b ->
    exists s, bg_sum_exact (map fst (bk_txns b)) = Some s /\ s <= bc_maxcost cfg.
  Proof.
    intros Hb Hgc Hpc Hg. destruct (bg_generate_cost _ _ _ _ _ _ Hb Hgc Hpc Hg) as [_ [s [Hs Hle]]].
    exists s. split; auto. lia.
  Qed.

  Fixpoint bg_count (k : Z) (l : list Z) : nat :=
    match l with [] => O | x :: r => Nat.add (if Z.eqb x k then 1%nat else 0%nat) (bg_count k r) end.

  Lemma bg_count_nodup k l : NoDup l -> (bg_count k l <= 1)%nat.
  Proof.
    induction 1; simpl; auto.
    destruct (Z.eqb_spec x k); simpl; auto. subst.
    assert (bg_count k l = 0%nat).
    { clear IHNoDup H0. induction l as [|y r IH]; simpl; auto.
      destruct (Z.eqb_spec y k).
      - subst. exfalso. apply H. left; auto.
      - simpl. apply IH. intro Hi. apply H. right; auto. }
    lia.
  Qed.

  (* every built-in template ends up in the block at most once, and a built-in NAME occurs at
     most once when the pool does not use built-in names *)
  Theorem bg_builtin_at_most_once cfg st0 pool bis b :
    bg_generate state apply snonce root chg cfg st0 pool bis = GenOk b ->
    NoDup (bg_builtin_names bis) ->
    forall k, k <> 0 -> (bg_count k (map bt_fname (map fst (bk_txns b))) <= 1)%nat.
  Proof.
    intros Hg Hnd k Hk.
    destruct (bg_generate_facts _ _ _ _ _ Hg) as [[pp [bp [Hsplit [Hpool [Hbp _]]]]] _].
    assert (Hc : forall l, bg_count k (map bt_fname l) = bg_count k (bg_builtin_names l)).
    { unfold bg_builtin_names. induction l as [|t r IH]; simpl; auto.
      destruct (Z.eqb_spec (bt_fname t) 0) as [E|E]; simpl.
      - rewrite E. destruct (Z.eqb_spec 0 k); [congruence|]. simpl. auto.
      - rewrite IH. reflexivity. }
    rewrite Hc. apply bg_count_nodup.
    rewrite Hsplit, map_app, bg_builtin_names_app.
    rewrite (bg_builtin_names_none (map fst pp)).
    - simpl. eapply bg_sub_nodup; [|apply Hnd].
      unfold bg_builtin_names. apply bg_sub_filter. apply bg_bipart_sub; auto.
    - rewrite Forall_forall in *. intros t Ht. apply (proj2 (Hpool _ Ht)).
  Qed.

  (* ---------- per-sender nonce continuity ---------- *)
  Section Nonces.
    Variable cfg : bg_cfg.
    Variable st0 : state.
    (* the state update stores the transaction's nonce for its sender and leaves other senders alone *)
    Hypothesis Hframe : forall st t st' o c, apply st t = Some (st', o) ->
      bg_nz st' c = if c =? bt_client t then bt_nonce t else bg_nz st c.

    Definition bg_ninv (g : gs) : Prop :=
      bg_consec (bg_nz st0) (bg_txns g) /\
      forall c, bg_nz (gs_st g) c = bg_nzfold (bg_nz st0) (bg_txns g) c.

    Lemma bg_ninv_process g g1 t ok : bg_ninv g -> process cfg g t = (g1, ok) -> bg_ninv g1.
    Proof.
      intros [Hc Hn] Hp. destruct (bg_process_spec _ _ _ _ _ Hp) as [_ [Hf Hs]].
      destruct ok.
      - destruct (Hs eq_refl) as [_ [[n Hv] [st' [o [Ha [Hst [Hb _]]]]]]].
        assert (Etx : bg_txns g1 = bg_txns g ++ [t]) by (unfold bg_txns; rewrite Hb, map_app; auto).
        split.
        + rewrite Etx. apply bg_consec_snoc. split; auto.
          rewrite <- Hn. eapply bg_validate_ok_nonce; eauto.
        + intros c. rewrite Etx, bg_nzfold_snoc, Hst. unfold bg_upd.
          rewrite (Hframe _ _ _ _ c Ha). rewrite Hn. reflexivity.
      - destruct (Hf eq_refl) as [Hst [Hb _]].
        assert (Etx : bg_txns g1 = bg_txns g) by (unfold bg_txns; rewrite Hb; auto).
        split; rewrite Etx; auto. intros c. rewrite Hst. auto.
    Qed.

    Lemma bg_ninv_add_cost g c : bg_ninv g -> bg_ninv (bg_add_cost state g c).
    Proof. intros [H1 H2]. split; auto. Qed.

    Lemma bg_iterate_ninv pool g g1 :
      bg_ninv g -> bg_iterate state apply snonce cfg g pool = Some g1 -> bg_ninv g1.
    Proof.
      revert g. induction pool as [|t r IH]; simpl; intros g Hi He.
      - inversion He; subst; auto.
      - unfold bg_iter_step in He.
        destruct (bt_valbig t); try discriminate.
        destruct (bt_gcost t) as [c|]; [|apply (IH g); auto].
        destruct (bc_fee cfg && negb (bt_exempt t) && (bt_fee t <? Z.max (bc_minfee cfg) (bt_gfee t)));
          [apply (IH (bg_mark_invalid state g t)); auto|].
        destruct (negb (bt_fname t =? 0)); [apply (IH (bg_mark_invalid state g t)); auto|].
        destruct (bg_wrap (bc_maxcost cfg - ti_cost (gs_tii g)) <=? c); [apply (IH g); auto|].
        destruct (process cfg g t) as [g2 ok] eqn:Ep.
        pose proof (bg_ninv_process _ _ _ _ Hi Ep) as Hi2.
        destruct ok; simpl in He.
        + pose proof (bg_ninv_add_cost g2 c Hi2) as Hi3.
          destruct (bc_maxbytes cfg <=? ti_bytes (gs_tii g2)).
          * inversion He; subst; auto.
          * apply (IH _ Hi3 He).
        + apply (IH _ Hi2 He).
    Qed.

    Lemma bg_cur_loop_ninv fuel g i g1 :
      bg_ninv g -> bg_cur_loop state apply snonce fuel cfg g i = Some g1 -> bg_ninv g1.
    Proof.
      revert g i. induction fuel as [|f IH]; simpl; intros g i Hi He; try discriminate.
      destruct (nth_error (ti_current (gs_tii g)) i) as [t|] eqn:En; [|inversion He; subst; auto].
      destruct (negb _); [inversion He; subst; auto|].
      destruct (bt_cost t) as [c|]; [|inversion He; subst; auto].
      destruct (bg_wrap (bc_maxcost cfg - ti_cost (gs_tii g)) <=? c); [inversion He; subst; auto|].
      destruct (process cfg g t) as [g2 ok] eqn:Ep.
      pose proof (bg_ninv_process _ _ _ _ Hi Ep) as Hi2.
      destruct ok.
      - pose proof (bg_ninv_add_cost g2 c Hi2) as Hi3.
        destruct (bc_maxbytes cfg <=? ti_bytes (gs_tii g2)).
        + inversion He; subst; auto.
        + apply (IH _ _ Hi3 He).
      - apply (IH _ _ Hi2 He).
    Qed.

    Lemma bg_self_nonce_next st :
      bg_wrap (bg_self_nonce state snonce cfg st - bg_nz st (bc_miner cfg)) = 1.
    Proof.
      unfold bg_self_nonce, bg_nz. destruct (snonce st (bc_miner cfg)) as [n|].
      - apply bg_wrap_succ_diff.
      - reflexivity.
    Qed.

    Lemma bg_builtins_ninv bis : forall g,
      Forall (fun b => bt_client b = bc_miner cfg) bis ->
      bg_ninv g -> bg_ninv (bg_builtins state apply snonce cfg g bis).
    Proof.
      induction bis as [|b r IH]; simpl; intros g Hm Hi; auto.
      inversion Hm; subst.
      destruct (apply (gs_st g) (bg_set_nonce b (bg_self_nonce state snonce cfg (gs_st g)))) as [[st' o]|] eqn:Ea; [|apply IH; auto].
      apply IH; auto. destruct Hi as [Hc Hn].
      set (b' := bg_set_nonce b (bg_self_nonce state snonce cfg (gs_st g))) in *.
      assert (Etx : bg_txns {| gs_st := st'; gs_tii := gs_tii g; gs_blk := gs_blk g ++ [(b', o)] |} = bg_txns g ++ [b']).
      { unfold bg_txns; simpl. rewrite map_app. reflexivity. }
      split.
      - rewrite Etx. apply bg_consec_snoc. split; auto.
        rewrite <- Hn. unfold b'; simpl. rewrite H1. apply bg_self_nonce_next.
      - intros c. rewrite Etx, bg_nzfold_snoc. simpl. unfold bg_upd.
        rewrite (Hframe _ _ _ _ c Ea). rewrite Hn. reflexivity.
    Qed.

    Theorem bg_nonces_consecutive pool bis b :
      Forall (fun x => bt_client x = bc_miner cfg) bis ->
      bg_generate state apply snonce root chg cfg st0 pool bis = GenOk b ->
      bg_consec (bg_nz st0) (map fst (bk_txns b)).
    Proof.
      intros Hm. unfold bg_generate. intros H.
      destruct (bg_sum_costs bis 0) as [bicost|]; try discriminate.
      set (g0 := {| gs_st := st0; gs_tii := bg_tii0 bicost; gs_blk := [] |}) in *.
      destruct (bg_iterate state apply snonce cfg g0 pool) as [g1|] eqn:E1; try discriminate.
      destruct (bg_cur_loop state apply snonce (length pool + 2) cfg g1 0) as [g2|] eqn:E2; try discriminate.
      inversion H; subst; clear H. simpl.
      assert (Hi0 : bg_inv cfg st0 (fun t => In t pool /\ bt_fname t = 0) g0).
      { constructor; simpl; auto; try constructor; try tauto.
        - constructor.
        - constructor. }
      assert (Hn0 : bg_ninv g0) by (split; simpl; auto).
      pose proof (bg_iterate_inv cfg st0 _ pool g0 g1 (fun t Ht Hf => conj Ht Hf) Hi0 E1) as Hi1.
      pose proof (bg_cur_loop_inv cfg st0 _ _ _ _ _ Hi1 E2) as Hi2.
      pose proof (bg_iterate_ninv _ _ _ Hn0 E1) as Hn1.
      pose proof (bg_cur_loop_ninv _ _ _ _ Hn1 E2) as Hn2.
      rewrite (bg_trim_id cfg st0 _ g2 Hi2).
      apply (bg_builtins_ninv bis g2 Hm Hn2).
    Qed.
  End Nonces.
End BlockGenProofs.
