// Engine for C44: evaluates the lockset discipline on the access table that the locktable
// translator extracted from the Go sources (coq/Gen/LockTable.json), independently of the Coq
// definitions; every undisciplined pair outside the benign exclusions is a violation with the
// signature C44:<Type>.<field>:<methodA>/<methodB>.  Search step: a two-goroutine stress program
// (harness/cmd/racestress, built with -race) is run for every offending pair; the race detector's
// report is attached to the replay.  The instrumented binary is built in the thorough tier (or when
// VERIF_RACE=1) and cached in build/bin; the quick tier uses it when it is already there.
package main

import (
	"bufio"
	"bytes"
	"crypto/sha1"
	"encoding/hex"
	"encoding/json"
	"fmt"
	"os"
	"os/exec"
	"path/filepath"
	"sort"
	"strings"

	"0chain.net/chaincore/block"
	"0chain.net/chaincore/round"
	"verifharness/sc"
	"verifharness/vh"
)

// ---------- getters must hand out copies (deterministic, no race detector) ----------

type getterFail struct{ typ, field, method, what string }

func nblock(hash string, rank int) *block.Block {
	b := &block.Block{}
	b.Hash = hash
	b.RoundRank = rank
	b.Round = 7
	return b
}

// getterSnapshots: a value returned by a getter of Round / Block must not change when a writer
// later stores into the object (same-rank re-proposal, UpdateNotarizedBlock, same-hash proposal,
// new share / ticket / extension) nor may mutating the returned value change the object.
func getterSnapshots() (fails []getterFail) {
	defer func() {
		if r := recover(); r != nil {
			fails = append(fails, getterFail{"Round", "?", "?", fmt.Sprint("panic: ", r)})
		}
	}()
	same := func(a, b []*block.Block) bool {
		if len(a) != len(b) {
			return false
		}
		for i := range a {
			if a[i] != b[i] {
				return false
			}
		}
		return true
	}
	for n := 0; n <= 2; n++ {
		r := round.NewRound(7)
		for i := 0; i < n; i++ {
			r.AddNotarizedBlock(nblock(fmt.Sprintf("h%d", i), i))
		}
		snap := r.GetNotarizedBlocks()
		want := append([]*block.Block{}, snap...)
		r.AddNotarizedBlock(nblock("other", 0)) // same rank as slot 0, different hash: replaces in place
		if n > 0 {
			r.UpdateNotarizedBlock(nblock(want[0].Hash, want[0].RoundRank))
		}
		if !same(snap, want) {
			fails = append(fails, getterFail{"Round", "notarizedBlocks", "GetNotarizedBlocks", fmt.Sprintf("round with %d notarized block(s): the slice returned earlier changed after AddNotarizedBlock(same rank, other hash) / UpdateNotarizedBlock", n)})
		}
		if n > 0 {
			snap2 := r.GetNotarizedBlocks()
			keep := append([]*block.Block{}, snap2...)
			snap2[0] = nblock("scribble", 9)
			if !same(r.GetNotarizedBlocks(), keep) {
				fails = append(fails, getterFail{"Round", "notarizedBlocks", "GetNotarizedBlocks", "writing into the returned slice changed the round"})
			}
		}
		// proposed blocks
		p := round.NewRound(8)
		for i := 0; i < n; i++ {
			p.AddProposedBlock(nblock(fmt.Sprintf("p%d", i), i))
		}
		ps := p.GetProposedBlocks()
		pw := append([]*block.Block{}, ps...)
		if n > 0 {
			p.AddProposedBlock(nblock(pw[0].Hash, pw[0].RoundRank)) // same hash: replaces in place
			p.UpdateNotarizedBlock(nblock(pw[n-1].Hash, 0))
		}
		if !same(ps, pw) {
			fails = append(fails, getterFail{"Round", "proposedBlocks", "GetProposedBlocks", fmt.Sprintf("round with %d proposed block(s): the slice returned earlier changed after AddProposedBlock(same hash) / UpdateNotarizedBlock", n)})
		}
	}
	// maps and ticket lists
	r := round.NewRound(9)
	m := r.GetVRFShares()
	m["x"] = nil
	if len(r.GetVRFShares()) != 0 {
		fails = append(fails, getterFail{"Round", "shares", "GetVRFShares", "writing into the returned map changed the round"})
	}
	b := &block.Block{}
	b.AddVerificationTicket(&block.VerificationTicket{VerifierID: "v1"})
	b.SetPrevBlockVerificationTickets([]*block.VerificationTicket{{VerifierID: "p1"}})
	b.AddUniqueBlockExtension(nblock("e", 0))
	vt := b.GetVerificationTickets()
	vt[0].VerifierID = "changed"
	vt[0] = nil
	if g := b.GetVerificationTickets(); len(g) != 1 || g[0] == nil || g[0].VerifierID != "v1" {
		fails = append(fails, getterFail{"Block", "VerificationTickets", "GetVerificationTickets", "writing into the returned slice / ticket changed the block"})
	}
	pt := b.GetPrevBlockVerificationTickets()
	pt[0].VerifierID = "changed"
	if g := b.GetPrevBlockVerificationTickets(); len(g) != 1 || g[0].VerifierID != "p1" {
		fails = append(fails, getterFail{"UnverifiedBlockBody", "PrevBlockVerificationTickets", "GetPrevBlockVerificationTickets", "writing into the returned ticket changed the block"})
	}
	ue := b.GetUniqueBlockExtensions()
	ue["zzz"] = true
	if len(b.GetUniqueBlockExtensions()) != 1 {
		fails = append(fails, getterFail{"Block", "uniqueBlockExtensions", "GetUniqueBlockExtensions", "writing into the returned map changed the block"})
	}
	return fails
}

// ---------- slice aliasing across objects (outside the per-field lock table) ----------

// aliasScenario merges one ticket list with spare capacity into two blocks that hold no tickets
// (the fast path of MergeVerificationTickets keeps the caller's slice, so both blocks share one
// backing array), then merges a different ticket into each block, sequentially (conc = false) or
// from two goroutines. Property: each block ends up with exactly the shared tickets plus its own.
func aliasScenario(conc bool) string {
	mk := func(id string) *block.VerificationTicket { return &block.VerificationTicket{VerifierID: id} }
	shared := make([]*block.VerificationTicket, 2, 8)
	shared[0], shared[1] = mk("s1"), mk("s2")
	a, b := &block.Block{}, &block.Block{}
	a.MergeVerificationTickets(shared)
	b.MergeVerificationTickets(shared)
	if conc {
		done := make(chan struct{})
		go func() { a.MergeVerificationTickets([]*block.VerificationTicket{mk("a1")}); close(done) }()
		b.MergeVerificationTickets([]*block.VerificationTicket{mk("b1")})
		<-done
	} else {
		a.MergeVerificationTickets([]*block.VerificationTicket{mk("a1")})
		b.MergeVerificationTickets([]*block.VerificationTicket{mk("b1")})
	}
	ids := func(x *block.Block) string {
		var l []string
		for _, t := range x.GetVerificationTickets() {
			l = append(l, t.VerifierID)
		}
		return strings.Join(l, ",")
	}
	if ga, gb := ids(a), ids(b); ga != "s1,s2,a1" || gb != "s1,s2,b1" {
		return fmt.Sprintf("block A holds [%s] (expected s1,s2,a1), block B holds [%s] (expected s1,s2,b1)", ga, gb)
	}
	return ""
}

const aliasSig = "C44:slice-alias:Block.VerificationTickets:MergeVerificationTickets"
const aliasPair = "Block.VerificationTickets:alias/alias"

type Lock struct {
	Name string `json:"name"`
	Excl bool   `json:"excl"`
}
type Access struct {
	Type   string `json:"type"`
	Field  string `json:"field"`
	Method string `json:"method"`
	Write  bool   `json:"write"`
	Atomic bool   `json:"atomic"`
	Locks  []Lock `json:"locks"`
	Multi  bool   `json:"multi"`
	Pos    string `json:"pos"`
	Via    string `json:"via,omitempty"`
}
type Excl struct {
	Class  string `json:"class"`
	Kind   string `json:"kind"`
	Type   string `json:"type"`
	Field  string `json:"field"`
	Method string `json:"method"`
	Other  string `json:"other"`
	Why    string `json:"why"`
}

// the property statement, on two table rows
func conflict(a, b Access) bool {
	return a.Type == b.Type && a.Field == b.Field && (a.Write || b.Write) && !(a.Atomic && b.Atomic) &&
		(a.Method != b.Method || (a.Multi && b.Multi))
}
func commonLock(a, b Access) bool {
	for _, la := range a.Locks {
		for _, lb := range b.Locks {
			if la.Name == lb.Name && (la.Excl || lb.Excl) {
				return true
			}
		}
	}
	return false
}
func matches(e Excl, a, b Access) bool {
	switch e.Kind {
	case "method":
		return ((e.Type == "*" || e.Type == a.Type) && e.Method == a.Method) || ((e.Type == "*" || e.Type == b.Type) && e.Method == b.Method)
	case "field":
		return e.Type == a.Type && e.Field == a.Field
	case "pair":
		return e.Type == a.Type && e.Field == a.Field && ((e.Method == a.Method && e.Other == b.Method) || (e.Method == b.Method && e.Other == a.Method))
	}
	return false
}

type pairInfo struct {
	Sig     string   `json:"signature"`
	Type    string   `json:"type"`
	Field   string   `json:"field"`
	MethodA string   `json:"method_a"`
	MethodB string   `json:"method_b"`
	Sites   []string `json:"sites"`
	PosA    []string `json:"pos_a"`
	PosB    []string `json:"pos_b"`
	Listed  bool     `json:"listed_defect"`
	Stress  string   `json:"stress_cmd"`
	Race    string   `json:"race_report,omitempty"`
	Frames  []string `json:"race_frames,omitempty"`
}

func desc(a Access) string {
	k := "read"
	if a.Write {
		k = "write"
	}
	if a.Atomic {
		k = "atomic " + k
	}
	var ls []string
	for _, l := range a.Locks {
		m := "R"
		if l.Excl {
			m = "W"
		}
		ls = append(ls, l.Name+":"+m)
	}
	return fmt.Sprintf("%s %s at %s holding {%s}", a.Method, k, a.Pos, strings.Join(ls, ","))
}

func repoRoot() string {
	if r := os.Getenv("VERIF_REPO"); r != "" {
		return r
	}
	return "/repo"
}

// treeKey identifies the analysed sources (for the cached instrumented binary).
func treeKey() string {
	h := sha1.New()
	for _, f := range []string{"chaincore/round/entity.go", "chaincore/block/entity.go", "miner/protocol_block.go", "miner/verif_hooks_conc.go"} {
		b, _ := os.ReadFile(filepath.Join(repoRoot(), "code/go/0chain.net", f))
		h.Write(b)
	}
	for _, f := range []string{"/verif/harness/cmd/racestress/main.go", "/verif/harness/conch/env.go"} {
		b, _ := os.ReadFile(f)
		h.Write(b)
	}
	return hex.EncodeToString(h.Sum(nil))[:12]
}

func modfileArgs() []string {
	r := os.Getenv("VERIF_REPO")
	if r == "" || filepath.Clean(r) == "/repo" {
		return nil
	}
	h := sha1.Sum([]byte(r))
	return []string{"-modfile=" + filepath.Join("/verif/build/altmod", hex.EncodeToString(h[:])[:12], "go.mod")}
}

func raceBinary(build bool, rep *vh.Report) string {
	bin := filepath.Join("/verif/build/bin", "racestress-"+treeKey())
	if _, err := os.Stat(bin); err == nil {
		return bin
	}
	if !build {
		return ""
	}
	args := append([]string{"build", "-race"}, modfileArgs()...)
	args = append(args, "-tags", "verif", "-o", bin, "./cmd/racestress")
	cmd := exec.Command("go", args...)
	cmd.Dir = "/verif/harness"
	cmd.Env = append(os.Environ(), "GOWORK=off", "GOFLAGS=-mod=mod", "GOPROXY=off", "GOSUMDB=off", "GOTOOLCHAIN=local", "CGO_ENABLED=1")
	if out, err := cmd.CombinedOutput(); err != nil {
		rep.Note("building the race-instrumented stress binary failed: %v: %s", err, tail(string(out), 400))
		return ""
	}
	return bin
}

func appendUniq(l []string, s string) []string {
	for _, x := range l {
		if x == s {
			return l
		}
	}
	return append(l, s)
}

func has(l []string, s string) bool {
	for _, x := range l {
		if x == s {
			return true
		}
	}
	return false
}

func tail(s string, n int) string {
	if len(s) > n {
		return s[len(s)-n:]
	}
	return s
}

type raceRes struct {
	Pair   string   `json:"pair"`
	Race   bool     `json:"race"`
	Frames []string `json:"frames"`
	Report string   `json:"report"`
}

func runStress(bin string, sigs []string) map[string]raceRes {
	out := map[string]raceRes{}
	for i := 0; i < len(sigs); i += 8 {
		j := i + 8
		if j > len(sigs) {
			j = len(sigs)
		}
		cmd := exec.Command(bin, "-pairs", strings.Join(sigs[i:j], ","))
		var buf bytes.Buffer
		cmd.Stdout = &buf
		_ = cmd.Run()
		sc := bufio.NewScanner(&buf)
		sc.Buffer(make([]byte, 1<<20), 1<<22)
		for sc.Scan() {
			var r raceRes
			if json.Unmarshal(sc.Bytes(), &r) == nil && r.Pair != "" {
				out[r.Pair] = r
			}
		}
	}
	return out
}

func main() {
	o := vh.ParseFlags()
	rep := vh.NewReport("lockrace", "C44", o)
	rep.Rule = "one evaluation per (type, field) location of the generated access table; the property statement (every pair of conflicting, not-both-atomic accesses of different entries holds a common mutex, one side exclusively) is evaluated on every pair of rows of that location; non-trivial = the location has a write, at least two entry methods and at least one access under a mutex or atomic; distinct by location"
	data, err := os.ReadFile("/verif/coq/Gen/LockTable.json")
	if err != nil {
		panic(err)
	}
	var tbl struct {
		Table   []Access `json:"table"`
		Excl    []Excl   `json:"excl"`
		Returns []struct {
			Type, Field, Method, Pos string
		} `json:"returns"`
	}
	if err := json.Unmarshal(data, &tbl); err != nil {
		panic(err)
	}

	var only *pairInfo
	var rp pairInfo
	if o.LoadReplay(&rp) {
		only = &rp
	}

	benign := func(a, b Access) bool {
		for _, e := range tbl.Excl {
			if e.Class == "benign" && matches(e, a, b) {
				return true
			}
		}
		return false
	}
	listed := func(a, b Access) bool {
		for _, e := range tbl.Excl {
			if e.Class == "defect" && matches(e, a, b) {
				return true
			}
		}
		return false
	}

	// group rows by location
	byLoc := map[string][]Access{}
	var locs []string
	for _, a := range tbl.Table {
		k := a.Type + "." + a.Field
		if _, ok := byLoc[k]; !ok {
			locs = append(locs, k)
		}
		byLoc[k] = append(byLoc[k], a)
	}
	sort.Strings(locs)
	coqSigs := map[string]bool{} // ordered signatures, as Coq's lt_offenders prints them
	pairs := map[string]*pairInfo{}
	for _, k := range locs {
		rows := byLoc[k]
		methods := map[string]bool{}
		hasW, hasSync := false, false
		for _, a := range rows {
			methods[a.Method] = true
			hasW = hasW || a.Write
			hasSync = hasSync || a.Atomic || len(a.Locks) > 0
			rep.Count(map[bool]string{true: "write", false: "read"}[a.Write])
			if a.Atomic {
				rep.Count("atomic")
			}
			if len(a.Locks) > 0 {
				rep.Count("under-mutex")
			}
		}
		rep.Case(k, hasW && len(methods) >= 2 && hasSync, map[string]interface{}{"location": k, "rows": len(rows), "methods": len(methods)})
		for _, a := range rows {
			for _, b := range rows {
				if !conflict(a, b) {
					continue
				}
				rep.Count("conflicting-row-pairs")
				if commonLock(a, b) {
					rep.Count("protected-row-pairs")
					continue
				}
				if benign(a, b) {
					rep.Count("benign-excluded-row-pairs")
					continue
				}
				coqSigs[fmt.Sprintf("%s.%s:%s/%s", a.Type, a.Field, a.Method, b.Method)] = true
				ma, mb, da, db := a.Method, b.Method, desc(a), desc(b)
				if ma > mb {
					ma, mb, da, db = mb, ma, db, da
				}
				sig := fmt.Sprintf("%s.%s:%s/%s", a.Type, a.Field, ma, mb)
				p := pairs[sig]
				if p == nil {
					p = &pairInfo{Sig: "C44:" + sig, Type: a.Type, Field: a.Field, MethodA: ma, MethodB: mb, Listed: listed(a, b),
						Stress: "cd /verif/harness && go run -race -tags verif ./cmd/racestress -pairs '" + sig + "'"}
					pairs[sig] = p
				}
				pa, pb := a.Pos, b.Pos
				if a.Method > b.Method {
					pa, pb = pb, pa
				}
				p.PosA = appendUniq(p.PosA, pa)
				p.PosB = appendUniq(p.PosB, pb)
				if len(p.Sites) < 6 {
					s := da + "  ||  " + db
					dup := false
					for _, x := range p.Sites {
						dup = dup || x == s
					}
					if !dup {
						p.Sites = append(p.Sites, s)
					}
				}
			}
		}
	}
	var sigs []string
	for s := range pairs {
		sigs = append(sigs, s)
	}
	sort.Strings(sigs)
	rep.CountN("offending-pairs", len(sigs))

	// slice aliasing across two objects: cheap functional variant in every tier
	aliasFail := aliasScenario(false)
	rep.Case("alias:Block.VerificationTickets:sequential", true, map[string]string{"scenario": "merge-alias"})
	for i := 0; i < 200 && aliasFail == ""; i++ {
		aliasFail = aliasScenario(true)
	}
	rep.Case("alias:Block.VerificationTickets:concurrent", true, map[string]string{"scenario": "merge-alias"})
	rep.Count("alias-scenarios")

	// getters hand out copies: static fact from the translator + deterministic run on the real packages
	scratch, _ := os.MkdirTemp("/var/tmp/vs", "conc-lockrace-")
	cwd, _ := os.Getwd()
	_ = os.Chdir(scratch) // the node code logs into ./log
	sc.Init()
	round.SetupEntity(nil)
	block.SetupEntity(nil)
	getterViol := map[string]string{}
	for _, g := range tbl.Returns {
		getterViol["C44:getter-alias:"+g.Type+"."+g.Field+":"+g.Method] = fmt.Sprintf("%s returns the internal %s.%s by reference at %s (bare field / slice expression of a field that is written under the object's mutex): the caller reads it without the mutex", g.Method, g.Type, g.Field, g.Pos)
	}
	for _, g := range getterSnapshots() {
		k := "C44:getter-alias:" + g.typ + "." + g.field + ":" + g.method
		if d, ok := getterViol[k]; ok {
			getterViol[k] = d + "; observed: " + g.what
		} else {
			getterViol[k] = g.what
		}
	}
	rep.Case("getter-snapshots", true, map[string]string{"scenario": "getter-snapshots"})
	rep.CountN("getter-return-by-reference-facts", len(tbl.Returns))
	_ = os.Chdir(cwd)
	_ = os.RemoveAll(scratch)

	// search step: race detector
	wantBuild := o.Thorough() || os.Getenv("VERIF_RACE") == "1" || only != nil
	results := map[string]raceRes{}
	if bin := raceBinary(wantBuild, rep); bin != "" {
		run := sigs
		if only != nil {
			run = []string{strings.TrimPrefix(only.Sig, "C44:")}
			if only.Sig == aliasSig || strings.HasPrefix(only.Sig, "C44:getter-alias:") {
				run = nil
			}
		} else if !wantBuild {
			// quick tier with a cached binary: only pairs that are not already listed as defects
			run = nil
			for _, s := range sigs {
				if !pairs[s].Listed {
					run = append(run, s)
				}
			}
		}
		if only == nil || only.Sig == aliasSig {
			run = append(run, aliasPair)
		}
		if only == nil || strings.HasPrefix(only.Sig, "C44:getter-alias:Round.notarizedBlocks") {
			run = append(run, "Round.notarizedBlocks:getter0/getter0", "Round.notarizedBlocks:getter1/getter1", "Round.notarizedBlocks:getter2/getter2")
		}
		results = runStress(bin, run)
		rep.Note("race detector: instrumented stress binary %s ran %d pairs", filepath.Base(bin), len(run))
	} else {
		rep.Note("race detector: no instrumented stress binary cached for this tree (built in the thorough tier or with VERIF_RACE=1); violations are reported from the static table only")
	}
	confirmed := 0
	for _, s := range sigs {
		p := pairs[s]
		if only != nil && p.Sig != only.Sig {
			continue
		}
		if only != nil && (only.Sig == aliasSig || strings.HasPrefix(only.Sig, "C44:getter-alias:")) {
			continue
		}
		d := fmt.Sprintf("unsynchronised conflicting accesses to %s.%s: %s", p.Type, p.Field, strings.Join(p.Sites, " ; "))
		if r, ok := results[s]; ok {
			hit := ""
			for _, fr := range r.Frames {
				parts := strings.Split(fr, "|")
				if len(parts) < 4 {
					continue
				}
				x, y := parts[0], parts[1]
				fx, fy := strings.Split(parts[2], ";"), strings.Split(parts[3], ";")
				exact := (has(p.PosA, x) && has(p.PosB, y)) || (has(p.PosA, y) && has(p.PosB, x))
				byName := ((has(fx, p.MethodA) && has(fy, p.MethodB)) || (has(fx, p.MethodB) && has(fy, p.MethodA))) &&
					(has(p.PosA, x) || has(p.PosB, x) || has(p.PosA, y) || has(p.PosB, y))
				if exact || byName {
					hit = x + "|" + y
				}
			}
			if hit != "" {
				confirmed++
				p.Race, p.Frames = r.Report, r.Frames
				d += " -- confirmed by the Go race detector: DATA RACE between " + strings.Replace(hit, "|", " and ", 1)
			} else {
				d += " -- the generic stress program did not make the race detector report these two lines"
			}
		}
		rep.Violate(p.Sig, d, p)
	}
	rep.CountN("race-detector-confirmed", confirmed)
	if r, ok := results[aliasPair]; ok && r.Race && aliasFail == "" {
		aliasFail = "the race detector reports a data race while two goroutines merge tickets into two different blocks"
	}
	for _, gp := range []string{"Round.notarizedBlocks:getter0/getter0", "Round.notarizedBlocks:getter1/getter1", "Round.notarizedBlocks:getter2/getter2"} {
		if r, ok := results[gp]; ok && r.Race {
			k := "C44:getter-alias:Round.notarizedBlocks:GetNotarizedBlocks"
			getterViol[k] += fmt.Sprintf(" -- Go race detector (%s): DATA RACE at %s", gp, strings.Join(r.Frames, " ; "))
		}
	}
	var gks []string
	for k := range getterViol {
		gks = append(gks, k)
	}
	sort.Strings(gks)
	for _, k := range gks {
		if only != nil && only.Sig != k {
			continue
		}
		parts := strings.SplitN(strings.TrimPrefix(k, "C44:getter-alias:"), ":", 2)
		tf := strings.SplitN(parts[0], ".", 2)
		rep.Violate(k, strings.TrimSpace(getterViol[k]), &pairInfo{Sig: k, Type: tf[0], Field: tf[1], MethodA: parts[1], MethodB: "getter-snapshots",
			Stress: "cd /verif/harness && go run -race -tags verif ./cmd/racestress -pairs 'Round.notarizedBlocks:getter1/getter1'"})
	}
	if aliasFail != "" {
		d := "two Block objects that merged the same ticket list share its backing array and MergeVerificationTickets appends into it: " + aliasFail
		p := &pairInfo{Sig: aliasSig, Type: "Block", Field: "VerificationTickets", MethodA: "alias", MethodB: "alias",
			Stress: "cd /verif/harness && go run -race -tags verif ./cmd/racestress -pairs '" + aliasPair + "'"}
		if r, ok := results[aliasPair]; ok && r.Race {
			p.Race, p.Frames = r.Report, r.Frames
			d += " -- Go race detector: DATA RACE at " + strings.Join(r.Frames, " ; ")
		}
		rep.Violate(aliasSig, d, p)
	}

	// one Coq case: the set of offending signatures as computed here
	var cs []string
	for s := range coqSigs {
		cs = append(cs, s)
	}
	sort.Strings(cs)
	strs := make([]string, len(cs))
	for i, s := range cs {
		strs[i] = vh.Str(s)
	}
	cf := &vh.CasesFile{Imports: []string{"Base.Corr", "Model.Lockset", "Gen.LockTable", "Corr.Lockset"}, CaseType: "lsc_case", CheckFn: "lsc_check"}
	cf.Add(fmt.Sprintf("{| lsc_sigs := %s; lsc_rows := %s; lsc_excl := %s |}", vh.List(strs), vh.Nat(len(tbl.Table)), vh.Nat(len(tbl.Excl))))
	rep.CaseInputs = append(rep.CaseInputs, map[string]interface{}{"offending_signatures": cs})
	files, err := cf.Write(o.Out, "C44")
	if err != nil {
		panic(err)
	}
	rep.CaseFiles = files
	rep.ShardSize = 400
	rep.Exhaustive = true
	rep.Write(o.Out)
}
