package main

import (
	"fmt"
	"math/big"
	"sort"
)

// The executable oracles: each is the property statement evaluated on the enumerated real
// state before/after one transaction. They return "" or a stable failure kind.

func sortedLabels(m map[int]*AllocProj) []int {
	out := make([]int, 0, len(m))
	for l := range m {
		out = append(out, l)
	}
	sort.Ints(out)
	return out
}

// C12: for every open allocation the challenge pool balance equals the sum of the per-blobber
// outstanding values; a closed allocation has no pool left.
func checkC12(r *Run, pre, post *Snap, st StepObs) (string, string) {
	for _, l := range sortedLabels(post.Allocs) {
		a := post.Allocs[l]
		if a == nil {
			continue
		}
		if a.Owner == -2 {
			return "pool-survives-close-after-" + st.Kind, fmt.Sprintf("allocation %d removed but its challenge pool node remains with %d", l, a.CP)
		}
		if a.Enterprise {
			continue
		}
		if !a.HasCP {
			return "pool-missing-after-" + st.Kind, fmt.Sprintf("open allocation %d has no challenge pool", l)
		}
		sum := new(big.Int)
		for _, d := range a.BAs {
			sum.Add(sum, new(big.Int).SetUint64(d.CPIV))
		}
		if sum.Cmp(new(big.Int).SetUint64(a.CP)) != 0 {
			return "cp-ne-sum-after-" + st.Kind, fmt.Sprintf("allocation %d: challenge pool %d != sum of blobber values %s", l, a.CP, sum)
		}
	}
	return "", ""
}

func check(prop string, r *Run, pre, post *Snap, st StepObs) (string, string) {
	switch prop {
	case "C12":
		return checkC12(r, pre, post, st)
	}
	return "", ""
}
