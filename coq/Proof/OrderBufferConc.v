(* Concurrent use of the order buffer: lock discipline (from the generated table) and
   interleavings of whole operations. *)
From ZC Require Import Model.OrderBuffer Proof.OrderBuffer Gen.OrderBufferLocks Model.OrderBufferLocks Proof.LockAtomic.
Open Scope Z_scope.

Lemma ob_table_disciplined : ob_disciplined ob_methods = true /\ ob_has_api ob_methods = true.
Proof. split; vm_compute; reflexivity. Qed.

(* [interleave ts l]: l is a merge of the lists ts preserving each list's order. *)
Inductive interleave {A} : list (list A) -> list A -> Prop :=
| il_done : forall ts, Forall (fun t => t = []) ts -> interleave ts []
| il_step : forall ts1 x t ts2 l,
    interleave (ts1 ++ t :: ts2) l -> interleave (ts1 ++ (x :: t) :: ts2) (x :: l).

Lemma interleave_complete {A} (ts : list (list A)) l :
  interleave ts l -> forall t, In t ts -> forall o, In o t -> In o l.
Proof.
  induction 1 as [ts Hall | ts1 x t ts2 l Hil IH]; intros t' Ht o Ho.
  - rewrite Forall_forall in Hall. rewrite (Hall _ Ht) in Ho. destruct Ho.
  - apply in_app_or in Ht. destruct Ht as [Ht|[Ht|Ht]].
    + right. apply (IH t'); [apply in_or_app; left; exact Ht | exact Ho].
    + subst t'. destruct Ho as [Ho|Ho]; [left; exact Ho|].
      right. apply (IH t); [apply in_or_app; right; left; reflexivity | exact Ho].
    + right. apply (IH t'); [apply in_or_app; right; right; exact Ht | exact Ho].
Qed.

Lemma ob_concurrent_use max (threads : list (list ob_op)) ops :
  interleave threads ops ->
  let b := fst (ob_run (ob_new max) ops) in
  ob_sorted (ob_items b) /\ (length (ob_items b) <= max)%nat /\
  ~ In OutFuel (snd (ob_run (ob_new max) ops)) /\
  (forall t, In t threads -> forall o, In o t -> In o ops).
Proof.
  intros Hil b. destruct (ob_reachable_sorted_and_bounded max ops) as (H1 & H2 & H3).
  repeat split; try assumption. apply interleave_complete. exact Hil.
Qed.

(* Micro-step semantics with the mutex (Proof/LockAtomic.v) instantiated with the buffer operations:
   whatever the schedule of lock/read and write/unlock steps of any number of goroutines, the shared
   buffer is the sequential run of the operations in the order of their write steps, hence sorted and
   within capacity. *)
Lemma ob_locked_schedule_inv max (progs : list (list ob_op)) (sched : list nat) :
  let w := run_sched _ _ _ ob_step (init_world _ _ (ob_new max) progs) sched in
  w_shared _ _ w = fst (ob_run (ob_new max) (w_log _ _ w)) /\
  ob_sorted (ob_items (w_shared _ _ w)) /\ (length (ob_items (w_shared _ _ w)) <= max)%nat.
Proof.
  intros w.
  assert (H : w_shared _ _ w = fst (ob_run (ob_new max) (w_log _ _ w))).
  { unfold w. rewrite (locked_ops_are_atomic _ _ _ ob_step). unfold seq_run. rewrite ob_run_fst. reflexivity. }
  split; [exact H|]. rewrite H.
  destruct (ob_reachable_sorted_and_bounded max (w_log _ _ w)) as (H1 & H2 & _). split; assumption.
Qed.
