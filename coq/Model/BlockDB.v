(* Model of sharder/blockdb/{db,index}.go and of the sharder/blockstore FSStore write/read path
   (property C26), at byte level.  Definitions only; proofs are in Proof/BlockDB.v.

   Files are lists of bytes (Z in 0..255).  The data file is a sequence of records
   [int32-LE length ++ payload]; the header file is [mapIndex.Encode ++ dbHeader bytes].
   A reopened database uses fixedKeyArrayIndex, whose GetOffset is transcribed with explicit
   fuel, including the `break` statements that only leave the `switch`. *)
From Coq Require Export List ZArith Bool Arith Lia.
Export ListNotations.
Open Scope Z_scope.

Notation bd_bytes := (list Z) (only parsing).

(* ---------- encoding/binary, little endian ---------- *)

(* n low bytes of z, two's complement for negative z (Z's floor div/mod) *)
Fixpoint bd_le (n : nat) (z : Z) : bd_bytes :=
  match n with
  | O => []
  | S k => (z mod 256) :: bd_le k (z / 256)
  end.

Fixpoint bd_unle (l : bd_bytes) : Z :=
  match l with
  | [] => 0
  | b :: tl => b + 256 * bd_unle tl
  end.

(* reinterpret an unsigned [bits]-bit value as signed *)
Definition bd_signed (bits : Z) (u : Z) : Z :=
  if u <? 2 ^ (bits - 1) then u else u - 2 ^ bits.

Definition bd_slice (l : bd_bytes) (from len : nat) : bd_bytes := firstn len (skipn from l).

(* bytes.Compare / Go string < : lexicographic, shorter prefix first *)
Fixpoint bd_cmp (a b : bd_bytes) : comparison :=
  match a, b with
  | [], [] => Eq
  | [], _ :: _ => Lt
  | _ :: _, [] => Gt
  | x :: a', y :: b' =>
      match Z.compare x y with
      | Eq => bd_cmp a' b'
      | c => c
      end
  end.

(* ---------- mapIndex (index while the database is being written) ---------- *)

(* map[Key]int64; iteration order is unobservable because Encode sorts by key, so the map is
   kept as an association list sorted by key (SetOffset on an existing key overwrites). *)
Definition bd_mapidx := list (bd_bytes * Z).

Fixpoint bd_ins (k : bd_bytes) (o : Z) (m : bd_mapidx) : bd_mapidx :=
  match m with
  | [] => [(k, o)]
  | (k', o') :: tl =>
      match bd_cmp k k' with
      | Lt => (k, o) :: m
      | Eq => (k, o) :: tl
      | Gt => (k', o') :: bd_ins k o tl
      end
  end.

Definition bd_entry (ko : bd_bytes * Z) : bd_bytes :=
  bd_le 1 (Z.of_nat (length (fst ko))) ++ fst ko ++ bd_le 8 (snd ko).

Definition bd_index_body (m : bd_mapidx) : bd_bytes := flat_map bd_entry m.

(* mapIndex.Encode: int32 numKeys, then per key (sorted): int8 klen, key bytes, int64 offset *)
Definition bd_index_encode (m : bd_mapidx) : bd_bytes :=
  bd_le 4 (Z.of_nat (length m)) ++ bd_index_body m.

(* ---------- fixedKeyArrayIndex (index of a reopened database) ---------- *)

(* getKeySize: keylen + 1 + 8 (int8 in Go; the model is used for keylen <= 118 only) *)
Definition bd_ksz (klen : nat) : nat := (klen + 9)%nat.

Definition bd_numkeys (buf : bd_bytes) (klen : nat) : Z :=
  Z.of_nat (length buf) / Z.of_nat (bd_ksz klen).

Definition bd_entry_key (buf : bd_bytes) (klen : nat) (i : Z) : bd_bytes :=
  bd_slice buf (Z.to_nat (Z.of_nat (bd_ksz klen) * i) + 1) klen.

Definition bd_entry_off (buf : bd_bytes) (klen : nat) (i : Z) : Z :=
  bd_signed 64 (bd_unle (bd_slice buf (Z.to_nat (Z.of_nat (bd_ksz klen) * i) + 1 + klen) 8)).

Inductive bd_lookup := BdFound (off : Z) | BdNotFound | BdOutOfFuel.

(* GetOffset, the Go loop as it is:
     for lo, hi := 0, numKeys-1; lo <= hi; {
       mid := (lo + hi) / 2
       switch bytes.Compare(entry key at mid, key) {
       case 0:  return offset
       case -1: if lo == hi { break }; lo = mid + 1      // break leaves the switch only
       case 1:  if lo == hi { break }; hi = mid - 1 } }
     return ErrKeyNotFound *)
Fixpoint bd_get_go (fuel : nat) (buf : bd_bytes) (klen : nat) (key : bd_bytes) (lo hi : Z) : bd_lookup :=
  match fuel with
  | O => BdOutOfFuel
  | S f =>
      if lo <=? hi then
        let mid := Z.quot (lo + hi) 2 in
        match bd_cmp (bd_entry_key buf klen mid) key with
        | Eq => BdFound (bd_entry_off buf klen mid)
        | Lt => if lo =? hi then bd_get_go f buf klen key lo hi
                else bd_get_go f buf klen key (mid + 1) hi
        | Gt => if lo =? hi then bd_get_go f buf klen key lo hi
                else bd_get_go f buf klen key lo (mid - 1)
        end
      else BdNotFound
  end.

Definition bd_get_offset (fuel : nat) (buf : bd_bytes) (klen : nat) (key : bd_bytes) : bd_lookup :=
  bd_get_go fuel buf klen key 0 (bd_numkeys buf klen - 1).

(* The same loop with `break` leaving the loop (labelled break): the repair proposed for F-26. *)
Fixpoint bd_get_fix (fuel : nat) (buf : bd_bytes) (klen : nat) (key : bd_bytes) (lo hi : Z) : bd_lookup :=
  match fuel with
  | O => BdOutOfFuel
  | S f =>
      if lo <=? hi then
        let mid := Z.quot (lo + hi) 2 in
        match bd_cmp (bd_entry_key buf klen mid) key with
        | Eq => BdFound (bd_entry_off buf klen mid)
        | Lt => if lo =? hi then BdNotFound else bd_get_fix f buf klen key (mid + 1) hi
        | Gt => if lo =? hi then BdNotFound else bd_get_fix f buf klen key lo (mid - 1)
        end
      else BdNotFound
  end.

Definition bd_get_offset_fix (fuel : nat) (buf : bd_bytes) (klen : nat) (key : bd_bytes) : bd_lookup :=
  bd_get_fix fuel buf klen key 0 (bd_numkeys buf klen - 1).

(* fuel that suffices whenever the loop terminates at all (Proof: bd_fuel_enough) *)
Definition bd_fuel (buf : bd_bytes) (klen : nat) : nat := Z.to_nat (bd_numkeys buf klen) + 2.

(* ---------- Open: fixedKeyArrayIndex.Decode on the header file ---------- *)

Inductive bd_open_res :=
| BdOpened (buf rest : bd_bytes)   (* index buffer, remaining bytes (the dbHeader part) *)
| BdOpenErr                        (* Open returns an error *)
| BdOpenPanic.                     (* make([]byte, negative) *)

Definition bd_open (klen : nat) (h : bd_bytes) : bd_open_res :=
  if Nat.ltb (length h) 4 then BdOpenErr            (* binary.Read: EOF / unexpected EOF *)
  else
    let nk := bd_signed 32 (bd_unle (firstn 4 h)) in
    (* sz := int(numKeys * int32(ksz)): int32 multiplication wraps *)
    let sz := bd_signed 32 ((nk * Z.of_nat (bd_ksz klen)) mod 2 ^ 32) in
    let body := skipn 4 h in
    if sz <? 0 then BdOpenPanic
    else if sz =? 0 then BdOpened [] body           (* Read into an empty slice: 0, nil *)
    else if Z.of_nat (length body) <? sz then BdOpenErr   (* EOF or short read *)
    else BdOpened (firstn (Z.to_nat sz) body) (skipn (Z.to_nat sz) body).

(* ---------- Read of one record from the data file ---------- *)

Inductive bd_read_res :=
| BdRec (stored : bd_bytes)   (* the stored (possibly compressed) payload *)
| BdReadNotFound
| BdReadErr
| BdReadPanic                 (* make([]byte, negative dlen) *)
| BdReadFuel.                 (* GetOffset did not return *)

Definition bd_read_at (data : bd_bytes) (off : Z) : bd_read_res :=
  if off <? 0 then BdReadErr                          (* Seek: invalid argument *)
  else if Z.of_nat (length data) <? off then BdReadErr  (* Seek past the end, then EOF *)
  else
    let d := skipn (Z.to_nat off) data in
    if Nat.ltb (length d) 4 then BdReadErr
    else
      let dlen := bd_signed 32 (bd_unle (firstn 4 d)) in
      let p := skipn 4 d in
      if dlen <? 0 then BdReadPanic
      else if Z.of_nat (length p) <? dlen then BdReadErr   (* io.ReadFull *)
      else BdRec (firstn (Z.to_nat dlen) p).

Definition bd_read_with (look : bd_lookup) (data : bd_bytes) : bd_read_res :=
  match look with
  | BdOutOfFuel => BdReadFuel
  | BdNotFound => BdReadNotFound
  | BdFound off => bd_read_at data off
  end.

Definition bd_read (fuel : nat) (klen : nat) (buf data key : bd_bytes) : bd_read_res :=
  bd_read_with (bd_get_offset fuel buf klen key) data.

Definition bd_read_fix (fuel : nat) (klen : nat) (buf data key : bd_bytes) : bd_read_res :=
  bd_read_with (bd_get_offset_fix fuel buf klen key) data.

(* ---------- writing: Create, WriteData*, Save ---------- *)

Record bd_db := { bd_data : bd_bytes; bd_idx : bd_mapidx }.

Definition bd_create : bd_db := {| bd_data := []; bd_idx := [] |}.

(* WriteData with the stored payload (after Record.Encode and optional compression):
   offset = current end of the data file; index[key] = offset; append int32 length ++ payload *)
Definition bd_write (db : bd_db) (key stored : bd_bytes) : bd_db :=
  {| bd_data := bd_data db ++ bd_le 4 (Z.of_nat (length stored)) ++ stored;
     bd_idx := bd_ins key (Z.of_nat (length (bd_data db))) (bd_idx db) |}.

Definition bd_write_all (db : bd_db) (ws : list (bd_bytes * bd_bytes)) : bd_db :=
  fold_left (fun d w => bd_write d (fst w) (snd w)) ws db.

(* Create does not truncate: when a data file [old] was left at the same path (by a writer that
   died before Save), the new bytes replace its beginning (the file position starts at 0 and
   WriteData takes its offsets from the position) and the rest of [old] stays behind them. *)
Definition bd_data_over (old : bd_bytes) (written : bd_bytes) : bd_bytes :=
  written ++ skipn (length written) old.

(* Save: header file = index ++ stored dbHeader bytes (empty when there is no dbHeader) *)
Definition bd_header_file (db : bd_db) (hdr : bd_bytes) : bd_bytes := bd_index_encode (bd_idx db) ++ hdr.

(* the payload most recently written under [key] *)
Fixpoint bd_last_written (ws : list (bd_bytes * bd_bytes)) (key : bd_bytes) : option bd_bytes :=
  match ws with
  | [] => None
  | (k, p) :: tl =>
      match bd_last_written tl key with
      | Some q => Some q
      | None => match bd_cmp k key with Eq => Some p | _ => None end
      end
  end.

Definition bd_prefix (a b : bd_bytes) : Prop := exists c, b = a ++ c.

(* ---------- compression and record codec: assumed components ---------- *)

Section BdCodec.
  (* zstd (blockdb) / zlib (blockstore); not modelled, assumed to round trip *)
  Variable comp : bd_bytes -> bd_bytes.
  Variable decomp : bd_bytes -> option bd_bytes.

  Definition bd_store (compress : bool) (p : bd_bytes) : bd_bytes := if compress then comp p else p.
  Definition bd_load (compress : bool) (s : bd_bytes) : option bd_bytes := if compress then decomp s else Some s.

  Definition bd_stored_ws (compress : bool) (ws : list (bd_bytes * bd_bytes)) : list (bd_bytes * bd_bytes) :=
    map (fun w => (fst w, bd_store compress (snd w))) ws.

  (* Read as the caller sees it: the encoded record before Record.Decode *)
  Definition bd_read_rec (compress : bool) (r : bd_read_res) : option bd_bytes :=
    match r with
    | BdRec s => bd_load compress s
    | _ => None
    end.

  (* ---- blockstore.BlockStore (FSStore): one file per block hash ---- *)
  Variable blk : Type.
  Variable blk_hash : blk -> bd_bytes.
  Variable blk_mb_hash : blk -> option bd_bytes.   (* Some h: b.MagicBlock != nil && b.Round == StartingRound *)
  Variable blk_enc : blk -> bd_bytes.               (* datastore.WriteMsgpack *)
  Variable blk_dec : bd_bytes -> option blk.        (* datastore.ReadMsgpack *)

  (* the directory tree as a map path -> content; getBlockFilePath is injective on hashes of
     length >= 5 without path separators, so files are keyed by the hash itself *)
  Definition bs_fs := list (bd_bytes * bd_bytes).

  Definition bs_key_eqb (a b : bd_bytes) : bool := match bd_cmp a b with Eq => true | _ => false end.

  Fixpoint bs_get (fs : bs_fs) (h : bd_bytes) : option bd_bytes :=
    match fs with
    | [] => None
    | (k, c) :: tl => if bs_key_eqb k h then Some c else bs_get tl h
    end.

  (* os.Create truncates: the new content replaces the old *)
  Definition bs_put (fs : bs_fs) (h c : bd_bytes) : bs_fs := (h, c) :: fs.

  Definition bs_file (b : blk) : bd_bytes := comp (blk_enc b).

  (* BlockStore.Write *)
  Definition bs_write (fs : bs_fs) (b : blk) : bs_fs :=
    let fs1 := bs_put fs (blk_hash b) (bs_file b) in
    match blk_mb_hash b with
    | Some mh => bs_put fs1 mh (bs_file b)
    | None => fs1
    end.

  (* BlockStore.Read with the no-op cache: readFromDisk *)
  Definition bs_read (fs : bs_fs) (h : bd_bytes) : option blk :=
    match bs_get fs h with
    | None => None
    | Some c => match decomp c with Some x => blk_dec x | None => None end
    end.

  (* the block most recently written under hash h (own hash or magic-block hash) *)
  Fixpoint bs_last (bs : list blk) (h : bd_bytes) : option blk :=
    match bs with
    | [] => None
    | b :: tl =>
        match bs_last tl h with
        | Some x => Some x
        | None =>
            match blk_mb_hash b with
            | Some mh => if bs_key_eqb mh h then Some b
                         else if bs_key_eqb (blk_hash b) h then Some b else None
            | None => if bs_key_eqb (blk_hash b) h then Some b else None
            end
        end
    end.
End BdCodec.
