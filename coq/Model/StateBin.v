(* Model of the fixed binary layout of the client state leaf, chaincore/state/state.go
   State.Encode / State.Decode (property C08).  Definitions only. *)
From Coq Require Export List ZArith Bool Arith Lia.
Export ListNotations.
Open Scope Z_scope.

Fixpoint sb_le (n : nat) (z : Z) : list Z :=
  match n with O => [] | S k => (z mod 256) :: sb_le k (z / 256) end.
Fixpoint sb_unle (l : list Z) : Z :=
  match l with [] => 0 | b :: tl => b + 256 * sb_unle tl end.
Definition sb_signed64 (u : Z) : Z := if u <? 2 ^ 63 then u else u - 2 ^ 64.

(* TxnHashBytes (None = nil slice), Round int64, Balance uint64 (currency.Coin), Nonce int64.
   TxnHash (the hex string) is derived by ComputeProperties and not part of the layout. *)
Record sb_state := { sb_hash : option (list Z); sb_round : Z; sb_balance : Z; sb_nonce : Z }.

Inductive sb_enc_res := SbBytes (b : list Z) | SbPanic.

(* Encode: panics on a nil hash; writes the hash bytes whatever their number, then three
   little-endian 64-bit words *)
Definition sb_encode (s : sb_state) : sb_enc_res :=
  match sb_hash s with
  | None => SbPanic
  | Some h => SbBytes (h ++ sb_le 8 (sb_round s) ++ sb_le 8 (sb_balance s) ++ sb_le 8 (sb_nonce s))
  end.

(* Decode as it was before fix 8b489e6 in /repo: exactly 32 hash bytes, then three words; trailing bytes ignored.
   Kept as the inner step of the repaired decoder. *)
Definition sb_decode_lax (b : list Z) : option sb_state :=
  if Nat.ltb (length b) 32 then None
  else
    let h := firstn 32 b in
    let r := skipn 32 b in
    if Nat.ltb (length r) 24 then None
    else Some {| sb_hash := Some h;
                 sb_round := sb_signed64 (sb_unle (firstn 8 r));
                 sb_balance := sb_unle (firstn 8 (skipn 8 r));
                 sb_nonce := sb_signed64 (sb_unle (firstn 8 (skipn 16 r))) |}.

(* Decode (since 8b489e6): a value that does not have exactly the 32+3*8 bytes Encode writes is not a client state *)
Definition sb_decode (b : list Z) : option sb_state :=
  if Nat.eqb (length b) 56 then sb_decode_lax b else None.
