(* C47: Client signatures verify exactly for the signing key (idealised algebra; unforgeability is a
   hardness assumption and is NOT claimed). Only statements; each is closed by [exact] of a lemma
   in Proof/SigAlg.v, Proof/HashEnc.v or Proof/HashFields.v.
   F: any commutative ring without zero divisors (the scalar field of the group), with a boolean
   equality. BLS: public key x.g2 ~ x, H(m) ~ unit vector m. ed25519: Schnorr over the same scalars
   with an abstract challenge hash hc. *)
From ZC Require Import Model.SigAlg Proof.SigAlg Model.HashEnc Proof.HashEnc Gen.HashFields Proof.HashFields.
From Coq Require Import Ring.

(* --- BLS (bls0chain.go) --- *)
Theorem C47_bls_sign_verify : forall F f0 f1 fadd fmul fsub fopp feqb,
  sg_scalars F f0 f1 fadd fmul fsub fopp feqb ->
  forall n x m, bls_verify F f0 f1 fmul feqb n x m (bls_sign F f0 f1 fmul x m) = true.
Proof. exact sgb_bls_sign_verify. Qed.
Print Assumptions C47_bls_sign_verify.

Theorem C47_bls_other_key_fails : forall F f0 f1 fadd fmul fsub fopp feqb,
  sg_scalars F f0 f1 fadd fmul fsub fopp feqb ->
  forall n x x' m, (m < n)%nat -> x <> x' ->
  bls_verify F f0 f1 fmul feqb n x' m (bls_sign F f0 f1 fmul x m) = false.
Proof. exact sgb_bls_other_key_fails. Qed.
Print Assumptions C47_bls_other_key_fails.

Theorem C47_bls_other_hash_fails : forall F f0 f1 fadd fmul fsub fopp feqb,
  sg_scalars F f0 f1 fadd fmul fsub fopp feqb ->
  forall n x m m', (m < n)%nat -> m <> m' -> x <> f0 ->
  bls_verify F f0 f1 fmul feqb n x m' (bls_sign F f0 f1 fmul x m) = false.
Proof. exact sgb_bls_other_hash_fails. Qed.
Print Assumptions C47_bls_other_hash_fails.

Theorem C47_bls_tampered_signature_fails : forall F f0 f1 fadd fmul fsub fopp feqb,
  sg_scalars F f0 f1 fadd fmul fsub fopp feqb ->
  forall n x m d i, (i < n)%nat -> d i <> f0 ->
  bls_verify F f0 f1 fmul feqb n x m (sg_add F fadd (bls_sign F f0 f1 fmul x m) d) = false.
Proof. exact sgb_bls_tampered_signature_fails. Qed.
Print Assumptions C47_bls_tampered_signature_fails.

(* --- ed25519 (ed25519.go) as Schnorr --- *)
Theorem C47_ed_sign_verify : forall F f0 f1 fadd fmul fsub fopp feqb,
  sg_scalars F f0 f1 fadd fmul fsub fopp feqb ->
  forall hc a r m, ed_verify F fadd fmul feqb hc a m (ed_sign F fadd fmul hc a r m) = true.
Proof. exact sgb_ed_sign_verify. Qed.
Print Assumptions C47_ed_sign_verify.

(* the challenge hash is idealised: products hc.a do not collide across keys *)
Theorem C47_ed_other_key_fails : forall F f0 f1 fadd fmul fsub fopp feqb,
  sg_scalars F f0 f1 fadd fmul fsub fopp feqb ->
  forall hc a a' r m, fmul (hc r a m) a <> fmul (hc r a' m) a' ->
  ed_verify F fadd fmul feqb hc a' m (ed_sign F fadd fmul hc a r m) = false.
Proof. exact sgb_ed_other_key_fails. Qed.
Print Assumptions C47_ed_other_key_fails.

Theorem C47_ed_other_hash_fails : forall F f0 f1 fadd fmul fsub fopp feqb,
  sg_scalars F f0 f1 fadd fmul fsub fopp feqb ->
  forall hc a r m m', a <> f0 -> hc r a m <> hc r a m' ->
  ed_verify F fadd fmul feqb hc a m' (ed_sign F fadd fmul hc a r m) = false.
Proof. exact sgb_ed_other_hash_fails. Qed.
Print Assumptions C47_ed_other_hash_fails.

Theorem C47_ed_tampered_S_fails : forall F f0 f1 fadd fmul fsub fopp feqb,
  sg_scalars F f0 f1 fadd fmul fsub fopp feqb ->
  forall hc a r m d, d <> f0 ->
  ed_verify F fadd fmul feqb hc a m
    (fst (ed_sign F fadd fmul hc a r m), fadd (snd (ed_sign F fadd fmul hc a r m)) d) = false.
Proof. exact sgb_ed_tampered_S_fails. Qed.
Print Assumptions C47_ed_tampered_S_fails.

(* --- client id --- *)
(* every place that derives or checks a client id (generated from the Go source) hashes the
   public key bytes; Client.Validate accepts exactly ids equal to that hash *)
Theorem C47_client_id_is_hash_of_key :
  map idr_fn hf_client_id =
    ["client.Client.Validate"; "client.Client.computePublicKeyBytes"; "client.GetIDFromPublicKey";
     "encryption.VerifyPublicKeyClientID"]%string /\
  forallb (fun r => match idr_form r with IdHashOfHexDecode | IdHashOfBytes => true end) hf_client_id = true.
Proof. exact hf_client_id_sites. Qed.
Print Assumptions C47_client_id_is_hash_of_key.

Theorem C47_client_validate : forall id key_hash,
  cl_validate id key_hash = true <-> (id <> ""%string /\ id = key_hash).
Proof. exact cl_validate_spec. Qed.
Print Assumptions C47_client_validate.

(* Non-vacuity over Z_r: a key signs, verifies, and fails under another key / hash *)
Example C47_example :
  let v := bls_verify Z 0%Z 1%Z (zq_mul sx_r) (fun a b => Z.eqb a b) 4 in
  let s := bls_sign Z 0%Z 1%Z (zq_mul sx_r) in
  v (sx_key 0) 1%nat (s (sx_key 0) 1%nat) = true /\
  v (sx_key 1) 1%nat (s (sx_key 0) 1%nat) = false /\
  v (sx_key 0) 2%nat (s (sx_key 0) 1%nat) = false.
Proof. vm_compute. repeat split; reflexivity. Qed.
