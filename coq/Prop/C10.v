(* C10: Reward distribution splits the amount exactly.
   Model: Model/StakePool.v (DistributeRewards, DistributeRewardsRandN, equallyDistributeRewards).
   Only statements; each is closed by [exact] of a lemma in Proof/StakePool.v. *)
From ZC Require Import Model.StakePool Proof.StakePool.
Open Scope Z_scope.

(* ---- the full statement, and why it is false of the code as it is ---- *)

Definition C10_ratio_in_unit (r : f64) : Prop := sp_ratio_in_unit r.

(* "service charge + delegate increments = paid amount", for the float64 code of the Go
   implementation, any well-formed pool whose rewards still fit in uint64, any ratio in [0,1] *)
Definition C10_full_statement : Prop :=
  forall sp value sp' total,
    sp_wf sp -> 0 <= value -> sp_total_rewards sp + value < sp_max ->
    C10_ratio_in_unit (ss_charge (sp_set sp)) ->
    sp_stake sp = Some total -> value <> 0 -> sp_killed sp = false -> ss_minstake (sp_set sp) <= total ->
    sp_distribute sp_chargef_go sp_sharef_go sp value = SpOk sp' ->
    sp_total_rewards sp' = sp_total_rewards sp + value.

(* F-10a: ratio 1, value 2^53+3: float64(value) = 2^53+4, the charge exceeds the value,
   value - charge wraps and 2^64 + value is credited; the deferred assertion passes mod 2^64 *)
Theorem C10_charge_wrap_refuted : ~ C10_full_statement.
Proof. exact sp_full_statement_refuted. Qed.
Print Assumptions C10_charge_wrap_refuted.

(* the same for the random-N variant; here a second trigger exists: when the selected pools
   have no stake only the service charge is credited and the function still succeeds *)
Definition C10_randn_full_statement : Prop :=
  forall sp value n draws sp' total,
    sp_wf sp -> 0 <= value -> sp_total_rewards sp + value < sp_max ->
    C10_ratio_in_unit (ss_charge (sp_set sp)) ->
    NoDup (sp_selection n draws (length (sp_pools sp))) ->
    Forall (fun i => (i < length (sp_pools sp))%nat) (sp_selection n draws (length (sp_pools sp))) ->
    sp_stake sp = Some total -> value <> 0 -> sp_killed sp = false -> ss_minstake (sp_set sp) <= total ->
    sp_distribute_randn sp_chargef_go sp_sharef_go sp value n draws = SpOk sp' ->
    sp_total_rewards sp' = sp_total_rewards sp + value.

Theorem C10_randn_zero_stake_refuted : ~ C10_randn_full_statement.
Proof. exact sp_randn_full_statement_refuted. Qed.
Print Assumptions C10_randn_zero_stake_refuted.

(* ---- what holds: exact split outside exactly these triggers, for EVERY float rounding ---- *)

(* DistributeRewards: for arbitrary results of the two float computations ([chargef], [sharef]),
   provided the charge does not exceed the value: never panics; a killed / under-staked provider
   or a zero value changes nothing; otherwise provider increment + delegate increments = value,
   only rewards change (sp_cred), and no reward decreases. *)
Theorem C10_distribute_exact_partial :
  forall (chargef : f64 -> Z -> option Z) (sharef : Z -> Z -> Z -> option Z),
  (forall a b c r, sharef a b c = Some r -> 0 <= r) ->
  forall sp value,
  sp_wf sp -> 0 <= value -> sp_total_rewards sp + value < sp_max ->
  (forall c, chargef (ss_charge (sp_set sp)) value = Some c -> 0 <= c <= value) ->
  sp_distribute chargef sharef sp value <> SpPanic /\
  forall sp', sp_distribute chargef sharef sp value = SpOk sp' ->
    exists total, sp_stake sp = Some total /\
      if (value =? 0) || sp_killed sp || (total <? ss_minstake (sp_set sp)) then sp' = sp
      else sp_total_rewards sp' = sp_total_rewards sp + value /\
           sp_reward sp <= sp_reward sp' /\
           (exists e, sp_cred (sp_pools sp) e (sp_pools sp')) /\
           sp_set sp' = sp_set sp /\ sp_killed sp' = sp_killed sp.
Proof. exact sp_distribute_exact. Qed.
Print Assumptions C10_distribute_exact_partial.

(* the same with the concrete Go floats: the only remaining hypothesis is charge <= value *)
Theorem C10_distribute_exact_go_partial :
  forall sp value,
  sp_wf sp -> 0 <= value -> sp_total_rewards sp + value < sp_max ->
  (forall c, sp_chargef_go (ss_charge (sp_set sp)) value = Some c -> c <= value) ->
  sp_distribute sp_chargef_go sp_sharef_go sp value <> SpPanic /\
  forall sp', sp_distribute sp_chargef_go sp_sharef_go sp value = SpOk sp' ->
    exists total, sp_stake sp = Some total /\
      if (value =? 0) || sp_killed sp || (total <? ss_minstake (sp_set sp)) then sp' = sp
      else sp_total_rewards sp' = sp_total_rewards sp + value /\
           sp_reward sp <= sp_reward sp' /\
           (exists e, sp_cred (sp_pools sp) e (sp_pools sp')) /\
           sp_set sp' = sp_set sp /\ sp_killed sp' = sp_killed sp.
Proof. exact sp_distribute_exact_go. Qed.
Print Assumptions C10_distribute_exact_go_partial.

(* DistributeRewardsRandN: pools outside the selection (at most N of them are selected) keep
   their reward; the total is exact, except that when the selected pools hold no stake only the
   service charge is credited (less than value, nothing created). *)
Theorem C10_randn_exact_partial :
  forall (chargef : f64 -> Z -> option Z) (sharef : Z -> Z -> Z -> option Z),
  (forall a b c r, sharef a b c = Some r -> 0 <= r) ->
  forall sp value n draws,
  sp_wf sp -> 0 <= value -> sp_total_rewards sp + value < sp_max ->
  (forall c, chargef (ss_charge (sp_set sp)) value = Some c -> 0 <= c <= value) ->
  let sel := sp_selection n draws (length (sp_pools sp)) in
  NoDup sel -> Forall (fun i => (i < length (sp_pools sp))%nat) sel ->
  sp_distribute_randn chargef sharef sp value n draws <> SpPanic /\
  forall sp', sp_distribute_randn chargef sharef sp value n draws = SpOk sp' ->
    exists total, sp_stake sp = Some total /\
      if (value =? 0) || sp_killed sp || (total <? ss_minstake (sp_set sp)) then sp' = sp
      else
        sp_reward sp <= sp_reward sp' /\ sp_set sp' = sp_set sp /\ sp_killed sp' = sp_killed sp /\
        (exists e, sp_cred (sp_pools sp) e (sp_pools sp') /\ forall j, ~ In j sel -> nth j e 0 = 0) /\
        (sp_total_rewards sp' = sp_total_rewards sp + value \/
         (sp_pools sp <> [] /\
          sp_stake_sum (map (fun i => nth i (sp_pools sp) sp_dflt) sel) 0 = Some 0 /\
          sp_total_rewards sp <= sp_total_rewards sp' < sp_total_rewards sp + value /\
          sp_pools sp' = sp_pools sp)).
Proof. exact sp_distribute_randn_spec. Qed.
Print Assumptions C10_randn_exact_partial.

(* at most N pools are selected (rand.Perm(..)[:n] has n entries; n >= len selects all) *)
Theorem C10_randn_at_most_n :
  forall n draws len, length draws = Z.to_nat n -> 0 <= n ->
  Z.of_nat (length (sp_selection n draws len)) <= n.
Proof. exact sp_selection_len. Qed.
Print Assumptions C10_randn_at_most_n.

(* a killed or under-staked provider (or a zero payment) receives nothing, in both variants *)
Theorem C10_killed_or_understaked_gets_nothing :
  forall chargef sharef sp value total n draws,
  sp_stake sp = Some total ->
  value = 0 \/ sp_killed sp = true \/ total < ss_minstake (sp_set sp) ->
  sp_distribute chargef sharef sp value = SpOk sp /\
  sp_distribute_randn chargef sharef sp value n draws = SpOk sp.
Proof. exact sp_skip_gets_nothing. Qed.
Print Assumptions C10_killed_or_understaked_gets_nothing.

(* each delegate's share is proportional to its stake up to rounding: if the float product is
   within eps of the exact share, every increment is within (n+1)*eps + 1 of value_left*b_i/stake *)
Theorem C10_share_proportional :
  forall (chargef : f64 -> Z -> option Z) (sharef : Z -> Z -> Z -> option Z) (eps : Z),
  0 <= eps ->
  (forall a b c r, sharef a b c = Some r -> 0 <= r) ->
  (forall vl b s r, 0 < s -> sharef vl b s = Some r -> Z.abs (r * s - vl * b) <= eps * s) ->
  forall sp value sp' charge incs stake,
  sp_wf sp -> 0 < value -> sp_total_rewards sp + value < sp_max ->
  (forall c, chargef (ss_charge (sp_set sp)) value = Some c -> 0 <= c <= value) ->
  sp_stake sp = Some stake ->
  sp_distribute_body chargef sharef sp value = SpOk (sp', charge, incs) -> sp_pools sp <> [] ->
  exists e, sp_cred (sp_pools sp) e (sp_pools sp') /\ sp_sum e = value - charge /\
    forall i, (i < length (sp_pools sp))%nat ->
      Z.abs (nth i e 0 * stake - (value - charge) * dp_bal (nth i (sp_pools sp) sp_dflt))
      <= ((Z.of_nat (length (sp_pools sp)) + 1) * eps + 1) * stake.
Proof. exact sp_share_proportional. Qed.
Print Assumptions C10_share_proportional.

(* Non-vacuity: the run of the real code on value 1000, ratio 0.3, stakes 1,2,3 (credited
   300 + 117 + 233 + 350) satisfies all hypotheses of the theorems above. *)
Example C10_example :
  let sp := {| sp_pools := [ {| dp_id := 1; dp_bal := 1; dp_reward := 0; dp_status := 0; dp_staked_at := 0 |};
                             {| dp_id := 2; dp_bal := 2; dp_reward := 0; dp_status := 0; dp_staked_at := 0 |};
                             {| dp_id := 3; dp_bal := 3; dp_reward := 0; dp_status := 0; dp_staked_at := 0 |} ];
               sp_reward := 0;
               sp_set := {| ss_wallet := 9; ss_maxdel := 10; ss_minstake := 0;
                            ss_charge := f64_of_bits 4599075939470750515 |};
               sp_killed := false |} in
  match sp_distribute sp_chargef_go sp_sharef_go sp 1000 with
  | SpOk sp' => sp_reward sp' = 300 /\ map dp_reward (sp_pools sp') = [117; 233; 350]
  | _ => False
  end /\ sp_chargef_go (ss_charge (sp_set sp)) 1000 = Some 300.
Proof. vm_compute. repeat split; reflexivity. Qed.
