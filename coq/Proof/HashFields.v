(* Facts about the GENERATED tables Gen/HashFields.v (regenerated from the Go source on every run):
   shape checks decided by computation, and the generic theorems of Proof/HashEnc.v specialised to
   them. A change of Block.getHashData / Transaction.HashData changes the table and these are
   re-checked. *)
From ZC Require Import Model.HashEnc Proof.HashEnc Gen.HashFields.
Open Scope string_scope.

(* ---------- Block ---------- *)

Lemma hf_block_shape : he_tbl_ok hf_block = true /\ he_merkle_ok hf_block = true.
Proof. vm_compute. split; reflexivity. Qed.

Lemma hf_block_commits : forall Hash mh leaf, he_ideal Hash mh leaf ->
  forall o1 o2 h,
    he_raw_ok hf_block o1 -> he_raw_ok hf_block o2 -> he_txns_wf leaf o1 -> he_txns_wf leaf o2 ->
    he_hash Hash (he_mroot mh) hf_block o1 = Some h ->
    he_hash Hash (he_mroot mh) hf_block o2 = Some h ->
    forall e, In e hf_block ->
      he_piece Hash (he_mroot mh) e o1 = he_piece Hash (he_mroot mh) e o2 /\
      (he_piece Hash (he_mroot mh) e o1 <> Some None -> he_eff e o1 = he_eff e o2).
Proof.
  intros Hash mh leaf (A & B & C & D & E & F) o1 o2 h.
  destruct hf_block_shape as [S1 S2].
  exact (he_hash_commits_to_listed_fields Hash mh leaf A B C D E F hf_block o1 o2 h S1 S2).
Qed.

(* exactly one required field is absent from the hashed data: the resulting state *)
Lemma hf_block_missing : he_missing hf_block C29_required = ["ClientStateHash"].
Proof. vm_compute. reflexivity. Qed.

Lemma hf_block_required_not_all_covered : he_missing hf_block C29_required <> [].
Proof. rewrite hf_block_missing. discriminate. Qed.

Lemma hf_block_covered_except_state : forall f, In f C29_required -> f <> "ClientStateHash" ->
  he_mem f (he_covered hf_block) = true.
Proof.
  intros f Hin Hne. destruct (he_mem f (he_covered hf_block)) eqn:M; [reflexivity|exfalso].
  assert (In f (he_missing hf_block C29_required)).
  { unfold he_missing. apply filter_In. split; [assumption|]. rewrite M. reflexivity. }
  rewrite hf_block_missing in H. destruct H as [E|[]]. congruence.
Qed.

(* the state hash can be replaced by anything without changing the block hash *)
Lemma hf_block_state_hash_free : forall Hash mroot o v,
  he_hash Hash mroot hf_block (he_upd o "ClientStateHash" v) = he_hash Hash mroot hf_block o.
Proof.
  intros. apply he_hash_ext. intros q Hq. apply he_upd_other. intro E. subst q.
  revert Hq. apply he_mem_false_not_in. vm_compute. reflexivity.
Qed.

Definition hf_block_example (mbhash mbcontents : string) : he_obj :=
  he_obj_of [("MinerID", VStr "5a1c"); ("PrevHash", VStr "77ab"); ("CreationDate", VInt 1700000000);
             ("Round", VInt 7); ("RoundRandomSeed", VInt (-3)); ("StateChangesCount", VInt 2);
             ("Txns[].Hash", VList ["t1"; "t2"; "t3"]); ("Txns[].OutputHash", VList ["o1"; "o2"; "o3"]);
             ("MagicBlock", VStr ""); ("MagicBlock.Hash", VStr mbhash);
             ("MagicBlock.GetHash()", VStr mbcontents)].

(* the magic block is committed to through its stored Hash string only: with a non-empty stored
   hash, different contents (different GetHash()) give the same block hash; with an empty stored
   hash the contents are hashed *)
Lemma hf_block_magic_block_contents_free : forall Hash mroot,
  he_hash Hash mroot hf_block (hf_block_example "aa" "aa") =
  he_hash Hash mroot hf_block (hf_block_example "aa" "bb") /\
  he_hash Hash mroot hf_block (hf_block_example "aa" "aa") <> None.
Proof. intros. vm_compute. split; [reflexivity|discriminate]. Qed.

Lemma hf_block_magic_block_lazy : forall Hash mroot,
  he_data Hash mroot hf_block (hf_block_example "" "bb") =
  he_data Hash mroot hf_block (hf_block_example "bb" "zz").
Proof. intros. vm_compute. reflexivity. Qed.

(* non-vacuity: the example object is well formed and its hash data is what Go would print *)
Lemma hf_block_example_data : forall Hash mroot,
  he_data Hash mroot hf_block (hf_block_example "aa" "aa") =
  Some ("5a1c:77ab:1700000000:7:-3:2:" ++ mroot ["t1"; "t2"; "t3"] ++ ":" ++ mroot ["o1"; "o2"; "o3"] ++ ":aa").
Proof. intros. vm_compute. reflexivity. Qed.

(* what the engine's field mutation should observe, per the table *)
Lemma hf_block_binds_examples :
  he_binds hf_block false "Round" = true /\ he_binds hf_block false "ClientStateHash" = false /\
  he_binds hf_block false "MagicBlock.GetHash()" = false /\
  he_binds hf_block true "MagicBlock.GetHash()" = true /\
  he_binds hf_block false "Txns[].Hash" = true /\ he_binds hf_block false "Txns[].Fee" = false.
Proof. vm_compute. repeat split; reflexivity. Qed.

(* ---------- Transaction ---------- *)

Lemma hf_txn_shape : he_tbl_ok hf_txn = true /\ he_merkle_ok hf_txn = true.
Proof. vm_compute. split; reflexivity. Qed.

Lemma hf_txn_commits : forall Hash mh leaf, he_ideal Hash mh leaf ->
  forall o1 o2 h,
    he_raw_ok hf_txn o1 -> he_raw_ok hf_txn o2 -> he_txns_wf leaf o1 -> he_txns_wf leaf o2 ->
    he_hash Hash (he_mroot mh) hf_txn o1 = Some h ->
    he_hash Hash (he_mroot mh) hf_txn o2 = Some h ->
    forall e, In e hf_txn ->
      he_piece Hash (he_mroot mh) e o1 = he_piece Hash (he_mroot mh) e o2 /\
      (he_piece Hash (he_mroot mh) e o1 <> Some None -> he_eff e o1 = he_eff e o2).
Proof.
  intros Hash mh leaf (A & B & C & D & E & F) o1 o2 h.
  destruct hf_txn_shape as [S1 S2].
  exact (he_hash_commits_to_listed_fields Hash mh leaf A B C D E F hf_txn o1 o2 h S1 S2).
Qed.

Lemma hf_txn_missing : he_missing hf_txn C30_required = ["Fee"; "TransactionType"].
Proof. vm_compute. reflexivity. Qed.

Lemma hf_txn_required_not_all_covered : he_missing hf_txn C30_required <> [].
Proof. rewrite hf_txn_missing. discriminate. Qed.

Lemma hf_txn_covered_except_fee_type : forall f, In f C30_required ->
  f <> "Fee" -> f <> "TransactionType" -> he_mem f (he_covered hf_txn) = true.
Proof.
  intros f Hin N1 N2. destruct (he_mem f (he_covered hf_txn)) eqn:M; [reflexivity|exfalso].
  assert (In f (he_missing hf_txn C30_required)).
  { unfold he_missing. apply filter_In. split; [assumption|]. rewrite M. reflexivity. }
  rewrite hf_txn_missing in H. destruct H as [E|[E|[]]]; congruence.
Qed.

Lemma hf_txn_no_merkle : he_no_merkle hf_txn = true.
Proof. vm_compute. reflexivity. Qed.

Lemma hf_txn_tampered_rejected : forall Hash mroot,
  (forall a b, Hash a = Hash b -> a = b) -> (forall s, he_nocolon (Hash s) = true) ->
  (forall l, he_nocolon (mroot l) = true) ->
  forall env o o',
    he_raw_ok hf_txn (tx_hashed Hash mroot hf_txn env o) ->
    he_raw_ok hf_txn (tx_hashed Hash mroot hf_txn env o') ->
    he_hash Hash mroot hf_txn (tx_hashed Hash mroot hf_txn env o) <> None ->
    he_hash Hash mroot hf_txn (tx_hashed Hash mroot hf_txn env o') <> None ->
    he_str o' "Hash" = he_str o "Hash" ->
    (exists e, In e hf_txn /\
       he_eff e (tx_hashed Hash mroot hf_txn env o) <> he_eff e (tx_hashed Hash mroot hf_txn env o')) ->
    tx_accept (tx_in_of Hash mroot hf_txn env o) = TxOk ->
    tx_accept (tx_in_of Hash mroot hf_txn env o') <> TxOk.
Proof.
  intros Hash mroot A B C env o o' R1 R2 D1 D2 HH (e & Hin & Hd).
  destruct hf_txn_shape as [S1 _].
  apply (tx_tampered_listed_field_rejected Hash mroot A B C hf_txn S1 hf_txn_no_merkle env o o'
           R1 R2 D1 D2 HH).
  exists e. split; [assumption|]. split; [|assumption].
  (* no entry of the transaction table is guarded, so every piece is written *)
  apply he_piece_unguarded.
  clear Hd. revert e Hin. apply Forall_forall. vm_compute. repeat constructor.
Qed.

(* fee and type are neither hashed nor looked at by validation: any value passes *)
Lemma hf_txn_fee_free : forall Hash mroot env o v,
  tx_accept (tx_in_of Hash mroot hf_txn env (he_upd o "Fee" v)) =
  tx_accept (tx_in_of Hash mroot hf_txn env o).
Proof. intros. apply tx_unread_field_not_bound. vm_compute. reflexivity. Qed.

(* the type is read only by the JSON well-formedness check of ComputeProperties *)
Lemma hf_txn_type_free : forall Hash mroot env o v,
  txe_sc_ok env v (o "TransactionData") = txe_sc_ok env (o "TransactionType") (o "TransactionData") ->
  tx_accept (tx_in_of Hash mroot hf_txn env (he_upd o "TransactionType" v)) =
  tx_accept (tx_in_of Hash mroot hf_txn env o).
Proof.
  intros Hash mroot env o v Hsc. f_equal. unfold tx_in_of.
  repeat match goal with
  | |- context [he_str (he_upd o "TransactionType" v) ?p] =>
      change (he_str (he_upd o "TransactionType" v) p) with (he_str o p)
  end.
  change (he_upd o "TransactionType" v "TransactionType") with v.
  change (he_upd o "TransactionType" v "TransactionData") with (o "TransactionData").
  rewrite Hsc.
  set (c := if (he_str o "ClientID" =? "")%string then _ else _).
  rewrite (he_hash_ext Hash mroot hf_txn (he_upd (he_upd o "TransactionType" v) "ClientID" (VStr c))
             (he_upd o "ClientID" (VStr c))); [reflexivity|].
  intros q Hq. unfold he_upd at 1 3. destruct (String.eqb q "ClientID"); [reflexivity|].
  apply he_upd_other. intro Eq. subst q. revert Hq. apply he_mem_false_not_in. vm_compute. reflexivity.
Qed.

(* a concrete accepted transaction, and the same with another fee / type: both accepted *)
Definition hf_txn_example (fee ty : Z) : he_obj :=
  he_obj_of [("CreationDate", VInt 1700000000); ("Nonce", VInt 4); ("ClientID", VStr "c1");
             ("ToClientID", VStr "d2"); ("Value", VInt 500); ("TransactionData", VStr "{}");
             ("PublicKey", VStr "pk"); ("Signature", VStr "sg"); ("Fee", VInt fee);
             ("TransactionType", VInt ty)].

Definition hf_env_ok : tx_env :=
  {| txe_chain_ok := true; txe_in_time := true; txe_is_hash := fun _ => true;
     txe_key_id := fun _ => Some "c1"; txe_sig := fun _ _ _ => Some true;
     txe_sc_ok := fun _ _ => true |}.

Definition hf_with_hash Hash mroot (o : he_obj) : he_obj :=
  he_upd o "Hash" (VStr (match he_hash Hash mroot hf_txn o with Some h => h | None => "" end)).

Lemma hf_txn_example_accepted : forall Hash mroot fee ty, (forall s, Hash s <> "") ->
  tx_accept (tx_in_of Hash mroot hf_txn hf_env_ok (hf_with_hash Hash mroot (hf_txn_example fee ty))) = TxOk.
Proof.
  intros Hash mroot fee ty Hnz. unfold tx_accept, tx_compute_properties, tx_validate_wrt_time.
  cbn.
  match goal with |- context [String.eqb ?h ""] =>
    destruct (String.eqb_spec h ""); [exfalso; eapply Hnz; eassumption|] end.
  rewrite String.eqb_refl. reflexivity.
Qed.

(* ---------- client id ---------- *)

(* all four derivation sites are present and every one hashes the public key bytes *)
Lemma hf_client_id_sites :
  map idr_fn hf_client_id =
    ["client.Client.Validate"; "client.Client.computePublicKeyBytes"; "client.GetIDFromPublicKey";
     "encryption.VerifyPublicKeyClientID"] /\
  forallb (fun r => match idr_form r with IdHashOfHexDecode | IdHashOfBytes => true end) hf_client_id = true.
Proof. vm_compute. split; reflexivity. Qed.

(* no method of Client leaves a key / id field changed without recomputing the id from the stored
   key (the list is regenerated from chaincore/client on every run) *)
Lemma hf_client_key_writes_ok : forallb he_pkrule_ok hf_client_key_writes = true.
Proof. vm_compute. reflexivity. Qed.

Lemma hf_client_key_writes_nonempty : hf_client_key_writes <> [].
Proof. vm_compute. discriminate. Qed.
