(* Client threshold keys (core/encryption BLS0GenerateThresholdKeyShares / BLS0ChainReconstruction),
   a reusable statement over the algebraic module of Model/DKG.v (no engine-specific dependency):
   a key sk is split into n shares with threshold T: share k (k = 1..n) is f(k) for the polynomial
   f = sk + c_1 X + ... + c_(T-1) X^(T-1) (GetMasterSecretKey(T)), its id is k.
   Scalars: any field F in which 1..n do not vanish; G1, G2, GT F-modules, g2 the public-key
   generator, H the hash to G1, e a map linear in both arguments (idealised pairing). *)
From mathcomp Require Import all_ssreflect ssralg poly.
From ZC Require Import Model.DKG Proof.DKG.
Set Implicit Arguments.
Unset Strict Implicit.
Unset Printing Implicit Defensive.
Import GRing.Theory.
Local Open Scope ring_scope.

Section ThresholdSig.
Variable F : fieldType.
Variables G1 G2 GT : lmodType F.
Variable g2 : G2.
Variable M : Type.
Variable H : M -> G1.
Variable e : G1 -> G2 -> GT.
Hypothesis e_linl : forall a x y, e (a *: x) y = a *: e x y.
Hypothesis e_linr : forall a x y, e x (a *: y) = a *: e x y.

Variable n : nat.
Hypothesis ids_nz : forall k, (0 < k <= n)%N -> k%:R != 0 :> F.

(* the share signatures handed to the reconstruction: shares S (numbers in 1..n) sign m *)
Definition thr_share_sigs (poly : seq F) (S : seq nat) (m : M) : seq (F * G1) :=
  [seq (k%:R, dkg_sign H (dkg_share poly k%:R) m) | k <- S].

(* the value fewer (or any number of) shares interpolate to at 0 *)
Definition thr_interp (poly : seq F) (S : seq nat) : F :=
  let ids := [seq k%:R : F | k <- S] in \sum_(i <- ids) dkg_lag0 ids i * dkg_share poly i.

Lemma thr_natr_inj : {in [pred k | 0 < k <= n]%N &, injective (fun k => k%:R : F)}.
Proof.
move=> a b; rewrite !inE.
wlog: a b / (a <= b)%N => [hw|ab] ain bin eqab.
  case/orP: (leq_total a b) => ab; first exact: hw.
  by apply/esym; apply: hw.
apply/eqP; rewrite eqn_leq ab /= leqNgt; apply/negP => ltab.
have: (b - a)%:R == 0 :> F by rewrite natrB // eqab subrr.
apply/negP; apply: ids_nz; rewrite subn_gt0 ltab /=.
by case/andP: bin => _ bn; apply: leq_trans (leq_subr _ _) bn.
Qed.

Lemma thr_ids_ok (S : seq nat) :
  uniq S -> all (fun k => 0 < k <= n)%N S ->
  uniq [seq k%:R : F | k <- S] /\ 0 \notin [seq k%:R : F | k <- S].
Proof.
move=> uS /allP inS; split.
  rewrite map_inj_in_uniq // => a b ain bin; apply: thr_natr_inj; rewrite inE; exact: inS.
apply/negP => /mapP[k kin /esym /eqP]; apply/negP; apply: ids_nz; exact: inS.
Qed.

Lemma thr_share_sigsE poly S m :
  thr_share_sigs poly S m = dkg_sig_shares H [:: poly] [seq k%:R : F | k <- S] m.
Proof.
rewrite /thr_share_sigs /dkg_sig_shares -map_comp; apply: eq_map => k /=.
by rewrite /dkg_sk big_seq1.
Qed.

(* any list of distinct shares reconstructs the signature of the interpolated value *)
Lemma thr_reconstruct_value poly S m :
  (0 < size S)%N -> uniq S -> all (fun k => 0 < k <= n)%N S ->
  dkg_recover (thr_share_sigs poly S m) = Some (dkg_sign H (thr_interp poly S) m).
Proof.
move=> pos uS inS; have [uq nz] := thr_ids_ok uS inS.
set ids := [seq k%:R : F | k <- S] in uq nz.
have gen : dkg_recover_gen (thr_share_sigs poly S m) = Some (dkg_sign H (thr_interp poly S) m).
  rewrite /dkg_recover_gen thr_share_sigsE dkg_unzip1_shares uq nz /=.
  rewrite /dkg_sig_shares big_map /thr_interp -/ids /dkg_sign scaler_suml.
  by congr Some; apply: eq_bigr => i _; rewrite scalerA /dkg_sk big_seq1.
case: S pos uS inS @ids uq nz gen => [//|a [|b S]] _ uS inS ids uq nz gen; last first.
  by rewrite dkg_recoverE.
by rewrite /thr_share_sigs /= /thr_interp /= big_seq1 dkg_lag0_single mul1r.
Qed.

Section Main.
Variable sk : F.                 (* the original secret key, public key dkg_pub g2 sk *)
Variable cs : seq F.             (* the other T-1 coefficients *)
Let poly := sk :: cs.
Let T := size poly.

(* (a) ANY T (or more) distinct share signatures reconstruct the original key's signature, which
       verifies under the ORIGINAL public key *)
Lemma thr_T_shares_verify (S : seq nat) (m : M) :
  uniq S -> all (fun k => 0 < k <= n)%N S -> (T <= size S)%N ->
  dkg_recover (thr_share_sigs poly S m) = Some (dkg_sign H sk m) /\
  dkg_verify g2 H e (dkg_pub g2 sk) m (dkg_sign H sk m).
Proof.
move=> uS inS sz; have [uq nz] := thr_ids_ok uS inS.
split; last exact: dkg_sign_verifies.
have pos : (0 < size [seq k%:R : F | k <- S])%N by rewrite size_map (leq_trans _ sz).
have := @dkg_recover_any_t_subset F G1 M H [:: poly] _ m pos uq nz.
rewrite /= size_map sz /= thr_share_sigsE => -> //.
by rewrite /dkg_gsk big_seq1.
Qed.

(* (b) any distinct shares, in particular fewer than T: what they reconstruct verifies under the
       original public key exactly when the interpolated value is the key itself, i.e. when the
       reconstruction coincides with the original key's signature (e(H m, g2) <> 0) *)
Lemma thr_any_shares_verify_iff (S : seq nat) (m : M) :
  e (H m) g2 != 0 ->
  (0 < size S)%N -> uniq S -> all (fun k => 0 < k <= n)%N S ->
  exists sig, [/\ dkg_recover (thr_share_sigs poly S m) = Some sig,
                  dkg_verify g2 H e (dkg_pub g2 sk) m sig = (thr_interp poly S == sk) &
                  (sig == dkg_sign H sk m) = (thr_interp poly S == sk)].
Proof.
move=> nd pos uS inS; exists (dkg_sign H (thr_interp poly S) m).
have hm : H m != 0.
  by apply/eqP => h0; move/eqP: nd; apply; rewrite h0 -(scale0r (0 : G1)) e_linl scale0r.
split; first exact: thr_reconstruct_value.
  rewrite /dkg_verify /dkg_sign /dkg_pub e_linl e_linr -subr_eq0 -scalerBl scaler_eq0.
  by rewrite (negbTE nd) orbF subr_eq0.
by rewrite /dkg_sign -subr_eq0 -scalerBl scaler_eq0 (negbTE hm) orbF subr_eq0.
Qed.

End Main.
End ThresholdSig.

(* The exported statement. *)
Theorem C34_threshold_signature_of_T_valid_shares_verifies :
  forall (F : fieldType) (G1 G2 GT : lmodType F) (g2 : G2) (M : Type) (H : M -> G1)
         (e : G1 -> G2 -> GT),
    (forall a x y, e (a *: x) y = a *: e x y) -> (forall a x y, e x (a *: y) = a *: e x y) ->
  forall (n : nat), (forall k, (0 < k <= n)%N -> k%:R != 0 :> F) ->
  forall (sk : F) (cs : seq F) (m : M),
    let poly := sk :: cs in          (* GetMasterSecretKey(T): T = size poly coefficients *)
    let T := size poly in
    (* any T distinct shares among 1..n *)
    (forall S : seq nat, uniq S -> all (fun k => 0 < k <= n)%N S -> (T <= size S)%N ->
       dkg_recover (thr_share_sigs H poly S m) = Some (dkg_sign H sk m) /\
       dkg_verify g2 H e (dkg_pub g2 sk) m (dkg_sign H sk m)) /\
    (* any distinct shares, in particular fewer than T *)
    (e (H m) g2 != 0 ->
     forall S : seq nat, (0 < size S)%N -> uniq S -> all (fun k => 0 < k <= n)%N S ->
       exists sig, [/\ dkg_recover (thr_share_sigs H poly S m) = Some sig,
                       dkg_verify g2 H e (dkg_pub g2 sk) m sig = (thr_interp poly S == sk) &
                       (sig == dkg_sign H sk m) = (thr_interp poly S == sk)]).
Proof.
move=> F G1 G2 GT g2 M H e el er n nz sk cs m poly T; split.
  by move=> S; apply: thr_T_shares_verify.
by move=> nd S; apply: thr_any_shares_verify_iff.
Qed.
Print Assumptions C34_threshold_signature_of_T_valid_shares_verifies.
