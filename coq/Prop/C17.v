(* C17: Faucet pours respect the per-client and global limits.
   Only statements; each is closed by [exact] of a lemma in Proof/Faucet.v.
   The model follows smartcontract/faucetsc as written: validPourRequest compares
   pour_amount with the limits and the balance, pour then moves the requested value when
   0 < value < max_pour_amount. The full statement is therefore false of the code (witness
   below); it is proved for every history with no request strictly between pour_amount and
   max_pour_amount. *)
From ZC Require Import Model.Faucet Proof.Faucet.
Open Scope Z_scope.

(* Full statement: for every valid configuration and every history of pour / refill /
   update-settings requests (any clients, values, timestamps, balances), within each reset
   window (windows recomputed from the observable trace, see the fcs definitions in Model/Faucet.v)
   a client never receives more than periodic_limit, all clients together never more than
   global_limit, and no pour exceeds the faucet balance it was served from. *)
Definition C17_full_statement : Prop :=
  forall cfg ops, fc_cfg_wf cfg -> fc_validate cfg = true -> Forall fc_op_wf ops ->
    let evs := snd (fc_run (fc_init cfg) ops) in
    (forall c, fcs_client_within c None evs) /\
    fcs_global_within (fc_zero_time, 0) evs /\
    Forall fcs_pour_within_balance evs.

(* False of the code as it is: pour 10 / max 100 / periodic 100 / global 100, faucet holds 50,
   one client asks for 50 and then 99 one second later: receives 149 in one window. *)
Theorem C17_limits_refuted : ~ C17_full_statement.
Proof. exact fc_refuted. Qed.
Print Assumptions C17_limits_refuted.

(* the same witness breaks each of the three parts *)
Theorem C17_each_part_refuted :
  let evs := snd (fc_run (fc_init fc_wit_cfg) fc_wit_ops) in
  ~ (forall c, fcs_client_within c None evs) /\ ~ fcs_global_within (fc_zero_time, 0) evs /\
  ~ Forall fcs_pour_within_balance evs.
Proof. exact fc_refuted_each. Qed.
Print Assumptions C17_each_part_refuted.

(* Outside exactly that trigger the statement holds, for all configurations accepted by
   validate, all histories (including update-settings and refills, any timestamps, any
   balances): *)
Theorem C17_limits_partial :
  forall cfg ops, fc_validate cfg = true ->
    let evs := snd (fc_run (fc_init cfg) ops) in
    (forall e, In e evs -> ~ fc_unchecked_value e) ->
    (forall c, fcs_client_within c None evs) /\
    fcs_global_within (fc_zero_time, 0) evs /\
    Forall fcs_pour_within_balance evs.
Proof. exact fc_partial. Qed.
Print Assumptions C17_limits_partial.

(* update-settings never installs a configuration rejected by validate *)
Theorem C17_config_stays_valid :
  forall ops cfg, fc_validate cfg = true -> fc_validate (fs_cfg (fst (fc_run (fc_init cfg) ops))) = true.
Proof. exact fc_reachable_valid. Qed.
Print Assumptions C17_config_stays_valid.

(* a refused request changes nothing *)
Theorem C17_refused_changes_nothing :
  forall st o st1, fc_step st o = (st1, FcFail) -> st1 = st.
Proof. exact fc_fail_noop. Qed.
Print Assumptions C17_refused_changes_nothing.

(* Non-vacuity: a history outside the trigger in which pours succeed, the periodic limit then
   refuses, the window restarts, a refill and a settings update happen. *)
Example C17_example :
  let cfg := {| fc_pour := 10; fc_max := 20; fc_plimit := 25; fc_glimit := 40;
                fc_ireset := 60 * fc_second; fc_greset := 120 * fc_second |} in
  map ev_out (snd (fc_run (fc_init cfg)
    [FcPour 1 1000 0 (Some 500); FcPour 1 1001 7 (Some 490); FcPour 1 1002 200 (Some 483);
     FcPour 2 1003 10 (Some 483); FcPour 2 1004 10 (Some 473); FcRefill 3 1005 5 (Some 9);
     FcUpdate true 1006 true [(FGLimit, 1000)]; FcPour 1 1070 10 (Some 9); FcPour 1 1071 10 (Some 500)]))
  = [FcPoured 10; FcPoured 7; FcFail; FcPoured 10; FcPoured 10; FcRefilled 5; FcUpdated; FcFail; FcPoured 10]
  /\ fc_validate cfg = true.
Proof. vm_compute. split; reflexivity. Qed.
