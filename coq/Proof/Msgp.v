(* Proofs about the msgp wire-format model (property C08): every primitive reader inverts its
   writer, Skip passes over every encoded value, and decoding inverts encoding for every schema. *)
From ZC Require Import Model.Msgp.
From Coq Require Import ZifyBool ZifyNat.
Open Scope Z_scope.

(* ---------- bytes ---------- *)

Lemma mp_le_length n : forall z, length (mp_le n z) = n.
Proof. induction n as [|n IH]; intros z; cbn; [reflexivity|]. rewrite IH. reflexivity. Qed.

Lemma mp_be_length n z : length (mp_be n z) = n.
Proof. unfold mp_be. rewrite rev_length. apply mp_le_length. Qed.

Lemma mp_unle_le n : forall z, mp_unle (mp_le n z) = z mod 2 ^ (8 * Z.of_nat n).
Proof.
  induction n as [|n IH]; intros z.
  - cbn. rewrite Z.mod_1_r. reflexivity.
  - cbn [mp_le mp_unle]. rewrite IH.
    replace (8 * Z.of_nat (S n)) with (8 + 8 * Z.of_nat n) by lia.
    rewrite Z.pow_add_r by lia. change (2 ^ 8) with 256.
    rewrite Z.rem_mul_r by (try lia; apply Z.pow_pos_nonneg; lia). reflexivity.
Qed.

Lemma mp_unbe_be n z : mp_unbe (mp_be n z) = z mod 2 ^ (8 * Z.of_nat n).
Proof. unfold mp_unbe, mp_be. rewrite rev_involutive. apply mp_unle_le. Qed.

Lemma mp_take_app x r n : n = length x -> mp_take n (x ++ r) = Some (x, r).
Proof.
  intros ->. unfold mp_take.
  destruct (Nat.ltb_spec (length (x ++ r)) (length x)) as [H|_]; [rewrite app_length in H; lia|].
  f_equal. f_equal.
  - induction x; cbn; [reflexivity|]. f_equal. assumption.
  - induction x; cbn; auto.
Qed.

Lemma mp_take_z_app x r n : n = Z.of_nat (length x) -> mp_take_z n (x ++ r) = Some (x, r).
Proof.
  intros ->. unfold mp_take_z.
  destruct (Z.ltb_spec (Z.of_nat (length (x ++ r))) (Z.of_nat (length x))) as [H|_]; [rewrite app_length in H; lia|].
  apply mp_take_app. lia.
Qed.

Lemma mp_rd_fixed_be n z r : 0 <= z < 2 ^ (8 * Z.of_nat n) ->
  mp_rd_fixed n (mp_be n z ++ r) = Some (z, r).
Proof.
  intros H. unfold mp_rd_fixed. rewrite mp_take_app by (rewrite mp_be_length; reflexivity).
  rewrite mp_unbe_be, Z.mod_small by exact H. reflexivity.
Qed.

Lemma mp_rd_fixed_signed_be n z r : (0 < n)%nat ->
  - 2 ^ (8 * Z.of_nat n - 1) <= z < 2 ^ (8 * Z.of_nat n - 1) ->
  mp_rd_fixed_signed n (mp_be n z ++ r) = Some (z, r).
Proof.
  intros Hn H. unfold mp_rd_fixed_signed. rewrite mp_take_app by (rewrite mp_be_length; reflexivity).
  rewrite mp_unbe_be. f_equal. f_equal. unfold mp_signed.
  set (w := 8 * Z.of_nat n) in *.
  assert (Hw : 2 ^ w = 2 * 2 ^ (w - 1)).
  { replace w with (1 + (w - 1)) at 1 by lia. rewrite Z.pow_add_r by lia. reflexivity. }
  assert (Hp : 0 < 2 ^ (w - 1)) by (apply Z.pow_pos_nonneg; lia).
  destruct (Z.lt_ge_cases z 0) as [Hneg|Hpos].
  - replace (z mod 2 ^ w) with (z + 2 ^ w).
    + destruct (Z.ltb_spec (z + 2 ^ w) (2 ^ (w - 1))); lia.
    + symmetry. rewrite <- (Z.mod_add z 1 (2 ^ w)) by lia. rewrite Z.mul_1_l. apply Z.mod_small. lia.
  - rewrite Z.mod_small by lia. destruct (Z.ltb_spec z (2 ^ (w - 1))); lia.
Qed.

(* ---------- integers ---------- *)

Ltac mp_pow := change (2 ^ (8 - 1)) with 128 in *; change (2 ^ (16 - 1)) with 32768 in *;
  change (2 ^ (32 - 1)) with 2147483648 in *; change (2 ^ (64 - 1)) with 9223372036854775808 in *;
  change (2 ^ 8) with 256 in *; change (2 ^ 16) with 65536 in *; change (2 ^ 32) with 4294967296 in *;
  change (2 ^ 64) with 18446744073709551616 in *.

Lemma mp_rd_int64_wr i r : - 2 ^ 63 <= i < 2 ^ 63 -> mp_rd_int64 (mp_wr_int i ++ r) = Some (i, r).
Proof.
  intros H. change (2 ^ 63) with 9223372036854775808 in H. unfold mp_wr_int.
  destruct (Z.leb_spec 0 i).
  - destruct (Z.leb_spec i 127).
    { cbn [app mp_rd_int64]. destruct (Z.leb_spec i 127); [reflexivity|lia]. }
    destruct (Z.leb_spec i 32767).
    { cbn -[mp_rd_fixed_signed mp_be]. apply (mp_rd_fixed_signed_be 2); [lia|]. cbn. lia. }
    destruct (Z.leb_spec i 2147483647).
    { cbn -[mp_rd_fixed_signed mp_be]. apply (mp_rd_fixed_signed_be 4); [lia|]. cbn. lia. }
    cbn -[mp_rd_fixed_signed mp_be]. apply (mp_rd_fixed_signed_be 8); [lia|]. cbn. lia.
  - destruct (Z.leb_spec (-32) i).
    { cbn [app mp_rd_int64]. destruct (Z.leb_spec (i + 256) 127); [lia|].
      destruct (Z.leb_spec 224 (i + 256)); [|lia]. f_equal. f_equal. lia. }
    destruct (Z.leb_spec (-128) i).
    { cbn -[mp_rd_fixed_signed]. change (i + 256 :: r) with ([i + 256] ++ r). replace [i + 256] with (mp_be 1 i).
      - apply (mp_rd_fixed_signed_be 1 i r); [lia|]. cbn. lia.
      - unfold mp_be. cbn. f_equal. lia. }
    destruct (Z.leb_spec (-32768) i).
    { cbn -[mp_rd_fixed_signed mp_be]. apply (mp_rd_fixed_signed_be 2); [lia|]. cbn. lia. }
    destruct (Z.leb_spec (-2147483648) i).
    { cbn -[mp_rd_fixed_signed mp_be]. apply (mp_rd_fixed_signed_be 4); [lia|]. cbn. lia. }
    cbn -[mp_rd_fixed_signed mp_be]. apply (mp_rd_fixed_signed_be 8); [lia|]. cbn. lia.
Qed.

Definition mp_int_bits (bits : Z) : Prop := bits = 8 \/ bits = 16 \/ bits = 32 \/ bits = 64.

Lemma mp_rd_int_wr bits i r : mp_int_bits bits -> - 2 ^ (bits - 1) <= i < 2 ^ (bits - 1) ->
  mp_rd_int bits (mp_wr_int i ++ r) = Some (i, r).
Proof.
  intros Hb H. unfold mp_rd_int. rewrite mp_rd_int64_wr.
  - destruct (Z.leb_spec (- 2 ^ (bits - 1)) i); [|lia]. destruct (Z.ltb_spec i (2 ^ (bits - 1))); [|lia]. reflexivity.
  - destruct Hb as [-> | [-> | [-> | ->]]]; mp_pow; change (2 ^ 63) with 9223372036854775808; lia.
Qed.

Lemma mp_rd_uint64_wr u r : 0 <= u < 2 ^ 64 -> mp_rd_uint64 (mp_wr_uint u ++ r) = Some (u, r).
Proof.
  intros H. mp_pow. unfold mp_wr_uint.
  destruct (Z.leb_spec u 127).
  { cbn [app mp_rd_uint64]. destruct (Z.leb_spec u 127); [reflexivity|lia]. }
  destruct (Z.leb_spec u 255).
  { cbn -[mp_rd_fixed]. change (u :: r) with ([u] ++ r). replace [u] with (mp_be 1 u).
    - apply (mp_rd_fixed_be 1 u r). cbn. lia.
    - unfold mp_be. cbn. f_equal. lia. }
  destruct (Z.leb_spec u 65535).
  { cbn -[mp_rd_fixed mp_be]. apply (mp_rd_fixed_be 2). cbn. lia. }
  destruct (Z.leb_spec u 4294967295).
  { cbn -[mp_rd_fixed mp_be]. apply (mp_rd_fixed_be 4). cbn. lia. }
  cbn -[mp_rd_fixed mp_be]. apply (mp_rd_fixed_be 8). cbn. lia.
Qed.

Lemma mp_rd_uint_wr bits u r : mp_int_bits bits -> 0 <= u < 2 ^ bits ->
  mp_rd_uint bits (mp_wr_uint u ++ r) = Some (u, r).
Proof.
  intros Hb H. unfold mp_rd_uint. rewrite mp_rd_uint64_wr.
  - destruct (Z.ltb_spec u (2 ^ bits)); [reflexivity|lia].
  - destruct Hb as [-> | [-> | [-> | ->]]]; mp_pow; lia.
Qed.

Lemma mp_rd_f64_wr z r : 0 <= z < 2 ^ 64 -> mp_rd_f64 (mp_wr_f64 z ++ r) = Some (z, r).
Proof. intros H. unfold mp_wr_f64. cbn -[mp_rd_fixed mp_be]. apply (mp_rd_fixed_be 8). cbn. mp_pow. lia. Qed.

Lemma mp_rd_bool_wr b r : mp_rd_bool (mp_wr_bool b ++ r) = Some (b, r).
Proof. destruct b; reflexivity. Qed.

(* ---------- strings, bins, headers ---------- *)

Lemma mp_rd_len_be n len x r : 0 <= len < 2 ^ (8 * Z.of_nat n) -> len = Z.of_nat (length x) ->
  mp_rd_len n (mp_be n len ++ x ++ r) = Some (x, r).
Proof.
  intros H Hl. unfold mp_rd_len. rewrite mp_rd_fixed_be by exact H. apply mp_take_z_app. exact Hl.
Qed.

Lemma mp_rd_str_wr s r : Z.of_nat (length s) < 2 ^ 32 -> mp_rd_str (mp_wr_str s ++ r) = Some (s, r).
Proof.
  intros H. mp_pow. unfold mp_wr_str. set (n := Z.of_nat (length s)) in *. rewrite <- app_assoc.
  destruct (Z.leb_spec n 31).
  { cbn [app mp_rd_str]. destruct (Z.leb_spec 160 (160 + n)); [|lia]. destruct (Z.leb_spec (160 + n) 191); [|lia].
    cbn [andb]. apply mp_take_z_app. lia. }
  destruct (Z.leb_spec n 255).
  { cbn -[mp_rd_len]. change (n :: s ++ r) with ([n] ++ s ++ r). replace [n] with (mp_be 1 n) by (unfold mp_be; cbn; f_equal; lia).
    apply (mp_rd_len_be 1); [cbn; lia|reflexivity]. }
  destruct (Z.leb_spec n 65535).
  { cbn -[mp_rd_len mp_be]. apply (mp_rd_len_be 2); [cbn; lia|reflexivity]. }
  cbn -[mp_rd_len mp_be]. apply (mp_rd_len_be 4); [cbn; lia|reflexivity].
Qed.

Lemma mp_rd_key_wr s r : Z.of_nat (length s) < 2 ^ 32 -> mp_rd_key (mp_wr_str s ++ r) = Some (s, r).
Proof. intros H. unfold mp_rd_key. rewrite mp_rd_str_wr by exact H. reflexivity. Qed.

Lemma mp_rd_bin_wr s r : Z.of_nat (length s) < 2 ^ 32 -> mp_rd_bin (mp_wr_bin s ++ r) = Some (s, r).
Proof.
  intros H. mp_pow. unfold mp_wr_bin. set (n := Z.of_nat (length s)) in *. rewrite <- app_assoc.
  destruct (Z.leb_spec n 255).
  { cbn -[mp_rd_len]. change (n :: s ++ r) with ([n] ++ s ++ r). replace [n] with (mp_be 1 n) by (unfold mp_be; cbn; f_equal; lia).
    apply (mp_rd_len_be 1); [cbn; lia|reflexivity]. }
  destruct (Z.leb_spec n 65535).
  { cbn -[mp_rd_len mp_be]. apply (mp_rd_len_be 2); [cbn; lia|reflexivity]. }
  cbn -[mp_rd_len mp_be]. apply (mp_rd_len_be 4); [cbn; lia|reflexivity].
Qed.

Lemma mp_rd_arrhdr_wr n r : 0 <= n < 2 ^ 32 -> mp_rd_arrhdr (mp_wr_arrhdr n ++ r) = Some (n, r).
Proof.
  intros H. mp_pow. unfold mp_wr_arrhdr.
  destruct (Z.leb_spec n 15).
  { cbn [app mp_rd_arrhdr]. destruct (Z.leb_spec 144 (144 + n)); [|lia]. destruct (Z.leb_spec (144 + n) 159); [|lia].
    cbn [andb]. f_equal. f_equal. lia. }
  destruct (Z.leb_spec n 65535).
  { cbn -[mp_rd_fixed mp_be]. apply (mp_rd_fixed_be 2). cbn. lia. }
  cbn -[mp_rd_fixed mp_be]. apply (mp_rd_fixed_be 4). cbn. lia.
Qed.

Lemma mp_rd_maphdr_wr n r : 0 <= n < 2 ^ 32 -> mp_rd_maphdr (mp_wr_maphdr n ++ r) = Some (n, r).
Proof.
  intros H. mp_pow. unfold mp_wr_maphdr.
  destruct (Z.leb_spec n 15).
  { cbn [app mp_rd_maphdr]. destruct (Z.leb_spec 128 (128 + n)); [|lia]. destruct (Z.leb_spec (128 + n) 143); [|lia].
    cbn [andb]. f_equal. f_equal. lia. }
  destruct (Z.leb_spec n 65535).
  { cbn -[mp_rd_fixed mp_be]. apply (mp_rd_fixed_be 2). cbn. lia. }
  cbn -[mp_rd_fixed mp_be]. apply (mp_rd_fixed_be 4). cbn. lia.
Qed.

(* ---------- Skip passes over every written primitive ---------- *)

Ltac mp_chain :=
  repeat match goal with
  | |- context [if ?a <=? ?b then _ else _] => destruct (Z.leb_spec a b); try lia
  | |- context [if ?a =? ?b then _ else _] => destruct (Z.eqb_spec a b); try lia
  end.

Lemma mp_skip_fixed n x rest : length x = n ->
  match mp_take n (x ++ rest) with Some (_, r) => Some r | None => None end = Some rest.
Proof. intros H. rewrite mp_take_app by (symmetry; exact H). reflexivity. Qed.

Lemma mp_skip1_int f i rest : - 2 ^ 63 <= i < 2 ^ 63 -> mp_skip1 (S f) (mp_wr_int i ++ rest) = Some rest.
Proof.
  intros H. change (2 ^ 63) with 9223372036854775808 in H. unfold mp_wr_int.
  destruct (Z.leb_spec 0 i); [destruct (Z.leb_spec i 127); [|destruct (Z.leb_spec i 32767); [|destruct (Z.leb_spec i 2147483647)]]
    |destruct (Z.leb_spec (-32) i); [|destruct (Z.leb_spec (-128) i); [|destruct (Z.leb_spec (-32768) i); [|destruct (Z.leb_spec (-2147483648) i)]]]];
  cbn -[mp_be mp_take mp_rd_fixed mp_take_z mp_skip_many Z.add Z.sub Z.mul]; mp_chain; try reflexivity;
  try (apply mp_skip_fixed; apply mp_be_length).
Qed.

Lemma mp_skip1_uint f u rest : 0 <= u < 2 ^ 64 -> mp_skip1 (S f) (mp_wr_uint u ++ rest) = Some rest.
Proof.
  intros H. mp_pow. unfold mp_wr_uint.
  destruct (Z.leb_spec u 127); [|destruct (Z.leb_spec u 255); [|destruct (Z.leb_spec u 65535); [|destruct (Z.leb_spec u 4294967295)]]];
  cbn -[mp_be mp_take mp_rd_fixed mp_take_z mp_skip_many Z.add Z.sub Z.mul]; mp_chain; try reflexivity;
  try (apply mp_skip_fixed; apply mp_be_length).
Qed.

Lemma mp_skip1_f64 f z rest : mp_skip1 (S f) (mp_wr_f64 z ++ rest) = Some rest.
Proof.
  unfold mp_wr_f64. cbn -[mp_be mp_take mp_rd_fixed mp_take_z mp_skip_many Z.add Z.sub Z.mul].
  apply mp_skip_fixed. apply mp_be_length.
Qed.

Lemma mp_skip1_bool f b rest : mp_skip1 (S f) (mp_wr_bool b ++ rest) = Some rest.
Proof. destruct b; reflexivity. Qed.

Lemma mp_skip1_nil f rest : mp_skip1 (S f) (mp_wr_nil ++ rest) = Some rest.
Proof. reflexivity. Qed.

Lemma mp_skip_bytes n len x rest extra : 0 <= len < 2 ^ (8 * Z.of_nat n) -> len + extra = Z.of_nat (length x) ->
  match mp_rd_fixed n (mp_be n len ++ x ++ rest) with
  | Some (l, r) => match mp_take_z (l + extra) r with Some (_, r') => Some r' | None => None end
  | None => None
  end = Some rest.
Proof.
  intros H Hl. rewrite mp_rd_fixed_be by exact H. rewrite mp_take_z_app by exact Hl. reflexivity.
Qed.

Lemma mp_skip1_str f s rest : Z.of_nat (length s) < 2 ^ 32 -> mp_skip1 (S f) (mp_wr_str s ++ rest) = Some rest.
Proof.
  intros H. mp_pow. unfold mp_wr_str. set (n := Z.of_nat (length s)) in *. rewrite <- app_assoc.
  destruct (Z.leb_spec n 31); [|destruct (Z.leb_spec n 255); [|destruct (Z.leb_spec n 65535)]];
  cbn -[mp_be mp_take mp_rd_fixed mp_take_z mp_skip_many Z.add Z.sub Z.mul]; mp_chain.
  - rewrite mp_take_z_app by lia. reflexivity.
  - change (n :: s ++ rest) with ([n] ++ s ++ rest). replace [n] with (mp_be 1 n) by (unfold mp_be; cbn; f_equal; lia).
    apply (mp_skip_bytes 1); [cbn; lia|lia].
  - apply (mp_skip_bytes 2); [cbn; lia|lia].
  - apply (mp_skip_bytes 4); [cbn; lia|lia].
Qed.

Lemma mp_skip1_bin f s rest : Z.of_nat (length s) < 2 ^ 32 -> mp_skip1 (S f) (mp_wr_bin s ++ rest) = Some rest.
Proof.
  intros H. mp_pow. unfold mp_wr_bin. set (n := Z.of_nat (length s)) in *. rewrite <- app_assoc.
  destruct (Z.leb_spec n 255); [|destruct (Z.leb_spec n 65535)];
  cbn -[mp_be mp_take mp_rd_fixed mp_take_z mp_skip_many Z.add Z.sub Z.mul]; mp_chain.
  - change (n :: s ++ rest) with ([n] ++ s ++ rest). replace [n] with (mp_be 1 n) by (unfold mp_be; cbn; f_equal; lia).
    apply (mp_skip_bytes 1); [cbn; lia|lia].
  - apply (mp_skip_bytes 2); [cbn; lia|lia].
  - apply (mp_skip_bytes 4); [cbn; lia|lia].
Qed.

(* containers: the header hands its children to mp_skip_many *)
Lemma mp_skip1_arrhdr f n r : 0 <= n < 2 ^ 32 -> Z.of_nat (length r) >= n ->
  mp_skip1 (S f) (mp_wr_arrhdr n ++ r) = mp_skip_many (mp_skip1 f) (Z.to_nat n) r.
Proof.
  intros H Hl. mp_pow. unfold mp_wr_arrhdr.
  destruct (Z.leb_spec n 15); [|destruct (Z.leb_spec n 65535)];
  cbn -[mp_be mp_take mp_rd_fixed mp_take_z mp_skip_many Z.add Z.sub Z.mul]; mp_chain.
  - replace (144 + n - 144) with n by lia. destruct (Z.ltb_spec (Z.of_nat (length r)) n); [lia|reflexivity].
  - rewrite (mp_rd_fixed_be 2) by (cbn; lia). rewrite Z.mul_1_l.
    destruct (Z.ltb_spec (Z.of_nat (length r)) n); [lia|reflexivity].
  - rewrite (mp_rd_fixed_be 4) by (cbn; lia). rewrite Z.mul_1_l.
    destruct (Z.ltb_spec (Z.of_nat (length r)) n); [lia|reflexivity].
Qed.

Lemma mp_skip1_maphdr f n r : 0 <= n < 2 ^ 32 -> Z.of_nat (length r) >= 2 * n ->
  mp_skip1 (S f) (mp_wr_maphdr n ++ r) = mp_skip_many (mp_skip1 f) (Z.to_nat (2 * n)) r.
Proof.
  intros H Hl. mp_pow. unfold mp_wr_maphdr.
  destruct (Z.leb_spec n 15); [|destruct (Z.leb_spec n 65535)];
  cbn -[mp_be mp_take mp_rd_fixed mp_take_z mp_skip_many Z.add Z.sub Z.mul]; mp_chain.
  - replace (128 + n - 128) with n by lia. destruct (Z.ltb_spec (Z.of_nat (length r)) (2 * n)); [lia|reflexivity].
  - rewrite (mp_rd_fixed_be 2) by (cbn; lia).
    destruct (Z.ltb_spec (Z.of_nat (length r)) (2 * n)); [lia|reflexivity].
  - rewrite (mp_rd_fixed_be 4) by (cbn; lia).
    destruct (Z.ltb_spec (Z.of_nat (length r)) (2 * n)); [lia|reflexivity].
Qed.

(* ---------- named forms of the nested recursions of the model ---------- *)

Fixpoint mp_enc_fields (fs : list (list Z * mp_ty)) (vs : list mp_val) : list Z :=
  match fs, vs with
  | (k, ft) :: fs', x :: vs' => mp_wr_str k ++ mp_enc ft x ++ mp_enc_fields fs' vs'
  | _, _ => []
  end.

Fixpoint mp_enc_alt (alts : list (list Z * mp_ty)) (tag : list Z) (x : mp_val) : list Z :=
  match alts with
  | (k, at_) :: tl => if mp_key_eqb k tag then mp_enc at_ x else mp_enc_alt tl tag x
  | [] => []
  end.

Definition mp_decs (fs : list (list Z * mp_ty)) : list (list Z * mp_decoder) :=
  map (fun kt => (fst kt, mp_dec (snd kt))) fs.
Definition mp_zeros (fs : list (list Z * mp_ty)) : list mp_val := map (fun kt => mp_zero (snd kt)) fs.

Fixpoint mp_dec_alt (alts : list (list Z * mp_ty)) (ver b : list Z) : option (mp_val * list Z) :=
  match alts with
  | (k, at_) :: tl =>
      if mp_key_eqb k ver
      then match mp_dec at_ b with Some (x, r) => Some (VVer ver x, r) | None => None end
      else mp_dec_alt tl ver b
  | [] => None
  end.

Lemma mp_enc_struct_eq fs vs :
  mp_enc (TStruct fs) (VStruct vs) = mp_wr_maphdr (Z.of_nat (length fs)) ++ mp_enc_fields fs vs.
Proof.
  cbn [mp_enc]. f_equal.
Qed.

Lemma mp_enc_ver_eq alts tag x : mp_enc (TVer alts) (VVer tag x) = mp_enc_alt alts tag x.
Proof.
  cbn [mp_enc]. induction alts as [|[k at_] tl IH]; [reflexivity|].
  cbn [mp_enc_alt]. rewrite <- IH. reflexivity.
Qed.

Lemma mp_zero_struct_eq fs : mp_zero (TStruct fs) = VStruct (mp_zeros fs).
Proof.
  cbn [mp_zero]. f_equal. induction fs as [|[k ft] fs IH]; [reflexivity|].
  cbn [mp_zeros map snd]. rewrite IH. reflexivity.
Qed.

Lemma mp_dec_struct_eq fs b :
  mp_dec (TStruct fs) b =
  match mp_dec_struct (mp_decs fs) (mp_zeros fs) b with
  | Some (slots, r) => Some (VStruct slots, r)
  | None => None
  end.
Proof.
  cbn [mp_dec].
  assert (E1 : forall l, (fix go (fs0 : list (list Z * mp_ty)) : list (list Z * mp_decoder) :=
                 match fs0 with (k, ft) :: tl => (k, mp_dec ft) :: go tl | [] => [] end) l = mp_decs l).
  { induction l as [|[k ft] l IH]; [reflexivity|]. cbn [mp_decs map fst snd]. rewrite IH. reflexivity. }
  assert (E2 : forall l, (fix go (fs0 : list (list Z * mp_ty)) : list mp_val :=
                 match fs0 with (_, ft) :: tl => mp_zero ft :: go tl | [] => [] end) l = mp_zeros l).
  { induction l as [|[k ft] l IH]; [reflexivity|]. cbn [mp_zeros map snd]. rewrite IH. reflexivity. }
  rewrite E1, E2. reflexivity.
Qed.

Lemma mp_dec_ver_eq alts b :
  mp_dec (TVer alts) b =
  match mp_peek_version b with Some ver => mp_dec_alt alts ver b | None => None end.
Proof.
  cbn [mp_dec]. destruct (mp_peek_version b) as [ver|]; [|reflexivity].
  induction alts as [|[k at_] tl IH]; [reflexivity|]. cbn [mp_dec_alt]. rewrite <- IH. reflexivity.
Qed.

(* ---------- induction principle for the nested type ---------- *)

Section TyInd.
  Variable P : mp_ty -> Prop.
  Hypothesis HBool : P TBool.
  Hypothesis HInt : forall b, P (TInt b).
  Hypothesis HUint : forall b, P (TUint b).
  Hypothesis HF64 : P TF64.
  Hypothesis HStr : P TStr.
  Hypothesis HBin : P TBin.
  Hypothesis HArr : forall e, P e -> P (TArr e).
  Hypothesis HMap : forall e, P e -> P (TMap e).
  Hypothesis HPtr : forall e, P e -> P (TPtr e).
  Hypothesis HStruct : forall fs, Forall (fun kt => P (snd kt)) fs -> P (TStruct fs).
  Hypothesis HVer : forall alts, Forall (fun kt => P (snd kt)) alts -> P (TVer alts).
  Hypothesis HDrop : forall e, P e -> P (TDrop e).

  Fixpoint mp_ty_ind' (t : mp_ty) : P t :=
    match t with
    | TBool => HBool | TInt b => HInt b | TUint b => HUint b | TF64 => HF64 | TStr => HStr | TBin => HBin
    | TArr e => HArr e (mp_ty_ind' e)
    | TMap e => HMap e (mp_ty_ind' e)
    | TPtr e => HPtr e (mp_ty_ind' e)
    | TStruct fs =>
        HStruct fs ((fix go (l : list (list Z * mp_ty)) : Forall (fun kt => P (snd kt)) l :=
                       match l with
                       | [] => Forall_nil _
                       | kt :: tl => Forall_cons kt (mp_ty_ind' (snd kt)) (go tl)
                       end) fs)
    | TVer alts =>
        HVer alts ((fix go (l : list (list Z * mp_ty)) : Forall (fun kt => P (snd kt)) l :=
                      match l with
                      | [] => Forall_nil _
                      | kt :: tl => Forall_cons kt (mp_ty_ind' (snd kt)) (go tl)
                      end) alts)
    | TDrop e => HDrop e (mp_ty_ind' e)
    end.
End TyInd.

(* ---------- well-formed schemas and values ---------- *)

Fixpoint mp_sorted (l : list (list Z * mp_val)) : Prop :=
  match l with
  | [] => True
  | kv :: tl => (forall kv', In kv' tl -> mp_cmp (fst kv) (fst kv') = Lt) /\ mp_sorted tl
  end.

(* the value of the "version" field of a struct ([] when there is none; the decoder keeps the
   last occurrence of a key) *)
Fixpoint mp_version_fold (cur : list Z) (fs : list (list Z * mp_ty)) (vs : list mp_val) : list Z :=
  match fs, vs with
  | (k, _) :: fs', x :: vs' =>
      mp_version_fold (if mp_key_eqb k mp_version_key then match x with VStr s => s | _ => [] end else cur) fs' vs'
  | _, _ => cur
  end.
Definition mp_version_of (fs : list (list Z * mp_ty)) (vs : list mp_val) : list Z := mp_version_fold [] fs vs.

Definition mp_is_ptr (t : mp_ty) : bool := match t with TPtr _ => true | _ => false end.

Fixpoint mp_wf_ty (t : mp_ty) : Prop :=
  match t with
  | TInt b | TUint b => mp_int_bits b
  | TArr e | TMap e => mp_wf_ty e
  | TPtr e => mp_wf_ty e /\ mp_is_ptr e = false
  | TStruct fs =>
      Z.of_nat (length fs) < 2 ^ 32 /\ NoDup (map fst fs) /\
      Forall (fun kt => Z.of_nat (length (fst kt)) < 2 ^ 32) fs /\
      (fix all (l : list (list Z * mp_ty)) : Prop :=
         match l with (_, ft) :: tl => mp_wf_ty ft /\ all tl | [] => True end) fs
  | TVer alts =>
      (fix all (l : list (list Z * mp_ty)) : Prop :=
         match l with
         | (_, at_) :: tl =>
             (mp_wf_ty at_ /\ exists fs, at_ = TStruct fs /\
                forall ft, In (mp_version_key, ft) fs -> ft = TStr) /\ all tl
         | [] => True
         end) alts
  | TDrop _ => False      (* not lossless: outside the round-trip theorem *)
  | _ => True
  end.

Fixpoint mp_wf (t : mp_ty) (v : mp_val) {struct t} : Prop :=
  match t, v with
  | TBool, VBool _ => True
  | TInt b, VInt z => - 2 ^ (b - 1) <= z < 2 ^ (b - 1)
  | TUint b, VInt z => 0 <= z < 2 ^ b
  | TF64, VF64 z => 0 <= z < 2 ^ 64
  | TStr, VStr s => Z.of_nat (length s) < 2 ^ 32
  | TBin, VBin s => Z.of_nat (length s) < 2 ^ 32
  | TArr e, VArr l => Z.of_nat (length l) < 2 ^ 32 /\ Forall (mp_wf e) l
  | TMap e, VMap l =>
      Z.of_nat (length l) < 2 ^ 32 /\ mp_sorted l /\
      Forall (fun kv => Z.of_nat (length (fst kv)) < 2 ^ 32 /\ mp_wf e (snd kv)) l
  | TPtr e, VPtr None => True
  | TPtr e, VPtr (Some x) => mp_wf e x
  | TStruct fs, VStruct vs =>
      (fix all (l : list (list Z * mp_ty)) (vs : list mp_val) : Prop :=
         match l, vs with
         | (_, ft) :: tl, x :: vs' => mp_wf ft x /\ all tl vs'
         | [], [] => True
         | _, _ => False
         end) fs vs
  | TVer alts, VVer tag x =>
      (fix find (l : list (list Z * mp_ty)) : Prop :=
         match l with
         | (k, at_) :: tl =>
             if mp_key_eqb k tag
             then mp_wf at_ x /\
                  match at_, x with
                  | TStruct fs, VStruct vs =>
                      (match mp_version_of fs vs with [] => mp_v1 | s => s end) = tag
                  | _, _ => False
                  end
             else find tl
         | [] => False
         end) alts
  | TDrop e, x => mp_wf e x
  | _, _ => False
  end.

Fixpoint mp_wf_fields (fs : list (list Z * mp_ty)) (vs : list mp_val) : Prop :=
  match fs, vs with
  | (_, ft) :: tl, x :: vs' => mp_wf ft x /\ mp_wf_fields tl vs'
  | [], [] => True
  | _, _ => False
  end.

Lemma mp_wf_struct_eq fs vs : mp_wf (TStruct fs) (VStruct vs) = mp_wf_fields fs vs.
Proof.
  reflexivity.
Qed.

Fixpoint mp_wf_ty_fields (fs : list (list Z * mp_ty)) : Prop :=
  match fs with (_, ft) :: tl => mp_wf_ty ft /\ mp_wf_ty_fields tl | [] => True end.

Lemma mp_wf_ty_struct_eq fs :
  mp_wf_ty (TStruct fs) =
  (Z.of_nat (length fs) < 2 ^ 32 /\ NoDup (map fst fs) /\
   Forall (fun kt => Z.of_nat (length (fst kt)) < 2 ^ 32) fs /\ mp_wf_ty_fields fs).
Proof.
  reflexivity.
Qed.

(* ---------- bytes.Compare facts ---------- *)

Lemma mp_cmp_refl a : mp_cmp a a = Eq.
Proof. induction a as [|x a IH]; cbn; [reflexivity|]. rewrite Z.compare_refl. exact IH. Qed.

Lemma mp_cmp_eq a : forall b, mp_cmp a b = Eq -> a = b.
Proof.
  induction a as [|x a IH]; intros [|y b] H; cbn in H; try discriminate; [reflexivity|].
  destruct (Z.compare x y) eqn:E; try discriminate.
  apply Z.compare_eq in E. subst. f_equal. apply IH. exact H.
Qed.

Lemma mp_cmp_antisym a : forall b, mp_cmp b a = CompOpp (mp_cmp a b).
Proof.
  induction a as [|x a IH]; intros [|y b]; cbn; try reflexivity.
  rewrite (Z.compare_antisym x y). destruct (Z.compare x y); cbn; auto.
Qed.

Lemma mp_key_eqb_refl k : mp_key_eqb k k = true.
Proof. unfold mp_key_eqb. rewrite mp_cmp_refl. reflexivity. Qed.

Lemma mp_key_eqb_eq a b : mp_key_eqb a b = true -> a = b.
Proof. unfold mp_key_eqb. destruct (mp_cmp a b) eqn:E; try discriminate. intros _. apply mp_cmp_eq. exact E. Qed.

Lemma mp_key_eqb_neq a b : a <> b -> mp_key_eqb a b = false.
Proof. intros H. destruct (mp_key_eqb a b) eqn:E; [|reflexivity]. apply mp_key_eqb_eq in E. contradiction. Qed.

(* ---------- every encoding starts with a byte, and only a nil pointer starts with 0xc0 ---------- *)

Definition mp_head_ok (t : mp_ty) (b : list Z) : Prop :=
  exists lead tl, b = lead :: tl /\ (mp_is_ptr t = false -> lead <> 192).

Lemma mp_head_int i : exists lead tl, mp_wr_int i = lead :: tl /\ lead <> 192.
Proof.
  unfold mp_wr_int.
  repeat match goal with |- context [if ?a <=? ?b then _ else _] => destruct (Z.leb_spec a b) end;
  eexists; eexists; (split; [reflexivity|lia]).
Qed.

Lemma mp_head_uint u : 0 <= u -> exists lead tl, mp_wr_uint u = lead :: tl /\ lead <> 192.
Proof.
  intros H. unfold mp_wr_uint.
  repeat match goal with |- context [if ?a <=? ?b then _ else _] => destruct (Z.leb_spec a b) end;
  eexists; eexists; (split; [reflexivity|lia]).
Qed.

Lemma mp_head_str s : exists lead tl, mp_wr_str s = lead :: tl /\ lead <> 192.
Proof.
  unfold mp_wr_str.
  repeat match goal with |- context [if ?a <=? ?b then _ else _] => destruct (Z.leb_spec a b) end;
  eexists; eexists; (split; [reflexivity|lia]).
Qed.

Lemma mp_head_bin s : exists lead tl, mp_wr_bin s = lead :: tl /\ lead <> 192.
Proof.
  unfold mp_wr_bin.
  repeat match goal with |- context [if ?a <=? ?b then _ else _] => destruct (Z.leb_spec a b) end;
  eexists; eexists; (split; [reflexivity|lia]).
Qed.

Lemma mp_head_arrhdr n x : 0 <= n -> exists lead tl, mp_wr_arrhdr n ++ x = lead :: tl /\ lead <> 192.
Proof.
  intros H. unfold mp_wr_arrhdr.
  repeat match goal with |- context [if ?a <=? ?b then _ else _] => destruct (Z.leb_spec a b) end;
  eexists; eexists; (split; [reflexivity|lia]).
Qed.

Lemma mp_head_maphdr n x : 0 <= n -> exists lead tl, mp_wr_maphdr n ++ x = lead :: tl /\ lead <> 192.
Proof.
  intros H. unfold mp_wr_maphdr.
  repeat match goal with |- context [if ?a <=? ?b then _ else _] => destruct (Z.leb_spec a b) end;
  eexists; eexists; (split; [reflexivity|lia]).
Qed.

Lemma mp_wf_ty_alts_In alts k at_ :
  mp_wf_ty (TVer alts) -> In (k, at_) alts ->
  mp_wf_ty at_ /\ exists fs, at_ = TStruct fs /\ forall ft, In (mp_version_key, ft) fs -> ft = TStr.
Proof.
  cbn [mp_wf_ty]. induction alts as [|[k' a'] tl IH]; intros H Hin; [destruct Hin|].
  destruct H as [Hh Ht]. destruct Hin as [E|Hin]; [inversion E; subst; exact Hh|apply IH; assumption].
Qed.

Lemma mp_enc_head t : mp_wf_ty t -> forall v, mp_wf t v -> mp_head_ok t (mp_enc t v).
Proof.
  induction t using mp_ty_ind'; intros Ht v Hv; try (exfalso; exact Ht); unfold mp_head_ok;
    destruct v; cbn [mp_wf] in Hv; try contradiction.
  - destruct b; eexists; eexists; (split; [reflexivity|]); intros _; discriminate.
  - destruct (mp_head_int z) as (l & tl & E & Hn). cbn [mp_enc]. eauto.
  - destruct (mp_head_uint z ltac:(lia)) as (l & tl & E & Hn). cbn [mp_enc]. eauto.
  - eexists; eexists; (split; [reflexivity|]); intros _; discriminate.
  - destruct (mp_head_str s) as (l & tl & E & Hn). cbn [mp_enc]. eauto.
  - destruct (mp_head_bin s) as (l & tl & E & Hn). cbn [mp_enc]. eauto.
  - cbn [mp_enc]. destruct (mp_head_arrhdr (Z.of_nat (length l)) (flat_map (mp_enc t) l) ltac:(lia)) as (a & tl & E & Hn). eauto.
  - cbn [mp_enc]. destruct (mp_head_maphdr (Z.of_nat (length l))
      (flat_map (fun kv => mp_wr_str (fst kv) ++ mp_enc t (snd kv)) l) ltac:(lia)) as (a & tl & E & Hn). eauto.
  - destruct Ht as [Ht _]. destruct o as [x|].
    + destruct (IHt Ht x Hv) as (a & tl & E & _). cbn [mp_enc]. exists a, tl. split; [exact E|]. cbn. discriminate.
    + eexists; eexists; (split; [reflexivity|]). cbn. discriminate.
  - rewrite mp_enc_struct_eq.
    destruct (mp_head_maphdr (Z.of_nat (length fs)) (mp_enc_fields fs l) ltac:(lia)) as (a & tl & E & Hn). eauto.
  - rewrite mp_enc_ver_eq. revert Hv. pose proof (fun k a => mp_wf_ty_alts_In alts k a Ht) as Hin.
    induction alts as [|[k at_] tl IH]; [intros []|].
    cbn [mp_enc_alt]. destruct (mp_key_eqb k tag).
    + intros [Hw Hver]. destruct (Hin k at_ ltac:(left; reflexivity)) as (Hta & fs & -> & _).
      inversion H as [|? ? Hhd Htl]; subst. cbn [snd] in Hhd.
      destruct (Hhd Hta v Hw) as (a & tl' & E & Hn). exists a, tl'. split; [exact E|]. intros _. apply Hn. reflexivity.
    + inversion H as [|? ? Hhd Htl]; subst. apply IH; [exact Htl| |].
      * cbn [mp_wf_ty] in Ht. destruct Ht as [_ Ht]. exact Ht.
      * intros k' a' Hi. apply (Hin k' a'). right. exact Hi.
Qed.

Lemma mp_enc_length t v : mp_wf_ty t -> mp_wf t v -> (1 <= length (mp_enc t v))%nat.
Proof.
  intros Ht Hv. destruct (mp_enc_head t Ht v Hv) as (a & tl & E & _). rewrite E. cbn. lia.
Qed.

(* ---------- Skip passes over every encoded value ---------- *)

Lemma mp_flat_map_length_In {A} (f : A -> list Z) l x : In x l -> (length (f x) <= length (flat_map f l))%nat.
Proof.
  induction l as [|y l IH]; intros Hin; [destruct Hin|]. cbn [flat_map]. rewrite app_length.
  destruct Hin as [->|Hin]; [lia|]. specialize (IH Hin). lia.
Qed.

Lemma mp_flat_map_length_ge {A} (f : A -> list Z) l c :
  (forall x, In x l -> (c <= length (f x))%nat) -> (c * length l <= length (flat_map f l))%nat.
Proof.
  induction l as [|y l IH]; intros H; [cbn; lia|]. cbn [flat_map length]. rewrite app_length.
  pose proof (H y (or_introl eq_refl)). assert (c * length l <= length (flat_map f l))%nat by (apply IH; intros; apply H; right; assumption).
  lia.
Qed.

Lemma mp_skip_many_flat {A} sk (f : A -> list Z) l rest :
  (forall x, In x l -> forall r, sk (f x ++ r) = Some r) ->
  mp_skip_many sk (length l) (flat_map f l ++ rest) = Some rest.
Proof.
  induction l as [|y l IH]; intros H; [reflexivity|].
  cbn [flat_map length mp_skip_many]. rewrite <- app_assoc, (H y (or_introl eq_refl)).
  apply IH. intros x Hx. apply H. right. exact Hx.
Qed.

Lemma mp_skip_many_pairs {A} sk (fa fb : A -> list Z) l rest :
  (forall x, In x l -> forall r, sk (fa x ++ r) = Some r) ->
  (forall x, In x l -> forall r, sk (fb x ++ r) = Some r) ->
  mp_skip_many sk (2 * length l) (flat_map (fun x => fa x ++ fb x) l ++ rest) = Some rest.
Proof.
  induction l as [|y l IH]; intros Ha Hb; [reflexivity|].
  cbn [flat_map length]. replace (2 * S (length l))%nat with (S (S (2 * length l))) by lia.
  cbn [mp_skip_many]. rewrite <- !app_assoc, (Ha y (or_introl eq_refl)), (Hb y (or_introl eq_refl)).
  apply IH; intros x Hx; [apply Ha|apply Hb]; right; exact Hx.
Qed.

Lemma mp_enc_fields_length_ge fs vs : mp_wf_ty_fields fs -> mp_wf_fields fs vs ->
  (2 * length fs <= length (mp_enc_fields fs vs))%nat.
Proof.
  revert vs. induction fs as [|[k ft] fs IH]; intros [|x vs] Ht Hv; cbn in Hv; try contradiction; [cbn; lia|].
  destruct Ht as [Ht1 Ht2]. destruct Hv as [Hv1 Hv2]. cbn [mp_enc_fields length]. rewrite !app_length.
  pose proof (mp_enc_length ft x Ht1 Hv1). destruct (mp_head_str k) as (a & tl & E & _). rewrite E.
  specialize (IH vs Ht2 Hv2). cbn [length]. lia.
Qed.

Lemma mp_skip1_enc t : mp_wf_ty t -> forall v, mp_wf t v -> forall fuel rest,
  (length (mp_enc t v) <= fuel)%nat -> mp_skip1 fuel (mp_enc t v ++ rest) = Some rest.
Proof.
  induction t using mp_ty_ind'; intros Ht v Hv fuel rest Hf; try (exfalso; exact Ht);
    (destruct fuel as [|f]; [pose proof (mp_enc_length _ v Ht Hv); lia|]);
    destruct v; cbn [mp_wf] in Hv; try contradiction.
  - apply mp_skip1_bool.
  - cbn [mp_enc]. apply mp_skip1_int. cbn [mp_wf_ty] in Ht.
    destruct Ht as [-> | [-> | [-> | ->]]]; mp_pow; change (2 ^ 63) with 9223372036854775808; lia.
  - cbn [mp_enc]. apply mp_skip1_uint. cbn [mp_wf_ty] in Ht.
    destruct Ht as [-> | [-> | [-> | ->]]]; mp_pow; lia.
  - apply mp_skip1_f64.
  - apply mp_skip1_str. exact Hv.
  - apply mp_skip1_bin. exact Hv.
  - (* array *)
    cbn [mp_enc mp_wf_ty] in *. destruct Hv as [Hl Hall]. rewrite <- app_assoc.
    rewrite app_length in Hf.
    assert (Hge : (1 * length l <= length (flat_map (mp_enc t) l))%nat).
    { apply mp_flat_map_length_ge. intros x Hx. apply mp_enc_length; [exact Ht|]. rewrite Forall_forall in Hall. auto. }
    rewrite mp_skip1_arrhdr by (rewrite ?app_length; lia). rewrite Nat2Z.id.
    destruct (mp_head_arrhdr (Z.of_nat (length l)) [] ltac:(lia)) as (a & tl & E & _).
    rewrite app_nil_r in E. rewrite E in Hf. cbn [length] in Hf.
    apply mp_skip_many_flat. intros x Hx r. apply IHt; [exact Ht| |].
    + rewrite Forall_forall in Hall. auto.
    + pose proof (mp_flat_map_length_In (mp_enc t) l x Hx). lia.
  - (* map *)
    cbn [mp_enc mp_wf_ty] in *. destruct Hv as (Hl & _ & Hall). rewrite <- app_assoc.
    rewrite app_length in Hf. rewrite Forall_forall in Hall.
    set (g := fun kv : list Z * mp_val => mp_wr_str (fst kv) ++ mp_enc t (snd kv)) in *.
    assert (Hge : (2 * length l <= length (flat_map g l))%nat).
    { apply mp_flat_map_length_ge. intros x Hx. unfold g. rewrite app_length.
      pose proof (mp_enc_length t (snd x) Ht (proj2 (Hall x Hx))).
      destruct (mp_head_str (fst x)) as (a & tl & E & _). rewrite E. cbn [length]. lia. }
    rewrite mp_skip1_maphdr by (rewrite ?app_length; lia).
    replace (Z.to_nat (2 * Z.of_nat (length l))) with (2 * length l)%nat by lia.
    destruct (mp_head_maphdr (Z.of_nat (length l)) [] ltac:(lia)) as (a & tl & E & _).
    rewrite app_nil_r in E. rewrite E in Hf. cbn [length] in Hf.
    unfold g. apply (mp_skip_many_pairs (mp_skip1 f) (fun kv => mp_wr_str (fst kv)) (fun kv => mp_enc t (snd kv))).
    + intros x Hx r. pose proof (mp_flat_map_length_In g l x Hx) as Hlen. change (g x) with (mp_wr_str (fst x) ++ mp_enc t (snd x)) in Hlen. rewrite app_length in Hlen.
      destruct f as [|f']; [destruct (mp_head_str (fst x)) as (a' & tl' & E' & _); rewrite E' in Hlen; cbn in Hlen; lia|].
      apply mp_skip1_str. apply (Hall x Hx).
    + intros x Hx r. pose proof (mp_flat_map_length_In g l x Hx) as Hlen. change (g x) with (mp_wr_str (fst x) ++ mp_enc t (snd x)) in Hlen. rewrite app_length in Hlen.
      apply IHt; [exact Ht|apply (Hall x Hx)|lia].
  - (* pointer *)
    destruct Ht as [Ht _]. destruct o as [x|]; cbn [mp_enc] in *.
    + apply IHt; assumption.
    + apply mp_skip1_nil.
  - (* struct *)
    rewrite mp_enc_struct_eq in *. change (mp_wf_fields fs l) in Hv. rewrite mp_wf_ty_struct_eq in Ht.
    destruct Ht as (Hn & _ & Hk & Htf). rewrite <- app_assoc. rewrite app_length in Hf.
    pose proof (mp_enc_fields_length_ge fs l Htf Hv) as Hge.
    rewrite mp_skip1_maphdr by (rewrite ?app_length; lia).
    replace (Z.to_nat (2 * Z.of_nat (length fs))) with (2 * length fs)%nat by lia.
    destruct (mp_head_maphdr (Z.of_nat (length fs)) [] ltac:(lia)) as (a & tl & E & _).
    rewrite app_nil_r in E. rewrite E in Hf. cbn [length] in Hf.
    assert (Hlen : (length (mp_enc_fields fs l) <= f)%nat) by lia. clear Hf E Hge Hn.
    revert l Hv Hlen. induction fs as [|[k ft] fs IH]; intros [|x vs] Hv Hlen; cbn in Hv; try contradiction; [reflexivity|].
    destruct Hv as [Hv1 Hv2]. destruct Htf as [Ht1 Ht2]. inversion Hk as [|? ? Hk1 Hk2]; subst.
    inversion H as [|? ? Hh Htl]; subst. cbn [snd fst] in *.
    cbn [mp_enc_fields length] in *. replace (2 * S (length fs))%nat with (S (S (2 * length fs))) by lia.
    rewrite !app_length in Hlen. cbn [mp_skip_many]. rewrite <- !app_assoc.
    destruct f as [|f']; [destruct (mp_head_str k) as (a' & tl' & E' & _); rewrite E' in Hlen; cbn in Hlen; lia|].
    rewrite mp_skip1_str by exact Hk1.
    rewrite (Hh Ht1 x Hv1) by lia.
    apply IH; auto. lia.
  - (* versions *)
    rewrite mp_enc_ver_eq in *. pose proof (fun k a => mp_wf_ty_alts_In alts k a Ht) as Hin.
    clear Ht. revert Hv Hf. induction alts as [|[k at_] tl IH]; [intros []|].
    cbn [mp_enc_alt]. inversion H as [|? ? Hhd Htl]; subst. cbn [snd] in Hhd. destruct (mp_key_eqb k tag).
    + intros [Hw _] Hf. destruct (Hin k at_ ltac:(left; reflexivity)) as (Hta & _).
      apply Hhd; assumption.
    + apply IH; [exact Htl|]. intros k' a' Hi. apply (Hin k' a'). right. exact Hi.
Qed.

Lemma mp_skip_enc t v rest : mp_wf_ty t -> mp_wf t v -> mp_skip (mp_enc t v ++ rest) = Some rest.
Proof. intros Ht Hv. unfold mp_skip. apply mp_skip1_enc; auto. rewrite app_length. lia. Qed.

(* ---------- decoding inverts encoding ---------- *)

Lemma mp_dec_n_flat (d : mp_decoder) (f : mp_val -> list Z) l rest :
  (forall x, In x l -> forall r, d (f x ++ r) = Some (x, r)) ->
  mp_dec_n d (length l) (flat_map f l ++ rest) = Some (l, rest).
Proof.
  induction l as [|y l IH]; intros H; [reflexivity|].
  cbn [flat_map length mp_dec_n]. rewrite <- app_assoc, (H y (or_introl eq_refl)).
  rewrite IH by (intros x Hx; apply H; right; exact Hx). reflexivity.
Qed.

Lemma mp_ins_last k v acc : (forall kv, In kv acc -> mp_cmp (fst kv) k = Lt) ->
  mp_ins k v acc = acc ++ [(k, v)].
Proof.
  induction acc as [|[k' v'] acc IH]; intros H; [reflexivity|].
  cbn [mp_ins app]. pose proof (H (k', v') (or_introl eq_refl)) as Hk. cbn [fst] in Hk.
  rewrite mp_cmp_antisym, Hk. cbn [CompOpp]. f_equal. apply IH. intros kv Hin. apply H. right. exact Hin.
Qed.

Lemma mp_sorted_app_lt a : forall b, mp_sorted (a ++ b) ->
  forall x y, In x a -> In y b -> mp_cmp (fst x) (fst y) = Lt.
Proof.
  induction a as [|h a IH]; intros b Hs x y Hx Hy; [destruct Hx|].
  cbn [app mp_sorted] in Hs. destruct Hs as [Hh Ht]. destruct Hx as [->|Hx].
  - apply Hh. apply in_or_app. right. exact Hy.
  - eapply IH; eauto.
Qed.

Lemma mp_dec_map_flat (d : mp_decoder) (f : mp_val -> list Z) l : forall acc rest,
  mp_sorted (acc ++ l) ->
  (forall kv, In kv l -> Z.of_nat (length (fst kv)) < 2 ^ 32 /\ forall r, d (f (snd kv) ++ r) = Some (snd kv, r)) ->
  mp_dec_map d (length l) acc (flat_map (fun kv => mp_wr_str (fst kv) ++ f (snd kv)) l ++ rest) = Some (acc ++ l, rest).
Proof.
  induction l as [|[k v] l IH]; intros acc rest Hs H; [rewrite app_nil_r; reflexivity|].
  cbn [flat_map length mp_dec_map fst snd]. rewrite <- !app_assoc.
  destruct (H (k, v) (or_introl eq_refl)) as [Hk Hd]. cbn [fst snd] in Hk, Hd.
  rewrite mp_rd_str_wr by exact Hk. rewrite Hd.
  rewrite mp_ins_last.
  - replace (acc ++ (k, v) :: l) with ((acc ++ [(k, v)]) ++ l) by (rewrite <- app_assoc; reflexivity).
    apply IH; [rewrite <- app_assoc; exact Hs|]. intros kv Hin. apply H. right. exact Hin.
  - intros kv Hin. apply (mp_sorted_app_lt acc ((k, v) :: l) Hs kv (k, v) Hin). left. reflexivity.
Qed.

(* ----- struct fields ----- *)

Lemma mp_find_decs k fs1 : forall i, ~ In k (map fst fs1) -> forall ft fs2,
  mp_find k (mp_decs (fs1 ++ (k, ft) :: fs2)) i = Some ((i + length fs1)%nat, mp_dec ft).
Proof.
  induction fs1 as [|[k1 t1] fs1 IH]; intros i Hn ft fs2.
  - cbn. rewrite mp_key_eqb_refl. f_equal. f_equal. lia.
  - cbn [app mp_decs map fst snd mp_find]. cbn [map fst] in Hn.
    rewrite mp_key_eqb_neq by (intros ->; apply Hn; left; reflexivity).
    fold (mp_decs (fs1 ++ (k, ft) :: fs2)). rewrite IH by (intros Hi; apply Hn; right; exact Hi).
    f_equal. f_equal. cbn [length]. lia.
Qed.

Lemma mp_set_app vs1 v z zs : mp_set (length vs1) v (vs1 ++ z :: zs) = vs1 ++ v :: zs.
Proof. induction vs1 as [|x vs1 IH]; cbn; [reflexivity|]. rewrite IH. reflexivity. Qed.

Lemma mp_dec_fields_enc fs2 : forall fs1 vs1 vs2 rest,
  NoDup (map fst (fs1 ++ fs2)) -> length vs1 = length fs1 ->
  Forall (fun kt => Z.of_nat (length (fst kt)) < 2 ^ 32) fs2 ->
  mp_wf_fields fs2 vs2 ->
  Forall (fun kt => forall x r, mp_wf (snd kt) x -> mp_dec (snd kt) (mp_enc (snd kt) x ++ r) = Some (x, r)) fs2 ->
  mp_dec_fields (mp_decs (fs1 ++ fs2)) (length fs2) (vs1 ++ mp_zeros fs2) (mp_enc_fields fs2 vs2 ++ rest)
  = Some (vs1 ++ vs2, rest).
Proof.
  induction fs2 as [|[k ft] fs2 IH]; intros fs1 vs1 vs2 rest Hnd Hlen Hk Hv Hd.
  - destruct vs2; cbn in Hv; [|contradiction]. cbn. reflexivity.
  - destruct vs2 as [|x vs2]; cbn in Hv; [contradiction|]. destruct Hv as [Hv1 Hv2].
    inversion Hk as [|? ? Hk1 Hk2]; subst. inversion Hd as [|? ? Hd1 Hd2]; subst. cbn [fst snd] in *.
    cbn [mp_enc_fields length mp_dec_fields]. rewrite <- !app_assoc.
    rewrite mp_rd_key_wr by exact Hk1.
    rewrite (mp_find_decs k fs1 0).
    2:{ rewrite map_app in Hnd. cbn [map fst] in Hnd. apply NoDup_remove_2 in Hnd.
        intros Hi. apply Hnd. apply in_or_app. left. exact Hi. }
    rewrite (Hd1 x _ Hv1). cbn [Nat.add]. rewrite <- Hlen.
    cbn [mp_zeros map snd]. rewrite mp_set_app. fold (mp_zeros fs2).
    replace (fs1 ++ (k, ft) :: fs2) with ((fs1 ++ [(k, ft)]) ++ fs2) by (rewrite <- app_assoc; reflexivity).
    replace (vs1 ++ x :: mp_zeros fs2) with ((vs1 ++ [x]) ++ mp_zeros fs2) by (rewrite <- app_assoc; reflexivity).
    replace (vs1 ++ x :: vs2) with ((vs1 ++ [x]) ++ vs2) by (rewrite <- app_assoc; reflexivity).
    apply IH; auto.
    + rewrite <- app_assoc. exact Hnd.
    + rewrite !app_length. cbn. lia.
Qed.

(* ----- the version peek on an encoded struct ----- *)

Definition mp_dstr : mp_decoder :=
  fun b => match mp_rd_str b with Some (s, r) => Some (VStr s, r) | None => None end.

Lemma mp_peek_fields fs : forall vs cur rest,
  Forall (fun kt => Z.of_nat (length (fst kt)) < 2 ^ 32) fs ->
  mp_wf_ty_fields fs -> mp_wf_fields fs vs ->
  (forall ft, In (mp_version_key, ft) fs -> ft = TStr) ->
  mp_dec_fields [(mp_version_key, mp_dstr)] (length fs) [VStr cur] (mp_enc_fields fs vs ++ rest)
  = Some ([VStr (mp_version_fold cur fs vs)], rest).
Proof.
  induction fs as [|[k ft] fs IH]; intros vs cur rest Hk Ht Hv Hver.
  - destruct vs; cbn in Hv; [|contradiction]. reflexivity.
  - destruct vs as [|x vs]; cbn in Hv; [contradiction|]. destruct Hv as [Hv1 Hv2]. destruct Ht as [Ht1 Ht2].
    inversion Hk as [|? ? Hk1 Hk2]; subst. cbn [fst] in Hk1.
    cbn [mp_enc_fields length mp_dec_fields mp_version_fold]. rewrite <- !app_assoc.
    rewrite mp_rd_key_wr by exact Hk1. cbn [mp_find].
    assert (Hsym : mp_key_eqb mp_version_key k = mp_key_eqb k mp_version_key).
    { destruct (mp_key_eqb k mp_version_key) eqn:E.
      - apply mp_key_eqb_eq in E. subst. apply mp_key_eqb_refl.
      - destruct (mp_key_eqb mp_version_key k) eqn:E2; [|reflexivity]. apply mp_key_eqb_eq in E2. subst.
        rewrite mp_key_eqb_refl in E. discriminate. }
    rewrite Hsym. destruct (mp_key_eqb k mp_version_key) eqn:E.
    + apply mp_key_eqb_eq in E. subst k.
      assert (ft = TStr) by (apply Hver; left; reflexivity). subst ft.
      destruct x; cbn [mp_wf] in Hv1; try contradiction. cbn [mp_enc]. unfold mp_dstr at 1.
      rewrite mp_rd_str_wr by exact Hv1. cbn [mp_set].
      apply IH; auto. intros ft Hin. apply Hver. right. exact Hin.
    + rewrite mp_skip_enc by assumption.
      apply IH; auto. intros ft' Hin. apply Hver. right. exact Hin.
Qed.

Lemma mp_peek_struct fs vs rest :
  mp_wf_ty (TStruct fs) -> mp_wf (TStruct fs) (VStruct vs) ->
  (forall ft, In (mp_version_key, ft) fs -> ft = TStr) ->
  mp_peek_version (mp_enc (TStruct fs) (VStruct vs) ++ rest)
  = Some (match mp_version_of fs vs with [] => mp_v1 | s => s end).
Proof.
  intros Ht Hv Hver. rewrite mp_wf_ty_struct_eq in Ht. destruct Ht as (Hn & _ & Hk & Htf).
  rewrite mp_wf_struct_eq in Hv. rewrite mp_enc_struct_eq, <- app_assoc.
  unfold mp_peek_version, mp_dec_struct. rewrite mp_rd_maphdr_wr by lia.
  pose proof (mp_enc_fields_length_ge fs vs Htf Hv) as Hge.
  destruct (Z.ltb_spec (Z.of_nat (length (mp_enc_fields fs vs ++ rest))) (Z.of_nat (length fs))) as [Hl|_];
    [rewrite app_length in Hl; lia|].
  rewrite Nat2Z.id. fold mp_dstr. rewrite mp_peek_fields by assumption.
  unfold mp_version_of. destruct (mp_version_fold [] fs vs); reflexivity.
Qed.

(* ----- the main theorem ----- *)

Theorem mp_dec_enc t : mp_wf_ty t -> forall v rest, mp_wf t v ->
  mp_dec t (mp_enc t v ++ rest) = Some (v, rest).
Proof.
  induction t using mp_ty_ind'; intros Ht v rest Hv; try (exfalso; exact Ht);
    destruct v; cbn [mp_wf] in Hv; try contradiction.
  - cbn [mp_dec mp_enc]. rewrite mp_rd_bool_wr. reflexivity.
  - cbn [mp_dec mp_enc]. rewrite mp_rd_int_wr by assumption. reflexivity.
  - cbn [mp_dec mp_enc]. rewrite mp_rd_uint_wr by assumption. reflexivity.
  - cbn [mp_dec mp_enc]. rewrite mp_rd_f64_wr by assumption. reflexivity.
  - cbn [mp_dec mp_enc]. rewrite mp_rd_str_wr by assumption. reflexivity.
  - cbn [mp_dec mp_enc]. rewrite mp_rd_bin_wr by assumption. reflexivity.
  - (* array *)
    cbn [mp_dec mp_enc mp_wf_ty] in *. destruct Hv as [Hl Hall]. rewrite Forall_forall in Hall.
    rewrite <- app_assoc, mp_rd_arrhdr_wr by lia.
    assert (Hge : (1 * length l <= length (flat_map (mp_enc t) l))%nat).
    { apply mp_flat_map_length_ge. intros x Hx. apply mp_enc_length; auto. }
    destruct (Z.ltb_spec (Z.of_nat (length (flat_map (mp_enc t) l ++ rest))) (Z.of_nat (length l))) as [Hlt|_];
      [rewrite app_length in Hlt; lia|].
    rewrite Nat2Z.id, mp_dec_n_flat; [reflexivity|]. intros x Hx r. apply IHt; auto.
  - (* map *)
    cbn [mp_dec mp_enc mp_wf_ty] in *. destruct Hv as (Hl & Hs & Hall). rewrite Forall_forall in Hall.
    rewrite <- app_assoc, mp_rd_maphdr_wr by lia.
    set (g := fun kv : list Z * mp_val => mp_wr_str (fst kv) ++ mp_enc t (snd kv)).
    assert (Hge : (1 * length l <= length (flat_map g l))%nat).
    { apply mp_flat_map_length_ge. intros x Hx. unfold g. rewrite app_length.
      pose proof (mp_enc_length t (snd x) Ht (proj2 (Hall x Hx))). lia. }
    destruct (Z.ltb_spec (Z.of_nat (length (flat_map g l ++ rest))) (Z.of_nat (length l))) as [Hlt|_];
      [rewrite app_length in Hlt; lia|].
    rewrite Nat2Z.id. unfold g. rewrite (mp_dec_map_flat (mp_dec t) (mp_enc t) l [] rest); [reflexivity|exact Hs|].
    intros kv Hin. split; [apply (Hall kv Hin)|]. intros r. apply IHt; [exact Ht|apply (Hall kv Hin)].
  - (* pointer *)
    destruct Ht as [Ht Hp]. destruct o as [x|]; cbn [mp_dec mp_enc].
    + destruct (mp_enc_head t Ht x Hv) as (a & tl & E & Hn). specialize (Hn Hp).
      rewrite E. cbn [app]. destruct (Z.eqb_spec a 192) as [|_]; [contradiction|].
      change (a :: tl ++ rest) with ((a :: tl) ++ rest). rewrite <- E. rewrite IHt by assumption. reflexivity.
    + reflexivity.
  - (* struct *)
    rewrite mp_dec_struct_eq, mp_enc_struct_eq. change (mp_wf_fields fs l) in Hv.
    rewrite mp_wf_ty_struct_eq in Ht. destruct Ht as (Hn & Hnd & Hk & Htf).
    rewrite <- app_assoc. unfold mp_dec_struct. rewrite mp_rd_maphdr_wr by lia.
    pose proof (mp_enc_fields_length_ge fs l Htf Hv) as Hge.
    destruct (Z.ltb_spec (Z.of_nat (length (mp_enc_fields fs l ++ rest))) (Z.of_nat (length fs))) as [Hlt|_];
      [rewrite app_length in Hlt; lia|].
    rewrite Nat2Z.id.
    assert (Hd : mp_dec_fields (mp_decs fs) (length fs) (mp_zeros fs) (mp_enc_fields fs l ++ rest) = Some (l, rest)).
    { apply (mp_dec_fields_enc fs [] [] l rest); auto.
      clear - H Htf. induction fs as [|[k ft] fs IH]; [constructor|].
      destruct Htf as [Ht1 Ht2]. inversion H as [|? ? Hh Htl]; subst. constructor; [|apply IH; auto].
      cbn [snd] in *. intros x r Hx. apply Hh; auto. }
    rewrite Hd. reflexivity.
  - (* versions *)
    rewrite mp_dec_ver_eq, mp_enc_ver_eq.
    pose proof (fun k a => mp_wf_ty_alts_In alts k a Ht) as Hin. clear Ht.
    (* the bytes are those of the first alternative whose tag matches *)
    assert (Hfind : exists at_ fs vs, v = VStruct vs /\ at_ = TStruct fs /\
              mp_enc_alt alts tag v = mp_enc at_ v /\ mp_wf_ty at_ /\ mp_wf at_ v /\
              (forall ft, In (mp_version_key, ft) fs -> ft = TStr) /\
              (match mp_version_of fs vs with [] => mp_v1 | s => s end) = tag /\
              (forall b, mp_dec_alt alts tag b = match mp_dec at_ b with Some (x, r) => Some (VVer tag x, r) | None => None end) /\
              (forall x r, mp_wf at_ x -> mp_dec at_ (mp_enc at_ x ++ r) = Some (x, r))).
    { revert Hv. induction alts as [|[k at_] tl IH]; [intros []|].
      inversion H as [|? ? Hhd Htl]; subst. cbn [snd] in Hhd. cbn [mp_enc_alt mp_dec_alt].
      destruct (mp_key_eqb k tag) eqn:E.
      - intros [Hw Hver]. destruct (Hin k at_ ltac:(left; reflexivity)) as (Hta & fs & -> & Hvk).
        destruct v; try contradiction. exists (TStruct fs), fs, l.
        split; [reflexivity|]. split; [reflexivity|]. split; [reflexivity|]. split; [exact Hta|].
        split; [exact Hw|]. split; [exact Hvk|]. split; [exact Hver|]. split; [intros b; reflexivity|].
        intros x r Hx. apply Hhd; auto.
      - intros Hv. destruct IH as (a & fs & vs & H1 & H2 & H3 & H4 & H5 & H6 & H7 & H8 & H9); auto.
        { intros k' a' Hi. apply (Hin k' a'). right. exact Hi. }
        exists a, fs, vs. split; [exact H1|]. split; [exact H2|]. split; [exact H3|]. split; [exact H4|].
        split; [exact H5|]. split; [exact H6|]. split; [exact H7|]. split; [exact H8|exact H9]. }
    destruct Hfind as (at_ & fs & vs & -> & -> & He & Hta & Hw & Hvk & Htag & Hda & Hrt).
    rewrite He. rewrite mp_peek_struct by assumption. rewrite Htag, Hda, Hrt by exact Hw. reflexivity.
Qed.

(* re-encoding what was decoded gives the same bytes *)
Corollary mp_enc_dec_enc t v : mp_wf_ty t -> mp_wf t v ->
  exists v', mp_dec t (mp_enc t v) = Some (v', []) /\ mp_enc t v' = mp_enc t v.
Proof.
  intros Ht Hv. exists v. split; [|reflexivity].
  rewrite <- (app_nil_r (mp_enc t v)) at 1. apply mp_dec_enc; assumption.
Qed.

(* decoding is injective on encodings: different values have different bytes *)
Corollary mp_enc_inj t v1 v2 : mp_wf_ty t -> mp_wf t v1 -> mp_wf t v2 ->
  mp_enc t v1 = mp_enc t v2 -> v1 = v2.
Proof.
  intros Ht H1 H2 E. pose proof (mp_dec_enc t Ht v1 [] H1) as D1. pose proof (mp_dec_enc t Ht v2 [] H2) as D2.
  rewrite E in D1. rewrite D1 in D2. inversion D2. reflexivity.
Qed.

(* ---------- a decision procedure for well-formed schemas ---------- *)

Fixpoint mp_nodupb (l : list (list Z)) : bool :=
  match l with
  | [] => true
  | k :: tl => negb (existsb (mp_key_eqb k) tl) && mp_nodupb tl
  end.

Definition mp_bitsb (b : Z) : bool := (b =? 8) || (b =? 16) || (b =? 32) || (b =? 64).

Definition mp_version_str (kt : list Z * mp_ty) : bool :=
  if mp_key_eqb (fst kt) mp_version_key then match snd kt with TStr => true | _ => false end else true.

Fixpoint mp_wf_tyb (t : mp_ty) : bool :=
  match t with
  | TInt b | TUint b => mp_bitsb b
  | TArr e | TMap e => mp_wf_tyb e
  | TPtr e => mp_wf_tyb e && negb (mp_is_ptr e)
  | TStruct fs =>
      (Z.of_nat (length fs) <? 2 ^ 32) && mp_nodupb (map fst fs) &&
      forallb (fun kt => Z.of_nat (length (fst kt)) <? 2 ^ 32) fs &&
      (fix all (l : list (list Z * mp_ty)) : bool :=
         match l with (_, ft) :: tl => mp_wf_tyb ft && all tl | [] => true end) fs
  | TVer alts =>
      (fix all (l : list (list Z * mp_ty)) : bool :=
         match l with
         | (_, at_) :: tl =>
             mp_wf_tyb at_ && match at_ with TStruct fs => forallb mp_version_str fs | _ => false end && all tl
         | [] => true
         end) alts
  | TDrop _ => false
  | _ => true
  end.

Lemma mp_nodupb_sound l : mp_nodupb l = true -> NoDup l.
Proof.
  induction l as [|k l IH]; intros H; [constructor|]. cbn in H. apply andb_prop in H. destruct H as [H1 H2].
  constructor; [|apply IH; exact H2]. intros Hin. apply negb_true_iff in H1.
  assert (existsb (mp_key_eqb k) l = true); [|congruence].
  apply existsb_exists. exists k. split; [exact Hin|apply mp_key_eqb_refl].
Qed.

Lemma mp_wf_tyb_sound t : mp_wf_tyb t = true -> mp_wf_ty t.
Proof.
  induction t using mp_ty_ind'; intros Hb; cbn [mp_wf_tyb mp_wf_ty] in *; auto; try discriminate.
  - unfold mp_bitsb, mp_int_bits in *. lia.
  - unfold mp_bitsb, mp_int_bits in *. lia.
  - apply andb_prop in Hb. destruct Hb as [H1 H2]. split; [auto|]. apply negb_true_iff in H2. exact H2.
  - apply andb_prop in Hb. destruct Hb as [Hb H4]. apply andb_prop in Hb. destruct Hb as [Hb H3].
    apply andb_prop in Hb. destruct Hb as [H1 H2].
    split; [lia|]. split; [apply mp_nodupb_sound; exact H2|]. split.
    + apply Forall_forall. intros kt Hin. rewrite forallb_forall in H3. specialize (H3 kt Hin). lia.
    + clear H1 H2 H3. induction fs as [|[k ft] fs IH]; [exact I|].
      apply andb_prop in H4. destruct H4 as [Ha Hb]. inversion H as [|? ? Hh Htl]; subst. split; [apply Hh; exact Ha|apply IH; auto].
  - induction alts as [|[k at_] tl IH]; [exact I|].
    apply andb_prop in Hb. destruct Hb as [Hb H3]. apply andb_prop in Hb. destruct Hb as [H1 H2].
    inversion H as [|? ? Hh Htl]; subst. split; [|apply IH; auto]. split; [apply Hh; exact H1|].
    destruct at_; try discriminate. exists fs. split; [reflexivity|]. intros ft Hin.
    rewrite forallb_forall in H2. specialize (H2 _ Hin). unfold mp_version_str in H2. cbn [fst snd] in H2.
    rewrite mp_key_eqb_refl in H2. destruct ft; try discriminate. reflexivity.
Qed.

(* ---------- migration keeps the common fields ---------- *)

Fixpoint mp_first (k : list Z) (fs : list (list Z * mp_ty)) : option mp_ty :=
  match fs with
  | (k', ft) :: tl => if mp_key_eqb k' k then Some ft else mp_first k tl
  | [] => None
  end.

Lemma mp_lookup_map k (g : list Z * mp_ty -> mp_val) fs :
  mp_lookup_field k fs (map g fs) =
  (fix go (l : list (list Z * mp_ty)) : option (mp_ty * mp_val) :=
     match l with
     | (k', ft) :: tl => if mp_key_eqb k' k then Some (ft, g (k', ft)) else go tl
     | [] => None
     end) fs.
Proof.
  induction fs as [|[k' ft] fs IH]; [reflexivity|]. cbn [map mp_lookup_field].
  destruct (mp_key_eqb k' k); [reflexivity|exact IH].
Qed.

Lemma mp_migrate_keeps_common tag fs_old vs_old fs_new k ft x ftn :
  k <> mp_version_key -> mp_lookup_field k fs_old vs_old = Some (ft, x) ->
  mp_first k fs_new = Some ftn -> mp_ty_eqb ft ftn = true ->
  mp_lookup_field k fs_new (mp_migrate tag fs_old vs_old fs_new) = Some (ftn, x).
Proof.
  intros Hk Hold Hnew Heq. unfold mp_migrate. rewrite mp_lookup_map.
  induction fs_new as [|[k' t'] tl IH]; [discriminate|]. cbn [mp_first] in Hnew.
  destruct (mp_key_eqb k' k) eqn:E; [|apply IH; exact Hnew].
  apply mp_key_eqb_eq in E. subst k'. inversion Hnew. subst t'. cbn [fst snd].
  rewrite mp_key_eqb_neq by exact Hk. rewrite Hold, Heq. reflexivity.
Qed.

Lemma mp_migrate_sets_version tag fs_old vs_old fs_new ftn :
  mp_first mp_version_key fs_new = Some ftn ->
  mp_lookup_field mp_version_key fs_new (mp_migrate tag fs_old vs_old fs_new) = Some (ftn, VStr tag).
Proof.
  intros Hnew. unfold mp_migrate. rewrite mp_lookup_map.
  induction fs_new as [|[k' t'] tl IH]; [discriminate|]. cbn [mp_first] in Hnew.
  destruct (mp_key_eqb k' mp_version_key) eqn:E; [|apply IH; exact Hnew].
  inversion Hnew. subst t'. cbn [fst snd]. rewrite E. reflexivity.
Qed.

(* ---------- types whose UnmarshalMsg copies nothing back ---------- *)

Lemma mp_drop_reads_zero e v rest : mp_wf_ty e -> mp_wf e v ->
  mp_dec (TDrop e) (mp_enc (TDrop e) v ++ rest) = Some (mp_zero e, rest).
Proof.
  intros Ht Hv. cbn [mp_dec mp_enc]. destruct v; rewrite mp_dec_enc by assumption; reflexivity.
Qed.

Lemma mp_drop_loses e v rest : mp_wf_ty e -> mp_wf e v -> v <> mp_zero e ->
  mp_dec (TDrop e) (mp_enc (TDrop e) v ++ rest) <> Some (v, rest).
Proof.
  intros Ht Hv Hne H. rewrite mp_drop_reads_zero in H by assumption. inversion H. congruence.
Qed.
