(* Correspondence for C41: a case is a history of events fed to the real LFB ticket worker
   (remote tickets through the real LFBTicketHandler, kicks through AddReceivedLFBTicket, own
   blocks through BroadcastLFBTicket) with, after every event, the ticket GetLatestLFBTicket
   returned.  [lfc_verdicts]: what verifyLFBTicket said about each ticket of each remote batch. *)
From ZC Require Import Base.Corr Model.LFB.
Open Scope Z_scope.

(* verifyLFBTicket in /repo: [false] = as written (signer looked up in the global node
   registry); set to [true] when it looks the signer up among the current magic block's sharders *)
Definition lf_code_fixed : bool := false.

(* nodes: (id, kind: 0 miner / 1 sharder, in current magic block) *)
Inductive lf_case :=
| LfCase (nodes : list (Z * Z * bool)) (self_sharder : bool) (init_round init_hash : Z)
         (evs : list lf_event) (obs : list (Z * Z * Z))   (* round, origin code, hash *)
         (verdicts : list (list bool)).

Definition lf_mk_nodes (l : list (Z * Z * bool)) : list lf_node :=
  map (fun x => {| lf_nid := fst (fst x); lf_nkind := if Z.eqb (snd (fst x)) 1 then LfSharder else LfMiner;
                   lf_in_mb := snd x |}) l.

(* origin code: -1 own, -2 kick, otherwise the signer id *)
Definition lf_origin_code (o : lf_origin) : Z :=
  match o with OOwn => -1 | OKick => -2 | ORemote s => s end.

Definition lf_obs_of (st : lf_latest) : Z * Z * Z := (ll_round st, lf_origin_code (ll_origin st), ll_hash st).

Definition lf_obs_eqb (a b : Z * Z * Z) : bool :=
  Z.eqb (fst (fst a)) (fst (fst b)) && Z.eqb (snd (fst a)) (snd (fst b)) &&
  (* the hash of a kick ticket is empty: not compared *)
  (Z.eqb (snd (fst a)) (-2) || Z.eqb (snd a) (snd b)).

Definition lf_verdicts (fixed : bool) (nodes : list lf_node) (evs : list lf_event) : list (list bool) :=
  flat_map (fun e => match e with LfRemote batch => [map (lf_verify fixed nodes) batch] | _ => [] end) evs.

Definition lf_check (c : lf_case) : bool :=
  match c with
  | LfCase nodes ss r h evs obs verdicts =>
      let ns := lf_mk_nodes nodes in
      list_eqb lf_obs_eqb (map lf_obs_of (lf_run lf_code_fixed ns ss (lf_init r h) evs)) obs &&
      list_eqb (list_eqb Bool.eqb) (lf_verdicts lf_code_fixed ns evs) verdicts
  end.
