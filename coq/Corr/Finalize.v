(* Correspondence for C36: cases are runs of the real chain package.
   [FcCompute]: a block tree, the notarized blocks known per round, and the block the real
   ComputeFinalizedBlock returned (None = nil).
   [FcHistory]: a history of learning notarized blocks and running the real finalizeRound
   (finalized-block worker stubbed by the harness: connectivity test, round.Finalize,
   SetLatestFinalizedBlock); after every op the LFB and the blocks handed to the worker. *)
From ZC Require Import Base.Corr Model.Finalize.

Inductive fz_case :=
| FcCompute (t : list (nat * nat * option nat)) (known : fz_rounds) (lfbr r : nat) (res : option nat)
| FcHistory (t : list (nat * nat * option nat)) (ahead g : nat) (rounds : list nat) (ops : list fz_op)
            (obs : list (nat * list (nat * bool))).

Definition fz_mk (t : list (nat * nat * option nat)) : fz_tree :=
  map (fun x => {| fz_id := fst (fst x); fz_round := snd (fst x); fz_parent := snd x |}) t.

Definition fz_handoff_eqb (a b : nat * bool) : bool := Nat.eqb (fst a) (fst b) && Bool.eqb (snd a) (snd b).

Definition fz_check (c : fz_case) : bool :=
  match c with
  | FcCompute t known lfbr r res =>
      match fz_compute (fz_mk t) known lfbr r, res with
      | FzSome x, Some y => Nat.eqb x y
      | FzNone, None => true
      | _, _ => false
      end
  | FcHistory t ahead g rounds ops obs =>
      list_eqb (fun a b => Nat.eqb (fst a) (fst b) && list_eqb fz_handoff_eqb (snd a) (snd b))
               (map (fun x => (fz_lfb (fst x), snd x)) (fz_run (fz_mk t) ahead (fz_init g rounds) ops))
               obs
  end.
