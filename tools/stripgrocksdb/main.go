// stripgrocksdb copies grocksdb v1.8.1 from the module cache and removes the
// declarations that do not compile against the installed RocksDB 7.8.3 (none of
// them is used by 0chain or 0chain/common).  Usage: stripgrocksdb <src> <dst>
package main

import (
	"bytes"
	"fmt"
	"go/ast"
	"go/parser"
	"go/printer"
	"go/token"
	"os"
	"path/filepath"
	"strings"
)

var dropFuncs = map[string]bool{
	"NewHyperClockCache": true, "NewHyperClockCacheWithOpts": true, "NewHyperClockCacheOptions": true,
	"DB.FlushCFs": true, "TransactionDB.FlushCFs": true,
	"BlockBasedTableOptions.SetOptimizeFiltersForMemory": true,
	"FIFOCompactionOptions.SetAllowCompaction":           true, "FIFOCompactionOptions.AllowCompaction": true,
	"IngestExternalFileOptions.SetFailIfNotBottommostLevel": true,
	"ReadOptions.SetAsyncIO":                               true, "ReadOptions.IsAsyncIO": true,
}
var dropTypes = map[string]bool{"HyperClockCacheOptions": true}

func recvName(fd *ast.FuncDecl) string {
	if fd.Recv == nil || len(fd.Recv.List) == 0 {
		return ""
	}
	t := fd.Recv.List[0].Type
	if s, ok := t.(*ast.StarExpr); ok {
		t = s.X
	}
	if id, ok := t.(*ast.Ident); ok {
		return id.Name
	}
	return ""
}

func main() {
	src, dst := os.Args[1], os.Args[2]
	if err := os.MkdirAll(dst, 0o755); err != nil {
		panic(err)
	}
	ents, err := os.ReadDir(src)
	if err != nil {
		panic(err)
	}
	removed := 0
	for _, e := range ents {
		if e.IsDir() {
			continue
		}
		name := e.Name()
		if strings.HasSuffix(name, "_test.go") {
			continue
		}
		data, err := os.ReadFile(filepath.Join(src, name))
		if err != nil {
			panic(err)
		}
		if strings.HasSuffix(name, ".go") {
			fset := token.NewFileSet()
			f, err := parser.ParseFile(fset, name, data, parser.ParseComments)
			if err != nil {
				panic(err)
			}
			var keep []ast.Decl
			changed := false
			for _, d := range f.Decls {
				switch x := d.(type) {
				case *ast.FuncDecl:
					key := x.Name.Name
					if r := recvName(x); r != "" {
						key = r + "." + key
						if dropTypes[r] {
							changed = true
							removed++
							continue
						}
					}
					if dropFuncs[key] {
						changed = true
						removed++
						continue
					}
				case *ast.GenDecl:
					if x.Tok == token.TYPE && len(x.Specs) == 1 {
						if ts, ok := x.Specs[0].(*ast.TypeSpec); ok && dropTypes[ts.Name.Name] {
							changed = true
							removed++
							continue
						}
					}
				}
				keep = append(keep, d)
			}
			if changed {
				// cut the removed decls out of the source text (keeps cgo preamble intact)
				var out bytes.Buffer
				pos := 0
				for _, d := range f.Decls {
					found := false
					for _, k := range keep {
						if k == d {
							found = true
						}
					}
					if found {
						continue
					}
					start := fset.Position(d.Pos()).Offset
					if fd, ok := d.(*ast.FuncDecl); ok && fd.Doc != nil {
						start = fset.Position(fd.Doc.Pos()).Offset
					}
					if gd, ok := d.(*ast.GenDecl); ok && gd.Doc != nil {
						start = fset.Position(gd.Doc.Pos()).Offset
					}
					end := fset.Position(d.End()).Offset
					out.Write(data[pos:start])
					pos = end
				}
				out.Write(data[pos:])
				data = out.Bytes()
				_ = printer.Fprint
			}
		}
		if err := os.WriteFile(filepath.Join(dst, name), data, 0o644); err != nil {
			panic(err)
		}
	}
	fmt.Printf("stripgrocksdb: removed %d declarations\n", removed)
}
