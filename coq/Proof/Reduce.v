(* Proofs about the view-change node selection model (property C39). *)
From ZC Require Import Model.Reduce.
From Coq Require Import Sorting.Sorted Sorting.Permutation.
Open Scope Z_scope.

(* ---------- the order used by both sorts ---------- *)

Definition rd_before (a b : rd_node) : Prop :=
  rd_stake a > rd_stake b \/ (rd_stake a = rd_stake b /\ rd_id a < rd_id b).

Lemma rd_less_iff a b : rd_less a b = true <-> rd_before a b.
Proof.
  unfold rd_less, rd_before. destruct (Z.eqb_spec (rd_stake a) (rd_stake b)) as [E|E].
  - rewrite Z.ltb_lt. split; [intros H; right; split; assumption | intros [H|[_ H]]; [lia|assumption]].
  - rewrite Z.gtb_lt. split; [intros H; left; lia | intros [H|[H _]]; [lia|congruence]].
Qed.

Lemma rd_before_asym a b : rd_before a b -> rd_before b a -> False.
Proof. unfold rd_before. lia. Qed.

Lemma rd_before_trans a b c : rd_before a b -> rd_before b c -> rd_before a c.
Proof. unfold rd_before. lia. Qed.

Lemma rd_total a b : rd_id a <> rd_id b -> rd_before a b \/ rd_before b a.
Proof. unfold rd_before. lia. Qed.

Definition rd_sorted (l : list rd_node) : Prop := StronglySorted rd_before l.
Definition rd_desc (l : list rd_node) : Prop := StronglySorted (fun a b => rd_stake a >= rd_stake b) l.

Lemma rd_ins_perm x l : Permutation (x :: l) (rd_ins x l).
Proof.
  induction l as [|y t IH]; cbn [rd_ins]; [apply Permutation_refl|].
  destruct (rd_less y x); [|apply Permutation_refl].
  eapply Permutation_trans; [apply perm_swap|]. apply perm_skip. exact IH.
Qed.

Lemma rd_sort_perm l : Permutation l (rd_sort l).
Proof.
  induction l as [|x t IH]; cbn [rd_sort fold_right]; [apply Permutation_refl|].
  eapply Permutation_trans; [apply perm_skip; exact IH|]. apply rd_ins_perm.
Qed.

Lemma rd_ins_sorted x l : rd_sorted l -> (forall y, In y l -> rd_id y <> rd_id x) -> rd_sorted (rd_ins x l).
Proof.
  unfold rd_sorted. induction l as [|y t IH]; intros Hs Hid; cbn [rd_ins].
  - constructor; constructor.
  - inversion Hs as [|? ? Hs' Hf]; subst. rewrite Forall_forall in Hf.
    destruct (rd_less y x) eqn:El.
    + apply rd_less_iff in El. constructor.
      * apply IH; [assumption|]. intros z Hz. apply Hid. right. assumption.
      * rewrite Forall_forall. intros z Hz.
        apply (Permutation_in _ (Permutation_sym (rd_ins_perm x t))) in Hz.
        destruct Hz as [->|Hz]; [assumption|apply Hf; assumption].
    + assert (Hxy : rd_before x y).
      { destruct (rd_total x y) as [H|H]; [intros E; apply (Hid y); [left; reflexivity|congruence]|assumption|].
        apply rd_less_iff in H. congruence. }
      constructor; [constructor; [assumption|rewrite Forall_forall; assumption]|].
      constructor; [assumption|]. rewrite Forall_forall. intros z Hz.
      eapply rd_before_trans; [exact Hxy|apply Hf; assumption].
Qed.

Lemma rd_sort_sorted l : NoDup (map rd_id l) -> rd_sorted (rd_sort l).
Proof.
  induction l as [|x t IH]; intros Hn; cbn [rd_sort fold_right]; [constructor|].
  cbn [map] in Hn. inversion Hn as [|? ? Hni Hn']; subst. apply rd_ins_sorted; [apply IH; assumption|].
  intros y Hy E. apply Hni. rewrite <- E. apply in_map.
  apply (Permutation_in _ (Permutation_sym (rd_sort_perm t))). assumption.
Qed.

Lemma rd_sorted_perm_unique a : forall b, rd_sorted a -> rd_sorted b -> Permutation a b -> a = b.
Proof.
  unfold rd_sorted. induction a as [|x a' IH]; intros b Ha Hb Hp.
  - apply Permutation_nil in Hp. congruence.
  - destruct b as [|y b']; [apply Permutation_sym, Permutation_nil in Hp; discriminate|].
    inversion Ha as [|? ? Ha' Hfa]; subst. inversion Hb as [|? ? Hb' Hfb]; subst.
    rewrite Forall_forall in Hfa, Hfb.
    assert (Hxy : x = y).
    { assert (Hx : In x (y :: b')) by (apply (Permutation_in _ Hp); left; reflexivity).
      assert (Hy : In y (x :: a')) by (apply (Permutation_in _ (Permutation_sym Hp)); left; reflexivity).
      destruct Hx as [Hx|Hx]; [congruence|]. destruct Hy as [Hy|Hy]; [congruence|].
      exfalso. eapply rd_before_asym; [apply Hfa; exact Hy|apply Hfb; exact Hx]. }
    subst y. f_equal. apply IH; try assumption. eapply Permutation_cons_inv. eassumption.
Qed.

Lemma rd_sort_perm_eq l l' : NoDup (map rd_id l) -> Permutation l l' -> rd_sort l = rd_sort l'.
Proof.
  intros Hn Hp. apply rd_sorted_perm_unique.
  - apply rd_sort_sorted. assumption.
  - apply rd_sort_sorted. eapply Permutation_NoDup; [apply Permutation_map; exact Hp|assumption].
  - eapply Permutation_trans; [apply Permutation_sym, rd_sort_perm|].
    eapply Permutation_trans; [exact Hp|apply rd_sort_perm].
Qed.

Lemma rd_sorted_desc l : rd_sorted l -> rd_desc l.
Proof.
  unfold rd_sorted, rd_desc. induction 1 as [|h t Hs IH Hf]; constructor; [assumption|].
  rewrite Forall_forall in *. intros y Hy. specialize (Hf y Hy). unfold rd_before in Hf. lia.
Qed.

Lemma rd_desc_app a b : rd_desc (a ++ b) ->
  rd_desc a /\ rd_desc b /\ forall x y, In x a -> In y b -> rd_stake x >= rd_stake y.
Proof.
  unfold rd_desc. induction a as [|h t IH]; cbn [app]; intros H.
  - repeat split; [constructor|assumption|intros x y []].
  - inversion H as [|? ? Hs Hf]; subst. destruct (IH Hs) as (Ha & Hb & Hab).
    rewrite Forall_app in Hf. destruct Hf as [Hf1 Hf2]. repeat split; [constructor; assumption|assumption|].
    intros x y [->|Hx] Hy; [rewrite Forall_forall in Hf2; apply Hf2; assumption|apply Hab; assumption].
Qed.

(* ---------- a stake-descending list splits at any stake c into above / tied / below ---------- *)

Definition rd_above (c : Z) (l : list rd_node) := filter (fun n => Z.gtb (rd_stake n) c) l.
Definition rd_tied (c : Z) (l : list rd_node) := filter (fun n => Z.eqb (rd_stake n) c) l.
Definition rd_below (c : Z) (l : list rd_node) := filter (fun n => Z.ltb (rd_stake n) c) l.

Lemma rd_filter_none {A} (f : A -> bool) l : (forall x, In x l -> f x = false) -> filter f l = [].
Proof.
  induction l as [|h t IH]; intros H; [reflexivity|]. cbn [filter]. rewrite (H h (or_introl eq_refl)).
  apply IH. intros x Hx. apply H. right. assumption.
Qed.

Lemma rd_filter_all {A} (f : A -> bool) l : (forall x, In x l -> f x = true) -> filter f l = l.
Proof.
  induction l as [|h t IH]; intros H; [reflexivity|]. cbn [filter]. rewrite (H h (or_introl eq_refl)).
  f_equal. apply IH. intros x Hx. apply H. right. assumption.
Qed.

Lemma rd_split3 l c : rd_desc l -> l = rd_above c l ++ rd_tied c l ++ rd_below c l.
Proof.
  unfold rd_desc, rd_above, rd_tied, rd_below. induction 1 as [|h t Hs IH Hf]; [reflexivity|].
  rewrite Forall_forall in Hf. cbn [filter].
  destruct (Z.gtb_spec (rd_stake h) c) as [Hgt|Hle].
  - destruct (Z.eqb_spec (rd_stake h) c); [lia|]. destruct (Z.ltb_spec (rd_stake h) c); [lia|].
    cbn [app]. f_equal. exact IH.
  - destruct (Z.eqb_spec (rd_stake h) c) as [He|Hne].
    + destruct (Z.ltb_spec (rd_stake h) c); [lia|].
      rewrite (rd_filter_none (fun n => Z.gtb (rd_stake n) c) t) in *
        by (intros x Hx; specialize (Hf x Hx); destruct (Z.gtb_spec (rd_stake x) c); [lia|reflexivity]).
      cbn [app] in *. f_equal. exact IH.
    + destruct (Z.ltb_spec (rd_stake h) c); [|lia].
      rewrite (rd_filter_none (fun n => Z.gtb (rd_stake n) c) t) in *
        by (intros x Hx; specialize (Hf x Hx); destruct (Z.gtb_spec (rd_stake x) c); [lia|reflexivity]).
      rewrite (rd_filter_none (fun n => Z.eqb (rd_stake n) c) t) in *
        by (intros x Hx; specialize (Hf x Hx); destruct (Z.eqb_spec (rd_stake x) c); [lia|reflexivity]).
      cbn [app] in *. f_equal. exact IH.
Qed.

Lemma rd_above_stake c l x : In x (rd_above c l) -> rd_stake x > c.
Proof. unfold rd_above. rewrite filter_In. intros [_ H]. apply Z.gtb_lt in H. lia. Qed.
Lemma rd_tied_stake c l x : In x (rd_tied c l) -> rd_stake x = c.
Proof. unfold rd_tied. rewrite filter_In. intros [_ H]. apply Z.eqb_eq in H. assumption. Qed.
Lemma rd_below_stake c l x : In x (rd_below c l) -> rd_stake x < c.
Proof. unfold rd_below. rewrite filter_In. intros [_ H]. apply Z.ltb_lt in H. assumption. Qed.

(* ---------- the index scan over above ++ tied ++ below ---------- *)

Lemma rd_scan_above fixed A : forall rest i c s found total,
  (forall a, In a A -> rd_stake a > c) ->
  rd_scan fixed (A ++ rest) i c s found total = rd_scan fixed rest (i + length A) c s found total.
Proof.
  induction A as [|a A' IH]; intros rest i c s found total H; cbn [app length].
  - rewrite Nat.add_0_r. reflexivity.
  - cbn [rd_scan]. assert (Ha := H a (or_introl eq_refl)).
    destruct (Z.eqb_spec (rd_stake a) c); [lia|]. rewrite andb_false_r.
    destruct (Z.ltb_spec (rd_stake a) c); [lia|].
    rewrite IH by (intros x Hx; apply H; right; assumption). f_equal. lia.
Qed.

(* once the start can no longer move, the scan only looks for the end *)
Lemma rd_scan_end (fixed : bool) G : forall B (i : nat) c (s : nat) (found : bool) (total : nat),
  (if fixed then negb found else Nat.eqb s 0%nat) = false ->
  (forall g, In g G -> rd_stake g = c) -> (forall b, In b B -> rd_stake b < c) ->
  total = (i + length G + length B)%nat ->
  rd_scan fixed (G ++ B) i c s found total = (s, (i + length G)%nat).
Proof.
  induction G as [|g G' IH]; intros B i c s found total Hc HG HB Ht; cbn [app length].
  - rewrite Nat.add_0_r. destruct B as [|b B']; cbn [rd_scan]; [cbn [length] in Ht; f_equal; lia|].
    rewrite Hc. cbn [andb]. assert (Hb := HB b (or_introl eq_refl)).
    destruct (Z.ltb_spec (rd_stake b) c); [reflexivity|lia].
  - cbn [rd_scan]. rewrite Hc. cbn [andb]. assert (Hg := HG g (or_introl eq_refl)).
    destruct (Z.ltb_spec (rd_stake g) c); [lia|].
    rewrite IH; try assumption; [f_equal; lia | intros x Hx; apply HG; right; assumption | cbn [length] in Ht; lia].
Qed.

(* the repaired scan: [s, e) is exactly the tied range *)
Lemma rd_scan_fixed A G B c :
  G <> [] ->
  (forall a, In a A -> rd_stake a > c) -> (forall g, In g G -> rd_stake g = c) -> (forall b, In b B -> rd_stake b < c) ->
  rd_scan true (A ++ G ++ B) 0%nat c 0%nat false (length (A ++ G ++ B)) = (length A, (length A + length G)%nat).
Proof.
  intros Hne HA HG HB. rewrite rd_scan_above by assumption. cbn [Nat.add].
  destruct G as [|g G']; [congruence|]. cbn [app rd_scan negb andb].
  rewrite (HG g (or_introl eq_refl)), Z.eqb_refl.
  rewrite (rd_scan_end true G' B (S (length A)) c (length A) true); try reflexivity; try assumption.
  - f_equal. cbn [length]. lia.
  - intros x Hx. apply HG. right. assumption.
  - repeat (rewrite app_length || cbn [length]). lia.
Qed.

(* the scan as it is: the start is mis-tracked exactly when nothing is above the tie and the tie
   has at least two members *)
Lemma rd_scan_unfixed A G B c :
  G <> [] ->
  (forall a, In a A -> rd_stake a > c) -> (forall g, In g G -> rd_stake g = c) -> (forall b, In b B -> rd_stake b < c) ->
  rd_scan false (A ++ G ++ B) 0%nat c 0%nat false (length (A ++ G ++ B)) =
    if Nat.eqb (length A) 0%nat && Nat.leb 2%nat (length G) then (1%nat, length G)
    else (length A, (length A + length G)%nat).
Proof.
  intros Hne HA HG HB. rewrite rd_scan_above by assumption. cbn [Nat.add].
  destruct G as [|g G']; [congruence|]. cbn [app rd_scan Nat.eqb andb].
  rewrite (HG g (or_introl eq_refl)), Z.eqb_refl.
  assert (HG' : forall x, In x G' -> rd_stake x = c) by (intros x Hx; apply HG; right; assumption).
  destruct A as [|a A'].
  - cbn [length Nat.eqb andb app].
    destruct G' as [|g2 G'']; cbn [length Nat.leb app].
    + destruct B as [|b B']; cbn [rd_scan length]; [reflexivity|].
      cbn [Nat.eqb andb]. assert (Hb := HB b (or_introl eq_refl)).
      destruct (Z.eqb_spec (rd_stake b) c); [lia|]. destruct (Z.ltb_spec (rd_stake b) c); [reflexivity|lia].
    + cbn [rd_scan Nat.eqb andb]. rewrite (HG' g2 (or_introl eq_refl)), Z.eqb_refl.
      rewrite (rd_scan_end false G'' B 2 c 1 true); try reflexivity; try assumption.
      * intros x Hx. apply HG'. right. assumption.
      * repeat (rewrite app_length || cbn [length]). lia.
  - cbn [length Nat.eqb andb].
    rewrite (rd_scan_end false G' B (S (S (length A'))) c (S (length A')) true); try reflexivity; try assumption.
    + f_equal. lia.
    + repeat (rewrite app_length || cbn [length]). lia.
Qed.

(* ---------- picking by permutation ---------- *)

Definition rd_perm_ok (perm_of : nat -> list nat) : Prop := forall n, Permutation (perm_of n) (seq 0%nat n).

Lemma rd_perm_ok_facts perm_of n : rd_perm_ok perm_of ->
  length (perm_of n) = n /\ NoDup (perm_of n) /\ forall j, In j (perm_of n) -> (j < n)%nat.
Proof.
  intros H. specialize (H n). split; [rewrite (Permutation_length H), seq_length; reflexivity|]. split.
  - eapply Permutation_NoDup; [apply Permutation_sym; exact H|apply seq_NoDup].
  - intros j Hj. apply (Permutation_in _ H) in Hj. apply in_seq in Hj. lia.
Qed.

Lemma rd_map_nth_nodup (G : list rd_node) perm :
  NoDup G -> NoDup perm -> (forall j, In j perm -> (j < length G)%nat) ->
  NoDup (map (fun j => nth j G rd_dflt) perm) /\ incl (map (fun j => nth j G rd_dflt) perm) G.
Proof.
  intros HG Hp Hlt. split.
  - induction perm as [|j t IH]; cbn [map]; [constructor|]. inversion Hp as [|? ? Hni Hp']; subst.
    constructor; [|apply IH; [assumption|intros k Hk; apply Hlt; right; assumption]].
    intros Hin. apply in_map_iff in Hin. destruct Hin as (k & Ek & Hk).
    assert (k = j).
    { apply (proj1 (NoDup_nth G rd_dflt) HG); [apply Hlt; right; assumption|apply Hlt; left; reflexivity|assumption]. }
    subst k. contradiction.
  - intros x Hx. apply in_map_iff in Hx. destruct Hx as (j & <- & Hj). apply nth_In. apply Hlt. assumption.
Qed.

Lemma rd_firstn_subset {A} n (l : list A) x : In x (firstn n l) -> In x l.
Proof.
  revert n. induction l as [|h t IH]; intros n H; [rewrite firstn_nil in H; assumption|].
  destruct n; [destruct H|]. cbn [firstn] in H. destruct H as [->|H]; [left; reflexivity|right; eapply IH; eassumption].
Qed.

Lemma rd_firstn_nodup {A} n (l : list A) : NoDup l -> NoDup (firstn n l).
Proof.
  revert n. induction l as [|h t IH]; intros n H; [rewrite firstn_nil; constructor|].
  destruct n; [constructor|]. cbn [firstn]. inversion H as [|? ? Hni H']; subst.
  constructor; [|apply IH; assumption]. intros Hin. apply Hni. eapply rd_firstn_subset. exact Hin.
Qed.

Lemma rd_pick_facts G perm_of room : rd_perm_ok perm_of -> NoDup G -> 0 <= room <= Z.of_nat (length G) ->
  length (rd_pick G (perm_of (length G)) room) = Z.to_nat room /\
  NoDup (rd_pick G (perm_of (length G)) room) /\ incl (rd_pick G (perm_of (length G)) room) G.
Proof.
  intros Hok HG Hr. destruct (rd_perm_ok_facts perm_of (length G) Hok) as (Hl & Hnd & Hlt).
  destruct (rd_map_nth_nodup G (perm_of (length G)) HG Hnd Hlt) as [H1 H2]. unfold rd_pick. split; [|split].
  - rewrite firstn_length, map_length, Hl. lia.
  - apply rd_firstn_nodup. assumption.
  - intros x Hx. apply H2. eapply rd_firstn_subset. exact Hx.
Qed.

(* ---------- the second phase on a list already split into above / tied / below ---------- *)

Section Split.
  Variables (A G B : list rd_node) (c : Z).
  Hypothesis HA : forall a, In a A -> rd_stake a > c.
  Hypothesis HG : forall g, In g G -> rd_stake g = c.
  Hypothesis HB : forall b, In b B -> rd_stake b < c.

  Lemma rd_above_split : rd_above c (A ++ G ++ B) = A.
  Proof.
    unfold rd_above. rewrite !filter_app.
    rewrite (rd_filter_all _ A) by (intros x Hx; apply Z.gtb_lt; assert (Hq := HA x Hx); lia).
    rewrite (rd_filter_none _ G) by (intros x Hx; assert (Hq := HG x Hx); destruct (Z.gtb_spec (rd_stake x) c); [lia|reflexivity]).
    rewrite (rd_filter_none _ B) by (intros x Hx; assert (Hq := HB x Hx); destruct (Z.gtb_spec (rd_stake x) c); [lia|reflexivity]).
    rewrite !app_nil_r. reflexivity.
  Qed.

  Lemma rd_tied_split : rd_tied c (A ++ G ++ B) = G.
  Proof.
    unfold rd_tied. rewrite !filter_app.
    rewrite (rd_filter_none _ A) by (intros x Hx; assert (Hq := HA x Hx); destruct (Z.eqb_spec (rd_stake x) c); [lia|reflexivity]).
    rewrite (rd_filter_all _ G) by (intros x Hx; apply Z.eqb_eq; apply HG; assumption).
    rewrite (rd_filter_none _ B) by (intros x Hx; assert (Hq := HB x Hx); destruct (Z.eqb_spec (rd_stake x) c); [lia|reflexivity]).
    rewrite app_nil_r. reflexivity.
  Qed.

  (* where the cut-off index can lie *)
  Lemma rd_cutoff_pos j : (j < length (A ++ G ++ B))%nat -> rd_stake (nth j (A ++ G ++ B) rd_dflt) = c ->
    (length A <= j < length A + length G)%nat.
  Proof.
    intros Hj Hc. destruct (Nat.lt_ge_cases j (length A)) as [H1|H1].
    - rewrite app_nth1 in Hc by assumption. assert (Hx := HA _ (nth_In _ rd_dflt H1)). lia.
    - split; [assumption|]. rewrite app_nth2 in Hc by assumption.
      destruct (Nat.lt_ge_cases (j - length A) (length G)) as [H2|H2]; [lia|].
      rewrite app_nth2 in Hc by assumption. rewrite !app_length in Hj.
      assert (H3 : (j - length A - length G < length B)%nat) by lia.
      assert (Hx := HB _ (nth_In _ rd_dflt H3)). lia.
  Qed.

  Lemma rd_phase2_on_split fixed (sel0 : list rd_node) perm_of (maxn y : Z) :
    G <> [] -> y = maxn - Z.of_nat (length sel0) ->
    (let '(s, e) := rd_scan fixed (A ++ G ++ B) 0%nat c 0%nat false (length (A ++ G ++ B)) in
     let sel1 := sel0 ++ firstn s (A ++ G ++ B) in
     let group := firstn (e - s) (skipn s (A ++ G ++ B)) in
     sel1 ++ rd_pick group (perm_of (length group)) (maxn - Z.of_nat (length sel1)))
    = sel0 ++ (if negb fixed && (Nat.eqb (length A) 0%nat && Nat.leb 2%nat (length G))
               then hd rd_dflt G :: rd_pick (tl G) (perm_of (length (tl G))) (y - 1)
               else A ++ rd_pick G (perm_of (length G)) (y - Z.of_nat (length A))).
  Proof.
    intros Hne Hy.
    assert (Hnormal :
      (let '(s, e) := (length A, (length A + length G)%nat) in
       let sel1 := sel0 ++ firstn s (A ++ G ++ B) in
       let group := firstn (e - s) (skipn s (A ++ G ++ B)) in
       sel1 ++ rd_pick group (perm_of (length group)) (maxn - Z.of_nat (length sel1)))
      = sel0 ++ A ++ rd_pick G (perm_of (length G)) (y - Z.of_nat (length A))).
    { cbv zeta iota beta.
      rewrite firstn_app, Nat.sub_diag, firstn_O, app_nil_r, firstn_all.
      rewrite skipn_app, Nat.sub_diag, skipn_O, skipn_all, app_nil_l.
      replace (length A + length G - length A)%nat with (length G) by lia.
      rewrite firstn_app, Nat.sub_diag, firstn_O, app_nil_r, firstn_all.
      rewrite <- app_assoc. f_equal. f_equal. f_equal. rewrite app_length. lia. }
    destruct fixed; cbn [negb andb].
    - rewrite rd_scan_fixed by assumption. exact Hnormal.
    - rewrite rd_scan_unfixed by assumption.
      destruct (Nat.eqb (length A) 0 && Nat.leb 2 (length G)) eqn:Et; [|exact Hnormal].
      apply andb_prop in Et. destruct Et as [E1 E2]. apply Nat.eqb_eq in E1. apply Nat.leb_le in E2.
      destruct A; [|discriminate]. destruct G as [|g [|g2 G'']]; cbn [length] in E2; try lia.
      cbv zeta iota beta. cbn [app firstn skipn hd tl length].
      replace (S (S (length G'')) - 1)%nat with (length (g2 :: G'')) by (cbn [length]; lia).
      change (g2 :: G'' ++ B) with ((g2 :: G'') ++ B).
      rewrite firstn_app, Nat.sub_diag, firstn_O, app_nil_r, firstn_all.
      rewrite <- app_assoc. cbn [app]. f_equal. f_equal. f_equal. rewrite app_length. cbn [length]. lia.
  Qed.
End Split.

(* ---------- the components of reduce ---------- *)

Definition rd_pmb nodes prev := rd_sort (filter (rd_in_prev prev) nodes).
Definition rd_maxn (nodes : list rd_node) limit := Z.min limit (Z.of_nat (length nodes)).
Definition rd_x nodes prev xc := Z.min (Z.of_nat (length (rd_pmb nodes prev))) xc.
Definition rd_sel0 nodes prev xc := firstn (Z.to_nat (rd_x nodes prev xc)) (rd_pmb nodes prev).
Definition rd_news nodes prev xc :=
  rd_sort (filter (fun n => negb (rd_in_prev prev n)) nodes ++ skipn (Z.to_nat (rd_x nodes prev xc)) (rd_pmb nodes prev)).
Definition rd_y nodes prev limit xc := rd_maxn nodes limit - rd_x nodes prev xc.

(* the second phase as the model computes it *)
Definition rd_phase2 (fixed : bool) (news : list rd_node) (y : Z) (perm_of : nat -> list nat) : list rd_node :=
  if Z.leb (Z.of_nat (length news)) y then news
  else if Z.gtb y 0 then
    if negb fixed && rd_trigger news y then
      let G := rd_tied (rd_stake (nth (Z.to_nat (y - 1)) news rd_dflt)) news in
      hd rd_dflt G :: rd_pick (tl G) (perm_of (length (tl G))) (y - 1)
    else rd_phase2_spec news y perm_of
  else [].

(* domain: distinct ids; the required number of previous members is between 0 and the size *)
Definition rd_dom (nodes : list rd_node) (limit xc : Z) : Prop :=
  NoDup (map rd_id nodes) /\ 0 <= xc <= rd_maxn nodes limit.

Lemma rd_nodup_app_remove_l {A} (a b : list A) : NoDup (a ++ b) -> NoDup b.
Proof. induction a as [|h t IH]; cbn [app]; intros H; [assumption|]. inversion H; subst. apply IH. assumption. Qed.

Lemma rd_nodup_app_remove_r {A} (a b : list A) : NoDup (a ++ b) -> NoDup a.
Proof.
  induction a as [|h t IH]; cbn [app]; intros H; [constructor|]. inversion H as [|? ? Hni H']; subst.
  constructor; [|apply IH; assumption]. intros Hin. apply Hni. apply in_or_app. left. assumption.
Qed.

Lemma rd_nodup_app {A} (a b : list A) : NoDup a -> NoDup b -> (forall z, In z a -> In z b -> False) -> NoDup (a ++ b).
Proof.
  induction a as [|h t IH]; cbn [app]; intros Ha Hb Hd; [assumption|]. inversion Ha as [|? ? Hni Ha']; subst.
  constructor; [|apply IH; [assumption|assumption|intros z H1 H2; apply (Hd z); [right; assumption|assumption]]].
  intros Hin. apply in_app_or in Hin. destruct Hin as [Hin|Hin]; [contradiction|]. apply (Hd h); [left; reflexivity|assumption].
Qed.

Lemma rd_filter_partition {A} (f : A -> bool) l : Permutation l (filter f l ++ filter (fun x => negb (f x)) l).
Proof.
  induction l as [|h t IH]; [apply Permutation_refl|]. cbn [filter]. destruct (f h); cbn [negb app].
  - apply perm_skip. exact IH.
  - eapply Permutation_trans; [apply perm_skip; exact IH|]. apply Permutation_middle.
Qed.

Section Components.
  Variables (nodes : list rd_node) (prev : option (list Z)) (limit xc : Z).
  Hypothesis Hdom : rd_dom nodes limit xc.

  Let pmb := rd_pmb nodes prev.
  Let x := rd_x nodes prev xc.
  Let sel0 := rd_sel0 nodes prev xc.
  Let news := rd_news nodes prev xc.
  Let maxn := rd_maxn nodes limit.
  Let y := rd_y nodes prev limit xc.

  Lemma rd_x_bounds : 0 <= x <= Z.of_nat (length pmb) /\ x <= maxn /\ 0 <= y.
  Proof. destruct Hdom as [_ Hxc]. unfold x, y, rd_y, rd_x. fold pmb. fold maxn in Hxc |- *. lia. Qed.

  Lemma rd_sel0_length : Z.of_nat (length sel0) = x.
  Proof. destruct rd_x_bounds as (H1 & _). unfold sel0, rd_sel0. fold x pmb. rewrite firstn_length. lia. Qed.

  Lemma rd_nodes_perm : Permutation nodes (sel0 ++ news).
  Proof.
    unfold sel0, news, rd_sel0, rd_news. fold pmb x.
    set (new0 := filter (fun n => negb (rd_in_prev prev n)) nodes).
    apply Permutation_trans with (filter (rd_in_prev prev) nodes ++ new0); [apply rd_filter_partition|].
    apply Permutation_trans with (pmb ++ new0); [apply Permutation_app_tail, rd_sort_perm|].
    apply Permutation_trans with (firstn (Z.to_nat x) pmb ++ (new0 ++ skipn (Z.to_nat x) pmb)).
    - rewrite <- (firstn_skipn (Z.to_nat x) pmb) at 1. rewrite <- app_assoc.
      apply Permutation_app_head. apply Permutation_app_comm.
    - apply Permutation_app_head. apply rd_sort_perm.
  Qed.

  Lemma rd_parts_nodup : NoDup (map rd_id (sel0 ++ news)).
  Proof. destruct Hdom as [Hn _]. eapply Permutation_NoDup; [apply Permutation_map, rd_nodes_perm|assumption]. Qed.

  Lemma rd_news_sorted : rd_sorted news.
  Proof.
    unfold news, rd_news. apply rd_sort_sorted.
    assert (H := rd_parts_nodup). rewrite map_app in H. apply rd_nodup_app_remove_l in H.
    eapply Permutation_NoDup; [apply Permutation_map, Permutation_sym, rd_sort_perm|exact H].
  Qed.

  Lemma rd_pmb_sorted : rd_sorted pmb.
  Proof.
    unfold pmb, rd_pmb. apply rd_sort_sorted. destruct Hdom as [Hn _].
    clear - Hn. induction nodes as [|h t IH]; [constructor|]. cbn [map] in Hn. inversion Hn as [|? ? Hni Hn']; subst.
    cbn [filter]. destruct (rd_in_prev prev h); [|apply IH; assumption]. cbn [map]. constructor; [|apply IH; assumption].
    intros Hin. apply Hni. apply in_map_iff in Hin. destruct Hin as (z & Ez & Hz). apply filter_In in Hz.
    rewrite <- Ez. apply in_map. tauto.
  Qed.

  Lemma rd_lengths : Z.of_nat (length nodes) = x + Z.of_nat (length news).
  Proof. rewrite (Permutation_length rd_nodes_perm), app_length, <- rd_sel0_length. lia. Qed.

  Lemma rd_reduce_eq fixed perm_of :
    rd_reduce fixed nodes prev limit xc perm_of = Some (sel0 ++ rd_phase2 fixed news y perm_of, maxn).
  Proof.
    destruct rd_x_bounds as (Hx0 & Hxm & Hy0).
    assert (Hunfold : rd_reduce fixed nodes prev limit xc perm_of =
      if Z.ltb x 0 then None
      else if Z.leb (Z.of_nat (length news)) y then Some (sel0 ++ news, maxn)
      else if Z.gtb y 0 then
        let stake := rd_stake (nth (Z.to_nat (y - 1)) news rd_dflt) in
        let '(s, e) := rd_scan fixed news 0 stake 0 false (length news) in
        let sel1 := sel0 ++ firstn s news in
        let group := firstn (e - s) (skipn s news) in
        Some (sel1 ++ rd_pick group (perm_of (length group)) (maxn - Z.of_nat (length sel1)), maxn)
      else Some (sel0, maxn)) by reflexivity.
    rewrite Hunfold. clear Hunfold. unfold rd_phase2.
    destruct (Z.ltb_spec x 0); [lia|].
    destruct (Z.leb_spec (Z.of_nat (length news)) y) as [Hle|Hgt]; [reflexivity|].
    destruct (Z.gtb_spec y 0) as [Hy|Hy]; [|rewrite app_nil_r; reflexivity].
    cbv zeta. set (c := rd_stake (nth (Z.to_nat (y - 1)) news rd_dflt)).
    assert (Hsplit := rd_split3 news c (rd_sorted_desc _ rd_news_sorted)).
    set (A := rd_above c news) in *. set (G := rd_tied c news) in *. set (B := rd_below c news) in *.
    assert (HA : forall a, In a A -> rd_stake a > c) by (intros a; apply rd_above_stake).
    assert (HG : forall g, In g G -> rd_stake g = c) by (intros g; apply rd_tied_stake).
    assert (HB : forall b, In b B -> rd_stake b < c) by (intros b; apply rd_below_stake).
    assert (Hj : (Z.to_nat (y - 1) < length news)%nat) by lia.
    assert (Hpos : (length A <= Z.to_nat (y - 1) < length A + length G)%nat).
    { apply (rd_cutoff_pos A G B c HA HB); [rewrite <- Hsplit; assumption|rewrite <- Hsplit; reflexivity]. }
    assert (Hne : G <> []) by (intros E; rewrite E in Hpos; cbn in Hpos; lia).
    assert (Hspec : rd_phase2_spec news y perm_of = A ++ rd_pick G (perm_of (length G)) (y - Z.of_nat (length A))) by reflexivity.
    assert (Htrig : rd_trigger news y = Nat.eqb (length A) 0 && Nat.leb 2 (length G)) by reflexivity.
    rewrite Hspec, Htrig.
    assert (Hmain := rd_phase2_on_split A G B c HA HG HB fixed sel0 perm_of maxn y Hne
                       ltac:(rewrite rd_sel0_length; reflexivity)).
    rewrite <- Hsplit in Hmain.
    destruct (rd_scan fixed news 0 c 0 false (length news)) as [s e]. cbv zeta in Hmain. rewrite Hmain. reflexivity.
  Qed.

  (* the shape every public statement is derived from *)
  Lemma rd_phase2_shape fixed perm_of : rd_perm_ok perm_of ->
    let P2 := rd_phase2 fixed news y perm_of in
    Z.of_nat (length P2) = y /\ NoDup P2 /\ incl P2 news /\
    (forall u v, In u news -> ~ In u P2 -> In v P2 -> rd_stake v >= rd_stake u).
  Proof.
    intros Hok P2. destruct rd_x_bounds as (Hx0 & Hxm & Hy0).
    assert (Hnn : NoDup news).
    { assert (H := rd_parts_nodup). rewrite map_app in H. apply rd_nodup_app_remove_l in H. eapply NoDup_map_inv. exact H. }
    unfold P2, rd_phase2.
    destruct (Z.leb_spec (Z.of_nat (length news)) y) as [Hle|Hgt].
    - assert (Z.of_nat (length news) = y).
      { assert (H := rd_lengths). unfold y, rd_y, rd_maxn in *. fold x in Hle |- *. lia. }
      repeat split; [assumption|assumption|apply incl_refl|]. intros u v Hu Hnu. contradiction.
    - destruct (Z.gtb_spec y 0) as [Hy|Hy].
      2:{ repeat split; [cbn; lia|constructor|intros z []|intros u v _ _ []]. }
      set (c := rd_stake (nth (Z.to_nat (y - 1)) news rd_dflt)).
      assert (Hsplit := rd_split3 news c (rd_sorted_desc _ rd_news_sorted)).
      assert (Hspec : rd_phase2_spec news y perm_of =
                      rd_above c news ++ rd_pick (rd_tied c news) (perm_of (length (rd_tied c news))) (y - Z.of_nat (length (rd_above c news)))) by reflexivity.
      assert (Htrig : rd_trigger news y = Nat.eqb (length (rd_above c news)) 0 && Nat.leb 2 (length (rd_tied c news))) by reflexivity.
      rewrite Hspec, Htrig. fold c.
      set (A := rd_above c news) in *. set (G := rd_tied c news) in *. set (B := rd_below c news) in *.
      assert (HA : forall a, In a A -> rd_stake a > c) by (intros a; apply rd_above_stake).
      assert (HG : forall g, In g G -> rd_stake g = c) by (intros g; apply rd_tied_stake).
      assert (HB : forall b, In b B -> rd_stake b < c) by (intros b; apply rd_below_stake).
      assert (Hj : (Z.to_nat (y - 1) < length news)%nat) by lia.
      assert (Hpos : (length A <= Z.to_nat (y - 1) < length A + length G)%nat).
      { apply (rd_cutoff_pos A G B c HA HB); [rewrite <- Hsplit; assumption|rewrite <- Hsplit; reflexivity]. }
      assert (HnnS : NoDup (A ++ G ++ B)) by (rewrite <- Hsplit; assumption).
      assert (HnA : NoDup A) by (apply rd_nodup_app_remove_r in HnnS; assumption).
      assert (HnG : NoDup G) by (apply rd_nodup_app_remove_l in HnnS; apply rd_nodup_app_remove_r in HnnS; assumption).
      assert (HAG : forall z, In z A -> In z G -> False) by (intros z H1 H2; specialize (HA z H1); specialize (HG z H2); lia).
      assert (Hin : forall z, In z news <-> In z A \/ In z G \/ In z B) by (intros z; rewrite Hsplit at 1; rewrite !in_app_iff; tauto).
      (* common final step: a selection T with A ⊆ T ⊆ A ∪ G *)
      assert (Hpref : forall T, (forall z, In z A -> In z T) -> (forall z, In z T -> In z A \/ In z G) ->
                 forall u v, In u news -> ~ In u T -> In v T -> rd_stake v >= rd_stake u).
      { intros T T1 T2 u v Hu Hnu Hv. apply Hin in Hu.
        assert (rd_stake v >= c) by (destruct (T2 v Hv) as [H|H]; [specialize (HA v H)|specialize (HG v H)]; lia).
        destruct Hu as [Hu|[Hu|Hu]]; [exfalso; apply Hnu, T1; assumption|specialize (HG u Hu); lia|specialize (HB u Hu); lia]. }
      destruct (negb fixed && (Nat.eqb (length A) 0 && Nat.leb 2 (length G))) eqn:Et.
      + apply andb_prop in Et. destruct Et as [_ Et]. apply andb_prop in Et. destruct Et as [E1 E2].
        apply Nat.eqb_eq in E1. apply Nat.leb_le in E2.
        destruct A as [|? ?]; [|discriminate]. destruct G as [|g [|g2 G'']] eqn:EG; cbn [length] in E2; try lia.
        cbn [hd tl]. inversion HnG as [|? ? Hgni HnG']; subst.
        destruct (rd_pick_facts (g2 :: G'') perm_of (y - 1) Hok HnG') as (L1 & L2 & L3); [cbn [length] in *; lia|].
        split; [cbn [length] in L1 |- *; rewrite L1; lia|]. split; [constructor; [intros Hc; apply Hgni, L3; assumption|assumption]|]. split.
        * intros z [<-|Hz]; [apply Hin; right; left; left; reflexivity|apply Hin; right; left; right; apply L3; assumption].
        * apply Hpref; [intros z []|]. intros z [<-|Hz]; [right; left; reflexivity|right; right; apply L3; assumption].
      + destruct (rd_pick_facts G perm_of (y - Z.of_nat (length A)) Hok HnG) as (L1 & L2 & L3); [lia|].
        split; [rewrite app_length, L1; lia|]. split.
        * apply rd_nodup_app; [assumption|assumption|]. intros z H1 H2. apply (HAG z H1). apply L3. assumption.
        * split.
          -- intros z Hz. apply in_app_or in Hz. apply Hin. destruct Hz as [Hz|Hz]; [left; assumption|right; left; apply L3; assumption].
          -- apply Hpref; [intros z Hz; apply in_or_app; left; assumption|].
             intros z Hz. apply in_app_or in Hz. destruct Hz as [Hz|Hz]; [left; assumption|right; apply L3; assumption].
  Qed.
End Components.

(* ---------- public statements ---------- *)

Lemma rd_id_inj_in (M : list rd_node) a b : NoDup (map rd_id M) -> In a M -> In b M -> rd_id a = rd_id b -> a = b.
Proof.
  induction M as [|m M' IHM]; intros HM Ha Hb E; [destruct Ha|]. cbn [map] in HM. inversion HM as [|? ? Hni HM']; subst.
  destruct Ha as [->|Ha]; destruct Hb as [->|Hb]; [reflexivity| | |apply IHM; assumption].
  - exfalso. apply Hni. rewrite E. apply in_map. assumption.
  - exfalso. apply Hni. rewrite <- E. apply in_map. assumption.
Qed.

Lemma rd_nodup_map_sub (L M : list rd_node) : NoDup L -> incl L M -> NoDup (map rd_id M) -> NoDup (map rd_id L).
Proof.
  intros HL Hinc HM. induction L as [|h t IH]; cbn [map]; [constructor|]. inversion HL as [|? ? Hni HL']; subst.
  constructor; [|apply IH; [assumption|intros z Hz; apply Hinc; right; assumption]].
  intros Hin. apply in_map_iff in Hin. destruct Hin as (z & Ez & Hz). assert (z = h); [|subst z; contradiction].
  apply (rd_id_inj_in M); [assumption|apply Hinc; right; assumption|apply Hinc; left; reflexivity|assumption].
Qed.

Lemma rd_ss_app {A} (R : A -> A -> Prop) (a b : list A) : StronglySorted R (a ++ b) -> forall x y, In x a -> In y b -> R x y.
Proof.
  induction a as [|h t IH]; cbn [app]; intros H x y Hx Hy; [destruct Hx|].
  inversion H as [|? ? Hs Hf]; subst. destruct Hx as [->|Hx]; [|apply IH; assumption].
  rewrite Forall_forall in Hf. apply Hf. apply in_or_app. right. assumption.
Qed.

(* exact size, distinct members, all of them candidates *)
Lemma rd_size_exact fixed nodes prev limit xc perm_of sel m :
  rd_dom nodes limit xc -> rd_perm_ok perm_of ->
  rd_reduce fixed nodes prev limit xc perm_of = Some (sel, m) ->
  m = Z.min limit (Z.of_nat (length nodes)) /\ Z.of_nat (length sel) = m /\
  NoDup (map rd_id sel) /\ incl sel nodes.
Proof.
  intros Hdom Hok H. rewrite (rd_reduce_eq nodes prev limit xc Hdom) in H. inversion H; subst sel m. clear H.
  destruct (rd_phase2_shape nodes prev limit xc Hdom fixed perm_of Hok) as (S1 & S2 & S3 & _).
  assert (Hparts := rd_parts_nodup nodes prev limit xc Hdom).
  assert (HP : NoDup (rd_sel0 nodes prev xc ++ rd_news nodes prev xc)) by (eapply NoDup_map_inv; exact Hparts).
  assert (Hinc : incl (rd_sel0 nodes prev xc ++ rd_phase2 fixed (rd_news nodes prev xc) (rd_y nodes prev limit xc) perm_of)
                      (rd_sel0 nodes prev xc ++ rd_news nodes prev xc)).
  { intros z Hz. apply in_app_or in Hz. apply in_or_app. destruct Hz as [Hz|Hz]; [left; assumption|right; apply S3; assumption]. }
  assert (HnL : NoDup (rd_sel0 nodes prev xc ++ rd_phase2 fixed (rd_news nodes prev xc) (rd_y nodes prev limit xc) perm_of)).
  { apply rd_nodup_app; [eapply rd_nodup_app_remove_r; exact HP|assumption|].
    intros z H1 H2. apply S3 in H2. clear - HP H1 H2.
    induction (rd_sel0 nodes prev xc) as [|h t IH]; [destruct H1|]. cbn [app] in HP. inversion HP as [|? ? Hni HP']; subst.
    destruct H1 as [->|H1]; [apply Hni; apply in_or_app; right; assumption|apply IH; assumption]. }
  split; [reflexivity|]. split.
  - rewrite app_length, Nat2Z.inj_add, (rd_sel0_length nodes prev limit xc Hdom), S1. unfold rd_y. lia.
  - split.
    + apply (rd_nodup_map_sub _ _ HnL Hinc Hparts).
    + intros z Hz. apply (Permutation_in _ (Permutation_sym (rd_nodes_perm nodes prev xc))). apply Hinc. assumption.
Qed.

(* the required number of previous members, the highest staked ones, are in the result *)
Lemma rd_keeps_top_prev fixed nodes prev limit xc perm_of sel m :
  rd_dom nodes limit xc ->
  rd_reduce fixed nodes prev limit xc perm_of = Some (sel, m) ->
  let cand_prev := filter (rd_in_prev prev) nodes in
  let sel0 := rd_sel0 nodes prev xc in
  Z.of_nat (length sel0) = Z.min (Z.of_nat (length cand_prev)) xc /\
  incl sel0 sel /\ incl sel0 cand_prev /\
  forall a b, In a sel0 -> In b cand_prev -> ~ In b sel0 -> rd_before a b.
Proof.
  intros Hdom H cand_prev sel0. rewrite (rd_reduce_eq nodes prev limit xc Hdom) in H. inversion H; subst sel m. clear H.
  assert (Hpp : Permutation cand_prev (rd_pmb nodes prev)) by apply rd_sort_perm.
  split; [|split; [|split]].
  - unfold sel0. rewrite (rd_sel0_length nodes prev limit xc Hdom). unfold rd_x.
    rewrite <- (Permutation_length Hpp). reflexivity.
  - intros z Hz. apply in_or_app. left. assumption.
  - intros z Hz. apply (Permutation_in _ (Permutation_sym Hpp)). unfold sel0, rd_sel0 in Hz. eapply rd_firstn_subset. exact Hz.
  - intros a b Ha Hb Hnb. apply (Permutation_in _ Hpp) in Hb.
    assert (Hs := rd_pmb_sorted nodes prev limit xc Hdom). unfold rd_sorted in Hs.
    rewrite <- (firstn_skipn (Z.to_nat (rd_x nodes prev xc)) (rd_pmb nodes prev)) in Hs, Hb.
    apply in_app_or in Hb. destruct Hb as [Hb|Hb]; [contradiction|].
    eapply rd_ss_app; [exact Hs|exact Ha|exact Hb].
Qed.

(* beyond that quota the choice is by stake *)
Lemma rd_prefers_higher_stake fixed nodes prev limit xc perm_of sel m :
  rd_dom nodes limit xc -> rd_perm_ok perm_of ->
  rd_reduce fixed nodes prev limit xc perm_of = Some (sel, m) ->
  forall u v, In u nodes -> ~ In u sel -> In v sel -> ~ In v (rd_sel0 nodes prev xc) -> rd_stake v >= rd_stake u.
Proof.
  intros Hdom Hok H u v Hu Hnu Hv Hnv. rewrite (rd_reduce_eq nodes prev limit xc Hdom) in H. inversion H; subst sel m. clear H.
  destruct (rd_phase2_shape nodes prev limit xc Hdom fixed perm_of Hok) as (_ & _ & _ & S4).
  apply (Permutation_in _ (rd_nodes_perm nodes prev xc)) in Hu.
  apply in_app_or in Hu. apply in_app_or in Hv.
  destruct Hv as [Hv|Hv]; [contradiction|].
  destruct Hu as [Hu|Hu]; [exfalso; apply Hnu, in_or_app; left; assumption|].
  apply (S4 u v Hu); [intros Hc; apply Hnu, in_or_app; right; assumption|assumption].
Qed.

(* ties at the cut-off stake: the whole tie group goes through the seeded permutation --
   for the repaired scan always, for the code as it is outside the trigger *)
Lemma rd_ties_by_seed fixed nodes prev limit xc perm_of :
  rd_dom nodes limit xc ->
  let news := rd_news nodes prev xc in let y := rd_y nodes prev limit xc in
  y < Z.of_nat (length news) -> 0 < y ->
  fixed = true \/ rd_trigger news y = false ->
  rd_reduce fixed nodes prev limit xc perm_of =
    Some (rd_sel0 nodes prev xc ++ rd_phase2_spec news y perm_of, rd_maxn nodes limit).
Proof.
  intros Hdom news y Hlen Hy Hcase. rewrite (rd_reduce_eq nodes prev limit xc Hdom). fold news y. unfold rd_phase2.
  destruct (Z.leb_spec (Z.of_nat (length news)) y); [lia|]. destruct (Z.gtb_spec y 0); [|lia].
  destruct Hcase as [-> | ->]; [reflexivity|]. rewrite andb_false_r. reflexivity.
Qed.

(* what the code as it is does inside the trigger: the lowest-id tied candidate is selected
   whatever the seed; only the other tied candidates go through the permutation *)
Lemma rd_trigger_behaviour nodes prev limit xc perm_of :
  rd_dom nodes limit xc ->
  let news := rd_news nodes prev xc in let y := rd_y nodes prev limit xc in
  y < Z.of_nat (length news) -> 0 < y -> rd_trigger news y = true ->
  let G := rd_tied (rd_stake (nth (Z.to_nat (y - 1)) news rd_dflt)) news in
  rd_reduce false nodes prev limit xc perm_of =
    Some (rd_sel0 nodes prev xc ++ hd rd_dflt G :: rd_pick (tl G) (perm_of (length (tl G))) (y - 1), rd_maxn nodes limit).
Proof.
  intros Hdom news y Hlen Hy Ht G. rewrite (rd_reduce_eq nodes prev limit xc Hdom). fold news y. unfold rd_phase2.
  destruct (Z.leb_spec (Z.of_nat (length news)) y); [lia|]. destruct (Z.gtb_spec y 0); [|lia].
  rewrite Ht. reflexivity.
Qed.

(* identical for identical inputs: the iteration order of the map does not matter *)
Lemma rd_filter_perm {A} (f : A -> bool) l l' : Permutation l l' -> Permutation (filter f l) (filter f l').
Proof.
  induction 1 as [|x l l' Hp IH|x y l|l l' l'' H1 IH1 H2 IH2]; cbn [filter].
  - apply Permutation_refl.
  - destruct (f x); [apply perm_skip|]; assumption.
  - destruct (f x); destruct (f y); try apply Permutation_refl. apply perm_swap.
  - eapply Permutation_trans; eassumption.
Qed.

Lemma rd_deterministic fixed nodes nodes' prev limit xc perm_of :
  rd_dom nodes limit xc -> Permutation nodes nodes' ->
  rd_reduce fixed nodes prev limit xc perm_of = rd_reduce fixed nodes' prev limit xc perm_of.
Proof.
  intros Hdom Hp.
  assert (Hlen : length nodes = length nodes') by (apply Permutation_length; assumption).
  assert (Hdom' : rd_dom nodes' limit xc).
  { destruct Hdom as [Hn Hx]. split; [eapply Permutation_NoDup; [apply Permutation_map; exact Hp|assumption]|].
    unfold rd_maxn in *. rewrite <- Hlen. assumption. }
  rewrite (rd_reduce_eq nodes prev limit xc Hdom), (rd_reduce_eq nodes' prev limit xc Hdom').
  assert (Hpmb : rd_pmb nodes prev = rd_pmb nodes' prev).
  { unfold rd_pmb. apply rd_sort_perm_eq; [|apply rd_filter_perm; assumption].
    destruct Hdom as [Hn _]. clear - Hn. induction nodes as [|h t IH]; [constructor|]. cbn [map] in Hn. inversion Hn as [|? ? Hni Hn']; subst.
    cbn [filter]. destruct (rd_in_prev prev h); [|apply IH; assumption]. cbn [map]. constructor; [|apply IH; assumption].
    intros Hin. apply Hni. apply in_map_iff in Hin. destruct Hin as (z & Ez & Hz). apply filter_In in Hz. rewrite <- Ez. apply in_map. tauto. }
  assert (Hx : rd_x nodes prev xc = rd_x nodes' prev xc) by (unfold rd_x; rewrite Hpmb; reflexivity).
  assert (Hs0 : rd_sel0 nodes prev xc = rd_sel0 nodes' prev xc) by (unfold rd_sel0; rewrite Hpmb, Hx; reflexivity).
  assert (Hm : rd_maxn nodes limit = rd_maxn nodes' limit) by (unfold rd_maxn; rewrite Hlen; reflexivity).
  assert (Hy : rd_y nodes prev limit xc = rd_y nodes' prev limit xc) by (unfold rd_y; rewrite Hm, Hx; reflexivity).
  assert (Hnews : rd_news nodes prev xc = rd_news nodes' prev xc).
  { unfold rd_news. rewrite <- Hpmb, <- Hx. apply rd_sort_perm_eq.
    - assert (H := rd_parts_nodup nodes prev limit xc Hdom). rewrite map_app in H. apply rd_nodup_app_remove_l in H.
      eapply Permutation_NoDup; [apply Permutation_map, Permutation_sym, rd_sort_perm|exact H].
    - apply Permutation_app_tail. apply rd_filter_perm. assumption. }
  rewrite Hs0, Hm, Hy, Hnews. reflexivity.
Qed.
