(* C39: View-change node selection is exact and stake-ordered.
   Only statements; each is closed by [exact] of a lemma in Proof/Reduce.v.
   rd_reduce fixed nodes prev limit xc perm_of = SimpleNodes.reduce on the candidate map [nodes]
   (listed in the order the map happens to be iterated), previous pool [prev], limit, required
   previous members xc = ceil(xPercent*maxNodes), and perm_of n = rand.New(rand.NewSource(seed)).Perm(n).
   fixed = false is the code as it is; fixed = true the proposed repair of F-39.
   Domain rd_dom: distinct ids, 0 <= xc <= min(limit, #candidates). *)
From ZC Require Import Model.Reduce Proof.Reduce Gen.ReducePurity.
From Coq Require Import Sorting.Permutation.
Open Scope Z_scope.

(* exactly min(limit, #candidates) distinct candidates are selected (code as it is and repaired) *)
Theorem C39_size_exact :
  forall fixed nodes prev limit xc perm_of sel m,
  rd_dom nodes limit xc -> rd_perm_ok perm_of ->
  rd_reduce fixed nodes prev limit xc perm_of = Some (sel, m) ->
  m = Z.min limit (Z.of_nat (length nodes)) /\ Z.of_nat (length sel) = m /\
  NoDup (map rd_id sel) /\ incl sel nodes.
Proof. exact rd_size_exact. Qed.
Print Assumptions C39_size_exact.

(* the result is always defined on the domain (no slice panic) *)
Theorem C39_defined :
  forall fixed nodes prev limit xc perm_of, rd_dom nodes limit xc ->
  rd_reduce fixed nodes prev limit xc perm_of =
    Some (rd_sel0 nodes prev xc ++ rd_phase2 fixed (rd_news nodes prev xc) (rd_y nodes prev limit xc) perm_of,
          rd_maxn nodes limit).
Proof. exact (fun fixed nodes prev limit xc perm_of H => rd_reduce_eq nodes prev limit xc H fixed perm_of). Qed.
Print Assumptions C39_defined.

(* min(#previous members among the candidates, xc) previous members are included, and they are
   the first ones in (stake desc, id asc) order: each precedes every previous member left out of
   that quota *)
Theorem C39_keeps_top_prev :
  forall fixed nodes prev limit xc perm_of sel m,
  rd_dom nodes limit xc ->
  rd_reduce fixed nodes prev limit xc perm_of = Some (sel, m) ->
  let cand_prev := filter (rd_in_prev prev) nodes in
  let sel0 := rd_sel0 nodes prev xc in
  Z.of_nat (length sel0) = Z.min (Z.of_nat (length cand_prev)) xc /\
  incl sel0 sel /\ incl sel0 cand_prev /\
  forall a b, In a sel0 -> In b cand_prev -> ~ In b sel0 -> rd_before a b.
Proof. exact rd_keeps_top_prev. Qed.
Print Assumptions C39_keeps_top_prev.

(* otherwise higher stake is preferred: no candidate left out has strictly more stake than a
   selected one outside the quota *)
Theorem C39_prefers_higher_stake :
  forall fixed nodes prev limit xc perm_of sel m,
  rd_dom nodes limit xc -> rd_perm_ok perm_of ->
  rd_reduce fixed nodes prev limit xc perm_of = Some (sel, m) ->
  forall u v, In u nodes -> ~ In u sel -> In v sel -> ~ In v (rd_sel0 nodes prev xc) -> rd_stake v >= rd_stake u.
Proof. exact rd_prefers_higher_stake. Qed.
Print Assumptions C39_prefers_higher_stake.

(* identical for identical inputs: the iteration order of the candidate map is irrelevant *)
Theorem C39_deterministic :
  forall fixed nodes nodes' prev limit xc perm_of,
  rd_dom nodes limit xc -> Permutation nodes nodes' ->
  rd_reduce fixed nodes prev limit xc perm_of = rd_reduce fixed nodes' prev limit xc perm_of.
Proof. exact rd_deterministic. Qed.
Print Assumptions C39_deterministic.

(* Ties at the cut-off stake depend only on the seed: when more candidates remain than free
   slots, the selection is the quota, everything strictly above the cut-off stake, and the first
   free slots of the seeded permutation applied to ALL candidates tied at the cut-off stake. *)
Definition C39_full_statement : Prop :=
  forall nodes prev limit xc perm_of, rd_dom nodes limit xc -> rd_perm_ok perm_of ->
  let news := rd_news nodes prev xc in let y := rd_y nodes prev limit xc in
  y < Z.of_nat (length news) -> 0 < y ->
  rd_reduce false nodes prev limit xc perm_of =
    Some (rd_sel0 nodes prev xc ++ rd_phase2_spec news y perm_of, rd_maxn nodes limit).

(* ... is FALSE of the code as it is (F-39): three candidates tied at the top, one slot, the
   permutation asks for the third, the first (lowest id) is taken. *)
Theorem C39_ties_by_seed_refuted : ~ C39_full_statement.
Proof.
  intros H.
  specialize (H [(1, 10); (2, 10); (3, 10)] None 1 0 (fun n => rev (seq 0 n))).
  assert (Hd : rd_dom [(1, 10); (2, 10); (3, 10)] 1 0).
  { split; [|vm_compute; split; discriminate]. cbn. repeat constructor; cbn; intuition lia. }
  assert (Hp : rd_perm_ok (fun n => rev (seq 0 n))) by (intros n; apply Permutation_sym, Permutation_rev).
  specialize (H Hd Hp). cbv zeta in H.
  assert (H1 : rd_y [(1, 10); (2, 10); (3, 10)] None 1 0 < Z.of_nat (length (rd_news [(1, 10); (2, 10); (3, 10)] None 0))) by (vm_compute; reflexivity).
  assert (H2 : 0 < rd_y [(1, 10); (2, 10); (3, 10)] None 1 0) by (vm_compute; reflexivity).
  specialize (H H1 H2). vm_compute in H. discriminate.
Qed.
Print Assumptions C39_ties_by_seed_refuted.

(* ... holds of the code as it is outside exactly that trigger (the tie group opens the
   remaining list and has at least two members), and of the repaired scan always. *)
Theorem C39_ties_by_seed_partial :
  forall fixed nodes prev limit xc perm_of, rd_dom nodes limit xc ->
  let news := rd_news nodes prev xc in let y := rd_y nodes prev limit xc in
  y < Z.of_nat (length news) -> 0 < y ->
  fixed = true \/ rd_trigger news y = false ->
  rd_reduce fixed nodes prev limit xc perm_of =
    Some (rd_sel0 nodes prev xc ++ rd_phase2_spec news y perm_of, rd_maxn nodes limit).
Proof. exact rd_ties_by_seed. Qed.
Print Assumptions C39_ties_by_seed_partial.

(* The code in /repo now has the repaired scan (rd_code_is_fixed = true in Corr/Reduce.v): the tie
   clause in full, for every input. *)
Theorem C39_ties_by_seed_only :
  forall nodes prev limit xc perm_of, rd_dom nodes limit xc ->
  let news := rd_news nodes prev xc in let y := rd_y nodes prev limit xc in
  y < Z.of_nat (length news) -> 0 < y ->
  rd_reduce true nodes prev limit xc perm_of =
    Some (rd_sel0 nodes prev xc ++ rd_phase2_spec news y perm_of, rd_maxn nodes limit).
Proof. exact (fun nodes prev limit xc perm_of H H1 H2 => rd_ties_by_seed true nodes prev limit xc perm_of H H1 H2 (or_introl eq_refl)). Qed.
Print Assumptions C39_ties_by_seed_only.

(* inside the trigger the code as it is always selects the lowest-id tied candidate and permutes
   only the others *)
Theorem C39_trigger_behaviour :
  forall nodes prev limit xc perm_of, rd_dom nodes limit xc ->
  let news := rd_news nodes prev xc in let y := rd_y nodes prev limit xc in
  y < Z.of_nat (length news) -> 0 < y -> rd_trigger news y = true ->
  let G := rd_tied (rd_stake (nth (Z.to_nat (y - 1)) news rd_dflt)) news in
  rd_reduce false nodes prev limit xc perm_of =
    Some (rd_sel0 nodes prev xc ++ hd rd_dflt G :: rd_pick (tl G) (perm_of (length (tl G))) (y - 1), rd_maxn nodes limit).
Proof. exact rd_trigger_behaviour. Qed.
Print Assumptions C39_trigger_behaviour.

(* The model is a pure function of its arguments, so C39_deterministic covers every schedule of
   concurrent selections -- provided the Go function keeps no state between or across calls. The
   translator reducepurity (go/ast over smartcontract/minersc, regenerated every run) lists the
   package-level variables and global math/rand functions that SimpleNodes.reduce and its
   same-package callees refer to; the list must be empty. *)
Example C39_reduce_refers_to_no_package_level_state : rd_reduce_package_state = [].
Proof. reflexivity. Qed.

(* Non-vacuity: previous members, quota, a tie below a higher stake (outside the trigger). *)
Example C39_example :
  let nodes := [(5, 10); (1, 10); (2, 30); (3, 10); (4, 20); (6, 10); (7, 5)] in
  let perm_of := fun n => rev (seq 0 n) in
  rd_dom nodes 4 1 /\ rd_trigger (rd_news nodes (Some [7; 3; 9]) 1) (rd_y nodes (Some [7; 3; 9]) 4 1) = false /\
  rd_reduce false nodes (Some [7; 3; 9]) 4 1 perm_of = Some ([(3, 10); (2, 30); (4, 20); (6, 10)], 4) /\
  rd_reduce true nodes (Some [7; 3; 9]) 4 1 perm_of = Some ([(3, 10); (2, 30); (4, 20); (6, 10)], 4).
Proof.
  split; [split; [cbn; repeat constructor; cbn; intuition lia|vm_compute; split; discriminate]|].
  vm_compute. repeat split; reflexivity.
Qed.
