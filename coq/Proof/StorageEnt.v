(* E-storage proofs: enterprise worlds ([cf_ent]) and the world-level step [ss_apply_w].
   - a configuration without [cf_ent] runs exactly the standard operations, so every theorem about
     ss_apply / ss_run carries over to ss_apply_w / ss_run_w;
   - C13 (Allocated = sum of sizes, TotalOffers = sum of offers) is preserved by the enterprise
     operations as well: new allocation, extension with settlement, close (finishAllocation's
     enterprise branch). *)
From Coq Require Import ZArith List Bool Lia.
From ZC Require Import Model.F64 Model.Storage Proof.StorageUtil Proof.StorageFrame Proof.Storage Proof.StorageOffers.
Import ListNotations.
Open Scope Z_scope.

(* ---------- standard worlds ---------- *)

Lemma ss_apply_w_std : forall c s now round o, cf_ent c = false -> ss_apply_w c s now round o = ss_apply c s now round o.
Proof. unfold ss_apply_w; intros c s now round o H. rewrite H. reflexivity. Qed.

Lemma ss_step_w_std : forall c s t, cf_ent c = false -> ss_step_w c s t = ss_step c s t.
Proof. intros c s [[now round] o] H. unfold ss_step_w, ss_step. rewrite ss_apply_w_std by exact H. reflexivity. Qed.

(* a history of transactions only (no settings change) *)
Lemma ss_run_w_std : forall c ts s, cf_ent c = false -> ss_run_w c s (map EvTxn ts) = ss_run c s ts.
Proof.
  induction ts as [|t tl IH]; intros s H; [reflexivity|]. cbn [map ss_run_w ss_run]. rewrite ss_step_w_std by exact H.
  destruct (ss_step c s t) as [s1 ok]. rewrite IH by exact H. reflexivity.
Qed.

(* ---------- C13 for the enterprise operations ---------- *)

Lemma ss_ent_pay_keys : forall c a now bas bls w cost bls' w' cost',
  ss_ent_pay c a now bas bls w cost = Some (bls', w', cost') -> map bl_key bls' = map bl_key bls.
Proof.
  induction bas as [|d tl IH]; cbn [ss_ent_pay]; intros bls w cost bls' w' cost' H.
  - inversion H; reflexivity.
  - bind_as H c0 E0. bind_as H c1 E1. bind_as H b Eb. bind_as H b1 Ed. cbv zeta in H. bind_as H cs Ec.
    apply ss_distribute_key in Ed. rewrite (IH _ _ _ _ _ _ H).
    eapply bkeys_set_same; [replace (bl_id b1) with (bl_id b) by (inversion Ed; reflexivity); find_self | exact Ed].
Qed.

Lemma ss_ent_offers_delta : forall bas bls bls', ss_ent_offers bas bls = Some bls' ->
  forall id b', ss_find_blobber id bls' = Some b' ->
    exists b, ss_find_blobber id bls = Some b /\ bl_allocd b' = bl_allocd b /\
              bl_offers b' = bl_offers b - tally key_offer id (map ba_key bas).
Proof.
  induction bas as [|d tl IH]; cbn [ss_ent_offers]; intros bls bls' H id b' Hf.
  - inversion H; subst. exists b'. cbn. split; [exact Hf | lia].
  - bind_as H b Eb. bind_as H b0 E0.
    pose proof (ss_find_blobber_id' _ _ _ Eb) as Hbid.
    apply ss_reduce_offer_some in E0. destruct E0 as [Hid0 [Hal0 Hof0]].
    destruct (IH _ _ H id b' Hf) as [bm [Hfm [Ha Ho]]].
    rewrite ss_find_set_blobber in Hfm. unfold tally. cbn [map ss_sum].
    replace (key_blobber (ba_key d)) with (ba_blobber d) by reflexivity.
    fold (tally key_offer id (map ba_key tl)).
    assert (Hb0 : bl_id b0 = ba_blobber d) by congruence.
    rewrite Hb0 in Hfm. rewrite Eb in Hfm.
    destruct (Z.eqb_spec id (ba_blobber d)) as [E|E].
    + subst id. inversion Hfm; subst bm. exists b. rewrite Z.eqb_refl.
      split; [exact Eb|]. rewrite key_offer_ba. lia.
    + destruct (Z.eqb_spec (ba_blobber d) id); [congruence|]. exists bm. split; [exact Hfm | lia].
Qed.

Lemma ss_ent_release_delta : forall bas bls bls', ss_ent_release bas bls = Some bls' ->
  forall id b', ss_find_blobber id bls' = Some b' ->
    exists b, ss_find_blobber id bls = Some b /\ bl_offers b' = bl_offers b /\
              bl_allocd b' = bl_allocd b - tally key_size id (map ba_key bas).
Proof.
  induction bas as [|d tl IH]; cbn [ss_ent_release]; intros bls bls' H id b' Hf.
  - inversion H; subst. exists b'. cbn. split; [exact Hf | lia].
  - bind_as H b Eb.
    destruct (IH _ _ H id b' Hf) as [bm [Hfm [Ho Ha]]].
    pose proof (ss_find_blobber_id' _ _ _ Eb) as Hbid.
    rewrite ss_find_set_blobber in Hfm. cbn [bl_id bl_with_sizes bl_with_node] in Hfm. unfold tally. cbn [map ss_sum].
    replace (key_blobber (ba_key d)) with (ba_blobber d) by reflexivity. fold (tally key_size id (map ba_key tl)).
    rewrite Hbid, Eb in Hfm.
    destruct (Z.eqb_spec id (ba_blobber d)) as [E|E].
    + subst id. inversion Hfm; subst bm. exists b. rewrite Z.eqb_refl.
      split; [exact Eb|]. cbn in *. cbn [key_size ba_key]. lia.
    + destruct (Z.eqb_spec (ba_blobber d) id); [congruence|]. exists bm. split; [exact Hfm | lia].
Qed.

Lemma ss_close_ent_c13 : forall c s now a s',
  st_c13 s -> ss_find_alloc (al_id a) (st_allocs s) = Some a -> ss_close_ent c s now a = Some s' -> st_c13 s'.
Proof.
  unfold ss_close_ent; intros c s now a s' Hs Hfa H.
  bind_as H bls0 E0. bind_as H [[bls1 w1] cst] E1. bind_as H bls2 E2. bind_as H s2 E3. inversion H; subst. clear H.
  apply ss_transfer_lists in E3. destruct E3 as [Hak Hbk].
  cbn [st_blobbers st_allocs st_with_blobbers] in Hbk, Hak.
  apply ss_ent_pay_keys in E1.
  unfold st_c13, st_bkeys, st_akeys. cbn [st_blobbers st_allocs st_with_allocs]. rewrite Hbk, Hak.
  eapply (c13_update (st_blobbers s) bls2 (st_akeys s) _
            (fun i => - tally key_size i (map ba_key (al_bas a))) (fun i => - tally key_offer i (map ba_key (al_bas a)))).
  - exact Hs.
  - intros id b2 Hf2.
    destruct (ss_ent_release_delta _ _ _ E2 id b2 Hf2) as [b1 [Hf1 [Ho1 Ha1]]].
    destruct (find_keys_eq _ _ E1 id b1 Hf1) as [b0 [Hf0 [Ha0 Ho0]]].
    destruct (ss_ent_offers_delta _ _ _ E0 id b0 Hf0) as [b [Hf [Ha Ho]]].
    exists b. split; [exact Hf | lia].
  - intros i. cbn [st_allocs st_with_blobbers]. rewrite (tally_all_del _ _ _ _ Hfa). unfold st_akeys. lia.
  - intros i. cbn [st_allocs st_with_blobbers]. rewrite (tally_all_del _ _ _ _ Hfa). unfold st_akeys. lia.
Qed.

Lemma ss_finalize_ent_c13 : forall c s now sender alloc s', st_c13 s -> ss_finalize_ent c s now sender alloc = Some s' -> st_c13 s'.
Proof.
  unfold ss_finalize_ent; intros c s now sender alloc s' Hs H. bind_as H a Ea. guard_inv H. guard_inv H.
  eapply ss_close_ent_c13; eauto. eapply ss_find_alloc_self; eauto.
Qed.
Lemma ss_cancel_ent_c13 : forall c s now sender alloc s', st_c13 s -> ss_cancel_ent c s now sender alloc = Some s' -> st_c13 s'.
Proof.
  unfold ss_cancel_ent; intros c s now sender alloc s' Hs H. bind_as H a Ea. guard_inv H. guard_inv H.
  eapply ss_close_ent_c13; eauto. eapply ss_find_alloc_self; eauto.
Qed.

Lemma ss_new_alloc_ent_c13 : forall c s now id owner payer value tv data parity size bl rr wr tpe s',
  st_c13 s -> ss_new_alloc_ent c s now id owner payer value tv data parity size bl rr wr tpe = Some s' -> st_c13 s'.
Proof.
  unfold ss_new_alloc_ent; intros c s now id owner payer value tv data parity size bl rr wr tpe s' Hs H.
  bind_as H s1 E1. bind_as H a Ea. inversion H; subst. clear H.
  apply ss_new_alloc_c13 in E1; [|exact Hs].
  eapply st_c13_keys_eq; [|exact E1]. eapply st_keys_set_alloc; [cbn; eapply ss_find_alloc_self; eauto | reflexivity].
Qed.

Lemma ss_extend_ent_delta : forall c s now a size s' a',
  ss_extend_ent c s now a size = Some (s', a') -> (size <= 0 -> ss_bsize size (al_data a) = 0) ->
  al_id a' = al_id a /\ st_allocs s' = st_allocs s /\ al_data a' = al_data a /\
  forall id b', ss_find_blobber id (st_blobbers s') = Some b' ->
    exists b, ss_find_blobber id (st_blobbers s) = Some b /\
      bl_allocd b' = bl_allocd b + (tally key_size id (map ba_key (al_bas a')) - tally key_size id (map ba_key (al_bas a))) /\
      bl_offers b' = bl_offers b + (tally key_offer id (map ba_key (al_bas a')) - tally key_offer id (map ba_key (al_bas a))).
Proof.
  unfold ss_extend_ent; intros c s now a size s' a' H Hsz.
  bind_as H [[bls1 w1] cst] E1. cbv zeta in H. bind_as H [bas bls] E0. inversion H; subst. clear H.
  apply ss_ent_pay_keys in E1.
  pose proof (ss_extend_terms_delta _ _ _ _ _ _ _ E0 Hsz) as Hd.
  cbn [al_id al_data al_bas st_allocs st_blobbers al_with_head al_with_pools st_with_blobbers]. repeat split; auto. intros id b' Hf. destruct (Hd _ _ Hf) as [b1 [Hf1 [X Y]]].
  destruct (find_keys_eq _ _ E1 id b1 Hf1) as [b [Hfb [Xa Xo]]]. exists b. split; [exact Hfb | lia].
Qed.

Lemma ss_update_ent_c13 : forall c s now round sender alloc value size ext tpe add rem own s',
  st_c13 s -> ss_update_ent c s now round sender alloc value size ext tpe add rem own = Some s' ->
  ss_op_wf13 s (OpUpdate sender alloc value size ext tpe add rem own) -> st_c13 s'.
Proof.
  unfold ss_update_ent; intros c s now round sender alloc value size ext tpe add rem own s' Hs H Hwf.
  cbv zeta in H. bind_as H a Ea. guard_inv H. guard_inv H. guard_inv H. guard_inv H. guard_inv H. guard_inv H. guard_inv H.
  bind_as H [s1 a1] E1. bind_as H bl Ebl. bind_as H [s2 a2] E2. bind_as H cost Ec. guard_inv H.
  inversion H; subst. clear H.
  cbn [ss_op_wf13] in Hwf. rewrite Ea in Hwf. apply Z.leb_le in G1.
  assert (Hsz : size <= 0 -> ss_bsize size (al_data a) = 0) by (intros Hle; assert (size = 0) by lia; subst size; auto).
  assert (H1 : st_blobbers s1 = st_blobbers s /\ st_allocs s1 = st_allocs s /\ al_key a1 = al_key a /\ al_data a1 = al_data a).
  { destruct (ss_active (cf_demeter c) round && (0 <? value)).
    - bind_as E1 sx Elk. bind_as E1 wx Ew. guard_inv E1. injection E1 as Hx Hy. subst s1 a1.
      unfold ss_lock_from in Elk. destruct (ss_bal s sender <? value); [discriminate|]. apply ss_transfer_lists in Elk. destruct Elk. auto.
    - injection E1 as Hx Hy. subst s1 a1. auto. }
  destruct H1 as [Hbl1 [Hal1 [Hk1 Hd1]]].
  assert (Hbk1 : map ba_key (al_bas a1) = map ba_key (al_bas a)) by (unfold al_key in Hk1; injection Hk1 as _ Hx; exact Hx).
  assert (Hid1 : al_id a1 = al_id a) by exact (f_equal fst Hk1).
  assert (H2 : al_id a2 = al_id a /\ st_allocs s2 = st_allocs s /\
               forall id b', ss_find_blobber id (st_blobbers s2) = Some b' ->
                 exists b0, ss_find_blobber id (st_blobbers s) = Some b0 /\
                   bl_allocd b' = bl_allocd b0 + (tally key_size id (map ba_key (al_bas a2)) - tally key_size id (map ba_key (al_bas a))) /\
                   bl_offers b' = bl_offers b0 + (tally key_offer id (map ba_key (al_bas a2)) - tally key_offer id (map ba_key (al_bas a)))).
  { destruct (negb (sender =? al_owner a1)).
    - destruct (ss_extend_ent_delta _ _ _ _ _ _ _ E2) as [Hi [Ha [_ Hb]]]; [rewrite Hd1; exact Hsz|].
      split; [congruence|]. split; [congruence|]. intros id b' Hf. destruct (Hb _ _ Hf) as [b0 [Hf0 [X Y]]].
      exists b0. rewrite Hbl1 in Hf0. rewrite Hbk1 in X, Y. auto.
    - guard_inv E2. bind_as E2 [sb ab] Eex.
      assert (He : al_id ab = al_id a /\ st_allocs sb = st_allocs s /\
                   forall id b', ss_find_blobber id (st_blobbers sb) = Some b' ->
                     exists b0, ss_find_blobber id (st_blobbers s) = Some b0 /\
                       bl_allocd b' = bl_allocd b0 + (tally key_size id (map ba_key (al_bas ab)) - tally key_size id (map ba_key (al_bas a))) /\
                       bl_offers b' = bl_offers b0 + (tally key_offer id (map ba_key (al_bas ab)) - tally key_offer id (map ba_key (al_bas a)))).
      { destruct (ext || (0 <? size)).
        - destruct (ss_extend_ent_delta _ _ _ _ _ _ _ Eex) as [Hi [Ha [_ Hb]]]; [rewrite Hd1; exact Hsz|].
          split; [congruence|]. split; [congruence|]. intros id b' Hf. destruct (Hb _ _ Hf) as [b0 [Hf0 [X Y]]].
          exists b0. rewrite Hbl1 in Hf0. rewrite Hbk1 in X, Y. auto.
        - injection Eex as Hx Hy. subst sb ab. split; [congruence|]. split; [congruence|].
          intros id b' Hf. exists b'. rewrite Hbl1 in Hf. rewrite Hbk1. split; [exact Hf | lia]. }
      destruct He as [Hib [Halb Hbb]].
      destruct own as [[o wp]|].
      + destruct (o =? _).
        * injection E2 as Hx Hy. subst s2 a2. cbn [al_id al_bas al_with_head]. auto.
        * guard_inv E2. injection E2 as Hx Hy. subst s2 a2. cbn [al_id al_bas al_with_head]. auto.
      + injection E2 as Hx Hy. subst s2 a2. cbn [al_id al_bas al_with_head]. auto. }
  destruct H2 as [Hid2 [Hal2 Hb2]].
  unfold st_c13, st_bkeys, st_akeys. cbn [st_blobbers st_allocs st_with_allocs]. rewrite Hal2.
  assert (Hfa : ss_find_alloc (al_id a2) (st_allocs s) = Some a).
  { rewrite Hid2. eapply ss_find_alloc_self; eauto. }
  eapply (c13_update (st_blobbers s) (st_blobbers s2) (st_akeys s) _
            (fun i => tally key_size i (map ba_key (al_bas a2)) - tally key_size i (map ba_key (al_bas a)))
            (fun i => tally key_offer i (map ba_key (al_bas a2)) - tally key_offer i (map ba_key (al_bas a)))).
  - exact Hs.
  - exact Hb2.
  - intros i. rewrite (tally_all_set _ _ _ _ _ Hfa). unfold st_akeys. lia.
  - intros i. rewrite (tally_all_set _ _ _ _ _ Hfa). unfold st_akeys. lia.
Qed.

(* ---------- every operation of every world ---------- *)

Theorem ss_apply_w_c13 : forall c s now round o s',
  st_c13 s -> ss_op_wf13 s o -> ss_apply_w c s now round o = Some s' -> ss_fired13 s o = false -> st_c13 s'.
Proof.
  intros c s now round o s' Hs Hwf H Hf. unfold ss_apply_w in H. destruct (cf_ent c); cbn [negb] in H.
  - destruct o; try discriminate; try (eapply ss_apply_c13; eauto; fail).
    + eapply ss_new_alloc_ent_c13; eauto.
    + eapply ss_update_ent_c13; eauto.
    + eapply ss_finalize_ent_c13; eauto.
    + eapply ss_cancel_ent_c13; eauto.
  - eapply ss_apply_c13; eauto.
Qed.

Fixpoint ss_run_ok13_w (c : ss_conf) (s : ss_state) (evs : list ss_ev) : Prop :=
  match evs with
  | [] => True
  | EvTxn (now, round, o) :: tl => ss_fired13 s o = false /\ ss_op_wf13 s o /\ ss_run_ok13_w c (fst (ss_step_w c s (now, round, o))) tl
  | EvTimeUnit tu :: tl => ss_run_ok13_w (cf_with_tu c tu) s tl
  end.

(* histories of transactions and time-unit changes *)
Theorem ss_run_w_c13 : forall evs c s, st_c13 s -> ss_run_ok13_w c s evs -> st_c13 (fst (ss_run_w c s evs)).
Proof.
  induction evs as [|[[[now round] o]|tu] tl IH]; cbn [ss_run_w ss_run_ok13_w]; intros c s Hs Hok; [exact Hs| |].
  - destruct Hok as [Hf [Hwf Hok]]. unfold ss_step_w in *. destruct (ss_apply_w c s now round o) as [s1|] eqn:E.
    + cbn in Hok. specialize (IH c s1). destruct (ss_run_w c s1 tl) as [s2 oks] eqn:Er. cbn.
      assert (Hs1 : st_c13 s1) by (eapply ss_apply_w_c13; eauto). exact (IH Hs1 Hok).
    + cbn in Hok. specialize (IH c s Hs Hok). destruct (ss_run_w c s tl) as [s2 oks]. exact IH.
  - specialize (IH (cf_with_tu c tu) s Hs Hok). destruct (ss_run_w (cf_with_tu c tu) s tl) as [s2 oks]. exact IH.
Qed.
