(* C05: balances never overdraw or wrap; a failing transfer rejects the whole transaction. *)
From ZC Require Import Model.ChainState Proof.ChainState.
Open Scope Z_scope.

(* ---------- one transfer ---------- *)
Lemma cs_c05_transfer_range : forall sp m t m',
    cs_wf m -> 0 <= tr_amt t -> cs_transfer_assert sp m t = ROk m' -> cs_wf m'.
Proof.
  intros sp m t m' W P H. apply cs_transfer_assert_ok in H. eapply cs_transfer_amount_wf; eauto.
Qed.

Lemma cs_c05_transfer_error_iff : forall sp m t,
    cs_wf m -> 0 <= tr_amt t ->
    ((exists e, cs_transfer_amount sp m t = RErr e) <->
     tr_amt t <> 0 /\ (tr_from t = tr_to t \/ cs_bal m (tr_from t) < tr_amt t \/
                       cs_two64 <= cs_bal m (tr_to t) + tr_amt t)).
Proof.
  intros sp m t W P. unfold cs_transfer_amount.
  rewrite !cs_acct_of_bal, !cs_acct_of_nonce.
  destruct (Z.eqb_spec (tr_amt t) 0) as [E0|N0].
  - split; [intros [e He]; discriminate|intros [Hc _]; contradiction].
  - destruct (Z.eqb_spec (tr_from t) (tr_to t)) as [Eq|Ne].
    + split; [intros _; split; [exact N0|left; exact Eq]|intros _; eexists; reflexivity].
    + destruct (Z.ltb_spec (cs_bal m (tr_from t)) (tr_amt t)) as [Lt|Ge].
      * split; [intros _; split; [exact N0|right; left; exact Lt]|intros _; eexists; reflexivity].
      * unfold cs_minus_coin, cs_add_coin.
        destruct (Z.leb_spec (tr_amt t) (cs_bal m (tr_from t))); [|lia].
        destruct (Z.ltb_spec (cs_bal m (tr_to t) + tr_amt t) cs_two64) as [Lt2|Ge2].
        -- split; [intros [e He]; discriminate|intros [_ [Hc|[Hc|Hc]]]; [contradiction|lia|lia]].
        -- split; [intros _; split; [exact N0|right; right; exact Ge2]|intros _; eexists; reflexivity].
Qed.

(* ---------- the property-level notion of a failing transfer list ---------- *)
(* over plain balance functions, independent of the transfer code: some transfer, reached after
   the earlier ones have moved their amounts, overdraws its source or overflows its destination *)
Fixpoint cs_fails (f : Z -> Z) (l : list cs_transfer) : Prop :=
  match l with
  | [] => False
  | t :: tl =>
      (tr_amt t <> 0 /\ (f (tr_from t) < tr_amt t \/ cs_two64 <= f (tr_to t) + tr_amt t)) \/
      cs_fails (cs_move f t) tl
  end.

Lemma cs_fails_ext : forall l f g, (forall id, f id = g id) -> cs_fails f l -> cs_fails g l.
Proof.
  induction l as [|t tl IH]; intros f g E H; cbn [cs_fails] in *; [exact H|].
  destruct H as [H|H].
  - left. rewrite <- !E. exact H.
  - right. apply (IH (cs_move f t)); [|exact H]. intros id. unfold cs_move. rewrite E. reflexivity.
Qed.

Lemma cs_apply_ok_not_fails : forall sp l m ue m' ue',
    cs_apply_transfers sp l m ue = ROk (m', ue') -> ~ cs_fails (cs_bal m) l.
Proof.
  induction l as [|t tl IH]; intros m ue m' ue' H F; cbn [cs_fails] in F; [exact F|].
  cbn [cs_apply_transfers] in H.
  destruct (cs_transfer_assert sp m t) as [m1| |] eqn:E; try discriminate.
  apply cs_transfer_assert_ok in E.
  destruct F as [[NZ F]|F].
  - apply cs_transfer_amount_ok in E. destruct E as [[E0 _]|(_ & _ & Le & Lt & _)]; [contradiction|lia].
  - apply (IH _ _ _ _ H). apply (cs_fails_ext _ (cs_move (cs_bal m) t)); [|exact F].
    intros id. symmetry. eapply cs_transfer_amount_bal; eauto.
Qed.

(* applied by the trie exactly when applied in the transaction's context *)
Lemma cs_update_state_applied_iff : forall cfg st round tx r,
    cs_is_applied (cs_update_state cfg st round tx r) = cs_is_applied (cs_update_ideal cfg st round tx r).
Proof.
  intros. unfold cs_update_state. destruct (cs_update_ideal cfg st round tx r); reflexivity.
Qed.

Lemma cs_not_applied_post : forall st o, cs_is_applied o = false -> cs_post st o = st.
Proof. intros st [ | | ] H; cbn in *; [discriminate|reflexivity|reflexivity]. Qed.

Lemma cs_c05_failed_transfer_rejects : forall cfg st round tx r,
    cs_fails (cs_bal (st_accts st)) (cs_queued cfg tx r) ->
    cs_is_applied (cs_update_state cfg st round tx r) = false /\
    cs_post st (cs_update_state cfg st round tx r) = st.
Proof.
  intros cfg st round tx r F.
  assert (NA : cs_is_applied (cs_update_state cfg st round tx r) = false).
  { rewrite cs_update_state_applied_iff.
    destruct (cs_update_ideal cfg st round tx r) as [st' s o e| |] eqn:E; try reflexivity.
    exfalso. apply cs_update_ideal_applied in E. destruct E as (m2 & ue2 & A & _).
    exact (cs_apply_ok_not_fails _ _ _ _ _ _ A F). }
  split; [exact NA|apply cs_not_applied_post; exact NA].
Qed.

Lemma cs_c05_value_gt_supply : forall cfg st round tx r,
    cs_max_supply < tx_value tx -> cs_is_applied (cs_update_state cfg st round tx r) = false.
Proof.
  intros cfg st round tx r H. rewrite cs_update_state_applied_iff.
  destruct (cs_update_ideal cfg st round tx r) as [st' s o e| |] eqn:E; try reflexivity.
  apply cs_update_ideal_applied in E. destruct E as (_ & _ & _ & _ & _ & _ & Le & _). lia.
Qed.

(* ---------- ranges ---------- *)

Lemma cs_wf_filter : forall (p : Z * cs_acct -> bool) m, cs_wf m -> cs_wf (filter p m).
Proof.
  intros p m W. unfold cs_wf in *. rewrite Forall_forall in *. intros x Hx.
  apply filter_In in Hx. apply W. tauto.
Qed.

Lemma cs_c05_update_range : forall cfg st round tx r,
    cs_wf (st_accts st) -> cs_typed_txn cfg tx r ->
    cs_wf (st_accts (cs_post st (cs_update_state cfg st round tx r))).
Proof.
  intros cfg st round tx r W T. unfold cs_update_state.
  destruct (cs_update_ideal cfg st round tx r) as [st' s o e| |] eqn:E; cbn [cs_post]; try exact W.
  cbn [st_accts]. unfold cs_commit. apply cs_wf_filter.
  apply cs_update_ideal_effect in E. cbv zeta in E. destruct E as (_ & _ & _ & _ & _ & Wf & _).
  apply Wf; assumption.
Qed.

Lemma cs_c05_history_range : forall cfg h st,
    cs_wf (st_accts st) -> Forall (cs_typed_item cfg) h -> cs_wf (st_accts (cs_run cfg st h)).
Proof.
  intros cfg h. unfold cs_run. induction h as [|[[round tx] r] tl IH]; intros st W T; cbn [fold_left].
  - exact W.
  - inversion T; subst. apply IH; [|assumption]. unfold cs_step. apply cs_c05_update_range; assumption.
Qed.

(* applied: every balance is the exact integer result, which is itself a uint64: nothing wrapped *)
Lemma cs_c05_exact : forall cfg st round tx r st' status out evs,
    cs_canon_accts (st_accts st) -> cs_canon_txn cfg tx r ->
    cs_wf (st_accts st) -> cs_typed_txn cfg tx r ->
    cs_update_state cfg st round tx r = Applied st' status out evs ->
    forall id,
      cs_bal (st_accts st') id =
      cs_bal (st_accts st) id + cs_inflow (cs_queued cfg tx r) id - cs_outflow (cs_queued cfg tx r) id /\
      0 <= cs_bal (st_accts st') id < cs_two64.
Proof.
  intros cfg st round tx r st' status out evs Cs Ct W T H id.
  pose proof (cs_c05_update_range cfg st round tx r W T) as W'. rewrite H in W'. cbn [cs_post] in W'.
  rewrite cs_update_state_canon_eq in H by assumption.
  apply cs_update_ideal_effect in H. cbv zeta in H. destruct H as (_ & B & _).
  split; [apply B|apply cs_wf_bal; exact W'].
Qed.
