// Engine for C42: builds real node.Pool sharder pools in several insertion orders, asks a real
// chain.Chain (IsBlockSharderFromHash, IsBlockSharder, CanShardBlockWithReplicators) and the real
// HashPoolScorer/XORHashScorer, checks the property statement on the observed behaviour (oracle)
// and emits the cases for the Coq model.
package main

import (
	"encoding/hex"
	"fmt"
	"sort"
	"strings"

	"0chain.net/chaincore/block"
	"0chain.net/chaincore/chain"
	"0chain.net/chaincore/node"
	"0chain.net/chaincore/round"
	"0chain.net/core/encryption"
	"verifharness/sc"
	"verifharness/vh"
)

type nodeSpec struct {
	PK  string `json:"pk"`            // hex public key (32 bytes, ed25519 scheme): id = sha3(pk)
	IDB string `json:"idb,omitempty"` // "" = never SetID (idBytes nil); "id" = SetID(own id) as NewNode does; else hex passed to SetID before AddNode
}

type input struct {
	Nodes   []nodeSpec `json:"nodes"` // insertion order; repeated PK = replacement of the node object
	Hash    string     `json:"hash"`
	K       int        `json:"k"`
	Queries []int      `json:"queries"` // index into Nodes, or -1 for a node outside the pool
	Order2  []int      `json:"order2"`  // second insertion order (permutation of node indices)
}

func mkNode(s nodeSpec) *node.Node {
	n := node.Provider()
	n.Type = node.NodeTypeSharder
	n.SetSignatureSchemeType("ed25519")
	n.PublicKey = s.PK
	pkb, err := hex.DecodeString(s.PK)
	if err != nil {
		panic(err)
	}
	id := encryption.Hash(pkb)
	switch s.IDB {
	case "":
	case "id":
		if err := n.SetID(id); err != nil {
			panic(err)
		}
	default:
		if err := n.SetID(s.IDB); err != nil {
			panic(err)
		}
	}
	return n
}

func buildPool(specs []nodeSpec, order []int) (*node.Pool, map[string]*node.Node) {
	p := node.NewPool(node.NodeTypeSharder)
	objs := map[string]*node.Node{}
	for _, i := range order {
		n := mkNode(specs[i])
		if err := p.AddNode(n); err != nil {
			panic(err)
		}
		objs[n.GetKey()] = n
	}
	return p, objs
}

type world struct {
	c *chain.Chain
}

func (w *world) setup(p *node.Pool, k int) {
	w.c.ChainConfig = chain.NewConfigImpl(&chain.ConfigData{NumReplicators: k})
	w.c.MagicBlockStorage = round.NewRoundStartingStorage()
	mb := block.NewMagicBlock()
	mb.Miners = node.NewPool(node.NodeTypeMiner)
	mb.Sharders = p
	w.c.SetMagicBlock(mb)
}

type answer struct {
	is     *bool // nil = panic
	with   *bool
	nodes  []string // keys, sorted
	viaBlk *bool
}

func (w *world) ask(hash string, n *node.Node) (a answer) {
	func() {
		defer func() { _ = recover() }()
		b := w.c.IsBlockSharderFromHash(7, hash, n)
		a.is = &b
	}()
	func() {
		defer func() { _ = recover() }()
		bk := &block.Block{}
		bk.Hash = hash
		bk.Round = 7
		b := w.c.IsBlockSharder(bk, n)
		a.viaBlk = &b
	}()
	func() {
		defer func() { _ = recover() }()
		b, ns := w.c.CanShardBlockWithReplicators(7, hash, n)
		a.with = &b
		for _, x := range ns {
			a.nodes = append(a.nodes, x.GetKey())
		}
		sort.Strings(a.nodes)
	}()
	return
}

func eqBoolPtr(a, b *bool) bool {
	if a == nil || b == nil {
		return a == b
	}
	return *a == *b
}

func eqStrs(a, b []string) bool {
	if len(a) != len(b) {
		return false
	}
	for i := range a {
		if a[i] != b[i] {
			return false
		}
	}
	return true
}

type outcome struct {
	fail    string
	kinds   map[string]int
	coq     string
	nontriv bool
}

func optBool(b *bool) string {
	if b == nil {
		return "None"
	}
	return "(Some " + vh.Bool(*b) + ")"
}

func run(w *world, in input) outcome {
	out := outcome{kinds: map[string]int{}}
	order1 := make([]int, len(in.Nodes))
	for i := range order1 {
		order1[i] = i
	}
	p1, objs1 := buildPool(in.Nodes, order1)
	setFail := func(f string) {
		if out.fail == "" {
			out.fail = f
		}
	}
	dupKeys := len(objs1) != len(in.Nodes)
	if dupKeys {
		out.kinds["pool-with-replaced-node"]++
	}

	// scores as the real scorer sees them
	scorer := node.NewHashPoolScorer(encryption.NewXORHashScorer())
	var scores []*node.Score
	scorePanic := false
	func() {
		defer func() {
			if e := recover(); e != nil {
				scorePanic = true
			}
		}()
		scores = scorer.ScoreHashString(p1, in.Hash)
	}()
	_, hexErr := hex.DecodeString(in.Hash)
	switch {
	case scorePanic:
		out.kinds["hash-shorter-than-id-panic"]++
	case hexErr != nil:
		out.kinds["hash-not-hex"]++
	default:
		out.kinds["hash-ok"]++
	}
	scoreOf := map[string]int32{}
	for _, s := range scores {
		scoreOf[s.Node.GetKey()] = s.Score
	}
	n := p1.Size()
	switch {
	case in.K <= 0:
		out.kinds["k-disabled"]++
	case in.K > n:
		out.kinds["k-greater-than-n"]++
	case in.K == n:
		out.kinds["k-equals-n"]++
	default:
		out.kinds["k-within"]++
	}

	// all nodes of the pool + the requested queries
	w.setup(p1, in.K)
	keys := p1.Keys()
	sort.Strings(keys)
	ans1 := map[string]answer{}
	for _, k := range keys {
		ans1[k] = w.ask(in.Hash, objs1[k])
	}
	foreign := mkNode(nodeSpec{PK: strings.Repeat("ee", 32), IDB: "id"})
	ansForeign := w.ask(in.Hash, foreign)

	// ---- oracle: the property statement on the implementation ----
	var set1 []string
	anyPanic := false
	for _, k := range keys {
		a := ans1[k]
		if a.is == nil || a.with == nil {
			anyPanic = true
			continue
		}
		if *a.is {
			set1 = append(set1, k)
		}
		if !eqBoolPtr(a.is, a.with) || !eqBoolPtr(a.is, a.viaBlk) {
			setFail("isblocksharder-disagrees-with-canshardblockwithreplicators")
		}
	}
	if anyPanic && in.K <= 0 {
		setFail("not-everyone-when-replication-disabled")
	}
	if anyPanic && !scorePanic {
		setFail("lookup-panics-although-scoring-succeeds")
	}
	if !anyPanic && !scorePanic {
		if in.K <= 0 {
			if len(set1) != n {
				setFail("not-everyone-when-replication-disabled")
			}
			for _, k := range keys {
				if !eqStrs(ans1[k].nodes, keys) {
					setFail("not-everyone-when-replication-disabled")
				}
			}
			if ansForeign.is == nil || !*ansForeign.is {
				setFail("not-everyone-when-replication-disabled")
			}
		} else {
			for _, k := range keys {
				if !eqStrs(ans1[k].nodes, set1) {
					setFail("replicator-list-differs-from-isblocksharder-set")
				}
			}
			if ansForeign.is != nil && *ansForeign.is {
				setFail("node-outside-the-sharder-set-is-replicator")
			}
			if hexErr == nil && in.K <= n {
				if len(set1) < in.K {
					setFail("fewer-replicators-than-configured")
				}
				out.kinds["oracle-at-least-k"]++
				if len(set1) > in.K {
					out.kinds["tie-at-cutoff-extends-set"]++
				}
				// the set is the top by score: x in set iff fewer than k nodes score strictly higher
				for _, k := range keys {
					better := 0
					for _, k2 := range keys {
						if scoreOf[k2] > scoreOf[k] {
							better++
						}
					}
					if (better < in.K) != *ans1[k].is {
						setFail("set-is-not-the-k-best-scores-with-ties")
					}
				}
			}
		}
		// every node computes the same set: other insertion orders, fresh objects, a clone, a JSON round trip
		if !dupKeys {
			alts := []*node.Pool{}
			altObjs := []map[string]*node.Node{}
			if len(in.Order2) == len(in.Nodes) {
				p2, o2 := buildPool(in.Nodes, in.Order2)
				alts, altObjs = append(alts, p2), append(altObjs, o2)
			}
			rev := make([]int, len(in.Nodes))
			for i := range rev {
				rev[i] = len(in.Nodes) - 1 - i
			}
			p3, o3 := buildPool(in.Nodes, rev)
			alts, altObjs = append(alts, p3), append(altObjs, o3)
			pc := p1.Clone()
			oc := map[string]*node.Node{}
			for _, x := range pc.CopyNodes() {
				oc[x.GetKey()] = x
			}
			alts, altObjs = append(alts, pc), append(altObjs, oc)
			for ai, p := range alts {
				w.setup(p, in.K)
				for _, k := range keys {
					a := w.ask(in.Hash, altObjs[ai][k])
					out.kinds["oracle-order-independence"]++
					if !eqBoolPtr(a.is, ans1[k].is) || !eqStrs(a.nodes, ans1[k].nodes) {
						setFail("set-depends-on-insertion-order")
					}
				}
			}
			w.setup(p1, in.K)
		}
	}

	// ---- Coq case ----
	// keys are printed as their rank among all keys of the case (order-preserving renaming)
	allKeys := append([]string{}, keys...)
	allKeys = append(allKeys, foreign.GetKey())
	sort.Strings(allKeys)
	rank := map[string]int{}
	for i, k := range allKeys {
		rank[k] = i
	}
	keyZ := func(k string) string { return fmt.Sprintf("%d", rank[k]) }
	nodes := make([]string, len(in.Nodes))
	for i, s := range in.Nodes {
		// AddNode recomputes the id from the public key; idBytes stay as set
		pkb, _ := hex.DecodeString(s.PK)
		id := encryption.Hash(pkb)
		idb := s.IDB
		if idb == "id" {
			idb = id
		}
		nodes[i] = fmt.Sprintf("{| rpr_key := %s; rpr_idb := %s |}", keyZ(id), vh.Str(strings.ToLower(idb)))
	}
	hashT := "None"
	if _, err := hex.DecodeString(in.Hash); err == nil {
		hashT = "(Some " + vh.Str(strings.ToLower(in.Hash)) + ")"
	}
	scoresT := "None"
	if !scorePanic {
		var ss []string
		for _, k := range keys {
			if hexErr == nil {
				ss = append(ss, vh.Pair(keyZ(k), fmt.Sprintf("%d", scoreOf[k])))
			}
		}
		scoresT = "(Some " + vh.List(ss) + ")"
	}
	var qs []string
	q := func(key string, a answer) {
		with := "None"
		if a.with != nil {
			ks := make([]string, len(a.nodes))
			for i, x := range a.nodes {
				ks[i] = keyZ(x)
			}
			with = "(Some " + vh.Pair(vh.Bool(*a.with), vh.List(ks)) + ")"
		}
		qs = append(qs, fmt.Sprintf("{| rpq_key := %s; rpq_is := %s; rpq_with := %s |}", keyZ(key), optBool(a.is), with))
	}
	for _, qi := range in.Queries {
		if qi < 0 || qi >= len(in.Nodes) {
			q(foreign.GetKey(), ansForeign)
			continue
		}
		pkb, _ := hex.DecodeString(in.Nodes[qi].PK)
		k := encryption.Hash(pkb)
		q(k, ans1[k])
	}
	out.coq = fmt.Sprintf("{| rpc_nodes := %s; rpc_hash := %s; rpc_k := %s; rpc_scores := %s; rpc_queries := %s |}",
		vh.List(nodes), hashT, vh.Z(int64(in.K)), scoresT, vh.List(qs))
	out.nontriv = !anyPanic && !scorePanic && hexErr == nil && in.K >= 1 && in.K < n && len(set1) < n
	return out
}

// ---------- generators ----------

func randHex(r *vh.Rand, n int) string {
	b := make([]byte, n)
	for i := range b {
		b[i] = byte(r.Intn(256))
	}
	return hex.EncodeToString(b)
}

func idOf(pk string) []byte {
	pkb, _ := hex.DecodeString(pk)
	b, _ := hex.DecodeString(encryption.Hash(pkb))
	return b
}

func gen(r *vh.Rand, malformed bool) input {
	var in input
	n := r.Range(0, 12)
	if r.Chance(1, 8) {
		n = r.Range(13, 30)
	}
	mode := r.Intn(6) // 0-2: ids set as NewNode does; 3: none (magic-block decode path); 4: mixed; 5: short crafted ids
	for i := 0; i < n; i++ {
		s := nodeSpec{PK: randHex(r, 32)}
		switch mode {
		case 0, 1, 2:
			s.IDB = "id"
		case 3:
		case 4:
			if r.Bool() {
				s.IDB = "id"
			}
		default:
			s.IDB = hex.EncodeToString([]byte{[]byte{0, 1, 3, 7, 15, 255, 128, 85}[r.Intn(8)]})
		}
		in.Nodes = append(in.Nodes, s)
	}
	// hash: random, near one node's id (few differing bits), equal to an id, all zero / all ones
	switch r.Intn(6) {
	case 0, 1:
		in.Hash = randHex(r, 32)
	case 2:
		if n > 0 {
			b := idOf(in.Nodes[r.Intn(n)].PK)
			for i := 0; i < r.Intn(6); i++ {
				b[r.Intn(32)] ^= 1 << uint(r.Intn(8))
			}
			in.Hash = hex.EncodeToString(b)
		} else {
			in.Hash = randHex(r, 32)
		}
	case 3:
		in.Hash = strings.Repeat("00", 32)
	case 4:
		in.Hash = strings.Repeat("ff", 32)
	default:
		in.Hash = randHex(r, 32)
	}
	ks := []int{-1, 0, 1, 1, 2, 2, 3, n - 1, n, n + 1, n + 5, n / 2}
	in.K = ks[r.Intn(len(ks))]
	if malformed {
		switch r.Intn(6) {
		case 0:
			in.Hash = "zz" + randHex(r, 31)
		case 1:
			in.Hash = randHex(r, 16) // shorter than the ids: index out of range in Score
		case 2:
			in.Hash = ""
		case 3:
			in.Hash = randHex(r, 64)
		case 4:
			if n > 0 { // the same public key added twice: AddNode replaces the node object
				d := in.Nodes[r.Intn(n)]
				if r.Bool() {
					d.IDB = ""
				}
				in.Nodes = append(in.Nodes, d)
			}
		default:
			in.K = []int{-1 << 31, 1 << 30, -5}[r.Intn(3)]
		}
	}
	in.Order2 = r.Perm(len(in.Nodes))
	for i := 0; i < 3 && len(in.Nodes) > 0; i++ {
		in.Queries = append(in.Queries, r.Intn(len(in.Nodes)))
	}
	in.Queries = append(in.Queries, -1)
	return in
}

func key(in input) string {
	var b strings.Builder
	fmt.Fprintf(&b, "%s|%d", in.Hash, in.K)
	for _, n := range in.Nodes {
		fmt.Fprintf(&b, "|%s,%s", n.PK, n.IDB)
	}
	return b.String()
}

func main() {
	o := vh.ParseFlags()
	sc.Init()
	rep := vh.NewReport("replicate", "C42", o)
	rep.Rule = "sharder pools of 0-30 nodes built with the real Pool.AddNode in the given, a shuffled and the reversed order, cloned; ids set as NewNode does / never set " +
		"(magic-block decode path) / mixed / crafted 1-byte ids (dense ties); hashes random, a few bits from a node id, all-zero, all-one; k in {-1,0,1,2,3,n/2,n-1,n,n+1,n+5}; " +
		"malformed stream: non-hex, short (panic), empty, long hashes, repeated public key, extreme k; exhaustive: all multisets of <=4 one-byte ids x k=0..5; " +
		"non-trivial = valid hash, 1 <= k < n and a proper subset of the sharders chosen; distinct by node list, hash and k"
	cf := &vh.CasesFile{Imports: []string{"Base.Corr", "Model.Replicate", "Corr.Replicate"}, CaseType: "rp_case", CheckFn: "rp_check", Shard: 40}
	w := &world{c: chain.Provider().(*chain.Chain)}

	handle := func(in input, toCoq bool) {
		res := run(w, in)
		for k, n := range res.kinds {
			rep.CountN(k, n)
		}
		rep.Case(key(in), res.nontriv, in)
		if toCoq {
			cf.Add(res.coq)
			rep.CaseInputs = append(rep.CaseInputs, in)
		}
		if res.fail != "" {
			keep := vh.ShrinkIdx(len(in.Nodes), func(keep []int) bool {
				in2 := in
				in2.Nodes = nil
				for _, i := range keep {
					in2.Nodes = append(in2.Nodes, in.Nodes[i])
				}
				in2.Order2 = nil
				in2.Queries = []int{-1}
				return run(w, in2).fail == res.fail
			})
			in2 := in
			in2.Nodes = nil
			for _, i := range keep {
				in2.Nodes = append(in2.Nodes, in.Nodes[i])
			}
			in2.Order2 = nil
			in2.Queries = []int{-1}
			for i := range in2.Nodes {
				in2.Queries = append(in2.Queries, i)
			}
			rep.Violate("C42:"+res.fail, "replicating sharders: "+res.fail, in2)
		}
	}
	finish := func() {
		files, err := cf.Write(o.Out, "C42")
		if err != nil {
			panic(err)
		}
		rep.CaseFiles = files
		rep.ShardSize = 40
		rep.Write(o.Out)
	}
	var rin input
	if o.LoadReplay(&rin) {
		rep.Note("replay of one input")
		handle(rin, true)
		finish()
		return
	}
	rnd := vh.NewRand(o.Seed)
	// pools above 12 nodes go to the oracle always, to the model only every 10th (large literals are slow to type-check)
	for i := 0; i < o.N(300, 3000); i++ {
		in := gen(rnd, false)
		handle(in, i < o.N(170, 1700) && (len(in.Nodes) <= 12 || i%10 == 0))
	}
	for i := 0; i < o.N(100, 1000); i++ {
		in := gen(rnd, true)
		handle(in, i < o.N(60, 600) && (len(in.Nodes) <= 12 || i%10 == 0))
	}
	// exhaustive small scope: multisets of at most 4 one-byte ids (scores 0,1,2,3,8 against hash 00), k = 0..5
	ids := []string{"00", "01", "03", "07", "ff"}
	nExh := 0
	var rec func(start int, cur []string)
	rec = func(start int, cur []string) {
		if len(cur) > 0 {
			for k := 0; k <= 5; k++ {
				in := input{Hash: "00", K: k, Queries: []int{-1}}
				for i, idb := range cur {
					in.Nodes = append(in.Nodes, nodeSpec{PK: fmt.Sprintf("%064x", 1000+nExh*7+i), IDB: idb})
					in.Queries = append(in.Queries, i)
				}
				in.Order2 = rnd.Perm(len(in.Nodes))
				nExh++
				handle(in, nExh%o.N(8, 2) == 0)
			}
		}
		if len(cur) == 4 {
			return
		}
		for i := start; i < len(ids); i++ {
			rec(i, append(append([]string{}, cur...), ids[i]))
		}
	}
	rec(0, nil)
	rep.Note("exhaustive: %d inputs = all multisets of 1-4 one-byte ids out of %v (scores 0,1,2,3,8) x k=0..5, checked by the oracle; every %d-th also compared with the model", nExh, ids, o.N(8, 2))
	finish()
}
