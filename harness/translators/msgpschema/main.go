// msgpschema: translator for C08.
//
// For every package of the repository working tree (VERIF_REPO or /repo) that contains msgp
// generated code (*_gen.go with MarshalMsg methods; benchmark packages excluded) it type-checks
// the package and derives, for every type with a generated MarshalMsg, the schema term of the
// universe of coq/Model/Msgp.v from the Go type the way the msgp generator does: struct ->
// map of (key = `msg` tag or field name, schema of the field type) in declaration order,
// fields tagged `msg:"-"` and unexported fields (unless the package is generated with
// -unexported) dropped; named types with a generated MarshalMsg are expanded, time.Duration is
// an int64, []byte is bin, map[string]T a key-sorted map.  Emits
//   coq/Gen/MsgpSchema.v                    the schemas (and the list of unsupported types)
//   build/gen/msgpschema.json               the same for the engine, with Go field names
//   harness/msgpreg/registry_gen.go         constructors of the exported types
// Constructs outside the universe (interfaces, time.Time, non-string map keys, recursive
// types, fields whose type has a hand-written MarshalMsg) are accepted only when listed in
// `knownUnsupported` below with the reason; anything else fails closed (exit 1).
package main

import (
	"bytes"
	"crypto/sha1"
	"encoding/hex"
	"encoding/json"
	"fmt"
	"go/ast"
	"go/importer"
	"go/parser"
	"go/token"
	"go/types"
	"io"
	"os"
	"os/exec"
	"path/filepath"
	"reflect"
	"regexp"
	"sort"
	"strings"
)

func repo() string {
	if r := os.Getenv("VERIF_REPO"); r != "" {
		return r
	}
	return "/repo"
}

func die(f string, a ...interface{}) {
	fmt.Fprintf(os.Stderr, "msgpschema: "+f+"\n", a...)
	os.Exit(1)
}

var fset = token.NewFileSet()

type listPkg struct {
	ImportPath string
	Export     string
	Dir        string
	GoFiles    []string
	CgoFiles   []string
}

func goList(pkgs ...string) map[string]*listPkg {
	args := []string{"list", "-export", "-deps", "-json=ImportPath,Export,Dir,GoFiles,CgoFiles"}
	if r := os.Getenv("VERIF_REPO"); r != "" && filepath.Clean(r) != "/repo" {
		h := sha1.Sum([]byte(r))
		mf := filepath.Join("/verif/build/altmod", hex.EncodeToString(h[:])[:12], "go.mod")
		if _, err := os.Stat(mf); err != nil {
			die("VERIF_REPO=%s but %s is missing (bin/check creates it)", r, mf)
		}
		args = append(args, "-modfile="+mf)
	}
	args = append(args, pkgs...)
	cmd := exec.Command("go", args...)
	cmd.Dir = "/verif/harness"
	cmd.Env = append(os.Environ(), "GOWORK=off", "GOFLAGS=-mod=mod", "GOPROXY=off", "GOSUMDB=off", "GOTOOLCHAIN=local")
	var stderr bytes.Buffer
	cmd.Stderr = &stderr
	out, err := cmd.Output()
	if err != nil {
		die("go list failed: %v\n%s", err, stderr.String())
	}
	res := map[string]*listPkg{}
	dec := json.NewDecoder(bytes.NewReader(out))
	for {
		var p listPkg
		if err := dec.Decode(&p); err == io.EOF {
			break
		} else if err != nil {
			die("go list output: %v", err)
		}
		pp := p
		res[p.ImportPath] = &pp
	}
	return res
}

// ---------- schema ----------

type Field struct {
	Key string  `json:"key"`
	Go  string  `json:"go"`
	T   *Schema `json:"t"`
}
type Alt struct {
	Tag string  `json:"tag"`
	Go  string  `json:"go"` // Go type of this version (same package as the wrapper)
	T   *Schema `json:"t"`
}
type Schema struct {
	K      string  `json:"k"` // bool int uint f64 str bin arr map ptr struct ver
	Bits   int     `json:"bits,omitempty"`
	Elem   *Schema `json:"elem,omitempty"`
	Fields []Field `json:"fields,omitempty"`
	Alts   []Alt   `json:"alts,omitempty"`  // ver: entitywrapper versions, sorted by tag
	Wrap   string  `json:"wrap,omitempty"`  // ver: registered type name (TypeName())
	Go     string  `json:"gotype,omitempty"` // drop: the Go type whose UnmarshalMsg copies nothing back
}
type Entry struct {
	Name     string  `json:"name"` // pkgname.Type
	Pkg      string  `json:"pkg"`  // import path
	Type     string  `json:"type"`
	Exported bool    `json:"exported"`
	Schema   *Schema `json:"schema,omitempty"`
	Unsup    string  `json:"unsupported,omitempty"`
}

// types of the tree that are outside the universe, with the reason (the translator fails on any
// other unsupported construct)
var knownUnsupported = map[string]string{
	"state.StateContext":       "recursive type 0chain.net/chaincore/block.Block",
	"tokenpool.ZcnLockingPool": "field type 0chain.net/chaincore/tokenpool.TokenLockInterface has a hand-written MarshalMsg",
	"faucetsc.GlobalNode":      "time.Time (msgpack extension 5)",
	"faucetsc.UserNode":        "time.Time (msgpack extension 5)",
}

// declared fields that the generated code does not write, accepted with the reason; any other
// one fails closed (a stored field silently missing from the encoding forks state)
var knownUnserialized = map[string]string{
	"stakepool.UserPoolStat.Pools": "deprecated REST view (map keyed by datastore.Key is skipped by the generator); not stored in state",
}

type unsupported struct{ why string }

var genRe = regexp.MustCompile(`(?m)^func \(z \*?([A-Za-z0-9_]+)\) MarshalMsg\(`)

type pkgInfo struct {
	lp         *listPkg
	pkg        *types.Package
	files      []*ast.File
	gen        map[string]bool              // types with generated MarshalMsg
	unexported bool                         // generated with -unexported
	shims      map[string]string            // type with hand-written MarshalMsg `d := shadow(*x); return d.MarshalMsg(o)` -> shadow
	wrappers   map[string]map[string]string // wrapper type -> version tag -> Go type (entitywrapper.RegisterWrapper)
	wrapName   map[string]string            // wrapper type -> TypeName()
	shimCopy   map[string]map[string]bool   // shim type -> fields its UnmarshalMsg copies back from the shadow ("*" = all)
	genSrc     map[string]string            // type -> text of its generated MarshalMsg
}

var (
	hdrRe = regexp.MustCompile(`// map header, size (\d+)`)
	keyRe = regexp.MustCompile(`// string "([^"]*)"`)
)

// Unserialized lists struct fields that the type declares (exported, not tagged "-") but the
// generated MarshalMsg does not write (the generator skipped a field type it cannot handle).
type Unser struct {
	Type  string `json:"type"`
	Field string `json:"field"`
	Key   string `json:"key"`
}

var unserialized []Unser

// wireFields keeps the fields that the generated MarshalMsg of pkg.typ really writes; fails closed
// when the generated code and the declared fields cannot be reconciled.
func wireFields(pi *pkgInfo, typ string, fs []Field) []Field {
	src, ok := pi.genSrc[typ]
	if !ok {
		return fs
	}
	m := hdrRe.FindStringSubmatch(src)
	if m == nil {
		die("%s.%s: generated MarshalMsg of a struct without a map header comment", pi.pkg.Name(), typ)
	}
	n := 0
	fmt.Sscanf(m[1], "%d", &n)
	keys := map[string]bool{}
	for _, k := range keyRe.FindAllStringSubmatch(src, -1) {
		keys[k[1]] = true
	}
	if n == len(fs) {
		for _, f := range fs {
			if !keys[f.Key] {
				die("%s.%s: key %q derived from the type is not written by the generated MarshalMsg", pi.pkg.Name(), typ, f.Key)
			}
		}
		return fs
	}
	var out []Field
	for _, f := range fs {
		if keys[f.Key] {
			out = append(out, f)
		} else if ast.IsExported(f.Go) {
			u := Unser{pi.pkg.Name() + "." + typ, f.Go, f.Key}
			dup := false
			for _, x := range unserialized {
				dup = dup || x == u
			}
			if !dup {
				unserialized = append(unserialized, u)
			}
		} // unexported fields are written only by files generated with -unexported
	}
	if len(out) != n {
		die("%s.%s: generated MarshalMsg writes %d fields, the type declares %d, %d of them found in the generated code",
			pi.pkg.Name(), typ, n, len(fs), len(out))
	}
	return out
}

// scanPkg finds the delegation shims and the entitywrapper registrations of a package (syntax).
func scanPkg(pi *pkgInfo) {
	pi.shims = map[string]string{}
	pi.wrappers = map[string]map[string]string{}
	pi.wrapName = map[string]string{}
	pi.shimCopy = map[string]map[string]bool{}
	recvName := func(fd *ast.FuncDecl) (string, string) {
		if fd.Recv == nil || len(fd.Recv.List) != 1 {
			return "", ""
		}
		t := fd.Recv.List[0].Type
		if st, ok := t.(*ast.StarExpr); ok {
			t = st.X
		}
		id, ok := t.(*ast.Ident)
		if !ok {
			return "", ""
		}
		v := ""
		if len(fd.Recv.List[0].Names) == 1 {
			v = fd.Recv.List[0].Names[0].Name
		}
		return id.Name, v
	}
	for _, f := range pi.files {
		if strings.HasSuffix(fset.Position(f.Pos()).Filename, "_gen.go") {
			continue
		}
		for _, d := range f.Decls {
			fd, ok := d.(*ast.FuncDecl)
			if !ok || fd.Body == nil {
				continue
			}
			tn, rv := recvName(fd)
			if tn != "" && fd.Name.Name == "MarshalMsg" && len(fd.Body.List) == 2 && len(fd.Type.Params.List) == 1 && len(fd.Type.Params.List[0].Names) == 1 {
				// d := shadow(*x) ; return d.MarshalMsg(o)
				as, ok1 := fd.Body.List[0].(*ast.AssignStmt)
				rs, ok2 := fd.Body.List[1].(*ast.ReturnStmt)
				if ok1 && ok2 && as.Tok == token.DEFINE && len(as.Lhs) == 1 && len(as.Rhs) == 1 && len(rs.Results) == 1 {
					call, okc := as.Rhs[0].(*ast.CallExpr)
					ret, okr := rs.Results[0].(*ast.CallExpr)
					if okc && okr && len(call.Args) == 1 && len(ret.Args) == 1 {
						sh, oks := call.Fun.(*ast.Ident)
						star, okst := call.Args[0].(*ast.StarExpr)
						sel, oksel := ret.Fun.(*ast.SelectorExpr)
						if oks && okst && oksel && sel.Sel.Name == "MarshalMsg" {
							x, okx := star.X.(*ast.Ident)
							dv, okd := sel.X.(*ast.Ident)
							lhs, okl := as.Lhs[0].(*ast.Ident)
							arg, oka := ret.Args[0].(*ast.Ident)
							if okx && okd && okl && oka && x.Name == rv && dv.Name == lhs.Name && arg.Name == fd.Type.Params.List[0].Names[0].Name {
								pi.shims[tn] = sh.Name
							}
						}
					}
				}
			}
			if tn != "" && fd.Name.Name == "UnmarshalMsg" && rv != "" {
				// which fields come back from the shadow value: `*x = T(*d)` (all) or `x.F = d.F`
				cp := map[string]bool{}
				for _, st := range fd.Body.List {
					as, ok := st.(*ast.AssignStmt)
					if !ok || as.Tok != token.ASSIGN || len(as.Lhs) != 1 || len(as.Rhs) != 1 {
						continue
					}
					if star, ok := as.Lhs[0].(*ast.StarExpr); ok {
						if id, ok := star.X.(*ast.Ident); ok && id.Name == rv {
							if call, ok := as.Rhs[0].(*ast.CallExpr); ok && len(call.Args) == 1 {
								if fn, ok := call.Fun.(*ast.Ident); ok && fn.Name == tn {
									if _, ok := call.Args[0].(*ast.StarExpr); ok {
										cp["*"] = true
									}
								}
							}
						}
					}
					if ls, ok := as.Lhs[0].(*ast.SelectorExpr); ok {
						if id, ok := ls.X.(*ast.Ident); ok && id.Name == rv {
							if rs, ok := as.Rhs[0].(*ast.SelectorExpr); ok && rs.Sel.Name == ls.Sel.Name {
								if _, ok := rs.X.(*ast.Ident); ok {
									cp[ls.Sel.Name] = true
								}
							}
						}
					}
				}
				pi.shimCopy[tn] = cp
			}
			if tn != "" && fd.Name.Name == "TypeName" && len(fd.Body.List) == 1 {
				if rs, ok := fd.Body.List[0].(*ast.ReturnStmt); ok && len(rs.Results) == 1 {
					if bl, ok := rs.Results[0].(*ast.BasicLit); ok && bl.Kind == token.STRING {
						pi.wrapName[tn] = strings.Trim(bl.Value, "\"")
					}
				}
			}
			// entitywrapper.RegisterWrapper(&T{}, map[string]entitywrapper.EntityI{tag: &V{}, ...})
			ast.Inspect(fd.Body, func(n ast.Node) bool {
				call, ok := n.(*ast.CallExpr)
				if !ok || len(call.Args) != 2 {
					return true
				}
				sel, ok := call.Fun.(*ast.SelectorExpr)
				if !ok || sel.Sel.Name != "RegisterWrapper" {
					return true
				}
				wt := compositeType(call.Args[0])
				cl, ok := call.Args[1].(*ast.CompositeLit)
				if wt == "" || !ok {
					die("%s: unrecognised RegisterWrapper call", fset.Position(call.Pos()))
				}
				m := map[string]string{}
				for _, el := range cl.Elts {
					kv, ok := el.(*ast.KeyValueExpr)
					if !ok {
						die("%s: unrecognised RegisterWrapper element", fset.Position(el.Pos()))
					}
					tag := ""
					switch k := kv.Key.(type) {
					case *ast.BasicLit:
						tag = strings.Trim(k.Value, "\"")
					case *ast.SelectorExpr:
						if k.Sel.Name == "DefaultOriginVersion" {
							tag = "v1"
						}
					}
					vt := compositeType(kv.Value)
					if tag == "" || vt == "" {
						die("%s: unrecognised RegisterWrapper element", fset.Position(el.Pos()))
					}
					m[tag] = vt
				}
				pi.wrappers[wt] = m
				return true
			})
		}
	}
}

// &T{} -> "T"
func compositeType(e ast.Expr) string {
	u, ok := e.(*ast.UnaryExpr)
	if !ok || u.Op != token.AND {
		return ""
	}
	cl, ok := u.X.(*ast.CompositeLit)
	if !ok || len(cl.Elts) != 0 {
		return ""
	}
	id, ok := cl.Type.(*ast.Ident)
	if !ok {
		return ""
	}
	return id.Name
}

var pkgs = map[string]*pkgInfo{} // by import path

func hasMarshalMsg(t types.Type) *types.Func {
	for _, tt := range []types.Type{t, types.NewPointer(t)} {
		ms := types.NewMethodSet(tt)
		for i := 0; i < ms.Len(); i++ {
			if f, ok := ms.At(i).Obj().(*types.Func); ok && f.Name() == "MarshalMsg" {
				return f
			}
		}
	}
	return nil
}

func isGenerated(n *types.Named) bool {
	o := n.Obj()
	if o.Pkg() == nil {
		return false
	}
	if pi := pkgs[o.Pkg().Path()]; pi != nil {
		return pi.gen[o.Name()]
	}
	// outside the tree: github.com/0chain/common currency.Coin (generated, uint64)
	return o.Pkg().Path() == "github.com/0chain/common/core/currency" && o.Name() == "Coin"
}

func derive(t types.Type, stack []string, unexp bool) (s *Schema) {
	switch x := t.(type) {
	case *types.Basic:
		switch x.Kind() {
		case types.Bool:
			return &Schema{K: "bool"}
		case types.Int, types.Int64:
			return &Schema{K: "int", Bits: 64}
		case types.Int8:
			return &Schema{K: "int", Bits: 8}
		case types.Int16:
			return &Schema{K: "int", Bits: 16}
		case types.Int32:
			return &Schema{K: "int", Bits: 32}
		case types.Uint, types.Uint64:
			return &Schema{K: "uint", Bits: 64}
		case types.Uint8:
			return &Schema{K: "uint", Bits: 8}
		case types.Uint16:
			return &Schema{K: "uint", Bits: 16}
		case types.Uint32:
			return &Schema{K: "uint", Bits: 32}
		case types.Float64:
			return &Schema{K: "f64"}
		case types.String:
			return &Schema{K: "str"}
		}
		panic(unsupported{"basic type " + x.String()})
	case *types.Slice:
		if b, ok := x.Elem().Underlying().(*types.Basic); ok && b.Kind() == types.Uint8 {
			return &Schema{K: "bin"}
		}
		return &Schema{K: "arr", Elem: derive(x.Elem(), stack, unexp)}
	case *types.Map:
		if b, ok := x.Key().Underlying().(*types.Basic); !ok || b.Kind() != types.String {
			panic(unsupported{"map key " + x.Key().String()})
		}
		return &Schema{K: "map", Elem: derive(x.Elem(), stack, unexp)}
	case *types.Pointer:
		return &Schema{K: "ptr", Elem: derive(x.Elem(), stack, unexp)}
	case *types.Struct:
		s := &Schema{K: "struct"}
		seen := map[string]bool{}
		for i := 0; i < x.NumFields(); i++ {
			f := x.Field(i)
			tag := reflect.StructTag(x.Tag(i))
			key := f.Name()
			m, ok := tag.Lookup("msg")
			if !ok || m == "" { // the generator falls back to the msgpack tag
				m, ok = tag.Lookup("msgpack")
			}
			if ok {
				name := strings.Split(m, ",")[0]
				if name == "-" {
					continue
				}
				// tag options (omitempty, ...) are not honoured by this generator version: the
				// generated code has no omission masks; wireFields reconciles against it
				if name != "" {
					key = name
				}
			}
			if !f.Exported() && !unexp {
				continue
			}
			if seen[key] {
				panic(unsupported{"duplicate key " + key})
			}
			seen[key] = true
			s.Fields = append(s.Fields, Field{Key: key, Go: f.Name(), T: derive(f.Type(), stack, unexp)})
		}
		return s
	case *types.Named:
		o := x.Obj()
		full := o.Name()
		if o.Pkg() != nil {
			full = o.Pkg().Path() + "." + o.Name()
		}
		if full == "time.Duration" {
			return &Schema{K: "int", Bits: 64}
		}
		if full == "time.Time" {
			panic(unsupported{"time.Time (msgpack extension 5)"})
		}
		for _, st := range stack {
			if st == full {
				panic(unsupported{"recursive type " + full})
			}
		}
		if f := hasMarshalMsg(x); f != nil && !isGenerated(x) {
			var pi *pkgInfo
			if o.Pkg() != nil {
				pi = pkgs[o.Pkg().Path()]
			}
			if pi != nil {
				if sh, ok := pi.shims[o.Name()]; ok && pi.gen[sh] {
					so := pi.pkg.Scope().Lookup(sh)
					if so == nil || types.TypeString(so.Type().Underlying(), nil) != types.TypeString(x.Underlying(), nil) {
						panic(unsupported{"shim " + sh + " of " + full + " has a different underlying type"})
					}
					inner := derive(so.Type().Underlying(), append(stack, full), pi.unexported)
					cp := pi.shimCopy[o.Name()]
					if cp == nil {
						panic(unsupported{"shim " + full + " without a hand-written UnmarshalMsg"})
					}
					if cp["*"] || inner.K != "struct" {
						return inner
					}
					n := 0
					for _, f := range inner.Fields {
						if cp[f.Go] {
							n++
						}
					}
					switch {
					case n == len(inner.Fields):
						return inner
					case n == 0:
						return &Schema{K: "drop", Elem: inner, Go: full}
					}
					panic(unsupported{"UnmarshalMsg of " + full + " copies back only some fields of its shadow value"})
				}
				if vs, ok := pi.wrappers[o.Name()]; ok && f.Pkg() != nil && f.Pkg().Path() == "0chain.net/core/util/entitywrapper" {
					s := &Schema{K: "ver", Wrap: pi.wrapName[o.Name()]}
					if s.Wrap == "" {
						panic(unsupported{"wrapper " + full + " without a literal TypeName()"})
					}
					var tags []string
					for t := range vs {
						tags = append(tags, t)
					}
					sort.Strings(tags)
					for _, t := range tags {
						vo := pi.pkg.Scope().Lookup(vs[t])
						if vo == nil || !pi.gen[vs[t]] {
							panic(unsupported{"version type " + vs[t] + " of " + full + " has no generated code"})
						}
						as := derive(vo.Type().Underlying(), append(stack, full), pi.unexported)
						if as.K != "struct" {
							panic(unsupported{"version type " + vs[t] + " is not a struct"})
						}
						s.Alts = append(s.Alts, Alt{Tag: t, Go: vs[t], T: as})
					}
					return s
				}
			}
			panic(unsupported{"field type " + full + " has a hand-written MarshalMsg"})
		}
		un := unexp
		if o.Pkg() != nil {
			if pi := pkgs[o.Pkg().Path()]; pi != nil {
				un = pi.unexported
			} else {
				un = false
			}
		}
		res := derive(x.Underlying(), append(stack, full), un)
		if res.K == "struct" && o.Pkg() != nil {
			if pi := pkgs[o.Pkg().Path()]; pi != nil && pi.gen[o.Name()] {
				res.Fields = wireFields(pi, o.Name(), res.Fields)
			}
		}
		return res
	case *types.Interface:
		panic(unsupported{"interface type"})
	}
	panic(unsupported{"type " + t.String()})
}

// ---------- Coq printing ----------

func coqStr(s string) string { return "\"" + strings.ReplaceAll(s, "\"", "\"\"") + "\"" }

func coq(s *Schema, ind string) string {
	switch s.K {
	case "bool":
		return "TBool"
	case "int":
		return fmt.Sprintf("(TInt %d)", s.Bits)
	case "uint":
		return fmt.Sprintf("(TUint %d)", s.Bits)
	case "f64":
		return "TF64"
	case "str":
		return "TStr"
	case "bin":
		return "TBin"
	case "arr":
		return "(TArr " + coq(s.Elem, ind) + ")"
	case "map":
		return "(TMap " + coq(s.Elem, ind) + ")"
	case "ptr":
		return "(TPtr " + coq(s.Elem, ind) + ")"
	case "drop":
		return "(TDrop " + coq(s.Elem, ind) + ")"
	case "ver":
		var as []string
		for _, a := range s.Alts {
			as = append(as, "("+"mk "+coqStr(a.Tag)+", "+coq(a.T, ind+"  ")+")")
		}
		return "(TVer [" + strings.Join(as, ";\n"+ind+"  ") + "])"
	case "struct":
		var fs []string
		for _, f := range s.Fields {
			fs = append(fs, "("+"mk "+coqStr(f.Key)+", "+coq(f.T, ind+"  ")+")")
		}
		return "(TStruct [" + strings.Join(fs, ";\n"+ind+"  ") + "])"
	}
	die("internal: kind %s", s.K)
	return ""
}

func writeIfChanged(path, txt string) {
	if old, err := os.ReadFile(path); err == nil && string(old) == txt {
		return
	}
	if err := os.MkdirAll(filepath.Dir(path), 0o755); err != nil {
		die("%v", err)
	}
	if err := os.WriteFile(path, []byte(txt), 0o644); err != nil {
		die("%v", err)
	}
}

func main() {
	root := filepath.Join(repo(), "code/go/0chain.net")
	// packages with generated code
	var paths []string
	dirs := map[string]map[string]bool{}
	genText := map[string]map[string]string{}
	unexp := map[string]bool{}
	_ = filepath.Walk(root, func(p string, fi os.FileInfo, err error) error {
		if err != nil || fi.IsDir() || !strings.HasSuffix(p, "_gen.go") || strings.HasSuffix(p, "_gen_test.go") {
			return nil
		}
		b, _ := os.ReadFile(p)
		ms := genRe.FindAllStringSubmatch(string(b), -1)
		if len(ms) == 0 {
			return nil
		}
		d := filepath.Dir(p)
		if strings.Contains(d, "/benchmark") {
			return nil
		}
		if dirs[d] == nil {
			dirs[d] = map[string]bool{}
		}
		for _, m := range ms {
			dirs[d][m[1]] = true
		}
		if genText[d] == nil {
			genText[d] = map[string]string{}
		}
		txt := string(b)
		for _, loc := range genRe.FindAllStringSubmatchIndex(txt, -1) {
			end := strings.Index(txt[loc[1]:], "\nfunc ")
			body := txt[loc[0]:]
			if end >= 0 {
				body = txt[loc[0] : loc[1]+end]
			}
			genText[d][txt[loc[2]:loc[3]]] = body
		}
		return nil
	})
	for d := range dirs {
		rel, _ := filepath.Rel(root, d)
		paths = append(paths, "0chain.net/"+rel)
		// -unexported in a go:generate line of the package
		fs, _ := filepath.Glob(filepath.Join(d, "*.go"))
		for _, f := range fs {
			b, _ := os.ReadFile(f)
			if regexp.MustCompile(`(?m)^//go:generate msgp .*-unexported`).Match(b) {
				unexp["0chain.net/"+rel] = true
			}
		}
	}
	sort.Strings(paths)
	all := goList(paths...)
	imp := importer.ForCompiler(fset, "gc", func(p string) (io.ReadCloser, error) {
		e := all[p]
		if e == nil || e.Export == "" {
			return nil, fmt.Errorf("no export data for %s", p)
		}
		return os.Open(e.Export)
	})
	for _, path := range paths {
		lp := all[path]
		if lp == nil {
			die("package %s not listed", path)
		}
		if !strings.HasPrefix(lp.Dir, root) {
			die("package %s resolved to %s, expected below %s", path, lp.Dir, root)
		}
		var files []*ast.File
		for _, f := range append(append([]string{}, lp.GoFiles...), lp.CgoFiles...) {
			af, err := parser.ParseFile(fset, filepath.Join(lp.Dir, f), nil, 0)
			if err != nil {
				die("parse %s: %v", f, err)
			}
			files = append(files, af)
		}
		conf := types.Config{Importer: imp, FakeImportC: true, Error: func(err error) {}}
		pkg, _ := conf.Check(path, fset, files, nil)
		if pkg == nil {
			die("type check of %s failed", path)
		}
		pkgs[path] = &pkgInfo{lp: lp, pkg: pkg, files: files, gen: dirs[lp.Dir], unexported: unexp[path], genSrc: genText[lp.Dir]}
		scanPkg(pkgs[path])
	}
	// NOTE: a Named type seen through export data of another package is a different object from
	// the one type-checked from source; both are resolved by path+name through `pkgs`.
	var entries []Entry
	for _, path := range paths {
		pi := pkgs[path]
		var names []string
		top := map[string]bool{}
		for n := range pi.gen {
			top[n] = true
		}
		for n, sh := range pi.shims {
			if pi.gen[sh] {
				top[n] = true
			}
		}
		for n := range pi.wrappers {
			top[n] = true
		}
		for n := range top {
			names = append(names, n)
		}
		sort.Strings(names)
		for _, n := range names {
			obj := pi.pkg.Scope().Lookup(n)
			e := Entry{Name: pi.pkg.Name() + "." + n, Pkg: path, Type: n, Exported: ast.IsExported(n)}
			if obj == nil {
				die("%s: generated type %s not found in package scope", path, n)
			}
			if !pi.gen[n] {
				// shim or wrapper: derive through the Named type itself
				func() {
					defer func() {
						if r := recover(); r != nil {
							u, ok := r.(unsupported)
							if !ok {
								panic(r)
							}
							e.Unsup = u.why
						}
					}()
					e.Schema = derive(obj.Type(), nil, pi.unexported)
				}()
				entries = append(entries, e)
				continue
			}
			func() {
				defer func() {
					if r := recover(); r != nil {
						u, ok := r.(unsupported)
						if !ok {
							panic(r)
						}
						e.Unsup = u.why
					}
				}()
				e.Schema = derive(obj.Type(), nil, pi.unexported)
			}()
			entries = append(entries, e)
		}
	}
	// name clashes between packages with the same package name
	seen := map[string]bool{}
	for _, e := range entries {
		if seen[e.Name] {
			die("duplicate schema name %s", e.Name)
		}
		seen[e.Name] = true
	}
	discover := len(os.Args) > 1 && os.Args[1] == "-discover"
	bad := 0
	for _, e := range entries {
		if e.Unsup == "" {
			continue
		}
		if discover {
			fmt.Printf("UNSUPPORTED %s: %s\n", e.Name, e.Unsup)
			continue
		}
		if _, ok := knownUnsupported[e.Name]; !ok {
			fmt.Fprintf(os.Stderr, "msgpschema: %s is outside the universe (%s) and not in the allow-list\n", e.Name, e.Unsup)
			bad++
		}
	}
	for _, u := range unserialized {
		if discover {
			fmt.Printf("UNSERIALIZED %s.%s\n", u.Type, u.Field)
		} else if _, ok := knownUnserialized[u.Type+"."+u.Field]; !ok {
			fmt.Fprintf(os.Stderr, "msgpschema: field %s.%s is declared but not written by the generated MarshalMsg (stale or unsupported generated code)\n", u.Type, u.Field)
			bad++
		}
	}
	if bad > 0 {
		os.Exit(1)
	}
	if !discover {
		for n := range knownUnsupported {
			if !seen[n] {
				die("allow-list names %s, which no longer exists", n)
			}
		}
	}
	// ---- Coq ----
	var b strings.Builder
	b.WriteString("(* Generated by harness/translators/msgpschema from the msgp generated types of the source tree; do not edit. *)\n")
	b.WriteString("From Coq Require Import List ZArith String.\nFrom ZC Require Import Model.Msgp.\nImport ListNotations.\nLocal Open Scope string_scope.\n\n")
	b.WriteString("Definition mk (s : string) : list Z := mp_of_string s.\n\n")
	var ok, un []string
	for _, e := range entries {
		if e.Schema == nil {
			un = append(un, "("+coqStr(e.Name)+", "+coqStr(e.Unsup)+")")
			continue
		}
		id := "msgp_" + strings.NewReplacer(".", "_").Replace(e.Name)
		fmt.Fprintf(&b, "Definition %s : mp_ty :=\n  %s.\n\n", id, coq(e.Schema, "  "))
		ok = append(ok, "("+coqStr(e.Name)+", "+id+")")
	}
	b.WriteString("Definition msgp_schemas : list (string * mp_ty) := [\n  " + strings.Join(ok, ";\n  ") + "].\n\n")
	var lossy []string
	var hasDrop func(s *Schema) bool
	hasDrop = func(s *Schema) bool {
		if s == nil {
			return false
		}
		if s.K == "drop" || hasDrop(s.Elem) {
			return true
		}
		for _, f := range s.Fields {
			if hasDrop(f.T) {
				return true
			}
		}
		for _, a := range s.Alts {
			if hasDrop(a.T) {
				return true
			}
		}
		return false
	}
	for _, e := range entries {
		if hasDrop(e.Schema) {
			lossy = append(lossy, coqStr(e.Name))
		}
	}
	b.WriteString("(* schemas containing a type whose hand-written UnmarshalMsg copies nothing back from its shadow value *)\n")
	b.WriteString("Definition msgp_lossy : list string := [" + strings.Join(lossy, "; ") + "].\n\n")
	var us []string
	for _, u := range unserialized {
		us = append(us, "("+coqStr(u.Type)+", "+coqStr(u.Key)+")")
	}
	b.WriteString("(* declared struct fields that the generated MarshalMsg does not write: (type, key) *)\n")
	b.WriteString("Definition msgp_unserialized : list (string * string) := [" + strings.Join(us, "; ") + "].\n\n")
	b.WriteString("(* types with generated code that the universe cannot express (allow-listed in the translator) *)\n")
	b.WriteString("Definition msgp_unsupported : list (string * string) := [\n  " + strings.Join(un, ";\n  ") + "].\n")
	out := "/verif/coq/Gen/MsgpSchema.v"
	jout := "/verif/build/gen/msgpschema.json"
	rout := "/verif/harness/msgpreg/registry_gen.go"
	if discover {
		out, jout, rout = "/var/tmp/vs/codec-MsgpSchema.v", "/var/tmp/vs/codec-msgpschema.json", "/var/tmp/vs/codec-registry_gen.go"
	}
	writeIfChanged(out, b.String())
	js, _ := json.MarshalIndent(map[string]interface{}{"entries": entries, "unserialized": unserialized}, "", " ")
	writeIfChanged(jout, string(js)+"\n")
	// ---- Go registry of exported types ----
	var g strings.Builder
	g.WriteString("// Code generated by harness/translators/msgpschema; DO NOT EDIT.\n\npackage msgpreg\n\nimport (\n")
	imports := map[string]string{}
	for _, e := range entries {
		if e.Schema != nil {
			imports[e.Pkg] = ""
		}
	}
	var ips []string
	for p := range imports {
		ips = append(ips, p)
	}
	sort.Strings(ips)
	for i, p := range ips {
		imports[p] = fmt.Sprintf("p%d", i)
		fmt.Fprintf(&g, "\t%s %q\n", imports[p], p)
	}
	g.WriteString(")\n\n// New maps a schema name to a constructor (exported types directly, unexported ones through\n// the package's verif hook).\nvar New = map[string]func() interface{}{\n")
	for _, e := range entries {
		if e.Schema == nil {
			continue
		}
		if e.Exported {
			fmt.Fprintf(&g, "\t%q: func() interface{} { return new(%s.%s) },\n", e.Name, imports[e.Pkg], e.Type)
		} else {
			fmt.Fprintf(&g, "\t%q: %s.VerifMsgpNew[%q],\n", e.Name, imports[e.Pkg], e.Type)
		}
	}
	g.WriteString("}\n")
	writeIfChanged(rout, g.String())
	if discover {
		// hook file text per package with unexported generated types
		byPkg := map[string][]string{}
		for _, e := range entries {
			if e.Schema != nil && !e.Exported {
				byPkg[e.Pkg] = append(byPkg[e.Pkg], e.Type)
			}
		}
		for p, ts := range byPkg {
			fmt.Printf("HOOK %s: %s\n", p, strings.Join(ts, " "))
		}
		fmt.Printf("%d schemas, %d unsupported\n", len(ok), len(un))
	}
}
