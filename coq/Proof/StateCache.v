(* Proofs about the state cache model (property C07). *)
From ZC Require Import Model.StateCache.
Open Scope Z_scope.

(* ---------- association lists ---------- *)
Section AL.
  Context {K V : Type} (eqb : K -> K -> bool) (eqb_spec : forall a b, reflect (a = b) (eqb a b)).
  Lemma sal_get_del_eq k (l : list (K * V)) : sc_al_get eqb k (sc_al_del eqb k l) = None.
  Proof.
    induction l as [|[k' v] tl IH]; cbn; [reflexivity|].
    destruct (eqb_spec k k') as [->|Hne]; [exact IH|]. cbn. destruct (eqb_spec k k'); [contradiction|exact IH].
  Qed.
  Lemma sal_get_del_ne k k' (l : list (K * V)) : k <> k' -> sc_al_get eqb k (sc_al_del eqb k' l) = sc_al_get eqb k l.
  Proof.
    intros Hne. induction l as [|[k2 v] tl IH]; cbn; [reflexivity|].
    destruct (eqb_spec k' k2) as [->|H2].
    - destruct (eqb_spec k k2); [contradiction|exact IH].
    - cbn. destruct (eqb_spec k k2); [reflexivity|exact IH].
  Qed.
  Lemma sal_get_set_eq k v (l : list (K * V)) : sc_al_get eqb k (sc_al_set eqb k v l) = Some v.
  Proof. unfold sc_al_set. cbn. destruct (eqb_spec k k); [reflexivity|contradiction]. Qed.
  Lemma sal_get_set_ne k k' v (l : list (K * V)) : k <> k' -> sc_al_get eqb k (sc_al_set eqb k' v l) = sc_al_get eqb k l.
  Proof.
    intros Hne. unfold sc_al_set. cbn. destruct (eqb_spec k k'); [contradiction|]. apply sal_get_del_ne. exact Hne.
  Qed.
  Lemma sal_in_del x k (l : list (K * V)) : In x (sc_al_del eqb k l) -> In x l.
  Proof.
    induction l as [|[k' v] tl IH]; cbn; [tauto|]. destruct (eqb k k'); cbn; tauto.
  Qed.
  Lemma sal_in_set x k v (l : list (K * V)) : In x (sc_al_set eqb k v l) -> x = (k, v) \/ In x l.
  Proof. unfold sc_al_set. cbn. intros [H|H]; [left; congruence|right; eapply sal_in_del; exact H]. Qed.
  Lemma sal_get_in k v (l : list (K * V)) : sc_al_get eqb k l = Some v -> In (k, v) l.
  Proof.
    induction l as [|[k' v'] tl IH]; cbn; [discriminate|].
    destruct (eqb_spec k k') as [->|Hne]; [intros H; injection H as ->; left; reflexivity|auto].
  Qed.
End AL.

Definition z_gse {V} := @sal_get_set_eq Z V Z.eqb Z.eqb_spec.
Definition z_gsn {V} := @sal_get_set_ne Z V Z.eqb Z.eqb_spec.
Definition z_gde {V} := @sal_get_del_eq Z V Z.eqb Z.eqb_spec.
Definition z_gdn {V} := @sal_get_del_ne Z V Z.eqb Z.eqb_spec.
Definition n_gse {V} := @sal_get_set_eq nat V Nat.eqb Nat.eqb_spec.
Definition n_gsn {V} := @sal_get_set_ne nat V Nat.eqb Nat.eqb_spec.

Lemma sc_hget_set_eq h l v : sc_hget (sc_al_set Nat.eqb l v h) l = v.
Proof. unfold sc_hget. rewrite n_gse. reflexivity. Qed.
Lemma sc_hget_set_ne h l l' v : l' <> l -> sc_hget (sc_al_set Nat.eqb l v h) l' = sc_hget h l'.
Proof. intros H. unfold sc_hget. rewrite n_gsn by exact H. reflexivity. Qed.
Lemma sc_deref_set_ne h l v o : so_ref o <> l -> sc_deref (sc_al_set Nat.eqb l v h) o = sc_deref h o.
Proof. intros H. unfold sc_deref. rewrite sc_hget_set_ne by exact H. reflexivity. Qed.

(* ---------- invariant ---------- *)
Definition sc_coh (h : sc_heap) (ls : list sc_layer) (t : sc_trie) : Prop :=
  forall k o, sc_lookup ls k = LHit o -> sc_al_get Z.eqb k t = Some (sc_deref h o).

(* o is the object of a live (not deleted) entry of one of the layers *)
Definition sc_live_in (ls : list sc_layer) (o : sc_obj) : Prop :=
  exists l k n, In l ls /\ In (k, n) l /\ sn_deleted n = false /\ sn_obj n = o.

Record sc_inv (st : sc_state) : Prop := {
  iv_txn : sc_coh (ss_heap st) (sc_layers st) (ss_ttxn st);
  iv_blk : sc_coh (ss_heap st) (ss_bc st :: ss_sc st) (ss_tblk st);
  iv_base : sc_coh (ss_heap st) (ss_sc st) (ss_tbase st);
  iv_sep : forall o, sc_live_in (sc_layers st) o ->
             (so_ref o < ss_next st)%nat /\ forall hd, In hd (ss_handles st) -> so_ref hd <> so_ref o;
  iv_hfresh : forall hd, In hd (ss_handles st) -> (so_ref hd < ss_next st)%nat }.

Lemma sc_lookup_live ls k o : sc_lookup ls k = LHit o -> sc_live_in ls o.
Proof.
  induction ls as [|l tl IH]; cbn; [discriminate|].
  destruct (sc_al_get Z.eqb k l) as [n|] eqn:E.
  - destruct (sn_deleted n) eqn:Ed; [discriminate|]. intros H; injection H as <-.
    exists l, k, n. split; [left; reflexivity|]. split; [eapply sal_get_in; [apply Z.eqb_spec|exact E]|auto].
  - intros H. destruct (IH H) as (l0 & k0 & n0 & Hl & Hin & Hd & Ho).
    exists l0, k0, n0. split; [right; exact Hl|auto].
Qed.

Lemma sc_live_in_cons l ls o :
  sc_live_in (l :: ls) o <-> (exists k n, In (k, n) l /\ sn_deleted n = false /\ sn_obj n = o) \/ sc_live_in ls o.
Proof.
  split.
  - intros (l0 & k & n & [<-|Hl] & H); [left; eauto|right; exists l0, k, n; auto].
  - intros [(k & n & H)|(l0 & k & n & Hl & H)]; [exists l, k, n; split; [left; reflexivity|exact H]|].
    exists l0, k, n. split; [right; exact Hl|exact H].
Qed.

(* coherence survives heap writes that do not touch live cells *)
Lemma sc_coh_heap h h' ls t :
  sc_coh h ls t -> (forall o, sc_live_in ls o -> sc_deref h' o = sc_deref h o) -> sc_coh h' ls t.
Proof.
  intros Hc Hd k o Hl. rewrite (Hd o (sc_lookup_live _ _ _ Hl)). apply Hc. exact Hl.
Qed.

Lemma sc_live_in_tail l ls o : sc_live_in ls o -> sc_live_in (l :: ls) o.
Proof. intros H. apply sc_live_in_cons. right. exact H. Qed.

(* lookup through a layer updated at key k0 *)
Lemma sc_lookup_set_eq l ls k n :
  sc_lookup (sc_al_set Z.eqb k n l :: ls) k = if sn_deleted n then LMiss else LHit (sn_obj n).
Proof. cbn [sc_lookup]. rewrite z_gse. reflexivity. Qed.
Lemma sc_lookup_set_ne l ls k k0 n :
  k <> k0 -> sc_lookup (sc_al_set Z.eqb k0 n l :: ls) k = sc_lookup (l :: ls) k.
Proof. intros H. cbn [sc_lookup]. rewrite z_gsn by exact H. reflexivity. Qed.

Lemma sc_live_in_set l ls k n o :
  sc_live_in (sc_al_set Z.eqb k n l :: ls) o ->
  (sn_deleted n = false /\ sn_obj n = o) \/ sc_live_in (l :: ls) o.
Proof.
  intros H. apply sc_live_in_cons in H. destruct H as [(k1 & n1 & Hin & Hd & Ho)|H].
  - apply sal_in_set in Hin. destruct Hin as [Heq|Hin].
    + injection Heq as -> ->. left. auto.
    + right. apply sc_live_in_cons. left. eauto.
  - right. apply sc_live_in_tail. exact H.
Qed.

(* merging the transaction layer into the block layer does not change any lookup *)
Lemma sc_merge_get top bottom k :
  sc_al_get Z.eqb k (sc_merge top bottom) =
  match sc_al_get Z.eqb k top with Some n => Some n | None => sc_al_get Z.eqb k bottom end.
Proof.
  induction top as [|[k1 n1] tl IH]; cbn [sc_merge fold_right fst snd sc_al_get]; [reflexivity|].
  fold (sc_merge tl bottom). destruct (Z.eqb_spec k k1) as [->|Hne].
  - apply z_gse.
  - rewrite z_gsn by exact Hne. exact IH.
Qed.

Lemma sc_lookup_merge top bottom ls k :
  sc_lookup (sc_merge top bottom :: ls) k = sc_lookup (top :: bottom :: ls) k.
Proof.
  cbn [sc_lookup]. rewrite sc_merge_get. destruct (sc_al_get Z.eqb k top); reflexivity.
Qed.

Lemma sc_merge_in top bottom x : In x (sc_merge top bottom) -> In x top \/ In x bottom.
Proof.
  induction top as [|[k1 n1] tl IH]; cbn [sc_merge fold_right fst snd]; [auto|].
  fold (sc_merge tl bottom). intros H. apply sal_in_set in H. destruct H as [->|H]; [left; left; reflexivity|].
  destruct (IH H); [left; right|right]; assumption.
Qed.

Lemma sc_live_in_merge top bottom ls o :
  sc_live_in (sc_merge top bottom :: ls) o -> sc_live_in (top :: bottom :: ls) o.
Proof.
  intros H. apply sc_live_in_cons in H. destruct H as [(k & n & Hin & Hd)|H].
  - apply sc_merge_in in Hin. destruct Hin as [Hin|Hin].
    + apply sc_live_in_cons. left. eauto.
    + apply sc_live_in_tail. apply sc_live_in_cons. left. eauto.
  - apply sc_live_in_tail, sc_live_in_tail. exact H.
Qed.

Lemma in_set_nth i o l x : In x (sc_set_nth i o l) -> x = o \/ In x l.
Proof.
  revert i. induction l as [|y tl IH]; intros i; [destruct i; cbn; tauto|].
  destruct i as [|j]; cbn.
  - intros [H|H]; [left; congruence|right; right; exact H].
  - intros [H|H]; [auto|]. destruct (IH j H); auto.
Qed.

Lemma sc_inv_init m : sc_inv (sc_init m).
Proof.
  constructor; cbn; try (intros k o H; discriminate).
  - intros o (l & k & n & Hl & Hin & _). cbn in Hl. destruct Hl as [<-|[<-|[]]]; contradiction.
  - intros hd [].
Qed.

(* ---------- every step keeps the invariant (types with a deep Clone) ---------- *)
Lemma sc_step_inv st o :
  md_clone_deep (ss_mode st) = true -> sc_inv st -> sc_inv (fst (sc_step st o)).
Proof.
  intros Hdeep Hinv. pose proof Hinv as [Htxn Hblk Hbase Hsep Hfr].
  assert (Hlower_alloc : forall l v, (ss_next st <= l)%nat -> forall o0, sc_live_in (sc_layers st) o0 ->
            sc_deref (sc_al_set Nat.eqb l v (ss_heap st)) o0 = sc_deref (ss_heap st) o0).
  { intros l v Hl o0 Ho. apply sc_deref_set_ne. destruct (Hsep o0 Ho) as [Hlt _]. lia. }
  destruct o as [k|k t|k i|k|i t| | | | |k]; cbn [sc_step].
  - (* Get *)
    destruct (sc_lookup (sc_layers st) k) as [c|] eqn:El.
    + unfold sc_copy at 1. rewrite Hdeep.
      set (h1 := sc_al_set Nat.eqb (ss_next st) (sc_hget (ss_heap st) (so_ref c)) (ss_heap st)).
      set (cv := {| so_scalar := so_scalar c; so_ref := ss_next st |}).
      assert (Hh1 : forall o0, sc_live_in (sc_layers st) o0 -> sc_deref h1 o0 = sc_deref (ss_heap st) o0)
        by (intros o0 Ho; apply Hlower_alloc; [lia|exact Ho]).
      unfold sc_copy. destruct (md_copy_deep (ss_mode st)); cbn [fst].
      * set (h2 := sc_al_set Nat.eqb (S (ss_next st)) (sc_hget h1 (so_ref cv)) h1).
        assert (Hh2 : forall o0, sc_live_in (sc_layers st) o0 -> sc_deref h2 o0 = sc_deref (ss_heap st) o0).
        { intros o0 Ho. unfold h2. rewrite sc_deref_set_ne; [apply Hh1; exact Ho|].
          destruct (Hsep o0 Ho) as [Hlt _]. lia. }
        constructor; unfold sc_layers in *; cbn [fst sc_upd ss_heap ss_next ss_tc ss_bc ss_sc ss_ttxn ss_tblk ss_tbase ss_handles].
        -- eapply sc_coh_heap; [exact Htxn|exact Hh2].
        -- eapply sc_coh_heap; [exact Hblk|]. intros o0 Ho. apply Hh2. apply sc_live_in_tail. exact Ho.
        -- eapply sc_coh_heap; [exact Hbase|]. intros o0 Ho. apply Hh2. apply sc_live_in_tail, sc_live_in_tail. exact Ho.
        -- intros o0 Ho. destruct (Hsep o0 Ho) as [Hlt Hne]. split; [lia|].
           intros hd Hin. apply in_app_or in Hin. destruct Hin as [Hin|[<-|[]]]; [auto|cbn; lia].
        -- intros hd Hin. apply in_app_or in Hin. destruct Hin as [Hin|[<-|[]]]; [specialize (Hfr hd Hin); lia|cbn; lia].
      * constructor; unfold sc_layers in *; cbn [fst sc_upd ss_heap ss_next ss_tc ss_bc ss_sc ss_ttxn ss_tblk ss_tbase ss_handles].
        -- eapply sc_coh_heap; [exact Htxn|exact Hh1].
        -- eapply sc_coh_heap; [exact Hblk|]. intros o0 Ho. apply Hh1. apply sc_live_in_tail. exact Ho.
        -- eapply sc_coh_heap; [exact Hbase|]. intros o0 Ho. apply Hh1. apply sc_live_in_tail, sc_live_in_tail. exact Ho.
        -- intros o0 Ho. destruct (Hsep o0 Ho) as [Hlt Hne]. split; [lia|].
           intros hd Hin. apply in_app_or in Hin. destruct Hin as [Hin|[<-|[]]]; [auto|cbn; lia].
        -- intros hd Hin. apply in_app_or in Hin. destruct Hin as [Hin|[<-|[]]]; [specialize (Hfr hd Hin); lia|cbn; lia].
    + destruct (sc_al_get Z.eqb k (ss_ttxn st)) as [d|] eqn:Et; [|exact Hinv].
      unfold sc_alloc, sc_cache_set, sc_copy. rewrite Hdeep. cbn [fst snd so_scalar so_ref].
      set (h1 := sc_al_set Nat.eqb (ss_next st) (snd d) (ss_heap st)).
      set (h2 := sc_al_set Nat.eqb (S (ss_next st)) (sc_hget h1 (ss_next st)) h1).
      set (cv := {| so_scalar := fst d; so_ref := S (ss_next st) |}).
      assert (Hh2 : forall o0, sc_live_in (sc_layers st) o0 -> sc_deref h2 o0 = sc_deref (ss_heap st) o0).
      { intros o0 Ho. destruct (Hsep o0 Ho) as [Hlt _]. unfold h2, h1. rewrite !sc_deref_set_ne by lia. reflexivity. }
      assert (Hcv : sc_deref h2 cv = d).
      { unfold sc_deref, cv, h2. cbn [so_scalar so_ref]. rewrite sc_hget_set_eq. unfold h1.
        rewrite sc_hget_set_eq. destruct d; reflexivity. }
      constructor; unfold sc_layers in *; cbn [fst sc_upd ss_heap ss_next ss_tc ss_bc ss_sc ss_ttxn ss_tblk ss_tbase ss_handles].
      * intros k0 o0. destruct (Z.eq_dec k0 k) as [->|Hk].
        -- rewrite sc_lookup_set_eq. cbn. intros H; injection H as <-. rewrite Hcv. exact Et.
        -- rewrite sc_lookup_set_ne by exact Hk. intros Hl. rewrite (Hh2 o0 (sc_lookup_live _ _ _ Hl)).
           apply Htxn. exact Hl.
      * eapply sc_coh_heap; [exact Hblk|]. intros o0 Ho. apply Hh2. apply sc_live_in_tail. exact Ho.
      * eapply sc_coh_heap; [exact Hbase|]. intros o0 Ho. apply Hh2. apply sc_live_in_tail, sc_live_in_tail. exact Ho.
      * intros o0 Ho. apply sc_live_in_set in Ho. destruct Ho as [[_ <-]|Ho].
        -- cbn. split; [lia|]. intros hd Hin. apply in_app_or in Hin.
           destruct Hin as [Hin|[<-|[]]]; [specialize (Hfr hd Hin); lia|cbn; lia].
        -- destruct (Hsep o0 Ho) as [Hlt Hne]. split; [lia|]. intros hd Hin. apply in_app_or in Hin.
           destruct Hin as [Hin|[<-|[]]]; [auto|cbn; lia].
      * intros hd Hin. apply in_app_or in Hin. destruct Hin as [Hin|[<-|[]]]; [specialize (Hfr hd Hin); lia|cbn; lia].
  - (* Insert *)
    unfold sc_alloc, sc_cache_set, sc_copy. rewrite Hdeep. cbn [fst snd so_scalar so_ref].
    set (h1 := sc_al_set Nat.eqb (ss_next st) t (ss_heap st)).
    set (h2 := sc_al_set Nat.eqb (S (ss_next st)) (sc_hget h1 (ss_next st)) h1).
    set (cv := {| so_scalar := t; so_ref := S (ss_next st) |}).
    assert (Hh2 : forall o0, sc_live_in (sc_layers st) o0 -> sc_deref h2 o0 = sc_deref (ss_heap st) o0).
    { intros o0 Ho. destruct (Hsep o0 Ho) as [Hlt _]. unfold h2, h1. rewrite !sc_deref_set_ne by lia. reflexivity. }
    assert (Hcv : sc_deref h2 cv = (t, t)).
    { unfold sc_deref, cv, h2. cbn [so_scalar so_ref]. rewrite sc_hget_set_eq. unfold h1.
      rewrite sc_hget_set_eq. reflexivity. }
    constructor; unfold sc_layers in *; cbn [fst sc_upd ss_heap ss_next ss_tc ss_bc ss_sc ss_ttxn ss_tblk ss_tbase ss_handles].
    + intros k0 o0. destruct (Z.eq_dec k0 k) as [->|Hk].
      * rewrite sc_lookup_set_eq. cbn. intros H; injection H as <-. rewrite Hcv. apply z_gse.
      * rewrite sc_lookup_set_ne by exact Hk. intros Hl. rewrite (Hh2 o0 (sc_lookup_live _ _ _ Hl)).
        rewrite z_gsn by exact Hk. apply Htxn. exact Hl.
    + eapply sc_coh_heap; [exact Hblk|]. intros o0 Ho. apply Hh2. apply sc_live_in_tail. exact Ho.
    + eapply sc_coh_heap; [exact Hbase|]. intros o0 Ho. apply Hh2. apply sc_live_in_tail, sc_live_in_tail. exact Ho.
    + intros o0 Ho. apply sc_live_in_set in Ho. destruct Ho as [[_ <-]|Ho].
      * cbn. split; [lia|]. intros hd Hin. apply in_app_or in Hin.
        destruct Hin as [Hin|[<-|[]]]; [specialize (Hfr hd Hin); lia|cbn; lia].
      * destruct (Hsep o0 Ho) as [Hlt Hne]. split; [lia|]. intros hd Hin. apply in_app_or in Hin.
        destruct Hin as [Hin|[<-|[]]]; [auto|cbn; lia].
    + intros hd Hin. apply in_app_or in Hin. destruct Hin as [Hin|[<-|[]]]; [specialize (Hfr hd Hin); lia|cbn; lia].
  - (* InsertH *)
    destruct (nth_error (ss_handles st) i) as [v|] eqn:Ev; [|exact Hinv].
    assert (Hvin : In v (ss_handles st)) by (eapply nth_error_In; exact Ev).
    unfold sc_cache_set, sc_copy. rewrite Hdeep. cbn [fst snd so_scalar so_ref].
    set (h2 := sc_al_set Nat.eqb (ss_next st) (sc_hget (ss_heap st) (so_ref v)) (ss_heap st)).
    set (cv := {| so_scalar := so_scalar v; so_ref := ss_next st |}).
    assert (Hh2 : forall o0, sc_live_in (sc_layers st) o0 -> sc_deref h2 o0 = sc_deref (ss_heap st) o0)
      by (intros o0 Ho; apply Hlower_alloc; [lia|exact Ho]).
    assert (Hcv : sc_deref h2 cv = sc_deref (ss_heap st) v).
    { unfold sc_deref, cv, h2. cbn [so_scalar so_ref]. rewrite sc_hget_set_eq. reflexivity. }
    constructor; unfold sc_layers in *; cbn [fst sc_upd ss_heap ss_next ss_tc ss_bc ss_sc ss_ttxn ss_tblk ss_tbase ss_handles].
    + intros k0 o0. destruct (Z.eq_dec k0 k) as [->|Hk].
      * rewrite sc_lookup_set_eq. cbn. intros H; injection H as <-. rewrite Hcv. apply z_gse.
      * rewrite sc_lookup_set_ne by exact Hk. intros Hl. rewrite (Hh2 o0 (sc_lookup_live _ _ _ Hl)).
        rewrite z_gsn by exact Hk. apply Htxn. exact Hl.
    + eapply sc_coh_heap; [exact Hblk|]. intros o0 Ho. apply Hh2. apply sc_live_in_tail. exact Ho.
    + eapply sc_coh_heap; [exact Hbase|]. intros o0 Ho. apply Hh2. apply sc_live_in_tail, sc_live_in_tail. exact Ho.
    + intros o0 Ho. apply sc_live_in_set in Ho. destruct Ho as [[_ <-]|Ho].
      * cbn. split; [lia|]. intros hd Hin. specialize (Hfr hd Hin). lia.
      * destruct (Hsep o0 Ho) as [Hlt Hne]. split; [lia|]. exact Hne.
    + intros hd Hin. specialize (Hfr hd Hin). lia.
  - (* Delete *)
    destruct (sc_al_get Z.eqb k (ss_ttxn st)) as [d|] eqn:Et; [|exact Hinv].
    constructor; unfold sc_layers in *; cbn [fst sc_upd ss_heap ss_next ss_tc ss_bc ss_sc ss_ttxn ss_tblk ss_tbase ss_handles]; auto.
    + intros k0 o0. destruct (Z.eq_dec k0 k) as [->|Hk].
      * rewrite sc_lookup_set_eq. destruct (sc_al_get Z.eqb k (ss_tc st)); cbn; discriminate.
      * rewrite sc_lookup_set_ne by exact Hk. intros Hl. rewrite z_gdn by exact Hk. apply Htxn. exact Hl.
    + intros o0 Ho. apply sc_live_in_set in Ho. destruct Ho as [[Hd _]|Ho]; [|apply Hsep; exact Ho].
      destruct (sc_al_get Z.eqb k (ss_tc st)); cbn in Hd; discriminate.
  - (* Mutate *)
    destruct (nth_error (ss_handles st) i) as [v|] eqn:Ev; [|exact Hinv].
    assert (Hvin : In v (ss_handles st)) by (eapply nth_error_In; exact Ev).
    assert (Hh : forall o0, sc_live_in (sc_layers st) o0 ->
              sc_deref (sc_al_set Nat.eqb (so_ref v) t (ss_heap st)) o0 = sc_deref (ss_heap st) o0).
    { intros o0 Ho. apply sc_deref_set_ne. destruct (Hsep o0 Ho) as [_ Hne]. intros Heq. apply (Hne v Hvin). auto. }
    constructor; unfold sc_layers in *; cbn [fst sc_upd ss_heap ss_next ss_tc ss_bc ss_sc ss_ttxn ss_tblk ss_tbase ss_handles].
    + eapply sc_coh_heap; [exact Htxn|exact Hh].
    + eapply sc_coh_heap; [exact Hblk|]. intros o0 Ho. apply Hh. apply sc_live_in_tail. exact Ho.
    + eapply sc_coh_heap; [exact Hbase|]. intros o0 Ho. apply Hh. apply sc_live_in_tail, sc_live_in_tail. exact Ho.
    + intros o0 Ho. destruct (Hsep o0 Ho) as [Hlt Hne]. split; [exact Hlt|].
      intros hd Hin. apply in_set_nth in Hin. destruct Hin as [->|Hin]; [cbn; apply Hne; exact Hvin|auto].
    + intros hd Hin. apply in_set_nth in Hin. destruct Hin as [->|Hin]; [cbn; apply Hfr; exact Hvin|auto].
  - (* CommitTxn *)
    constructor; unfold sc_layers in *; cbn [ss_heap ss_next ss_tc ss_bc ss_sc ss_ttxn ss_tblk ss_tbase ss_handles fst].
    + intros k o0 Hl. change (sc_lookup (sc_merge (ss_tc st) (ss_bc st) :: ss_sc st) k = LHit o0) in Hl.
      rewrite sc_lookup_merge in Hl. apply Htxn. exact Hl.
    + intros k o0 Hl. rewrite sc_lookup_merge in Hl. apply Htxn. exact Hl.
    + exact Hbase.
    + intros o0 Ho. apply Hsep. apply sc_live_in_cons in Ho. destruct Ho as [(k & n & [] & _)|Ho].
      apply sc_live_in_merge. exact Ho.
    + exact Hfr.
  - (* DiscardTxn *)
    constructor; unfold sc_layers in *; cbn [ss_heap ss_next ss_tc ss_bc ss_sc ss_ttxn ss_tblk ss_tbase ss_handles fst];
      try solve [auto | intros k o0 Hl; apply Hblk; exact Hl].
    intros o0 Ho. apply Hsep. apply sc_live_in_cons in Ho. destruct Ho as [(k & n & [] & _)|Ho].
    apply sc_live_in_tail. exact Ho.
  - (* CommitBlock *)
    constructor; unfold sc_layers in *; cbn [ss_heap ss_next ss_tc ss_bc ss_sc ss_ttxn ss_tblk ss_tbase ss_handles fst];
      try solve [auto | intros k o0 Hl; apply Htxn; exact Hl | intros k o0 Hl; apply Hblk; exact Hl].
    intros o0 Ho. apply Hsep. apply sc_live_in_cons in Ho. destruct Ho as [Ho|Ho].
    + apply sc_live_in_cons. left. exact Ho.
    + apply sc_live_in_cons in Ho. destruct Ho as [(k & n & [] & _)|Ho].
      apply sc_live_in_tail. exact Ho.
  - (* DiscardBlock *)
    constructor; unfold sc_layers in *; cbn [ss_heap ss_next ss_tc ss_bc ss_sc ss_ttxn ss_tblk ss_tbase ss_handles fst];
      try solve [auto | intros k o0 Hl; apply Hbase; exact Hl].
    intros o0 Ho. apply Hsep. apply sc_live_in_cons in Ho. destruct Ho as [(k & n & [] & _)|Ho].
    apply sc_live_in_cons in Ho. destruct Ho as [(k & n & [] & _)|Ho].
    apply sc_live_in_tail, sc_live_in_tail. exact Ho.
  - (* rejected insert *) exact Hinv.
Qed.

Lemma sc_step_mode st o : ss_mode (fst (sc_step st o)) = ss_mode st.
Proof.
  destruct o; cbn [sc_step]; try reflexivity.
  - destruct (sc_lookup (sc_layers st) k).
    + destruct (sc_copy _ _ _ _) as [[h1 n1] cv]. destruct (sc_copy _ _ _ _) as [[h2 n2] v]. reflexivity.
    + destruct (sc_al_get Z.eqb k (ss_ttxn st)); [|reflexivity].
      destruct (sc_alloc _ _ _) as [[h1 n1] v]. destruct (sc_cache_set _ _ _ _ _) as [[h2 n2] tc]. reflexivity.
  - destruct (sc_alloc _ _ _) as [[h1 n1] v]. destruct (sc_cache_set _ _ _ _ _) as [[h2 n2] tc]. reflexivity.
  - destruct (nth_error _ _); [|reflexivity]. destruct (sc_cache_set _ _ _ _ _) as [[h2 n2] tc]. reflexivity.
  - destruct (sc_al_get Z.eqb k (ss_ttxn st)); reflexivity.
  - destruct (nth_error _ _); reflexivity.
Qed.

Lemma sc_run_inv ops : forall st,
  md_clone_deep (ss_mode st) = true -> sc_inv st ->
  sc_inv (fst (sc_run st ops)) /\ ss_mode (fst (sc_run st ops)) = ss_mode st.
Proof.
  induction ops as [|o tl IH]; intros st Hd Hinv; cbn [sc_run]; [auto|].
  pose proof (sc_step_inv st o Hd Hinv) as H1. pose proof (sc_step_mode st o) as Hm.
  destruct (sc_step st o) as [st1 out]. cbn [fst] in *.
  destruct (IH st1) as [H2 Hm2]; [rewrite Hm; exact Hd|exact H1|].
  destruct (sc_run st1 tl) as [st2 outs]. cbn [fst] in *. split; [exact H2|congruence].
Qed.

(* ---------- a cached read returns what the trie holds ---------- *)
Lemma sc_get_eq_trie st k :
  sc_inv st -> snd (sc_step st (SGet k)) = SOData (sc_trie_view st k).
Proof.
  intros [Htxn _ _ Hsep _]. cbn [sc_step]. unfold sc_trie_view.
  destruct (sc_lookup (sc_layers st) k) as [c|] eqn:El.
  - pose proof (Htxn k c El) as Ht. rewrite Ht.
    destruct (Hsep c (sc_lookup_live _ _ _ El)) as [Hlt _].
    unfold sc_copy. destruct (md_clone_deep (ss_mode st)), (md_copy_deep (ss_mode st)); cbn [snd];
      unfold sc_deref; cbn [so_scalar so_ref]; rewrite ?sc_hget_set_eq; try reflexivity;
      rewrite ?sc_hget_set_ne by lia; rewrite ?sc_hget_set_eq; reflexivity.
  - destruct (sc_al_get Z.eqb k (ss_ttxn st)) as [d|]; [|reflexivity].
    destruct (sc_alloc _ _ _) as [[h1 n1] v]. destruct (sc_cache_set _ _ _ _ _) as [[h2 n2] tc]. reflexivity.
Qed.

(* ---------- a discarded transaction leaves no trace ---------- *)
(* what the block-level caches and tries hold *)
Definition sc_lower_same (st st' : sc_state) : Prop :=
  ss_bc st' = ss_bc st /\ ss_sc st' = ss_sc st /\ ss_tblk st' = ss_tblk st /\ ss_tbase st' = ss_tbase st /\
  forall o, sc_live_in (ss_bc st :: ss_sc st) o -> sc_deref (ss_heap st') o = sc_deref (ss_heap st) o.

Lemma sc_txn_step_lower st o :
  sc_is_txn_op o = true -> sc_inv st -> sc_lower_same st (fst (sc_step st o)).
Proof.
  intros Hop [_ _ _ Hsep _].
  assert (Hfresh : forall l v o0, (ss_next st <= l)%nat -> sc_live_in (ss_bc st :: ss_sc st) o0 ->
            sc_deref (sc_al_set Nat.eqb l v (ss_heap st)) o0 = sc_deref (ss_heap st) o0).
  { intros l v o0 Hl Ho. apply sc_deref_set_ne. destruct (Hsep o0 (sc_live_in_tail _ _ _ Ho)) as [Hlt _]. lia. }
  assert (Hfresh2 : forall l1 v1 l2 v2 o0, (ss_next st <= l1)%nat -> (ss_next st <= l2)%nat ->
            sc_live_in (ss_bc st :: ss_sc st) o0 ->
            sc_deref (sc_al_set Nat.eqb l2 v2 (sc_al_set Nat.eqb l1 v1 (ss_heap st))) o0 = sc_deref (ss_heap st) o0).
  { intros l1 v1 l2 v2 o0 H1 H2 Ho. destruct (Hsep o0 (sc_live_in_tail _ _ _ Ho)) as [Hlt _].
    rewrite !sc_deref_set_ne by lia. reflexivity. }
  unfold sc_lower_same. destruct o as [k|k t|k i|k|i t| | | | |k]; try discriminate; cbn [sc_step].
  - destruct (sc_lookup (sc_layers st) k) as [c|].
    + unfold sc_copy. destruct (md_clone_deep (ss_mode st)), (md_copy_deep (ss_mode st)); cbn [fst sc_upd ss_bc ss_sc ss_tblk ss_tbase ss_heap];
        repeat split; intros o0 Ho; auto.
    + destruct (sc_al_get Z.eqb k (ss_ttxn st)) as [d|]; [|repeat split; auto].
      unfold sc_alloc, sc_cache_set, sc_copy. destruct (md_clone_deep (ss_mode st)); cbn [fst sc_upd ss_bc ss_sc ss_tblk ss_tbase ss_heap];
        repeat split; intros o0 Ho; auto.
  - unfold sc_alloc, sc_cache_set, sc_copy. destruct (md_clone_deep (ss_mode st)); cbn [fst sc_upd ss_bc ss_sc ss_tblk ss_tbase ss_heap];
      repeat split; intros o0 Ho; auto.
  - destruct (nth_error (ss_handles st) i) as [v|]; [|repeat split; auto].
    unfold sc_cache_set, sc_copy. destruct (md_clone_deep (ss_mode st)); cbn [fst sc_upd ss_bc ss_sc ss_tblk ss_tbase ss_heap];
      repeat split; intros o0 Ho; auto.
  - destruct (sc_al_get Z.eqb k (ss_ttxn st)); repeat split; auto.
  - destruct (nth_error (ss_handles st) i) as [v|] eqn:Ev; [|repeat split; auto].
    cbn [fst sc_upd ss_bc ss_sc ss_tblk ss_tbase ss_heap]. repeat split. intros o0 Ho.
    apply sc_deref_set_ne. destruct (Hsep o0 (sc_live_in_tail _ _ _ Ho)) as [_ Hne].
    intros Heq. apply (Hne v (nth_error_In _ _ Ev)). auto.
  - repeat split; auto.
Qed.

Lemma sc_lower_same_trans a b c : sc_lower_same a b -> sc_lower_same b c -> sc_lower_same a c.
Proof.
  intros (H1 & H2 & H3 & H4 & H5) (G1 & G2 & G3 & G4 & G5). unfold sc_lower_same.
  repeat split; try congruence. intros o Ho. rewrite G5; [apply H5; exact Ho|]. rewrite H1, H2. exact Ho.
Qed.

Lemma sc_txn_run_lower ops : forall st,
  forallb sc_is_txn_op ops = true -> md_clone_deep (ss_mode st) = true -> sc_inv st ->
  sc_lower_same st (fst (sc_run st ops)).
Proof.
  induction ops as [|o tl IH]; intros st Hops Hd Hinv; cbn [sc_run].
  - unfold sc_lower_same. repeat split; auto.
  - cbn [forallb] in Hops. apply andb_prop in Hops. destruct Hops as [Ho Htl].
    pose proof (sc_txn_step_lower st o Ho Hinv) as H1. pose proof (sc_step_inv st o Hd Hinv) as Hi1.
    pose proof (sc_step_mode st o) as Hm.
    destruct (sc_step st o) as [st1 out]. cbn [fst] in *.
    assert (H2 : sc_lower_same st1 (fst (sc_run st1 tl))) by (apply IH; [exact Htl|rewrite Hm; exact Hd|exact Hi1]).
    destruct (sc_run st1 tl) as [st2 outs]. cbn [fst] in *. eapply sc_lower_same_trans; eassumption.
Qed.

Lemma sc_lookup_deref_ext h h' ls k :
  (forall o, sc_live_in ls o -> sc_deref h' o = sc_deref h o) ->
  match sc_lookup ls k with LHit o => Some (sc_deref h' o) | LMiss => None end =
  match sc_lookup ls k with LHit o => Some (sc_deref h o) | LMiss => None end.
Proof.
  intros H. destruct (sc_lookup ls k) as [o|] eqn:E; [|reflexivity]. rewrite (H o (sc_lookup_live _ _ _ E)). reflexivity.
Qed.

Lemma sc_view_discard s k :
  sc_cache_view (fst (sc_step s SDiscardTxn)) k =
  match sc_lookup (ss_bc s :: ss_sc s) k with LHit o => Some (sc_deref (ss_heap s) o) | LMiss => None end.
Proof. reflexivity. Qed.

Lemma sc_view_empty_tc s k :
  ss_tc s = [] ->
  sc_cache_view s k =
  match sc_lookup (ss_bc s :: ss_sc s) k with LHit o => Some (sc_deref (ss_heap s) o) | LMiss => None end.
Proof. unfold sc_cache_view, sc_layers. intros ->. reflexivity. Qed.

Lemma sc_discard_no_trace_lemma st ops :
  md_clone_deep (ss_mode st) = true -> sc_inv st -> forallb sc_is_txn_op ops = true ->
  let st0 := fst (sc_step st SDiscardTxn) in
  let st1 := fst (sc_step (fst (sc_run st0 ops)) SDiscardTxn) in
  forall k, sc_cache_view st1 k = sc_cache_view st0 k /\ sc_trie_view st1 k = sc_trie_view st0 k /\
            snd (sc_step st1 (SGet k)) = snd (sc_step st0 (SGet k)).
Proof.
  intros Hd Hinv Hops. cbv zeta.
  pose proof (sc_step_inv st SDiscardTxn Hd Hinv) as Hi0.
  set (st0 := fst (sc_step st SDiscardTxn)) in *.
  assert (Hd0 : md_clone_deep (ss_mode st0) = true) by exact Hd.
  destruct (sc_run_inv ops st0 Hd0 Hi0) as [Hir Hmr].
  pose proof (sc_txn_run_lower ops st0 Hops Hd0 Hi0) as (Hb & Hs & Htb & Hbase & Hderef).
  set (str := fst (sc_run st0 ops)) in *.
  assert (Hdr : md_clone_deep (ss_mode str) = true) by (rewrite Hmr; exact Hd0).
  pose proof (sc_step_inv str SDiscardTxn Hdr Hir) as Hi1.
  set (st1 := fst (sc_step str SDiscardTxn)) in *.
  intros k.
  assert (Hcv : sc_cache_view st1 k = sc_cache_view st0 k).
  { unfold st1. rewrite sc_view_discard. rewrite (sc_view_empty_tc st0 k eq_refl). rewrite Hb, Hs.
    apply sc_lookup_deref_ext. intros o Ho. apply Hderef. exact Ho. }
  assert (Htv : sc_trie_view st1 k = sc_trie_view st0 k).
  { unfold sc_trie_view, st1. cbn [sc_step fst ss_ttxn]. rewrite Htb. reflexivity. }
  split; [exact Hcv|]. split; [exact Htv|].
  rewrite (sc_get_eq_trie st1 k Hi1), (sc_get_eq_trie st0 k Hi0), Htv. reflexivity.
Qed.
