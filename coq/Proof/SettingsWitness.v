(* Concrete states and requests used by the refutations and examples of Prop/C48.v. *)
From ZC Require Import Model.Settings Proof.Settings.
From Coq Require Import Sorting.Permutation.
Open Scope Z_scope.
Open Scope string_scope.

Definition sw_po0 : st_po :=
  {| po_int := None; po_i32 := None; po_dur := None; po_flt := None; po_bool := None; po_hex := false;
     po_u64 := None; po_zcn := ZcnErr; po_cast := 0; po_mult := None |}.

(* oracle of a decimal integer literal n >= 0 below 2^31: parses as int, int32, uint64, float (bits not needed here) *)
Definition sw_po_int (n : Z) : st_po :=
  {| po_int := Some n; po_i32 := Some n; po_dur := None; po_flt := Some 0; po_bool := None; po_hex := false;
     po_u64 := Some n; po_zcn := ZcnOk (n * 10000000000); po_cast := n; po_mult := Some (n * 10000000000) |}.

(* "NaN": ParseFloat succeeds, ParseZCN panics *)
Definition sw_po_nan : st_po :=
  {| po_int := None; po_i32 := None; po_dur := None; po_flt := Some 9221120237041090561; po_bool := None; po_hex := false;
     po_u64 := None; po_zcn := ZcnPanic; po_cast := 9223372036854775808; po_mult := Some 9223372036854775808 |}.

Definition sw_ent (k v : string) (po : st_po) : st_entry := {| e_key := k; e_val := v; e_po := po |}.
Definition sw_env : st_env := {| env_demeter := false; env_ext_owner := "0a" |}.
Definition sw_env_demeter : st_env := {| env_demeter := true; env_ext_owner := "0a" |}.
Definition sw_txn (es : list st_entry) : st_txn := {| t_caller := "0a"; t_decodes := true; t_entries := es |}.

Definition sw_miner : st_state :=
  {| g_conf := [("owner_id", SvS "0a"); ("min_n", SvZ 3); ("max_n", SvZ 7); ("min_s", SvZ 1); ("max_s", SvZ 2);
                ("max_delegates", SvZ 200); ("num_sharder_delegates_rewarded", SvZ 5);
                ("num_miner_delegates_rewarded", SvZ 10); ("num_sharders_rewarded", SvZ 1);
                ("min_stake", SvZ 0); ("cost.add_miner", SvZ 361);
                ("x_percent", SvF 4604480259023595110)];
     g_pend := [] |}.

Definition sw_vesting : st_state :=
  {| g_conf := [("owner_id", SvS "0a"); ("min_lock", SvZ 100); ("min_duration", SvZ 2000000000);
                ("max_duration", SvZ 3600000000000); ("max_destinations", SvZ 3); ("max_description_length", SvZ 20);
                ("cost.add", SvZ 100)];
     g_pend := [] |}.

Definition sw_faucet : st_state :=
  {| g_conf := [("owner_id", SvS "0a"); ("pour_amount", SvZ 10); ("max_pour_amount", SvZ 100); ("periodic_limit", SvZ 1000);
                ("global_limit", SvZ 100000); ("individual_reset", SvZ 10800000000000); ("global_rest", SvZ 172800000000000);
                ("cost.pour", SvZ 100)];
     g_pend := [] |}.

(* 0.5 = 0x3FE0000000000000, 1.0 = 0x3FF0000000000000 *)
Definition sw_half : st_val := SvF 4602678819172646912.
Definition sw_one : st_val := SvF 4607182418800017408.

Definition sw_storage : st_state :=
  {| g_conf := [("owner_id", SvS "0a"); ("time_unit", SvZ 3600000000000); ("validator_reward", sw_half);
                ("blobber_slash", sw_half); ("cancellation_charge", sw_half); ("max_blobbers_per_allocation", SvZ 40);
                ("min_blobber_capacity", SvZ 1024); ("max_challenge_completion_rounds", SvZ 1200);
                ("health_check_period", SvZ 3600000000000); ("min_alloc_size", SvZ 1024);
                ("min_write_price", SvZ 1); ("max_write_price", SvZ 100); ("stakepool.kill_slash", sw_half);
                ("free_allocation_settings.data_shards", SvZ 4); ("free_allocation_settings.parity_shards", SvZ 2);
                ("free_allocation_settings.size", SvZ 1000);
                ("free_allocation_settings.read_price_range.min", SvZ 0); ("free_allocation_settings.read_price_range.max", SvZ 10);
                ("free_allocation_settings.write_price_range.min", SvZ 0); ("free_allocation_settings.write_price_range.max", SvZ 10);
                ("free_allocation_settings.read_pool_fraction", sw_half);
                ("validators_per_challenge", SvZ 2); ("num_validators_rewarded", SvZ 10); ("max_blobber_select_for_challenge", SvZ 5);
                ("min_stake", SvZ 1); ("max_stake", SvZ 1000); ("max_delegates", SvZ 200); ("max_charge", sw_half);
                ("block_reward.gamma.a", sw_one); ("block_reward.gamma.b", sw_one); ("block_reward.gamma.alpha", sw_one);
                ("block_reward.zeta.mu", sw_one); ("block_reward.zeta.i", sw_one); ("block_reward.zeta.k", sw_one)];
     g_pend := [] |}.

(* ---- the repaired behaviour on the former triggers ---- *)

(* a key with the "cost." prefix that no table lists is refused by minersc and storagesc *)
Lemma sw_unknown_cost_refused :
  snd (st_step KMiner sw_env sw_miner (OpUpdate (sw_txn [sw_ent "cost.bogus" "5" (sw_po_int 5)]))) = OutReject /\
  snd (st_step KStorage sw_env sw_storage (OpUpdate (sw_txn [sw_ent "cost.bogus" "5" (sw_po_int 5)]))) = OutReject /\
  snd (st_step KMiner sw_env sw_miner (OpUpdate (sw_txn [sw_ent "cost.add_miner" "5" (sw_po_int 5)]))) = OutOk.
Proof. vm_compute. repeat split. Qed.

(* vestingsc validates: max_destinations = 0 is refused *)
Lemma sw_vesting_invalid_refused :
  st_valid_of KVesting (g_conf sw_vesting) = true /\
  st_step KVesting sw_env sw_vesting (OpUpdate (sw_txn [sw_ent "max_destinations" "0" (sw_po_int 0)])) = (sw_vesting, OutReject).
Proof. vm_compute. split; reflexivity. Qed.

(* storagesc, "demeter" active: update_settings validates before anything is written *)
Lemma sw_storage_demeter_invalid_refused :
  st_valid_of KStorage (g_conf sw_storage) = true /\
  st_step KStorage sw_env_demeter sw_storage (OpUpdate (sw_txn [sw_ent "max_delegates" "0" (sw_po_int 0)])) = (sw_storage, OutReject).
Proof. vm_compute. split; reflexivity. Qed.

(* without demeter the same request only becomes pending; the commit then rejects it *)
Lemma sw_storage_commit_validates :
  let s1 := fst (st_step KStorage sw_env sw_storage (OpUpdate (sw_txn [sw_ent "max_delegates" "0" (sw_po_int 0)]))) in
  g_conf s1 = g_conf sw_storage /\ snd (st_step KStorage sw_env s1 OpCommit) = OutReject.
Proof. vm_compute. split; reflexivity. Qed.

(* two spellings of one storagesc key are refused, in either order *)
Definition sw_alias1 := [sw_ent " max_delegates" "7" (sw_po_int 7); sw_ent "max_delegates" "9" (sw_po_int 9)].
Definition sw_alias2 := [sw_ent "max_delegates" "9" (sw_po_int 9); sw_ent " max_delegates" "7" (sw_po_int 7)].
Lemma sw_alias_refused :
  st_update (st_spec_of KStorage) (g_conf sw_storage) sw_alias1 = RReject /\
  st_update (st_spec_of KStorage) (g_conf sw_storage) sw_alias2 = RReject.
Proof. vm_compute. split; reflexivity. Qed.

(* faucetsc: a cost key no longer ends the loop: what follows it is checked and applied, in either order *)
Definition sw_cost_then_unknown := [sw_ent "cost.pour" "5" (sw_po_int 5); sw_ent "nope" "1" (sw_po_int 1)].
Definition sw_cost_then_valid := [sw_ent "cost.pour" "5" (sw_po_int 5); sw_ent "pour_amount" "2" (sw_po_int 2)].
Definition sw_valid_then_cost := [sw_ent "pour_amount" "2" (sw_po_int 2); sw_ent "cost.pour" "5" (sw_po_int 5)].
Lemma sw_cost_key_does_not_end_loop :
  snd (st_step KFaucet sw_env sw_faucet (OpUpdate (sw_txn sw_cost_then_unknown))) = OutReject /\
  st_update (st_spec_of KFaucet) (g_conf sw_faucet) sw_cost_then_valid = st_update (st_spec_of KFaucet) (g_conf sw_faucet) sw_valid_then_cost /\
  (match st_update (st_spec_of KFaucet) (g_conf sw_faucet) sw_cost_then_valid with
   | ROk c => st_get c "pour_amount" = Some (SvZ 20000000000) /\ st_get c "cost.pour" = Some (SvZ 5)
   | _ => False end).
Proof. vm_compute. repeat split. Qed.

(* the two spellings of a faucetsc cost key are applied in sorted key order, whatever the map order *)
Definition sw_calias1 := [sw_ent "cost.POUR" "7" (sw_po_int 7); sw_ent "cost.pour" "9" (sw_po_int 9)].
Definition sw_calias2 := [sw_ent "cost.pour" "9" (sw_po_int 9); sw_ent "cost.POUR" "7" (sw_po_int 7)].
Lemma sw_cost_alias_sorted :
  st_update (st_spec_of KFaucet) (g_conf sw_faucet) sw_calias1 = st_update (st_spec_of KFaucet) (g_conf sw_faucet) sw_calias2.
Proof. vm_compute. reflexivity. Qed.

(* a coin-typed setting given "NaN" (currency.ParseZCN would panic) is refused *)
Lemma sw_nan_refused :
  st_step KMiner sw_env sw_miner (OpUpdate (sw_txn [sw_ent "min_stake" "NaN" sw_po_nan])) = (sw_miner, OutReject).
Proof. vm_compute. reflexivity. Qed.

(* ---- a non-trivial run used as satisfiability example ---- *)
Definition sw_run_ops : list st_op :=
  [ OpUpdate (sw_txn [sw_ent "max_n" "9" (sw_po_int 9); sw_ent "cost.add_miner" "12" (sw_po_int 12)]);      (* accepted *)
    OpUpdate {| t_caller := "0b"; t_decodes := true; t_entries := [sw_ent "max_n" "11" (sw_po_int 11)] |};       (* not the owner *)
    OpUpdate (sw_txn [sw_ent "max_n" "8" (sw_po_int 8); sw_ent "nope" "1" (sw_po_int 1)]);                     (* unknown key *)
    OpUpdate (sw_txn [sw_ent "max_n" "2" (sw_po_int 2)]);                                                       (* max_n < min_n *)
    OpUpdate (sw_txn [sw_ent "max_s" "x" sw_po0]) ].                                                            (* unparsable *)

Lemma sw_run_example :
  let '(s, outs) := st_run KMiner sw_env sw_miner sw_run_ops in
  outs = [OutOk; OutErrOwner; OutReject; OutReject; OutReject] /\
  st_get (g_conf s) "max_n" = Some (SvZ 9) /\ st_get (g_conf s) "cost.add_miner" = Some (SvZ 12) /\
  st_get (g_conf s) "max_s" = Some (SvZ 2).
Proof. vm_compute. repeat split. Qed.
