(* Proofs about the round-starting storage model (property C40). *)
From ZC Require Import Model.RoundStorage.
From Coq Require Import Sorting.Sorted.
Open Scope Z_scope.

(* ---------- association list ---------- *)

Lemma rs_lookup_del m k k' :
  rs_lookup (rs_del m k) k' = if Z.eqb k k' then None else rs_lookup m k'.
Proof.
  induction m as [|[a v] tl IH]; cbn [rs_del filter rs_lookup fst].
  - destruct (Z.eqb k k'); reflexivity.
  - fold (rs_del tl k). destruct (Z.eqb_spec a k) as [E|E]; cbn [negb].
    + subst a. rewrite IH. destruct (Z.eqb_spec k k'); reflexivity.
    + cbn [rs_lookup]. rewrite IH. destruct (Z.eqb_spec a k') as [E2|E2]; [|reflexivity].
      subst a. destruct (Z.eqb_spec k k'); [congruence|reflexivity].
Qed.

Lemma rs_lookup_set m k v k' :
  rs_lookup (rs_set m k v) k' = if Z.eqb k' k then Some v else rs_lookup m k'.
Proof.
  unfold rs_set. cbn [rs_lookup]. rewrite rs_lookup_del, (Z.eqb_sym k' k).
  destruct (Z.eqb k k'); reflexivity.
Qed.

Lemma rs_lookup_del_all m ks k :
  rs_lookup (rs_del_all m ks) k = if existsb (Z.eqb k) ks then None else rs_lookup m k.
Proof.
  induction m as [|[a v] tl IH]; cbn [rs_del_all filter rs_lookup fst].
  - destruct (existsb (Z.eqb k) ks); reflexivity.
  - fold (rs_del_all tl ks). destruct (existsb (Z.eqb a) ks) eqn:E; cbn [negb].
    + rewrite IH. destruct (Z.eqb_spec a k) as [E2|E2]; [|reflexivity].
      subst a. rewrite E. reflexivity.
    + cbn [rs_lookup]. rewrite IH. destruct (Z.eqb_spec a k) as [E2|E2]; [|reflexivity].
      subst a. rewrite E. reflexivity.
Qed.

Lemma rs_existsb_eqb_In k ks : existsb (Z.eqb k) ks = true <-> In k ks.
Proof.
  rewrite existsb_exists. split.
  - intros (x & Hx & E). apply Z.eqb_eq in E. subst. assumption.
  - intros H. exists k. split; [assumption|apply Z.eqb_refl].
Qed.

(* ---------- strictly sorted lists ---------- *)

Definition rs_sorted (l : list Z) : Prop := StronglySorted Z.lt l.

Lemma rs_sorted_app a b :
  rs_sorted (a ++ b) <->
  rs_sorted a /\ rs_sorted b /\ forall x y, In x a -> In y b -> x < y.
Proof.
  unfold rs_sorted. induction a as [|h t IH]; cbn [app].
  - split; [intros H; repeat split; [constructor|assumption|intros x y []] | intros (_ & H & _); assumption].
  - split.
    + intros H. inversion H as [|? ? Hs Hf]; subst. apply IH in Hs. destruct Hs as (Ha & Hb & Hab).
      rewrite Forall_app in Hf. destruct Hf as [Hf1 Hf2]. repeat split.
      * constructor; assumption.
      * assumption.
      * intros x y [Hx|Hx] Hy; [subst x; rewrite Forall_forall in Hf2; apply Hf2; assumption | apply Hab; assumption].
    + intros (Ha & Hb & Hab). inversion Ha as [|? ? Hs Hf]; subst. constructor.
      * apply IH. repeat split; [assumption|assumption|]. intros x y Hx Hy. apply Hab; [right; assumption|assumption].
      * rewrite Forall_app. split; [assumption|]. rewrite Forall_forall. intros y Hy. apply Hab; [left; reflexivity|assumption].
Qed.

Lemma rs_sorted_nth l : rs_sorted l ->
  forall i j, (i < j)%nat -> (j < length l)%nat -> nth i l 0 < nth j l 0.
Proof.
  unfold rs_sorted. induction l as [|h t IH]; intros Hs i j Hij Hj; cbn [length] in Hj; [lia|].
  inversion Hs as [|? ? Hs' Hf]; subst. destruct j as [|j]; [lia|]. destruct i as [|i]; cbn [nth].
  - rewrite Forall_forall in Hf. apply Hf. apply nth_In. lia.
  - apply IH; [assumption|lia|lia].
Qed.

Lemma rs_sorted_NoDup l : rs_sorted l -> NoDup l.
Proof.
  unfold rs_sorted. induction 1 as [|h t Hs IH Hf]; constructor; [|assumption].
  intros Hin. rewrite Forall_forall in Hf. apply Hf in Hin. lia.
Qed.

Lemma rs_nth_firstn_lt {A} (l : list A) n i d : (i < n)%nat -> nth i (firstn n l) d = nth i l d.
Proof.
  revert n i. induction l as [|x xs IH]; intros n i H.
  - rewrite firstn_nil. reflexivity.
  - destruct n; [lia|]. destruct i; cbn; [reflexivity|]. apply IH. lia.
Qed.

Lemma rs_nth_skipn {A} n (l : list A) i d : nth i (skipn n l) d = nth (n + i) l d.
Proof.
  revert l. induction n as [|n IH]; intros l; [reflexivity|].
  destruct l as [|x xs]; cbn [skipn Nat.add nth]; [destruct i; reflexivity|]. apply IH.
Qed.

Lemma rs_In_firstn_nth (l : list Z) n x :
  In x (firstn n l) -> exists i, (i < n)%nat /\ (i < length l)%nat /\ nth i l 0 = x.
Proof.
  intros H. destruct (In_nth _ _ 0 H) as (i & Hi & Hn). rewrite firstn_length in Hi.
  exists i. repeat split; try lia. rewrite <- Hn. symmetry. apply rs_nth_firstn_lt. lia.
Qed.

Lemma rs_In_skipn_nth (l : list Z) n x :
  In x (skipn n l) -> exists i, (n <= i)%nat /\ (i < length l)%nat /\ nth i l 0 = x.
Proof.
  intros H. destruct (In_nth _ _ 0 H) as (i & Hi & Hn). rewrite skipn_length in Hi.
  exists (n + i)%nat. repeat split; try lia. rewrite <- Hn. symmetry. apply rs_nth_skipn.
Qed.

Lemma rs_last_app {A} (a b : list A) d : b <> [] -> last (a ++ b) d = last b d.
Proof.
  intros Hb. induction a as [|h t IH]; [reflexivity|]. cbn [app].
  destruct (t ++ b) eqn:E; [destruct t; cbn in E; congruence|]. cbn [last]. exact IH.
Qed.

Lemma rs_sorted_last_max l : rs_sorted l -> l <> [] ->
  In (last l 0) l /\ forall x, In x l -> x <= last l 0.
Proof.
  unfold rs_sorted. induction 1 as [|h t Hs IH Hf]; intros Hne; [congruence|].
  destruct t as [|h2 t2].
  - cbn. split; [left; reflexivity|]. intros x [E|[]]. lia.
  - destruct IH as [Hin Hmax]; [discriminate|].
    change (last (h :: h2 :: t2) 0) with (last (h2 :: t2) 0).
    split; [right; assumption|]. intros x [E|Hx]; [|apply Hmax; assumption].
    subst x. rewrite Forall_forall in Hf. apply Hf in Hin. lia.
Qed.

(* ---------- floor of a query among the stored starting rounds ---------- *)

Definition rs_is_floor (l : list Z) (q f : Z) : Prop :=
  In f l /\ f <= q /\ forall y, In y l -> y <= q -> y <= f.
Definition rs_no_floor (l : list Z) (q : Z) : Prop := forall y, In y l -> q < y.

Lemma rs_floor_unique l q f1 f2 : rs_is_floor l q f1 -> rs_is_floor l q f2 -> f1 = f2.
Proof. intros (I1 & L1 & M1) (I2 & L2 & M2). specialize (M1 _ I2 L2). specialize (M2 _ I1 L1). lia. Qed.

Lemma rs_floor_excl l q f : rs_is_floor l q f -> rs_no_floor l q -> False.
Proof. intros (I1 & L1 & _) H. specialize (H _ I1). lia. Qed.

Lemma rs_scan_spec l q : rs_sorted l -> forall found,
  (rs_scan l q found = found /\ rs_no_floor l q) \/ rs_is_floor l q (rs_scan l q found).
Proof.
  unfold rs_sorted. induction 1 as [|r tl Hs IH Hf]; intros found; cbn [rs_scan].
  - left. split; [reflexivity|intros y []].
  - rewrite Forall_forall in Hf. destruct (Z.geb_spec q r) as [Hge|Hlt].
    + right. destruct (IH r) as [[E Hno]|(Hin & Hle & Hmax)].
      * rewrite E. split; [left; reflexivity|]. split; [lia|].
        intros y [Ey|Hy] Hyq; [lia|]. specialize (Hno _ Hy). lia.
      * split; [right; assumption|]. split; [assumption|].
        intros y [Ey|Hy] Hyq; [|apply Hmax; assumption]. subst y. apply Hf in Hin. lia.
    + left. split; [reflexivity|]. intros y [Ey|Hy]; [lia|]. apply Hf in Hy. lia.
Qed.

Lemma rs_scan_idx_spec l q : rs_sorted l -> forall i found,
  (rs_scan_idx l q i found = found /\ rs_no_floor l q) \/
  exists j, rs_scan_idx l q i found = i + Z.of_nat j /\ (j < length l)%nat /\ rs_is_floor l q (nth j l 0).
Proof.
  unfold rs_sorted. induction 1 as [|r tl Hs IH Hf]; intros i found; cbn [rs_scan_idx].
  - left. split; [reflexivity|intros y []].
  - rewrite Forall_forall in Hf. destruct (Z.geb_spec q r) as [Hge|Hlt].
    + right. destruct (IH (i + 1) i) as [[E Hno]|(j & E & Hj & Hin & Hle & Hmax)].
      * exists O. rewrite E. cbn [nth length]. split; [lia|]. split; [lia|].
        split; [left; reflexivity|]. split; [lia|].
        intros y [Ey|Hy] Hyq; [lia|]. specialize (Hno _ Hy). lia.
      * exists (S j). cbn [nth length]. split; [lia|]. split; [lia|].
        split; [right; assumption|]. split; [assumption|].
        intros y [Ey|Hy] Hyq; [|apply Hmax; assumption]. subst y. apply Hf in Hin. lia.
    + left. split; [reflexivity|]. intros y [Ey|Hy]; [lia|]. apply Hf in Hy. lia.
Qed.

(* ---------- putToSlice ---------- *)

Lemma rs_last_lt_spec l r i :
  match rs_last_lt l r i with
  | Some j => (j < i)%nat /\ nth j l 0 < r /\ forall k, (j < k)%nat -> (k < i)%nat -> r <= nth k l 0
  | None => forall k, (k < i)%nat -> r <= nth k l 0
  end.
Proof.
  induction i as [|j IH]; cbn [rs_last_lt]; [intros k Hk; lia|].
  destruct (Z.ltb_spec (nth j l 0) r) as [Hlt|Hge].
  - split; [lia|]. split; [assumption|]. intros k H1 H2. lia.
  - destruct (rs_last_lt l r j) as [j'|].
    + destruct IH as (H1 & H2 & H3). split; [lia|]. split; [assumption|].
      intros k Hk1 Hk2. destruct (Nat.eq_dec k j) as [->|]; [assumption|]. apply H3; lia.
    + intros k Hk. destruct (Nat.eq_dec k j) as [->|]; [assumption|]. apply IH. lia.
Qed.

Lemma rs_put_slice_In r l x : In x (rs_put_slice r l) <-> x = r \/ In x l.
Proof.
  unfold rs_put_slice. destruct (rs_last_lt l r (length l)) as [idx|].
  - assert (Hl : In x l <-> In x (firstn (S idx) l) \/ In x (skipn (S idx) l))
      by (rewrite <- in_app_iff, firstn_skipn; reflexivity).
    rewrite in_app_iff, Hl. cbn [In]. split; intros H; intuition congruence.
  - cbn [In]. split; intros H; intuition congruence.
Qed.

Lemma rs_put_slice_sorted r l : rs_sorted l -> ~ In r l -> rs_sorted (rs_put_slice r l).
Proof.
  intros Hs Hni. unfold rs_put_slice.
  assert (Hspec := rs_last_lt_spec l r (length l)).
  destruct (rs_last_lt l r (length l)) as [idx|].
  - destruct Hspec as (Hidx & Hlt & Hge).
    assert (Hsplit : rs_sorted (firstn (S idx) l ++ skipn (S idx) l)) by (rewrite firstn_skipn; assumption).
    apply rs_sorted_app in Hsplit. destruct Hsplit as (Ha & Hb & Hab).
    apply rs_sorted_app. split; [assumption|]. split.
    + constructor; [assumption|]. rewrite Forall_forall. intros y Hy.
      destruct (rs_In_skipn_nth _ _ _ Hy) as (k & Hk1 & Hk2 & Hk3). subst y.
      assert (r <= nth k l 0) by (apply Hge; lia).
      assert (nth k l 0 <> r) by (intros E; apply Hni; rewrite <- E; apply nth_In; assumption). lia.
    + intros x y Hx [Hy|Hy].
      * subst y. destruct (rs_In_firstn_nth _ _ _ Hx) as (k & Hk1 & Hk2 & Hk3). subst x.
        destruct (Nat.eq_dec k idx) as [->|]; [assumption|].
        assert (nth k l 0 < nth idx l 0) by (apply rs_sorted_nth; [assumption|lia|lia]). lia.
      * apply Hab; assumption.
  - constructor; [assumption|]. rewrite Forall_forall. intros y Hy.
    destruct (In_nth _ _ 0 Hy) as (k & Hk & Hn). subst y.
    assert (r <= nth k l 0) by (apply Hspec; assumption).
    assert (nth k l 0 <> r) by (intros E; apply Hni; rewrite <- E; apply nth_In; assumption). lia.
Qed.

(* ---------- Prune ---------- *)

Lemma rs_index_of_spec l : rs_sorted l -> forall r idx, rs_index_of l r = Some idx ->
  (idx < length l)%nat /\ nth idx l 0 = r /\
  (forall x, In x (firstn (S idx) l) -> x <= r) /\
  (forall x, In x (skipn (S idx) l) -> r < x).
Proof.
  unfold rs_sorted. induction 1 as [|h t Hs IH Hf]; intros r idx H; cbn [rs_index_of] in H; [discriminate|].
  rewrite Forall_forall in Hf. destruct (Z.eqb_spec r h) as [E|E].
  - inversion H; subst idx h. cbn [length nth firstn skipn]. split; [lia|]. split; [reflexivity|].
    split; [intros x [Hx|[]]; lia | intros x Hx; apply Hf; assumption].
  - destruct (rs_index_of t r) as [i|] eqn:Ei; cbn [option_map] in H; [|discriminate].
    inversion H; subst idx. destruct (IH r i Ei) as (H1 & H2 & H3 & H4).
    cbn [length nth]. split; [lia|]. split; [assumption|].
    change (firstn (S (S i)) (h :: t)) with (h :: firstn (S i) t).
    change (skipn (S (S i)) (h :: t)) with (skipn (S i) t).
    split; [|assumption]. intros x [Hx|Hx]; [|apply H3; assumption].
    subst x. assert (In r t) by (rewrite <- H2; apply nth_In; assumption).
    assert (h < r) by (apply Hf; assumption). lia.
Qed.

Lemma rs_index_of_In l r : In r l -> exists idx, rs_index_of l r = Some idx.
Proof.
  induction l as [|h t IH]; intros H; [destruct H|]. cbn [rs_index_of].
  destruct (Z.eqb_spec r h) as [E|E]; [exists O; reflexivity|].
  destruct H as [H|H]; [congruence|]. destruct (IH H) as (i & Hi). rewrite Hi. exists (S i). reflexivity.
Qed.

Lemma rs_index_of_nth l : rs_sorted l -> forall i, (i < length l)%nat -> rs_index_of l (nth i l 0) = Some i.
Proof.
  intros Hs i Hi. destruct (rs_index_of_In l (nth i l 0) (nth_In _ _ Hi)) as (j & Hj).
  destruct (rs_index_of_spec l Hs _ _ Hj) as (H1 & H2 & _).
  destruct (Nat.lt_trichotomy i j) as [H|[H|H]]; [|congruence|].
  - assert (nth i l 0 < nth j l 0) by (apply rs_sorted_nth; assumption). lia.
  - assert (nth j l 0 < nth i l 0) by (apply rs_sorted_nth; assumption). lia.
Qed.

(* ---------- invariants ---------- *)

(* holds after every history *)
Definition rs_inv (s : rs_store) : Prop :=
  rs_sorted (rs_rounds s) /\ forall k, rs_lookup (rs_items s) k <> None <-> In k (rs_rounds s).

(* holds after every history inside the property's domain (rs_hist_ok) *)
Definition rs_good (s : rs_store) : Prop :=
  Forall (fun r => 0 <= r) (rs_rounds s) /\
  ((rs_rounds s = [] /\ rs_max s = 0) \/ (rs_rounds s <> [] /\ rs_max s = last (rs_rounds s) 0)).

Lemma rs_new_inv : rs_inv rs_new.
Proof. split; [constructor|]. intros k. cbn. split; [congruence|intros []]. Qed.

Lemma rs_new_good : rs_good rs_new.
Proof. split; [constructor|]. left. split; reflexivity. Qed.

Lemma rs_put_inv s e r : rs_inv s -> rs_inv (rs_put s e r).
Proof.
  intros [Hs Hk]. unfold rs_put, rs_inv. cbn [rs_rounds rs_items].
  destruct (rs_lookup (rs_items s) r) as [v|] eqn:El.
  - split; [assumption|]. intros k. rewrite rs_lookup_set. destruct (Z.eqb_spec k r) as [->|Hne].
    + split; [intros _; apply Hk; congruence | intros _; discriminate].
    + apply Hk.
  - assert (Hni : ~ In r (rs_rounds s)) by (intros Hin; apply Hk in Hin; congruence).
    split; [apply rs_put_slice_sorted; assumption|].
    intros k. rewrite rs_lookup_set, rs_put_slice_In. destruct (Z.eqb_spec k r) as [->|Hne].
    + split; [intros _; left; reflexivity | intros _; discriminate].
    + rewrite Hk. split; [intros H; right; assumption | intros [H|H]; [congruence|assumption]].
Qed.

Lemma rs_prune_true s r s' : rs_inv s -> rs_prune s r = (s', true) ->
  exists idx, rs_index_of (rs_rounds s) r = Some idx /\
    s' = {| rs_max := rs_max s;
            rs_items := rs_del_all (rs_items s) (firstn (S idx) (rs_rounds s));
            rs_rounds := skipn (S idx) (rs_rounds s) |}.
Proof.
  intros _. unfold rs_prune. destruct (rs_lookup (rs_items s) r); [|intros H; inversion H].
  destruct (rs_index_of (rs_rounds s) r) as [idx|]; intros H; inversion H.
  exists idx. split; reflexivity.
Qed.

Lemma rs_prune_false s r s' : rs_prune s r = (s', false) -> s' = s.
Proof.
  unfold rs_prune. destruct (rs_lookup (rs_items s) r); [|intros H; inversion H; reflexivity].
  destruct (rs_index_of (rs_rounds s) r); intros H; inversion H; reflexivity.
Qed.

(* Prune(r) succeeds exactly when r is stored *)
Lemma rs_prune_ok_iff s r : rs_inv s -> (snd (rs_prune s r) = true <-> rs_lookup (rs_items s) r <> None).
Proof.
  intros [Hs Hk]. unfold rs_prune. destruct (rs_lookup (rs_items s) r) as [v|] eqn:E.
  - assert (Hin : In r (rs_rounds s)) by (apply Hk; congruence).
    destruct (rs_index_of_In _ _ Hin) as (i & Hi). rewrite Hi. cbn. split; [congruence|reflexivity].
  - cbn. split; [discriminate|congruence].
Qed.

(* the stored set after a successful Prune(r): exactly the entries with a greater round *)
Lemma rs_prune_lookup s r s' : rs_inv s -> rs_prune s r = (s', true) ->
  forall k, rs_lookup (rs_items s') k = if Z.leb k r then None else rs_lookup (rs_items s) k.
Proof.
  intros Hi Hp k. destruct (rs_prune_true s r s' Hi Hp) as (idx & Hidx & ->). cbn [rs_items].
  destruct Hi as [Hs Hk]. destruct (rs_index_of_spec _ Hs _ _ Hidx) as (H1 & H2 & H3 & H4).
  rewrite rs_lookup_del_all.
  destruct (existsb (Z.eqb k) (firstn (S idx) (rs_rounds s))) eqn:Ex.
  - apply rs_existsb_eqb_In in Ex. apply H3 in Ex. destruct (Z.leb_spec k r); [reflexivity|lia].
  - destruct (Z.leb_spec k r) as [Hle|Hgt]; [|reflexivity].
    destruct (rs_lookup (rs_items s) k) eqn:El; [|reflexivity].
    assert (Hin : In k (rs_rounds s)) by (apply Hk; congruence).
    rewrite <- (firstn_skipn (S idx)) in Hin. apply in_app_or in Hin. destruct Hin as [Hin|Hin].
    + apply rs_existsb_eqb_In in Hin. congruence.
    + apply H4 in Hin. lia.
Qed.

Lemma rs_prune_inv s r : rs_inv s -> rs_inv (fst (rs_prune s r)).
Proof.
  intros Hi. destruct (rs_prune s r) as [s' ok] eqn:Hp. cbn [fst]. destruct ok.
  - assert (Hl := rs_prune_lookup s r s' Hi Hp).
    destruct (rs_prune_true s r s' Hi Hp) as (idx & Hidx & Es).
    destruct Hi as [Hs Hk]. destruct (rs_index_of_spec _ Hs _ _ Hidx) as (H1 & H2 & H3 & H4).
    assert (Hsplit : rs_sorted (firstn (S idx) (rs_rounds s) ++ skipn (S idx) (rs_rounds s)))
      by (rewrite firstn_skipn; assumption).
    apply rs_sorted_app in Hsplit. destruct Hsplit as (_ & Hb & _).
    split; [subst s'; assumption|]. intros k. rewrite Hl. subst s'. cbn [rs_rounds].
    destruct (Z.leb_spec k r) as [Hle|Hgt].
    + split; [congruence|]. intros Hin. apply H4 in Hin. lia.
    + rewrite Hk. rewrite <- (firstn_skipn (S idx) (rs_rounds s)) at 1. rewrite in_app_iff.
      split; [intros [Hin|Hin]; [apply H3 in Hin; lia|assumption] | intros Hin; right; assumption].
  - apply rs_prune_false in Hp. subst s'. assumption.
Qed.

Lemma rs_prune_storage_is_prune s t : rs_inv s ->
  rs_prune_storage s t = s \/
  exists r, rs_prune_storage s t = fst (rs_prune s r) /\ rs_op_ok s (RsPrune r) = true /\
            snd (rs_prune s r) = true /\ length (rs_rounds (rs_prune_storage s t)) = t.
Proof.
  intros Hi. unfold rs_prune_storage. destruct t as [|t]; [left; reflexivity|].
  destruct (Nat.ltb_spec (S t) (length (rs_rounds s))) as [Hlt|Hge]; [|left; reflexivity].
  right. set (i := (length (rs_rounds s) - S t - 1)%nat). set (r := nth i (rs_rounds s) 0).
  exists r. split; [reflexivity|]. destruct Hi as [Hs Hk].
  assert (Hi' : (i < length (rs_rounds s))%nat) by (unfold i; lia).
  assert (Hidx := rs_index_of_nth _ Hs i Hi'). fold r in Hidx.
  assert (Hin : In r (rs_rounds s)) by (apply nth_In; assumption).
  assert (Hl : rs_lookup (rs_items s) r <> None) by (apply Hk; assumption).
  split.
  - cbn [rs_op_ok]. apply existsb_exists.
    set (r2 := nth (S i) (rs_rounds s) 0).
    assert (Hin2 : In r2 (rs_rounds s)) by (apply nth_In; unfold i; lia).
    apply Hk in Hin2. destruct (rs_lookup (rs_items s) r2) as [v|] eqn:E2; [|congruence].
    assert (Hp : In (r2, v) (rs_items s)).
    { clear - E2. induction (rs_items s) as [|[a b] tl IH]; cbn [rs_lookup] in E2; [discriminate|].
      destruct (Z.eqb_spec a r2); [inversion E2; subst; left; reflexivity | right; apply IH; assumption]. }
    exists (r2, v). split; [assumption|]. cbn [fst]. apply Z.ltb_lt. apply rs_sorted_nth; [assumption|lia|unfold i; lia].
  - unfold rs_prune. destruct (rs_lookup (rs_items s) r); [|congruence]. rewrite Hidx. cbn [snd fst rs_rounds].
    split; [reflexivity|]. rewrite skipn_length. unfold i. lia.
Qed.

(* ---------- freshness of max ---------- *)

Lemma rs_put_good s e r : rs_inv s -> rs_good s -> 0 <= r -> rs_good (rs_put s e r).
Proof.
  intros [Hs Hk] [Hnn Hm] Hr. assert (Hi' := rs_put_inv s e r (conj Hs Hk)). destruct Hi' as [Hs' _].
  unfold rs_put in *. cbn [rs_rounds rs_items rs_max] in *. unfold rs_good. cbn [rs_rounds rs_max].
  destruct (rs_lookup (rs_items s) r) as [v|] eqn:El.
  - assert (Hin : In r (rs_rounds s)) by (apply Hk; congruence).
    split; [assumption|]. destruct Hm as [[Hnil _]|[Hne Hm]]; [rewrite Hnil in Hin; destruct Hin|].
    right. split; [assumption|]. destruct (rs_sorted_last_max _ Hs Hne) as [_ Hmax].
    specialize (Hmax _ Hin). destruct (Z.gtb_spec r (rs_max s)); lia.
  - split.
    + rewrite Forall_forall in *. intros x Hx. apply rs_put_slice_In in Hx. destruct Hx as [->|Hx]; [assumption|auto].
    + right. assert (Hne' : rs_put_slice r (rs_rounds s) <> []).
      { intros E. assert (In r (rs_put_slice r (rs_rounds s))) by (apply rs_put_slice_In; left; reflexivity).
        rewrite E in H. destruct H. }
      split; [assumption|]. destruct (rs_sorted_last_max _ Hs' Hne') as [Hlin Hlmax].
      apply rs_put_slice_In in Hlin.
      assert (Hr' : r <= last (rs_put_slice r (rs_rounds s)) 0) by (apply Hlmax, rs_put_slice_In; left; reflexivity).
      destruct Hm as [[Hnil Hm]|[Hne Hm]].
      * rewrite Hnil in *. destruct Hlin as [Hl|[]]. rewrite Hm, Hl. destruct (Z.gtb_spec r 0); lia.
      * destruct (rs_sorted_last_max _ Hs Hne) as [Hoin Homax]. rewrite <- Hm in *.
        assert (rs_max s <= last (rs_put_slice r (rs_rounds s)) 0) by (apply Hlmax, rs_put_slice_In; right; assumption).
        destruct Hlin as [Hl|Hl]; [|apply Homax in Hl]; destruct (Z.gtb_spec r (rs_max s)); lia.
Qed.

Lemma rs_prune_good s r : rs_inv s -> rs_good s -> rs_op_ok s (RsPrune r) = true -> rs_good (fst (rs_prune s r)).
Proof.
  intros Hi [Hnn Hm] Hok. destruct (rs_prune s r) as [s' ok] eqn:Hp. cbn [fst]. destruct ok.
  - destruct (rs_prune_true s r s' Hi Hp) as (idx & Hidx & Es). destruct Hi as [Hs Hk].
    destruct (rs_index_of_spec _ Hs _ _ Hidx) as (H1 & H2 & H3 & H4).
    cbn [rs_op_ok] in Hok. apply existsb_exists in Hok. destruct Hok as ([k v] & Hkv & Hlt).
    cbn [fst] in Hlt. apply Z.ltb_lt in Hlt.
    assert (Hkin : In k (rs_rounds s)).
    { apply Hk. clear - Hkv. induction (rs_items s) as [|[a b] tl IH]; [destruct Hkv|]. cbn [rs_lookup].
      destruct (Z.eqb_spec a k); [congruence|]. destruct Hkv as [E|Hin]; [inversion E; congruence|auto]. }
    rewrite <- (firstn_skipn (S idx) (rs_rounds s)) in Hkin. apply in_app_or in Hkin.
    destruct Hkin as [Hkin|Hkin]; [apply H3 in Hkin; lia|].
    assert (Hne : skipn (S idx) (rs_rounds s) <> []) by (intros E; rewrite E in Hkin; destruct Hkin).
    subst s'. unfold rs_good. cbn [rs_rounds rs_max]. split.
    + rewrite Forall_forall in *. intros x Hx. apply Hnn. rewrite <- (firstn_skipn (S idx)). apply in_or_app. right. assumption.
    + right. split; [assumption|]. destruct Hm as [[Hnil _]|[Hne0 Hm]]; [rewrite Hnil, skipn_nil in Hne; congruence|].
      rewrite Hm. rewrite <- (firstn_skipn (S idx) (rs_rounds s)) at 1. apply rs_last_app. assumption.
  - apply rs_prune_false in Hp. subst s'. split; assumption.
Qed.

Lemma rs_step_inv s o : rs_inv s -> rs_inv (fst (rs_step s o)).
Proof.
  intros Hi. destruct o; cbn [rs_step fst]; try assumption.
  - apply rs_put_inv. assumption.
  - assert (H := rs_prune_inv s r Hi). destruct (rs_prune s r). exact H.
  - destruct (rs_prune_storage_is_prune s target Hi) as [E|(r & E & _)]; rewrite E; [assumption|apply rs_prune_inv; assumption].
Qed.

Lemma rs_step_good s o : rs_inv s -> rs_good s -> rs_op_ok s o = true -> rs_good (fst (rs_step s o)).
Proof.
  intros Hi Hg Hok. destruct o; cbn [rs_step fst]; try assumption.
  - apply rs_put_good; try assumption. cbn in Hok. apply Z.leb_le. assumption.
  - assert (H := rs_prune_good s r Hi Hg Hok). destruct (rs_prune s r). exact H.
  - destruct (rs_prune_storage_is_prune s target Hi) as [E|(r & E & Hok' & _)]; rewrite E; [assumption|apply rs_prune_good; assumption].
Qed.

Lemma rs_run_fst s ops : fst (rs_run s ops) = fold_left (fun s o => fst (rs_step s o)) ops s.
Proof.
  revert s. induction ops as [|o tl IH]; intros s; cbn [rs_run fold_left]; [reflexivity|].
  destruct (rs_step s o) as [s1 out] eqn:E1. destruct (rs_run s1 tl) as [s2 outs] eqn:E2.
  cbn [fst]. rewrite <- IH, E2. reflexivity.
Qed.

Lemma rs_run_inv ops : forall s, rs_inv s -> rs_inv (fst (rs_run s ops)).
Proof.
  intros s. rewrite rs_run_fst. revert s. induction ops as [|o tl IH]; intros s Hi; cbn [fold_left]; [assumption|].
  apply IH. apply rs_step_inv. assumption.
Qed.

Lemma rs_run_good ops : forall s, rs_inv s -> rs_good s -> rs_hist_ok s ops = true -> rs_good (fst (rs_run s ops)).
Proof.
  intros s. rewrite rs_run_fst. revert s. induction ops as [|o tl IH]; intros s Hi Hg Hok; cbn [fold_left]; [assumption|].
  cbn [rs_hist_ok] in Hok. apply andb_prop in Hok. destruct Hok as [Ho Hrest].
  apply IH; [apply rs_step_inv; assumption | apply rs_step_good; assumption | assumption].
Qed.

Lemma rs_exec_inv ops : rs_inv (rs_exec ops).
Proof. apply rs_run_inv, rs_new_inv. Qed.

Lemma rs_exec_good ops : rs_hist_ok rs_new ops = true -> rs_good (rs_exec ops).
Proof. apply rs_run_good; [apply rs_new_inv | apply rs_new_good]. Qed.

Lemma rs_reachable_sorted_nodup ops :
  let s := rs_exec ops in
  StronglySorted Z.lt (rs_rounds s) /\ NoDup (rs_rounds s) /\
  forall k, rs_lookup (rs_items s) k <> None <-> In k (rs_rounds s).
Proof.
  intros s. destruct (rs_exec_inv ops) as [Hs Hk]. split; [assumption|]. split; [apply rs_sorted_NoDup; assumption|assumption].
Qed.

(* ---------- lookups ---------- *)

Lemma rs_good_max_floor s q : rs_inv s -> rs_good s -> rs_shortcut s q = true ->
  rs_is_floor (rs_rounds s) q (rs_max s) /\ rs_max s = last (rs_rounds s) 0 /\ rs_rounds s <> [].
Proof.
  intros [Hs Hk] [Hnn Hm] Hsc. unfold rs_shortcut in Hsc. apply andb_prop in Hsc. destruct Hsc as [H1 H2].
  apply Z.gtb_lt in H1. apply Z.gtb_lt in H2.
  destruct Hm as [[_ Hm]|[Hne Hm]]; [lia|]. destruct (rs_sorted_last_max _ Hs Hne) as [Hin Hmax].
  rewrite <- Hm in *. repeat split; try assumption; try lia. intros y Hy _. apply Hmax. assumption.
Qed.

Lemma rs_lookup_some s k : rs_inv s -> In k (rs_rounds s) -> exists e, rs_lookup (rs_items s) k = Some e.
Proof.
  intros [_ Hk] Hin. apply Hk in Hin. destruct (rs_lookup (rs_items s) k) as [e|]; [exists e; reflexivity|congruence].
Qed.

(* Get = entity of the greatest stored starting round <= q, nil when there is none *)
Lemma rs_get_spec s q : rs_inv s -> rs_good s ->
  (exists f e, rs_is_floor (rs_rounds s) q f /\ rs_lookup (rs_items s) f = Some e /\ rs_get s q = Some e) \/
  (rs_no_floor (rs_rounds s) q /\ rs_get s q = None).
Proof.
  intros Hi Hg. unfold rs_get, rs_nearest. destruct (rs_shortcut s q) eqn:Hsc.
  - destruct (rs_good_max_floor s q Hi Hg Hsc) as (Hf & _ & _).
    unfold rs_shortcut in Hsc. apply andb_prop in Hsc. destruct Hsc as [_ H2]. apply Z.gtb_lt in H2.
    destruct (rs_lookup_some s (rs_max s) Hi (proj1 Hf)) as (e & He).
    left. exists (rs_max s), e. split; [assumption|]. split; [assumption|].
    destruct (Z.eqb_spec (rs_max s) (-1)); [lia|assumption].
  - destruct Hi as [Hs Hk]. destruct (rs_scan_spec (rs_rounds s) q Hs (-1)) as [[E Hno]|Hf].
    + right. split; [assumption|]. rewrite E. reflexivity.
    + left. set (f := rs_scan (rs_rounds s) q (-1)) in *.
      destruct (rs_lookup_some s f (conj Hs Hk) (proj1 Hf)) as (e & He).
      exists f, e. split; [assumption|]. split; [assumption|].
      destruct Hg as [Hnn _]. rewrite Forall_forall in Hnn. specialize (Hnn _ (proj1 Hf)).
      destruct (Z.eqb_spec f (-1)); [lia|assumption].
Qed.

Lemma rs_get_latest_spec s : rs_inv s -> rs_good s ->
  (rs_rounds s = [] /\ rs_get_latest s = None /\ forall k, rs_lookup (rs_items s) k = None) \/
  (exists e, rs_rounds s <> [] /\ rs_lookup (rs_items s) (last (rs_rounds s) 0) = Some e /\ rs_get_latest s = Some e).
Proof.
  intros Hi [Hnn Hm]. destruct Hm as [[Hnil Hm]|[Hne Hm]].
  - left. assert (Hall : forall k, rs_lookup (rs_items s) k = None).
    { intros k. destruct Hi as [_ Hk]. destruct (rs_lookup (rs_items s) k) eqn:E; [|reflexivity].
      assert (In k (rs_rounds s)) by (apply Hk; congruence). rewrite Hnil in H. destruct H. }
    split; [assumption|]. split; [|assumption]. unfold rs_get_latest. destruct (rs_items s); [reflexivity|apply Hall].
  - right. destruct (rs_sorted_last_max _ (proj1 Hi) Hne) as [Hin _].
    destruct (rs_lookup_some s _ Hi Hin) as (e & He). exists e. split; [assumption|]. split; [assumption|].
    unfold rs_get_latest. rewrite Hm. destruct (rs_items s); [discriminate|assumption].
Qed.

Definition rs_is_latest (l : list Z) (f : Z) : Prop := In f l /\ forall y, In y l -> y <= f.

(* GetMagicBlockNoOffset *)
Lemma rs_get_mb_no_offset_spec s q : rs_inv s -> rs_good s ->
  match rs_get_mb_no_offset s q with
  | Some e =>
      (exists f, rs_is_floor (rs_rounds s) q f /\ rs_lookup (rs_items s) f = Some e) \/
      (rs_no_floor (rs_rounds s) q /\ exists f, rs_is_latest (rs_rounds s) f /\ rs_lookup (rs_items s) f = Some e)
  | None => rs_rounds s = [] /\ forall k, rs_lookup (rs_items s) k = None
  end.
Proof.
  intros Hi Hg. unfold rs_get_mb_no_offset.
  destruct (rs_get_spec s q Hi Hg) as [(f & e & Hf & Hl & Hget)|[Hno Hget]]; rewrite Hget.
  - left. exists f. split; assumption.
  - destruct (rs_get_latest_spec s Hi Hg) as [(Hnil & Hl & Hall)|(e & Hne & Hl & Hlat)].
    + rewrite Hl. split; assumption.
    + rewrite Hlat. right. split; [assumption|]. exists (last (rs_rounds s) 0). split; [|assumption].
      destruct (rs_sorted_last_max _ (proj1 Hi) Hne). split; assumption.
Qed.

Lemma rs_mb_round_offset_spec q :
  rs_mb_round_offset q = if Z.leb q 4 then q else q - 4.
Proof.
  unfold rs_mb_round_offset, rs_vc_offset. destruct (Z.ltb_spec q (4 + 1)); destruct (Z.leb_spec q 4); lia.
Qed.

Lemma rs_get_mb_spec s q : rs_inv s -> rs_good s ->
  let q' := if Z.leb q 4 then q else q - 4 in
  match rs_get_mb s q with
  | Some e =>
      (exists f, rs_is_floor (rs_rounds s) q' f /\ rs_lookup (rs_items s) f = Some e) \/
      (rs_no_floor (rs_rounds s) q' /\ exists f, rs_is_latest (rs_rounds s) f /\ rs_lookup (rs_items s) f = Some e)
  | None => rs_rounds s = [] /\ forall k, rs_lookup (rs_items s) k = None
  end.
Proof.
  intros Hi Hg q'. unfold rs_get_mb. rewrite rs_mb_round_offset_spec. apply rs_get_mb_no_offset_spec; assumption.
Qed.

(* FindRoundIndex = position of the floor, -1 when there is none *)
Lemma rs_find_index_spec s q : rs_inv s -> rs_good s ->
  (exists i, rs_find_index s q = Z.of_nat i /\ (i < length (rs_rounds s))%nat /\
             rs_is_floor (rs_rounds s) q (nth i (rs_rounds s) 0)) \/
  (rs_no_floor (rs_rounds s) q /\ rs_find_index s q = -1).
Proof.
  intros Hi Hg. unfold rs_find_index. destruct (rs_shortcut s q) eqn:Hsc.
  - destruct (rs_good_max_floor s q Hi Hg Hsc) as (Hf & Hm & Hne). left.
    exists (length (rs_rounds s) - 1)%nat.
    assert (length (rs_rounds s) <> 0%nat) by (destruct (rs_rounds s); [congruence|cbn; lia]).
    split; [lia|]. split; [lia|].
    replace (nth (length (rs_rounds s) - 1) (rs_rounds s) 0) with (rs_max s); [assumption|].
    rewrite Hm. clear. induction (rs_rounds s) as [|h t IH]; [reflexivity|].
    destruct t as [|h2 t2]; [reflexivity|]. change (last (h :: h2 :: t2) 0) with (last (h2 :: t2) 0).
    rewrite IH. cbn [length]. replace (S (S (length t2)) - 1)%nat with (S (length t2)) by lia.
    cbn [nth]. replace (S (length t2) - 1)%nat with (length t2) by lia. reflexivity.
  - destruct (rs_scan_idx_spec (rs_rounds s) q (proj1 Hi) 0 (-1)) as [[E Hno]|(j & E & Hj & Hf)].
    + right. split; assumption.
    + left. exists j. split; [lia|]. split; assumption.
Qed.

(* Get at a stored starting round returns that round's entity *)
Lemma rs_get_member s r : rs_inv s -> rs_good s -> In r (rs_rounds s) -> rs_get s r = rs_lookup (rs_items s) r.
Proof.
  intros Hi Hg Hin. destruct (rs_get_spec s r Hi Hg) as [(f & e & Hf & Hl & Hget)|[Hno _]].
  - assert (f = r).
    { destruct Hf as (Hfin & Hle & Hmax). specialize (Hmax r Hin ltac:(lia)). lia. }
    subst f. congruence.
  - specialize (Hno _ Hin). lia.
Qed.

Definition rs_is_pred (l : list Z) (f p : Z) : Prop :=
  In p l /\ p < f /\ forall y, In y l -> y < f -> y <= p.

(* GetPrevMagicBlock: entity of the stored round just before the floor; PreviousMagicBlock (None)
   when the floor is the first stored round or there is no floor *)
Lemma rs_get_prev_spec s q : rs_inv s -> rs_good s ->
  let q' := if Z.leb q 4 then q else q - 4 in
  match rs_get_prev s q with
  | Some e => exists f p, rs_is_floor (rs_rounds s) q' f /\ rs_is_pred (rs_rounds s) f p /\
                          rs_lookup (rs_items s) p = Some e
  | None => rs_no_floor (rs_rounds s) q' \/
            (exists f, rs_is_floor (rs_rounds s) q' f /\ forall y, In y (rs_rounds s) -> f <= y)
  end.
Proof.
  intros Hi Hg q'. unfold rs_get_prev. rewrite rs_mb_round_offset_spec. fold q'.
  destruct (rs_find_index_spec s q' Hi Hg) as [(i & E & Hil & Hf)|[Hno E]]; rewrite E.
  - destruct (Z.leb_spec (Z.of_nat i) 0) as [Hle|Hgt].
    + right. exists (nth i (rs_rounds s) 0). split; [assumption|]. assert (i = O) by lia. subst i.
      intros y Hy. destruct (In_nth _ _ 0 Hy) as (k & Hk & <-). destruct k; [lia|].
      assert (nth 0 (rs_rounds s) 0 < nth (S k) (rs_rounds s) 0) by (apply rs_sorted_nth; [apply Hi|lia|lia]). lia.
    + replace (Z.to_nat (Z.of_nat i - 1)) with (i - 1)%nat by lia.
      set (p := nth (i - 1) (rs_rounds s) 0).
      assert (Hpin : In p (rs_rounds s)) by (apply nth_In; lia).
      rewrite (rs_get_member s p Hi Hg Hpin). destruct (rs_lookup_some s p Hi Hpin) as (e & He). rewrite He.
      exists (nth i (rs_rounds s) 0), p. split; [assumption|]. split; [|assumption].
      split; [assumption|]. split; [apply rs_sorted_nth; [apply Hi|lia|lia]|].
      intros y Hy Hlt. destruct (In_nth _ _ 0 Hy) as (k & Hk & <-).
      destruct (Nat.lt_trichotomy k (i - 1)) as [H|[H|H]].
      * assert (nth k (rs_rounds s) 0 < p) by (apply rs_sorted_nth; [apply Hi|lia|lia]). lia.
      * subst k. unfold p. lia.
      * destruct (Nat.eq_dec k i) as [->|]; [lia|].
        assert (nth i (rs_rounds s) 0 < nth k (rs_rounds s) 0) by (apply rs_sorted_nth; [apply Hi|lia|lia]). lia.
  - left. assumption.
Qed.

(* ---------- pruning preserves answers from the first retained round on ---------- *)

Lemma rs_prune_preserves s r s' : rs_inv s -> rs_good s ->
  rs_prune s r = (s', true) -> rs_op_ok s (RsPrune r) = true ->
  rs_get_latest s' = rs_get_latest s /\
  forall q, hd 0 (rs_rounds s') <= q ->
    rs_get s' q = rs_get s q /\ rs_get_mb_no_offset s' q = rs_get_mb_no_offset s q.
Proof.
  intros Hi Hg Hp Hok.
  assert (Hi' : rs_inv s') by (replace s' with (fst (rs_prune s r)) by (rewrite Hp; reflexivity); apply rs_prune_inv; assumption).
  assert (Hg' : rs_good s') by (replace s' with (fst (rs_prune s r)) by (rewrite Hp; reflexivity); apply rs_prune_good; assumption).
  assert (Hl := rs_prune_lookup s r s' Hi Hp).
  destruct (rs_prune_true s r s' Hi Hp) as (idx & Hidx & Es).
  destruct (rs_index_of_spec _ (proj1 Hi) _ _ Hidx) as (H1 & H2 & H3 & H4).
  assert (Hr' : rs_rounds s' = skipn (S idx) (rs_rounds s)) by (subst s'; reflexivity).
  assert (Hsub : forall y, In y (rs_rounds s') -> In y (rs_rounds s) /\ r < y).
  { intros y Hy. rewrite Hr' in Hy. split; [|apply H4; assumption].
    rewrite <- (firstn_skipn (S idx)). apply in_or_app. right. assumption. }
  assert (Hsup : forall y, In y (rs_rounds s) -> r < y -> In y (rs_rounds s')).
  { intros y Hy Hlt. rewrite Hr'. rewrite <- (firstn_skipn (S idx)) in Hy. apply in_app_or in Hy.
    destruct Hy as [Hy|Hy]; [apply H3 in Hy; lia|assumption]. }
  assert (Hnonempty : rs_rounds s' <> []).
  { (* rounds s' is not empty because the prune was inside the domain *)
    intros Hnil. cbn [rs_op_ok] in Hok. apply existsb_exists in Hok. destruct Hok as ([k v] & Hkv & Hlt).
    cbn [fst] in Hlt. apply Z.ltb_lt in Hlt.
    assert (Hkin : In k (rs_rounds s)).
    { apply Hi. clear - Hkv. induction (rs_items s) as [|[a b] tl IH]; [destruct Hkv|]. cbn [rs_lookup].
      destruct (Z.eqb_spec a k); [congruence|]. destruct Hkv as [E|Hin]; [inversion E; congruence|auto]. }
    apply Hsup in Hkin; [|assumption]. rewrite Hnil in Hkin. destruct Hkin. }
  assert (Hlat : rs_get_latest s' = rs_get_latest s).
  { destruct (rs_get_latest_spec s' Hi' Hg') as [(Hnil & _ & _)|(e' & Hne' & Hl' & Hlat')].
    - congruence.
    - destruct (rs_get_latest_spec s Hi Hg) as [(Hnil & _ & _)|(e & Hne & Hl0 & Hlat0)].
      + rewrite Hr', Hnil, skipn_nil in Hne'. congruence.
      + rewrite Hlat', Hlat0.
        destruct (rs_sorted_last_max _ (proj1 Hi') Hne') as [Hin' Hmax'].
        destruct (rs_sorted_last_max _ (proj1 Hi) Hne) as [Hin Hmax].
        destruct (Hsub _ Hin') as [Hin'0 Hgt].
        assert (last (rs_rounds s') 0 = last (rs_rounds s) 0).
        { assert (A := Hmax _ Hin'0). assert (In (last (rs_rounds s) 0) (rs_rounds s')) by (apply Hsup; [assumption|lia]).
          assert (B := Hmax' _ H). lia. }
        rewrite Hl in Hl'. destruct (Z.leb_spec (last (rs_rounds s') 0) r); [discriminate|]. congruence. }
  split; [assumption|]. intros q Hq.
  assert (Hget : rs_get s' q = rs_get s q).
  { destruct (rs_get_spec s' q Hi' Hg') as [(f' & e' & Hf' & Hl' & Hget')|[Hno' _]].
    - rewrite Hget'. destruct Hf' as (Hin' & Hle' & Hmax'). destruct (Hsub _ Hin') as [Hin0 Hgt].
      assert (Hf0 : rs_is_floor (rs_rounds s) q f').
      { split; [assumption|]. split; [assumption|]. intros y Hy Hyq.
        destruct (Z.le_gt_cases y r); [lia|]. apply Hmax'; [apply Hsup; [assumption|lia]|assumption]. }
      destruct (rs_get_spec s q Hi Hg) as [(f & e & Hf & Hl0 & Hget)|[Hno _]]; [|exfalso; eapply rs_floor_excl; eassumption].
      rewrite Hget. assert (f = f') by (eapply rs_floor_unique; eassumption). subst f.
      rewrite Hl in Hl'. destruct (Z.leb_spec f' r); [discriminate|]. congruence.
    - exfalso. destruct (rs_rounds s') as [|h t] eqn:E.
      + congruence.
      + cbn [hd] in Hq. specialize (Hno' h (or_introl eq_refl)). lia. }
  split; [assumption|]. unfold rs_get_mb_no_offset. rewrite Hget, Hlat. reflexivity.
Qed.

(* ---------- the stored set as a function of the history ---------- *)

Lemma rs_step_abs s m o : rs_inv s -> rs_plain_op o = true ->
  (forall k, rs_lookup (rs_items s) k = m k) ->
  forall k, rs_lookup (rs_items (fst (rs_step s o))) k = rs_abs_step m o k.
Proof.
  intros Hi Hpl Hm k. destruct o; cbn [rs_step fst rs_abs_step]; try apply Hm; try discriminate.
  - unfold rs_put. cbn [rs_items]. rewrite rs_lookup_set, Hm. reflexivity.
  - destruct (rs_prune s r) as [s' ok] eqn:Hp. cbn [fst]. rewrite <- Hm. destruct ok.
    + assert (rs_lookup (rs_items s) r <> None).
      { apply (rs_prune_ok_iff s r Hi). rewrite Hp. reflexivity. }
      destruct (rs_lookup (rs_items s) r); [|congruence].
      rewrite (rs_prune_lookup s r s' Hi Hp), Hm. reflexivity.
    + assert (rs_lookup (rs_items s) r = None).
      { destruct (rs_lookup (rs_items s) r) eqn:E; [|reflexivity].
        assert (snd (rs_prune s r) = true) by (apply (rs_prune_ok_iff s r Hi); congruence).
        rewrite Hp in H. discriminate. }
      rewrite H. apply rs_prune_false in Hp. subst s'. apply Hm.
Qed.

Lemma rs_run_abs ops : forall s m, rs_inv s -> forallb rs_plain_op ops = true ->
  (forall k, rs_lookup (rs_items s) k = m k) ->
  forall k, rs_lookup (rs_items (fst (rs_run s ops))) k = fold_left rs_abs_step ops m k.
Proof.
  intros s. rewrite rs_run_fst. revert s. induction ops as [|o tl IH]; intros s m Hi Hpl Hm k; cbn [fold_left]; [apply Hm|].
  cbn [forallb] in Hpl. apply andb_prop in Hpl. destruct Hpl as [Ho Htl].
  apply IH; [apply rs_step_inv; assumption | assumption | apply rs_step_abs; assumption].
Qed.

Lemma rs_exec_abs ops : forallb rs_plain_op ops = true ->
  forall k, rs_lookup (rs_items (rs_exec ops)) k = rs_abs_run ops k.
Proof. intros Hpl. apply rs_run_abs; [apply rs_new_inv | assumption | reflexivity]. Qed.

(* The property, over histories, in terms of the stored set only. *)
Lemma rs_lookup_in_force ops q :
  forallb rs_plain_op ops = true -> rs_hist_ok rs_new ops = true ->
  let m := rs_abs_run ops in
  let q' := if Z.leb q 4 then q else q - 4 in
  match rs_get_mb (rs_exec ops) q with
  | Some e =>
      (exists f, m f = Some e /\ f <= q' /\ forall y, m y <> None -> y <= q' -> y <= f) \/
      ((forall y, m y <> None -> q' < y) /\ exists f, m f = Some e /\ forall y, m y <> None -> y <= f)
  | None => forall y, m y = None
  end.
Proof.
  intros Hpl Hok m q'. assert (Hi := rs_exec_inv ops). assert (Hg := rs_exec_good ops Hok).
  assert (Habs := rs_exec_abs ops Hpl). fold m in Habs.
  assert (Hkeys : forall y, m y <> None <-> In y (rs_rounds (rs_exec ops))).
  { intros y. rewrite <- Habs. apply Hi. }
  assert (H := rs_get_mb_spec (rs_exec ops) q Hi Hg). cbv zeta in H. fold q' in H.
  destruct (rs_get_mb (rs_exec ops) q) as [e|].
  - destruct H as [(f & (Hin & Hle & Hmax) & Hl)|(Hno & f & (Hin & Hmax) & Hl)].
    + left. exists f. rewrite <- Habs. split; [assumption|]. split; [assumption|].
      intros y Hy. apply Hmax. apply Hkeys. assumption.
    + right. split; [intros y Hy; apply Hno, Hkeys; assumption|].
      exists f. rewrite <- Habs. split; [assumption|]. intros y Hy. apply Hmax, Hkeys. assumption.
  - destruct H as [_ Hall]. intros y. rewrite <- Habs. apply Hall.
Qed.

(* Pruning, over histories: after any in-domain history, a Prune of an older entry leaves the
   magic block of every round whose (offset) lookup round is at or after the first retained
   starting round unchanged; the latest magic block is unchanged as well. *)
Lemma rs_prune_preserves_hist ops r s' :
  rs_hist_ok rs_new ops = true ->
  let s := rs_exec ops in
  rs_op_ok s (RsPrune r) = true -> rs_prune s r = (s', true) ->
  rs_get_latest s' = rs_get_latest s /\
  forall q, hd 0 (rs_rounds s') <= rs_mb_round_offset q -> rs_get_mb s' q = rs_get_mb s q.
Proof.
  intros Hok s Hop Hp. assert (Hi := rs_exec_inv ops). assert (Hg := rs_exec_good ops Hok).
  destruct (rs_prune_preserves s r s' Hi Hg Hp Hop) as [Hlat Hq]. split; [assumption|].
  intros q Hle. unfold rs_get_mb. apply Hq. assumption.
Qed.

(* what Prune(r) retains *)
Lemma rs_prune_retains s r s' : rs_inv s -> rs_prune s r = (s', true) ->
  forall y, In y (rs_rounds s') <-> In y (rs_rounds s) /\ r < y.
Proof.
  intros Hi Hp y. assert (Hi' : rs_inv s') by (replace s' with (fst (rs_prune s r)) by (rewrite Hp; reflexivity); apply rs_prune_inv; assumption).
  assert (Hl := rs_prune_lookup s r s' Hi Hp y).
  destruct Hi as [_ Hk]. destruct Hi' as [_ Hk']. rewrite <- Hk, <- Hk', Hl.
  destruct (Z.leb_spec y r); split; intros HH; try lia; try tauto; try (destruct HH; congruence).
Qed.

(* ---------- the lookups on every reachable in-domain state (PruneRoundStorage included) ---------- *)

Lemma rs_get_mb_reachable ops q : rs_hist_ok rs_new ops = true ->
  let s := rs_exec ops in
  let q' := if Z.leb q 4 then q else q - 4 in
  match rs_get_mb s q with
  | Some e =>
      (exists f, rs_is_floor (rs_rounds s) q' f /\ rs_lookup (rs_items s) f = Some e) \/
      (rs_no_floor (rs_rounds s) q' /\ exists f, rs_is_latest (rs_rounds s) f /\ rs_lookup (rs_items s) f = Some e)
  | None => rs_rounds s = [] /\ forall k, rs_lookup (rs_items s) k = None
  end.
Proof. intros Hok. apply rs_get_mb_spec; [apply rs_exec_inv | apply rs_exec_good; assumption]. Qed.

Lemma rs_get_prev_reachable ops q : rs_hist_ok rs_new ops = true ->
  let s := rs_exec ops in
  let q' := if Z.leb q 4 then q else q - 4 in
  match rs_get_prev s q with
  | Some e => exists f p, rs_is_floor (rs_rounds s) q' f /\ rs_is_pred (rs_rounds s) f p /\
                          rs_lookup (rs_items s) p = Some e
  | None => rs_no_floor (rs_rounds s) q' \/
            (exists f, rs_is_floor (rs_rounds s) q' f /\ forall y, In y (rs_rounds s) -> f <= y)
  end.
Proof. intros Hok. apply rs_get_prev_spec; [apply rs_exec_inv | apply rs_exec_good; assumption]. Qed.

Lemma rs_prune_storage_reachable ops t :
  let s := rs_exec ops in
  rs_prune_storage s t = s \/
  exists r, rs_prune_storage s t = fst (rs_prune s r) /\ rs_op_ok s (RsPrune r) = true /\
            snd (rs_prune s r) = true /\ length (rs_rounds (rs_prune_storage s t)) = t.
Proof. apply rs_prune_storage_is_prune, rs_exec_inv. Qed.

Lemma rs_prune_retains_hist ops r s' :
  let s := rs_exec ops in
  rs_prune s r = (s', true) -> forall y, In y (rs_rounds s') <-> In y (rs_rounds s) /\ r < y.
Proof. intros s. apply rs_prune_retains, rs_exec_inv. Qed.
