(* Correspondence for C37: a case is an op history run on a real round.Round with, after every
   op, whether it returned (and what) and the observed phase, finalizing state, timeout count,
   whether the round mutex was left locked, and the parties holding a VRF share. *)
From ZC Require Import Base.Corr Model.RoundSM.
Open Scope Z_scope.

(* The behaviour of /repo: all [false] = as written.  Set a flag to [true] when the
   corresponding repair is applied: fx_restart (Restart unlocks on the rejected path), fx_clamp
   (SetTimeoutCount clamps to the cap), fx_saturate (no increment past MaxInt64). *)
Definition sm_code_fix : sm_fix := {| fx_restart := true; fx_clamp := true; fx_saturate := true |}.

Record sm_obs := { so_res : sm_res; so_phase : Z; so_fin : Z; so_tcount : Z; so_held : bool; so_shares : list Z }.

Inductive sm_case := SmCase (number : Z) (ops : list sm_op) (obs : list sm_obs).

Definition sm_set_eqb (a b : list Z) : bool :=
  Nat.eqb (length a) (length b) &&
  forallb (fun x => existsb (Z.eqb x) b) a && forallb (fun x => existsb (Z.eqb x) a) b.

Definition sm_val_eqb (a b : sm_val) : bool :=
  match a, b with
  | VUnit, VUnit => true
  | VBool x, VBool y => Bool.eqb x y
  | VInt x, VInt y => Z.eqb x y
  | VSet x, VSet y => sm_set_eqb x y
  | VRestartRejected, VRestartRejected => true
  | _, _ => false
  end.

Definition sm_res_eqb (a b : sm_res) : bool :=
  match a, b with
  | Blocked, Blocked => true
  | Ret x, Ret y => sm_val_eqb x y
  | _, _ => false
  end.

Definition sm_obs_ok (sr : sm_state * sm_res) (o : sm_obs) : bool :=
  let s := fst sr in
  sm_res_eqb (snd sr) (so_res o) && Z.eqb (sm_phase s) (so_phase o) && Z.eqb (sm_fin s) (so_fin o) &&
  Z.eqb (sm_tcount s) (so_tcount o) && Bool.eqb (sm_held s) (so_held o) && sm_set_eqb (sm_shares s) (so_shares o).

Fixpoint sm_all2 (l1 : list (sm_state * sm_res)) (l2 : list sm_obs) : bool :=
  match l1, l2 with
  | [], [] => true
  | x :: t1, y :: t2 => sm_obs_ok x y && sm_all2 t1 t2
  | _, _ => false
  end.

Definition sm_check (c : sm_case) : bool :=
  match c with
  | SmCase number ops obs => sm_all2 (sm_run sm_code_fix (sm_init number) ops) obs
  end.
