package main

// C22: block fees and rewards are split exactly between miner and sharders. One case = one
// payFees transaction (plus an identical repeat) through minersc.Execute on a real state.

import (
	"context"
	"fmt"
	"math"
	"math/big"
	"math/rand"
	"sync"
	"time"

	"0chain.net/chaincore/client"
	"0chain.net/core/common"
	"0chain.net/core/encryption"
	"0chain.net/core/viper"

	"0chain.net/chaincore/block"
	"0chain.net/chaincore/chain"
	cstate "0chain.net/chaincore/chain/state"
	"0chain.net/chaincore/node"
	"0chain.net/chaincore/transaction"
	"0chain.net/core/config"
	"0chain.net/miner"
	"0chain.net/smartcontract/minersc"
	"0chain.net/smartcontract/stakepool"
	"0chain.net/smartcontract/stakepool/spenum"
	"github.com/0chain/common/core/currency"
	"verifharness/sc"
	"verifharness/vh"
)

type feeNode struct {
	ID        int       `json:"id"`
	Killed    bool      `json:"killed,omitempty"` // SimpleNode.HasBeenKilled and StakePool.HasBeenKilled
	InMB      bool      `json:"in_mb,omitempty"`  // sharder listed in the magic block
	MinStake  uint64    `json:"min_stake,omitempty"`
	RatioBits uint64    `json:"ratio_bits"`
	Reward    uint64    `json:"reward,omitempty"`
	Pools     []dpoolIn `json:"pools"`
}

type feesIn struct {
	ShareBits   uint64    `json:"share_ratio_bits"`
	BlockReward uint64    `json:"block_reward"`
	RateBits    uint64    `json:"reward_rate_bits"`
	NMD         int       `json:"num_miner_delegates_rewarded"`
	NSR         int       `json:"num_sharders_rewarded"`
	NSD         int       `json:"num_sharder_delegates_rewarded"`
	Round       int64     `json:"round"`
	Seed        int64     `json:"seed"`
	Generator   int       `json:"generator"`
	Fees        []uint64  `json:"fees"`
	// Status[i] of block transaction i (0 unset, 1 TxnSuccess, 2 TxnError = chargeable error, 3 TxnFail); the chain charges
	// the fee of every transaction of the block to the miner contract address whatever its status (chain/state.go:556)
	Status []int `json:"status,omitempty"`
	Client      int       `json:"client"`
	InRound     int64     `json:"in_round"`
	Miners      []feeNode `json:"miners"`
	Sharders    []feeNode `json:"sharders"`
	Demeter     bool      `json:"demeter,omitempty"`
	// block level: the transactions of the block ("P" payFees by the generator, "S" an ordinary send whose
	// fee is Fees[i]) validated by the real miner.ValidateTransactions with this validation batch size
	Block *blockIn `json:"block,omitempty"`

	idMap map[int]string // ids that are real wallet ids (block level)
}

type blockIn struct {
	Kinds string `json:"kinds"`
	Batch int    `json:"batch"`
}

// hx is the chain id of node / client number id.
func (in *feesIn) hx(id int) string {
	if s, ok := in.idMap[id]; ok {
		return s
	}
	return hexID(id)
}

type wallet struct {
	id, pub string
	scheme  encryption.SignatureScheme
	nonce   int64
}

func newWallet() *wallet {
	s := encryption.NewED25519Scheme()
	if err := s.GenerateKeys(); err != nil {
		panic(err)
	}
	id, err := client.GetIDFromPublicKey(s.GetPublicKey())
	if err != nil {
		panic(err)
	}
	co := &client.Client{}
	co.ID = id
	if err := co.SetPublicKey(s.GetPublicKey()); err != nil {
		panic(err)
	}
	if err := client.PutClientCache(co); err != nil {
		panic(err)
	}
	return &wallet{id: id, pub: s.GetPublicKey(), scheme: s}
}

func (w *wallet) txn(now common.Timestamp, to string, typ int, data string, fee uint64) *transaction.Transaction {
	w.nonce++
	tx := &transaction.Transaction{}
	tx.Version = "1.0"
	tx.ClientID = w.id
	tx.PublicKey = w.pub
	tx.ToClientID = to
	tx.CreationDate = now
	tx.TransactionType = typ
	tx.TransactionData = data
	tx.Fee = currency.Coin(fee)
	tx.Nonce = w.nonce
	if err := tx.ComputeProperties(); err != nil {
		panic(err)
	}
	if _, err := tx.Sign(w.scheme); err != nil {
		panic(err)
	}
	tx.OutputHash = tx.ComputeOutputHash()
	return tx
}

var (
	mcMu    sync.Mutex
	mcBatch = -1
)

// minerChain returns the real miner chain configured with the given validation batch size.
func minerChain(batch int) *miner.Chain {
	mcMu.Lock()
	defer mcMu.Unlock()
	if mcBatch != batch {
		viper.Set("server_chain.block.validation.batch_size", batch)
		viper.Set("server_chain.client.signature_scheme", "ed25519")
		miner.SetupMinerChain(chain.NewChainFromConfig())
		mcBatch = batch
	}
	mc := miner.GetMinerChain()
	if mc.ValidationBatchSize() != batch {
		panic("validation batch size not applied")
	}
	return mc
}

// validateBlock builds the block of in.Block with real signed transactions and runs the real
// ValidateTransactions; the generator's wallet id becomes the id of node in.Generator.
func (in *feesIn) validateBlock() bool {
	mc := minerChain(in.Block.Batch)
	gen, a, c := newWallet(), newWallet(), newWallet()
	in.idMap = map[int]string{in.Generator: gen.id}
	now := common.Now()
	var txns []*transaction.Transaction
	for i, k := range in.Block.Kinds {
		if k == 'P' {
			txns = append(txns, gen.txn(now, minersc.ADDRESS, transaction.TxnTypeSmartContract,
				fmt.Sprintf(`{"name":"payFees","input":{"round":%d}}`, in.InRound), 0))
		} else {
			from, to := a, c
			if i%2 == 1 {
				from, to = c, a
			}
			txns = append(txns, from.txn(now, to.id, transaction.TxnTypeSend, "", in.Fees[i]))
		}
	}
	b := &block.Block{}
	b.Round = in.Round
	b.MinerID = gen.id
	b.CreationDate = now
	b.RoundRandomSeed = in.Seed
	b.Txns = txns
	ctx, cancel := context.WithTimeout(context.Background(), 30*time.Second)
	defer cancel()
	return mc.ValidateTransactions(ctx, b) == nil
}

type nodeObs struct {
	Reward uint64
	Pools  []uint64
}

type feesRun struct {
	outcome   int
	err       string
	minerIdx  int   // index into Miners of the rewarded node, -1 none
	live      bool  // some sharder not killed
	rewarded  []int // indices into Sharders, in payment order
	mdraws    []int
	sdraws    [][]int
	pre, post map[int]nodeObs // by node id
	repeatOK  bool
	repeatRun bool
	accepted  bool // block level: ValidateTransactions accepted the block
	nPay      int
	walletIn, walletOut uint64 // transfers queued to / from the miner contract address by the first payFees
}

func mkMinerNode(in *feesIn, n feeNode, t spenum.Provider) *minersc.MinerNode {
	mn := minersc.NewMinerNode()
	mn.ID = in.hx(n.ID)
	mn.ProviderType = t
	mn.NodeType = minersc.NodeTypeMiner
	if t == spenum.Sharder {
		mn.NodeType = minersc.NodeTypeSharder
	}
	mn.SimpleNode.HasBeenKilled = n.Killed
	mn.StakePool.HasBeenKilled = n.Killed
	mn.StakePool.Reward = currency.Coin(n.Reward)
	mn.StakePool.Minter = cstate.MinterMiner
	mn.StakePool.Settings = stakepool.Settings{DelegateWallet: hexID(9999), MaxNumDelegates: 100,
		MinStake: currency.Coin(n.MinStake), ServiceChargeRatio: math.Float64frombits(n.RatioBits)}
	for i, p := range n.Pools {
		id := hexID(i + 1)
		mn.StakePool.Pools[id] = &stakepool.DelegatePool{Balance: currency.Coin(p.Bal), Reward: currency.Coin(p.Reward), DelegateID: id}
	}
	return mn
}

func obsNode(mn *minersc.MinerNode, n int) nodeObs {
	o := nodeObs{Reward: uint64(mn.StakePool.Reward)}
	for i := 0; i < n; i++ {
		if p := mn.StakePool.Pools[hexID(i+1)]; p != nil {
			o.Pools = append(o.Pools, uint64(p.Reward))
		} else {
			o.Pools = append(o.Pools, 0)
		}
	}
	return o
}

// prepare fills the block and magic block of a context the way the chain would.
func (in *feesIn) prepare(ctx *cstate.StateContext) {
	b := ctx.GetBlock()
	b.MinerID = in.hx(in.Generator)
	b.SetRoundRandomSeed(in.Seed)
	b.Txns = nil
	for i, f := range in.Fees {
		t := &transaction.Transaction{Fee: currency.Coin(f)}
		if i < len(in.Status) {
			t.Status = in.Status[i]
		}
		b.Txns = append(b.Txns, t)
	}
	mb := ctx.GetMagicBlock(in.Round)
	mb.Sharders = node.NewPool(node.NodeTypeSharder)
	for _, s := range in.Sharders {
		if s.InMB {
			n := node.Provider()
			n.ID = in.hx(s.ID)
			n.Type = node.NodeTypeSharder
			mb.Sharders.NodesMap[n.ID] = n
			mb.Sharders.Nodes = append(mb.Sharders.Nodes, n)
		}
	}
	if in.Demeter {
		if _, err := ctx.InsertTrieNode("hardfork:demeter", cstate.NewHardFork("demeter", 1)); err != nil {
			panic(err)
		}
	}
}

func (in *feesIn) readNodes(e *env) map[int]nodeObs {
	out := map[int]nodeObs{}
	e.view(func(ctx *cstate.StateContext) {
		for _, l := range [][]feeNode{in.Miners, in.Sharders} {
			for _, n := range l {
				mn := minersc.NewMinerNode()
				mn.ID = in.hx(n.ID)
				if err := ctx.GetTrieNode(mn.GetKey(), mn); err != nil {
					panic(err)
				}
				out[n.ID] = obsNode(mn, len(n.Pools))
			}
		}
	})
	return out
}

func runFees(in *feesIn) *feesRun {
	config.Configuration().ChainConfig = chain.NewConfigImpl(&chain.ConfigData{})
	e := newEnv()
	e.round = in.Round
	r := &feesRun{minerIdx: -1, accepted: true, nPay: 1}
	if in.Block != nil {
		r.accepted = in.validateBlock()
		r.nPay = 0
		for _, k := range in.Block.Kinds {
			if k == 'P' {
				r.nPay++
			}
		}
	}
	e.must(func(ctx *cstate.StateContext) error {
		gn := &minersc.GlobalNode{ViewChange: -1, MaxN: 10, MinN: 1, MaxS: 10, MinS: 1, MaxDelegates: 200, MaxStake: 1e15,
			RewardRate: math.Float64frombits(in.RateBits), ShareRatio: math.Float64frombits(in.ShareBits), BlockReward: currency.Coin(in.BlockReward),
			MaxCharge: 1, Epoch: 1 << 40, NumMinerDelegatesRewarded: in.NMD, NumShardersRewarded: in.NSR, NumSharderDelegatesRewarded: in.NSD,
			OwnerId: hexID(ownerIdx)}
		if _, err := ctx.InsertTrieNode(minersc.GlobalNodeKey, gn); err != nil {
			return err
		}
		var mids, sids minersc.NodeIDs
		for _, n := range in.Miners {
			mn := mkMinerNode(in, n, spenum.Miner)
			if _, err := ctx.InsertTrieNode(mn.GetKey(), mn); err != nil {
				return err
			}
			mids = append(mids, mn.ID)
		}
		for _, n := range in.Sharders {
			mn := mkMinerNode(in, n, spenum.Sharder)
			if _, err := ctx.InsertTrieNode(mn.GetKey(), mn); err != nil {
				return err
			}
			sids = append(sids, mn.ID)
		}
		if _, err := ctx.InsertTrieNode(minersc.AllMinersKey, &mids); err != nil {
			return err
		}
		_, err := ctx.InsertTrieNode(minersc.AllShardersKey, &sids)
		return err
	})
	r.pre = in.readNodes(e)
	// recorded choices
	e.scratch(func(ctx *cstate.StateContext) {
		in.prepare(ctx)
		if mn, err := minersc.VerifGetRewardedMiner(ctx.GetBlock(), ctx); err == nil && mn != nil {
			for i, n := range in.Miners {
				if in.hx(n.ID) == mn.ID {
					r.minerIdx = i
				}
			}
			func() {
				defer func() { _ = recover() }()
				for _, p := range mn.StakePool.VerifGetRandPools(ctx, in.Seed, in.NMD) {
					r.mdraws = append(r.mdraws, clientIdx(p.DelegateID)-1)
				}
			}()
		}
		// live sharders in list order that are in the magic block, shuffled with the block seed
		var mbIDs []int
		for i, s := range in.Sharders {
			if !s.Killed {
				r.live = true
				if s.InMB {
					mbIDs = append(mbIDs, i)
				}
			}
		}
		rand.New(rand.NewSource(in.Seed)).Shuffle(len(mbIDs), func(i, j int) { mbIDs[i], mbIDs[j] = mbIDs[j], mbIDs[i] })
		k := in.NSR
		if k > len(mbIDs) {
			k = len(mbIDs)
		}
		if k < 0 {
			k = 0
		}
		r.rewarded = mbIDs[:k]
		for _, si := range r.rewarded {
			mn := mkMinerNode(in, in.Sharders[si], spenum.Sharder)
			var d []int
			func() {
				defer func() { _ = recover() }()
				for _, p := range mn.StakePool.VerifGetRandPools(ctx, in.Seed, in.NSD) {
					d = append(d, clientIdx(p.DelegateID)-1)
				}
			}()
			r.sdraws = append(r.sdraws, d)
		}
	})
	pay := func(k int) txnRes {
		txn := sc.Txn(fmt.Sprintf("%064x", 0xfee000+k), in.hx(in.Client), minersc.ADDRESS, 0, 10)
		return e.exec(txn, func(ctx *cstate.StateContext) (string, error) {
			in.prepare(ctx)
			return e.msc.Execute(txn, "payFees", jsonOf(minersc.PayFeesInput{Round: in.InRound}), ctx)
		})
	}
	if in.Block != nil {
		// a rejected block is not executed; an accepted one executes every payFees it carries
		if r.accepted {
			for k := 0; k < r.nPay; k++ {
				res := pay(k)
				if k == 0 {
					switch {
					case res.Panic != "":
						r.outcome, r.err = 2, res.Panic
					case res.Err != nil:
						r.outcome, r.err = 1, res.Err.Error()
					}
				}
			}
		}
		r.post = in.readNodes(e)
		return r
	}
	res := pay(0)
	for _, t := range res.Transfers {
		if t.ToClientID == minersc.ADDRESS {
			r.walletIn += uint64(t.Amount)
		}
		if t.ClientID == minersc.ADDRESS {
			r.walletOut += uint64(t.Amount)
		}
	}
	switch {
	case res.Panic != "":
		r.outcome, r.err = 2, res.Panic
	case res.Err != nil:
		r.outcome, r.err = 1, res.Err.Error()
	}
	r.post = in.readNodes(e)
	if r.outcome == 0 {
		r.repeatRun = true
		r2 := pay(1)
		r.repeatOK = r2.Err == nil && r2.Panic == ""
	}
	return r
}

func (o nodeObs) total() *big.Int {
	t := bz(o.Reward)
	for _, p := range o.Pools {
		t.Add(t, bz(p))
	}
	return t
}

func eligible(n feeNode, draws []int, k int) bool {
	if n.Killed {
		return false
	}
	st := new(big.Int)
	for _, p := range n.Pools {
		st.Add(st, bz(p.Bal))
	}
	if st.Cmp(bz(n.MinStake)) < 0 {
		return false
	}
	if len(n.Pools) == 0 {
		return true
	}
	sel := new(big.Int)
	for _, i := range draws {
		if i >= 0 && i < len(n.Pools) {
			sel.Add(sel, bz(n.Pools[i].Bal))
		}
	}
	return sel.Sign() > 0
}

func oracleFees(in *feesIn, r *feesRun, kinds map[string]int) string {
	if !miner.VerifIsBuildInTxnName("payFees") {
		return "payfees-not-a-built-in-transaction" // the once-per-block rule of ValidateTransactions would not cover it
	}
	if in.Block != nil {
		kinds[fmt.Sprintf("block:%d-payFees:accepted=%v", r.nPay, r.accepted)]++
		if r.accepted && r.nPay >= 2 {
			return "block-with-duplicate-payfees-accepted" // once per round is enforced by ValidateTransactions only
		}
		if !r.accepted {
			if r.nPay <= 1 {
				return "valid-block-rejected"
			}
			return ""
		}
		if r.nPay == 0 {
			return ""
		}
	}
	if r.outcome == 2 {
		if r.live && len(r.rewarded) == 0 && in.Client == in.Generator && in.InRound == in.Round {
			return "no-rewarded-sharder-divides-by-zero"
		}
		return "panic"
	}
	if r.outcome == 1 {
		kinds["rejected"]++
		for id, o := range r.pre {
			if o.total().Cmp(r.post[id].total()) != 0 {
				return "failed-transaction-changed-state"
			}
		}
		return ""
	}
	kinds["accepted"]++
	if in.Client != in.Generator {
		return "accepted-from-non-generator"
	}
	if in.InRound != in.Round {
		return "accepted-for-another-round"
	}
	if r.repeatRun {
		if r.repeatOK {
			kinds["repeat-in-same-round-accepted-by-contract(F-22, guarded by block validation)"]++
		} else {
			kinds["repeat-rejected"]++
		}
	}
	fees := new(big.Int)
	for _, f := range in.Fees {
		fees.Add(fees, bz(f))
	}
	brc, err := currency.MultFloat64(currency.Coin(in.BlockReward), math.Float64frombits(in.RateBits))
	if err != nil {
		return "accepted-with-invalid-block-reward"
	}
	total := new(big.Int).Add(fees, bz(uint64(brc)))
	// who may change
	may := map[int]bool{}
	if r.minerIdx >= 0 {
		may[in.Miners[r.minerIdx].ID] = true
	}
	for _, si := range r.rewarded {
		may[in.Sharders[si].ID] = true
	}
	credited := new(big.Int)
	for id, o := range r.pre {
		d := new(big.Int).Sub(r.post[id].total(), o.total())
		if d.Sign() < 0 {
			return "reward-decreased"
		}
		if d.Sign() != 0 && !may[id] {
			return "unselected-node-credited"
		}
		credited.Add(credited, d)
	}
	if credited.Cmp(total) > 0 {
		return "credited-more-than-fees-plus-reward"
	}
	all := r.minerIdx >= 0 && r.live && len(r.rewarded) > 0 && eligible(in.Miners[max(r.minerIdx, 0)], r.mdraws, in.NMD)
	for k, si := range r.rewarded {
		all = all && eligible(in.Sharders[si], r.sdraws[k], in.NSD)
	}
	if all {
		kinds["accepted:everybody-eligible"]++
		if credited.Cmp(total) != 0 {
			return "miner-and-sharder-sides-do-not-add-up"
		}
		// sharder division: amounts differ by at most 2 (one per pass)
		var lo, hi *big.Int
		for _, si := range r.rewarded {
			id := in.Sharders[si].ID
			d := new(big.Int).Sub(r.post[id].total(), r.pre[id].total())
			if lo == nil || d.Cmp(lo) < 0 {
				lo = d
			}
			if hi == nil || d.Cmp(hi) > 0 {
				hi = d
			}
		}
		if new(big.Int).Sub(hi, lo).Cmp(big.NewInt(2)) > 0 {
			return "sharder-division-uneven"
		}
	}
	return ""
}

func coqFeeNode(n feeNode) string {
	ps := make([]string, len(n.Pools))
	for i, p := range n.Pools {
		ps[i] = vh.Pair(vh.ZU(p.Bal), vh.ZU(p.Reward))
	}
	return fmt.Sprintf("{| mfn_id := %d; mfn_dead := %s; mfn_minstake := %s; mfn_charge_bits := %s; mfn_reward := %s; mfn_pools := %s |}",
		n.ID, vh.Bool(n.Killed), vh.ZU(n.MinStake), vh.ZU(n.RatioBits), vh.ZU(n.Reward), vh.List(ps))
}

func coqObs(o nodeObs) string { return vh.Pair(vh.ZU(o.Reward), vh.ZUList(o.Pools)) }

func coqFees(in *feesIn, r *feesRun) string {
	mnode, mout := "None", "None"
	if r.minerIdx >= 0 {
		mnode = vh.Some(coqFeeNode(in.Miners[r.minerIdx]))
		mout = vh.Some(coqObs(r.post[in.Miners[r.minerIdx].ID]))
	}
	var sh, sout, sd []string
	for k, si := range r.rewarded {
		sh = append(sh, coqFeeNode(in.Sharders[si]))
		sout = append(sout, coqObs(r.post[in.Sharders[si].ID]))
		sd = append(sd, vh.NatList(r.sdraws[k]))
	}
	names, acc := "[1]", true
	if in.Block != nil {
		var ns []string
		for _, k := range in.Block.Kinds {
			if k == 'P' {
				ns = append(ns, "1")
			} else {
				ns = append(ns, "0")
			}
		}
		names, acc = vh.List(ns), r.accepted
	}
	return fmt.Sprintf("{| mfc_ratio_bits := %s; mfc_block_reward := %s; mfc_rate_bits := %s; mfc_nmd := %d; mfc_nsd := %d; "+
		"mfc_round := %d; mfc_generator := %d; mfc_fees := %s; mfc_client := %d; mfc_in_round := %s; mfc_block_names := "+names+"; mfc_block_accepted := "+vh.Bool(acc)+"; mfc_miner := %s; mfc_live := %s; "+
		"mfc_sharders := %s; mfc_mdraws := %s; mfc_sdraws := %s; mfc_out := %d; mfc_out_miner := %s; mfc_out_sharders := %s |}",
		vh.ZU(in.ShareBits), vh.ZU(in.BlockReward), vh.ZU(in.RateBits), in.NMD, in.NSD,
		in.Round, in.Generator, vh.ZUList(in.Fees), in.Client, vh.Z(in.InRound), mnode, vh.Bool(r.live),
		vh.List(sh), vh.NatList(r.mdraws), vh.List(sd), r.outcome, mout, vh.List(sout))
}

func genFeeNode(r *vh.Rand, id int) feeNode {
	n := feeNode{ID: id, InMB: !r.Chance(1, 8), Killed: r.Chance(1, 10)}
	ratio := []float64{0, 0.1, 0.5, 0.25, 0.3}[r.Intn(5)]
	if r.Chance(1, 4) {
		ratio = float64(r.U64()>>11) / float64(uint64(1)<<53) / 2
	}
	n.RatioBits = math.Float64bits(ratio)
	np := r.Range(0, 5)
	for i := 0; i < np; i++ {
		p := dpoolIn{Bal: uint64(r.Range(1, 100000))}
		switch r.Intn(8) {
		case 0:
			p.Bal = 0
		case 1:
			p.Bal = genRealistic(r)
		}
		if r.Chance(1, 3) {
			p.Reward = uint64(r.Intn(1000))
		}
		n.Pools = append(n.Pools, p)
	}
	if r.Chance(1, 8) {
		n.MinStake = uint64(r.Range(1, 200000))
	}
	if r.Chance(1, 4) {
		n.Reward = uint64(r.Intn(5000))
	}
	return n
}

func genFees(r *vh.Rand) *feesIn {
	in := &feesIn{Round: int64(r.Range(1, 100000)), Seed: int64(r.U64()), Demeter: r.Bool()}
	in.ShareBits = math.Float64bits([]float64{0, 1, 0.5, 0.16, 0.3, 0.999}[r.Intn(6)])
	if r.Chance(1, 3) {
		in.ShareBits = math.Float64bits(float64(r.U64()>>11) / float64(uint64(1)<<53))
	}
	in.BlockReward = []uint64{0, 1, 7, 680000000, 1e10, two53 - 1, two53 + 1}[r.Intn(7)]
	if r.Chance(1, 3) {
		in.BlockReward = uint64(r.Intn(1000000))
	}
	in.RateBits = math.Float64bits([]float64{1, 1, 0.5, 0.9, 0}[r.Intn(5)])
	in.NMD = []int{0, 1, 2, 10, 10}[r.Intn(5)]
	in.NSD = []int{0, 1, 2, 10, 10}[r.Intn(5)]
	in.NSR = []int{1, 1, 2, 3, 100}[r.Intn(5)]
	if r.Chance(1, 25) {
		in.NSR = 0
	}
	nf := r.Range(0, 5)
	for i := 0; i < nf; i++ {
		f := uint64(r.Intn(100000))
		if r.Chance(1, 10) {
			f = genRealistic(r)
		}
		if f == 0 && r.Bool() {
			f = uint64(r.Range(1, 5000))
		}
		in.Fees = append(in.Fees, f)
		in.Status = append(in.Status, []int{0, 1, 1, 2, 2, 3}[r.Intn(6)])
	}
	nm := r.Range(1, 3)
	for i := 0; i < nm; i++ {
		in.Miners = append(in.Miners, genFeeNode(r, 100+i))
	}
	ns := r.Range(0, 4)
	for i := 0; i < ns; i++ {
		in.Sharders = append(in.Sharders, genFeeNode(r, 200+i))
	}
	in.Generator = 100 + r.Intn(nm)
	if r.Chance(1, 12) {
		in.Generator = 150 // a generator that is not a registered miner
	}
	in.Client = in.Generator
	if r.Chance(1, 5) {
		in.Client = []int{100, 101, 200, 77, ownerIdx}[r.Intn(5)]
	}
	in.InRound = in.Round
	if r.Chance(1, 6) {
		in.InRound = in.Round + int64(r.Range(-2, 2))
	}
	return in
}

// genBlockFees: a whole block (1-2 payFees of the generator among ordinary sends) for block validation.
func genBlockFees(r *vh.Rand) *feesIn {
	in := genFees(r)
	in.Generator = in.Miners[r.Intn(len(in.Miners))].ID
	in.Client, in.InRound = in.Generator, in.Round
	batch := []int{1, 2, 2, 3, 5, 64}[r.Intn(6)]
	n := r.Range(2, 12)
	kinds := make([]byte, n)
	for i := range kinds {
		kinds[i] = 'S'
	}
	p1 := r.Intn(n)
	kinds[p1] = 'P'
	if r.Chance(3, 5) { // a second payFees: adjacent, same batch, another batch, first/last
		p2 := r.Intn(n)
		switch r.Intn(4) {
		case 0:
			p1, p2 = 0, n-1
			kinds = []byte(string(make([]byte, 0)))
			kinds = make([]byte, n)
			for i := range kinds {
				kinds[i] = 'S'
			}
			kinds[0] = 'P'
		case 1:
			p2 = (p1 + 1) % n
		}
		kinds[p2] = 'P'
	}
	in.Fees, in.Status = make([]uint64, n), nil
	for i := range kinds {
		if kinds[i] == 'S' {
			in.Fees[i] = uint64(r.Intn(100000))
		}
	}
	in.Block = &blockIn{Kinds: string(kinds), Batch: batch}
	return in
}

func fixedFees() []*feesIn {
	half, one := math.Float64bits(0.5), math.Float64bits(1)
	n := func(id int, pools ...dpoolIn) feeNode { return feeNode{ID: id, InMB: true, Pools: pools} }
	return []*feesIn{
		{ShareBits: half, BlockReward: 1000, RateBits: one, NMD: 10, NSR: 1, NSD: 10, Round: 7, Seed: 1, Generator: 100, Client: 100, InRound: 7,
			Fees: []uint64{15, 25}, Miners: []feeNode{n(100, dpoolIn{50, 0})}, Sharders: []feeNode{n(200, dpoolIn{60, 0})}},
		{ShareBits: half, BlockReward: 1000, RateBits: one, NMD: 10, NSR: 3, NSD: 1, Round: 7, Seed: 5, Generator: 100, Client: 100, InRound: 7,
			Fees: []uint64{15, 28}, Miners: []feeNode{n(100, dpoolIn{50, 0}, dpoolIn{70, 3})},
			Sharders: []feeNode{n(200, dpoolIn{60, 0}), n(201, dpoolIn{1, 0}, dpoolIn{2, 0}), n(202)}},
		{ShareBits: half, BlockReward: 1000, RateBits: one, NMD: 10, NSR: 1, NSD: 10, Round: 7, Seed: 1, Generator: 100, Client: 101, InRound: 7,
			Miners: []feeNode{n(100, dpoolIn{50, 0}), n(101, dpoolIn{50, 0})}},
		{ShareBits: half, BlockReward: 1000, RateBits: one, NMD: 10, NSR: 1, NSD: 10, Round: 7, Seed: 1, Generator: 100, Client: 100, InRound: 8,
			Miners: []feeNode{n(100, dpoolIn{50, 0})}},
		{ShareBits: half, BlockReward: 1000, RateBits: one, NMD: 10, NSR: 1, NSD: 10, Round: 7, Seed: 1, Generator: 100, Client: 100, InRound: 7,
			Fees: []uint64{15, 25, 40, 8}, Status: []int{1, 2, 3, 0}, Miners: []feeNode{n(100, dpoolIn{50, 0})}, Sharders: []feeNode{n(200, dpoolIn{60, 0})}},
		// block level: one payFees; two adjacent; two in different validation batches (first / last)
		{ShareBits: half, BlockReward: 1000, RateBits: one, NMD: 10, NSR: 1, NSD: 10, Round: 17, Seed: 4711, Generator: 100, Client: 100, InRound: 17,
			Fees: []uint64{37, 37, 37, 0}, Miners: []feeNode{n(100, dpoolIn{500, 0})}, Sharders: []feeNode{n(200, dpoolIn{500, 0})},
			Block: &blockIn{Kinds: "SSSP", Batch: 2}},
		{ShareBits: half, BlockReward: 1000, RateBits: one, NMD: 10, NSR: 1, NSD: 10, Round: 17, Seed: 4711, Generator: 100, Client: 100, InRound: 17,
			Fees: []uint64{37, 37, 0, 0}, Miners: []feeNode{n(100, dpoolIn{500, 0})}, Sharders: []feeNode{n(200, dpoolIn{500, 0})},
			Block: &blockIn{Kinds: "SSPP", Batch: 2}},
		{ShareBits: half, BlockReward: 1000, RateBits: one, NMD: 10, NSR: 1, NSD: 10, Round: 17, Seed: 4711, Generator: 100, Client: 100, InRound: 17,
			Fees: []uint64{0, 37, 37, 0}, Miners: []feeNode{n(100, dpoolIn{500, 0})}, Sharders: []feeNode{n(200, dpoolIn{500, 0})},
			Block: &blockIn{Kinds: "PSSP", Batch: 2}},
		{ShareBits: half, BlockReward: 1000, RateBits: one, NMD: 10, NSR: 1, NSD: 10, Round: 17, Seed: 4711, Generator: 100, Client: 100, InRound: 17,
			Fees: []uint64{0, 5, 5, 5, 5, 5, 5, 5, 0}, Miners: []feeNode{n(100, dpoolIn{500, 0})}, Sharders: []feeNode{n(200, dpoolIn{500, 0})},
			Block: &blockIn{Kinds: "PSSSSSSSP", Batch: 3}},
	}
}

func shrinkFees(in *feesIn, sig string) *feesIn {
	fails := func(c *feesIn) bool { return oracleFees(c, runFees(c), map[string]int{}) == sig }
	c := *in
	try := func(f func(d *feesIn)) {
		d := c
		d.Miners = append([]feeNode{}, c.Miners...)
		d.Sharders = append([]feeNode{}, c.Sharders...)
		d.Fees = append([]uint64{}, c.Fees...)
		f(&d)
		if fails(&d) {
			c = d
		}
	}
	if c.Block == nil {
		try(func(d *feesIn) { d.Fees, d.Status = nil, nil })
		for i := len(c.Fees) - 1; i >= 0; i-- {
			i := i
			try(func(d *feesIn) {
				d.Fees = append(d.Fees[:i], d.Fees[i+1:]...)
				if i < len(d.Status) {
					d.Status = append(append([]int{}, d.Status[:i]...), d.Status[i+1:]...)
				}
			})
		}
	} else {
		for i := len(c.Block.Kinds) - 1; i >= 0; i-- {
			i := i
			if c.Block.Kinds[i] == 'S' && len(c.Block.Kinds) > 2 {
				try(func(d *feesIn) {
					d.Block = &blockIn{Kinds: d.Block.Kinds[:i] + d.Block.Kinds[i+1:], Batch: d.Block.Batch}
					d.Fees = append(d.Fees[:i], d.Fees[i+1:]...)
				})
			}
		}
	}
	for i := len(c.Sharders) - 1; i >= 0; i-- {
		i := i
		try(func(d *feesIn) { d.Sharders = append(d.Sharders[:i], d.Sharders[i+1:]...) })
	}
	for i := range c.Miners {
		i := i
		try(func(d *feesIn) { d.Miners[i].Pools = nil })
	}
	for i := range c.Sharders {
		i := i
		try(func(d *feesIn) { d.Sharders[i].Pools = nil })
	}
	return &c
}

func runC22(o vh.Opts) {
	sc.Init()
	rep := vh.NewReport("stake", "C22", o)
	rep.Rule = "one case = one payFees transaction (followed by an identical repeat when it succeeded) through minersc.Execute on a real state: " +
		"1-3 miners, 0-4 sharders (some killed, some not in the magic block, 0-5 delegates each with zero / small / large stakes, min stake, " +
		"service charge 0-0.5), share ratio 0, 1, 0.16, ... or random, block reward 0 ... 2^53+1, reward rate 1/0.5/0.9/0, 0-5 block transactions with non-zero fees and every status (unset, success, chargeable error, fail), " +
		"rewarded sharders 0-100, rewarded delegates 0-10, both hard-fork variants; caller = generator or (1 in 5) somebody else, input round = block " +
		"round or (1 in 6) off by up to 2, generator sometimes not a registered miner; non-trivial = accepted and every involved node eligible; distinct by full input"
	rep.Note("block level: 60 (quick) blocks of 2-12 signed transactions with one or two payFees of the generator (adjacent, far apart, first/last) and validation batch sizes 1,2,3,5,64 go through the real miner.ValidateTransactions; accepted blocks are executed through the contract")
	rep.Note("F-22: the contract has no once-per-round guard; every accepted payment is repeated and the outcome counted; the oracle checks that payFees is in miner.gBuildInTxnsMap (ValidateTransactions rejects a block with two of them)")
	cf := &vh.CasesFile{Imports: []string{"Base.Corr", "Model.StakePool", "Model.MinerFees", "Corr.MinerFees"}, CaseType: "mfc_case", CheckFn: "mfc_check", Shard: 100}
	handle := func(in *feesIn) {
		r := runFees(in)
		kinds := map[string]int{}
		sig := oracleFees(in, r, kinds)
		for k, n := range kinds {
			rep.CountN(k, n)
		}
		rep.Count([]string{"out:ok", "out:error", "out:panic"}[r.outcome])
		rep.CountN("rewarded-sharders", len(r.rewarded))
		rep.Case(string(jsonOf(in)), kinds["accepted:everybody-eligible"] > 0, in)
		cf.Add(coqFees(in, r))
		rep.CaseInputs = append(rep.CaseInputs, in)
		if sig != "" {
			rep.Count("violation:" + sig)
			rep.Violate("C22:"+sig, "payFees: "+sig+" "+r.err, shrinkFees(in, sig))
		}
	}
	var rin feesIn
	if o.LoadReplay(&rin) {
		handle(&rin)
		finish(o, rep, cf, "C22")
		return
	}
	for _, in := range fixedFees() {
		handle(in)
	}
	rnd := vh.NewRand(o.Seed)
	for i := 0; i < o.N(260, 3600); i++ {
		handle(genFees(rnd))
	}
	for i := 0; i < o.N(60, 600); i++ {
		handle(genBlockFees(rnd))
	}
	finish(o, rep, cf, "C22")
}

var _ = block.Block{}

// ---------- C09 (liabilities never grow without backing): the miner contract's payouts ----------

// oracleC09 evaluates the C09 step inequality on one payFees transaction:
//   L' - L <= (W' - W) + minted,  L = unpaid rewards of every miner / sharder stake pool (provider + delegates;
//   payFees never touches a stake), W = balance of the contract address (moved only by queued transfers),
//   minted = the block's fees + block reward that the transaction newly accrues.
func oracleC09(in *feesIn, r *feesRun, kinds map[string]int) string {
	dL := new(big.Int)
	for id, o := range r.pre {
		dL.Add(dL, new(big.Int).Sub(r.post[id].total(), o.total()))
	}
	if r.outcome != 0 {
		kinds["rejected"]++
		if dL.Sign() != 0 {
			return "failed-payfees-changed-liabilities"
		}
		return ""
	}
	kinds["accepted"]++
	minted := new(big.Int)
	for _, f := range in.Fees {
		minted.Add(minted, bz(f))
	}
	brc, err := currency.MultFloat64(currency.Coin(in.BlockReward), math.Float64frombits(in.RateBits))
	if err != nil {
		return ""
	}
	minted.Add(minted, bz(uint64(brc)))
	backing := new(big.Int).Sub(bz(r.walletIn), bz(r.walletOut))
	backing.Add(backing, minted)
	if dL.Sign() > 0 {
		kinds["accepted:liabilities-grew"]++
	}
	if dL.Cmp(backing) > 0 {
		return "minersc-liability-without-backing"
	}
	return ""
}

func runC09(o vh.Opts) {
	sc.Init()
	rep := vh.NewReport("stake", "C09", o)
	rep.Rule = "miner contract part of C09: the payFees cases of the C22 engine (1-3 miners, 0-4 sharders, delegates, share ratio, block reward, " +
		"fees, rewarded sharders / delegates, foreign callers, wrong rounds) run through minersc.Execute on a real state; after every payFees " +
		"the oracle evaluates L' - L <= (W' - W) + fees + block reward with L = all unpaid stake-pool rewards of miners and sharders and W = the " +
		"transfers queued to/from the contract address; non-trivial = accepted and the liabilities grew; distinct by full input"
	rep.Note("the model/implementation correspondence of payFees is part of C22 (same engine, same cases); no Coq cases are emitted here")
	cf := &vh.CasesFile{Imports: []string{"Base.Corr"}, CaseType: "nat", CheckFn: "fun _ => true"}
	handle := func(in *feesIn) {
		r := runFees(in)
		kinds := map[string]int{}
		sig := oracleC09(in, r, kinds)
		for k, n := range kinds {
			rep.CountN(k, n)
		}
		rep.Case(string(jsonOf(in)), kinds["accepted:liabilities-grew"] > 0, in)
		if sig != "" {
			rep.Count("violation:" + sig)
			m := in
			// shrink with the same oracle
			fails := func(c *feesIn) bool { return oracleC09(c, runFees(c), map[string]int{}) == sig }
			c := *in
			try := func(f func(d *feesIn)) {
				d := c
				d.Miners = append([]feeNode{}, c.Miners...)
				d.Sharders = append([]feeNode{}, c.Sharders...)
				d.Fees = append([]uint64{}, c.Fees...)
				f(&d)
				if fails(&d) {
					c = d
				}
			}
			try(func(d *feesIn) { d.Fees, d.Status = nil, nil })
			for i := len(c.Sharders) - 1; i >= 0 && len(c.Sharders) > 2; i-- {
				i := i
				try(func(d *feesIn) { d.Sharders = append(d.Sharders[:i], d.Sharders[i+1:]...) })
			}
			for i := range c.Miners {
				i := i
				try(func(d *feesIn) { d.Miners[i].Pools = nil })
			}
			for i := range c.Sharders {
				i := i
				try(func(d *feesIn) { d.Sharders[i].Pools = nil })
			}
			m = &c
			rep.Violate("C09:"+sig, "payFees: "+sig, m)
		}
	}
	var rin feesIn
	if o.LoadReplay(&rin) {
		if len(rin.Miners) > 0 { // a replay of the storage engine's input is not ours
			handle(&rin)
		}
		finish(o, rep, cf, "C09")
		return
	}
	for _, in := range fixedFees() {
		if in.Block == nil {
			handle(in)
		}
	}
	rnd := vh.NewRand(o.Seed)
	for i := 0; i < o.N(200, 3000); i++ {
		handle(genFees(rnd))
	}
	finish(o, rep, cf, "C09")
}
