(* Correspondence for C10: one case = one call of DistributeRewards / DistributeRewardsRandN on
   the real stakepool package (real StateContext), with the observed outcome.  [spd_check]
   re-runs the model with the Go float computations and compares the outcome class and, on
   success, the provider reward and every delegate reward. *)
From ZC Require Import Base.Corr Model.StakePool.
Open Scope Z_scope.

Record spd_case := {
  spd_pools : list (Z * Z);          (* (balance, reward) in id order *)
  spd_reward : Z;
  spd_minstake : Z;
  spd_charge_bits : Z;               (* math.Float64bits(ServiceChargeRatio) *)
  spd_killed : bool;
  spd_value : Z;
  spd_randn : option (Z * list nat); (* None: DistributeRewards; Some (n, selected indices) *)
  spd_out : Z;                       (* 0 ok, 1 error, 2 panic *)
  spd_out_reward : Z;
  spd_out_pools : list Z             (* delegate rewards after the call *)
}.

Fixpoint spd_mk_pools (i : Z) (l : list (Z * Z)) : list sp_dpool :=
  match l with
  | [] => []
  | (b, r) :: tl => {| dp_id := i; dp_bal := b; dp_reward := r; dp_status := 0; dp_staked_at := 0 |}
                    :: spd_mk_pools (i + 1) tl
  end.

Definition spd_pool (c : spd_case) : sp_pool :=
  {| sp_pools := spd_mk_pools 1 (spd_pools c); sp_reward := spd_reward c;
     sp_set := {| ss_wallet := 0; ss_maxdel := 0; ss_minstake := spd_minstake c;
                  ss_charge := f64_of_bits (spd_charge_bits c) |};
     sp_killed := spd_killed c |}.

Definition spd_run (c : spd_case) : sp_res sp_pool :=
  match spd_randn c with
  | None => sp_distribute sp_chargef_go sp_sharef_go (spd_pool c) (spd_value c)
  | Some (n, draws) => sp_distribute_randn sp_chargef_go sp_sharef_go (spd_pool c) (spd_value c) n draws
  end.

Definition spd_check (c : spd_case) : bool :=
  match spd_run c with
  | SpOk sp' => (spd_out c =? 0) && (sp_reward sp' =? spd_out_reward c)
                && list_eqb Z.eqb (map dp_reward (sp_pools sp')) (spd_out_pools c)
  | SpErr => spd_out c =? 1
  | SpPanic => spd_out c =? 2
  end.
