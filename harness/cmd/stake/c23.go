package main

// C23: killing or shutting down a provider disables exactly that provider. Histories of kill /
// shutdown / reward transactions through storagesc.Execute (blobbers, validators) and
// minersc.Execute (miners, sharders) on a real state; the whole universe of stake pool keys
// (every provider type x every id that occurs, callers included) is inspected after each step.

import (
	"fmt"
	"math"
	"math/big"

	cstate "0chain.net/chaincore/chain/state"
	"0chain.net/core/config"
	"0chain.net/smartcontract/minersc"
	"0chain.net/smartcontract/provider"
	"0chain.net/smartcontract/stakepool"
	"0chain.net/smartcontract/stakepool/spenum"
	"0chain.net/smartcontract/storagesc"
	"github.com/0chain/common/core/currency"
	"verifharness/sc"
	"verifharness/vh"
)

type provIn struct {
	Kind      string    `json:"kind"` // blobber|validator|miner|sharder
	ID        int       `json:"id"`
	Wallet    int       `json:"wallet"`
	SavedData int64     `json:"saved_data"`
	Pools     []dpIn    `json:"pools"`
	Reward    uint64    `json:"reward"`
	RatioBits uint64    `json:"ratio_bits"`
	Killed    bool      `json:"killed,omitempty"`
	Shut      bool      `json:"shut,omitempty"`
}

type dpIn struct {
	Client int    `json:"client"`
	Bal    uint64 `json:"bal"`
	Reward uint64 `json:"reward"`
}

type pvOp struct {
	K      string `json:"k"` // kill|shutdown|reward
	Prov   int    `json:"prov"`
	Caller int    `json:"caller,omitempty"`
	Value  uint64 `json:"value,omitempty"`
}

type pvHist struct {
	SlashBits uint64   `json:"slash_bits"`
	Slash     string   `json:"slash"`
	Provs     []provIn `json:"provs"`
	Ops       []pvOp   `json:"ops"`
}

func kindType(k string) spenum.Provider {
	switch k {
	case "miner":
		return spenum.Miner
	case "sharder":
		return spenum.Sharder
	case "blobber":
		return spenum.Blobber
	}
	return spenum.Validator
}

type poolSnap struct {
	Exists bool
	Dead   bool
	Reward uint64
	Wallet int
	DPs    []dpIn
}

type provSnap struct {
	Exists       bool
	Type         int
	Killed, Shut bool
}

type snap struct {
	Pools map[[2]int]poolSnap // (type, id)
	Provs map[int]provSnap
}

func (a poolSnap) eq(b poolSnap) bool {
	if a.Exists != b.Exists || a.Dead != b.Dead || a.Reward != b.Reward || len(a.DPs) != len(b.DPs) {
		return false
	}
	for i := range a.DPs {
		if a.DPs[i] != b.DPs[i] {
			return false
		}
	}
	return true
}

func snapPool(sp *stakepool.StakePool) poolSnap {
	ps := poolSnap{Exists: true, Dead: sp.HasBeenKilled, Reward: uint64(sp.Reward), Wallet: clientIdx(sp.Settings.DelegateWallet)}
	for _, id := range sp.OrderedPoolIds() {
		p := sp.Pools[id]
		ps.DPs = append(ps.DPs, dpIn{clientIdx(id), uint64(p.Balance), uint64(p.Reward)})
	}
	return ps
}

func (h *pvHist) universe() []int {
	seen := map[int]bool{}
	var ids []int
	add := func(i int) {
		if !seen[i] {
			seen[i] = true
			ids = append(ids, i)
		}
	}
	for _, p := range h.Provs {
		add(p.ID)
		add(p.Wallet)
	}
	for _, o := range h.Ops {
		if o.K != "reward" {
			add(o.Caller)
		}
	}
	add(ownerIdx)
	return ids
}

func takeSnap(e *env, ids []int) snap {
	s := snap{Pools: map[[2]int]poolSnap{}, Provs: map[int]provSnap{}}
	e.view(func(ctx *cstate.StateContext) {
		for _, id := range ids {
			hid := hexID(id)
			for _, t := range []spenum.Provider{spenum.Blobber, spenum.Validator} {
				if sp, _, err := storagesc.VerifGetStakePool(t, hid, ctx); err == nil {
					s.Pools[[2]int{int(t), id}] = snapPool(sp)
				}
			}
			// provider record "provider:<id>": blobber, validator or miner/sharder node
			if k, sh, err := storagesc.VerifBlobberFlags(hid, ctx); err == nil {
				s.Provs[id] = provSnap{true, int(spenum.Blobber), k, sh}
				continue
			}
			v := &storagesc.ValidationNode{}
			if err := ctx.GetTrieNode(provider.GetKey(hid), v); err == nil && v.ProviderType == spenum.Validator {
				s.Provs[id] = provSnap{true, int(spenum.Validator), v.HasBeenKilled, v.HasBeenShutDown}
				continue
			}
			mn := minersc.NewMinerNode()
			mn.ID = hid
			if err := ctx.GetTrieNode(mn.GetKey(), mn); err == nil && (mn.ProviderType == spenum.Miner || mn.ProviderType == spenum.Sharder) {
				s.Provs[id] = provSnap{true, int(mn.ProviderType), mn.SimpleNode.HasBeenKilled, mn.SimpleNode.HasBeenShutDown}
				s.Pools[[2]int{int(mn.ProviderType), id}] = snapPool(mn.StakePool)
			}
		}
	})
	return s
}

func (h *pvHist) slash() float64 { return math.Float64frombits(h.SlashBits) }

func setupProviders(h *pvHist) *env {
	setupConfig(h.slash(), 0)
	config.SmartContractConfig.Set("smart_contracts.storagesc.min_stake", 0.0)
	config.SmartContractConfig.Set("smart_contracts.storagesc.max_stake", 20000.0)
	e := newEnv()
	e.must(func(ctx *cstate.StateContext) error {
		if err := storagesc.InitConfig(ctx); err != nil {
			return err
		}
		if err := storagesc.InitPartitions(ctx); err != nil {
			return err
		}
		gn := &minersc.GlobalNode{MinStake: 0, MaxStake: 1e15, MaxDelegates: 1000, OwnerId: hexID(ownerIdx), Epoch: 1000000,
			ShareRatio: 0.5, RewardRate: 1, MaxN: 10, MinN: 1, MaxS: 10, MinS: 1}
		_, err := ctx.InsertTrieNode(minersc.GlobalNodeKey, gn)
		return err
	})
	for _, p := range h.Provs {
		p := p
		e.must(func(ctx *cstate.StateContext) error {
			hid := hexID(p.ID)
			sp := stakepool.NewStakePool()
			sp.Settings = stakepool.Settings{DelegateWallet: hexID(p.Wallet), MaxNumDelegates: 100, ServiceChargeRatio: math.Float64frombits(p.RatioBits)}
			sp.Reward = currency.Coin(p.Reward)
			for _, d := range p.Pools {
				sp.Pools[hexID(d.Client)] = &stakepool.DelegatePool{Balance: currency.Coin(d.Bal), Reward: currency.Coin(d.Reward), DelegateID: hexID(d.Client)}
			}
			sp.HasBeenKilled = p.Killed || p.Shut
			switch p.Kind {
			case "blobber":
				sp.Minter = cstate.MinterStorage
				b := storagesc.VerifNewBlobberNode(hid, p.SavedData, sp.Settings, 1)
				if p.Killed {
					b.Kill()
				}
				if p.Shut {
					b.ShutDown()
				}
				if _, err := ctx.InsertTrieNode(b.GetKey(), b); err != nil {
					return err
				}
				return storagesc.VerifPutStakePool(spenum.Blobber, hid, sp, 0, ctx)
			case "validator":
				sp.Minter = cstate.MinterStorage
				v := &storagesc.ValidationNode{Provider: provider.Provider{ID: hid, ProviderType: spenum.Validator, HasBeenKilled: p.Killed, HasBeenShutDown: p.Shut}}
				if _, err := ctx.InsertTrieNode(v.GetKey(), v); err != nil {
					return err
				}
				return storagesc.VerifPutStakePool(spenum.Validator, hid, sp, 0, ctx)
			default:
				sp.Minter = cstate.MinterMiner
				mn := minersc.NewMinerNode()
				mn.ID = hid
				mn.ProviderType = kindType(p.Kind)
				mn.NodeType = minersc.NodeTypeMiner
				if p.Kind == "sharder" {
					mn.NodeType = minersc.NodeTypeSharder
				}
				mn.SimpleNode.HasBeenKilled = p.Killed
				mn.StakePool = sp
				sp.HasBeenKilled = p.Killed
				_, err := ctx.InsertTrieNode(mn.GetKey(), mn)
				return err
			}
		})
	}
	return e
}

type pvRun struct {
	snaps []snap // before each op, plus the final one
	oks   []bool
	ids   []int
}

func runPV(h *pvHist) *pvRun {
	e := setupProviders(h)
	r := &pvRun{ids: h.universe()}
	for i, op := range h.Ops {
		r.snaps = append(r.snaps, takeSnap(e, r.ids))
		p := h.Provs[op.Prov]
		hid := hexID(p.ID)
		var res txnRes
		switch op.K {
		case "reward":
			txn := sc.Txn(fmt.Sprintf("%064x", 0xdef000+i), hexID(ownerIdx), storagesc.ADDRESS, 0, 10)
			res = e.exec(txn, func(ctx *cstate.StateContext) (string, error) {
				t := kindType(p.Kind)
				switch p.Kind {
				case "blobber", "validator":
					sp, off, err := storagesc.VerifGetStakePool(t, hid, ctx)
					if err != nil {
						return "", err
					}
					if err := sp.DistributeRewards(currency.Coin(op.Value), hid, t, spenum.BlockRewardBlobber, ctx); err != nil {
						return "", err
					}
					return "", storagesc.VerifPutStakePool(t, hid, sp, off, ctx)
				}
				mn := minersc.NewMinerNode()
				mn.ID = hid
				if err := ctx.GetTrieNode(mn.GetKey(), mn); err != nil {
					return "", err
				}
				if err := mn.StakePool.DistributeRewards(currency.Coin(op.Value), hid, t, spenum.BlockRewardMiner, ctx); err != nil {
					return "", err
				}
				_, err := ctx.InsertTrieNode(mn.GetKey(), mn)
				return "", err
			})
		default:
			fn := op.K + "_" + p.Kind // kill_blobber, shutdown_validator, kill_miner ...
			input := (&provider.ProviderRequest{ID: hid}).Encode()
			if p.Kind == "miner" || p.Kind == "sharder" {
				txn := sc.Txn(fmt.Sprintf("%064x", 0xdef000+i), hexID(op.Caller), minersc.ADDRESS, 0, 10)
				res = e.exec(txn, func(ctx *cstate.StateContext) (string, error) { return e.msc.Execute(txn, fn, input, ctx) })
			} else {
				txn := sc.Txn(fmt.Sprintf("%064x", 0xdef000+i), hexID(op.Caller), storagesc.ADDRESS, 0, 10)
				res = e.exec(txn, func(ctx *cstate.StateContext) (string, error) { return e.ssc.Execute(txn, fn, input, ctx) })
			}
		}
		r.oks = append(r.oks, res.Err == nil && res.Panic == "")
	}
	r.snaps = append(r.snaps, takeSnap(e, r.ids))
	return r
}

func snapsEqualExcept(a, b snap, exceptKeys map[[2]int]bool, exceptProv int) bool {
	keys := map[[2]int]bool{}
	for k := range a.Pools {
		keys[k] = true
	}
	for k := range b.Pools {
		keys[k] = true
	}
	for k := range keys {
		if exceptKeys[k] {
			continue
		}
		if !a.Pools[k].eq(b.Pools[k]) {
			return false
		}
	}
	ids := map[int]bool{}
	for k := range a.Provs {
		ids[k] = true
	}
	for k := range b.Provs {
		ids[k] = true
	}
	for k := range ids {
		if k == exceptProv {
			continue
		}
		if a.Provs[k] != b.Provs[k] {
			return false
		}
	}
	return true
}

// oraclePV evaluates the C23 statement step by step; returns the first failure.
func oraclePV(h *pvHist, r *pvRun, kinds map[string]int) string {
	f := h.slash()
	for i, op := range h.Ops {
		pre, post, ok := r.snaps[i], r.snaps[i+1], r.oks[i]
		p := h.Provs[op.Prov]
		t := int(kindType(p.Kind))
		key := [2]int{t, p.ID}
		prov := pre.Provs[p.ID]
		own := pre.Pools[key]
		dead := prov.Killed || prov.Shut
		if !ok {
			kinds[op.K+"-rejected"]++
			if !snapsEqualExcept(pre, post, nil, -1) {
				return "failed-transaction-changed-state"
			}
			continue
		}
		if op.K == "reward" {
			kinds["reward-ok"]++
			if dead || own.Dead {
				kinds["reward-to-dead"]++
				if !snapsEqualExcept(pre, post, nil, -1) {
					return "dead-provider-rewarded"
				}
			} else if !snapsEqualExcept(pre, post, map[[2]int]bool{key: true}, -1) {
				return "reward-changed-other-record"
			}
			continue
		}
		authorised := op.Caller == ownerIdx || (op.K == "shutdown" && own.Exists && op.Caller == own.Wallet)
		if !authorised {
			kinds[op.K+"-unauthorised-accepted"]++
			if !snapsEqualExcept(pre, post, nil, -1) {
				return "unauthorised-changed-state"
			}
			continue
		}
		if !prov.Exists || dead {
			kinds[op.K+"-on-dead-or-absent"]++
			if !snapsEqualExcept(pre, post, nil, -1) {
				return "dead-provider-changed-again"
			}
			continue
		}
		kinds[op.K+"-ok:"+p.Kind]++
		// F-23 trigger: shutdown by a caller whose id is not the provider's id writes the pool under the caller's id
		if op.K == "shutdown" && op.Caller != p.ID {
			ck := [2]int{t, op.Caller}
			if !post.Pools[ck].eq(pre.Pools[ck]) {
				return "shutdown-pool-saved-under-caller-id"
			}
		}
		ownPost := post.Pools[key]
		provPost := post.Provs[p.ID]
		if !snapsEqualExcept(pre, post, map[[2]int]bool{key: true}, p.ID) {
			return "other-record-changed"
		}
		if ownPost.Exists != provPost.Exists {
			return "provider-and-pool-not-removed-together"
		}
		if !ownPost.Exists {
			empty := len(own.DPs) == 0 && (p.Kind != "blobber" || p.SavedData <= 0)
			if !empty {
				return "non-empty-provider-deleted"
			}
			kinds[op.K+"-deleted-empty"]++
			continue
		}
		if !ownPost.Dead {
			return "own-pool-not-dead"
		}
		if op.K == "kill" && !provPost.Killed || op.K == "shutdown" && !provPost.Shut {
			return "provider-not-marked"
		}
		frac := f
		if op.K == "shutdown" {
			frac = f / 2
		}
		if p.Kind == "miner" || p.Kind == "sharder" {
			frac = 0
		}
		if len(ownPost.DPs) != len(own.DPs) || ownPost.Reward != own.Reward {
			return "pool-set-or-reward-changed"
		}
		for k := range own.DPs {
			b, a := own.DPs[k], ownPost.DPs[k]
			if a.Client != b.Client || a.Reward != b.Reward {
				return "pool-set-or-reward-changed"
			}
			// |after - before*(1-frac)| <= 1 + before*2^-50, in exact rationals
			want := new(big.Rat).Mul(new(big.Rat).SetInt(bz(b.Bal)), new(big.Rat).Sub(big.NewRat(1, 1), new(big.Rat).SetFloat64(frac)))
			diff := new(big.Rat).Sub(new(big.Rat).SetInt(bz(a.Bal)), want)
			tol := new(big.Rat).Add(big.NewRat(1, 1), new(big.Rat).Quo(new(big.Rat).SetInt(bz(b.Bal)), new(big.Rat).SetInt(new(big.Int).Lsh(big.NewInt(1), 50))))
			if diff.Abs(diff).Cmp(tol) > 0 {
				return "slash-amount-wrong"
			}
		}
	}
	return ""
}

func coqPoolOf(t, id int, ps poolSnap, ratioBits uint64) string {
	dps := make([]string, len(ps.DPs))
	for i, d := range ps.DPs {
		dps[i] = fmt.Sprintf("(%d, %s, %s)", d.Client, vh.ZU(d.Bal), vh.ZU(d.Reward))
	}
	return fmt.Sprintf("{| pvc_t := %d; pvc_id := %d; pvc_wallet := %d; pvc_charge_bits := %s; pvc_reward := %s; pvc_dead := %s; pvc_dps := %s |}",
		t, id, ps.Wallet, vh.ZU(ratioBits), vh.ZU(ps.Reward), vh.Bool(ps.Dead), vh.List(dps))
}

func coqPV(h *pvHist, r *pvRun) string {
	init := r.snaps[0]
	var provs, pools []string
	for _, p := range h.Provs {
		t := int(kindType(p.Kind))
		pr := init.Provs[p.ID]
		provs = append(provs, fmt.Sprintf("(%d, (%d, %s, %s, %s))", p.ID, t, vh.Bool(pr.Killed), vh.Bool(pr.Shut), vh.Z(p.SavedData)))
		pools = append(pools, coqPoolOf(t, p.ID, init.Pools[[2]int{t, p.ID}], p.RatioBits))
	}
	ops := make([]string, len(h.Ops))
	for i, op := range h.Ops {
		p := h.Provs[op.Prov]
		t := int(kindType(p.Kind))
		switch {
		case op.K == "reward":
			ops[i] = fmt.Sprintf("PReward %d %d %s", t, p.ID, vh.ZU(op.Value))
		case p.Kind == "miner" || p.Kind == "sharder":
			ops[i] = fmt.Sprintf("PKillNode %d %d %d", t, p.ID, op.Caller)
		case op.K == "kill":
			ops[i] = fmt.Sprintf("PKill %d %d %d", t, p.ID, op.Caller)
		default:
			ops[i] = fmt.Sprintf("PShutdown %d %d %d", t, p.ID, op.Caller)
		}
	}
	outs := make([]string, len(r.oks))
	for i, b := range r.oks {
		outs[i] = vh.Bool(b)
	}
	fin := r.snaps[len(r.snaps)-1]
	var uni, finPools, ids, finProvs []string
	for _, id := range r.ids {
		for t := 1; t <= 4; t++ {
			uni = append(uni, fmt.Sprintf("(%d, %d)", t, id))
			ps := fin.Pools[[2]int{t, id}]
			if !ps.Exists {
				finPools = append(finPools, "None")
				continue
			}
			dps := make([]string, len(ps.DPs))
			for i, d := range ps.DPs {
				dps[i] = fmt.Sprintf("(%d, %s, %s)", d.Client, vh.ZU(d.Bal), vh.ZU(d.Reward))
			}
			finPools = append(finPools, fmt.Sprintf("(Some (%s, %s, %s))", vh.Bool(ps.Dead), vh.ZU(ps.Reward), vh.List(dps)))
		}
		ids = append(ids, fmt.Sprint(id))
		pr := fin.Provs[id]
		if !pr.Exists {
			finProvs = append(finProvs, "None")
		} else {
			finProvs = append(finProvs, fmt.Sprintf("(Some (%d, %s, %s))", pr.Type, vh.Bool(pr.Killed), vh.Bool(pr.Shut)))
		}
	}
	return fmt.Sprintf("{| pvc_owner := %d; pvc_slash_bits := %s; pvc_provs := %s; pvc_pools := %s; pvc_ops := %s; pvc_outs := %s; "+
		"pvc_universe := %s; pvc_ids := %s; pvc_final_pools := %s; pvc_final_provs := %s |}",
		ownerIdx, vh.ZU(h.SlashBits), vh.List(provs), vh.List(pools), vh.List(ops), vh.List(outs),
		vh.List(uni), vh.List(ids), vh.List(finPools), vh.List(finProvs))
}

var pvKinds = []string{"blobber", "validator", "miner", "sharder", "blobber", "validator"}

func genPV(r *vh.Rand) *pvHist {
	h := &pvHist{}
	sl := []float64{0, 1, 0.5, 0.1, 0.25, 0.3, 0.999}[r.Intn(7)]
	if r.Chance(1, 3) {
		sl = float64(r.U64()>>11) / float64(uint64(1)<<53)
	}
	h.SlashBits = math.Float64bits(sl)
	np := r.Range(1, 4)
	for i := 0; i < np; i++ {
		p := provIn{Kind: pvKinds[r.Intn(len(pvKinds))], ID: 10 + i, Wallet: 20 + i, RatioBits: math.Float64bits(genRatio(r, false))}
		if r.Chance(1, 4) {
			p.Wallet = p.ID // a provider that uses its own wallet as delegate wallet
		}
		if r.Chance(1, 6) && i > 0 {
			p.Wallet = 20 // shared delegate wallet
		}
		if p.Kind == "blobber" {
			p.SavedData = []int64{0, 5, 0, 1 << 30}[r.Intn(4)]
		}
		nd := r.Range(0, 3)
		for d := 0; d < nd; d++ {
			dp := dpIn{Client: 30 + d, Bal: uint64(r.Range(0, 100000))}
			switch r.Intn(8) {
			case 0:
				dp.Bal = genCoin(r)
			case 1:
				dp.Bal = genRealistic(r)
			}
			if r.Chance(1, 3) {
				dp.Reward = uint64(r.Intn(500))
			}
			p.Pools = append(p.Pools, dp)
		}
		if r.Chance(1, 4) {
			p.Reward = uint64(r.Intn(900))
		}
		if r.Chance(1, 10) {
			p.Killed = true
		} else if r.Chance(1, 10) && (p.Kind == "blobber" || p.Kind == "validator") {
			p.Shut = true
		}
		h.Provs = append(h.Provs, p)
	}
	n := r.Range(1, 8)
	for i := 0; i < n; i++ {
		pi := r.Intn(np)
		p := h.Provs[pi]
		callers := []int{ownerIdx, ownerIdx, p.Wallet, p.Wallet, p.ID, 30, 77, h.Provs[r.Intn(np)].Wallet, h.Provs[r.Intn(np)].ID}
		c := callers[r.Intn(len(callers))]
		switch x := r.Intn(10); {
		case x < 4:
			h.Ops = append(h.Ops, pvOp{K: "kill", Prov: pi, Caller: c})
		case x < 8 && (p.Kind == "blobber" || p.Kind == "validator"):
			h.Ops = append(h.Ops, pvOp{K: "shutdown", Prov: pi, Caller: c})
		default:
			h.Ops = append(h.Ops, pvOp{K: "reward", Prov: pi, Value: uint64(r.Range(0, 100000))})
		}
	}
	return h
}

func fixedPV() []*pvHist {
	half := math.Float64bits(0.5)
	mk := func(kind string, wallet int, ops ...pvOp) *pvHist {
		return &pvHist{SlashBits: half, Provs: []provIn{
			{Kind: kind, ID: 10, Wallet: wallet, SavedData: 5, Pools: []dpIn{{30, 1000, 7}, {31, 301, 0}}, RatioBits: math.Float64bits(0.1)},
			{Kind: "validator", ID: 11, Wallet: 21, Pools: []dpIn{{30, 50, 0}}, RatioBits: 0}}, Ops: ops}
	}
	return []*pvHist{
		mk("blobber", 20, pvOp{K: "kill", Caller: 20}, pvOp{K: "kill", Caller: ownerIdx}, pvOp{K: "reward", Value: 1000}, pvOp{K: "kill", Caller: ownerIdx}, pvOp{K: "shutdown", Caller: ownerIdx}),
		mk("blobber", 20, pvOp{K: "shutdown", Caller: 77}, pvOp{K: "shutdown", Caller: 20}, pvOp{K: "reward", Value: 1000}), // F-23
		mk("blobber", 20, pvOp{K: "shutdown", Caller: ownerIdx}),                                                            // F-23
		mk("blobber", 10, pvOp{K: "shutdown", Caller: 10}, pvOp{K: "reward", Value: 1000}, pvOp{K: "shutdown", Caller: 10}),
		mk("validator", 10, pvOp{K: "shutdown", Caller: 10}, pvOp{K: "kill", Caller: ownerIdx}),
		mk("validator", 20, pvOp{K: "kill", Caller: ownerIdx}, pvOp{K: "kill", Prov: 1, Caller: 21}, pvOp{K: "reward", Value: 77}),
		mk("miner", 20, pvOp{K: "kill", Caller: 20}, pvOp{K: "kill", Caller: ownerIdx}, pvOp{K: "reward", Value: 500}, pvOp{K: "kill", Caller: ownerIdx}),
		mk("sharder", 20, pvOp{K: "kill", Caller: ownerIdx}),
	}
}

func shrinkPV(h *pvHist, sig string) *pvHist {
	fails := func(c *pvHist) bool { return oraclePV(c, runPV(c), map[string]int{}) == sig }
	keep := vh.ShrinkIdx(len(h.Ops), func(keep []int) bool {
		c := *h
		c.Ops = nil
		for _, i := range keep {
			c.Ops = append(c.Ops, h.Ops[i])
		}
		return fails(&c)
	})
	c := *h
	c.Ops = nil
	for _, i := range keep {
		c.Ops = append(c.Ops, h.Ops[i])
	}
	// drop providers that no remaining op refers to
	used := map[int]bool{}
	for _, o := range c.Ops {
		used[o.Prov] = true
	}
	var provs []provIn
	remap := map[int]int{}
	for i, p := range c.Provs {
		if used[i] {
			remap[i] = len(provs)
			provs = append(provs, p)
		}
	}
	d := c
	d.Provs = provs
	d.Ops = nil
	for _, o := range c.Ops {
		o.Prov = remap[o.Prov]
		d.Ops = append(d.Ops, o)
	}
	if fails(&d) {
		c = d
	}
	for i := range c.Provs {
		e := c
		e.Provs = append([]provIn{}, c.Provs...)
		if len(e.Provs[i].Pools) > 1 {
			e.Provs[i].Pools = e.Provs[i].Pools[:1]
			if fails(&e) {
				c = e
			}
		}
	}
	c.Slash = fmt.Sprint(c.slash())
	return &c
}

func runC23(o vh.Opts) {
	sc.Init()
	rep := vh.NewReport("stake", "C23", o)
	rep.Rule = "one case = 1-4 providers (blobber, validator, miner, sharder; own or separate or shared delegate wallet; 0-3 delegates; " +
		"some already killed / shut down; blobbers with and without saved data) and a history of 1-8 kill / shutdown / reward transactions " +
		"through storagesc.Execute / minersc.Execute by the owner, the delegate wallet, the provider itself, a delegate, a stranger or another " +
		"provider's wallet; kill_slash 0, 1, 0.5, ... or random in [0,1]; after every step every stake pool key of (4 types x all ids that occur, " +
		"callers included) and every provider record is inspected; non-trivial = at least one authorised kill/shutdown of a live provider " +
		"succeeded and at least one transaction was rejected; distinct by full input"
	rep.Note("first failing step per history is reported (later steps run on a state already outside the property)")
	cf := &vh.CasesFile{Imports: []string{"Base.Corr", "Model.StakePool", "Model.Provider", "Corr.Provider"}, CaseType: "pvc_case", CheckFn: "pvc_check", Shard: 100}
	handle := func(h *pvHist) {
		h.Slash = fmt.Sprint(h.slash())
		r := runPV(h)
		kinds := map[string]int{}
		sig := oraclePV(h, r, kinds)
		okDone, rejected := 0, 0
		for k, n := range kinds {
			rep.CountN(k, n)
			if len(k) > 7 && (k[:8] == "kill-ok:" || (len(k) > 11 && k[:12] == "shutdown-ok:")) {
				okDone += n
			}
			if len(k) > 9 && k[len(k)-9:] == "-rejected" {
				rejected += n
			}
		}
		rep.Case(string(jsonOf(h)), okDone > 0 && rejected > 0, h)
		cf.Add(coqPV(h, r))
		rep.CaseInputs = append(rep.CaseInputs, h)
		if sig != "" {
			rep.Count("violation:" + sig)
			rep.Violate("C23:"+sig, "kill / shutdown: "+sig, shrinkPV(h, sig))
		}
	}
	var rh pvHist
	if o.LoadReplay(&rh) {
		handle(&rh)
		finish(o, rep, cf, "C23")
		return
	}
	for _, h := range fixedPV() {
		handle(h)
	}
	rnd := vh.NewRand(o.Seed)
	for i := 0; i < o.N(250, 3000); i++ {
		handle(genPV(rnd))
	}
	finish(o, rep, cf, "C23")
}
