(* C23: Killing or shutting down a provider disables exactly that provider.
   Model: Model/Provider.v (provider.Kill / provider.ShutDown as used by storagesc for blobbers
   and validators, minersc kill for miners and sharders) over Model/StakePool.v. Only statements. *)
From ZC Require Import Model.StakePool Model.Provider Proof.StakePool Proof.Provider.
Open Scope Z_scope.

(* ---- shutdown ---- *)

(* after a successful shutdown of a live provider (by the owner or its delegate wallet) its own
   stake pool is dead and slashed once by kill_slash/2 (or deleted with the empty provider), and
   no other stake pool key or provider record is created or altered *)
Theorem C23_shutdown_touches_only_that_provider :
  forall owner slash t id caller st st' p sp,
    pv_provs st id = Some p -> pv_pools st t id = Some sp -> pv_killed p || pv_shut p = false ->
    pv_shutdown owner slash t id caller st = Some st' ->
    (match pv_pools st' t id with Some sp1 => sp_killed sp1 = true | None => True end) /\
    (forall t' id', (t', id') <> (t, id) -> pv_pools st' t' id' = pv_pools st t' id') /\
    (forall id', id' <> id -> pv_provs st' id' = pv_provs st id') /\
    (exists sp', sp_kill sp (f64_div slash (f64_of_Z 2)) = Some sp' /\
       (pv_pools st' t id = Some sp' \/ (pv_deletable t p sp' = true /\ pv_pools st' t id = None /\ pv_provs st' id = None))).
Proof. exact pv_shutdown_statement. Qed.
Print Assumptions C23_shutdown_touches_only_that_provider.

Theorem C23_shutdown_exact :
  forall owner slash t id caller st st',
  pv_shutdown owner slash t id caller st = Some st' ->
  exists p sp, pv_provs st id = Some p /\ pv_type p = t /\ pv_pools st t id = Some sp /\
    ((pv_killed p || pv_shut p = true /\ st' = st) \/
     (pv_killed p || pv_shut p = false /\ (caller = owner \/ caller = ss_wallet (sp_set sp)) /\
      exists sp', sp_kill sp (f64_div slash (f64_of_Z 2)) = Some sp' /\
        (forall t' id', (t', id') <> (t, id) -> pv_pools st' t' id' = pv_pools st t' id') /\
        (forall id', id' <> id -> pv_provs st' id' = pv_provs st id') /\
        ((pv_deletable t p sp' = false /\ pv_pools st' t id = Some sp' /\ pv_provs st' id = Some (pv_mark_shut p)) \/
         (pv_deletable t p sp' = true /\ pv_pools st' t id = None /\ pv_provs st' id = None)))).
Proof. exact pv_shutdown_exact. Qed.
Print Assumptions C23_shutdown_exact.

(* ---- kill (full) ---- *)

(* only the contract owner kills; anybody else gets an error (state unchanged) *)
Theorem C23_kill_only_owner :
  forall owner slash t id caller st, caller <> owner ->
  pv_kill owner slash t id caller st = None /\ pv_kill_node owner t id caller st = None.
Proof. exact pv_kill_only_owner. Qed.
Print Assumptions C23_kill_only_owner.

(* a successful kill of a blobber / validator: that provider is marked killed, its own pool is
   sp_kill of itself (dead + slashed), or both records are deleted when it is empty; every other
   stake pool key and provider record is untouched, none is created *)
Theorem C23_kill_exact :
  forall owner slash t id caller st st',
  pv_kill owner slash t id caller st = Some st' ->
  exists p sp, pv_provs st id = Some p /\ pv_type p = t /\ pv_pools st t id = Some sp /\ caller = owner /\
    ((pv_killed p || pv_shut p = true /\ st' = st) \/
     (pv_killed p || pv_shut p = false /\ exists sp', sp_kill sp slash = Some sp' /\
        (forall t' id', (t', id') <> (t, id) -> pv_pools st' t' id' = pv_pools st t' id') /\
        (forall id', id' <> id -> pv_provs st' id' = pv_provs st id') /\
        ((pv_deletable t p sp' = false /\ pv_pools st' t id = Some sp' /\ pv_provs st' id = Some (pv_mark_killed p)) \/
         (pv_deletable t p sp' = true /\ pv_pools st' t id = None /\ pv_provs st' id = None)))).
Proof. exact pv_kill_exact. Qed.
Print Assumptions C23_kill_exact.

(* kill of a miner / sharder (minersc): flags on the node and its embedded pool, no slashing *)
Theorem C23_kill_node_exact :
  forall owner t id caller st st',
  pv_kill_node owner t id caller st = Some st' ->
  exists p sp, pv_provs st id = Some p /\ pv_type p = t /\ pv_pools st t id = Some sp /\ caller = owner /\
    pv_pools st' t id = Some (sp_set_killed sp) /\ pv_provs st' id = Some (pv_mark_killed p) /\
    (forall t' id', (t', id') <> (t, id) -> pv_pools st' t' id' = pv_pools st t' id') /\
    (forall id', id' <> id -> pv_provs st' id' = pv_provs st id').
Proof. exact pv_kill_node_exact. Qed.
Print Assumptions C23_kill_node_exact.

(* the kill marks the pool dead and replaces every balance by MultFloat64(balance, 1 - slash) *)
Theorem C23_kill_marks_dead_and_slashes :
  forall sp f sp', sp_kill sp f = Some sp' ->
  sp_killed sp' = true /\ sp_set sp' = sp_set sp /\ sp_reward sp' = sp_reward sp /\
  length (sp_pools sp') = length (sp_pools sp) /\
  map dp_id (sp_pools sp') = map dp_id (sp_pools sp) /\ map dp_reward (sp_pools sp') = map dp_reward (sp_pools sp).
Proof. exact sp_kill_props. Qed.
Print Assumptions C23_kill_marks_dead_and_slashes.

Theorem C23_slashed_by_configured_fraction :
  forall sp f sp', sp_kill sp f = Some sp' -> f64_eqb f f64_zero = false ->
  Forall2 (fun p p' => f64_mult_coin (dp_bal p) (pv_reduction f) = Some (dp_bal p')) (sp_pools sp) (sp_pools sp').
Proof. exact sp_kill_slashes_exactly. Qed.
Print Assumptions C23_slashed_by_configured_fraction.

(* exactly once: kill / shutdown of a provider that is already killed or shut down changes nothing *)
Theorem C23_slashed_once :
  forall owner slash t id caller st p,
  pv_provs st id = Some p -> pv_killed p || pv_shut p = true ->
  (pv_kill owner slash t id caller st = Some st \/ pv_kill owner slash t id caller st = None) /\
  (pv_shutdown owner slash t id caller st = Some st \/ pv_shutdown owner slash t id caller st = None).
Proof. exact pv_dead_not_slashed_again. Qed.
Print Assumptions C23_slashed_once.

(* unauthorised shutdown changes nothing *)
Theorem C23_shutdown_only_owner_or_delegate :
  forall owner slash t id caller st p sp,
  pv_provs st id = Some p -> pv_pools st t id = Some sp -> pv_killed p || pv_shut p = false ->
  caller <> owner -> caller <> ss_wallet (sp_set sp) ->
  pv_shutdown owner slash t id caller st = None.
Proof. exact pv_shutdown_only_owner_or_delegate. Qed.
Print Assumptions C23_shutdown_only_owner_or_delegate.

(* a dead stake pool receives no further rewards (both distribution variants, any floats) *)
Theorem C23_dead_gets_no_reward :
  forall chargef sharef sp v n draws, sp_killed sp = true ->
  (sp_distribute chargef sharef sp v = SpOk sp \/ sp_distribute chargef sharef sp v = SpErr) /\
  (sp_distribute_randn chargef sharef sp v n draws = SpOk sp \/ sp_distribute_randn chargef sharef sp v n draws = SpErr).
Proof. exact sp_dead_gets_no_reward. Qed.
Print Assumptions C23_dead_gets_no_reward.

(* Non-vacuity: kill of blobber 10 by the owner with kill_slash 0.5, then a reward, then a second
   kill; and the former F-23 trigger: shutdown by the delegate wallet 11 slashes the blobber's own
   pool by 0.25 and creates nothing under "blobber:stakepool:11" *)
Example C23_example :
  let '(st, outs) := pv_run 9000 (f64_of_bits 4602678819172646912) pv_witness_state
                       [PKill pv_blobber 10 11; PKill pv_blobber 10 9000; PReward pv_blobber 10 1000; PKill pv_blobber 10 9000] in
  outs = [false; true; true; true] /\
  match pv_pools st pv_blobber 10, pv_provs st 10 with
  | Some sp, Some p => sp_killed sp = true /\ map dp_bal (sp_pools sp) = [500] /\ sp_total_rewards sp = 0 /\ pv_killed p = true
  | _, _ => False
  end /\ pv_pools st pv_blobber 11 = None.
Proof. vm_compute. repeat split; reflexivity. Qed.

Example C23_example_shutdown :
  let '(st, outs) := pv_run 9000 (f64_of_bits 4602678819172646912) pv_witness_state
                       [PShutdown pv_blobber 10 77; PShutdown pv_blobber 10 11; PReward pv_blobber 10 1000] in
  outs = [false; true; true] /\
  match pv_pools st pv_blobber 10, pv_provs st 10 with
  | Some sp, Some p => sp_killed sp = true /\ map dp_bal (sp_pools sp) = [750] /\ sp_total_rewards sp = 0 /\ pv_shut p = true
  | _, _ => False
  end /\ pv_pools st pv_blobber 11 = None.
Proof. vm_compute. repeat split; reflexivity. Qed.
