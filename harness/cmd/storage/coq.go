package main

import (
	"fmt"
	"math"
	"math/big"
	"sort"
	"strings"

	"verifharness/vh"
)

func f64term(f float64) string { return "(f64_of_bits " + vh.ZU(math.Float64bits(f)) + ")" }

func optFork(r int64) string {
	if r < 0 {
		return "None"
	}
	return vh.Some(vh.Z(r))
}

func coqConf(h Hist) string {
	c := h.Conf
	return fmt.Sprintf("{| cf_tu_ns := %d; cf_vr := %s; cf_slash := %s; cf_cancel := %s; cf_kill_slash := %s; "+
		"cf_max_wp := %d; cf_min_wp := %d; cf_max_rp := %d; cf_min_alloc := %d; cf_min_blobber_cap := 1024; cf_mccr := %d; "+
		"cf_min_lock_w := %d; cf_min_lock_r := %d; cf_nvr := %d; cf_free_data := %d; cf_free_parity := %d; cf_free_size := %d; "+
		"cf_free_frac := %s; cf_free_max_wp := %d; cf_free_max_rp := %d; cf_max_indiv_free := %d; cf_max_total_free := %d; "+
		"cf_owner := %d; cf_sc := %d; cf_electra := %s; cf_demeter := %s; cf_ent := %s |}",
		c.TimeUnitSec*1000000000, f64term(c.ValidatorReward), f64term(c.BlobberSlash), f64term(c.CancellationCharge), f64term(c.KillSlash),
		c.MaxWritePrice, c.MinWritePrice, c.MaxReadPrice, c.MinAllocSize, c.MaxChalRounds, c.MinLockW, c.MinLockR, c.NumValRewarded,
		c.FreeData, c.FreeParity, c.FreeSize, f64term(c.FreeReadFrac), c.FreeMaxWP, c.FreeMaxRP, c.MaxIndivFree, c.MaxTotalFree,
		refOwner, refSC, optFork(c.Electra), optFork(c.Demeter), vh.Bool(h.Ent))
}

func u(v uint64) string { return vh.ZU(v) }
func z(v int64) string  { return vh.Z(v) }
func zi(v int) string   { return vh.Z(int64(v)) }

func b2z(b bool) string {
	if b {
		return "1"
	}
	return "0"
}

func coqBlobber(i int, b BlobProj) string {
	pools := make([]string, len(b.Pools))
	for j, p := range b.Pools {
		pools[j] = u(p)
	}
	return fmt.Sprintf("{| bl_id := %d; bl_cap := %s; bl_allocd := %s; bl_saved := %s; bl_killed := %s; bl_shut := %s; bl_notavail := %s; "+
		"bl_wp := %s; bl_rp := %s; bl_pools := %s; bl_offers := %s; bl_spkilled := %s; bl_minstake := %s; bl_rewards := %s; bl_wallet := %d |}",
		i, z(b.Cap), z(b.Allocd), z(b.Saved), vh.Bool(b.Killed), vh.Bool(b.Shut), vh.Bool(b.NotAvail), u(b.WP), u(b.RP), vh.List(pools),
		u(b.Offers), vh.Bool(b.SPKilled), u(b.MinStake), u(b.Rewards), refWallet+i)
}

func coqValidator(i int, v ValProj) string {
	return fmt.Sprintf("{| vl_id := %d; vl_stake := %s; vl_npools := %d; vl_killed := %s; vl_minstake := %s; vl_rewards := %s |}",
		refValidator+i, u(v.Stake), v.NPools, vh.Bool(v.Killed), u(v.MinStake), u(v.Rewards))
}

// the initial state has no allocations (setup creates blobbers, validators, balances only)
func coqInit(run *Run) string {
	s := run.Init
	var bl, vl, bals []string
	for i, b := range s.Blob {
		bl = append(bl, coqBlobber(i, b))
	}
	for i, v := range s.Val {
		vl = append(vl, coqValidator(i, v))
	}
	refs := append([]int{}, run.Track...)
	sort.Ints(refs)
	for _, ref := range refs {
		bals = append(bals, vh.Pair(zi(ref), u(s.Bal[ref])))
	}
	return fmt.Sprintf("{| st_allocs := []; st_blobbers := %s; st_validators := %s; st_rpools := []; st_bals := %s; st_assigners := []; st_reads := []; st_chals := [] |}",
		vh.List(bl), vh.List(vl), vh.List(bals))
}

func digest(s *Snap) []string {
	nal := 0
	cp, wp, cpiv := new(big.Int), new(big.Int), new(big.Int)
	for _, l := range sortedLabels(s.Allocs) {
		a := s.Allocs[l]
		if a == nil || a.Owner == -2 {
			continue
		}
		nal++
		if a.HasCP {
			cp.Add(cp, new(big.Int).SetUint64(a.CP))
		} else {
			cp.Sub(cp, big.NewInt(1))
		}
		wp.Add(wp, new(big.Int).SetUint64(a.WP))
		for _, d := range a.BAs {
			cpiv.Add(cpiv, new(big.Int).SetUint64(d.CPIV))
		}
	}
	allocd, offers, rew, stake, rps := new(big.Int), new(big.Int), new(big.Int), new(big.Int), new(big.Int)
	for _, b := range s.Blob {
		allocd.Add(allocd, big.NewInt(b.Allocd))
		offers.Add(offers, new(big.Int).SetUint64(b.Offers))
		rew.Add(rew, new(big.Int).SetUint64(b.Rewards))
		for _, p := range b.Pools {
			stake.Add(stake, new(big.Int).SetUint64(p))
		}
	}
	for _, v := range s.Val {
		rew.Add(rew, new(big.Int).SetUint64(v.Rewards))
	}
	for _, v := range s.RP {
		rps.Add(rps, new(big.Int).SetUint64(v))
	}
	return []string{zi(nal), bz(cp), bz(wp), bz(cpiv), bz(allocd), bz(offers), bz(rew), bz(stake), bz(rps), u(s.Bal[refSC])}
}

func bz(b *big.Int) string {
	if b.Sign() < 0 {
		return "(" + b.String() + ")"
	}
	return b.String()
}

func flat(run *Run, s *Snap) []string {
	var out []string
	add := func(xs ...string) { out = append(out, xs...) }
	nal := 0
	for _, l := range sortedLabels(s.Allocs) {
		if a := s.Allocs[l]; a != nil && a.Owner != -2 {
			nal++
		}
	}
	add(zi(nal))
	for _, l := range sortedLabels(s.Allocs) {
		a := s.Allocs[l]
		if a == nil || a.Owner == -2 {
			continue
		}
		cp := "(-1)"
		if a.HasCP {
			cp = u(a.CP)
		}
		add(zi(l), zi(a.Owner), z(a.Start), z(a.Exp), z(a.Size), zi(a.Data), zi(a.Parity), u(a.WP), u(a.MTC), u(a.MB), u(a.MTV),
			b2z(a.TPE), z(a.Used), z(a.Tot), z(a.Open), z(a.Succ), z(a.Fail), cp, b2z(a.HasChNode), z(a.TU), zi(len(a.BAs)))
		for _, d := range a.BAs {
			add(zi(d.Blobber), z(d.Size), u(d.WP), u(d.RP), u(d.CPIV), u(d.ChReward), u(d.Penalty), u(d.Returned), u(d.ReadRew),
				z(d.Used), z(d.LF), z(d.LS), z(d.Tot), z(d.Open), z(d.Succ), z(d.Fail), zi(d.Root))
			if d.HasLWM {
				add("1", z(d.LWMSize), z(d.LWMTs), zi(d.LWMPrev))
			} else {
				add("0", "0", "0", "0")
			}
		}
		add(zi(len(a.OpenCh)))
		for _, oc := range a.OpenCh {
			add(zi(oc.Ch), zi(oc.Blobber), z(oc.Created), z(oc.Round))
		}
	}
	for i, b := range s.Blob {
		add(zi(i), z(b.Cap), z(b.Allocd), z(b.Saved), b2z(b.Killed), b2z(b.Shut), b2z(b.NotAvail), u(b.WP), u(b.RP), u(b.Offers),
			b2z(b.SPKilled), u(b.Rewards), zi(len(b.Pools)))
		for _, p := range b.Pools {
			add(u(p))
		}
	}
	for i, v := range s.Val {
		add(zi(refValidator+i), u(v.Stake), b2z(v.Killed), u(v.Rewards))
	}
	refs := append([]int{}, run.Track...)
	sort.Ints(refs)
	for _, ref := range refs {
		if v, ok := s.RP[ref]; ok {
			add(u(v))
		} else {
			add("(-1)")
		}
		add(u(s.Bal[ref]))
	}
	for i := 0; i < 2; i++ {
		if a := s.Ass[refAssigner+i]; a != nil {
			add("1", u(a.Indiv), u(a.Total), u(a.Redeemed), zi(a.Key), zi(len(a.Nonces)))
			for _, n := range a.Nonces {
				add(z(n))
			}
		} else {
			add("0")
		}
	}
	for _, k := range run.ReadKeys {
		if v, ok := s.ReadCtr[k]; ok {
			add(z(v))
		} else {
			add("(-1)")
		}
	}
	for n := 1; n <= len(run.ChID); n++ {
		add(b2z(s.Chals[n]))
	}
	return out
}

func coqCase(run *Run) string {
	var ops, obs []string
	tu := run.Init.TU
	for _, st := range run.Steps {
		ops = append(ops, fmt.Sprintf("(EvTxn (%d, %d, %s))", st.Now, st.Round, st.Model))
		obs = append(obs, vh.Pair(vh.Bool(st.OK), vh.List(digest(st.Post))))
		if st.Post.TU != tu {
			// the stored configuration carries a new time unit (update_settings / commit_settings_changes)
			tu = st.Post.TU
			ops = append(ops, fmt.Sprintf("(EvTimeUnit %d)", tu))
			obs = append(obs, vh.Pair(vh.Bool(true), vh.List(digest(st.Post))))
		}
	}
	refs := append([]int{}, run.Track...)
	sort.Ints(refs)
	var keys, rkeys []string
	for _, r := range refs {
		keys = append(keys, zi(r))
	}
	for _, k := range run.ReadKeys {
		rkeys = append(rkeys, fmt.Sprintf("(%d, %d, %d)", k[0], k[1], k[2]))
	}
	last := run.Init
	if len(run.Steps) > 0 {
		last = run.Steps[len(run.Steps)-1].Post
	}
	var b strings.Builder
	fmt.Fprintf(&b, "{| sc_conf := %s;\n     sc_init := %s;\n     sc_ops := %s;\n     sc_obs := %s;\n     sc_keys := %s; sc_akeys := [%d; %d]; sc_rkeys := %s; sc_nchal := %d%%nat;\n     sc_final := %s |}",
		coqConf(run.H), coqInit(run), vh.List(ops), vh.List(obs), vh.List(keys), refAssigner, refAssigner+1, vh.List(rkeys), len(run.ChID), vh.List(flat(run, last)))
	return b.String()
}
