package main

import (
	"verifharness/stg"
)

// Entity references used in histories and in the Coq model (same integers on both sides).
//   0..          blobber i            ("b<i>")
//   100+i        client i             ("c<i>")
//   200+i        validator i          ("v<i>")
//   300          conf.OwnerId         ("owner")
//   400+i        delegate wallet of blobber i
//   500+i        delegate (staker) of blobber i;  520+i second delegate of blobber i
//   600+i        delegate (staker) of validator i
//   700+i        free-storage assigner i (key "fa<i>")
//   1000         the storage smart contract address
const (
	refClient    = 100
	refValidator = 200
	refOwner     = 300
	refWallet    = 400
	refStaker    = 500
	refStaker2   = 520
	refVStaker   = 600
	refAssigner  = 700
	refSC        = 1000
)

// Op is one transaction of a history. All references are indices/labels, resolved at run time.
type Op struct {
	K  string `json:"k"`            // kind
	Dt int64  `json:"dt,omitempty"` // seconds the clock advances before the txn
	Dr int64  `json:"dr,omitempty"` // extra rounds skipped before the txn
	S  int    `json:"s"`            // sender (entity reference)
	A  int    `json:"a,omitempty"`  // allocation label (1..)
	B  int    `json:"b,omitempty"`  // blobber index
	C  int    `json:"c,omitempty"`  // client reference (marker client, new owner, recipient ...)
	V  uint64 `json:"v,omitempty"`  // transaction value
	N  int64  `json:"n,omitempty"`  // size / counter / nonce / pick index
	M  int64  `json:"m,omitempty"`  // marker timestamp offset relative to now (ts = now + M)
	D  int    `json:"d,omitempty"`  // data shards
	P  int    `json:"p,omitempty"`  // parity shards
	Bl []int  `json:"bl,omitempty"` // blobber list
	X  int    `json:"x,omitempty"`  // variant flags (per kind)
	Rm int    `json:"rm,omitempty"` // blobber to remove (+1; 0 = none)
	Ad int    `json:"ad,omitempty"` // blobber to add (+1; 0 = none)
	F  float64 `json:"f,omitempty"`  // free tokens / individual limit
	G  float64 `json:"g,omitempty"`  // total limit
	W  int64  `json:"w,omitempty"`  // write price (+1; 0 = unchanged) / write range max
	R  int64  `json:"r,omitempty"`  // read price (+1; 0 = unchanged) / read range max
	Cp int64  `json:"cp,omitempty"` // capacity (0 = unchanged)
}

// variant flags
const (
	xBadSig      = 1 << iota // marker signed by a foreign key
	xWrongSender             // transaction sent by somebody else than the natural sender
	xExtend                  // update: extend
	xTPE                     // new alloc / update: third party extendable
	xFailTickets             // challenge response: failing tickets (blobber fails)
	xFewTickets              // challenge response: fewer tickets than the threshold
	xRepeatRoot              // commit: repeat the previous marker
	xBadRoot                 // commit: wrong previous root
	xRollback                // commit: rollback marker
	xBadID                   // read marker: client id does not match the key
	xNotAvail                // update blobber: set not_available
	xAvail                   // update blobber: clear not_available
	xEmptyAlloc              // lock: empty allocation id
	xOwnerChange             // update: change owner to C
	xMalformed               // undecodable input
	xForgeKey                // read marker naming client C but carrying and signed with a foreign key
)

type BlobSpec struct {
	Cap    int64   `json:"cap"`
	WP     uint64  `json:"wp"`
	RP     uint64  `json:"rp"`
	Stake  uint64  `json:"stake"`
	Stake2 uint64  `json:"stake2"` // second delegate (0 = none)
	Charge float64 `json:"charge"`
}

type Hist struct {
	Salt     string     `json:"salt"`
	Conf     stg.Conf   `json:"conf"`
	Blobbers []BlobSpec `json:"blobbers"`
	NVal     int        `json:"nval"`
	VStake   uint64     `json:"vstake"`
	NCli     int        `json:"ncli"`
	CliBal   uint64     `json:"clibal"`
	OwnerBal uint64     `json:"ownerbal"`
	Ent      bool       `json:"ent,omitempty"` // enterprise blobbers and allocations only (needs electra from round 0); oracle only, not modelled
	Ops      []Op       `json:"ops"`
}

const (
	KB    = 1024
	MB    = 1024 * KB
	GB    = 1024 * MB
	CHUNK = 64 * KB
)
