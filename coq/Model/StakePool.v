(* Model of code/go/0chain.net/smartcontract/stakepool/{stakepool,lock,unlock}.go
   (engine E-sp: properties C10, C11, C23, C22). Definitions only; every name is prefixed sp_.

   Coin = uint64 is a Z in [0, 2^64): unchecked Go arithmetic is wrapped explicitly with
   [sp_wrap], checked currency operations return [option].  Identifiers (client / delegate /
   provider ids, Go strings) are integer tokens whose order is the Go string order; a delegate
   pool's map key equals its DelegateID (LockPool is the only code that inserts pools and uses
   txn.ClientID for both), pools are kept as a list sorted by id because the Go code sorts the
   ids before every loop.

   The two float64 computations of the reward split are arguments ([chargef], [sharef]) of the
   model functions, so theorems about exactness hold for every rounding behaviour; the concrete
   Go/amd64 computations are [sp_chargef_go], [sp_sharef_go] (SpecFloat binary64, Model/F64.v). *)
From Coq Require Export List ZArith Bool Lia.
From ZC Require Export Model.F64.
Export ListNotations.
Open Scope Z_scope.

Definition sp_max : Z := 2 ^ 64.
Definition sp_wrap (z : Z) : Z := z mod sp_max.
(* currency.AddCoin *)
Definition sp_add_coin (a b : Z) : option Z := if a + b <? sp_max then Some (a + b) else None.
(* Coin.Int64 *)
Definition sp_int64 (c : Z) : option Z := if c <? 2 ^ 63 then Some c else None.

(* spenum.PoolStatus *)
Definition sp_active : Z := 0.
Definition sp_pending : Z := 1.
Definition sp_deleted : Z := 2.

Record sp_dpool := { dp_id : Z; dp_bal : Z; dp_reward : Z; dp_status : Z; dp_staked_at : Z }.
Record sp_settings := { ss_wallet : Z; ss_maxdel : Z; ss_minstake : Z; ss_charge : f64 }.
Record sp_pool := { sp_pools : list sp_dpool; sp_reward : Z; sp_set : sp_settings; sp_killed : bool }.

Definition sp_with_reward (p : sp_dpool) (r : Z) : sp_dpool :=
  {| dp_id := dp_id p; dp_bal := dp_bal p; dp_reward := r; dp_status := dp_status p; dp_staked_at := dp_staked_at p |}.
Definition sp_with_bal (p : sp_dpool) (b : Z) : sp_dpool :=
  {| dp_id := dp_id p; dp_bal := b; dp_reward := dp_reward p; dp_status := dp_status p; dp_staked_at := dp_staked_at p |}.
Definition sp_upd (sp : sp_pool) (ps : list sp_dpool) (r : Z) : sp_pool :=
  {| sp_pools := ps; sp_reward := r; sp_set := sp_set sp; sp_killed := sp_killed sp |}.

Inductive sp_res (A : Type) := SpOk (a : A) | SpErr | SpPanic.
Arguments SpOk {A} a.
Arguments SpErr {A}.
Arguments SpPanic {A}.

(* StakePool.stake(): checked sum of the balances *)
Fixpoint sp_stake_sum (ps : list sp_dpool) (acc : Z) : option Z :=
  match ps with
  | [] => Some acc
  | p :: tl => match sp_add_coin acc (dp_bal p) with Some a => sp_stake_sum tl a | None => None end
  end.
Definition sp_stake (sp : sp_pool) : option Z := sp_stake_sum (sp_pools sp) 0.

(* unbounded sums used by the statements *)
Definition sp_sum_rewards (ps : list sp_dpool) : Z := fold_right (fun p a => dp_reward p + a) 0 ps.
Definition sp_sum_bal (ps : list sp_dpool) : Z := fold_right (fun p a => dp_bal p + a) 0 ps.
Definition sp_total_rewards (sp : sp_pool) : Z := sp_reward sp + sp_sum_rewards (sp_pools sp).
Definition sp_sum (l : list Z) : Z := fold_right Z.add 0 l.

(* the concrete float64 computations of the Go code *)
(* currency.Float64ToCoin(sp.Settings.ServiceChargeRatio * float64(value)) *)
Definition sp_chargef_go (ratio : f64) (value : Z) : option Z :=
  f64_float_to_coin (f64_mul ratio (f64_of_Z value)).
(* currency.MultFloat64(valueLeft, float64(pool.Balance) / float64(stake)) *)
Definition sp_sharef_go (value_left bal stake : Z) : option Z :=
  f64_mult_coin value_left (f64_div (f64_of_Z bal) (f64_of_Z stake)).

Section Distribute.
  Variable chargef : f64 -> Z -> option Z.
  Variable sharef : Z -> Z -> Z -> option Z.

  (* the proportional loop of DistributeRewards / DistributeRewardsRandN over [ps]:
       for pool { if valueBalance == 0 {break}; reward := MultFloat64(valueLeft, ratio);
                  if reward > valueBalance {reward = valueBalance; valueBalance = 0} else {valueBalance -= reward}
                  pool.Reward = AddCoin(pool.Reward, reward); spUpdate.DelegateRewards[id] = reward }
     returns the pools, the per pool entries of spUpdate.DelegateRewards and the final valueBalance *)
  Fixpoint sp_share_loop (vl stake vb : Z) (ps : list sp_dpool) : option (list sp_dpool * list Z * Z) :=
    match ps with
    | [] => Some ([], [], vb)
    | p :: tl =>
        if vb =? 0 then Some (ps, map (fun _ => 0) ps, 0)
        else
          match sharef vl (dp_bal p) stake with
          | None => None
          | Some r =>
              let '(r', vb') := if r >? vb then (vb, 0) else (r, vb - r) in
              match sp_add_coin (dp_reward p) r' with
              | None => None
              | Some nr =>
                  match sp_share_loop vl stake vb' tl with
                  | None => None
                  | Some (tl', incs, vbf) => Some (sp_with_reward p nr :: tl', r' :: incs, vbf)
                  end
              end
          end
    end.

  (* pools[i].Reward++ ; spUpdate.DelegateRewards[id]++ for the first k pools (unchecked ++) *)
  Fixpoint sp_bump_first (k : nat) (ps : list sp_dpool) (incs : list Z) : list sp_dpool * list Z :=
    match k, ps, incs with
    | S k', p :: tl, i :: itl =>
        let '(tl', itl') := sp_bump_first k' tl itl in
        (sp_with_reward p (sp_wrap (dp_reward p + 1)) :: tl', sp_wrap (i + 1) :: itl')
    | _, _, _ => (ps, incs)
    end.

  (* AddCoin(pool.Reward, share); AddInt64(DelegateRewards[id], iShare) for every pool *)
  Fixpoint sp_add_all (share : Z) (ps : list sp_dpool) (incs : list Z) : option (list sp_dpool * list Z) :=
    match ps, incs with
    | p :: tl, i :: itl =>
        match sp_add_coin (dp_reward p) share, sp_add_coin i share, sp_add_all share tl itl with
        | Some nr, Some ni, Some (tl', itl') => Some (sp_with_reward p nr :: tl', ni :: itl')
        | _, _, _ => None
        end
    | _, _ => Some (ps, incs)
    end.

  (* equallyDistributeRewards(coins, pools, spUpdate) *)
  Definition sp_equal (coins : Z) (ps : list sp_dpool) (incs : list Z) : sp_res (list sp_dpool * list Z) :=
    let n := Z.of_nat (length ps) in
    if n =? 0 then SpPanic (* DistributeCoin divides by zero *)
    else
      let share := coins / n in
      let r := coins mod n in
      match sp_int64 coins with
      | None => SpErr
      | Some c =>
          if share =? 0 then SpOk (sp_bump_first (Z.to_nat c) ps incs)
          else match sp_add_all share ps incs with
               | None => SpErr
               | Some (ps', incs') => SpOk (sp_bump_first (Z.to_nat r) ps' incs')
               end
      end.

  (* common head of both functions after the early returns:
     service charge, credited to the provider; returns (new provider reward, charge, valueLeft) *)
  Definition sp_take_charge (sp : sp_pool) (value : Z) : option (Z * Z * Z) :=
    match chargef (ss_charge (sp_set sp)) value with
    | None => None
    | Some charge0 =>
        (* if serviceCharge > value { serviceCharge = value }: float64(value) can round up *)
        let charge := if charge0 >? value then value else charge0 in
        match (if charge >? 0 then sp_add_coin (sp_reward sp) charge else Some (sp_reward sp)) with
        | None => None
        | Some sr => Some (sr, charge, sp_wrap (value - charge))
        end
    end.

  (* the deferred assertion of DistributeRewards: spUpdate.Reward + sum DelegateRewards (uint64
     additions) must equal value, otherwise logging.Logger.Panic *)
  Definition sp_deferred_ok (charge : Z) (incs : list Z) (value : Z) : bool :=
    sp_wrap (charge + sp_sum incs) =? value.

  (* DistributeRewards(value): body, returning also what spUpdate recorded *)
  Definition sp_distribute_body (sp : sp_pool) (value : Z) : sp_res (sp_pool * Z * list Z) :=
    match sp_pools sp with
    | [] =>
        match sp_add_coin (sp_reward sp) value with
        | None => SpErr
        | Some r => SpOk (sp_upd sp [] r, value, [])
        end
    | _ :: _ =>
        match sp_take_charge sp value with
        | None => SpErr
        | Some (sr, charge, vl) =>
            if vl =? 0 then SpOk (sp_upd sp (sp_pools sp) sr, charge, [])
            else
              match sp_stake sp with
              | None => SpErr
              | Some stake =>
                  if stake =? 0 then SpErr (* "no stake", after the charge was added (F-10b) *)
                  else
                    match sp_share_loop vl stake vl (sp_pools sp) with
                    | None => SpErr
                    | Some (ps1, incs1, vb) =>
                        if vb >? 0 then
                          match sp_equal vb ps1 incs1 with
                          | SpOk (ps2, incs2) => SpOk (sp_upd sp ps2 sr, charge, incs2)
                          | SpErr => SpErr
                          | SpPanic => SpPanic
                          end
                        else SpOk (sp_upd sp ps1 sr, charge, incs1)
                    end
              end
        end
    end.

  Definition sp_distribute (sp : sp_pool) (value : Z) : sp_res sp_pool :=
    match sp_stake sp with
    | None => SpErr
    | Some total =>
        if (value =? 0) || sp_killed sp || (total <? ss_minstake (sp_set sp)) then SpOk sp
        else
          match sp_distribute_body sp value with
          | SpOk (sp', charge, incs) => if sp_deferred_ok charge incs value then SpOk sp' else SpPanic
          | SpErr => SpErr
          | SpPanic => SpPanic
          end
    end.

  (* getRandPools: all pools when n >= len, else the pools at the recorded rand.Perm draws *)
  Definition sp_selection (n : Z) (draws : list nat) (len : nat) : list nat :=
    if n >=? Z.of_nat len then seq 0 len else draws.

  Definition sp_dflt : sp_dpool := {| dp_id := 0; dp_bal := 0; dp_reward := 0; dp_status := 0; dp_staked_at := 0 |}.

  Fixpoint sp_replace_nth (i : nat) (x : sp_dpool) (l : list sp_dpool) : list sp_dpool :=
    match l, i with
    | [], _ => []
    | _ :: tl, O => x :: tl
    | y :: tl, S i' => y :: sp_replace_nth i' x tl
    end.

  Fixpoint sp_write_back (sel : list nat) (vals : list sp_dpool) (ps : list sp_dpool) : list sp_dpool :=
    match sel, vals with
    | i :: sl, v :: vl => sp_write_back sl vl (sp_replace_nth i v ps)
    | _, _ => ps
    end.

  (* DistributeRewardsRandN(value, seed, randN): [draws] = the recorded rand.Perm result *)
  Definition sp_distribute_randn (sp : sp_pool) (value n : Z) (draws : list nat) : sp_res sp_pool :=
    match sp_stake sp with
    | None => SpErr
    | Some total =>
        if (value =? 0) || sp_killed sp || (total <? ss_minstake (sp_set sp)) then SpOk sp
        else
          match sp_pools sp with
          | [] =>
              match sp_add_coin (sp_reward sp) value with
              | None => SpErr
              | Some r => SpOk (sp_upd sp [] r)
              end
          | _ :: _ =>
              match sp_take_charge sp value with
              | None => SpErr
              | Some (sr, charge, vl) =>
                  if vl =? 0 then SpOk (sp_upd sp (sp_pools sp) sr)
                  else
                    let sel := sp_selection n draws (length (sp_pools sp)) in
                    let chosen := map (fun i => nth i (sp_pools sp) sp_dflt) sel in
                    match sp_stake_sum chosen 0 with
                    | None => SpErr
                    | Some stake =>
                        if stake =? 0 then
                          (* nobody to share with: the remainder goes to the provider *)
                          match sp_add_coin sr vl with
                          | None => SpErr
                          | Some sr2 => SpOk (sp_upd sp (sp_pools sp) sr2)
                          end
                        else
                          match sp_share_loop vl stake vl chosen with
                          | None => SpErr
                          | Some (ps1, incs1, vb) =>
                              if vb >? 0 then
                                match sp_equal vb ps1 incs1 with
                                | SpOk (ps2, _) => SpOk (sp_upd sp (sp_write_back sel ps2 (sp_pools sp)) sr)
                                | SpErr => SpErr
                                | SpPanic => SpPanic
                                end
                              else SpOk (sp_upd sp (sp_write_back sel ps1 (sp_pools sp)) sr)
                          end
                    end
              end
          end
    end.
End Distribute.

(* ---------- SlashFraction / Kill ---------- *)

Definition sp_f64_one : f64 := f64_of_Z 1.

Fixpoint sp_slash_pools (reduction : f64) (ps : list sp_dpool) : option (list sp_dpool) :=
  match ps with
  | [] => Some []
  | p :: tl =>
      match f64_mult_coin (dp_bal p) reduction, sp_slash_pools reduction tl with
      | Some b, Some tl' => Some (sp_with_bal p b :: tl')
      | _, _ => None
      end
  end.

(* SlashFraction(killSlashFraction): None = error *)
Definition sp_slash_fraction (sp : sp_pool) (slash : f64) : option sp_pool :=
  if f64_eqb slash f64_zero then Some sp
  else if f64_ltb slash f64_zero || f64_gtb slash sp_f64_one then None
  else
    let red0 := f64_sub sp_f64_one slash in
    let red1 := if f64_ltb red0 f64_zero then f64_zero else red0 in
    let red := if f64_gtb red1 sp_f64_one then sp_f64_one else red1 in
    match sp_slash_pools red (sp_pools sp) with
    | None => None
    | Some ps => Some (sp_upd sp ps (sp_reward sp))
    end.

Definition sp_set_killed (sp : sp_pool) : sp_pool :=
  {| sp_pools := sp_pools sp; sp_reward := sp_reward sp; sp_set := sp_set sp; sp_killed := true |}.

(* StakePool.Kill: HasBeenKilled = true, then SlashFraction *)
Definition sp_kill (sp : sp_pool) (slash : f64) : option sp_pool := sp_slash_fraction (sp_set_killed sp) slash.

(* ---------- lock / unlock ---------- *)

Record sp_txn := { tx_client : Z; tx_to : Z; tx_value : Z; tx_time : Z }.
Record sp_vs := { vs_min : Z; vs_max : Z }.
(* state.Transfer *)
Record sp_transfer := { tr_from : Z; tr_to : Z; tr_amount : Z }.

Fixpoint sp_find (id : Z) (ps : list sp_dpool) : option sp_dpool :=
  match ps with
  | [] => None
  | p :: tl => if dp_id p =? id then Some p else sp_find id tl
  end.

(* insert keeping the list sorted by id (the map insert followed by the sorted iteration) *)
Fixpoint sp_insert (x : sp_dpool) (ps : list sp_dpool) : list sp_dpool :=
  match ps with
  | [] => [x]
  | p :: tl => if dp_id x <? dp_id p then x :: ps
               else if dp_id x =? dp_id p then x :: tl
               else p :: sp_insert x tl
  end.

Fixpoint sp_remove (id : Z) (ps : list sp_dpool) : list sp_dpool :=
  match ps with
  | [] => []
  | p :: tl => if dp_id p =? id then tl else p :: sp_remove id tl
  end.

(* validateLockRequest: true = accepted *)
Definition sp_validate_lock (tx : sp_txn) (sp : sp_pool) (vs : sp_vs) : bool :=
  if tx_value tx =? 0 then false
  else if tx_value tx <? vs_min vs then false
  else
    let before := match sp_find (tx_client tx) (sp_pools sp) with Some p => dp_bal p | None => 0 end in
    match sp_add_coin before (tx_value tx) with
    | None => false
    | Some after =>
        if after >? vs_max vs then false
        else if (Z.of_nat (length (sp_pools sp)) >=? ss_maxdel (sp_set sp))
                && (match sp_find (tx_client tx) (sp_pools sp) with Some _ => false | None => true end)
        then false else true
    end.

(* LockPool(txn, status Active): [cbal] = the client's balance leaf (None when absent) *)
Definition sp_lock_pool (tx : sp_txn) (cbal : option Z) (sp : sp_pool) : option (sp_pool * list sp_transfer) :=
  match cbal with
  | None => None
  | Some bal =>
      if tx_value tx >? bal then None
      else
        let tr := {| tr_from := tx_client tx; tr_to := tx_to tx; tr_amount := tx_value tx |} in
        match sp_find (tx_client tx) (sp_pools sp) with
        | None =>
            let dp := {| dp_id := tx_client tx; dp_bal := tx_value tx; dp_reward := 0;
                         dp_status := sp_active; dp_staked_at := tx_time tx |} in
            Some (sp_upd sp (sp_insert dp (sp_pools sp)) (sp_reward sp), [tr])
        | Some dp =>
            if negb ((dp_status dp =? sp_active) || (dp_status dp =? sp_pending)) then None
            else match sp_add_coin (dp_bal dp) (tx_value tx) with
                 | None => None
                 | Some b =>
                     let dp' := {| dp_id := dp_id dp; dp_bal := b; dp_reward := dp_reward dp;
                                   dp_status := dp_status dp; dp_staked_at := tx_time tx |} in
                     Some (sp_upd sp (sp_insert dp' (sp_pools sp)) (sp_reward sp), [tr])
                 end
        end
  end.

(* StakePoolLock = validateLockRequest; LockPool; Save; EmitStakeEvent *)
Definition sp_stake_pool_lock_core (tx : sp_txn) (cbal : option Z) (sp : sp_pool) (vs : sp_vs)
  : option (sp_pool * list sp_transfer) :=
  if sp_validate_lock tx sp vs then sp_lock_pool tx cbal sp else None.

(* EmitStakeEvent recomputes the total stake with checked additions: an overflow fails the
   transaction after everything else succeeded *)
Definition sp_stake_pool_lock (tx : sp_txn) (cbal : option Z) (sp : sp_pool) (vs : sp_vs)
  : option (sp_pool * list sp_transfer) :=
  match sp_stake_pool_lock_core tx cbal sp vs with
  | Some (sp', trs) => match sp_stake sp' with Some _ => Some (sp', trs) | None => None end
  | None => None
  end.

(* MintRewards(clientId): transfers from the minter, new pool *)
Definition sp_mint_rewards (minter client : Z) (sp : sp_pool) : option (sp_pool * list sp_transfer * Z) :=
  let pay_charge := (client =? ss_wallet (sp_set sp)) && (sp_reward sp >? 0) in
  let charge := if pay_charge then sp_reward sp else 0 in
  let t1 := if pay_charge then [{| tr_from := minter; tr_to := ss_wallet (sp_set sp); tr_amount := sp_reward sp |}] else [] in
  let r1 := if pay_charge then 0 else sp_reward sp in
  match sp_find client (sp_pools sp) with
  | None => if charge =? 0 then None else Some (sp_upd sp (sp_pools sp) r1, t1, charge)
  | Some dp =>
      if dp_reward dp >? 0 then
        Some (sp_upd sp (sp_insert (sp_with_reward dp 0) (sp_pools sp)) r1,
              t1 ++ [{| tr_from := minter; tr_to := client; tr_amount := dp_reward dp |}],
              sp_wrap (dp_reward dp + charge))
      else Some (sp_upd sp (sp_pools sp) r1, t1, charge)
  end.

(* StakePoolUnlock after the lock-period test: UnlockPool (MintRewards + Int64 casts), Empty,
   DeletePool, Save.  [offers] = Some total_offers for a storagesc stake pool (its Empty keeps the
   remaining stake above the offers), None for the plain stakepool.Empty. *)
Definition sp_unlock_core (minter ssc client : Z) (offers : option Z) (sp : sp_pool)
  : option (sp_pool * list sp_transfer) :=
  match sp_find client (sp_pools sp) with
  | None => None
  | Some dp =>
      match sp_mint_rewards minter client sp with
      | None => None
      | Some (sp1, trs, amount) =>
          match sp_int64 (dp_bal dp), sp_int64 amount with
          | Some _, Some _ =>
              let guard :=
                match offers with
                | None => true
                | Some off =>
                    match sp_add_coin off (dp_bal dp), sp_stake sp1 with
                    | Some required, Some staked => negb (staked <? required)
                    | _, _ => false
                    end
                end in
              if guard then
                Some (sp_upd sp1 (sp_remove client (sp_pools sp1)) (sp_reward sp1),
                      trs ++ [{| tr_from := ssc; tr_to := client; tr_amount := dp_bal dp |}])
              else None
          | _, _ => None
          end
      end
  end.

(* ... followed by EmitStakeEvent (checked total of the remaining stake) *)
Definition sp_unlock (minter ssc client : Z) (offers : option Z) (sp : sp_pool)
  : option (sp_pool * list sp_transfer) :=
  match sp_unlock_core minter ssc client offers sp with
  | Some (sp', trs) => match sp_stake sp' with Some _ => Some (sp', trs) | None => None end
  | None => None
  end.

(* the lock period test of StakePoolUnlock: StakedAt > 0 && !(stakedAt + minLock < now) -> reject.
   [now] is the wall clock of the executing node (time.Now(), not the transaction time: F-06c) *)
Definition sp_unlock_allowed (dp : sp_dpool) (min_lock now : Z) : bool :=
  if dp_staked_at dp >? 0 then dp_staked_at dp + min_lock <? now else true.
