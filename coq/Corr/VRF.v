(* Correspondence for C33: a case is one miner's view of one round run on the real miner code
   (mc.AddVRFShare for every arriving share, then the round's seed).  Signatures are compared
   through discrete logarithms relative to H(message) (None = not a signature on this message:
   undecodable, or signed for another round / timeout / previous seed).  [vzc_check] re-runs the
   generic admission (Model/VRFAdmit.v) with the Z-instance of verification, the message format
   (Model/VRFMsg.v) and the recovery relation of Model/DKGZ.v. *)
From Coq Require Import List ZArith Bool String.
From ZC Require Import Base.Corr Model.DKGZ Model.VRFAdmit Model.VRFMsg Model.VRFZ.
Import ListNotations.
Open Scope Z_scope.

Record vzc_case := {
  vzc_t : nat;
  vzc_round : Z; vzc_timeout : Z; vzc_prev : Z;
  vzc_msg : string;               (* GetBlsMessageForRound as observed *)
  vzc_members : list (Z * Z);     (* (party id, aggregated secret key) of the magic block's miners *)
  vzc_gsk : Z;                    (* sum of the dealers' secrets *)
  vzc_evs : list vzc_ev;          (* arriving shares *)
  vzc_oks : list bool;            (* AddVRFShare results *)
  vzc_admitted : list Z;          (* party ids of Round.GetVRFShares at the end *)
  vzc_hints : list Z;             (* Lagrange coefficient candidates for the admitted ids, admission order *)
  vzc_seed : option Z;            (* dlog of the signature whose hash is the round's VRF output; None = no seed *)
  vzc_mpks : list ((bool * bool) * (nat * bool));
     (* ^ contributeMpk calls: ((sender in the DKG set, already contributed), (coefficients sent, accepted)) *)
  vzc_reagg : list ((list (list Z) * Z) * (Z * bool))
     (* a DKG object aggregated again after the dealer set changed: ((polynomials of the FINAL dealers, the
        party's id), (its aggregated secret afterwards, its own public key share = that secret's public key)) *)
}.

Definition vzc_check (c : vzc_case) : bool :=
  let '(st, oks) := va_run vze_tc vz_same (vz_verify (vzc_members c)) (vzc_t c) [] (vzc_evs c) in
  String.eqb (vrfm_msg (vzc_round c) (vzc_timeout c) (vzc_prev c)) (vzc_msg c)
  && list_eqb Bool.eqb oks (vzc_oks c)
  && Nat.eqb (List.length st) (List.length (vzc_admitted c))
  && forallb (fun ev => existsb (Z.eqb (vze_id ev)) (vzc_admitted c)) st
  && (if va_has_seed (vzc_t c) st
      then match vzc_seed c with
           | Some w => Z.eqb w (vzc_gsk c)
                       && dz_recover_ok dz_r (map (fun ev => (vze_id ev, match vze_dlog ev with Some d => d | None => 0 end)) st)
                                        (vzc_hints c) (Some w)
           | None => false
           end
      else match vzc_seed c with None => true | Some _ => false end)
  && forallb (fun v => let '((mem, had), (len, ok)) := v in
                       Bool.eqb (va_mpk_accept (vzc_t c) mem had len) ok) (vzc_mpks c)
  && forallb (fun v => let '((css, id), (si, pkok)) := v in
                       Z.eqb (dz_sk dz_r css id) si && pkok) (vzc_reagg c).
