(* Correspondence for C44: the engine computes, independently in Go, the set of undisciplined
   access pairs of the generated table (benign exclusions applied); [lsc_check] recomputes it with
   the Coq definitions and compares the two sets of signatures. *)
From ZC Require Import Base.Corr Model.Lockset Gen.LockTable.
Open Scope string_scope.

Record lsc_case := { lsc_sigs : list string; lsc_rows : nat; lsc_excl : nat }.

Definition lsc_subset (l1 l2 : list string) : bool :=
  forallb (fun s => existsb (String.eqb s) l2) l1.

Definition lsc_check (c : lsc_case) : bool :=
  let mine := lt_offenders (lt_benign lt_excl) lt_table in
  lsc_subset mine (lsc_sigs c) && lsc_subset (lsc_sigs c) mine &&
  Nat.eqb (List.length lt_table) (lsc_rows c) && Nat.eqb (List.length lt_excl) (lsc_excl c).
