// Burn-ticket histories through the real EventDb.ProcessEvents (in-memory sqlite): 2-5 blocks of burns to 2-3
// Ethereum addresses; nonces count up per address, so (A, n) and (B, n) both occur, within a block and across blocks.
// After every block the stored tickets of every address must be exactly the tickets emitted so far; a block that
// repeats a stored (address, nonce) is rejected as a whole and changes nothing.
package main

import (
	"context"
	"fmt"
	"sort"
	"time"

	"0chain.net/core/config"
	"0chain.net/smartcontract/dbs/event"
	"github.com/0chain/common/core/currency"
	"verifharness/vh"
)

type tburn struct {
	Addr   int   `json:"addr"`
	Nonce  int64 `json:"nonce"`
	Amount int64 `json:"amount"`
}

type tblock struct {
	Burns []tburn `json:"burns"`
	Dup   bool    `json:"dup,omitempty"` // repeats a stored (address, nonce): must be rejected
}

type thist struct {
	Blocks []tblock `json:"blocks"`
}

var tdb *event.EventDb
var thistSeq int

func ticketDb() *event.EventDb {
	if tdb == nil {
		var err error
		tdb, err = event.NewInMemoryEventDb(config.DbAccess{}, config.DbSettings{PartitionChangePeriod: 1000000, PermanentPartitionChangePeriod: 1000000})
		must(err)
	}
	return tdb
}

func genTickets(r *vh.Rand) thist {
	var h thist
	na := r.Range(2, 3)
	next := map[int]int64{}
	var stored []tburn
	for b := 0; b < r.Range(2, 5); b++ {
		var blk tblock
		for i := 0; i < r.Range(1, 4); i++ {
			a := 1 + r.Intn(na)
			next[a]++
			blk.Burns = append(blk.Burns, tburn{a, next[a], int64(r.Range(1, 1000))})
		}
		stored = append(stored, blk.Burns...)
		h.Blocks = append(h.Blocks, blk)
	}
	if r.Chance(1, 4) && len(stored) > 0 {
		d := stored[r.Intn(len(stored))]
		h.Blocks = append(h.Blocks, tblock{Burns: []tburn{{d.Addr, d.Nonce, d.Amount + 1}}, Dup: true})
	}
	return h
}

type tres struct {
	blocks []blockIn
	outs   []blockOut
	vs     []viol
}

func runTickets(h thist, round *int64) tres {
	db := ticketDb()
	thistSeq++
	addr := func(a int) string { return fmt.Sprintf("0xh%dA%d", thistSeq, a) }
	var res tres
	want := map[int]map[string]int64{} // addr -> "nonce/hash" -> amount
	stored := func(a int) map[string]int64 {
		ts, err := db.GetBurnTickets(addr(a))
		must(err)
		m := map[string]int64{}
		for _, t := range ts {
			m[fmt.Sprintf("%d/%s", t.Nonce, t.Hash)] = int64(t.Amount)
		}
		return m
	}
	add := func(sig, f string, a ...interface{}) {
		res.vs = append(res.vs, viol{"C20:" + sig, fmt.Sprintf(f, a...)})
	}
	for bi, blk := range h.Blocks {
		*round++
		rd := *round
		var evs []event.Event
		bin := blockIn{Round: rd}
		for i, b := range blk.Burns {
			hash := fmt.Sprintf("h-%d", hashTok(rd, i))
			evs = append(evs, event.Event{BlockNumber: rd, TxHash: hash, Type: event.TypeStats, Tag: event.TagAddBurnTicket, Index: addr(b.Addr),
				Data: &event.BurnTicket{EthereumAddress: addr(b.Addr), Hash: hash, Amount: currency.Coin(b.Amount), Nonce: b.Nonce}})
			bin.Events = append(bin.Events, ev{Kind: "burn", Index: b.Addr, Amount: b.Amount})
		}
		ctx, cancel := context.WithTimeout(context.Background(), 30*time.Second)
		_, _, err := db.ProcessEvents(ctx, evs, rd, fmt.Sprintf("block-%d", rd), len(evs), func(event.BlockEvents) error { return nil }, event.CommitNow())
		cancel()
		if blk.Dup {
			if err == nil {
				add("duplicate-burn-ticket-accepted", "block %d repeats a stored (address, nonce) and was processed without error", bi)
			}
		} else {
			if err != nil {
				add("burn-tickets-of-block-not-stored", "block %d (%d burns, nonces overlapping between addresses) was rolled back: %v - none of its burn tickets reach the query DB", bi, len(blk.Burns), err)
			}
			for i, b := range blk.Burns {
				if want[b.Addr] == nil {
					want[b.Addr] = map[string]int64{}
				}
				want[b.Addr][fmt.Sprintf("%d/h-%d", b.Nonce, hashTok(rd, i))] = b.Amount
			}
		}
		out := blockOut{merged: map[string][]item{}}
		for a, w := range want {
			got := stored(a)
			ok := len(got) == len(w)
			for k, v := range w {
				ok = ok && got[k] == v
			}
			if !ok && err == nil {
				add("burn-tickets-stored-differ", "after block %d address %d has %d stored tickets, %d were emitted", bi, a, len(got), len(w))
			}
		}
		if !blk.Dup {
			// model case of the block: the merged event carries every ticket, the handler stores one row each
			for i, b := range blk.Burns {
				it := item{hashTok(rd, i), b.Amount}
				out.merged["burn"] = append(out.merged["burn"], it)
				if _, ok := stored(b.Addr)[fmt.Sprintf("%d/h-%d", b.Nonce, hashTok(rd, i))]; ok {
					out.tickets = append(out.tickets, it)
				}
			}
			out.order = []string{"burn"}
			res.blocks = append(res.blocks, bin)
			res.outs = append(res.outs, out)
		}
	}
	sort.SliceStable(res.vs, func(i, j int) bool { return res.vs[i].sig < res.vs[j].sig })
	return res
}
