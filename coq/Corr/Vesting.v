(* Correspondence for C16: a configuration and a request list run on the real vestingsc
   contract (one pool), the outcome of every request (queued transfers) and the final pool
   (balance; per destination id, amount, vested, move). [vs_check] re-runs the model with the
   integer share function of the code (vs_share_int). *)
From ZC Require Import Base.Corr Model.Vesting.
Open Scope Z_scope.

Record vs_case := { vsc_conf : vs_conf; vsc_ops : list vs_op; vsc_outs : list vs_out;
                    vsc_final : option (Z * list (Z * Z * Z * Z)) }.

Definition vs_tr_eqb (x y : Z * Z * Z) : bool := zz_eqb (fst x) (fst y) && (snd x =? snd y).

Definition vs_out_eqb (a b : vs_out) : bool :=
  match a, b with
  | VsOk t1, VsOk t2 => list_eqb vs_tr_eqb t1 t2
  | VsFail, VsFail => true
  | _, _ => false
  end.

Definition vs_dest_view (d : vs_dest) : Z * Z * Z * Z := (vd_id d, vd_amount d, vd_vested d, vd_move d).
Definition vs_q_eqb (x y : Z * Z * Z * Z) : bool := vs_tr_eqb (fst x) (fst y) && (snd x =? snd y).

Definition vs_check (c : vs_case) : bool :=
  let '(st, outs) := vs_run vs_share_int (vsc_conf c) None (vsc_ops c) in
  list_eqb vs_out_eqb outs (vsc_outs c) &&
  option_eqb (pair_eqb Z.eqb (list_eqb vs_q_eqb))
    (match st with Some p => Some (vp_balance p, map vs_dest_view (vp_dests p)) | None => None end)
    (vsc_final c).

(* same name as announced to the integrator *)
Definition vs_check_exact : vs_case -> bool := vs_check.
